"""C07 — Expression identity is structural identity (sound hash-consing).

Layers
  model        lean/FAVerif/Models/HashCons.lean  (Context._register_expression, Expr._compute_serialized,
               Expr._two_level_intkey, Type equality, Python ==/`is` on constant values — as written)
  theorems     lean/FAVerif/Props/C07.lean         (registry invariant, key injectivity, same id <=> structurally
               identical for ALL histories, no late alias, dense ids; `_partial`/`_plain` + negation witness for
               constants: equal NaN objects are not shared; regression theorem: -0.0 and 0.0 are distinct since ab6dc38)
  tie          correspondence: seeded construction histories executed on a real functional_algorithms.Context and on
               Drivers/HashCons.lean; per construction the real (fresh|hit|RuntimeError, intkey, key) is diffed
               against the model's; plus Python `==`/`is`/tuple-compare on value pairs against the model's pyEq/tupleEq.
  search       independent structural oracle (tuples of kind + operand OBJECT numbers + exact constant content)
               against object identity on the real context, also through compound API calls the model does not
               cover (default likes, Python-number operands, pow special cases).
"""

import json
import os

from ..runner import REPO, ROOT, Infra
from ..workers import c07_worker as W

THEOREMS = ["inv", "inv_meaning", "key_inj", "value_class", "code_struct_eq_iff", "same_iff_struct_partial",
            "same_iff_struct_plain", "no_late_alias", "returned_is_requested", "hit_is_earlier_fresh", "fresh_ids_dense",
            "no_runtime_error", "const_value_class_nan_free", "neg_zero_distinct_regression", "fresh_nan_split", "shared_nan_same", "same_iff_struct_fails",
            "python_eq_facts"]
SEARCHED = [
    "full statement on the real code (constants compared by exact content): object identity vs the structural oracle",
    "compound API calls (Context.constant defaults, Python numbers as operands via normalize, Context.pow special cases)",
    "contexts with enable_alt=True (constant values held as expressions of the alternate context), except folding of all-constant operations",
    "Type objects are per-context singletons (structurally equal types are one object)",
    "intkeys of the registered expressions are exactly 0..counter-1",
]
TRUSTED = [
    "Lean 4 kernel; axioms propext, Classical.choice, Quot.sound only",
    "hand model Models/HashCons.lean, tied by correspondence on seeded histories (this run)",
    "Python value model PyVal: exact numeric ==, identity shortcut in tuple/dict comparison, str(value) injective on the non-NaN values "
    "of one type and showing the sign of zero, every NaN printing as nan, hash consistent with == within one type "
    "(validated against CPython/numpy on value pairs each run); dict lookup = first entry equal under that comparison",
    "key tuples of the three shapes (symbol / z_constant / other kind) never compare equal for kinds other than symbol, constant, z_constant",
    "normalize_like, normalize, Expr.__new__ assertions and enable_alt contexts are preprocessing outside the model "
    "(the model receives the already normalised like operand); they are exercised by the search only",
]

# --------------------------------------------------------------------------------------------------
# generator pools

NAMES = ["x", "y", "z", "w", "_float_value", "_integer_value", "_boolean_value", "x y", "λ", "", "X"]
TYPES = [
    {"s": "float"}, {"s": "float16"}, {"s": "float32"}, {"s": "float64"}, {"s": "complex"}, {"s": "complex64"},
    {"s": "complex128"}, {"s": "int"}, {"s": "int8"}, {"s": "int32"}, {"s": "int64"}, {"s": "bool"}, {"s": "boolean"},
    {"py": "float"}, {"py": "int"}, {"py": "bool"}, {"py": "complex"}, {"np": "float32"}, {"np": "float64"},
    {"np": "int16"}, {"np": "int32"}, {"np": "complex64"}, {"s": "mytype"}, {"s": "othertype"},
    {"s": "list[float32, float64]"}, {"s": "list[float32]"}, {"T": ["list", [{"s": "float32"}, {"s": "float64"}]]},
    {"T": ["list", [{"s": "list[float32]"}, {"s": "int8"}]]}, {"T": ["list", None]}, {"T": ["float", 32]}, {"T": ["float", 64]},
    {"T": ["integer", 8]}, {"T": ["array", None]}, {"s": "array"}, {"T": ["array", {"s": "float32"}]},
    {"T": ["array", {"s": "float64"}]}, {"T": ["type", "mytype"]}, {"T": ["boolean", 1]},
]
COMMON_TYPES = [{"s": "float32"}, {"s": "float64"}, {"s": "complex64"}, {"s": "int32"}, {"s": "bool"}, {"py": "float"}]
INT_TYPES = [{"s": "int"}, {"s": "int32"}, {"s": "int64"}, {"py": "int"}, {"np": "int32"}]

F64 = [0, 1 << 63, 0x3FF0000000000000, 0xBFF0000000000000, 0x3FE0000000000000, 0x4000000000000000, 0x3FF8000000000000,
       0x3FB999999999999A, 0x7FF0000000000000, 0xFFF0000000000000, 0x7FF8000000000000, 0x7FF8000000000001,
       0xFFF8000000000000, 1, 0x7FEFFFFFFFFFFFFF, 0x4340000000000000, 0x4480F0CF064DD592]
F32 = [0, 0x80000000, 0x3F800000, 0xBF800000, 0x7FC00000, 0x7FC00001, 0x7F800000, 0x3DCCCCCD, 1, 0x40000000]
F16 = [0, 0x8000, 0x3C00, 0x7E00, 0x7C00, 1, 0x4000]
ZERO64 = [0, 1 << 63]
VALUES = {
    "bool": [0, 1],
    # -1/-2 and 0/2**61-1 are CPython hash collisions (a registry keyed by hash(key) would alias them)
    "int": ["0", "1", "-1", "-2", "2", "3", str(2**31), str(2**53), str(2**61 - 1), str(2**63), str(2**64 + 1), str(-(2**70)), str(10**30)],
    "float": F64,
    "complex": [[a, b] for a in (0, 1 << 63, 0x3FF0000000000000, 0x7FF8000000000000) for b in (0, 1 << 63, 0x3FF0000000000000, 0x7FF0000000000000)],
    "str": ["pi", "eps", "posinf", "neginf", "nan", "undefined", "largest", "smallest"],
    "np.int8": ["0", "1", "-1", "127"], "np.int16": ["0", "1", "-32768"], "np.int32": ["0", "1", str(2**31 - 1)],
    "np.int64": ["0", "1", "-1", "-2", str(2**61 - 1), str(2**63 - 1)], "np.uint8": ["0", "1", "255"], "np.uint16": ["0", "1"], "np.uint32": ["0", "1"],
    "np.uint64": ["0", "1", str(2**64 - 1)], "np.longlong": ["0", "1"],
    "np.float16": F16, "np.float32": F32, "np.float64": F64,
    "np.longdouble": [[0, 0], [1 << 63, 1 << 63], [0x3FF0000000000000, 0], [0x3FF0000000000000, 0x3C30000000000000],
                      [0x7FF8000000000000, 0], [0x7FF0000000000000, 0], [0x4000000000000000, 0]],
    "np.complex64": [[a, b] for a in (0, 0x80000000, 0x3F800000, 0x7FC00000) for b in (0, 0x80000000, 0x3F800000)],
    "np.complex128": [[a, b] for a in (0, 1 << 63, 0x3FF0000000000000) for b in (0, 1 << 63, 0x7FF8000000000000)],
}
MALFORMED_VALUES = [("sub.float", 0), ("sub.float", 0x3FF0000000000000), ("sub.int", "1"), ("np.bool_", 1), ("none", None)]
VALUE_CLASS_WEIGHTS = [("float", 10), ("int", 5), ("bool", 3), ("complex", 4), ("str", 2), ("np.float32", 5), ("np.float64", 4),
                       ("np.float16", 2), ("np.longdouble", 2), ("np.complex64", 2), ("np.complex128", 2), ("np.int8", 1),
                       ("np.int16", 1), ("np.int32", 2), ("np.int64", 2), ("np.uint8", 1), ("np.uint16", 1), ("np.uint32", 1),
                       ("np.uint64", 1), ("np.longlong", 1)]


def pick_weighted(rng, pairs):
    tot = sum(w for _, w in pairs)
    r = rng.random() * tot
    for k, w in pairs:
        r -= w
        if r < 0:
            return k
    return pairs[-1][0]


def gen_value(rng, slots_used, edge=False):
    if rng.random() < 0.04:
        t, v = rng.choice(MALFORMED_VALUES)
        return {"t": t, "v": v, "slot": None}
    t = pick_weighted(rng, VALUE_CLASS_WEIGHTS)
    pool = VALUES[t]
    if edge and t in ("float", "np.float64"):
        pool = [0, 1 << 63, 0x7FF8000000000000, 0x7FF8000000000001, 0x3FF0000000000000]
    v = rng.choice(pool)
    spec = {"t": t, "v": v, "slot": None}
    if W.has_nan(spec) or rng.random() < 0.15:
        # NaN objects: shared (same slot) or fresh; the slot is tied to the spec so one slot is one value
        if rng.random() < 0.6:
            key = json.dumps([t, v, rng.randrange(2)])
            spec["slot"] = slots_used.setdefault(key, len(slots_used))
    return spec


def gen_history(rng, size, profile="mixed"):
    """Structured random history.  `profile`: mixed | constants | ops | deep | compound."""
    steps = []
    info = []  # per step: (tag, extra)   tag in sym/const/expr/none
    slots = {}

    def refs(tag=None, pred=None):
        return [i for i, (t, x) in enumerate(info) if t != "none" and (tag is None or t == tag) and (pred is None or pred(t, x))]

    def add(st, tag, extra=None):
        steps.append(st)
        info.append((tag, extra))

    def new_sym(ty=None, name=None):
        ty = ty or (rng.choice(COMMON_TYPES) if rng.random() < 0.6 else rng.choice(TYPES))
        add({"op": "sym", "name": name if name is not None else rng.choice(NAMES[:4] if rng.random() < 0.7 else NAMES), "ty": ty,
             "via": rng.choice(["ctx", "ctx", "make"])}, "sym", W.type_struct(ty))

    new_sym(rng.choice(COMMON_TYPES), "x")
    new_sym(rng.choice(COMMON_TYPES), "y")
    w_sym, w_const, w_expr, w_comp = {"mixed": (2, 3, 5, 0), "constants": (1, 7, 2, 0), "ops": (1, 1, 8, 0),
                                      "deep": (1, 1, 8, 0), "compound": (1, 1, 3, 5)}[profile]
    while len(steps) < size:
        what = pick_weighted(rng, [("sym", w_sym), ("const", w_const), ("expr", w_expr), ("comp", w_comp)])
        if what == "sym":
            if rng.random() < 0.3 and refs("sym"):
                # repeat an earlier symbol exactly or with one component changed
                j = rng.choice(refs("sym"))
                st = dict(steps[j])
                r = rng.random()
                if r < 0.5:
                    pass
                elif r < 0.75:
                    st["ty"] = rng.choice(TYPES)
                else:
                    st["name"] = rng.choice(NAMES)
                add(st, "sym", W.type_struct(st["ty"]))
            else:
                new_sym()
        elif what == "const":
            cands = refs()
            like = rng.choice(cands[-6:] if profile == "deep" and rng.random() < 0.7 else cands)
            if rng.random() < 0.35 and refs("const"):
                j = rng.choice(refs("const"))
                st = json.loads(json.dumps(steps[j]))
                r = rng.random()
                if r < 0.4:
                    pass
                elif r < 0.6:
                    st["like"] = like
                elif r < 0.8 and st["val"]["slot"] is not None:
                    st["val"]["slot"] = None  # same value, fresh object
                else:
                    st["val"] = gen_value(rng, slots, edge=True)
                add(st, "const", st["val"]["t"])
            else:
                add({"op": "const", "val": gen_value(rng, slots, edge=(profile == "constants")), "like": like,
                     "via": rng.choice(["ctx", "make"])}, "const", None)
        elif what == "expr":
            cands = refs()
            recent = cands[-8:]

            def operand():
                return rng.choice(recent if (profile == "deep" or rng.random() < 0.5) else cands)

            r = rng.random()
            exprs = [j for j in refs("expr") if steps[j]["op"] == "expr"]
            if r < 0.25 and exprs:
                j = rng.choice(exprs)
                st = json.loads(json.dumps(steps[j]))
                q = rng.random()
                if q < 0.45:
                    pass  # exact repeat -> must be shared
                elif q < 0.6 and len(st["args"]) >= 2:
                    rng.shuffle(st["args"])
                elif q < 0.75:
                    pool = W.UNARY if len(st["args"]) == 1 else W.BINARY if len(st["args"]) == 2 else [st["kind"]]
                    st["kind"] = rng.choice(pool)
                    st["via"] = "expr"
                elif q < 0.9:
                    st["args"][rng.randrange(len(st["args"]))] = operand()
                else:
                    # change arity: same kind, one operand more or less (direct Expr construction)
                    if len(st["args"]) > 1 and rng.random() < 0.5:
                        st["args"].pop()
                    else:
                        st["args"].append(operand())
                    st["via"] = "expr"
                    if st["kind"] in W.SPECIAL:
                        st["kind"] = "list"
                add(st, "expr", st["kind"])
                continue
            r = rng.random()
            if r < 0.38:
                kind, n = rng.choice(W.UNARY), 1
            elif r < 0.78:
                kind, n = rng.choice(W.BINARY), 2
            elif r < 0.84:
                kind, n = "select", 3
            elif r < 0.90:
                kind, n = "list", rng.randint(1, 4)
            elif r < 0.94:
                kind, n = "apply", rng.randint(2, 4)
            elif r < 0.97:
                kind, n = rng.choice(W.UNARY + W.BINARY), rng.randint(1, 4)  # odd arities through Expr(...)
            else:
                kind, n = rng.choice(W.SPECIAL), 0
            if kind in W.SPECIAL:
                lists = refs("expr", lambda t, x: x == "list")
                ints = refs("sym", lambda t, x: x[0] == "integer") + refs("const", lambda t, x: x in ("int", "np.int32", "np.int64"))
                if not lists:
                    add({"op": "expr", "kind": "list", "args": [operand(), operand()], "via": "method" if False else "expr"}, "expr", "list")
                    continue
                if kind == "len":
                    args = [rng.choice(lists)]
                else:
                    if not ints:
                        new_sym(rng.choice(INT_TYPES), "i")
                        continue
                    args = [rng.choice(lists), rng.choice(ints)]
            else:
                args = [operand() for _ in range(n)]
            vias = ["expr"]
            if kind in W.METHOD and len(args) == (1 if kind in W.UNARY else 2 if kind in W.BINARY else 3 if kind == "select" else len(args)):
                vias += ["method", "method"]
            if kind in W.OPERATOR and len(args) == (1 if kind in W.UNARY else 2):
                vias += ["operator"]
            if kind == "list":
                vias = ["expr"]
            add({"op": "expr", "kind": kind, "args": args, "via": rng.choice(vias)}, "expr", kind)
        else:
            r = rng.random()
            if r < 0.35:
                spec = gen_value(rng, slots, edge=True)
                like = None if rng.random() < 0.6 else rng.choice(["float32", "float64", "complex64", "int32", "float"])
                add({"op": "cconst", "val": spec, "like": like}, "none")
            elif r < 0.5:
                exp = rng.choice([{"t": "float", "v": 0x3FE0000000000000, "slot": None}, {"t": "int", "v": "2", "slot": None},
                                  {"t": "float", "v": 0x4000000000000000, "slot": None}, {"t": "int", "v": "3", "slot": None},
                                  {"t": "float", "v": 1 << 63, "slot": None}, {"t": "float", "v": 0, "slot": None}])
                add({"op": "cpow", "base": rng.choice(refs()), "exp": exp}, "expr", "pow")
            else:
                kind = rng.choice(["add", "subtract", "multiply", "divide", "maximum", "minimum", "lt", "eq", "atan2", "hypot", "select", "copysign"])
                n = 3 if kind == "select" else 2
                args = []
                for k in range(n):
                    if (k == 0 and kind == "select") or rng.random() < 0.5:
                        args.append(rng.choice(refs()))
                    else:
                        t = rng.choice(["float", "float", "int", "complex", "bool"])
                        v = rng.choice([0, 1 << 63, 0x7FF8000000000000, 0x3FF0000000000000] if t == "float" else VALUES[t])
                        args.append({"py": {"t": t, "v": v, "slot": None}})
                add({"op": "cexpr", "kind": kind, "args": args, "via": rng.choice(["method", "operator"])}, "expr", kind)
    return steps


# --------------------------------------------------------------------------------------------------
# value-pair stream (validates the PyVal rules of the model against CPython / numpy)


def gen_value_pairs(rng, n):
    builtin = ["bool", "int", "float", "complex", "str"]
    out = []
    for _ in range(n):
        r = rng.random()
        if r < 0.45:
            t1 = t2 = pick_weighted(rng, VALUE_CLASS_WEIGHTS)
        elif r < 0.9:
            t1, t2 = rng.choice(builtin), rng.choice(builtin)
        else:
            t1 = t2 = "float"
        a = {"t": t1, "v": rng.choice(VALUES[t1]), "slot": None}
        b = {"t": t2, "v": rng.choice(VALUES[t2]), "slot": None}
        same = rng.random() < 0.15
        out.append((a, a if same else b, same))
    return out


def check_value_pairs(ctx, enc, pairs):
    lines, expect, meta = [], [], []
    for a, b, same in pairs:
        va = W.build_value(a)
        vb = va if same else W.build_value(b)
        try:
            eq = bool(va == vb)
        except Exception:  # noqa
            continue
        teq = (va,) == (vb,)
        ka, kb = (va, type(va).__name__, str(va)), (vb, type(vb).__name__, str(vb))
        keq = (ka,) == (kb,)
        # str is compared with the model only inside one type name (the model's strRep is "exact content as text")
        seq = "%d" % (str(va) == str(vb)) if type(va).__name__ == type(vb).__name__ else "*"
        if keq and hash(ka) != hash(kb):
            ctx.broken("trusted:hash-consistent-with-eq", f"{va!r} {vb!r}")
        lines.append(" ".join(["eq"] + enc.value_tokens(va, 0) + enc.value_tokens(vb, 0 if same else 1)))
        expect.append("%d %d %d %s" % (teq, eq, keq, seq))
        meta.append((a, b, same))
        ctx.count("eqpair:" + ("same-object" if same else "equal" if eq else "unequal"))
    return lines, expect, meta


# --------------------------------------------------------------------------------------------------


def import_real():
    import importlib
    import warnings

    with warnings.catch_warnings():
        warnings.simplefilter("ignore")
        fa = importlib.import_module("functional_algorithms")
        importlib.import_module("functional_algorithms.expr")
        importlib.import_module("functional_algorithms.typesystem")
    where = os.path.realpath(os.path.dirname(fa.__file__))
    if not where.startswith(os.path.realpath(REPO)):
        raise Infra(f"functional_algorithms imported from {where}, expected under {REPO}")
    return fa


def shrink(fa, history, signature, budget_s=5.0, alt=False):
    """Delta-debug a history (chunks, then single steps; a removed step takes its dependents with it) while
    it still produces `signature`.  The last step (the failing construction) is kept."""
    import time

    t0 = time.time()

    def fails(h):
        try:
            res = W.execute(fa, h, W.Encoder(), want_lines=False, alt=alt)
        except Exception:  # noqa
            return False
        return any(f["signature"] == signature for f in res.findings)

    h = list(history)
    chunk = max(1, len(h) // 2)
    while chunk >= 1 and time.time() - t0 < budget_s:
        i, progress = 0, False
        while i < len(h) - 1 and time.time() - t0 < budget_s:
            cand = remove_steps(h, range(i, min(i + chunk, len(h) - 1)))
            if cand is not None and len(cand) < len(h) and fails(cand):
                h, progress = cand, True
            else:
                i += chunk
        if chunk == 1 and not progress:
            break
        chunk = chunk // 2 if chunk > 1 else 1
    return h


def _refs_of(st):
    out = []
    if isinstance(st.get("like"), int):
        out.append(st["like"])
    if "base" in st:
        out.append(st["base"])
    out += [a for a in st.get("args", []) if isinstance(a, int)]
    return out


def remove_steps(h, idxs):
    """Remove the steps `idxs` and every step depending on them; None if the last step would go."""
    gone = set(idxs)
    for j, st in enumerate(h):
        if j not in gone and any(r in gone for r in _refs_of(st)):
            gone.add(j)
    if len(h) - 1 in gone or not gone:
        return None
    new_index, k = {}, 0
    for j in range(len(h)):
        if j not in gone:
            new_index[j] = k
            k += 1
    out = []
    for j, st in enumerate(h):
        if j in gone:
            continue
        st = json.loads(json.dumps(st))
        if isinstance(st.get("like"), int):
            st["like"] = new_index[st["like"]]
        if "base" in st:
            st["base"] = new_index[st["base"]]
        if "args" in st:
            st["args"] = [new_index[a] if isinstance(a, int) else a for a in st["args"]]
        out.append(st)
    return out


WITNESSES = [
    # replays of the Lean negation witnesses on the real code
    ("neg_zero_distinct_regression", [{"op": "sym", "name": "x", "ty": {"s": "float32"}, "via": "ctx"},
                        {"op": "const", "val": {"t": "float", "v": 0, "slot": None}, "like": 0, "via": "ctx"},
                        {"op": "const", "val": {"t": "float", "v": 1 << 63, "slot": None}, "like": 0, "via": "ctx"}],
     ["fresh", "fresh", "fresh"]),
    ("fresh_nan_split", [{"op": "sym", "name": "x", "ty": {"s": "float32"}, "via": "ctx"},
                         {"op": "const", "val": {"t": "float", "v": 0x7FF8000000000000, "slot": None}, "like": 0, "via": "ctx"},
                         {"op": "const", "val": {"t": "float", "v": 0x7FF8000000000000, "slot": None}, "like": 0, "via": "ctx"}],
     ["fresh", "fresh", "fresh"]),
    ("shared_nan_same", [{"op": "sym", "name": "x", "ty": {"s": "float32"}, "via": "ctx"},
                         {"op": "const", "val": {"t": "float", "v": 0x7FF8000000000000, "slot": 0}, "like": 0, "via": "ctx"},
                         {"op": "const", "val": {"t": "float", "v": 0x7FF8000000000000, "slot": 0}, "like": 0, "via": "ctx"}],
     ["fresh", "fresh", "hit"]),
]


def run(ctx):
    ctx.rule = ("seeded construction histories (symbols, constants of every value class, operations of every kind/arity, compound API "
                "calls) on a real Context; one case = one construction; non-trivial = a construction that returned an already registered "
                "expression, or a constant, or an operation over non-leaf operands (two-level key exercised), or a failing construction; "
                "distinct by (history hash, step)")
    ctx.lean_stage(["FAVerif.Props.C07"], THEOREMS)
    fa = import_real()
    enc = W.Encoder()

    histories = []  # (origin, steps)
    cdir = os.path.join(ROOT, "corpus", "C07")
    if os.path.isdir(cdir):
        for fn in sorted(os.listdir(cdir)):
            if fn.endswith(".json"):
                obj = json.load(open(os.path.join(cdir, fn)))
                histories.append(("corpus:" + fn, obj["history"]))
    for name, h, _ in WITNESSES:
        histories.append(("witness:" + name, h))
    target = ctx.scale(27000, 1000000)
    total = 0
    k = 0
    profiles = ["mixed", "mixed", "constants", "ops", "deep", "compound"]
    while total < target:
        profile = profiles[k % len(profiles)]
        size = ctx.rng.choice([8, 20, 40, 40, 80, 300] if k % 9 else [600])
        histories.append((f"gen:{profile}", gen_history(ctx.rng, size, profile)))
        total += size
        k += 1

    # ---- real execution (+ oracle) ------------------------------------------------------------
    all_lines, all_expect, owners = [], [], []
    results = []
    crash_item = None
    # every 12th generated history without compound calls is executed on a Context(enable_alt=True): search only
    for hi, (origin, h) in enumerate(histories):
        use_alt = origin.startswith("gen:") and not origin.endswith("compound") and hi % 12 == 5
        if use_alt:
            origin = origin + ":alt"
        try:
            res = W.execute(fa, h, enc, alt=use_alt)
        except Exception as e:  # noqa  -- the harness itself must not die on a broken repo
            import traceback
            item = crash_item = crash_item or ctx.broken("correspondence:HashCons(harness exception)", traceback.format_exc()[-1500:])
            ctx.violation("construction-history-crashes:" + type(e).__name__,
                          f"executing a well-formed history on the real Context raised {type(e).__name__}: {e}",
                          dict(history=h, alt=use_alt), broken_item=item)
            continue
        results.append((origin, h, res))
        for j, (ln, ex) in enumerate(zip(res.lines, res.expect)):
            all_lines.append(ln)
            all_expect.append(ex)
            owners.append((len(results) - 1, j))
        for kk, n in res.stats.items():
            ctx.count(kk, n)
        ctx.count("profile:" + (origin if origin.startswith("gen") else origin.split(":")[0]))
        hkey = hash(json.dumps(h, sort_keys=True))
        for si, out in enumerate(res.outcomes):
            st = h[si]
            nontrivial = out in ("hit", "RuntimeError") or out.startswith("EXC") or st["op"] in ("const", "cconst", "cexpr", "cpow") or \
                (st["op"] == "expr" and any(h[a]["op"] == "expr" for a in st["args"] if isinstance(a, int)))
            if out != "skip":
                ctx.case(key=(hkey, si), nontrivial=nontrivial)
        if hi < 3 or origin.startswith("witness"):
            ctx.sample(dict(origin=origin, steps=h[:6], real=res.expect[:7]), limit=8)

    # ---- witnesses behave on the real code as the Lean theorems say ---------------------------
    for (name, h, want), (origin, _, res) in zip(WITNESSES, [r for r in results if r[0].startswith("witness:")]):
        ok = res.outcomes == want
        ctx.obligation(f"witness-replay:{name}(real code == Lean witness)", ok, kind="correspondence")
        if not ok:
            # (if the finding was repaired in /repo the model must be updated: the runner then reports
            # `no-failing-input-found` for this item, as the protocol prescribes)
            ctx.broken(f"witness-replay:{name}", f"real outcomes {res.outcomes}, Lean witness {want}")

    # ---- value-pair stream ---------------------------------------------------------------------
    pairs = gen_value_pairs(ctx.rng, ctx.scale(1500, 20000))
    plines, pexpect, pmeta = check_value_pairs(ctx, enc, pairs)

    # ---- model side ------------------------------------------------------------------------------
    out = ctx.lean.driver("HashCons", all_lines + plines)
    if len(out) != len(all_lines) + len(plines):
        raise Infra(f"driver returned {len(out)} lines for {len(all_lines) + len(plines)}")
    mismatch_hist = {}
    for idx, (ex, got) in enumerate(zip(all_expect, out)):
        ri, j = owners[idx]
        if ri in mismatch_hist:
            continue
        if ex != got:
            mismatch_hist[ri] = (j, ex, got)
    for ri, (origin, h, res) in enumerate(results):
        if ri not in mismatch_hist:
            ctx.traces_validated += max(0, len(res.lines) - 1)
    pm = 0
    for (a, b, same), ex, got in zip(pmeta, pexpect, out[len(all_lines):]):
        if ex.endswith("*"):
            got = got[:-1] + "*"
        if ex != got:
            pm += 1
            if pm <= 3:
                ctx.broken("correspondence:PyVal(==, is, tuple compare)", json.dumps(dict(a=a, b=b, same_object=same, python=ex, model=got)))
        else:
            ctx.traces_validated += 1
    ctx.obligation("correspondence:PyVal(model pyEq/tupleEq/key part == CPython/numpy on value pairs)", pm == 0, kind="correspondence")
    ctx.notes["pyval_pair_mismatches"] = pm

    # ---- findings of the search (property evaluated on the real code by the oracle) --------------
    reported = {}
    nfind = 0
    for ri, (origin, h, res) in enumerate(results):
        for f in res.findings:
            nfind += 1
            sig = f["signature"]
            if sig in reported:
                continue
            reported[sig] = (ri, f)
    corr_items = {}
    if mismatch_hist:
        examples = []
        for ri, (j, ex, got) in sorted(mismatch_hist.items())[:3]:
            origin, h, res = results[ri]
            step = res.line_step[j]
            examples.append(dict(origin=origin, step=step, line=res.lines[j], real=ex, model=got, history=h[: step + 1][-12:]))
        item = ctx.broken("correspondence:HashCons", json.dumps(dict(mismatching_histories=len(mismatch_hist), examples=examples)))
        corr_items = {ri: item for ri in mismatch_hist}
    ctx.notes["correspondence_mismatching_histories"] = len(mismatch_hist)
    ctx.notes["search_findings_total"] = nfind
    ctx.obligation("correspondence:HashCons(model == real Context on every construction: outcome, intkey, key)", not mismatch_hist, kind="correspondence")

    ctx.notes["search_signatures"] = sorted(reported)
    for sig, (ri, f) in list(reported.items())[:10]:
        origin, h, res = results[ri]
        known = any(k.get("property") == ctx.prop and k.get("status") == "known" and k.get("signature") == sig for k in ctx.findings)
        is_alt = origin.endswith(":alt")
        small = h[: f["step"] + 1] if known else shrink(fa, h[: f["step"] + 1], sig, alt=is_alt)
        verdict = ctx.violation(sig, f["what"], dict(history=small, origin=origin, alt=is_alt))
        if verdict != "known":
            # a NEW failing input on the real code accounts for the broken correspondence/obligation items of this
            # run (listed findings never do: they exist on the unchanged tree)
            for it in ctx.broken_items:
                if not it["name"].startswith("correspondence:PyVal") and not it["name"].startswith("trusted:"):
                    it["has_failing_input"] = True


def replay(ctx, obj):
    rp = obj.get("replay") or {}
    if "history" not in rp:
        print("replay names an obligation without failing input:", obj.get("obligation"))
        return 1
    fa = import_real()
    res = W.execute(fa, rp["history"], W.Encoder(), alt=bool(rp.get("alt")))
    for st, out in zip(rp["history"], res.outcomes):
        print(out.ljust(14), json.dumps(st))
    for f in res.findings:
        print("FAILS:", f["signature"], "--", f["what"])
    want = obj.get("signature")
    return 1 if any(f["signature"] == want for f in res.findings) or (res.findings and not want) else 0


LEVEL_TEXT = ("Proof. Theorems (Lean kernel, all construction histories by induction): the registry invariant (dense ids, injective table, "
              "operands older than their users, no two registered expressions structurally equal), key injectivity under the invariant "
              "(two-level-key argument), and: two constructions return the same id iff they are structurally identical, where constant "
              "values are identified by type name, str(value) (exact content with the sign of zero) and Python's == with the identity "
              "shortcut, i.e. NaN-containing values by object identity (same_iff_struct_partial); the full statement with exact constant "
              "content holds for all histories without NaNs, negative zeros included (same_iff_struct_plain), and is refuted in general by a "
              "machine-checked witness replayed on the real code (equal NaN objects are not shared: duplication only). A regression theorem "
              "records the repaired -0.0/0.0 aliasing. The model is a hand port tied by a correspondence check diffing outcome, intkey and "
              "key of every construction against the Lean driver.")
LEVEL_NOTE = ("Trusted: Lean kernel; the hand model (validated by correspondence each run); the Python value rules (validated on value pairs "
              "each run); CPython dict lookup semantics. normalize_like/normalize/enable_alt preprocessing is outside the model and covered "
              "by search only.")
TECHNIQUE = "Lean 4 invariant proof over a registry state machine + line-protocol correspondence with the real Context + structural oracle search"
