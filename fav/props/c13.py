"""C13 — number-representation conversions are lossless and mutually inverse.

Layers
  model      lean/FAVerif/Models/Conv.lean   (float2fraction, fraction2float, float2bin, bin2float at string level,
                                              float2mpf on raw mpf tuples, expansion/multiword loops, mpmath kernel)
  theorems   lean/FAVerif/Props/C13.lean     (every format, every pattern)
  tie        real `functional_algorithms.utils` (worker processes) vs Drivers/Conv.lean on the same lines:
             EXHAUSTIVE on float16 (all 65 536 patterns, every float-side conversion), directed float32/float64
             (every exponent, every subnormal binade, powers of two ±1 ulp, extremes, ±0, ±inf, NaNs), seeded mpf
             values for the expansion / multiword paths, and a malformed stream for bin2float.
  search     the property's clauses on the real functions against independent references
             (int view of the bits, Fraction(float(x)), exact integers on mpf man/exp).
"""

import json
import os
import subprocess
import threading

from ..runner import PY, REPO, ROOT, Infra

THEOREMS = [
    "f2q_value", "f2q_inf", "q2f_f2q", "q2f_f2q_inf",
    "bin_value", "bin_roundtrip_partial", "bin_roundtrip_negzero_witness", "bin_roundtrip_inf", "bin_roundtrip_nan",
    "mpf_value", "mpf_roundtrip_partial", "mpf_roundtrip_negzero_witness", "mpf_roundtrip_inf", "mpf_roundtrip_nan",
    "mpf2float_float2mpf_tuple", "float2mpf_lowprec_witness",
    "expansion2mpf_value", "expansion_value", "expansion_inf", "expansion_nan", "expansion_nan_old_loop_regression", "rspec_satisfiable",
    "multiword_value_partial", "multiword_zero_window_witness", "multiword_nonfinite_witness", "multiword_maxlength1_witness",
]
SEARCHED = [
    "RSpec for the real mpf2float (finite, non-zero, |x-R(x)| < |x|, grid-preserving on in-range grid values): the hypothesis of expansion_value; follows from correct rounding (C15), evaluated here on the real function for every in-range seeded mpf",
    "multiword words are strictly decreasing in magnitude and at most p bits wide",
    "mpf2multiword with max_length >= 2 (accumulated tail), mpf2expansion length/functional padding, fraction2float on rationals that are not float values, bin2float on malformed strings, contexts with prec < p: correspondence only (model == code), no property clause",
    "mpf2expansion with base != None: neither modelled nor exercised",
]
TRUSTED = [
    "Lean 4 kernel; axioms propext, Classical.choice, Quot.sound only",
    "hand model Models/Conv.lean of utils.py conversions, tied by correspondence: exhaustive float16, directed float32/64 (this run)",
    "numpy: finfo(dtype).{nexp,negep,minexp,maxexp} = (ew, -p, 2-2^(ew-1), 2^(ew-1)) (checked each run); view/shift/compare semantics of numpy scalars; frexp exact; ldexp correctly rounded (ties-to-even, overflow to inf)",
    "mpmath (python backend, round-to-nearest contexts): _normalize/from_man_exp/mpf_pos as ported; mpf_add/mpf_sub = exact result rounded by _normalize at the context precision; mpf_div as ported; ctx.convert rounds numpy float16/32 mantissas to the context precision and converts float64 exactly",
    "Python: int/str/Fraction semantics (Fraction normalises sign and gcd; int(s), int(s,2), format '+01d')",
]

FMTS = {"16": (11, 5), "32": (24, 8), "64": (53, 11)}
FAMILY = {"f2q": "fraction", "q2f": "fraction", "f2b": "bin", "b2f": "bin", "bval": "bin", "f2m": "mpf", "m2f": "mpf",
          "m2e": "expansion", "e2m": "expansion", "m2w": "multiword", "w2m": "multiword"}
ALL_PARTS = ["f2q", "q2f", "f2b", "b2f", "bval", "f2m", "m2f"]
NWORKERS = 8


# ----------------------------------------------------------------------------- plumbing


def _worker_env():
    env = dict(os.environ)
    env["PYTHONPATH"] = REPO + os.pathsep + ROOT + os.pathsep + env.get("PYTHONPATH", "")
    return env


def run_workers(jobs, timeout=1500):
    """Run one worker process per job concurrently; returns list of results (dict) or raises Infra."""
    procs = []
    for job in jobs:
        p = subprocess.Popen([PY, "-m", "fav.workers.c13_worker"], stdin=subprocess.PIPE, stdout=subprocess.PIPE,
                             stderr=subprocess.PIPE, text=True, cwd=ROOT, env=_worker_env())
        procs.append(p)
    outs = [None] * len(procs)

    def feed(k):
        try:
            outs[k] = procs[k].communicate(json.dumps(jobs[k]), timeout=timeout)
        except subprocess.TimeoutExpired:
            procs[k].kill()
            outs[k] = ("", "timeout")

    th = [threading.Thread(target=feed, args=(k,)) for k in range(len(procs))]
    for t in th:
        t.start()
    for t in th:
        t.join()
    res = []
    for p, (o, e) in zip(procs, outs):
        if p.returncode != 0:
            raise WorkerCrash(e[-3000:])
        res.append(json.loads(o))
    return res


class WorkerCrash(Exception):
    pass


def chunks(lst, n):
    k = max(1, (len(lst) + n - 1) // n)
    return [lst[i:i + k] for i in range(0, len(lst), k)] or [[]]


def real_lines(lines):
    parts = chunks(lines, NWORKERS)
    res = run_workers([dict(lines=c) for c in parts])
    out = []
    for r in res:
        out.extend(r["lines"])
    return out


def model_lines(ctx, lines):
    parts = chunks(lines, NWORKERS)
    outs = [None] * len(parts)
    errs = []

    def go(k):
        try:
            outs[k] = ctx.lean.driver("Conv", parts[k]) if parts[k] else []
        except Exception as e:  # noqa
            errs.append(e)

    th = [threading.Thread(target=go, args=(k,)) for k in range(len(parts))]
    for t in th:
        t.start()
    for t in th:
        t.join()
    if errs:
        raise errs[0] if isinstance(errs[0], Infra) else Infra(str(errs[0]))
    out = []
    for o, c in zip(outs, parts):
        if len(o) != len(c):
            raise Infra(f"driver returned {len(o)} lines for {len(c)} inputs")
        out.extend(o)
    return out


# ----------------------------------------------------------------------------- generators


def pack(F, sign, E, frac):
    p, ew = FMTS[F]
    return (sign << (ew + p - 1)) | (E << (p - 1)) | frac


def directed_floats(F, rng, per_exp):
    """Directed patterns for float32/float64: every exponent field, every subnormal binade,
    powers of two ±1 ulp, extremes, zeros of both signs, infinities, NaNs."""
    p, ew = FMTS[F]
    w = p - 1
    top = (1 << ew) - 1
    out = []  # (pattern, class)
    for E in range(0, top + 1):
        fr = [0, 1, (1 << w) - 1, 1 << (w - 1), rng.getrandbits(w), rng.getrandbits(rng.randint(1, w)) << rng.randint(0, w - 1)]
        fr = [x & ((1 << w) - 1) for x in fr]
        if per_exp < len(fr):  # every exponent keeps frac=0 plus a rotating choice of the other shapes
            fr = [fr[0]] + [fr[1 + (E + k) % (len(fr) - 1)] for k in range(per_exp - 1)]
        for frac in fr:
            for s in (0, 1):
                out.append((pack(F, s, E, frac), "exp-sweep"))
    for k in range(w):  # subnormal binades
        for frac in {1 << k, (1 << k) + (1 if k else 0), (1 << (k + 1)) - 1, (1 << k) | rng.getrandbits(k) if k else 1}:
            for s in (0, 1):
                out.append((pack(F, s, 0, frac), "subnormal-binade"))
    for E in range(1, top):  # powers of two ± 1 ulp
        b = pack(F, 0, E, 0)
        for d in (-1, 1):
            out.append((b + d, "pow2±ulp"))
            out.append((b + d + (1 << (ew + w)), "pow2±ulp"))
    ext = [0, 1 << (ew + w), pack(F, 0, top, 0), pack(F, 1, top, 0), pack(F, 0, top - 1, (1 << w) - 1), pack(F, 1, top - 1, (1 << w) - 1),
           pack(F, 0, 1, 0), pack(F, 0, 0, 1), pack(F, 1, 0, 1), pack(F, 0, 0, (1 << w) - 1), pack(F, 0, top, 1 << (w - 1)),
           pack(F, 1, top, 1 << (w - 1)), pack(F, 0, top, 1), pack(F, 1, top, (1 << w) - 1), pack(F, 0, top, rng.getrandbits(w) | 1)]
    out.extend((b, "extreme") for b in ext)
    return out


def norm_tuple(sign, man, exp):
    if man == 0:
        return [0, 0, 0, 0]
    while man % 2 == 0:
        man //= 2
        exp += 1
    return [sign, man, exp, man.bit_length()]


def float_tuple(F, b):
    p, ew = FMTS[F]
    sign = b >> (ew + p - 1)
    E = (b >> (p - 1)) & ((1 << ew) - 1)
    m = b & ((1 << (p - 1)) - 1)
    emin = 1 - (2 ** (ew - 1) - 1) - (p - 1)
    if E == 0:
        return norm_tuple(sign, m, emin)
    return norm_tuple(sign, m + (1 << (p - 1)), E - 1 + emin)


SPECIALS = {"inf": [0, 0, -456, -2], "-inf": [1, 0, -789, -3], "nan": [0, 0, -123, -1], "zero": [0, 0, 0, 0]}


def gen_mpfs(F, rng, n):
    """Seeded mpf values (raw tuples) with the context precision; class-labelled."""
    p, ew = FMTS[F]
    emin = 1 - (2 ** (ew - 1) - 1) - (p - 1)
    maxexp = 2 ** (ew - 1)
    out = []
    precs = [p, p + 10, 2 * p, 2 * p + 3, 53, 64, 100, 113, 200]
    for _ in range(n):
        prec = rng.choice(precs)
        r = rng.random()
        if r < 0.40:  # in the exponent range, bc <= prec: the exactness class
            bc = rng.randint(1, prec)
            span = maxexp - emin
            bc = min(bc, span)
            man = rng.getrandbits(bc) | 1 | (1 << (bc - 1))
            if rng.random() < 0.3:  # sparse mantissa: long zero runs exercise the "skip heading zeros" step
                man = (1 << (bc - 1)) | 1
                for _k in range(rng.randint(0, 3)):
                    man |= 1 << rng.randrange(bc)
            exp = rng.randint(emin, maxexp - bc)
            if rng.random() < 0.25:
                exp = rng.choice([emin, maxexp - bc, emin + 1, max(emin, -bc)])
            out.append((prec, norm_tuple(rng.getrandbits(1), man, exp), "in-range"))
        elif r < 0.55:  # exact sum of a few floats of decreasing magnitude
            k = rng.randint(2, 4)
            e0 = rng.randint(emin + k * p, maxexp - p) if maxexp - p > emin + k * p else emin + k * p
            tot, e = 0, e0
            lo = emin
            for _k in range(k):
                mant = rng.getrandbits(p) | 1
                tot += (mant if rng.random() < 0.7 else -mant) << (e - lo)
                e -= rng.randint(p - 2, p + 6)
                if e < lo:
                    break
            t = norm_tuple(1 if tot < 0 else 0, abs(tot), lo)
            if t[3] <= prec:
                out.append((prec, t, "float-sum"))
            else:
                out.append((max(prec, t[3]), t, "float-sum"))
        elif r < 0.70:  # representable in the format
            b = rng.getrandbits(ew + p)
            E = (b >> (p - 1)) & ((1 << ew) - 1)
            if E == (1 << ew) - 1:
                b ^= 1 << (p - 1)
            out.append((prec, float_tuple(F, b), "representable"))
        elif r < 0.80:  # below the subnormal grid / partly below
            bc = rng.randint(1, prec)
            man = rng.getrandbits(bc) | 1 | (1 << (bc - 1))
            exp = emin - rng.randint(1, bc + 5)
            out.append((prec, norm_tuple(rng.getrandbits(1), man, exp), "below-grid"))
        elif r < 0.88:  # at / above the overflow threshold
            bc = rng.randint(1, prec)
            man = rng.getrandbits(bc) | 1 | (1 << (bc - 1))
            if rng.random() < 0.5:
                man = (1 << bc) - 1
            exp = maxexp - bc + rng.randint(0, 3) - (1 if rng.random() < 0.5 else 0)
            out.append((prec, norm_tuple(rng.getrandbits(1), man, exp), "near-overflow"))
        elif r < 0.96:  # generic value 1/3, pi-like: random full-precision mantissa near 1
            man = rng.getrandbits(prec) | 1 | (1 << (prec - 1))
            exp = -prec + rng.randint(-3, 3)
            if exp < emin:  # float16 with a long mantissa: partly below the grid
                out.append((prec, norm_tuple(rng.getrandbits(1), man, exp), "generic-below-grid"))
            else:
                out.append((prec, norm_tuple(rng.getrandbits(1), man, exp), "generic"))
        else:
            k = rng.choice(["inf", "-inf", "zero", "nan"])
            out.append((prec, SPECIALS[k], "special:" + k))
    return out


def gen_bad_bin(F, rng, valid, n):
    """Malformed stream for bin2float: mutations of valid strings (no whitespace/underscore/'b',
    for which Python's int() is more permissive than the modelled subset)."""
    out = []
    alphabet = "01.p+-29x"
    fixed = ["", "p", "1p", "1p+", "p+0", "-0", "--1p+0", "1.2p+0", "1.p+0", "1.p-30", "0.1p+0", "01p+0", "1.0p+0", "10p+0", "1p+00",
             "1p-0", "1p0", "1p5", "-1p5", "1p+99999", "1p-99999", "1.+1p+0", "1.-1p+0", "1.+1p-40", "-nan", "+inf", "infp+0", "-", "-p",
             "1.p", "1.1p+1p+1", "1." + "1" * 70 + "p+0", "1." + "0" * 70 + "p-20", "1." + "1" * 70 + "p-20", "1.1p+-1", "1.1p++1", "1.1p+1x"]
    out.extend(fixed)
    for _ in range(n):
        s = rng.choice(valid)
        k = rng.random()
        if k < 0.3 and s:
            i = rng.randrange(len(s))
            s = s[:i] + rng.choice(alphabet) + s[i + 1:]
        elif k < 0.5 and s:
            i = rng.randrange(len(s))
            s = s[:i] + s[i + 1:]
        elif k < 0.7:
            i = rng.randrange(len(s) + 1)
            s = s[:i] + rng.choice(alphabet) + s[i:]
        elif k < 0.85 and "p" in s:
            m, e = s.split("p")
            s = m + "p" + "%+d" % (int(e) + rng.choice([-40, -20, -3, 3, 20, 40, 1000, 100000, -100000]))
        else:
            m = s.split("p")[0] if "p" in s else s
            s = m + ("" if "." in m else ".") + "".join(rng.choice("01") for _ in range(rng.randint(1, 60))) + "p" + "%+d" % rng.randint(-30, 30)
        out.append(s)
    return [s for s in out if " " not in s and "\n" not in s]


# ----------------------------------------------------------------------------- the run


def load_corpus():
    lines, floats, mpfs = [], [], []
    cdir = os.path.join(ROOT, "corpus", "C13")
    if os.path.isdir(cdir):
        for fn in sorted(os.listdir(cdir)):
            if not fn.endswith(".json"):
                continue
            obj = json.load(open(os.path.join(cdir, fn)))
            lines.extend(obj.get("lines", []))
            floats.extend(obj.get("floats", []))
            mpfs.extend(obj.get("mpfs", []))
    return lines, floats, mpfs


def family_of_line(line, part=None):
    op = line.split(" ")[0]
    if op == "all":
        return FAMILY[ALL_PARTS[part]] if part is not None else "float"
    return FAMILY.get(op, "other")


def mpf_line(F, prec, t):
    return f"{F} {prec} {t[0]} {t[1]} {t[2]} {t[3]}"


def n_or(x):
    return "N" if x is None else str(x)


def run(ctx):
    ctx.rule = ("evaluations = protocol lines compared between the real utils functions and the Lean model plus property-clause "
                "evaluations on the real code; non-trivial = finite non-zero float pattern, or an mpf value that is not a special/zero; "
                "distinct by (format, pattern) / (format, precision, tuple, options)")
    import time as _time
    _t0 = _time.time()
    timing = ctx.notes.setdefault("timing_s", {})

    def lap(name):
        nonlocal _t0
        timing[name] = round(_time.time() - _t0, 1)
        _t0 = _time.time()

    broken = ctx.lean_stage(["FAVerif.Props.C13"], THEOREMS)
    lap("lean_stage")
    rng = ctx.rng

    # ---- 0. environment facts the model hard-wires ---------------------------------------
    try:
        facts = run_workers([dict(facts=True)])[0]["facts"]
    except WorkerCrash as e:
        raise Infra("c13 worker cannot import the repo under test: " + str(e)[-1500:])
    ok_facts = True
    for F, (p, ew) in FMTS.items():
        fa = facts[F]
        emin = 1 - (2 ** (ew - 1) - 1) - (p - 1)
        want = dict(nexp=ew, negep=-p, minexp=2 - 2 ** (ew - 1), maxexp=2 ** (ew - 1), subexp=emin + 1, fmaxexp=2 ** (ew - 1), prec=p,
                    nan=((2 ** ew - 1) << (p - 1)) + (1 << (p - 2)))
        for k, v in want.items():
            if fa[k] != v:
                ok_facts = False
                ctx.notes.setdefault("fact_mismatch", []).append([F, k, fa[k], v])
    ok_facts = ok_facts and facts["rounding"] == "n" and facts["specials"] == [SPECIALS["zero"], SPECIALS["inf"], SPECIALS["-inf"], SPECIALS["nan"]]
    ctx.notes["mpmath_backend"] = facts["backend"]
    ctx.obligation("facts:numpy.finfo/mpmath constants equal the model's format parameters", ok_facts, kind="tie")
    fact_item = None if ok_facts else ctx.broken("facts:finfo", json.dumps(ctx.notes.get("fact_mismatch", facts)))

    # ---- 1. inputs --------------------------------------------------------------------------
    c_lines, c_floats, c_mpfs = load_corpus()
    lines = list(c_lines)
    float_cases = [tuple(x) for x in c_floats]     # (F, b, prec) for the search
    # float16: exhaustive
    precs16 = [11, 21, 53, 100]
    for b in range(65536):
        prec = 53 if b % 7 else precs16[(b // 7) % 4]
        lines.append(f"all 16 {prec} {b}")
        float_cases.append(("16", b, prec))
    ctx.exhaustive = True
    # float32 / float64: directed + random
    for F, per_exp, nrand in (("32", ctx.scale(6, 6), ctx.scale(3000, 200000)), ("64", ctx.scale(2, 6), ctx.scale(2000, 200000))):
        p, ew = FMTS[F]
        ds = directed_floats(F, rng, per_exp)
        ds += [(rng.getrandbits(p + ew), "random") for _ in range(nrand)]
        for b, cls in ds:
            prec = rng.choice([p, p + 10, 53, 64, 113, 200]) if rng.random() < 0.5 else max(p, 53)
            lines.append(f"all {F} {prec} {b}")
            float_cases.append((F, b, prec))
            ctx.count(f"float{F}:{cls}")
    # precision below the format's (precondition of the mpf round trip violated): correspondence only
    for F in ("16", "32", "64"):
        p, ew = FMTS[F]
        for _ in range(ctx.scale(150, 3000)):
            lines.append(f"f2m {F} {rng.choice([1, 2, 5, p - 1, p - 2, max(1, p // 2)])} {rng.getrandbits(p + ew)}")
            ctx.count("f2m:prec<p")
    # fractions that are not float values (fraction2float on arbitrary rationals: zero/inf branches, inexact)
    for F in ("16", "32", "64"):
        p, ew = FMTS[F]
        mx = 2 ** (2 ** (ew - 1))
        for _ in range(ctx.scale(150, 3000)):
            k = rng.random()
            if k < 0.3:
                n, d = rng.choice([mx, mx - 1, mx + 1, -mx, -mx + 1, 2 * mx, mx * 3 // 2, 0]), 1
            elif k < 0.6:
                n, d = rng.randint(-10 ** 6, 10 ** 6), rng.randint(1, 10 ** 6)
            else:
                n, d = rng.getrandbits(rng.randint(1, 2 * p)) - (1 << p), 1 << rng.randint(0, 2 * p)
            import math
            g = math.gcd(n, d)
            lines.append(f"q2f {F} {n // g} {d // g}")
            ctx.count("q2f:arbitrary")
    # mpf side
    mpf_cases = list(c_mpfs)
    for F, n in (("16", ctx.scale(500, 20000)), ("32", ctx.scale(400, 20000)), ("64", ctx.scale(300, 20000))):
        p, ew = FMTS[F]
        for prec, t, cls in gen_mpfs(F, rng, n):
            ctx.count(f"mpf{F}:{cls}")
            lines.append("m2f " + F + " " + " ".join(map(str, t)))
            length = rng.choice([None, None, None, 1, 2, 3, 5])
            functional = rng.choice([0, 1])
            lines.append(f"m2e {mpf_line(F, prec, t)} {n_or(length)} {functional} 400")
            pp = rng.choice([None, None, None, p, p - 1, max(1, p // 2), 3, 1, p + 1])
            ml = rng.choice([None, None, None, 1, 2, 3, 5])
            lines.append(f"m2w {mpf_line(F, prec, t)} {n_or(pp)} {n_or(ml)}")
            mpf_cases.append(dict(F=F, prec=prec, tup=t, p=pp if pp is None or pp <= p else None, max_length=ml, length=length, cls=cls))
            if rng.random() < 0.5:
                mpf_cases.append(dict(F=F, prec=prec, tup=t, p=None, max_length=None, length=None, cls=cls))
    # the non-finite paths in every format (NaN -> [nan] since /repo 81efdaa; a time-out of the worker's CPU guard is a failure)
    for F in ("16", "32", "64"):
        lines.append(f"m2e {F} 53 0 0 -123 -1 N 0 400")
        lines.append(f"m2e {F} 53 0 0 -123 -1 N 1 400")
        lines.append(f"m2e {F} 53 0 0 -123 -1 3 0 400")
        lines.append(f"m2e {F} 53 0 0 -123 -1 3 1 400")
        lines.append(f"e2m {F} 53 {((2 ** FMTS[F][1] - 1) << (FMTS[F][0] - 1)) + (1 << (FMTS[F][0] - 2))}")
        lines.append(f"m2w {F} 53 0 0 -123 -1 N N")
        lines.append(f"m2w {F} 53 0 0 -456 -2 N N")
        lines.append(f"e2m {F} 53")
        lines.append(f"w2m {F} 53")
        mpf_cases.append(dict(F=F, prec=53, tup=SPECIALS["inf"], p=None, max_length=None, length=None, cls="special:inf"))
        mpf_cases.append(dict(F=F, prec=53, tup=SPECIALS["-inf"], p=None, max_length=None, length=None, cls="special:-inf"))
    for F in ("16", "32", "64"):
        mpf_cases.append(dict(F=F, prec=53, tup=SPECIALS["nan"], p=None, max_length=None, length=None, cls="special:nan"))
        mpf_cases.append(dict(F=F, prec=rng.choice([24, 100]), tup=SPECIALS["nan"], p=None, max_length=None, length=3, cls="special:nan"))

    lap("generate")
    # ---- 2. real code, phase 1 ---------------------------------------------------------------
    try:
        real = real_lines(lines)
        lap("real_phase1")
    except WorkerCrash as e:
        item = ctx.broken("correspondence:c13-worker", str(e))
        ctx.violation("worker-crash", "the real conversion helpers crashed the worker outside the modelled exception sites: " + str(e)[-400:],
                      dict(kind="crash", stderr=str(e)[-1500:]), broken_item=item)
        return
    # phase 2: words produced by the REAL mpf2expansion / mpf2multiword are fed back through
    # expansion2mpf / multiword2mpf on both sides; valid float2bin strings seed the malformed stream
    lines2 = []
    valid_bins = {"16": [], "32": [], "64": []}
    for ln, r in zip(lines, real):
        t = ln.split(" ")
        if t[0] in ("m2e", "m2w") and r.startswith("ok"):
            ws = r.split(" ")[1:]
            if ws:
                lines2.append(("e2m" if t[0] == "m2e" else "w2m") + f" {t[1]} {t[2]} " + " ".join(ws))
                if rng.random() < 0.1:  # the same words in a context of different precision
                    lines2.append(("e2m" if t[0] == "m2e" else "w2m") + f" {t[1]} {rng.choice([11, 24, 53, 80])} " + " ".join(ws))
        elif t[0] == "all":
            parts = r.split("|")
            if len(parts) == 7 and len(valid_bins[t[1]]) < 4000 and (t[1] != "16" or int(t[3]) % 16 == 0):
                valid_bins[t[1]].append(parts[2])
    for F in ("16", "32", "64"):
        p, ew = FMTS[F]
        vb = [s for s in valid_bins[F] if s and " " not in s]
        if not vb:
            continue
        for s in gen_bad_bin(F, rng, vb, ctx.scale(400, 20000)):
            lines2.append(f"b2f {F} {s}")
            ctx.count("b2f:malformed-stream")
        for s in rng.sample(vb, min(len(vb), 300)):
            lines2.append(f"bval {s}")
        # random word lists (including -0, inf, nan words) through expansion2mpf / multiword2mpf
        for _ in range(ctx.scale(100, 5000)):
            k = rng.randint(1, 5)
            ws = []
            for _k in range(k):
                b = rng.getrandbits(p + ew)
                if rng.random() < 0.85:
                    E = (b >> (p - 1)) & ((1 << ew) - 1)
                    if E == (1 << ew) - 1:
                        b ^= 1 << (p - 1)
                ws.append(str(b))
            lines2.append(f"{rng.choice(['e2m', 'w2m'])} {F} {rng.choice([p, 53, 100, 200, 5])} " + " ".join(ws))
            ctx.count("e2m:random-words")
    try:
        real2 = real_lines(lines2)
    except WorkerCrash as e:
        item = ctx.broken("correspondence:c13-worker", str(e))
        ctx.violation("worker-crash", "the real conversion helpers crashed the worker: " + str(e)[-400:], dict(kind="crash", stderr=str(e)[-1500:]), broken_item=item)
        return
    all_lines = lines + lines2
    all_real = real + real2
    lap("real_phase2")

    # ---- 3. model ---------------------------------------------------------------------------
    model = model_lines(ctx, all_lines)
    lap("model")

    # ---- 4. diff ----------------------------------------------------------------------------
    mism = {}     # family -> list of details
    for ln, r, m in zip(all_lines, all_real, model):
        t = ln.split(" ")
        op = t[0]
        ctx.traces_validated += 1
        ctx.count("op:" + op)
        if op == "all":
            nontrivial = False
            rp = r.split("|")
            if len(rp) == 7:
                nontrivial = rp[0] not in ("0/1",) and not rp[2] in ("inf", "-inf", "nan", "0")
            ctx.case(key=f"{t[1]}:{t[3]}", nontrivial=nontrivial, n=7)
        else:
            ctx.case(key=ln, nontrivial=("err" not in r and len(r.split(" ")) > 2) or op in ("q2f", "m2f", "b2f"))
        if r.startswith("err") or "|err" in r:
            ctx.count("real-exception:" + (r.split("err ")[1].split("|")[0].split(" ")[0]))
        if r != m:
            if op == "all":
                rp, mp = r.split("|"), m.split("|")
                fams = set()
                for k in range(max(len(rp), len(mp))):
                    if k >= len(rp) or k >= len(mp) or rp[k] != mp[k]:
                        fams.add(FAMILY[ALL_PARTS[min(k, 6)]])
            else:
                fams = {FAMILY.get(op, "other")}
            for fam in fams:
                mism.setdefault(fam, []).append(dict(line=ln, impl=r[:600], model=m[:600]))
        ctx.sample(dict(line=ln[:200], real=r[:300], model=m[:300]), limit=3)
    for k in (0, len(lines) - 1, len(all_lines) - 1):
        ctx.samples.append(dict(line=all_lines[k][:200], real=all_real[k][:300], model=model[k][:300]))
    corr_items = {}
    for fam in ("fraction", "bin", "mpf", "expansion", "multiword"):
        bad = mism.get(fam, [])
        ctx.obligation(f"correspondence:Conv:{fam}(model == real utils on every line; float16 exhaustive)", not bad, kind="correspondence")
        if bad:
            corr_items[fam] = ctx.broken(f"correspondence:Conv:{fam}", json.dumps(dict(count=len(bad), first=bad[:3])))
    ctx.notes["correspondence_mismatches"] = {k: len(v) for k, v in mism.items()}

    # ---- 5. search: the property's clauses on the real code ----------------------------------
    fparts = chunks(float_cases, NWORKERS)
    mparts = chunks(mpf_cases, NWORKERS)
    jobs = [dict(floats=[list(x) for x in fparts[k]] if k < len(fparts) else [], mpfs=mparts[k] if k < len(mparts) else [])
            for k in range(max(len(fparts), len(mparts)))]
    try:
        res = run_workers(jobs)
    except WorkerCrash as e:
        item = ctx.broken("search:c13-worker", str(e))
        ctx.violation("worker-crash", "the real conversion helpers crashed the search worker: " + str(e)[-400:], dict(kind="crash", stderr=str(e)[-1500:]), broken_item=item)
        return
    lap("search")
    ctx.evaluations += len(float_cases) * 8 + len(mpf_cases) * 4
    for c in mpf_cases:
        ctx.count("search-mpf:" + c.get("cls", "corpus"))
    fails = []
    for r in res:
        fails.extend(r.get("float_fails", []))
        fails.extend(r.get("mpf_fails", []))
    ctx.notes["search_failures"] = len(fails)
    fam_of_clause = lambda c: c.split("-")[0]
    listed = {f_["signature"] for f_ in ctx.findings if f_.get("property") == ctx.prop and f_.get("status") == "known"}
    seen = set()
    for fl in fails:
        sig = fl["signature"]
        if sig in seen:
            continue
        seen.add(sig)
        fam = fam_of_clause(fl["clause"])
        item = None
        if sig not in listed:  # a listed finding never explains a broken obligation
            item = corr_items.get(fam)
            if item is None and fact_item is not None:
                item = fact_item
            if item is None:
                for bi in broken:  # a broken Lean obligation still lacking a failing input
                    if not bi["has_failing_input"]:
                        item = bi
                        break
        kind = "mpf" if "tup" in fl else "float"
        ctx.violation(sig, f"{fl['clause']} fails on the real code: {json.dumps(fl)[:400]}", dict(kind=kind, case=fl), broken_item=item)
    ctx.obligation("search:property clauses on the real code (float16 exhaustive) found nothing unlisted",
                   all(s in [k["signature"] for k in ctx.known] for s in seen), kind="search")


def replay(ctx, obj):
    rp = obj.get("replay") or {}
    case = rp.get("case")
    if not case:
        print("replay names an obligation without failing input:", obj.get("obligation") or obj.get("signature"))
        print((obj.get("detail") or "")[:2000])
        return 1
    if rp.get("kind") == "float":
        job = dict(floats=[[case["F"], case["b"], 53]])
    else:
        job = dict(mpfs=[dict(F=case["F"], prec=case["prec"], tup=case["tup"], p=case.get("p"), max_length=case.get("max_length"),
                              length=case.get("length"))])
    res = run_workers([job])[0]
    fails = res.get("float_fails", []) + res.get("mpf_fails", [])
    # only the replayed cause counts: the same input may also exhibit an independent (listed) finding
    same = [f for f in fails if f["signature"] == obj.get("signature")]
    print(json.dumps(same, indent=1))
    if not same and fails:
        print("other signatures on this input:", sorted({f["signature"] for f in fails}))
    return 1 if same else 0


LEVEL_TEXT = ("Proof. Theorems (Lean kernel; every format with 2 <= ew, 3 <= p <= 2^(ew-1), every bit pattern): float2fraction returns exactly "
              "the decoded value and fraction2float(float2fraction(b)) = b up to the sign of zero; the float2bin string denotes the decoded value and "
              "bin2float(float2bin(b)) = b at string level for every finite b other than -0; float2mpf yields the normalised tuple of the decoded "
              "value and mpf2float(float2mpf(b)) = b (b != -0) when the context precision is at least p; inf and NaN map to themselves on these paths "
              "and through expansions (mpf2expansion(nan) = [nan], full strength since the repair 81efdaa in /repo); "
              "expansion2mpf/multiword2mpf return the exact sum when the partial sums fit the precision; mpf2expansion (for any rounding step "
              "satisfying RSpec, shown satisfiable) and mpf2multiword (mantissa without an all-zero window) terminate with words whose exact sum "
              "is the input and that convert back to the input tuple. The hand model is tied to the real functions by an exhaustive float16 "
              "correspondence (65 536 patterns x 7 conversions), directed float32/float64 sweeps, seeded mpf values and a malformed-string stream "
              "on every run; the property clauses are searched on the real code against Fraction/integer references.")
LEVEL_NOTE = ("Partial exactly where the code violates a clause (known findings, each with a Lean negation witness): -0.0 loses its sign through "
              "float2bin and float2mpf; mpf2multiword maps inf/nan to [], fails for "
              "max_length=1, and drops or double-counts bits when a mantissa window is all zero. RSpec for the real mpf2float is a hypothesis "
              "(C15) checked by search. One defect found by this check is repaired in /repo (81efdaa: mpf2expansion(nan) looped forever); its "
              "regression theorem and corpus case remain. Trusted: Lean kernel; numpy scalar semantics; mpmath's kernel as ported (round-to-nearest, exact add then "
              "normalise); mpf2expansion with base is not covered.")
TECHNIQUE = "Lean 4 proofs over a bit-pattern / string / mpf-tuple model + exhaustive float16 line-protocol correspondence with the real helpers"
