"""C08 translator: regenerates, from the REAL code of $FAV_REPO, on every run

  (a) the extensional table of `Expr.get_type` / `Expr.is_complex` over kinds x operand-type tuples
      (one real node per row, built with the real API over symbols of the row's types),
  (b) the OBSERVED NumPy result dtype of every numpy-target template on the same tuples (the text is produced by the
      real numpy Printer for that node and evaluated on numpy scalars of the printed dtypes, several VALUES per row),
  (c) the observed dtype of printed constants per (value class, like type) and of the argument casts per symbol type,
  (d) `type_to_target` (static type -> printed dtype),

and writes them as Lean data (lean/FAVerif/Generated/C08Tables.lean) plus a JSON twin for the Python side.

Helper module of fav/props/c08.py (kept separate only for size).
"""

import collections
import itertools
import math
import warnings

import numpy

# ----------------------------------------------------------------------------- type universe

UNIVERSE = ["boolean", "integer", "integer32", "integer64", "float", "float16", "float32", "float64",
            "complex", "complex64", "complex128"]
EXTRA_TYPES = ["integer8", "integer16", "float128", "complex256"]  # only for the canon table / results of casts

LEAN_TY = {"boolean": "b", "integer": "i", "integer8": "i8", "integer16": "i16", "integer32": "i32", "integer64": "i64",
           "float": "f", "float16": "f16", "float32": "f32", "float64": "f64", "float128": "f128",
           "complex": "c", "complex64": "c64", "complex128": "c128", "complex256": "c256"}

# numpy dtype name -> type-system name of the same (sized) type
DTYPE_TO_TY = {"bool": "boolean", "int8": "integer8", "int16": "integer16", "int32": "integer32", "int64": "integer64",
               "float16": "float16", "float32": "float32", "float64": "float64", "float128": "float128", "longdouble": "float128",
               "complex64": "complex64", "complex128": "complex128", "complex256": "complex256", "clongdouble": "complex256"}


def ty_tuple(name):
    """'float32' -> ('float', 32);  'float' -> ('float', None)"""
    for k in ("boolean", "integer", "float", "complex"):
        if name.startswith(k):
            rest = name[len(k):]
            return (k, int(rest) if rest else None)
    raise ValueError(name)


def lean_ty(name):
    if name in LEAN_TY:
        return "Ty." + LEAN_TY[name]
    if name == "alien":
        return "Ty.alien"
    k, b = ty_tuple(name)
    return f"(Ty.mk .{k} {'none' if b is None else '(some %d)' % b})"


def lean_opt_ty(name):
    return "none" if name is None else f"(some {lean_ty(name)})"


def lean_list(names):
    return "[" + ", ".join(lean_ty(n) for n in names) + "]"


# ----------------------------------------------------------------------------- kinds

# every operation kind of expr.known_expression_kinds, with its arity (cross-checked against the numpy templates)
ARITY = dict(
    select=3, negative=1, positive=1, add=2, subtract=2, multiply=2, divide=2, minimum=2, maximum=2,
    asin=1, acos=1, atan=1, asinh=1, acosh=1, atanh=1, asin_acos_kernel=1, atan2=2,
    sin=1, cos=1, tan=1, sinh=1, cosh=1, tanh=1, log=1, log1p=1, log2=1, log10=1, exp=1, expm1=1, sqrt=1, square=1, pow=2, exp2=1,
    complex=2, conjugate=1, real=1, imag=1, absolute=1, hypot=2, lt=2, gt=2, le=2, ge=2, eq=2, ne=2,
    logical_and=2, logical_or=2, logical_xor=2, logical_not=1,
    bitwise_invert=1, bitwise_and=2, bitwise_or=2, bitwise_xor=2, bitwise_left_shift=2, bitwise_right_shift=2,
    ceil=1, floor=1, floor_divide=2, remainder=2, round=1, truncate=1, copysign=2, sign=1, nextafter=2, upcast=1, downcast=1,
    is_finite=1, is_inf=1, is_posinf=1, is_neginf=1, is_nan=1, is_negzero=1,
)
NON_OP_KINDS = {"symbol", "constant", "apply", "list", "item", "len", "dtype_index"}
LEAN_KINDS = set(ARITY) | {"item"}


def repo_modules():
    import functional_algorithms as fa
    from functional_algorithms import expr as fa_expr
    from functional_algorithms import targets, utils

    return fa, fa_expr, targets.numpy, utils


def numpy_template_arity(tmpl):
    if callable(tmpl):
        return 1
    return 1 + max(i for i in range(8) if "{%d}" % i in tmpl)


def kinds_report():
    """(op kinds known to the repo, kinds the numpy target prints, problems)"""
    fa, fa_expr, np_t, utils = repo_modules()
    problems = []
    known = sorted(k for k in fa_expr.known_expression_kinds if k not in NON_OP_KINDS)
    for k in known:
        if k not in ARITY:
            problems.append(f"kind `{k}` of expr.known_expression_kinds is unknown to the C08 model")
    declared = []
    for k, tmpl in np_t.kind_to_target.items():
        if tmpl is NotImplemented or k in ("list",):
            continue
        if k == "item":
            declared.append(k)
            continue
        if k not in ARITY:
            problems.append(f"numpy target prints kind `{k}` which is unknown to the C08 model")
            continue
        if numpy_template_arity(tmpl) != ARITY[k]:
            problems.append(f"numpy template of `{k}` uses {numpy_template_arity(tmpl)} operands, model arity {ARITY[k]}")
        declared.append(k)
    return [k for k in known if k in ARITY], declared, problems


# ----------------------------------------------------------------------------- values

_F = {"float16": numpy.float16, "float32": numpy.float32, "float64": numpy.float64, "float128": numpy.longdouble}

# deterministic directed value tuples (as small python numbers); position p of a row uses column p.
# Both orders (a<b, a>b), equal values, zeros, specials — so that value-dependent dtypes (python max/min) show up.
DIRECTED = [(1, 2, 3), (2, 1, 0), (0, 0, 0), (3, 3, 1), (-1.5, 0.5, 2), (0.5, -1.5, -2), (7, -3, 1), (-2, 5, 5),
            (math.inf, 1, -math.inf), (1, math.inf, 0), (math.nan, 1, 2), (2, math.nan, math.nan)]


def np_scalar(dtype_name, v):
    """numpy scalar of the given dtype from a python number (ints/bools take the integer part / parity)."""
    d = getattr(numpy, dtype_name)
    with warnings.catch_warnings(), numpy.errstate(all="ignore"):
        warnings.simplefilter("ignore")
        if dtype_name == "bool":
            return d(bool(int(v) % 2) if isinstance(v, (int, float)) and math.isfinite(v) else True)
        if dtype_name.startswith("int"):
            iv = int(v) if isinstance(v, (int, float)) and math.isfinite(v) else 1
            info = numpy.iinfo(d)
            return d(max(info.min, min(info.max, iv)))
        if dtype_name.startswith("complex") or dtype_name == "clongdouble":
            if isinstance(v, complex):
                return d(v)
            return d(complex(v, -v if isinstance(v, (int, float)) and math.isfinite(v) else 1.0))
        if isinstance(v, complex):
            v = v.real
        return d(v)


def random_values(rng, n):
    """n python numbers: small ints, fractions, huge, tiny, specials."""
    out = []
    for _ in range(n):
        r = rng.random()
        if r < 0.25:
            out.append(rng.randrange(-9, 10))
        elif r < 0.55:
            out.append(rng.uniform(-4, 4))
        elif r < 0.65:
            out.append(rng.choice([1e30, -1e30, 1e-30, 6e4, 7e4, 3e38, 1e300, 5e-324, 1e-40, 6e-8]))
        elif r < 0.75:
            out.append(rng.choice([0.0, -0.0, 1.0, -1.0]))
        elif r < 0.85:
            out.append(rng.choice([math.inf, -math.inf, math.nan]))
        else:
            out.append(rng.choice([2 ** 31 - 1, 2 ** 40, -2 ** 62, 255, 65504]))
    return out


def result_name(r):
    """type-system name of the dtype of a run-time value; 'alien' for anything that is not a NumPy value of a known dtype"""
    dt = getattr(r, "dtype", None)
    if dt is None:
        return "alien"
    return DTYPE_TO_TY.get(str(dt), "alien")


# ----------------------------------------------------------------------------- tables

def exec_env():
    """The globals `targets.numpy.as_function` executes the generated text in."""
    fa, fa_expr, np_t, utils = repo_modules()
    import sys

    return dict(sys=sys, numpy=numpy, make_complex=utils.make_complex, finfo_float32=numpy.finfo(numpy.float32),
                finfo_float64=numpy.finfo(numpy.float64), warnings=warnings)


def canon_table():
    """type_to_target, as {type name: type name of the printed dtype}; unparsable entries are reported."""
    fa, fa_expr, np_t, utils = repo_modules()
    out, problems = {}, []
    for name, target in np_t.type_to_target.items():
        try:
            ty_tuple(name)
        except ValueError:
            problems.append(f"type_to_target key {name!r} is not a scalar type name")
            continue
        try:
            obj = eval(target, dict(numpy=numpy))
            out[name] = DTYPE_TO_TY.get(str(numpy.dtype(obj)), "alien")
        except Exception as e:  # printed name does not exist in numpy: such a type cannot be executed
            problems.append(f"type_to_target[{name!r}] = {target!r} is not a numpy dtype ({type(e).__name__})")
    return out, problems


def make_node(kind, tys, idx=0):
    """Real node of `kind` over fresh symbols of the given types.  Returns (ctx, symbols, expr or exception)."""
    fa, fa_expr, np_t, utils = repo_modules()
    ctx = fa.Context()
    syms = [ctx.symbol("a%d" % i, t) for i, t in enumerate(tys)]
    try:
        with warnings.catch_warnings():
            warnings.simplefilter("ignore")
            if kind == "item":
                e = ctx.item(ctx.list(syms), idx)
            else:
                e = fa_expr.Expr(ctx, kind, tuple(syms))
    except Exception as ex:
        return ctx, syms, ex
    return ctx, syms, e


def read_static(e):
    """(type name | None, is_complex | None) of a real expression; None = the method raised."""
    try:
        t = e.get_type()
        tn = str(t) if t.kind in ("boolean", "integer", "float", "complex") else None
        if tn is not None:
            ty_tuple(tn)
    except Exception:
        tn = None
    try:
        c = bool(e.is_complex)
    except Exception:
        c = None
    return tn, c


def static_rows(kinds):
    """rows (kind, idx, arg type names, static type name|None, is_complex|None) from the real get_type / is_complex"""
    rows = []
    for k in kinds:
        for tys in rows_domain(k, UNIVERSE):
            ctx, syms, e = make_node(k, tys)
            if isinstance(e, Exception):
                rows.append((k, 0, list(tys), None, None))
                continue
            tn, c = read_static(e)
            rows.append((k, 0, list(tys), tn, c))
    for idx in (0, 1):
        for tys in itertools.product(UNIVERSE, repeat=2):
            ctx, syms, e = make_node("item", tys, idx)
            tn, c = (None, None) if isinstance(e, Exception) else read_static(e)
            rows.append(("item", idx, list(tys), tn, c))
    return rows


def rows_domain(kind, universe):
    """operand tuples of a kind in lexicographic order of the universe (rows are found by position in Lean)"""
    return list(itertools.product(universe, repeat=ARITY[kind]))


def print_node(e):
    """Text the real numpy Printer emits for the node (operands are symbols, printed by name)."""
    fa, fa_expr, np_t, utils = repo_modules()
    P = np_t.Printer(collections.defaultdict(bool), debug=0)
    return P.tostring(e)


def observe(text, names, dtypes, value_tuples, env):
    """Evaluate `text` with names bound to numpy scalars of `dtypes` for every value tuple.
    Returns (sorted list of observed result type names, number of samples that raised)."""
    seen, errs = set(), 0
    try:
        code = compile(text, "<c08-template>", "eval")
    except SyntaxError:  # the emitted text is not Python (e.g. a `%%` left in a template): no value at all
        return [], len(value_tuples)
    for vs in value_tuples:
        d = dict(env)
        for n, dt, v in zip(names, dtypes, vs):
            d[n] = np_scalar(dt, v)
        try:
            with warnings.catch_warnings(), numpy.errstate(all="ignore"):
                warnings.simplefilter("ignore")
                r = eval(code, d)
            seen.add(result_name(r))
        except Exception:
            errs += 1
    return sorted(seen), errs


def dtype_universe(canon):
    """the sized types the universe is printed as, in universe order"""
    out = []
    for t in UNIVERSE:
        d = canon.get(t)
        if d is not None and d not in out:
            out.append(d)
    return out


TY_TO_DTYPE = {v: k for k, v in DTYPE_TO_TY.items() if k not in ("longdouble", "clongdouble")}


def np_rows(declared, canon, value_tuples=None, rng=None, nrandom=0):
    """rows (kind, idx, dtype type names, observed type names) — text from the real printer, executed on numpy scalars.
    Also returns {row key: text}."""
    env = exec_env()
    D = dtype_universe(canon)
    rows, texts = [], {}
    for k in declared:
        doms = [(0, tys) for tys in rows_domain(k, D)] if k != "item" else [(i, tys) for i in (0, 1) for tys in itertools.product(D, repeat=2)]
        for idx, tys in doms:
            ctx, syms, e = make_node(k, tys, idx)
            if isinstance(e, Exception):
                rows.append((k, idx, list(tys), []))
                continue
            try:
                with warnings.catch_warnings():
                    warnings.simplefilter("ignore")
                    text = print_node(e)
            except Exception:
                rows.append((k, idx, list(tys), []))  # cannot be printed: no code, no value
                continue
            vts = list(value_tuples if value_tuples is not None else DIRECTED)
            if rng is not None:
                vts = vts + [tuple(random_values(rng, 3)) for _ in range(nrandom)]
            names = [str(s.operands[0]) for s in syms]
            seen, errs = observe(text, names, [TY_TO_DTYPE[t] for t in tys], vts, env)
            rows.append((k, idx, list(tys), seen))
            texts[(k, idx, tuple(tys))] = text
    return rows, texts


# value classes of constants: name -> sample values (deterministic); `named` = constant_to_target keys
def const_samples():
    fa, fa_expr, np_t, utils = repo_modules()
    return dict(
        pybool=[True, False],
        pyint=[0, 1, -3, 2 ** 40],
        pyfloat=[1.5, -0.0, 1e-310, 3.0, math.inf, -math.inf, math.nan],
        pycomplex=[1 + 2j, -0.5j],
        npint=[numpy.int32(3), numpy.int64(-7)],
        npfloat16=[numpy.float16(1.5), numpy.float16("inf")],
        npfloat32=[numpy.float32(1.5), numpy.float32("nan"), numpy.float32(3)],
        npfloat64=[numpy.float64(1.5), numpy.float64("-inf"), numpy.float64(1e-310)],
        npcomplex=[numpy.complex64(1 + 2j), numpy.complex128(-2.5j)],
        named=sorted(np_t.constant_to_target),
    )


def const_rows(canon, extra_values=None):
    """rows (value class, like type, static type|None, observed types) for `ctx.constant(value, like_symbol)`"""
    fa, fa_expr, np_t, utils = repo_modules()
    env = exec_env()
    rows = []
    samples = const_samples()
    for vc, values in samples.items():
        values = list(values) + list((extra_values or {}).get(vc, []))
        for lt in UNIVERSE:
            seen, static = set(), "?"
            for v in values:
                ctx = fa.Context()
                like = ctx.symbol("a0", lt)
                try:
                    with warnings.catch_warnings():
                        warnings.simplefilter("ignore")
                        e = ctx.constant(v, like)
                        tn, _c = read_static(e)
                        text = print_node(e)
                except Exception:
                    continue
                static = tn if static in ("?", tn) else "!varies"
                s, errs = observe(text, [], [], [()], env)
                seen.update(s)
            rows.append((vc, lt, None if static in ("?", "!varies") else static, sorted(seen)))
    return rows


def default_like_types():
    """type chosen by ctx.constant(v) without a like expression, per value class"""
    fa, fa_expr, np_t, utils = repo_modules()
    out = {}
    for vc, values in const_samples().items():
        if vc == "named":
            continue
        ts = set()
        for v in values:
            ctx = fa.Context()
            try:
                with warnings.catch_warnings():
                    warnings.simplefilter("ignore")
                    ts.add(str(ctx.constant(v).get_type()))
            except Exception:
                ts.add("!error")
        out[vc] = sorted(ts)
    return out


def _identity(ctx, x):
    return x


def symbol_rows(canon):
    """rows (symbol type, observed types of the argument after the cast the printer emits)"""
    fa, fa_expr, np_t, utils = repo_modules()
    rows = []
    incoming = [1.5, 2, True, numpy.float16(0.5), numpy.float32(3), numpy.float64(-1), numpy.int32(4), numpy.int64(5), numpy.bool_(True)]
    for t in UNIVERSE:
        seen = set()
        try:
            with warnings.catch_warnings():
                warnings.simplefilter("ignore")
                ctx = fa.Context()
                g = ctx.trace(_identity, f"x:{t}")
                fn = np_t.as_function(g, debug=0)
        except Exception:
            rows.append((t, []))
            continue
        vals = incoming + ([1 + 2j, numpy.complex64(2j)] if t.startswith("complex") else [])
        for v in vals:
            try:
                with warnings.catch_warnings(), numpy.errstate(all="ignore"):
                    warnings.simplefilter("ignore")
                    seen.add(result_name(fn(v)))
            except Exception:
                pass
        rows.append((t, sorted(seen)))
    return rows


# ----------------------------------------------------------------------------- reference causes (types only)
# Mirror of `wtRow` / `cause` in lean/FAVerif/Models/Typing.lean (kept in sync by the `rows` correspondence).

def width(t):
    k, b = ty_tuple(t)
    if b is not None:
        return b
    return {"complex": 128, "boolean": 8}.get(k, 64)


def need(K, t):
    k, _b = ty_tuple(t)
    w = width(t)
    if K == "complex":
        return {"complex": w, "float": 2 * w, "integer": min(128, 4 * w)}.get(k, 0)
    if K == "float":
        return {"float": w, "integer": min(64, 2 * w)}.get(k, 0)
    if K == "integer":
        return {"integer": w}.get(k, 0)
    return 0


def top_kind(tys):
    ks = [ty_tuple(t)[0] for t in tys]
    for K in ("complex", "float", "integer"):
        if K in ks:
            return K
    return "boolean"


def ref_max(a, b):
    """Type.max as written (reference copy used ONLY to describe the known deviations)"""
    if a == b:
        return a
    K = top_kind([a, b])
    bits = [ty_tuple(t)[1] for t in (a, b) if ty_tuple(t)[0] == K and ty_tuple(t)[1] is not None]
    return K + (str(max(bits)) if bits else "")


PROMO = ["add", "subtract", "multiply", "divide", "pow", "remainder", "atan2", "hypot"]
FLOATFN = ["sqrt", "asin", "acos", "atan", "asinh", "acosh", "atanh", "sinh", "cosh", "tanh", "sin", "cos", "tan", "log", "log1p",
           "log2", "log10", "exp", "exp2", "expm1", "divide", "atan2", "hypot", "asin_acos_kernel"]
SIG = dict(
    floatWiderThanComplexPart="Type.max:float-operand-wider-than-complex-part",
    unsizedOperandIgnored="Type.max:unsized-operand-ignored",
    integerWidthIgnored="Type.max:integer-operand-width-ignored",
    builtinMaxMin="maximum-minimum:python-builtin-returns-operand-dtype",
    copysignFirstOperand="copysign:typed-as-first-operand",
    castOfUnsized="upcast-downcast:unsized-operand",
    itemHeterogeneous="item:heterogeneous-list-typed-unsized",
    floatFnOfInteger="float-function:integer-operand-typed-integer",
)


def wt_row(k, tys):
    kinds = [ty_tuple(t)[0] for t in tys]
    top = top_kind(tys)
    if k in ("logical_and", "logical_or", "logical_xor", "logical_not"):
        return all(x == "boolean" for x in kinds)
    if k == "select":
        return bool(kinds) and kinds[0] == "boolean"
    if k in ("lt", "le", "gt", "ge", "eq", "ne", "is_finite", "upcast", "downcast", "item"):
        return True
    if k == "complex":
        return all(x == "float" for x in kinds)
    if k == "copysign":
        return bool(kinds) and kinds[0] == "float" and "complex" not in kinds
    return top != "boolean"


def _culprit(K, sw, tys):
    for t in tys:
        if need(K, t) > sw:
            k, b = ty_tuple(t)
            if b is None:
                return "unsizedOperandIgnored"
            if k == "integer":
                return "integerWidthIgnored"
            return "floatWiderThanComplexPart"
    return None


def cause(k, tys, idx=0):
    """known deviation class of the row (kind, operand types) or None — a function of the types only"""
    tys = list(tys)
    if k in FLOATFN and top_kind(tys) == "integer":
        return "floatFnOfInteger"
    if k in ("maximum", "minimum"):
        if len(tys) == 2 and (ty_tuple(tys[0])[0], width(tys[0])) != (ty_tuple(tys[1])[0], width(tys[1])):
            return "builtinMaxMin"
        return None
    if k in PROMO:
        return _culprit(top_kind(tys), width(ref_max(tys[0], tys[1])), tys)
    if k == "select":
        return _culprit(top_kind(tys[1:]), width(ref_max(tys[1], tys[2])), tys[1:])
    if k == "complex":
        m = ref_max(tys[0], tys[1])
        K, b = ty_tuple(m)
        sw = 2 * b if b is not None else 128
        if b is not None and 2 * b not in (1, 8, 16, 32, 64, 128, 256, 512):
            sw = 0
        return _culprit("complex", sw, tys)
    if k == "copysign":
        return "copysignFirstOperand" if _culprit("float", width(tys[0]), tys) else None
    if k in ("upcast", "downcast"):
        K, b = ty_tuple(tys[0])
        return "castOfUnsized" if b is None and K != "boolean" else None
    if k == "item":
        if len({ty_tuple(t)[1] for t in tys}) > 1 and idx < len(tys) and width(tys[idx]) != width(ty_tuple(tys[idx])[0]):
            return "itemHeterogeneous"
        return None
    return None


def row_status(static, canon, arg_types, obs_lookup, k, idx):
    """status of a static row: untyped / unprintable / unobserved / error / agree / disagree"""
    if static is None:
        return "untyped", None
    if canon.get(static) is None:
        return "unprintable", None
    try:
        key = (k, idx, tuple(canon[t] for t in arg_types))
    except KeyError:
        return "unobserved", None
    obs = obs_lookup.get(key)
    if obs is None:
        return "unobserved", None
    if not obs:
        return "error", obs
    if len(obs) == 1 and canon.get(static) == obs[0]:
        return "agree", obs
    return "disagree", obs


# ----------------------------------------------------------------------------- Lean emission

def lean_ty_pat(name):
    k, b = ty_tuple(name)
    return f"⟨.{k}, {'none' if b is None else 'some %d' % b}⟩"


def emit_lean(tables):
    canon, srows, nrows, crows, yrows = tables["canon"], tables["static"], tables["np"], tables["consts"], tables["symbols"]
    D = dtype_universe(canon)
    L = ["/- GENERATED by fav/props/c08.py from the current source of the repository under test; do not edit.",
         "   s_<kind> : the REAL Expr.get_type / is_complex, one real node per row;",
         "   n_<kind> : OBSERVED dtype of the text the real numpy printer emits for the node, evaluated on numpy scalars;",
         "   canon    : targets/numpy.py type_to_target.  -/",
         "import FAVerif.Models.Typing", "", "namespace FAVerif.Gen.C08", "open FAVerif.Typing", ""]
    L.append("def canon : Ty → Option Ty")
    for a, b in sorted(canon.items()):
        L.append(f"  | {lean_ty_pat(a)} => some {lean_ty(b)}")
    L.append("  | _ => none")
    L.append("")
    L.append("def ucode : Ty → Option Nat")
    for n, t in enumerate(UNIVERSE):
        L.append(f"  | {lean_ty_pat(t)} => some {n}")
    L.append("  | _ => none")
    L.append("")
    L.append("def dcode : Ty → Option Nat")
    for n, t in enumerate(D):
        L.append(f"  | {lean_ty_pat(t)} => some {n}")
    L.append("  | _ => none")
    L.append("")
    by_kind = collections.OrderedDict()
    for r in srows:
        by_kind.setdefault(r[0], []).append(r)
    skinds = list(by_kind)
    for k, rs in by_kind.items():
        L.append(f"def s_{k} : List SRow := [")
        L.append(",\n".join(
            f"  ⟨.{k}, {idx}, {lean_list(args)}, {lean_opt_ty(ty)}, {'none' if ic is None else '(some %s)' % str(ic).lower()}⟩"
            for (_k, idx, args, ty, ic) in rs))
        L.append("]")
    L.append("def kinds : List Kind := [" + ", ".join("." + k for k in skinds) + "]")
    L.append("def chunkOf : Kind → List SRow")
    for k in skinds:
        L.append(f"  | .{k} => s_{k}")
    if len(skinds) < len(LEAN_KINDS):
        L.append("  | _ => []")
    L.append("")
    by_kind = collections.OrderedDict()
    for r in nrows:
        by_kind.setdefault(r[0], []).append(r)
    for k, rs in by_kind.items():
        L.append(f"def n_{k} : List NRow := [")
        L.append(",\n".join(f"  ⟨.{k}, {idx}, {lean_list(args)}, {lean_list(obs)}⟩" for (_k, idx, args, obs) in rs))
        L.append("]")
    L.append("def npOf : Kind → List NRow")
    for k in by_kind:
        L.append(f"  | .{k} => n_{k}")
    if len(by_kind) < len(LEAN_KINDS):
        L.append("  | _ => []")
    L.append("")
    L.append("def consts : List CRow := [")
    L.append(",\n".join(f"  ⟨.{vc}, {lean_ty(lt)}, {lean_opt_ty(ty)}, {lean_list(obs)}⟩" for (vc, lt, ty, obs) in crows))
    L.append("]")
    L.append("def symbols : List YRow := [" + ", ".join(f"⟨{lean_ty(t)}, {lean_list(obs)}⟩" for t, obs in yrows) + "]")
    L.append("")
    L.append(f"def tables : Tables := ⟨canon, ucode, {len(UNIVERSE)}, dcode, {len(D)}, kinds, chunkOf, npOf, consts, symbols⟩")
    L.append("")
    L.append("end FAVerif.Gen.C08")
    return "\n".join(L) + "\n"


def build_tables():
    """All regenerated tables (deterministic: directed values only)."""
    known, declared, problems = kinds_report()
    canon, p2 = canon_table()
    problems += p2
    srows = static_rows(known)
    nrows, texts = np_rows(declared, canon)
    crows = const_rows(canon)
    yrows = symbol_rows(canon)
    return dict(canon=canon, static=srows, np=nrows, consts=crows, symbols=yrows, problems=problems, known=known, declared=declared,
                texts={"|".join([k, str(i), ",".join(t)]): v for (k, i, t), v in texts.items()}, default_like=default_like_types())
