"""C05 — executable targets (Python, NumPy, C++) compute exactly the traced graph.

Layers
  model     lean/FAVerif/Models/Printer.lean (generic printer, templates, rendering), Models/RefAlloc.lean
  tables    REGENERATED each run from targets/{python,numpy,cpp}.py -> Generated/C05Tables.lean (data) and
            Generated/C05Rows.lean (one named kernel-checked obligation per row)
  theorems  lean/FAVerif/Props/C05.lean
  tie       correspondence: the real printers' text (python/numpy through `ast`, cpp through a C tokenizer) ==
            the model's text (Drivers/Printer.lean) for every shipped (function, signature) x debug 0/1 and for
            seeded type-directed random DAGs; registration histories on a real Context == Models/RefAlloc
  search    the property's own clauses on the REAL code, independent of the Lean model: the emitted source is
            exec'ed / compiled with g++ and compared bit for bit with an independent DAG interpreter
            (fav/workers/c05_interp.py); aliasing is looked for on the real Expr objects
"""

import ast
import json
import os
import re
import subprocess
import threading
import time

from ..runner import LEAN_DIR, PY, REPO, ROOT, Infra
from ..workers import c05_gen
from . import c05_tables

THEOREMS = ["templates_python", "templates_numpy", "templates_cpp", "templates_numpy_item_shape", "templates_witness",
            "templates_reject_examples", "consts_all", "types_all", "ssa_wf", "assigned_once", "sem_preserve", "debug_equiv",
            "const_name_complex_examples", "const_name_int_inj", "const_name_regression",
            "registry_inj_partial", "registry_inj_toplevel", "registry_inj_witness", "no_alias", "no_alias_graph",
            "auto_names_witness"]
SEARCHED = [
    "bit-identical results of the exec'ed Python / NumPy text and of the g++-compiled C++ text vs. direct evaluation of the graph (special-value lattice + random inputs)",
    "emitted source compiles / loads without error for every graph the target accepts",
    "exempt template rows (python sign, cpp sign, numpy item: bare operand holes) — decided on generated graphs only",
    "auto-generated reference names never collide on the graphs explored (side condition of no_alias)",
    "toidentifier (value part of a constant's name) is injective on the value families explored: floats incl. random bit patterns, numpy scalars, complex values agreeing in one part (the Lean model ConstName.ident is tied by correspondence; only int injectivity is a theorem)",
]
TRUSTED = [
    "Lean 4 kernel; axioms propext, Classical.choice, Quot.sound only",
    "hand model Models/Printer.lean + Models/RefAlloc.lean of targets/base.py, expr.py (tostring/compute_need_ref/make_ref), context.py (_register_reference), tied by token/AST correspondence on every run",
    "trusted primitive tables: kindSem / constSem / typeSem in Models/Printer.lean (which operator or library function implements a kind) and their independent Python twins in fav/workers/c05_interp.py",
    "translator fav/props/c05_tables.py (module attributes -> Lean literals)",
    "Python `ast`, black (formatting only), g++ 12 -O0 -ffp-contract=off -frounding-math (no compile-time folding of libm calls), glibc libm, NumPy scalar arithmetic = IEEE",
    "Expr.get_type / toidentifier / str(value) are inputs of the model (C08 / C07 own them)",
]
LEVEL_TEXT = ("Proof for the printer model: for every DAG with pairwise distinct reference names the printed statement list is in SSA form "
              "(each variable assigned once, before use), evaluates to the value of the graph for every primitive semantics and environment, and "
              "debug level 1 adds only assertions; every row of the regenerated kind/constant/type tables denotes its kind per the trusted primitive "
              "table (3 rows exempt by name — python sign, cpp sign, numpy item — with proved negation witnesses); the reference registry is injective along every history that never takes the "
              "unchecked `_0_` branch (negation witness proved and replayed). Execution bit-identity, compile/load errors and name collisions of "
              "auto-generated names are decided by differential runs against an independent interpreter (search).")
LEVEL_NOTE = ("Partial where stated: registry injectivity and template correctness are false of the code as written (exact extra hypotheses / "
              "exempt rows are in the theorem statements, each with a replayed witness listed in known_findings.json). The text<->AST link of the target "
              "languages and the primitive libraries are trusted and exercised by the search, not proved.")
TECHNIQUE = "Lean 4 proof over a printer model + translator-regenerated tables with per-row decide + token/AST correspondence + differential execution (exec / g++ / ctypes) against an independent DAG interpreter"

WORK = os.path.join(ROOT, ".work", "c05")
NWORKERS = 6


def generate(ctx):
    tables = c05_tables.generate(ctx)
    return tables


# ----------------------------------------------------------------------------- workers / driver

def run_workers(cases, cfg, nworkers=NWORKERS):
    """Shard the cases over worker processes running the real code."""
    os.makedirs(WORK, exist_ok=True)
    shards = [[] for _ in range(nworkers)]
    # keep similar cost per shard: round robin
    for k, c in enumerate(cases):
        shards[k % nworkers].append(c)
    env = dict(os.environ)
    env["PYTHONPATH"] = REPO + os.pathsep + ROOT + os.pathsep + env.get("PYTHONPATH", "")
    # clang-format must NOT be found: utils.format_cpp then prints "Failed to run clang-format" and returns the
    # unformatted text (tokens are compared, layout is irrelevant); clang-format needs 10+ GB on long lines
    env["PATH"] = os.pathsep.join(d for d in env.get("PATH", "").split(os.pathsep)
                                  if d and not os.path.exists(os.path.join(d, "clang-format")))
    env["OPENBLAS_NUM_THREADS"] = "1"
    env["OMP_NUM_THREADS"] = "1"
    outs = [None] * nworkers
    errs = [None] * nworkers

    def work(k):
        if not shards[k]:
            outs[k] = []
            return
        job = dict(cases=shards[k], cfg=dict(cfg, tag=f"unit{k}", workdir=os.path.join(WORK, "cpp")))
        try:
            p = subprocess.run([PY, "-m", "fav.workers.c05_worker"], input=json.dumps(job), capture_output=True, text=True,
                               cwd=ROOT, env=env, timeout=3000)
        except subprocess.TimeoutExpired:
            errs[k] = "timeout"
            return
        if p.returncode != 0:
            stuck = ""
            try:
                stuck = open(os.path.join(WORK, "cpp", f"progress_unit{k}.txt")).read().strip()
            except OSError:
                pass
            errs[k] = f"rc={p.returncode} (last case started: {stuck}) " + p.stderr[-3000:]
            return
        try:
            outs[k] = json.loads(p.stdout)["results"]
        except Exception as e:  # noqa: BLE001
            errs[k] = f"bad worker output: {e}: {p.stdout[-500:]} {p.stderr[-1500:]}"

    th = [threading.Thread(target=work, args=(k,)) for k in range(nworkers)]
    for t in th:
        t.start()
    for t in th:
        t.join()
    for k, e in enumerate(errs):
        if e is not None:
            raise Infra(f"c05 worker {k} failed: {e}")
    by_id = {}
    for o in outs:
        for r in o:
            by_id[r["id"]] = r
    return [by_id[c["id"]] for c in cases if c["id"] in by_id]


def run_driver_parallel(ctx, blocks, nproc=6):
    """blocks: list of line lists (each starts with `R`); returns list of output line lists."""
    if not blocks:
        return []
    chunks = [[] for _ in range(nproc)]
    sizes = [0] * nproc
    order = sorted(range(len(blocks)), key=lambda i: -len(blocks[i]))
    where = {}
    for i in order:
        k = sizes.index(min(sizes))
        where[i] = (k, len(chunks[k]))
        chunks[k].append(blocks[i])
        sizes[k] += len(blocks[i])
    outs = [None] * nproc
    errs = [None] * nproc

    def work(k):
        lines = [ln for b in chunks[k] for ln in b]
        if not lines:
            outs[k] = []
            return
        try:
            outs[k] = ctx.lean.driver("Printer", lines, timeout=2400)
        except Exception as e:  # noqa: BLE001
            errs[k] = e

    th = [threading.Thread(target=work, args=(k,)) for k in range(nproc)]
    for t in th:
        t.start()
    for t in th:
        t.join()
    for e in errs:
        if e is not None:
            raise e if isinstance(e, Infra) else Infra(f"driver Printer: {e}")
    res = [None] * len(blocks)
    for k in range(nproc):
        pos = 0
        n_expected = sum(len(b) for b in chunks[k])
        if len(outs[k]) != n_expected:
            raise Infra(f"driver Printer returned {len(outs[k])} lines for {n_expected}")
        for j, b in enumerate(chunks[k]):
            idx = [i for i, w in where.items() if w == (k, j)][0]
            res[idx] = outs[k][pos:pos + len(b)]
            pos += len(b)
    return res


# ----------------------------------------------------------------------------- text comparison

C_TOK = re.compile(r"\s*(::|->|<<=|>>=|<<|>>|<=|>=|==|!=|&&|\|\||\+\+|--|[A-Za-z_]\w*|(?:\d+\.?\d*(?:[eE][+-]?\d+)?|\.\d+)[fFlLuU]*|.)", re.S)


def ctoks(s):
    return [t for t in C_TOK.findall(s) if t.strip()]


def same_text(target, real, model):
    if target == "cpp":
        return ctoks(real) == ctoks(model)
    try:
        return ast.dump(ast.parse(real)) == ast.dump(ast.parse(model))
    except SyntaxError:
        return ctoks(real) == ctoks(model)


# ----------------------------------------------------------------------------- case construction

def shipped_cases(tables):
    import importlib

    cases = []
    for t in c05_tables.TARGETS:
        m = importlib.import_module(f"functional_algorithms.targets.{t}")
        for func, sigs in m.trace_arguments.items():
            for i, sig in enumerate(sigs):
                cases.append(dict(id=f"shipped:{t}:{func}:{i}", kind="shipped", target=t, func=func, sig=list(sig), index=i))
    return cases


def declared(tables, t):
    return [k for k, e in tables[t]["kinds"] if e[0] != "notimpl"]


def history_cases(rng, n):
    """Registration histories: a few names, a few scopes (calls of `f`/`g`), expressions asking for the
    same name inside one scope, suffix-shaped names registered up front."""
    out = []
    for j in range(n):
        nscopes = rng.choice([0, 1, 1, 2, 3])
        scopes = [rng.choice(["f", "g", "inner"]) for _ in range(nscopes)]
        names = rng.sample(["t", "u", "x", "t_0", "_t_0_", "_u_0_", "_t_1_", "__f_1_t_0_", "_f_1_t", "__inner_1_u_0_", "v"], rng.choice([2, 3, 4]))
        avoid_dup = rng.random() < 0.75  # most histories never ask twice for a name inside one call (guarded histories)
        exprs, seen = [], set()
        for _ in range(rng.choice([2, 3, 5, 8])):
            for _try in range(8):
                sc, nm = rng.randrange(nscopes + 1), rng.choice(names)
                if not (avoid_dup and sc > 0 and (sc, nm) in seen):
                    break
            seen.add((sc, nm))
            exprs.append([sc, nm])
        order = [rng.randrange(len(exprs)) for _ in range(len(exprs) + rng.choice([0, 2, 4]))]
        for k in range(len(exprs)):
            if k not in order:
                order.append(k)
        out.append(dict(id=f"hist{j}", kind="history", exprs=exprs, scopes=scopes, order=order))
    # the witness of Props.C05.registry_inj_witness
    out.append(dict(id="hist_witness", kind="history", exprs=[[0, "t"], [1, "t"], [1, "t"]], scopes=["inner"], order=[0, 1, 2]))
    return out


def malformed_cases():
    """Graphs the targets must REJECT (unknown type / kind): compared as exception names."""
    arg = lambda i: ["arg", i]
    op = c05_gen.op
    R = []
    R.append(dict(target="python", name="bad_py_f32", args=[["x", "float32"]], nodes=[arg(0), op("negative", 0)], root=1, refs={}, stream="malformed"))
    R.append(dict(target="cpp", name="bad_cpp_f16", args=[["x", "float16"]], nodes=[arg(0), op("negative", 0), op("multiply", 1, 1)], root=2, refs={}, stream="malformed"))
    R.append(dict(target="numpy", name="bad_np_xor", args=[["x", "float32"]], nodes=[arg(0), op("lt", 0, 0), op("logical_xor", 1, 1)], root=2, refs={}, stream="malformed"))
    R.append(dict(target="python", name="bad_py_bitand", args=[["x", "integer"], ["y", "integer"]], nodes=[arg(0), arg(1), op("bitwise_and", 0, 1), op("add", 2, 0)], root=3, refs={}, stream="malformed"))
    R.append(dict(target="numpy", name="bad_np_up128", args=[["x", "float64"]], nodes=[arg(0), op("upcast", 0), op("upcast", 1)], root=2, refs={}, stream="malformed"))
    R.append(dict(target="cpp", name="bad_cpp_unknown_const", args=[["x", "float32"]], nodes=[arg(0), ["named", "eps", 0], op("add", 0, 1)], root=2, refs={}, stream="malformed"))
    R.append(dict(target="cpp", name="bad_cpp_nan_value", args=[["x", "float64"]], nodes=[arg(0), ["const", ["float", "nan"], 0], op("add", 0, 1)], root=2, refs={}, stream="malformed"))
    R.append(dict(target="numpy", name="bad_np_c32", args=[["x", "float16"]], nodes=[arg(0), op("complex", 0, 0)], root=1, refs={}, stream="malformed"))
    return R


# ----------------------------------------------------------------------------- classification of failures

INF_NAME = re.compile(r"(?<![\w.])(inf|nan)j?(?![\w(.])")


def classify(r):
    """Property failures of one worker result -> list of (signature, what).  Empty = property holds
    on this case."""
    out = []
    t = r.get("target")
    alias = [a for a in r.get("alias", []) if a["cls"] != "benign-same-typed-value"]
    if not any(p.get("text") for p in r.get("prints", [])):
        alias = []  # nothing was emitted
    mm = ((r.get("exec") or {}).get("mismatches") or [None])[0]
    for a in alias:
        out.append((f"alias:{a['cls']}", f"distinct sub-expressions {a['kinds']} share the variable `{a['ref']}`" +
                    (f" (typed values {a['typed_values']})" if a.get("typed_values") else "") +
                    (f"; bit-level consequence: {mm['why']} inputs={json.dumps(mm['inputs'])}" if mm else "")))
    stream = r.get("stream", "")
    kindtag = stream.split(":", 2)[2] if stream.startswith("directed:") else None
    texts = [p["text"] for p in r.get("prints", []) if p.get("text")]
    text0 = texts[0] if texts else ""
    for p in r.get("prints", []):
        e = p.get("error")
        if not e or e in ("NotImplementedError", "KeyError"):
            continue  # the target rejects the graph
        if e == "ValueError" and r.get("nan_constant"):
            continue  # toidentifier(float nan) raises: no target accepts a Python-float NaN constant
        raw = p.get("raw") or ""
        if e == "InvalidInput":
            if "%%" in raw:
                out.append((f"template:{t}:remainder:%%-is-not-an-operator", "emitted source is not valid Python: `(x) %% (y)`"))
            elif t == "python" and re.search(r"0 if .* if .* else .* == 0 else math\.copysign", raw):
                out.append(("template:python:sign:bare-operand-holes", "emitted source is not valid Python: sign template around a conditional expression"))
            else:
                out.append((f"print:{t}:invalid-syntax" + (f":{kindtag}" if kindtag else ""), "emitted source is not valid Python: " + raw[-200:]))
        elif e == "AttributeError" and t == "numpy" and p["debug"] >= 1 and isinstance(r.get("root"), list):
            out.append(("numpy:debug1:list-result:asdtype-of-boolean-is-None", "tostring(debug=1) raises AttributeError for a list-valued function with a boolean item"))
        elif e == "AssertionError" and alias:
            pass
        else:
            out.append((f"print:{t}:{e}" + (f":{kindtag}" if kindtag else ""), f"tostring(debug={p['debug']}) raised {e} on a graph the target accepts"))
    ex = r.get("exec") or {}
    if ex.get("harness_error"):
        out.append((f"harness:{t}", ex["harness_error"][-300:]))
    for er in ex.get("errors", []):
        msg = er.get("error", "")
        if alias and er.get("stage") in ("compile-error", "load-error", "run-crash"):
            continue  # consequence of the aliasing reported above (a variable of another type is used)
        if "floot" in msg:
            out.append(("template:cpp:floor:std::floot", "emitted C++ does not compile: " + msg))
        elif "operator%" in msg:
            out.append(("template:cpp:remainder:%-on-floating-operands", "emitted C++ does not compile: " + msg))
        elif re.search(r"no matching function for call to ‘(max|min)\((double|float)&?, (double|float)&?\)’", msg) and ex.get("attrib") is None:
            out.append(("template:cpp:maximum-minimum:std::max-needs-identical-operand-types", "emitted C++ does not compile: " + msg))
        elif er.get("stage") == "run-crash" and ex.get("attrib") == "cpp-constant-printed-untyped":
            out.append(("cpp:constants-printed-untyped:value-differs",
                        "integer-valued constants of float type are printed as int literals: `(7) / (0)` is an integer division by zero; " + msg))
        elif ex.get("attrib") == "cpp-constant-printed-untyped":
            out.append(("cpp:constants-printed-untyped:compile-error", "emitted C++ does not compile (compiles once constants are cast to the type of `like`): " + msg))
        elif re.search(r"‘_\w+_\d+_’ was not declared", msg) and r.get("stream") == "reuse":
            out.append(("cpp:argument-reference-renamed:parameter-declared-by-symbol-name",
                        "emitted C++ does not compile: the body uses the uniquified reference name of an argument, the signature declares the symbol name: " + msg))
        elif "‘nan’ was not declared" in msg or "'nan' was not declared" in msg:
            out.append(("cpp:make_constant:nan-printed-as-bare-name", "emitted C++ does not compile: " + msg))
        else:
            out.append((f"{er.get('stage')}:{t}" + (f":{kindtag}" if kindtag else ""), f"emitted source fails at {er.get('stage')}: {msg}"))
    if ex.get("mismatches") and not alias:
        m = ex["mismatches"][0]
        if ex.get("attrib") == "python-constant-keeps-value-class":
            out.append(("python:constants-not-cast-to-like-type", "integer-valued constant of float type printed as an int literal: " + m["why"]))
        elif ex.get("attrib") == "cpp-constant-printed-untyped":
            out.append(("cpp:constants-printed-untyped:value-differs", "float constant printed as a double/int literal (arithmetic carried out in another type): " + m["why"]))
        elif t == "numpy" and "AssertionError" in m["why"] and "dtype(" in m["why"] and all(mm["debug"] >= 1 for mm in ex["mismatches"]):
            out.append(("numpy:debug1:dtype-assertion-fails:static-type-differs-from-runtime-dtype",
                        "the debug>=1 dtype assertion fails although debug 0 returns the bits of direct evaluation (Expr.get_type disagrees with NumPy promotion, e.g. copysign(x32, y64), Python max/min of mixed dtypes; see C08): " + m["why"]))
        elif r.get("negzero_complex_constant") and t in ("numpy", "python") and ex.get("attrib") is None:
            out.append((f"{t}:make_constant:complex-str-does-not-round-trip-zero-signs",
                        "a complex constant is printed with str(value), which does not round-trip the sign of a zero part: `(-0+0.1j)` / `(1-0j)` read back with +0.0, `-2j` (0.0-2j) with a -0.0 real part: " + m["why"]))
        elif r.get("narrow_np_constant") and t in ("numpy", "python") and ex.get("attrib") is None:
            out.append((f"{t}:make_constant:narrower-numpy-scalar-printed-by-its-shortest-repr",
                        "a numpy scalar constant narrower than the type of `like` is printed with str(value) (shortest repr in ITS precision) and re-read in the wider type, e.g. numpy.float32(0.1) like float64 -> numpy.float64(0.1): " + m["why"]))
        elif "NameError" in m["why"] and t == "numpy" and re.search(r"(?<![\w.])(inf|nan)j(?![\w(.])", text0):
            out.append(("numpy:make_constant:complex-inf-nan-part-printed-as-bare-name",
                        "complex constant with an infinite/NaN part printed as `(1+infj)`: " + m["why"]))
        elif "NameError" in m["why"] and t == "python" and INF_NAME.search(text0):
            out.append(("python:make_constant:inf-nan-printed-as-bare-name", "float constant inf/nan printed as the bare name `inf`/`nan`: " + m["why"]))
        else:
            out.append((f"exec:{t}:result-differs" + (f":{kindtag}" if kindtag else ""), m["why"] + " inputs=" + json.dumps(m["inputs"])))
    return out


def ident_failures(r):
    out = []
    for c in r.get("collisions", []):
        sig = {"sign-of-zero": "alias:constant-name-ignores-sign-of-zero",
               "numpy-hex-bytes": "alias:constant-name-numpy-hex-bytes-not-zero-padded"}.get(c["cls"], "alias:toidentifier:different-values-same-identifier")
        out.append((sig, f"toidentifier maps the different values {c['values']} to the same identifier `{c['ident']}`", c))
    return out


def classify_history(r):
    out = []
    for ev in r.get("overwrites", []):
        if ev["unchecked_0"]:
            out.append(("alias:register_reference:origin-prefixed-_0_-name-committed-without-lookup",
                        f"_register_reference returned `{ev['name']}` which is registered to another expression (origin `{ev['origin']}`)"))
        else:
            out.append(("alias:register_reference:returns-registered-name",
                        f"_register_reference returned `{ev['name']}` which is registered to another expression"))
    if r.get("shared") and not out:
        out.append(("alias:register_reference:shared-name", f"two expressions hold the same reference name: {r['shared']}"))
    return out


# ----------------------------------------------------------------------------- main

def build_cases(ctx, tables):
    rng = ctx.rng
    cases = []
    # corpus first
    cdir = os.path.join(ROOT, "corpus", "C05")
    if os.path.isdir(cdir):
        for fn in sorted(os.listdir(cdir)):
            if fn.endswith(".json"):
                obj = json.load(open(os.path.join(cdir, fn)))
                c = obj.get("case")
                if c:
                    c = dict(c, id="corpus:" + fn[:-5])
                    cases.append(c)
    for r in c05_gen.known_finding_recipes():
        cases.append(dict(id="kf:" + r["name"], kind="recipe", recipe=r))
    for r in malformed_cases():
        cases.append(dict(id="bad:" + r["name"], kind="recipe", recipe=r))
    cases.extend(shipped_cases(tables))
    per_target = ctx.scale(1100, 4500)
    for t in c05_tables.TARGETS:
        consts = [k for k, _ in tables[t]["consts"]]
        for r in c05_gen.generate(rng, t, declared(tables, t), consts, per_target, prefix=f"g_{t}_"):
            cases.append(dict(id=r["name"], kind="recipe", recipe=r))
        for k in declared(tables, t):
            for ft in c05_gen.FLOATS[t][:2]:
                m = c05_gen.minimal(t, k, ft, name=f"min_{t}_{k}_{ft}")
                if m is not None:
                    cases.append(dict(id=m["name"], kind="recipe", recipe=m))
    # context reuse: a second function traced in a context in which another one was already printed
    for t in c05_tables.TARGETS:
        consts = [k for k, _ in tables[t]["consts"]]
        pairs = c05_gen.generate(rng, t, declared(tables, t), consts, 2 * ctx.scale(25, 200), prefix=f"r_{t}_")
        for a, b in zip(pairs[0::2], pairs[1::2]):
            b["stream"] = "reuse"
            b["refs"] = {}  # explicit references would mutate props of nodes shared with the function printed before
            cases.append(dict(id=b["name"], kind="recipe", recipe=b, prelude=a))
    cases.extend(history_cases(rng, ctx.scale(300, 2000)))
    # complex-valued constants agreeing in one part (directed) and the identifier function on value families
    for r in c05_gen.complex_constant_recipes():
        cases.append(dict(id=r["name"], kind="recipe", recipe=r))
    vals = c05_gen.ident_values(rng, ctx.scale(600, 6000))
    for k in range(0, len(vals), 100):
        cases.append(dict(id=f"idents{k // 100}", kind="idents", values=vals[k:k + 100]))
    return cases


def run(ctx):
    t0 = time.time()
    ctx.rule = ("one case = one graph printed by the real target printer at debug 0 and 1, compared with the model's text, exec'ed/compiled and "
                "compared with the independent interpreter on ~40 inputs; non-trivial = graph with >= 1 shared sub-expression given a variable, "
                "or a shipped algorithm, or a registration history with a name clash; distinct by (target, emitted text)")
    tables = generate(ctx)
    broken = ctx.lean_stage(["FAVerif.Props.C05"], THEOREMS)
    # the driver needs the tables module even when a row obligation broke
    if broken:
        ok, _failed, log = ctx.lean.build(["FAVerif.Generated.C05Tables", "FAVerif.Models.RefAlloc"])
        if not ok:
            raise Infra("cannot build the table module for the driver:\n" + log[-2000:])

    # ---- per-row verdicts (named obligations) from the model's own `rowOK`
    rows = ctx.lean.driver("Printer", [f"T\t{t}" for t in c05_tables.TARGETS] + [f"E\t{t}" for t in c05_tables.TARGETS])
    bad_rows = {t: [x for x in rows[i].split(",") if x] for i, t in enumerate(c05_tables.TARGETS)}
    exempt = {t: [x for x in rows[3 + i].split(",") if x] for i, t in enumerate(c05_tables.TARGETS)}
    directed = []
    row_items = {}
    for t in c05_tables.TARGETS:
        for k, e in tables[t]["kinds"]:
            if e[0] == "notimpl":
                continue
            ok = k not in bad_rows[t] or k in exempt[t]
            ctx.obligation(f"row:{t}:{k}", ok, kind="row(decide)")
            if not ok:
                item = next((b for b in broken if f"row_{t}_{c05_tables.ident(k)}" in b["name"]), None)
                if item is None:
                    item = ctx.broken(f"templates_{t}:row:{k}", f"row {k!r} = {e!r} of {t}.kind_to_target does not denote the kind per the trusted primitive table")
                row_items[(t, k)] = item
                for ft in c05_gen.FLOATS[t][:2]:
                    m = c05_gen.minimal(t, k, ft, name=f"dir_{t}_{k}_{ft}")
                    if m is not None:
                        m["stream"] = f"directed:{t}:{k}"
                        directed.append(dict(id=m["name"], kind="recipe", recipe=m))
        stale = [k for k in exempt[t] if k not in bad_rows[t] and any(kk == k for kk, _ in tables[t]["kinds"])]
        if stale:
            ctx.notes[f"exempt_rows_now_ok:{t}"] = stale

    cases = directed + build_cases(ctx, tables)
    cfg = dict(seed=ctx.seed, ninputs=ctx.scale(36, 64), debugs=[0, 1], cpu_seconds=ctx.scale(900, 3600))
    results = run_workers(cases, cfg)
    ctx.notes["worker_wall_s"] = round(time.time() - t0, 1)
    by_case = {c["id"]: c for c in cases}

    # ---- model side
    blocks, owners = [], []
    for r in results:
        if r["kind"] == "history":
            blocks.append(["R"] + r["hlines"])
            owners.append(r)
        elif r["kind"] == "idents":
            blocks.append(["R"] + r["ilines"])
            owners.append(r)
        elif r.get("status") == "printed" and not r.get("unsupported"):
            blocks.append(["R"] + r["dlines"])
            owners.append(r)
    t1 = time.time()
    outs = run_driver_parallel(ctx, blocks)
    ctx.notes["driver_wall_s"] = round(time.time() - t1, 1)

    corr_bad = 0
    corr_items = {}
    hyp_wf = hyp_inj = hyp_n = 0
    for r, b, o in zip(owners, blocks, outs):
        cid = r["id"]
        if r["kind"] == "history":
            model = o[1:]
            ctx.traces_validated += 1
            ctx.count("history")
            if model != r["hout"]:
                corr_bad += 1
                if corr_bad <= 5:
                    corr_items[cid] = ctx.broken("correspondence:RefAlloc", json.dumps(dict(case=by_case[cid], real=r["hout"], model=model))[:3000])
            continue
        if r["kind"] == "idents":
            model = o[1:]
            ctx.traces_validated += len(model)
            ctx.count("ident-values", len(model))
            if model != r["iout"]:
                corr_bad += 1
                bad = [(ln, a, b) for ln, a, b in zip(r["ilines"], r["iout"], model) if a != b][:5]
                if len(corr_items) < 5:
                    corr_items[cid] = ctx.broken("correspondence:ConstName", json.dumps(dict(case=cid, differences=[dict(value=ln[2:], real=a, model=b) for ln, a, b in bad])))
            continue
        r["stream"] = by_case[cid].get("recipe", {}).get("stream", "shipped" if r["kind"] == "shipped" else "")
        r["root"] = by_case[cid].get("recipe", {}).get("root")
        pairs = []
        for li, which in r["pmap"]:
            pairs.append((r["pre_print"] if which == "pre" else r["prints"][which], o[1 + li]))
        for p, mo in pairs:
            ctx.traces_validated += 1
            ok = True
            if p["error"]:
                if p["error"] == "InvalidInput":
                    ok = mo.startswith("OK") and ctoks(mo.split("\t", 3)[3].replace("\x1f", "\n")) == ctoks(p["raw"] or "")
                else:
                    ok = mo == "ERR " + p["error"]
            elif not mo.startswith("OK"):
                ok = False
            else:
                _, wf, inj, text = mo.split("\t", 3)
                hyp_n += 1
                hyp_wf += wf == "true"
                hyp_inj += inj == "true"
                ok = same_text(r["target"], p["text"], text.replace("\x1f", "\n"))
            if not ok:
                corr_bad += 1
                if len(corr_items) < 5 and cid not in corr_items:
                    corr_items[cid] = ctx.broken(f"correspondence:Printer:{r['target']}",
                                                 json.dumps(dict(case=by_case[cid], debug=p["debug"], real=(p["text"] or p["error"]), raw=p.get("raw"), model=mo.replace("\x1f", "\n")))[:6000])
    ctx.notes["correspondence_mismatches"] = corr_bad
    ctx.notes["theorem_hypotheses_on_real_graphs"] = dict(prints=hyp_n, WF=hyp_wf, RefInj=hyp_inj)
    ctx.obligation("correspondence:Printer+RefAlloc(model text == real text on every print; model registry == real registry on every history)",
                   corr_bad == 0, kind="correspondence")

    # ---- search: the property's clauses on the real code
    kinds_seen = {t: set() for t in c05_tables.TARGETS}
    status_count = {}
    for r in results:
        cid = r["id"]
        case = by_case[cid]
        if r["kind"] == "history":
            fails = classify_history(r)
            clash = any(x.startswith("_") and x.endswith("_") for x in r["hout"])
            ctx.case(key="H" + json.dumps([case["exprs"], case["scopes"], case["order"]]), nontrivial=clash)
            for sig, what in fails:
                ctx.violation(sig, what, dict(case=case, failure=what), broken_item=corr_items.get(cid))
            continue
        if r["kind"] == "idents":
            ctx.case(key=cid, nontrivial=bool(r.get("collisions")))
            for sig, what, c in ident_failures(r):
                ctx.violation(sig, what, dict(case=dict(id="idents-pair", kind="idents", values=c["specs"]), failure=c),
                              broken_item=corr_items.get(cid))
            continue
        st = r.get("status")
        status_count[(r.get("target"), st)] = status_count.get((r.get("target"), st), 0) + 1
        ctx.count(f"{r.get('target')}:{st}")
        if st == "worker-exception":
            raise Infra(f"c05 worker exception on {cid}: {r.get('error')}")
        if st != "printed":
            ctx.case(key=cid, nontrivial=False)
            continue
        t = r["target"]
        texts = [p["text"] for p in r["prints"] if p["text"]]
        if r.get("warned"):
            ctx.count(f"{t}:rejected-by-warning")
            ctx.case(key=cid, nontrivial=False)
            continue
        if texts:
            kinds_seen[t].update(r.get("kinds", []))
        shared_var = any(re.search(r"^\s+(?:[\w:<>]+ )?\w+(?::\s*[\w.\[\], ]+)? = ", tx, re.M) for tx in texts)
        ctx.case(key=(t, texts[0] if texts else cid), nontrivial=bool(shared_var or r["kind"] == "shipped"))
        ctx.count(f"stream:{r['stream'].split(':')[0] or 'bulk'}")
        ctx.count(f"nodes<={min(512, 1 << max(0, (r.get('nnodes', 1) - 1).bit_length()))}")
        ex = r.get("exec") or {}
        ctx.count("exec:inputs", ex.get("ninputs", 0) or 0)
        if ex.get("unsupported"):
            ctx.count("exec:interpreter-unsupported")
        for k in r.get("kinds", []):
            ctx.count(f"kind:{t}:{k}")
        if len(ctx.samples) < 6 and r["stream"] in ("bulk", "shipped") and texts:
            ctx.sample(dict(id=cid, target=t, text=texts[0][:600], inputs=ex.get("ninputs")), limit=6)
        fails = classify(r)
        stream = r["stream"]
        for sig, what in fails:
            item = corr_items.get(cid)
            if stream.startswith("directed:"):
                _d, tt, kk = stream.split(":", 2)
                item = row_items.get((tt, kk), item)
            ctx.violation(sig, what, dict(case=case, failure=what, text=(texts[0] if texts else None)), broken_item=item)
    # coverage of declared kinds
    for t in c05_tables.TARGETS:
        missing = [k for k in declared(tables, t) if k not in kinds_seen[t]]
        ctx.notes[f"declared_kinds_never_accepted:{t}"] = missing
    ctx.notes["status"] = {f"{k[0]}:{k[1]}": v for k, v in sorted(status_count.items(), key=str)}
    ctx.notes["total_wall_s"] = round(time.time() - t0, 1)


def replay(ctx, obj):
    rp = obj.get("replay") or {}
    case = rp.get("case")
    if not case:
        print("replay names an obligation without failing input:", obj.get("obligation"))
        print(obj.get("detail", "")[:2000])
        return 1
    case = dict(case, id=case.get("id", "replay"))
    res = run_workers([case], dict(seed=obj.get("seed", 0), ninputs=60, debugs=[0, 1]), nworkers=1)
    r = res[0]
    if case["kind"] == "history":
        fails = classify_history(r)
    elif case["kind"] == "idents":
        fails = [(sg, w) for sg, w, _ in ident_failures(r)]
        print(json.dumps(dict(real=r.get("iout"), collisions=r.get("collisions")), indent=1))
    else:
        r["stream"] = case.get("recipe", {}).get("stream", "")
        r["root"] = case.get("recipe", {}).get("root")
        fails = classify(r) if r.get("status") == "printed" else []
    for p in r.get("prints", []):
        print(f"--- debug={p['debug']}: {p['error'] or ''}\n{p['text'] or p.get('raw') or ''}")
    print(json.dumps(dict(status=r.get("status"), alias=r.get("alias"), exec=r.get("exec"), hout=r.get("hout"), shared=r.get("shared")), indent=1)[:3000])
    print("failures:", fails)
    want = obj.get("signature")
    return 1 if any(s == want for s, _ in fails) or (fails and want is None) else 0
