/- Line-protocol driver for the polynomial model (C16).  Mathlib-free.

   <dom> <cmd> <args…>      one line in → one line out
   dom = Q : elements are rationals `n/d` or `n`
   dom = S : elements are formal: `x` (v0), `y` (v1 = formal inverse of x), `z` (v2),
             `a<i>` (v(3+2i)), `b<i>` (v(4+2i)), or an integer literal; results are printed as
             canonical expanded polynomials with integer coefficients
             (`c*v<i>^e*…` terms joined by `+`, monomials sorted; `0` for zero).
   commands
     scheme <name> <k> <N>                      → nat
     choose <n> <k>                             → nat
     fastpow <poly|fpa> <n> <x>                 → elem
     fastpoly <poly|fpa> <scheme> <rev> <x> <c…>→ elem        scheme ∈ none horner estrin balanced canonical
     horner <rev> <x> <c…>                      → elem
     rpoly <poly|fpa> <rev> <x> <rc…>           → elem
     asr <rev> <c…>                             → list        (Q)
     laurent <scheme> <rev> <m> <z> <c…>        → elem
     mul|add <rev> <nP> <P…> <Q…>               → list
     divmod <rev> <nP> <P…> <D…>                → list ; list                  (Q)
     deriv <rev> <n> <P…>                       → list
     taylor <rev> <size|N> <z0> <P…>            → list
   lists are printed space separated (`[]` when empty); errors as `error:<Kind>`. -/
import FAVerif.Models.Poly
open FAVerif.Poly

/-! ### formal polynomials ℤ[v0, v1, …] in canonical form -/

abbrev Mono := List (Nat × Nat)

def Mono.cmp : Mono → Mono → Ordering
  | [], [] => .eq
  | [], _ :: _ => .lt
  | _ :: _, [] => .gt
  | (v, e) :: a, (w, f) :: b =>
    if v < w then .lt else if v > w then .gt
    else if e < f then .lt else if e > f then .gt
    else Mono.cmp a b

def Mono.mul : Mono → Mono → Mono
  | [], b => b
  | a, [] => a
  | (v, e) :: a, (w, f) :: b =>
    if v < w then (v, e) :: Mono.mul a ((w, f) :: b)
    else if v > w then (w, f) :: Mono.mul ((v, e) :: a) b
    else (v, e + f) :: Mono.mul a b

structure MPoly where
  terms : List (Mono × Int)
  deriving DecidableEq

namespace MPoly

def addT : List (Mono × Int) → List (Mono × Int) → List (Mono × Int)
  | [], b => b
  | a, [] => a
  | (m, c) :: a, (n, d) :: b =>
    match Mono.cmp m n with
    | .lt => (m, c) :: addT a ((n, d) :: b)
    | .gt => (n, d) :: addT ((m, c) :: a) b
    | .eq => if c + d = 0 then addT a b else (m, c + d) :: addT a b

def scaleT (m : Mono) (c : Int) (q : List (Mono × Int)) : List (Mono × Int) :=
  (q.map (fun (n, d) => (Mono.mul m n, c * d))).mergeSort (fun a b => Mono.cmp a.1 b.1 != .gt)

def mulT (p q : List (Mono × Int)) : List (Mono × Int) :=
  -- iterate over the shorter operand (multiplication is commutative)
  let (p, q) := if p.length ≤ q.length then (p, q) else (q, p)
  p.foldl (fun acc (m, c) => addT acc (scaleT m c q)) []

def ofInt (i : Int) : MPoly := ⟨if i = 0 then [] else [([], i)]⟩
def var (v : Nat) : MPoly := ⟨[([(v, 1)], 1)]⟩

instance : Add MPoly := ⟨fun p q => ⟨addT p.terms q.terms⟩⟩
instance : Mul MPoly := ⟨fun p q => ⟨mulT p.terms q.terms⟩⟩
instance : Neg MPoly := ⟨fun p => ⟨p.terms.map (fun (m, c) => (m, -c))⟩⟩
instance : Zero MPoly := ⟨ofInt 0⟩
instance : One MPoly := ⟨ofInt 1⟩
instance : NatCast MPoly := ⟨fun n => ofInt n⟩
/-- only the formal variable `x` (v0) has a formal inverse `y` (v1) -/
instance : Inv MPoly := ⟨fun p => if p = var 0 then var 1 else ofInt 0⟩
/-- division is not available on formal polynomials (commands needing it are Q-only) -/
instance : Div MPoly := ⟨fun _ _ => ofInt 0⟩

def showMono (m : Mono) : String := "*".intercalate (m.map (fun (v, e) => s!"v{v}^{e}"))

def toStr (p : MPoly) : String :=
  if p.terms.isEmpty then "0"
  else "+".intercalate (p.terms.map (fun (m, c) => if m.isEmpty then s!"{c}" else s!"{c}*{showMono m}"))

def parse (s : String) : Option MPoly :=
  if s = "x" then some (var 0) else if s = "y" then some (var 1) else if s = "z" then some (var 2)
  else if s.startsWith "a" then (s.drop 1).toNat?.map (fun i => var (3 + 2 * i))
  else if s.startsWith "b" then (s.drop 1).toNat?.map (fun i => var (4 + 2 * i))
  else s.toInt?.map ofInt

end MPoly

/-! ### rationals -/

def parseRat (s : String) : Option Rat :=
  match s.splitOn "/" with
  | [n] => n.toInt?.map (fun (i : Int) => (i : Rat))
  | [n, d] => match n.toInt?, d.toNat? with
    | some n, some d => if d = 0 then none else some ((n : Rat) / (d : Rat))
    | _, _ => none
  | _ => none

def showRat (q : Rat) : String := s!"{q.num}/{q.den}"

/-! ### generic command handler -/

structure Elem (α : Type) where
  parse : String → Option α
  toStr : α → String
  field : Bool     -- true: division is meaningful (Q)

def parseScheme : String → Option (Option Scheme)
  | "none" => some none | "horner" => some (some hornerScheme) | "estrin" => some (some estrinScheme)
  | "balanced" => some (some balancedScheme) | "canonical" => some (some canonicalScheme) | _ => none

def parseBool : String → Option Bool
  | "0" => some false | "1" => some true | _ => none

section
variable {α : Type} [Add α] [Mul α] [Zero α] [One α] [Neg α] [Div α] [Inv α] [NatCast α] [DecidableEq α]

def showList (E : Elem α) (l : List α) : String :=
  if l.isEmpty then "[]" else " ".intercalate (l.map E.toStr)

def parseAll (E : Elem α) (ts : List String) : Option (List α) := ts.mapM E.parse

def handle (E : Elem α) (toks : List String) : String :=
  match toks with
  | ["scheme", name, k, n] =>
    match parseScheme name, k.toNat?, n.toNat? with
    | some (some σ), some k, some n => toString (σ k n)
    | _, _, _ => "error:parse"
  | ["choose", n, k] =>
    match n.toNat?, k.toNat? with
    | some n, some k => toString (choose n k)
    | _, _ => "error:parse"
  | ["fastpow", md, n, x] =>
    match n.toNat?, E.parse x with
    | some n, some x => E.toStr (if md = "fpa" then Fpa.fastPow x n else fastPow x n)
    | _, _ => "error:parse"
  | "fastpoly" :: md :: sch :: rev :: x :: cs =>
    match parseScheme sch, parseBool rev, E.parse x, parseAll E cs with
    | some sch, some rev, some x, some cs =>
      if cs.isEmpty then "error:domain"
      else E.toStr (if md = "fpa" then Fpa.fastPolynomial x cs rev sch else fastPolynomial x cs rev sch)
    | _, _, _, _ => "error:parse"
  | "horner" :: rev :: x :: cs =>
    match parseBool rev, E.parse x, parseAll E cs with
    | some rev, some x, some cs =>
      if cs.isEmpty then "error:IndexError" else E.toStr (Fpa.horner x cs rev)
    | _, _, _ => "error:parse"
  | "rpoly" :: md :: rev :: x :: cs =>
    match parseBool rev, E.parse x, parseAll E cs with
    | some rev, some x, some cs =>
      if cs.isEmpty then "error:IndexError"
      else E.toStr (if md = "fpa" then Fpa.rpolynomial x cs rev else rpolynomial x cs rev)
    | _, _, _ => "error:parse"
  | "asr" :: rev :: cs =>
    match parseBool rev, parseAll E cs with
    | some rev, some cs =>
      if !E.field then "error:unsupported"
      else if cs.isEmpty then "error:IndexError"
      else
        let cs' := if rev then cs.reverse else cs
        if cs'.dropLast.any (fun c => decide (c = 0)) then "error:ZeroDivisionError"
        else showList E (asrpolynomial cs rev)
    | _, _ => "error:parse"
  | "laurent" :: sch :: rev :: m :: z :: cs =>
    match parseScheme sch, parseBool rev, m.toInt?, E.parse z, parseAll E cs with
    | some sch, some rev, some m, some z, some cs =>
      if cs.isEmpty then "error:domain"
      else if m < 0 && E.field && decide (z = 0) then "error:ZeroDivisionError"
      else E.toStr (Fpa.laurent z cs m rev sch)
    | _, _, _, _, _ => "error:parse"
  | "mul" :: rev :: np :: rest =>
    match parseBool rev, np.toNat?, parseAll E rest with
    | some rev, some np, some l => showList E (multiply (l.take np) (l.drop np) rev)
    | _, _, _ => "error:parse"
  | "add" :: rev :: np :: rest =>
    match parseBool rev, np.toNat?, parseAll E rest with
    | some rev, some np, some l => showList E (add (l.take np) (l.drop np) rev)
    | _, _, _ => "error:parse"
  | "divmod" :: rev :: np :: rest =>
    match parseBool rev, np.toNat?, parseAll E rest with
    | some rev, some np, some l =>
      if !E.field then "error:unsupported"
      else
        match divmod (l.take np) (l.drop np) rev with
        | none => "error:IndexError"
        | some (q, r) => s!"{showList E q} ; {showList E r}"
    | _, _, _ => "error:parse"
  | "deriv" :: rev :: n :: rest =>
    match parseBool rev, n.toNat?, parseAll E rest with
    | some rev, some n, some l => showList E (derivative l n rev)
    | _, _, _ => "error:parse"
  | "taylor" :: rev :: size :: z0 :: rest =>
    match parseBool rev, E.parse z0, parseAll E rest with
    | some rev, some z0, some l =>
      let size := if size = "N" then some none else size.toNat?.map some
      match size with
      | some size => showList E (taylorat l z0 rev size)
      | none => "error:parse"
    | _, _, _ => "error:parse"
  | _ => "error:parse"

end

def ratElem : Elem Rat := { parse := parseRat, toStr := showRat, field := true }
def symElem : Elem MPoly := { parse := MPoly.parse, toStr := MPoly.toStr, field := false }

def handleLine (line : String) : String :=
  match (line.trimAscii.toString.splitOn " ").filter (· ≠ "") with
  | "Q" :: toks => handle ratElem toks
  | "S" :: toks => handle symElem toks
  | _ => "error:parse"

partial def loop (h : IO.FS.Stream) : IO Unit := do
  let line ← h.getLine
  if line.isEmpty then return ()
  IO.println (handleLine line)
  loop h

def main : IO Unit := do loop (← IO.getStdin)
