/- Line-protocol driver for the reference-name allocation model (C09).
   fresh TMP PERM(id|rev)                          -> ok
   symbol NAME TYP | defaultlike TYP | const IDENT TYNAME LIKE | node KIND O1 O2 ...   -> id N
   bump N | name ID S | autoname ID S | call F | ret                                   -> ok
   ref ID                                          -> name S
   load KIND SHAPE PAY1 PAY2 INTKEY OF OK REFNAME O1 O2 ...   (append an expression as is; `-` = none) -> id N
   tmp -> tmp N        stack -> stack S        safe ID -> safe true|false -/
import FAVerif.Models.RefNames
open FAVerif.RefNames

structure D where
  amb : Ambient := {}
  st : State := {}

def showOut : Out → String
  | .unit => "ok" | .id i => s!"id {i}" | .name s => s!"name {s}" | .quiet s => s!"name {s}"

def nats (l : List String) : Option (List Nat) := l.mapM String.toNat?

def opt (s : String) : Option String := if s == "-" then none else some s

def doOp (d : D) (op : Op) : D × String :=
  let r := step d.amb d.st op
  ({ amb := r.1, st := r.2.1 }, showOut r.2.2)

def stepLine (d : D) (line : String) : D × String :=
  match (line.trimAscii.toString.splitOn " ").filter (· ≠ "") with
  | ["fresh", t, p] =>
    match t.toNat? with
    | some t => ({ amb := { tmpCounter := t, seedPerm := if p == "rev" then SeedPerm.rev else SeedPerm.id }, st := {} }, "ok")
    | none => (d, "bad-op")
  | ["symbol", n, t] => doOp d (.symbol n t)
  | ["defaultlike", t] => doOp d (.defaultLike t)
  | ["const", i, t, l] => match l.toNat? with
    | some l => doOp d (.const i t l)
    | none => (d, "bad-op")
  | "node" :: k :: os => match nats os with
    | some os => doOp d (.node k os)
    | none => (d, "bad-op")
  | ["bump", n] => match n.toNat? with
    | some n => doOp d (.bump n)
    | none => (d, "bad-op")
  | ["name", i, s] => match i.toNat? with
    | some i => doOp d (.name i s)
    | none => (d, "bad-op")
  | ["autoname", i, s] => match i.toNat? with
    | some i => doOp d (.autoname i s)
    | none => (d, "bad-op")
  | ["call", f] => doOp d (.call f)
  | ["ret"] => doOp d .ret
  | ["ref", i] => match i.toNat? with
    | some i => doOp d (.ref i true)
    | none => (d, "bad-op")
  | ["refq", i] => match i.toNat? with
    | some i => doOp d (.ref i false)
    | none => (d, "bad-op")
  | ["safe", i] => match i.toNat? with
    | some i => (d, s!"safe {refSafe d.st i}")
    | none => (d, "bad-op")
  | ["tmp"] => (d, s!"tmp {d.amb.tmpCounter}")
  | ["stack"] => (d, s!"stack {renderOrigin d.st.stackName}")
  | "load" :: kind :: shape :: p1 :: p2 :: ik :: oF :: oK :: rn :: os =>
    match ik.toNat?, oK.toNat?, nats os with
    | some ik, some oK, some os =>
      let payload : Option Payload :=
        if shape == "sym" then some (.sym (.named p1) p2)
        else if shape == "anon" then (p1.toNat?).map (fun n => .sym (.anon n) p2)
        else if shape == "const" then some (.const p1 p2)
        else if shape == "node" then some .node else none
      match payload with
      | some pl =>
        let e : ExprInfo := { kind := kind, payload := pl, operands := os, intkey := ik,
                              origin := if oF == "-" then none else some (oF, oK), refName := opt rn }
        ({ d with st := { d.st with exprs := d.st.exprs ++ [e], exprCounter := max d.st.exprCounter (ik + 1) } },
         s!"id {d.st.exprs.length}")
      | none => (d, "bad-op")
    | _, _, _ => (d, "bad-op")
  | _ => (d, "bad-op")

partial def loop (h : IO.FS.Stream) (d : D) : IO Unit := do
  let line ← h.getLine
  if line.isEmpty then return ()
  let (d', out) := stepLine d line
  IO.println out
  loop h d'

def main : IO Unit := do loop (← IO.getStdin) {}
