/- Line-protocol driver for the printer model (C05).  Fields are TAB separated; `~` = none;
   integer lists are comma separated.  One line in, one line out.

   R                                   reset the context (nodes, reference registry)            -> ok
   N id kind pargs cargs refname force origin intkey text ident ty likeTy typeof0 named preErr tyErr noCheck
                                       declare node `id` (ids are dense, operands first)        -> ok
   P target debug apply name args retTy retItems argErr retErr
                                       print the function whose `apply` node is `apply`
                                       args: `node|name|ty` joined by `;`, retItems: `a;b` or `~`
                                       -> OK <wf> <refinj> <line>\x1f<line>...   |   ERR <exception>
   H e origin name                     one `make_ref` call on a registered expression            -> <name> | ERR ..
   I valuespec                         `toidentifier` of a value (Models/ConstName.lean)            -> identifier | !Exception
   T target                            rows of the regenerated kind table failing `rowOK`        -> comma list
   E target                            the exempt rows (Models/Printer.lean `exempt`)              -> comma list
-/
import FAVerif.Models.Printer
import FAVerif.Models.RefAlloc
import FAVerif.Models.ConstName
import FAVerif.Generated.C05Tables
open FAVerif.Printer FAVerif.RefAlloc FAVerif.Gen.C05

structure Rec where
  kind : String
  pargs : List Nat
  cargs : List Nat
  refName : Option String
  force : Bool
  origin : String
  intkey : Nat
  text : String
  ident : String
  ty : String
  likeTy : String
  typeof0 : String
  named : Bool
  preErr : Option String
  tyErr : Option String
  noCheck : Bool

structure DState where
  recs : Array Rec := #[]
  rs : RState := {}

def opt (s : String) : Option String := if s == "~" then none else some s

def nats (s : String) : List Nat :=
  if s.isEmpty || s == "~" then [] else (s.splitOn ",").filterMap String.toNat?

def parseTarget : String → Option Target
  | "python" => some .python
  | "numpy" => some .numpy
  | "cpp" => some .cpp
  | _ => none

/-- value specification of a constant: `@int:n`, `@bool:b`, `@pyfloat:bits`, `@pycomplex:re:im`,
`@npfloat:w:bits`, `@npcomplex:w:re:im`, `@name:s`; anything else is taken as the identifier itself
(`!Exc` = `toidentifier` raised Exc) -/
def parseVal (s : String) : Option FAVerif.ConstName.Val :=
  match s.splitOn ":" with
  | ["@int", n] => n.toInt?.map .int
  | ["@bool", b] => some (.bool (b == "1"))
  | ["@pyfloat", b] => b.toNat?.map .pyfloat
  | ["@pycomplex", a, b] => match a.toNat?, b.toNat? with | some a, some b => some (.pycomplex a b) | _, _ => none
  | ["@npfloat", w, b] => match w.toNat?, b.toNat? with | some w, some b => some (.npfloat w b) | _, _ => none
  | ["@npcomplex", w, a, b] =>
    match w.toNat?, a.toNat?, b.toNat? with | some w, some a, some b => some (.npcomplex w a b) | _, _, _ => none
  | ["@name", n] => some (.name n)
  | _ => none

/-- the identifier the MODEL derives from the value (`Models/ConstName.lean`) -/
def identOf (spec : String) : String :=
  match parseVal spec with
  | some v => match FAVerif.ConstName.ident v with | .ok s => s | .error e => "!" ++ e
  | none => spec

def toRNode (r : Rec) : RNode :=
  { kind := r.kind, refName := r.refName, origin := r.origin, operands := r.cargs, intkey := r.intkey,
    text := if r.kind == "constant" then identOf r.ident else r.text }

def showExc : Except String String → String
  | .ok s => s
  | .error e => "ERR " ++ e

def doPrint (st : DState) (tgt : Target) (dbg root : Nat) (name : String) (args : List Arg) (retTy : String)
    (retItems : Option (List String)) (argErr retErr : Option String) : DState × String :=
  let recs := st.recs.toList
  let rnodes := recs.map toRNode
  let cargsOf := fun (i : Nat) => ((recs[i]?).map (·.cargs)).getD []
  -- `.ref` of every expression in compute_need_ref order
  let (rs, refs) := refsOf rnodes cargsOf (root + 1) (st.rs, []) root
  let st' := { st with rs := rs }
  match refs.find? (fun p => match p.2 with | .error _ => true | .ok _ => false) with
  | some (_, .error e) => (st', "ERR " ++ e)
  | _ =>
    let refOf := fun (i : Nat) => match refs.lookup i with | some (.ok r) => r | _ => "<unreached " ++ toString i ++ ">"
    let g : Graph Lab := recs.zipIdx.map fun (r, i) =>
      { lab := { kind := r.kind, text := r.text, ty := r.ty, likeTy := r.likeTy, typeof0 := r.typeof0, named := r.named }
        pargs := r.pargs, cargs := r.cargs, ref := refOf i, force := r.force, preErr := r.preErr, tyErr := r.tyErr,
        noCheck := r.noCheck }
    let need := countRefs g (root + 1) [] root
    let body := ((recs[root]?).bind (·.cargs.getLast?)).getD 0
    let fn : FnSpec := { name, args, body, retTy, retItems, argErr, retErr }
    let out := printFn tgt (tablesOf tgt) g (root + 1) need dbg fn
    -- hypotheses of the theorems, evaluated on the reachable part of the graph
    let reach := refs.map (·.1)
    let names := reach.map refOf
    let inj := decide (names.Nodup)
    let wf := reach.all fun i => match recs[i]? with
      | some r => r.pargs.all (· < i) && r.cargs.all (· < i)
      | none => false
    match out.err with
    | some e => (st', "ERR " ++ e)
    | none => (st', "OK\t" ++ toString wf ++ "\t" ++ toString inj ++ "\t" ++ "\x1f".intercalate out.lines)

def parseArgs (s : String) : List Arg :=
  if s.isEmpty || s == "~" then []
  else (s.splitOn ";").filterMap fun a =>
    match a.splitOn "|" with
    | [n, name, ty] => n.toNat?.map fun n => { node := n, name, ty }
    | _ => none

def stepLine (st : DState) (line : String) : DState × String :=
  match line.splitOn "\t" with
  | ["R"] => ({}, "ok")
  | ["N", id, kind, pargs, cargs, refName, force, origin, intkey, text, ident, ty, likeTy, typeof0, named, preErr, tyErr, noCheck] =>
    match id.toNat? with
    | some i =>
      if i != st.recs.size then (st, "ERR bad-id")
      else
        let r : Rec := { kind, pargs := nats pargs, cargs := nats cargs, refName := opt refName, force := force == "1",
                         origin, intkey := intkey.toNat?.getD 0, text, ident, ty, likeTy, typeof0, named := named == "1",
                         preErr := opt preErr, tyErr := opt tyErr, noCheck := noCheck == "1" }
        ({ st with recs := st.recs.push r }, "ok")
    | none => (st, "ERR bad-id")
  | ["P", tgt, dbg, root, name, args, retTy, retItems, argErr, retErr] =>
    match parseTarget tgt, dbg.toNat?, root.toNat? with
    | some t, some d, some r =>
      doPrint st t d r name (parseArgs args) retTy ((opt retItems).map fun s => if s.isEmpty then [] else s.splitOn ";") (opt argErr) (opt retErr)
    | _, _, _ => (st, "ERR bad-print")
  | ["H", e, origin, name] =>
    match e.toNat? with
    | some e =>
      match st.rs.refOf.lookup e with
      | some r => (st, r)
      | none =>
        let r := register st.rs e origin name
        ({ st with rs := r.1 }, showExc (resName r.2))
    | none => (st, "ERR bad-call")
  | ["T", tgt] =>
    match parseTarget tgt with
    | some t => (st, ",".intercalate (badRows t (tablesOf t)))
    | none => (st, "ERR bad-target")
  | ["I", spec] => (st, identOf spec)
  | ["E", tgt] =>
    match parseTarget tgt with
    | some t => (st, ",".intercalate (exempt t))
    | none => (st, "ERR bad-target")
  | _ => (st, "ERR bad-line")

partial def loop (h : IO.FS.Stream) (out : IO.FS.Stream) (st : DState) : IO Unit := do
  let line ← h.getLine
  if line.isEmpty then return ()
  let line := if line.endsWith "\n" then (line.dropEnd 1).toString else line
  let (st', o) := stepLine st line
  out.putStrLn o
  loop h out st'

def main : IO Unit := do
  let out ← IO.getStdout
  loop (← IO.getStdin) out {}
