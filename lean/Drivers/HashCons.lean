/- Line-protocol driver for the hash-consing model (C07).  One line in, one line out.

   reset                                         -> ok
   sym <namehex> <ty>                            -> fresh <id> <key> | hit <id> <key>
   const <tid> <tnamehex> <oid> <data> <like>    -> fresh/hit <id> <key> | RuntimeError | bad-op
   op <kind> <id>*                               -> fresh/hit <id> <key> | bad-op
   eq <tid> <tnamehex> <oid> <data> <tid> <tnamehex> <oid> <data>
                                                 -> <tupleEq> <pyEq> <sameKeyPart> <sameStr>   (0/1 each)
   <ty>   ::= T <kindhex> N | T <kindhex> B <n> | T <kindhex> S <hex> | T <kindhex> L <count> <ty>*
   <data> ::= i<int> | f<fl> | c<fl>|<fl> | s<hex>
   <fl>   ::= n<0|1>_<m>_<e> | I<0|1> | N<0|1>_<payload>
   <key>  ::= canonical text of the model key (value part of constants omitted)            -/
import FAVerif.Models.HashCons
open FAVerif.HashCons

def hexVal (c : Char) : Option Nat :=
  if '0' ≤ c ∧ c ≤ '9' then some (c.toNat - '0'.toNat)
  else if 'a' ≤ c ∧ c ≤ 'f' then some (c.toNat - 'a'.toNat + 10)
  else none

def unhexBytes : List Char → Option (List UInt8)
  | [] => some []
  | a :: b :: rest => do
      let x ← hexVal a
      let y ← hexVal b
      let r ← unhexBytes rest
      pure (UInt8.ofNat (16 * x + y) :: r)
  | _ => none

/-- "-" stands for the empty string. -/
def unhex (s : String) : Option String :=
  if s = "-" then some "" else
  match unhexBytes s.toList with
  | some bs => String.fromUTF8? (ByteArray.mk bs.toArray)
  | none => none

def hexDigit (n : Nat) : Char := if n < 10 then Char.ofNat (48 + n) else Char.ofNat (87 + n)

def hex (s : String) : String :=
  if s = "" then "-" else
  String.ofList (s.toUTF8.toList.flatMap fun b => [hexDigit (b.toNat / 16), hexDigit (b.toNat % 16)])

mutual
partial def parseTy : List String → Option (Ty × List String)
  | "T" :: k :: "N" :: rest => do let k ← unhex k; pure (.mk k .none, rest)
  | "T" :: k :: "B" :: n :: rest => do let k ← unhex k; let n ← n.toNat?; pure (.mk k (.bits n), rest)
  | "T" :: k :: "S" :: s :: rest => do let k ← unhex k; let s ← unhex s; pure (.mk k (.name s), rest)
  | "T" :: k :: "L" :: n :: rest => do
      let k ← unhex k; let n ← n.toNat?
      let (l, rest) ← parseTys n rest
      pure (.mk k (.tup l), rest)
  | _ => none
partial def parseTys : Nat → List String → Option (TyList × List String)
  | 0, rest => some (.nil, rest)
  | n + 1, rest => do
      let (t, rest) ← parseTy rest
      let (l, rest) ← parseTys n rest
      pure (.cons t l, rest)
end

mutual
partial def showTy : Ty → String
  | .mk k p => s!"T({hex k},{showParam p})"
partial def showParam : Param → String
  | .none => "N"
  | .bits n => s!"B{n}"
  | .name s => s!"S{hex s}"
  | .tup l => s!"L[{showTys l}]"
partial def showTys : TyList → String
  | .nil => ""
  | .cons t l => showTy t ++ ";" ++ showTys l
end

def parseFl (s : String) : Option PyFloat :=
  match s.toList with
  | 'n' :: rest => match (String.ofList rest).splitOn "_" with
      | [neg, m, e] => do pure (.fin ((← neg.toNat?) != 0) (← m.toNat?) (← e.toInt?))
      | _ => none
  | 'I' :: rest => do pure (.inf ((← (String.ofList rest).toNat?) != 0))
  | 'N' :: rest => match (String.ofList rest).splitOn "_" with
      | [neg, p] => do pure (.nan ((← neg.toNat?) != 0) (← p.toNat?))
      | _ => none
  | _ => none

def parseData (s : String) : Option PyData :=
  match s.toList with
  | 'i' :: rest => (String.ofList rest).toInt?.map .int
  | 'f' :: rest => (parseFl (String.ofList rest)).map .flt
  | 'c' :: rest => match (String.ofList rest).splitOn "|" with
      | [a, b] => do pure (.cplx (← parseFl a) (← parseFl b))
      | _ => none
  | 's' :: rest => (unhex (String.ofList rest)).map .str
  | _ => none

def parseVal (tid tname oid data : String) : Option PyVal := do
  pure { tid := ← tid.toNat?, tname := ← unhex tname, oid := ← oid.toNat?, data := ← parseData data }

def showTlk (t : TLK) : String := ",".intercalate (t.1 :: t.2.map toString)

def showKey : Key → String
  | .sym n t => s!"S:{hex n}:{showTy t}"
  | .const _ tn _ l => s!"C:{hex tn}:({showKey l})"
  | .op k args => s!"O:{k}:{";".intercalate (args.map showTlk)}"

def showOut (s : State) : Out → String
  | .fresh i => s!"fresh {i} {showKey (keyAt s i)}"
  | .hit i => s!"hit {i} {showKey (keyAt s i)}"
  | .runtimeError => "RuntimeError"
  | .badOp => "bad-op"

def b01 (b : Bool) : String := if b then "1" else "0"

def stepLine (s : State) (line : String) : State × String :=
  let reg (c : Cand) : State × String := let r := register s c; (r.1, showOut r.1 r.2)
  match line.trimAscii.toString.splitOn " " with
  | ["reset"] => (State.empty, "ok")
  | "sym" :: name :: ty =>
      match unhex name, parseTy ty with
      | some n, some (t, []) => reg (.sym n t)
      | _, _ => (s, "bad-op")
  | ["const", tid, tname, oid, data, like] =>
      match parseVal tid tname oid data, like.toNat? with
      | some v, some l => reg (.const v l)
      | _, _ => (s, "bad-op")
  | "op" :: kind :: ids =>
      match ids.mapM String.toNat? with
      | some args => reg (.op kind args)
      | none => (s, "bad-op")
  | ["eq", t1, n1, o1, d1, t2, n2, o2, d2] =>
      match parseVal t1 n1 o1 d1, parseVal t2 n2 o2 d2 with
      | some v, some w =>
          (s, s!"{b01 (tupleEq v w)} {b01 (pyEq v.data w.data)} {b01 (decide (canon v = canon w ∧ v.tname = w.tname ∧ v.data.strRep = w.data.strRep))} {b01 (decide (v.data.strRep = w.data.strRep))}")
      | _, _ => (s, "bad-op")
  | _ => (s, "bad-op")

partial def loop (h : IO.FS.Stream) (s : State) : IO Unit := do
  let line ← h.getLine
  if line.isEmpty then return ()
  let (s', out) := stepLine s line
  IO.println out
  loop h s'

def main : IO Unit := do loop (← IO.getStdin) State.empty
