/- Line-protocol driver for FP.Soft:   <fmt:16|32|64> <op> <a> [<b> [<c>]]   (decimal patterns) -/
import FAVerif.FP.Soft
open FAVerif.FP

def fmtOf : String → Option Fmt
  | "16" => some binary16 | "32" => some binary32 | "64" => some binary64 | _ => none

def b2s (b : Bool) : String := if b then "1" else "0"

def evalLine (line : String) : String :=
  match line.trimAscii.toString.splitOn " " with
  | fs :: op :: args =>
    match fmtOf fs, args.mapM String.toNat? with
    | some f, some xs =>
      match op, xs with
      | "add", [a, b] => toString (add f a b)
      | "sub", [a, b] => toString (sub f a b)
      | "mul", [a, b] => toString (mul f a b)
      | "div", [a, b] => toString (div f a b)
      | "sqrt", [a] => toString (sqrt f a)
      | "fma", [a, b, c] => toString (fma f a b c)
      | "neg", [a] => toString (neg f a)
      | "abs", [a] => toString (abs f a)
      | "min", [a, b] => toString (min f a b)
      | "max", [a, b] => toString (max f a b)
      | "lt", [a, b] => b2s (lt f a b)
      | "le", [a, b] => b2s (le f a b)
      | "eq", [a, b] => b2s (eq f a b)
      | "ne", [a, b] => b2s (ne f a b)
      | "nextup", [a] => toString (nextUp f a)
      | "nextdown", [a] => toString (nextDown f a)
      | "to16", [a] => toString (convert f binary16 a)
      | "to32", [a] => toString (convert f binary32 a)
      | "to64", [a] => toString (convert f binary64 a)
      | _, _ => "bad-op"
    | _, _ => "bad-op"
  | _ => "bad-op"

partial def loop (h : IO.FS.Stream) : IO Unit := do
  let line ← h.getLine
  if line.isEmpty then return ()
  IO.println (evalLine line)
  loop h

def main : IO Unit := do loop (← IO.getStdin)
