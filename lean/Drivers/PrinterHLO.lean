/- Line-protocol driver for the StableHLO / XLA-client printer models (C06).  One line in, one line out.

   S <hdr> <node>*     -> ok <warnUndef> <warnConst> <bindOk> <text>      | exc <ErrName> | bad-graph
   X <hdr> <node>*     -> ok <late> <warnConst> <defsOk> <text>           | exc <ErrName> | bad-graph
   R <table>           -> <kind>=<0|1> ...   per-row verdict of the generated table
                          (table: skinds sconsts xkinds xconsts xtypes ckinds cconsts ctypes)
   F <alt> <step>*     -> s-expression of the expression built by the alt-context constructor model

   <hdr>  ::= <fnameRef> <fname> <fnameForce> <propName> <expander> <tmplParam> <body> <args>
              strings hex-encoded ("-" = empty, "~" = None); <args> ::= idx:cplx,idx:cplx,... | -
   <node> ::= s,<ref>,<name>,<force>,<ty>
            | c,<ref>,<force>,<ty>,n,<name>,<like>
            | c,<ref>,<force>,<ty>,l,<fmt>,<str>,<like>
            | e,<ref>,<force>,<ty>,<val>,<like>
            | o,<ref>,<force>,<ty>,<kind>,<a>[,<b>[,<c>]]
   <ty>   ::= P<hex> | N<hex> | E<hex>
   <step> ::= y,<hex>                    symbol
            | k,<hexvalue>,<like>        constant
            | o,<kind>,<a>[,<b>[,<c>]]   operation                                         -/
import FAVerif.Models.PrinterHLO
import FAVerif.Generated.C06Tables
open FAVerif.PrinterHLO

def hexVal (c : Char) : Option Nat :=
  if '0' ≤ c ∧ c ≤ '9' then some (c.toNat - '0'.toNat)
  else if 'a' ≤ c ∧ c ≤ 'f' then some (c.toNat - 'a'.toNat + 10)
  else none

def unhexBytes : List Char → Option (List UInt8)
  | [] => some []
  | a :: b :: rest => do
      let x ← hexVal a
      let y ← hexVal b
      let r ← unhexBytes rest
      pure (UInt8.ofNat (16 * x + y) :: r)
  | _ => none

def unhex (s : String) : Option String :=
  if s = "-" then some "" else
  match unhexBytes s.toList with
  | some bs => String.fromUTF8? (ByteArray.mk bs.toArray)
  | none => none

def unhexOpt (s : String) : Option (Option String) :=
  if s = "~" then some none else (unhex s).map some

def parseTy (s : String) : Option Ty :=
  match s.toList with
  | 'P' :: r => (unhex (String.ofList r)).map .param
  | 'N' :: r => (unhex (String.ofList r)).map .named
  | 'E' :: r => (unhex (String.ofList r)).map .err
  | _ => none

def parseBool (s : String) : Option Bool :=
  match s with
  | "0" => some false | "1" => some true | _ => none

def parseNode (built : Array E) (tok : String) : Option E := do
  match tok.splitOn "," with
  | ["s", r, n, f, t] => pure (.sym (← unhex r) (← unhex n) (← parseBool f) (← parseTy t))
  | ["c", r, f, t, "n", nm, l] =>
      pure (.const (← unhex r) (← parseBool f) (← parseTy t) (.named (← unhex nm)) (← built[(← l.toNat?)]?))
  | ["c", r, f, t, "l", fm, st, l] =>
      pure (.const (← unhex r) (← parseBool f) (← parseTy t) (.lit (← unhex fm) (← unhex st)) (← built[(← l.toNat?)]?))
  | ["e", r, f, t, v, l] =>
      pure (.constE (← unhex r) (← parseBool f) (← parseTy t) (← built[(← v.toNat?)]?) (← built[(← l.toNat?)]?))
  | ["o", r, f, t, k, a] =>
      pure (.op1 (← unhex r) (← parseBool f) (← parseTy t) k (← built[(← a.toNat?)]?))
  | ["o", r, f, t, k, a, b] =>
      pure (.op2 (← unhex r) (← parseBool f) (← parseTy t) k (← built[(← a.toNat?)]?) (← built[(← b.toNat?)]?))
  | ["o", r, f, t, k, a, b, c] =>
      pure (.op3 (← unhex r) (← parseBool f) (← parseTy t) k (← built[(← a.toNat?)]?) (← built[(← b.toNat?)]?)
              (← built[(← c.toNat?)]?))
  | _ => none

def parseNodes (toks : List String) : Option (Array E) :=
  toks.foldlM (fun acc tok => do let e ← parseNode acc tok; pure (acc.push e)) #[]

def parseArg (nodes : Array E) (tok : String) : Option Arg := do
  match tok.splitOn ":" with
  | [i, c] =>
    match ← nodes[(← i.toNat?)]? with
    | .sym r n f t => pure { ref := r, name := n, force := f, ty := t, cplx := (← parseBool c) }
    | _ => none
  | _ => none

def parseFn (toks : List String) : Option Fn := do
  match toks with
  | fr :: fnm :: ff :: pn :: ex :: tp :: body :: args :: nodes =>
    let ns ← parseNodes nodes
    let as ← if args = "-" then pure [] else (args.splitOn ",").mapM (parseArg ns)
    pure { fnameRef := ← unhex fr, fname := ← unhex fnm, fnameForce := ← parseBool ff, propName := ← unhexOpt pn,
           expander := ← unhexOpt ex, tmplParam := ← unhexOpt tp, args := as, body := ← ns[(← body.toNat?)]? }
  | _ => none

def sTables : STables := ⟨FAVerif.Gen.C06.stablehloKinds, FAVerif.Gen.C06.stablehloConsts⟩
def xTabs : XTabs :=
  ⟨⟨FAVerif.Gen.C06.xlaKinds, FAVerif.Gen.C06.xlaConsts, FAVerif.Gen.C06.xlaTypes⟩,
   ⟨FAVerif.Gen.C06.cppKinds, FAVerif.Gen.C06.cppConsts, FAVerif.Gen.C06.cppTypes⟩⟩

def b01 (b : Bool) : String := if b then "1" else "0"

def rowsVerdict (t : String) : String :=
  let fmt (l : List (String × Bool)) := " ".intercalate (l.map fun p => p.1 ++ "=" ++ b01 p.2)
  match t with
  | "skinds" => fmt (sTables.kinds.map fun r => (r.1, sRowOk r))
  | "sconsts" => fmt (sTables.consts.map fun r => (r.1, sConstOk r))
  | "xkinds" => fmt (xTabs.main.kinds.map fun r => (r.kind, xRowOk trustedXla [] r))
  | "xconsts" => fmt (xTabs.main.consts.map fun r => (r.kind, xConstOk r))
  | "xtypes" => fmt (xTabs.main.types.map fun r => (r.1, trustedXlaTypes.lookup r.1 == some r.2))
  | "ckinds" => fmt (xTabs.cpp.kinds.map fun r => (r.kind, xRowOk trustedCpp trustedCppRaw r))
  | "cconsts" => fmt (xTabs.cpp.consts.map fun r => (r.kind, xConstOk r))
  | "ctypes" => fmt (xTabs.cpp.types.map fun r => (r.1, trustedCppTypes.lookup r.1 == some r.2))
  | _ => "bad-table"

/-! alt-context constructor model -/
partial def showA : A → String
  | .c v => "(c " ++ v ++ ")"
  | .op1 k a => "(" ++ k ++ " " ++ showA a ++ ")"
  | .op2 k a b => "(" ++ k ++ " " ++ showA a ++ " " ++ showA b ++ ")"
  | .op3 k a b c => "(" ++ k ++ " " ++ showA a ++ " " ++ showA b ++ " " ++ showA c ++ ")"

partial def showR : R → String
  | .sym x => x
  | .constV v l => "(const " ++ v ++ " " ++ showR l ++ ")"
  | .constA a l => "(constA " ++ showA a ++ " " ++ showR l ++ ")"
  | .op1 k a => "(" ++ k ++ " " ++ showR a ++ ")"
  | .op2 k a b => "(" ++ k ++ " " ++ showR a ++ " " ++ showR b ++ ")"
  | .op3 k a b c => "(" ++ k ++ " " ++ showR a ++ " " ++ showR b ++ " " ++ showR c ++ ")"

def foldStep (alt : Bool) (built : Array R) (tok : String) : Option R := do
  match tok.splitOn "," with
  | ["y", x] => pure (.sym (← unhex x))
  | ["k", v, l] => pure (mkConst alt (← unhex v) (← built[(← l.toNat?)]?))
  | ["o", k, a] => pure (mkOp1 alt k (← built[(← a.toNat?)]?))
  | ["o", k, a, b] => pure (mkOp2 alt k (← built[(← a.toNat?)]?) (← built[(← b.toNat?)]?))
  | ["o", k, a, b, c] => pure (mkOp3 alt k (← built[(← a.toNat?)]?) (← built[(← b.toNat?)]?) (← built[(← c.toNat?)]?))
  | _ => none

def handle (line : String) : String :=
  match (line.trimAscii.toString.splitOn " ").filter (· ≠ "") with
  | "S" :: rest =>
    match parseFn rest with
    | none => "bad-graph"
    | some f =>
      match printS sTables f with
      | .error e => "exc " ++ e.name
      | .ok o =>
        let bok := (checkBind f.argRefs o.pattern.events).isSome
        s!"ok {o.warnUndef} {o.warnConst} {b01 bok} {o.text}"
  | "X" :: rest =>
    match parseFn rest with
    | none => "bad-graph"
    | some f =>
      match printX xTabs f with
      | .error e => "exc " ++ e.name
      | .ok o => s!"ok {o.late} {o.warnConst} {b01 (checkFnX o)} {o.text}"
  | ["R", t] => rowsVerdict t
  | "F" :: alt :: steps =>
    match parseBool alt with
    | none => "bad-op"
    | some alt =>
      match steps.foldlM (fun acc tok => do let e ← foldStep alt acc tok; pure (acc.push e)) #[] with
      | some arr => match arr.back? with
        | some r => showR r
        | none => "bad-op"
      | none => "bad-op"
  | _ => "bad-op"

partial def loop (h : IO.FS.Stream) : IO Unit := do
  let line ← h.getLine
  if line.isEmpty then return ()
  IO.println (handle line)
  loop h

def main : IO Unit := do loop (← IO.getStdin)
