/- Line-protocol driver for the typing model (C08).

   `lean --run Drivers/Typing.lean rows`  : one line per static row of the REGENERATED table:
        <kind> <idx> <t1,t2,..> model=<ty|-> table=<ty|-> mic=<T|F|-> tic=<T|F|-> status=<status> wt=<0|1> cause=<signature|-> ok=<0|1>
   stdin (default mode), one graph per line, nodes separated by `;` (node i refers to earlier nodes only):
        s:<type>            symbol of a type
        c:<vc>:<like>       constant of value class vc, like = node index
        o:<kind>:<idx>:<a,b,..>   operation
     -> one line: per node `<static|->/<dyn|->/<covered 0|1>` separated by spaces
-/
import FAVerif.Lemmas.Typing
import FAVerif.Generated.C08Tables
open FAVerif.Typing FAVerif.Gen.C08

def kindNames : List (String × Kind) := [
  ("select", .select), ("item", .item), ("negative", .negative), ("positive", .positive), ("add", .add), ("subtract", .subtract),
  ("multiply", .multiply), ("divide", .divide), ("minimum", .minimum), ("maximum", .maximum), ("asin", .asin), ("acos", .acos),
  ("atan", .atan), ("asinh", .asinh), ("acosh", .acosh), ("atanh", .atanh), ("asin_acos_kernel", .asin_acos_kernel), ("atan2", .atan2),
  ("sin", .sin), ("cos", .cos), ("tan", .tan), ("sinh", .sinh), ("cosh", .cosh), ("tanh", .tanh), ("log", .log), ("log1p", .log1p),
  ("log2", .log2), ("log10", .log10), ("exp", .exp), ("expm1", .expm1), ("sqrt", .sqrt), ("square", .square), ("pow", .pow),
  ("exp2", .exp2), ("complex", .complex), ("conjugate", .conjugate), ("real", .real), ("imag", .imag), ("absolute", .absolute),
  ("hypot", .hypot), ("lt", .lt), ("gt", .gt), ("le", .le), ("ge", .ge), ("eq", .eq), ("ne", .ne), ("logical_and", .logical_and),
  ("logical_or", .logical_or), ("logical_xor", .logical_xor), ("logical_not", .logical_not), ("bitwise_invert", .bitwise_invert),
  ("bitwise_and", .bitwise_and), ("bitwise_or", .bitwise_or), ("bitwise_xor", .bitwise_xor), ("bitwise_left_shift", .bitwise_left_shift),
  ("bitwise_right_shift", .bitwise_right_shift), ("ceil", .ceil), ("floor", .floor), ("floor_divide", .floor_divide),
  ("remainder", .remainder), ("round", .round), ("truncate", .truncate), ("copysign", .copysign), ("sign", .sign),
  ("nextafter", .nextafter), ("upcast", .upcast), ("downcast", .downcast), ("is_finite", .is_finite), ("is_inf", .is_inf),
  ("is_posinf", .is_posinf), ("is_neginf", .is_neginf), ("is_nan", .is_nan), ("is_negzero", .is_negzero)]

def kindName (k : Kind) : String := ((kindNames.find? (fun p => p.2 == k)).map (·.1)).getD "?"
def parseKind (s : String) : Option Kind := (kindNames.find? (fun p => p.1 == s)).map (·.2)

def tkName : TKind → String
  | .boolean => "boolean" | .integer => "integer" | .float => "float" | .complex => "complex"

def tyName (t : Ty) : String :=
  if t == Ty.alien then "alien" else
  match t.bits with
  | none => tkName t.kind
  | some n => tkName t.kind ++ toString n

def parseTy (s : String) : Option Ty :=
  let go (k : TKind) (pre : String) : Option Ty :=
    if s.startsWith pre then
      let rest := (s.drop pre.length).toString
      if rest.isEmpty then some ⟨k, none⟩ else rest.toNat?.map (fun n => ⟨k, some n⟩)
    else none
  if s == "alien" then some Ty.alien else
  (go .boolean "boolean").orElse fun _ => (go .integer "integer").orElse fun _ => (go .float "float").orElse fun _ => go .complex "complex"

def parseVC : String → Option VC
  | "pybool" => some .pybool | "pyint" => some .pyint | "pyfloat" => some .pyfloat | "pycomplex" => some .pycomplex
  | "npint" => some .npint | "npfloat16" => some .npfloat16 | "npfloat32" => some .npfloat32 | "npfloat64" => some .npfloat64
  | "npcomplex" => some .npcomplex | "named" => some .named | _ => none

def optTy (t : Option Ty) : String := (t.map tyName).getD "-"
def optB (b : Option Bool) : String := match b with | some true => "T" | some false => "F" | none => "-"

def statusName : Status → String
  | .untyped => "untyped" | .unprintable => "unprintable" | .unobserved => "unobserved" | .error => "error"
  | .agree => "agree" | .disagree => "disagree"

def rowLine (r : SRow) : String :=
  let m := nodeTy r.kind (r.args.map some)
  let mic := nodeIsComplex r.kind (r.args.map (fun t => some t.isComplex))
  let c := cause r.kind r.idx r.args
  s!"{kindName r.kind} {r.idx} {",".intercalate (r.args.map tyName)} model={optTy m} table={optTy r.ty} mic={optB mic} tic={optB r.isComplex} status={statusName (tables.status r)} wt={if wtRow r.kind r.args then 1 else 0} cause={(c.map Cause.signature).getD "-"} ok={if modelRow r && tables.rowCheck r && icRow r then 1 else 0}"

def splitOn1 (s : String) (sep : String) : List String := s.splitOn sep

def parseNode (s : String) : Option Node :=
  match s.splitOn ":" with
  | ["s", t] => (parseTy t).map Node.symbol
  | ["c", vc, l] => do let v ← parseVC vc; let n ← l.toNat?; pure (Node.const v n)
  | ["o", k, idx, as] => do
      let kk ← parseKind k
      let i ← idx.toNat?
      let args ← (if as.isEmpty then some [] else (as.splitOn ",").mapM (·.toNat?))
      pure (Node.op kk i args)
  | _ => none

def coveredList (T : Tables) : List (Option Ty) → List Node → List Bool
  | _, [] => []
  | senv, n :: ns => T.nodeCovered senv n :: coveredList T (senv ++ [nodeStatic senv n]) ns

def graphLine (line : String) : String :=
  match (line.trimAscii.toString.splitOn ";").mapM parseNode with
  | none => "bad-graph"
  | some g =>
    let st := staticAll g
    let dy := dynAll tables.toNP g
    let cv := coveredList tables [] g
    let cells := (List.range g.length).map fun i =>
      s!"{optTy (st.getD i none)}/{optTy (dy.getD i none)}/{if cv.getD i false then 1 else 0}"
    " ".intercalate cells

partial def loop (h : IO.FS.Stream) : IO Unit := do
  let line ← h.getLine
  if line.isEmpty then return ()
  IO.println (graphLine line)
  loop h

def main (args : List String) : IO Unit := do
  if args == ["rows"] then
    for k in tables.kinds do
      for r in tables.chunkOf k do
        IO.println (rowLine r)
  else
    loop (← IO.getStdin)
