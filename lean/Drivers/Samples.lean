/- Line-protocol driver for the sample-generator model (C19).  Numbers are decimal bit patterns.

   <kind> <fmt> <inf> <zero> <sub> <nan> <huge> <nonneg> <unique> <dump> (<size> <min|N> <max|N>)+
     kind = rs (1 spec) | pair (2) | triple (3) | complex (2: re, im) | cpair (4: re0 im0 re1 im1)
     fmt  = 16 | 32 | 64
   trunc <a> <b>                 -- Python int(a / b), b > 0
   ->  ok <n> <hash> [<elem> ...]      (elements printed when dump = 1 or n <= 48)
       err <ExceptionName>
   NaNs are always printed as the quiet NaN; with unique = 1 (or a NaN bound, where the inner
   recursive calls sort NaNs) any zero is printed as 0: which of several equal-comparing patterns
   numpy.unique keeps is an artefact of numpy's sort.  For product kinds the printed sequence is the flattened result
   (shape numbers first for the 2-D kinds). -/
import FAVerif.Models.Samples
open FAVerif.Samples

def parseB : String → Option Bool
  | "1" => some true | "0" => some false | _ => none

def parseOptNat : String → Option (Option Nat)
  | "N" => some none
  | s => s.toNat?.map some

def parseCfg : String → Option Cfg
  | "16" => some cfg16 | "32" => some cfg32 | "64" => some cfg64 | _ => none

def showErr : Err → String
  | .zeroDivision => "ZeroDivisionError" | .assertion => "AssertionError" | .index => "IndexError"
  | .value => "ValueError" | .fuel => "model-fuel"

def canon (c : Cfg) (b : Nat) : Nat := if isNaN c b then c.qnan else if isZero c b then 0 else b

def hashList (l : List Nat) : Nat := l.foldl (fun h x => (h * 1000003 + x + 1) % (2 ^ 61 - 1)) 0

def render (dump : Bool) (l : List Nat) : String :=
  let head := s!"ok {l.length} {hashList l}"
  if dump || l.length ≤ 48 then l.foldl (fun s x => s ++ " " ++ toString x) head else head

structure Spec where
  size : Int
  lo : Option Nat
  hi : Option Nat

def parseSpecs : List String → Option (List Spec)
  | [] => some []
  | s :: a :: b :: rest => do
    let s ← s.toInt?
    let a ← parseOptNat a
    let b ← parseOptNat b
    let r ← parseSpecs rest
    pure (⟨s, a, b⟩ :: r)
  | _ => none

def nanBound (c : Cfg) (s : Spec) : Bool :=
  (match s.lo with | some b => isNaN c b | none => false) || (match s.hi with | some b => isNaN c b | none => false)

def run1 (c : Cfg) (base : Params) (s : Spec) : Except Err (List Nat) :=
  (realSamples c { base with size := s.size, minValue := s.lo, maxValue := s.hi }).map fun l =>
    if base.unique || nanBound c s then l.map (canon c) else l.map fun b => if isNaN c b then c.qnan else b

def flatGrid (g : List (List (Nat × Nat))) : List Nat :=
  [g.length, (g.headD []).length] ++ (g.flatMap fun row => row.flatMap fun xy => [xy.1, xy.2])

def process (line : String) : String :=
  match line.trimAscii.toString.splitOn " " with
  | ["trunc", a, b] =>
    match a.toInt?, b.toNat? with
    | some a, some b => s!"ok {pyTrueDivTrunc a b}"
    | _, _ => "bad-line"
  | kind :: fmt :: inf :: zero :: sub :: nan :: huge :: nonneg :: uniq :: dump :: specs =>
    match parseCfg fmt, parseB inf, parseB zero, parseB sub, parseB nan, parseB huge, parseB nonneg,
          parseB uniq, parseB dump, parseSpecs specs with
    | some c, some inf, some zero, some sub, some nan, some huge, some nonneg, some uniq, some dump, some specs =>
      let base : Params := { includeInfinity := inf, includeZero := zero, includeSubnormal := sub,
                             includeNan := nan, includeHuge := huge, nonnegative := nonneg, unique := uniq }
      let out : Option (Except Err (List Nat)) :=
        match kind, specs with
        | "rs", [s] => some (run1 c base s)
        | "pair", [a, b] => some do
            let s1 ← run1 c base a
            let s2 ← run1 c base b
            let r := pairSamples s1 s2
            pure (r.1 ++ r.2)
        | "triple", [a, b, d] => some do
            let s1 ← run1 c base a
            let s2 ← run1 c base b
            let s3 ← run1 c base d
            let r := tripleSamples s1 s2 s3
            pure (r.1 ++ r.2.1 ++ r.2.2)
        | "complex", [a, b] => some do
            let re ← run1 c base a
            let im ← run1 c base b
            pure (flatGrid (complexGrid c re im))
        | "cpair", [a, b, d, e] => some do
            let re0 ← run1 c base a
            let im0 ← run1 c base b
            let re1 ← run1 c base d
            let im1 ← run1 c base e
            let r := complexPairGrid (complexGrid c re0 im0) (complexGrid c re1 im1)
            pure (flatGrid r.1 ++ flatGrid r.2)
        | _, _ => none
      match out with
      | none => "bad-line"
      | some (.error e) => "err " ++ showErr e
      | some (.ok l) => render dump l
    | _, _, _, _, _, _, _, _, _, _ => "bad-line"
  | _ => "bad-line"

partial def loop (h : IO.FS.Stream) : IO Unit := do
  let line ← h.getLine
  if line.isEmpty then return ()
  IO.println (process line)
  loop h

def main : IO Unit := do loop (← IO.getStdin)
