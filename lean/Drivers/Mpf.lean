/- Line-protocol driver for the mpf → float model (C15).  One line in, one line out.
   Integers are decimal (possibly negative); bit patterns are printed in decimal.
   F ∈ {float16,float32,float64};  FLUSH/KW ∈ {A(bsent),U,T,F,N(one),I<int>};  RND ∈ {n,f,c,d,u}
     consts F                                  -> p subexp minexp maxexp largest
     norm S MAN EXP PREC RND                   -> sign man exp bc
     m2f F FLUSH KIND S MAN EXP PREC RND       -> bits B | AssertionError | OverflowError      (KIND fin|inf|nan, PREC N|<nat>)
     round F MAN EXP                           -> B      (reference RNE, magnitude bits)
     conv F MAN                                -> B | OverflowError      (numpy dtype(int))
     ldexp F B K                               -> B      (numpy.ldexp on a non-negative finite/inf pattern)
     init KW DFLT                              -> stored effective requested
     wprec P MNUM MDEN EXTRA                   -> working precision
     call F KW DFLT MNUM MDEN EXTRA FN BX BY   -> bits B | AssertionError | OverflowError | unmodelled -/
import FAVerif.Models.Mpf
open FAVerif.FP FAVerif.Mpf

def parseFmt : String → Option Fmt
  | "float16" => some binary16 | "float32" => some binary32 | "float64" => some binary64 | _ => none

def parseRnd : String → Option Rnd
  | "n" => some .n | "f" => some .f | "c" => some .c | "d" => some .d | "u" => some .u | _ => none

/-- keyword value; `A` = keyword absent -/
def parseKw (s : String) : Option (Option PyVal) :=
  match s with
  | "A" => some none
  | "U" => some (some .unspecified)
  | "T" => some (some .true)
  | "F" => some (some .false)
  | "N" => some (some .none)
  | _ => if s.startsWith "I" then (s.drop 1).toString.toInt?.map (fun n => some (.int n)) else none

def parseVal (s : String) : Option PyVal := (parseKw s).bind id

def showVal : PyVal → String
  | .unspecified => "U" | .true => "T" | .false => "F" | .none => "N" | .int n => s!"I{n}"

def showB (b : Bool) : String := if b then "1" else "0"

def parseBool : String → Option Bool
  | "0" => some false | "1" => some true | _ => none

def showOut : Out → String
  | .bits b => s!"bits {b}" | .assertionError => "AssertionError" | .overflowError => "OverflowError"

def parseFn : String → Option Fn
  | "id" => some .id | "neg" => some .neg | "mul" => some .mul | "add" => some .add | _ => none

def bad : String := "bad-op"

def handle (line : String) : String :=
  match line.trimAscii.toString.splitOn " " with
  | ["consts", f] => match parseFmt f with
      | some f => s!"{f.p} {subexp f} {minexp f} {maxexp f} {largest f}"
      | none => bad
  | ["norm", s, man, exp, prec, rnd] =>
      match parseBool s, man.toNat?, exp.toInt?, prec.toNat?, parseRnd rnd with
      | some s, some man, some exp, some prec, some rnd =>
          if prec = 0 then bad else
          let t := normalize s man exp prec rnd
          s!"{showB t.sign} {t.man} {t.exp} {t.bc}"
      | _, _, _, _, _ => bad
  | ["m2f", f, fl, kind, s, man, exp, prec, rnd] =>
      match parseFmt f, parseVal fl, parseBool s, man.toNat?, exp.toInt?, parseRnd rnd with
      | some f, some fl, some s, some man, some exp, some rnd =>
          let prec? : Option (Option Nat) := if prec = "N" then some none else prec.toNat?.map some
          let x? : Option Mpf := match kind with
            | "fin" => some (.fin s man exp) | "inf" => some (.inf s) | "nan" => some .nan | _ => none
          match prec?, x? with
          | some p, some x => if p = some 0 then bad else showOut (mpf2float f fl x p rnd)
          | _, _ => bad
      | _, _, _, _, _, _ => bad
  | ["round", f, man, exp] =>
      match parseFmt f, man.toNat?, exp.toInt? with
      | some f, some man, some exp => s!"{roundBits f man exp}"
      | _, _, _ => bad
  | ["conv", f, man] =>
      match parseFmt f, man.toNat? with
      | some f, some man => match convInt f man with
          | none => "OverflowError"
          | some v => s!"{pack f (ldexpV f v 0)}"
      | _, _ => bad
  | ["ldexp", f, b, k] =>
      match parseFmt f, b.toNat?, k.toInt? with
      | some f, some b, some k =>
          match decode f b with
          | .fin false m e => s!"{pack f (ldexpV f (.fin m e) k)}"
          | .inf false => s!"{pack f (ldexpV f .inf k)}"
          | _ => bad
      | _, _, _ => bad
  | ["init", kw, d] =>
      match parseKw kw, parseVal d with
      | some kw, some d => s!"{showVal (initFlush kw d)} {showB (effectiveFlush kw d)} {showB (requestedFlush kw d)}"
      | _, _ => bad
  | ["wprec", p, mn, md, ex] =>
      match p.toNat?, mn.toInt?, md.toNat?, ex.toInt? with
      | some p, some mn, some md, some ex => if md = 0 then bad else s!"{workPrec p mn md ex}"
      | _, _, _, _ => bad
  | ["call", f, kw, d, mn, md, ex, fn, bx, by_] =>
      match parseFmt f, parseKw kw, parseVal d, mn.toInt?, md.toNat?, ex.toInt? with
      | some f, some kw, some d, some mn, some md, some ex =>
          match parseFn fn, bx.toNat?, by_.toNat? with
          | some fn, some bx, some by_ =>
              if md = 0 then bad else
              match call f kw d mn md ex fn bx by_ with
              | none => "unmodelled"
              | some o => showOut o
          | _, _, _ => bad
      | _, _, _, _, _, _ => bad
  | _ => bad

partial def loop (h : IO.FS.Stream) : IO Unit := do
  let line ← h.getLine
  if line.isEmpty then return ()
  IO.println (handle line)
  loop h

def main : IO Unit := do loop (← IO.getStdin)
