/- Line-protocol driver for the rewriter model (C04).  Mathlib-free.  One line in → one line out.

   T <table> <table> <table>        set the relational tables (cc ca aa), answer `tables <n>`
       table  = rows joined by `,` (or `-` when empty); row = `<key>~<key>~<e0..e5>` with
                key = `N<name>` | `I<int>`, entries `T` `F` `N`
   R <work> <fuel> <gt> <bad> | <dag>
       rewrite.  <work> = py|f16|f32|f64|none (working dtype of the strict run);
       <gt>  = `-` or comma separated pair hashes for which `x.key > y.key` is True
       <bad> = `-` or comma separated pair hashes for which the key comparison raises TypeError
       answer: `ok <sexpr> | strict=<ok-same|ok-diff|Err>`   or   `err <Err> | strict=<...>`
   Q <dag>
       inference on the root: `zero=. one=. finite=. nonneg=. nonpos=. pos=. neg=. bool=. complex=. type=.`
   dag = nodes joined by `;`, root last; node =
       `s <name> <ty>` | `c <val> <likeIdx>` | `u <kind> <i>` | `b <kind> <i> <j>` | `t <i> <j> <k>`
   ty  = b|i|f|c|o followed by optional bits;  val = B0|B1|I<int>|F<tag>:<hex>|C<tag>:<hex>:<hex>|N<name>|O<descr>
-/
import FAVerif.Models.Rewriter
open FAVerif.Rewriter FAVerif.FP

def hexDigit (c : Char) : Option Nat :=
  if '0' ≤ c ∧ c ≤ '9' then some (c.toNat - '0'.toNat)
  else if 'a' ≤ c ∧ c ≤ 'f' then some (c.toNat - 'a'.toNat + 10)
  else none

def parseHex (s : String) : Option Nat :=
  if s.isEmpty then none else
  s.toList.foldl (fun acc c => do let a ← acc; let d ← hexDigit c; pure (a * 16 + d)) (some 0)

def hexStr (n : Nat) : String := String.ofList (Nat.toDigits 16 n)

def parseTag : String → Option FTag
  | "py" => some .py | "f16" => some .f16 | "f32" => some .f32 | "f64" => some .f64 | _ => none
def tagStr : FTag → String
  | .py => "py" | .f16 => "f16" | .f32 => "f32" | .f64 => "f64"

def parseTy (s : String) : Option Ty :=
  match s.toList with
  | [] => none
  | c :: rest =>
    let k : Option TKind := match c with
      | 'b' => some .boolean | 'i' => some .integer | 'f' => some .float | 'c' => some .complex | 'o' => some .other
      | _ => none
    match k with
    | none => none
    | some k =>
      if rest.isEmpty then some ⟨k, none⟩
      else match (String.ofList rest).toNat? with
        | some n => some ⟨k, some n⟩
        | none => none

def tyStr (t : Ty) : String :=
  (match t.kind with | .boolean => "b" | .integer => "i" | .float => "f" | .complex => "c" | .other => "o") ++
  (match t.bits with | some n => toString n | none => "")

def parseVal (s : String) : Option CVal :=
  match s.toList with
  | [] => none
  | c :: rest =>
    let r := String.ofList rest
    match c with
    | 'B' => if r = "1" then some (.bool true) else if r = "0" then some (.bool false) else none
    | 'I' => r.toInt?.map .int
    | 'F' => match r.splitOn ":" with
      | [t, h] => do let t ← parseTag t; let b ← parseHex h; pure (canonVal (mkFlt t b))
      | _ => none
    | 'C' => match r.splitOn ":" with
      | [t, h, g] => do let t ← parseTag t; let a ← parseHex h; let b ← parseHex g
                         pure (.cplx t (canonBits t.fmt a) (canonBits t.fmt b))
      | _ => none
    | 'N' => some (.name r)
    | 'O' => some (.other r)
    | _ => none

def valStr : CVal → String
  | .bool b => if b then "B1" else "B0"
  | .int n => s!"I{n}"
  | .flt t b => s!"F{tagStr t}:{hexStr b}"
  | .cplx t a b => s!"C{tagStr t}:{hexStr a}:{hexStr b}"
  | .name s => s!"N{s}"
  | .other d => s!"O{d}"

def k1Names : List (String × K1) :=
  [("negative", .negative), ("positive", .positive), ("absolute", .absolute), ("sqrt", .sqrt), ("square", .square),
   ("sign", .sign), ("logical_not", .logical_not), ("upcast", .upcast), ("downcast", .downcast),
   ("conjugate", .conjugate), ("real", .real), ("imag", .imag), ("log", .log), ("log10", .log10),
   ("log2", .log2), ("log1p", .log1p)]
def k2Names : List (String × K2) :=
  [("add", .add), ("subtract", .subtract), ("multiply", .multiply), ("divide", .divide), ("minimum", .minimum),
   ("maximum", .maximum), ("logical_and", .logical_and), ("logical_or", .logical_or), ("logical_xor", .logical_xor),
   ("lt", .lt), ("le", .le), ("gt", .gt), ("ge", .ge), ("eq", .eq), ("ne", .ne), ("complex", .complex)]

def parseK1 (s : String) : K1 := (k1Names.lookup s).getD (.other s)
def parseK2 (s : String) : K2 := (k2Names.lookup s).getD (.other s)
def k1Str (k : K1) : String :=
  match k with
  | .other n => n
  | _ => match k1Names.find? (fun p => p.2 == k) with | some p => p.1 | none => "?"
def k2Str (k : K2) : String :=
  match k with
  | .other n => n
  | _ => match k2Names.find? (fun p => p.2 == k) with | some p => p.1 | none => "?"

def parseNode (nodes : Array Expr) (s : String) : Option Expr :=
  let get (i : String) : Option Expr := do let k ← i.toNat?; nodes[k]?
  match s.splitOn " " with
  | ["s", n, t] => do let t ← parseTy t; pure (.sym n t)
  | ["c", v, l] => do let v ← parseVal v; let l ← get l; pure (.const v l)
  | ["u", k, i] => do let x ← get i; pure (.un (parseK1 k) x)
  | ["b", k, i, j] => do let x ← get i; let y ← get j; pure (.bin (parseK2 k) x y)
  | ["t", i, j, k] => do let c ← get i; let x ← get j; let y ← get k; pure (.select c x y)
  | _ => none

def parseDag (s : String) : Option Expr := do
  let mut nodes : Array Expr := #[]
  for part in s.splitOn ";" do
    let e ← parseNode nodes part
    nodes := nodes.push e
  nodes.back?

partial def sexpr : Expr → String
  | .sym n t => s!"(sym {n} {tyStr t})"
  | .const v l => s!"(const {valStr v} {sexpr l})"
  | .un k x => s!"({k1Str k} {sexpr x})"
  | .bin k x y => s!"({k2Str k} {sexpr x} {sexpr y})"
  | .select c x y => s!"(select {sexpr c} {sexpr x} {sexpr y})"

/-! structural 64-bit hash shared with the Python harness (`fav/props/c04.py: xhash`) -/

def mix (a b : UInt64) : UInt64 := ((a * 1000003) ^^^ b) * 0x9E3779B97F4A7C15 + 0x7F4A7C15

def hstr (s : String) : UInt64 :=
  s.toUTF8.foldl (fun h b => (h ^^^ b.toUInt64) * 1099511628211) 1469598103934665603

def xhash : Expr → UInt64
  | .sym n t => mix (mix 11 (hstr n)) (hstr (tyStr t))
  | .const v l => mix (mix 13 (hstr (valStr v))) (xhash l)
  | .un k x => mix (mix 17 (hstr (k1Str k))) (xhash x)
  | .bin k x y => mix (mix (mix 19 (hstr (k2Str k))) (xhash x)) (xhash y)
  | .select c x y => mix (mix (mix 23 (xhash c)) (xhash x)) (xhash y)

def pairHash (x y : Expr) : UInt64 := mix (mix 29 (xhash x)) (xhash y)

def parseHashes (s : String) : List UInt64 :=
  if s = "-" then [] else (s.splitOn ",").filterMap (fun t => t.toNat?.map UInt64.ofNat)

def errStr : Err → String
  | .assertion => "AssertionError" | .notImpl => "NotImplementedError" | .typeError => "TypeError"
  | .valueError => "ValueError" | .overflow => "OverflowError"
  | .unsupported w => s!"Unsupported:{w.replace " " "_"}" | .inexact w => s!"Inexact:{w.replace " " "_"}" | .fuel => "Fuel"

def parseKey (s : String) : Option Key :=
  match s.toList with
  | 'N' :: r => some (.name (String.ofList r))
  | 'I' :: r => (String.ofList r).toInt?.map .num
  | _ => none

def parseEntry : Char → Option Bool
  | 'T' => some true | 'F' => some false | _ => none

def parseTable (s : String) : Option Table :=
  if s = "-" then some [] else
  (s.splitOn ",").mapM (fun row =>
    match row.splitOn "~" with
    | [a, b, es] => do
      let a ← parseKey a; let b ← parseKey b
      pure ((a, b), es.toList.map parseEntry)
    | _ => none)

def ob (r : M (Option Bool)) : String :=
  match r with
  | .ok (some true) => "T" | .ok (some false) => "F" | .ok none => "N" | .error e => "E:" ++ errStr e

def handle (tabs : Tables) (line : String) : Tables × String :=
  match line.splitOn " | " with
  | [hd, dag] =>
    match hd.splitOn " ", parseDag dag with
    | ["R", work, fuel, gt, bad], some e =>
      let gtH := parseHashes gt
      let badH := parseHashes bad
      let ord : Expr → Expr → Option Bool := fun x y =>
        let h := pairHash x y
        if badH.contains h then none else some (gtH.contains h)
      let fuel := fuel.toNat?.getD 64
      let cfg : Cfg := { T := tabs, ord := ord }
      let scfg : Cfg := { T := tabs, ord := ord, strict := true, strictUD := true, work := parseTag work }
      let plain := rewriteDeep cfg fuel e
      let strict := rewriteDeep scfg fuel e
      let ss := match strict, plain with
        | .ok s, .ok p => if s == p then "ok-same" else "ok-diff"
        | .ok _, .error _ => "ok-diff"
        | .error er, _ => errStr er
      match plain with
      | .ok r => (tabs, s!"ok {sexpr r} | strict={ss}")
      | .error er => (tabs, s!"err {errStr er} | strict={ss}")
    | _, _ => (tabs, "bad-input")
  | [single] =>
    match single.splitOn " " with
    | ["T", a, b, c] =>
      match parseTable a, parseTable b, parseTable c with
      | some cc, some ca, some aa => ({ cc, ca, aa }, s!"tables {cc.length} {ca.length} {aa.length}")
      | _, _, _ => (tabs, "bad-tables")
    | "Q" :: rest =>
      match parseDag (" ".intercalate rest) with
      | some e =>
        let cx := match isComplex e with | .ok b => (if b then "T" else "F") | .error er => "E:" ++ errStr er
        let ty := match getType e with | .ok t => tyStr t | .error er => "E:" ++ errStr er
        (tabs, s!"zero={ob (isZero e)} one={ob (isOne e)} finite={ob (isFinite e)} nonneg={ob (isNonneg e)} nonpos={ob (isNonpos e)} pos={ob (isPos e)} neg={ob (isNeg e)} bool={if isBoolean e then "T" else "F"} complex={cx} type={ty}")
      | none => (tabs, "bad-input")
    | _ => (tabs, "bad-input")
  | _ => (tabs, "bad-input")

partial def loop (h : IO.FS.Stream) (tabs : Tables) : IO Unit := do
  let line ← h.getLine
  if line.isEmpty then return ()
  let line := line.trimAscii.toString
  let (tabs', out) := handle tabs line
  IO.println out
  loop h tabs'

def main : IO Unit := do loop (← IO.getStdin) { cc := [], ca := [], aa := [] }
