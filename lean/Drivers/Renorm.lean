/- Line-protocol driver for the renormalisation model on softfloat bit patterns.
   <fmt:16|32|64> <eager|functional|vecsum> <fast:0|1> <b1,b2,...>   ->   <o1,o2,...>   (−0 printed as 0) -/
import FAVerif.Models.Renorm
import FAVerif.FP.Soft
open FAVerif.FP FAVerif.Renorm

def fmtOf : String → Option Fmt
  | "16" => some binary16 | "32" => some binary32 | "64" => some binary64 | _ => none

def arithSoft (f : Fmt) : Arith Nat :=
  { add := FAVerif.FP.add f, sub := FAVerif.FP.sub f, zero := 0, isZero := fun b => magBits f b == 0 }

def showBits (f : Fmt) (b : Nat) : String :=
  if isNaNBits f b then "nan" else if magBits f b == 0 then "0" else toString b

def evalLine (line : String) : String :=
  match line.trimAscii.toString.splitOn " " with
  | [fs, mode, fast, xs] =>
    match fmtOf fs, fast.toNat?, (xs.splitOn ",").mapM String.toNat? with
    | some f, some fast, some l =>
      let A := arithSoft f
      let out := match mode with
        | "eager" => some (renormEager A (fast != 0) l)
        | "functional" => some (renormFunctional A (fast != 0) l)
        | "vecsum" => some (vecsum A (fast != 0) l)
        | _ => none
      match out with
      | some o => ",".intercalate (o.map (showBits f))
      | none => "bad-op"
    | _, _, _ => "bad-op"
  | _ => "bad-op"

partial def loop (h : IO.FS.Stream) : IO Unit := do
  let line ← h.getLine
  if line.isEmpty then return ()
  IO.println (evalLine line)
  loop h

def main : IO Unit := do loop (← IO.getStdin)
