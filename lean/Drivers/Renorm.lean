/- Line-protocol driver for the renormalisation model on softfloat bit patterns.
   <fmt:16|32|64> <eager|functional|vecsum> <fast:0|1> <b1,b2,...>   ->   <o1,o2,...>   (−0 printed as 0)
   <fmt> <square-eager|square-functional> <size> <b1,...>                 products of expansions: the model's raw accumulation,
   <fmt> <multiply-eager|multiply-functional> <size> <b1,...|c1,...>      renormalised and cut to `size` items; two_prod = the
                                                                           REGENERATED traced program (Generated/C12.lean) -/
import FAVerif.Models.Renorm
import FAVerif.FP.Soft
import FAVerif.Generated.C12
open FAVerif.FP FAVerif.Renorm FAVerif.IR

def fmtOf : String → Option Fmt
  | "16" => some binary16 | "32" => some binary32 | "64" => some binary64 | _ => none

def arithSoft (f : Fmt) : Arith Nat :=
  { add := FAVerif.FP.add f, sub := FAVerif.FP.sub f, zero := 0, isZero := fun b => magBits f b == 0 }

/-- the error-free product on bit patterns: the traced `apmath.two_prod` of the current source -/
def tpSoft (f : Fmt) (a b : Nat) : Nat × Nat :=
  let p := if f.p = 11 then FAVerif.Gen.C12.two_prod_f16 else if f.p = 24 then FAVerif.Gen.C12.two_prod_f32 else FAVerif.Gen.C12.two_prod_f64
  match p.eval (fun _ _ => none) [a, b] with
  | some [h, l] => (h, l)
  | _ => (f.nanBits, f.nanBits)

def showBits (f : Fmt) (b : Nat) : String :=
  if isNaNBits f b then "nan" else if magBits f b == 0 then "0" else toString b

def evalLine (line : String) : String :=
  match line.trimAscii.toString.splitOn " " with
  | [fs, mode, fast, xs] =>
    match fmtOf fs, fast.toNat?, (xs.splitOn ",").mapM String.toNat? with
    | some f, some fast, some l =>
      let A := arithSoft f
      let out := match mode with
        | "eager" => some (renormEager A (fast != 0) l)
        | "functional" => some (renormFunctional A (fast != 0) l)
        | "vecsum" => some (vecsum A (fast != 0) l)
        | _ => none
      match out with
      | some o => ",".intercalate (o.map (showBits f))
      | none =>
        -- products: `fast` field carries the size limit
        match mode with
        | "square-eager" => ",".intercalate (((renormEager A false (squareRaw A (tpSoft f) false l)).take fast).map (showBits f))
        | "square-functional" => ",".intercalate (((renormFunctional A false (squareRaw A (tpSoft f) false l)).take fast).map (showBits f))
        | _ => "bad-op"
    | some f, some size, none =>
      match xs.splitOn "|" with
      | [x1, x2] =>
        match (x1.splitOn ",").mapM String.toNat?, (x2.splitOn ",").mapM String.toNat? with
        | some l1, some l2 =>
          let A := arithSoft f
          match mode with
          | "multiply-eager" => ",".intercalate (((renormEager A false (mulRaw A (tpSoft f) false l1 l2)).take size).map (showBits f))
          | "multiply-functional" => ",".intercalate (((renormFunctional A false (mulRaw A (tpSoft f) false l1 l2)).take size).map (showBits f))
          | _ => "bad-op"
        | _, _ => "bad-op"
      | _ => "bad-op"
    | _, _, _ => "bad-op"
  | _ => "bad-op"

partial def loop (h : IO.FS.Stream) : IO Unit := do
  let line ← h.getLine
  if line.isEmpty then return ()
  IO.println (evalLine line)
  loop h

def main : IO Unit := do loop (← IO.getStdin)
