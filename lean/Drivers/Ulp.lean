/- Line-protocol driver for the ULP model (C14).  Numbers are decimal bit patterns.
   F in {16,32,64};  FL in {U,0,1} (flush_subnormals UNSPECIFIED / False / True);  EN in {0,1}.
     d F FL EN x y            -> diff_ulp(x, y)
     c F FL EN xr xi yr yi    -> diff_ulp(complex x, complex y)
     u F x                    -> pattern of ulp(x)   ("nan" for any NaN)
     n F x | p F x | g F x    -> nextUp / nextDown / negation pattern
     o F x | f F x            -> ord / flushed ordinal
     r F x                    -> decoded value "n/d" | "inf" | "-inf" | "nan"
     k KX KY                  -> dispatch outcome for argument kinds (f16 f32 f64 c64 c128 py)
   anything else              -> bad-op -/
import FAVerif.Models.Ulp
open FAVerif.FP FAVerif.Ulp

def parseFmt : String → Option Fmt
  | "16" => some binary16 | "32" => some binary32 | "64" => some binary64 | _ => none

def parseFlush : String → Option (Option Bool)
  | "U" => some none | "0" => some (some false) | "1" => some (some true) | _ => none

def parseBool : String → Option Bool
  | "0" => some false | "1" => some true | _ => none

def pat (f : Fmt) (s : String) : Option Nat :=
  match s.toNat? with
  | some b => if b < 2 ^ f.width then some b else none
  | none => none

def showPat (f : Fmt) (b : Nat) : String := if isNaNBits f b then "nan" else toString b

def showVal (f : Fmt) (b : Nat) : String :=
  match decode f b with
  | .nan => "nan"
  | .inf s => if s then "-inf" else "inf"
  | v => match v.toRat? with
    | some q => s!"{q.num}/{q.den}"
    | none => "nan"

/-- which branch of `diff_ulp` the argument kinds reach (same-dtype floats / complexes are `ok`) -/
def dispatch (kx ky : String) : String :=
  let isF (k : String) := k = "f16" || k = "f32" || k = "f64"
  let isC (k : String) := k = "c64" || k = "c128"
  if isF kx then
    (if isF ky then (if kx = ky then "ok" else "ValueError")
     else if ky = "py" then "AttributeError" else "bad-op")
  else if isC kx then
    (if isC ky then (if kx = ky then "ok" else "ValueError") else "bad-op")
  else if kx = "py" then (if isF ky || isC ky || ky = "py" then "NotImplementedError" else "bad-op")
  else "bad-op"

def answer (line : String) : String :=
  match line.trimAscii.toString.splitOn " " with
  | ["d", f, fl, en, x, y] =>
    match parseFmt f, parseFlush fl, parseBool en with
    | some f, some fl, some en =>
      match pat f x, pat f y with
      | some x, some y => toString (diffUlp f fl en x y)
      | _, _ => "bad-op"
    | _, _, _ => "bad-op"
  | ["c", f, fl, en, xr, xi, yr, yi] =>
    match parseFmt f, parseFlush fl, parseBool en with
    | some f, some fl, some en =>
      match pat f xr, pat f xi, pat f yr, pat f yi with
      | some xr, some xi, some yr, some yi => toString (complexDiffUlp f fl en (xr, xi) (yr, yi))
      | _, _, _, _ => "bad-op"
    | _, _, _ => "bad-op"
  | ["k", kx, ky] => dispatch kx ky
  | [op, f, x] =>
    match parseFmt f with
    | some f =>
      match pat f x with
      | some x =>
        match op with
        | "u" => showPat f (ulp f x)
        | "n" => showPat f (nextUp f x)
        | "p" => showPat f (nextDown f x)
        | "g" => showPat f (negBits f x)
        | "o" => toString (ord f x)
        | "f" => toString (flushOrd f x)
        | "r" => showVal f x
        | _ => "bad-op"
      | none => "bad-op"
    | none => "bad-op"
  | _ => "bad-op"

partial def loop (h : IO.FS.Stream) : IO Unit := do
  let line ← h.getLine
  if line.isEmpty then return ()
  IO.println (answer line)
  loop h

def main : IO Unit := do loop (← IO.getStdin)
