/- Line-protocol driver for the conversion model (C13).  Numbers are decimal; F ∈ {16,32,64};
   mpf tuples travel as `S MAN EXP BC`; option arguments use `N` for None.
   f2q F B | q2f F N D | f2b F B | b2f F STR | bval STR | f2m F PREC B | m2f F S MAN EXP BC
   m2e F PREC S MAN EXP BC LEN FUNC FUEL | e2m F PREC B.. | w2m F PREC B.. | m2w F PREC S MAN EXP BC P MAXLEN
   all F PREC B   (every float-side conversion of one pattern, `|`-separated)            -/
import FAVerif.Models.Conv
open FAVerif.FP FAVerif.Conv

def parseFmt : String → Option Fmt
  | "16" => some binary16 | "32" => some binary32 | "64" => some binary64 | _ => none

def showErr : Err → String
  | .valueError => "ValueError" | .assertionError => "AssertionError" | .overflowError => "OverflowError"
  | .indexError => "IndexError" | .nonTermination => "NonTermination"

def showRat (q : Rat) : String := s!"{q.num}/{q.den}"
def showMpf (t : MpfT) : String := s!"{t.sign} {t.man} {t.exp} {t.bc}"
def showList (l : List Nat) : String := " ".intercalate (l.map toString)

def showEM : Except Err MpfT → String
  | .ok t => "ok " ++ showMpf t | .error e => "err " ++ showErr e
def showEL : Except Err (List Nat) → String
  | .ok l => ("ok " ++ showList l).trimAsciiEnd.toString | .error e => "err " ++ showErr e
def showEN : Except Err Nat → String
  | .ok b => s!"ok {b}" | .error e => "err " ++ showErr e

def parseOptNat : String → Option (Option Nat)
  | "N" => some none
  | s => s.toNat?.map some

def parseMpf (s m e b : String) : Option MpfT := do
  let s ← s.toNat?; let m ← m.toNat?; let e ← e.toInt?; let b ← b.toInt?
  pure ⟨s, m, e, b⟩

def allOf (f : Fmt) (prec : Nat) (b : Nat) : String :=
  let q := float2fraction f b
  let s := float2bin f b
  let m := float2mpf f prec b
  let back := match m with
    | .ok t => toString (mpf2floatC f t)
    | .error e => "err " ++ showErr e
  let bv := match valueOfBin s with
    | some v => showRat v | none => "none"
  s!"{showRat q}|{fraction2float f q}|{String.ofList s}|{showEN (bin2float f s)}|{bv}|{showEM m}|{back}"

def handle (line : String) : String :=
  match line.trimAscii.toString.splitOn " " with
  | ["all", f, prec, b] =>
    match parseFmt f, prec.toNat?, b.toNat? with
    | some f, some prec, some b => allOf f prec b
    | _, _, _ => "bad-op"
  | ["f2q", f, b] =>
    match parseFmt f, b.toNat? with
    | some f, some b => showRat (float2fraction f b)
    | _, _ => "bad-op"
  | ["q2f", f, n, d] =>
    match parseFmt f, n.toInt?, d.toNat? with
    | some f, some n, some d => toString (fraction2float f (mkRat n d))
    | _, _, _ => "bad-op"
  | ["f2b", f, b] =>
    match parseFmt f, b.toNat? with
    | some f, some b => String.ofList (float2bin f b)
    | _, _ => "bad-op"
  | ["b2f", f] =>
    match parseFmt f with
    | some f => showEN (bin2float f [])
    | _ => "bad-op"
  | ["b2f", f, s] =>
    match parseFmt f with
    | some f => showEN (bin2float f s.toList)
    | _ => "bad-op"
  | ["bval", s] =>
    match valueOfBin s.toList with
    | some v => showRat v | none => "none"
  | ["f2m", f, prec, b] =>
    match parseFmt f, prec.toNat?, b.toNat? with
    | some f, some prec, some b => showEM (float2mpf f prec b)
    | _, _, _ => "bad-op"
  | ["m2f", f, s, m, e, bc] =>
    match parseFmt f, parseMpf s m e bc with
    | some f, some t => toString (mpf2floatC f t)
    | _, _ => "bad-op"
  | ["m2e", f, prec, s, m, e, bc, len, func, fuel] =>
    match parseFmt f, prec.toNat?, parseMpf s m e bc, parseOptNat len, func.toNat?, fuel.toNat? with
    | some f, some prec, some t, some len, some func, some fuel =>
      showEL (mpf2expansion f prec t len (func != 0) fuel)
    | _, _, _, _, _, _ => "bad-op"
  | ["m2w", f, prec, s, m, e, bc, p, ml] =>
    match parseFmt f, prec.toNat?, parseMpf s m e bc, parseOptNat p, parseOptNat ml with
    | some f, some prec, some t, some p, some ml => showEL (mpf2multiword f prec t p ml)
    | _, _, _, _, _ => "bad-op"
  | "e2m" :: f :: prec :: ws =>
    match parseFmt f, prec.toNat?, ws.mapM String.toNat? with
    | some f, some prec, some ws => showEM (expansion2mpf f prec ws)
    | _, _, _ => "bad-op"
  | "w2m" :: f :: prec :: ws =>
    match parseFmt f, prec.toNat?, ws.mapM String.toNat? with
    | some f, some prec, some ws => showEM (multiword2mpf f prec ws)
    | _, _, _ => "bad-op"
  | _ => "bad-op"

partial def loop (h : IO.FS.Stream) : IO Unit := do
  let line ← h.getLine
  if line.isEmpty then return ()
  IO.println (handle line)
  loop h

def main : IO Unit := do loop (← IO.getStdin)
