/- Line-protocol driver for IR programs.
   prog <p> <ew> <nIn> <o1,o2,..> <op|a1,a2|imm> ...     -> ok <nNodes> <wf>
   eval <i1,i2,..> [<name>:<a1,a2>:<res> ...]           -> <o1> <o2> ... | stuck
   Float outputs that are NaN patterns are printed as `nan`. -/
import FAVerif.IR.Prog
open FAVerif.FP FAVerif.IR

def parseNats (s : String) : Option (List Nat) :=
  if s.isEmpty then some [] else (s.splitOn ",").mapM String.toNat?

def parseOp (s : String) : Option Op :=
  match s with
  | "input" => some .input | "const" => some .const | "bconst" => some .bconst
  | "add" => some .add | "sub" => some .sub | "mul" => some .mul | "div" => some .div
  | "neg" => some .neg | "abs" => some .abs | "sqrt" => some .sqrt | "fma" => some .fma
  | "pymax" => some .pymax | "pymin" => some .pymin | "npmax" => some .npmax | "npmin" => some .npmin
  | "lt" => some .lt | "le" => some .le | "gt" => some .gt | "ge" => some .ge | "eq" => some .eq | "ne" => some .ne
  | "and" => some .and | "or" => some .or | "xor" => some .xor | "not" => some .not
  | "select" => some .select | "isfinite" => some .isfinite
  | _ => if s.startsWith "libm:" then some (.libm (s.drop 5).toString) else none

def parseNode (tok : String) : Option Node :=
  match tok.splitOn "|" with
  | [o, a, i] => do some { op := ← parseOp o, args := ← parseNats a, imm := ← i.toNat? }
  | _ => none

def parseOracle (tok : String) : Option (String × List Nat × Nat) :=
  match tok.splitOn ":" with
  | [n, a, r] => do some (n, ← parseNats a, ← r.toNat?)
  | _ => none

def showVal (f : Fmt) (v : Nat) : String := if isNaNBits f v then "nan" else toString v

def handle (cur : Option Prog) (line : String) : Option Prog × String :=
  match (line.trimAscii.toString.splitOn " ").filter (· ≠ "") with
  | "prog" :: p :: ew :: nIn :: outs :: toks =>
    match p.toNat?, ew.toNat?, nIn.toNat?, parseNats outs, toks.mapM parseNode with
    | some p, some ew, some nIn, some outs, some nodes =>
      let pr : Prog := { fmt := ⟨p, ew⟩, nIn, nodes, outs }
      (some pr, s!"ok {nodes.length} {pr.wf}")
    | _, _, _, _, _ => (cur, "bad-prog")
  | "eval" :: ins :: orc =>
    match cur, parseNats ins, orc.mapM parseOracle with
    | some pr, some ins, some tbl =>
      -- NaN operands/results are canonicalised on both sides (one NaN in the model)
      let cn (b : Nat) : Nat := if isNaNBits pr.fmt b then pr.fmt.nanBits else b
      let lib : Libm := fun n a => (tbl.find? fun e => e.1 == n && e.2.1.map cn == a.map cn).map (fun e => cn e.2.2)
      match pr.eval lib ins with
      | some outs => (cur, " ".intercalate (outs.map (showVal pr.fmt)))
      | none => (cur, "stuck")
    | _, _, _ => (cur, "bad-eval")
  | _ => (cur, "bad-op")

partial def loop (h : IO.FS.Stream) (cur : Option Prog) : IO Unit := do
  let line ← h.getLine
  if line.isEmpty then return ()
  let (cur', out) := handle cur line
  IO.println out
  loop h cur'

def main : IO Unit := do loop (← IO.getStdin) none
