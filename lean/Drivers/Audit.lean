/-
Axiom audit: for every module named on the command line, list each theorem declared in
that module together with the axioms it depends on.  Output, one line per theorem:
  THEOREM <module> <name> : <axiom> <axiom> ...
Run with `lake env lean --run Drivers/Audit.lean FAVerif.Props.C18 ...`.
-/
import Lean
open Lean

abbrev M := StateT Environment IO
instance : MonadEnv M := ⟨get, modify⟩

unsafe def main (args : List String) : IO UInt32 := do
  initSearchPath (← findSysroot)
  unsafe enableInitializersExecution
  let mods := args.map String.toName
  let env ← importModules (mods.toArray.map fun m => { module := m }) {} (loadExts := true)
  for m in mods do
    let some idx := env.getModuleIdx? m
      | IO.eprintln s!"unknown module {m}"; return 2
    let names := env.header.moduleData[idx.toNat]!.constNames
    for n in names do
      if n.isInternal then continue
      match env.find? n with
      | some (.thmInfo _) =>
        let (axs, _) ← (collectAxioms n : M _).run env
        let axs := axs.toList.map toString
        IO.println s!"THEOREM {m} {n} : {" ".intercalate axs}"
      | _ => pure ()
  return 0
