/- Line-protocol driver for the MXCSR model (C18).  Numbers are decimal.
   init R | create FZ DAZ RN | enter I | exit I E | body FLAGS      ->   <out> <reg> -/
import FAVerif.Models.Mxcsr
open FAVerif.Mxcsr

def parseTri : String → Option (Option Bool)
  | "N" => some none | "T" => some (some true) | "F" => some (some false) | _ => none

def parseRN : String → Option (Option RN)
  | "N" => some none | "nearest" => some (some .nearest) | "down" => some (some .down)
  | "up" => some (some .up) | "towardszero" => some (some .towardszero) | _ => none

def showOut : Out → String
  | .ok => "ok" | .assertionError => "AssertionError" | .noSuchContext => "bad-op"

def stepLine (s : State) (line : String) : State × String :=
  let fin (r : State × Out) : State × String := (r.1, s!"{showOut r.2} {r.1.reg.toNat}")
  match line.trimAscii.toString.splitOn " " with
  | ["init", r] => match r.toNat? with
      | some k => ({ reg := BitVec.ofNat 32 k, ctxs := [] }, s!"ok {k % 2^32}")
      | none => (s, "bad-op")
  | ["create", fz, daz, rn] =>
      match parseTri fz, parseTri daz, parseRN rn with
      | some fz, some daz, some rn => fin (step s (.create { fz, daz, rn }))
      | _, _, _ => (s, "bad-op")
  | ["enter", i] => match i.toNat? with
      | some i => fin (step s (.enter i))
      | none => (s, "bad-op")
  | ["exit", i, e] => match i.toNat?, e.toNat? with
      | some i, some e => fin (step s (.exit i (e != 0)))
      | _, _ => (s, "bad-op")
  | ["body", f] => match f.toNat? with
      | some f => fin (step s (.body (BitVec.ofNat 32 f)))
      | none => (s, "bad-op")
  | _ => (s, "bad-op")

partial def loop (h : IO.FS.Stream) (s : State) : IO Unit := do
  let line ← h.getLine
  if line.isEmpty then return ()
  let (s', out) := stepLine s line
  IO.println out
  loop h s'

def main : IO Unit := do loop (← IO.getStdin) { reg := 0x1f80#32, ctxs := [] }
