/-
Executable, bit-exact IEEE-754 arithmetic (round-to-nearest-even, default exception masks,
gradual underflow, one NaN) on bit patterns.  Mathlib-free.

All operations take and return patterns (`Nat`).  The arithmetic core is `roundFin`: round
the exact dyadic value `(-1)^s * (m + σ) * 2^e` (σ ∈ [0,1) represented by a sticky flag)
to the nearest representable value, ties to even, overflowing to infinity.

Validated against the machine's arithmetic (NumPy float16/32/64) on every run by
`fav/softcheck.py` (directed operand pairs: ties, binade edges, subnormal results,
overflow edge, signed zeros, inf/NaN).
-/
import FAVerif.FP.Basic

namespace FAVerif.FP

def bitLen (m : Nat) : Nat := if m = 0 then 0 else Nat.log2 m + 1

def Fmt.nanBits (f : Fmt) : Nat := f.infBits + 2 ^ (f.fracBits - 1)
def Fmt.zeroBits (f : Fmt) (s : Bool) : Nat := if s then f.signBit else 0
def Fmt.infBitsS (f : Fmt) (s : Bool) : Nat := (if s then f.signBit else 0) + f.infBits

/-- Encode `(-1)^s * q * 2^e` where `q < 2^p` and either `q ≥ 2^(p-1)` or `e = emin`;
    overflow (exponent too large) gives infinity. -/
def packFin (f : Fmt) (s : Bool) (q : Nat) (e : Int) : Nat :=
  let sgn := if s then f.signBit else 0
  if q < 2 ^ f.fracBits then sgn + q
  else
    let ef : Int := e - f.emin + 1
    if ef ≥ (f.expMax : Int) then sgn + f.infBits
    else sgn + ef.toNat * 2 ^ f.fracBits + (q - 2 ^ f.fracBits)

/-- The rounding core: nearest-even significand `q` on the grid `2^et` for the positive value
`(m + σ) * 2^e` (σ ∈ (0,1) iff `sticky`; precondition when `sticky`: `m` has ≥ p + 2 bits).
`et = max (e + bitLen m - p) emin`; the result satisfies `q ≤ 2^p`. -/
def roundCore (f : Fmt) (m : Nat) (e : Int) (sticky : Bool) : Nat × Int :=
  let l := bitLen m
  let et : Int := max (e + (l : Int) - (f.p : Int)) f.emin
  let sh : Int := et - e
  if sh ≤ 0 then (m * 2 ^ (-sh).toNat, et)
  else
    let k := sh.toNat
    let q := m / 2 ^ k
    let rem := m % 2 ^ k
    let half := 2 ^ (k - 1)
    let up : Bool := if rem > half then true else if rem = half then (sticky || q % 2 = 1) else false
    (if up then q + 1 else q, et)

/-- Round `(-1)^s * (m + σ) * 2^e`, `σ ∈ (0,1)` iff `sticky`, to nearest even.
    Precondition when `sticky`: `m` has at least `p + 2` bits (callers ensure it). -/
def roundFin (f : Fmt) (s : Bool) (m : Nat) (e : Int) (sticky : Bool) : Nat :=
  if m = 0 then f.zeroBits s
  else
    let r := roundCore f m e sticky
    if r.1 = 2 ^ f.p then packFin f s (2 ^ f.fracBits) (r.2 + 1) else packFin f s r.1 r.2

/-- Signed exact integer `(-1)^s m` -/
def sInt (s : Bool) (m : Nat) : Int := if s then -(m : Int) else (m : Int)

def add (f : Fmt) (a b : Nat) : Nat :=
  match decode f a, decode f b with
  | .nan, _ => f.nanBits
  | _, .nan => f.nanBits
  | .inf s, .inf t => if s = t then f.infBitsS s else f.nanBits
  | .inf s, _ => f.infBitsS s
  | _, .inf t => f.infBitsS t
  | .fin s m e, .fin t n e' =>
    let e0 := min e e'
    let M : Int := sInt s (m * 2 ^ (e - e0).toNat) + sInt t (n * 2 ^ (e' - e0).toNat)
    if M = 0 then f.zeroBits (s && t)
    else roundFin f (decide (M < 0)) M.natAbs e0 false

def neg (f : Fmt) (a : Nat) : Nat :=
  if a / f.signBit % 2 = 1 then a - f.signBit else a + f.signBit

def abs (f : Fmt) (a : Nat) : Nat := a % f.signBit

def sub (f : Fmt) (a b : Nat) : Nat :=
  if isNaNBits f b then f.nanBits else add f a (neg f b)

def mul (f : Fmt) (a b : Nat) : Nat :=
  match decode f a, decode f b with
  | .nan, _ => f.nanBits
  | _, .nan => f.nanBits
  | .inf s, .inf t => f.infBitsS (s != t)
  | .inf s, .fin t n _ => if n = 0 then f.nanBits else f.infBitsS (s != t)
  | .fin s m _, .inf t => if m = 0 then f.nanBits else f.infBitsS (s != t)
  | .fin s m e, .fin t n e' => roundFin f (s != t) (m * n) (e + e') false

def div (f : Fmt) (a b : Nat) : Nat :=
  match decode f a, decode f b with
  | .nan, _ => f.nanBits
  | _, .nan => f.nanBits
  | .inf _, .inf _ => f.nanBits
  | .inf s, .fin t _ _ => f.infBitsS (s != t)
  | .fin s _ _, .inf t => f.zeroBits (s != t)
  | .fin s m e, .fin t n e' =>
    if n = 0 then (if m = 0 then f.nanBits else f.infBitsS (s != t))
    else if m = 0 then f.zeroBits (s != t)
    else
      let k := f.p + 2 + bitLen n - bitLen m
      let num := m * 2 ^ k
      roundFin f (s != t) (num / n) (e - e' - (k : Int)) (num % n != 0)

def sqrt (f : Fmt) (a : Nat) : Nat :=
  match decode f a with
  | .nan => f.nanBits
  | .inf s => if s then f.nanBits else a
  | .fin s m e =>
    if m = 0 then a
    else if s then f.nanBits
    else
      -- scale so that the radicand has at least 2p+4 bits and an even exponent
      let k0 := 2 * f.p + 4 - bitLen m
      let k := if (e - (k0 : Int)) % 2 = 0 then k0 else k0 + 1
      let M := m * 2 ^ k
      let r := Nat.sqrt M
      roundFin f false r ((e - (k : Int)) / 2) (r * r != M)

/-- fused multiply-add `a*b + c` with a single rounding -/
def fma (f : Fmt) (a b c : Nat) : Nat :=
  match decode f a, decode f b, decode f c with
  | .nan, _, _ => f.nanBits
  | _, .nan, _ => f.nanBits
  | _, _, .nan => f.nanBits
  | .inf s, .inf t, z => match z with
      | .inf u => if (s != t) = u then f.infBitsS u else f.nanBits
      | _ => f.infBitsS (s != t)
  | .inf s, .fin t n _, z =>
      if n = 0 then f.nanBits else match z with
      | .inf u => if (s != t) = u then f.infBitsS u else f.nanBits
      | _ => f.infBitsS (s != t)
  | .fin s m _, .inf t, z =>
      if m = 0 then f.nanBits else match z with
      | .inf u => if (s != t) = u then f.infBitsS u else f.nanBits
      | _ => f.infBitsS (s != t)
  | .fin _ _ _, .fin _ _ _, .inf u => f.infBitsS u
  | .fin s m e, .fin t n e', .fin u k e'' =>
    let ps := s != t
    let pm := m * n
    let pe := e + e'
    let e0 := min pe e''
    let M : Int := sInt ps (pm * 2 ^ (pe - e0).toNat) + sInt u (k * 2 ^ (e'' - e0).toNat)
    if M = 0 then
      (if pm = 0 ∧ k = 0 then f.zeroBits (ps && u)
       else if pm = 0 then c
       else if k = 0 then f.zeroBits ps  -- exact product zero cannot happen with pm ≠ 0; kept total
       else f.zeroBits false)
    else roundFin f (decide (M < 0)) M.natAbs e0 false

/-! Comparisons (IEEE: NaN unordered, zeros equal). -/

def cmpKey (f : Fmt) (a : Nat) : Int := ord f a

def lt (f : Fmt) (a b : Nat) : Bool :=
  !isNaNBits f a && !isNaNBits f b && decide (ord f a < ord f b)
def le (f : Fmt) (a b : Nat) : Bool :=
  !isNaNBits f a && !isNaNBits f b && decide (ord f a ≤ ord f b)
def eq (f : Fmt) (a b : Nat) : Bool :=
  !isNaNBits f a && !isNaNBits f b && decide (ord f a = ord f b)
def ne (f : Fmt) (a b : Nat) : Bool := !eq f a b
def gt (f : Fmt) (a b : Nat) : Bool := lt f b a
def ge (f : Fmt) (a b : Nat) : Bool := le f b a

/-- `numpy.maximum` / `numpy.minimum`: NaN-propagating. -/
def max (f : Fmt) (a b : Nat) : Nat :=
  if isNaNBits f a || isNaNBits f b then f.nanBits else if lt f a b then b else if lt f b a then a
  else if a = b then a else (if a / f.signBit % 2 = 1 then b else a)   -- max(-0,+0) = +0
def min (f : Fmt) (a b : Nat) : Nat :=
  if isNaNBits f a || isNaNBits f b then f.nanBits else if lt f a b then a else if lt f b a then b
  else if a = b then a else (if a / f.signBit % 2 = 1 then a else b)   -- min(-0,+0) = -0

/-- Round an exact dyadic to the format (used for conversions between formats). -/
def convert (f g : Fmt) (a : Nat) : Nat :=
  match decode f a with
  | .nan => g.nanBits
  | .inf s => g.infBitsS s
  | .fin s m e => roundFin g s m e false

/-- value of a small integer constant -/
def ofInt (f : Fmt) (i : Int) : Nat := roundFin f (decide (i < 0)) i.natAbs 0 false

def nextUp (f : Fmt) (a : Nat) : Nat :=
  if isNaNBits f a then a
  else if a = f.infBits then a
  else if a = f.signBit then 1          -- -0 → smallest positive
  else if a / f.signBit % 2 = 1 then a - 1
  else a + 1

def nextDown (f : Fmt) (a : Nat) : Nat := neg f (nextUp f (neg f a))

end FAVerif.FP
