/-
IEEE-754 binary interchange formats on bit patterns (Mathlib-free, executable).

A format is (p, ew): precision including the hidden bit, exponent field width.
A bit pattern is a `Nat` below `2^(ew+p)`:  [sign:1][exponent:ew][fraction:p-1].
`decode` maps a pattern to `V`; a finite value is `(-1)^s * m * 2^e` with `m : Nat`, `e : Int`.
-/
namespace FAVerif.FP

structure Fmt where
  p : Nat
  ew : Nat
  deriving DecidableEq, Repr

def binary16 : Fmt := ⟨11, 5⟩
def binary32 : Fmt := ⟨24, 8⟩
def binary64 : Fmt := ⟨53, 11⟩

namespace Fmt
/-- number of bits of a pattern -/
def width (f : Fmt) : Nat := f.ew + f.p
def fracBits (f : Fmt) : Nat := f.p - 1
def bias (f : Fmt) : Int := 2 ^ (f.ew - 1) - 1
/-- exponent of the unit in the last place of subnormals (and of the first normal binade):
    every finite value is an integer multiple of `2^emin`. -/
def emin (f : Fmt) : Int := 1 - f.bias - (f.p - 1 : Nat)
/-- all-ones exponent field -/
def expMax (f : Fmt) : Nat := 2 ^ f.ew - 1
/-- largest exponent `e` such that `m * 2^e` with `2^(p-1) ≤ m < 2^p` is finite -/
def emaxUlp (f : Fmt) : Int := (f.expMax - 2 : Nat) + f.emin
def signBit (f : Fmt) : Nat := 2 ^ (f.width - 1)
/-- pattern of +inf -/
def infBits (f : Fmt) : Nat := f.expMax * 2 ^ f.fracBits
/-- pattern of the largest finite value -/
def maxBits (f : Fmt) : Nat := f.infBits - 1
/-- pattern of the smallest positive normal value -/
def minNormalBits (f : Fmt) : Nat := 2 ^ f.fracBits
end Fmt

structure Fields where
  sign : Bool
  e : Nat
  m : Nat
  deriving DecidableEq, Repr

def fields (f : Fmt) (b : Nat) : Fields :=
  { sign := (b / f.signBit) % 2 = 1, e := (b / 2 ^ f.fracBits) % 2 ^ f.ew, m := b % 2 ^ f.fracBits }

def unfields (f : Fmt) (x : Fields) : Nat :=
  (if x.sign then f.signBit else 0) + x.e * 2 ^ f.fracBits + x.m

inductive V where
  | nan
  | inf (s : Bool)
  | fin (s : Bool) (m : Nat) (e : Int)
  deriving DecidableEq, Repr

def decode (f : Fmt) (b : Nat) : V :=
  let x := fields f b
  if x.e = f.expMax then (if x.m = 0 then .inf x.sign else .nan)
  else if x.e = 0 then .fin x.sign x.m f.emin
  else .fin x.sign (x.m + 2 ^ f.fracBits) ((x.e : Int) - 1 + f.emin)

def pow2 (e : Int) : Rat := if e ≥ 0 then ((2 ^ e.toNat : Nat) : Rat) else 1 / ((2 ^ (-e).toNat : Nat) : Rat)

def V.toRat? : V → Option Rat
  | .fin s m e => some ((if s then -1 else 1) * (m : Rat) * pow2 e)
  | _ => none

def V.isNaN : V → Bool
  | .nan => true | _ => false
def V.isInf : V → Bool
  | .inf _ => true | _ => false
def V.isFinite : V → Bool
  | .fin .. => true | _ => false
def V.isZero : V → Bool
  | .fin _ m _ => m == 0 | _ => false
def V.sign : V → Bool
  | .nan => false | .inf s => s | .fin s _ _ => s

def isNaNBits (f : Fmt) (b : Nat) : Bool := (decode f b).isNaN
def isFiniteBits (f : Fmt) (b : Nat) : Bool := (fields f b).e != f.expMax

/-- Magnitude part of a pattern (sign bit cleared). -/
def magBits (f : Fmt) (b : Nat) : Nat := b % f.signBit

/-- Sign-magnitude ordinal: strictly monotone in the numeric value on non-NaN patterns,
    with `+0` and `-0` both mapped to `0`. -/
def ord (f : Fmt) (b : Nat) : Int :=
  if (fields f b).sign then -(magBits f b : Int) else (magBits f b : Int)

/-- Pattern with ordinal `k` (the negative-zero pattern is never produced). -/
def ofOrd (f : Fmt) (k : Int) : Nat :=
  if k < 0 then f.signBit + (-k).toNat else k.toNat

/-- Canonical encoding of a finite value `(-1)^s * m * 2^e` that is exactly representable
    with `m < 2^p`, `e ≥ emin` after normalisation; `none` if not representable. -/
def encodeFin (f : Fmt) (s : Bool) (m : Nat) (e : Int) : Option Nat :=
  if m = 0 then some (if s then f.signBit else 0)
  else
    -- normalise so that either e = emin (subnormal or first binade) or m has exactly p bits
    let l := Nat.log2 m + 1                    -- bit length of m
    let sh : Int := (f.p : Int) - l            -- shift to get exactly p bits (may be negative)
    let e' : Int := e - sh
    let (m', e'') : Nat × Int :=
      if e' < f.emin then
        -- cannot use p bits: align to emin
        let d := f.emin - e                    -- need m * 2^e = m'' * 2^emin ⇒ m'' = m / 2^d  (d>0) or m * 2^(-d)
        if d ≥ 0 then (if m % 2 ^ d.toNat = 0 then m / 2 ^ d.toNat else 0, f.emin)
        else (m * 2 ^ (-d).toNat, f.emin)
      else if sh ≥ 0 then (m * 2 ^ sh.toNat, e')
      else (if m % 2 ^ (-sh).toNat = 0 then m / 2 ^ (-sh).toNat else 0, e')
    if m' = 0 then none
    else if m' ≥ 2 ^ f.p then none
    else
      let sgn := if s then f.signBit else 0
      if m' < 2 ^ f.fracBits then
        if e'' = f.emin then some (sgn + m') else none
      else
        let ef : Int := e'' - f.emin + 1
        if ef ≥ f.expMax then none else some (sgn + ef.toNat * 2 ^ f.fracBits + (m' - 2 ^ f.fracBits))

def encode (f : Fmt) : V → Option Nat
  | .nan => some (f.infBits + 2 ^ (f.fracBits - 1))
  | .inf s => some ((if s then f.signBit else 0) + f.infBits)
  | .fin s m e => encodeFin f s m e

end FAVerif.FP
