/-
Evaluation over the rationals with an abstract rounding `r` AND an abstract square-root oracle `S`
(the correctly rounded square root is specified by its squares, so no real numbers are needed:
see `FAVerif.FPQ.SqrtOK`).  Everything but `.sqrt` is `evalNodeQ`.
-/
import FAVerif.IR.EvalQ

namespace FAVerif.IR
open FAVerif.FP

def evalNodeQS (f : Fmt) (r : Rat → Rat) (S : Rat → Rat) (ins : List Rat) (env : List Rat) (n : Node) : Option Rat :=
  match n.op with
  | .sqrt => (n.args[0]? >>= fun k => env[k]?) >>= fun a => if a < 0 then none else some (S a)
  | _ => evalNodeQ f r ins env n

def evalNodesQS (f : Fmt) (r : Rat → Rat) (S : Rat → Rat) (ins : List Rat) : List Node → List Rat → Option (List Rat)
  | [], env => some env
  | n :: ns, env => do
    let v ← evalNodeQS f r S ins env n
    evalNodesQS f r S ins ns (env ++ [v])

def evalQS (f : Fmt) (r : Rat → Rat) (S : Rat → Rat) (nodes : List Node) (outs : List Nat) (ins : List Rat) : Option (List Rat) := do
  let env ← evalNodesQS f r S ins nodes []
  outs.mapM fun k => env[k]?

end FAVerif.IR
