/-
Evaluation of IR programs over the rationals with an abstract rounding function `r`
(overflow-free idealisation: exponent range unbounded above).  Floats are `Rat`; booleans
are 0/1.  Only the arithmetic/comparison/select fragment is interpreted; anything else
(sqrt, libm, non-finite constants) makes the evaluation `none`.
Used to state the error-free-transformation theorems about regenerated programs.
-/
import FAVerif.IR.Prog

namespace FAVerif.IR
open FAVerif.FP

def q2b (b : Bool) : Rat := if b then 1 else 0

def evalNodeQ (f : Fmt) (r : Rat → Rat) (ins : List Rat) (env : List Rat) (n : Node) : Option Rat :=
  let arg (i : Nat) : Option Rat := n.args[i]? >>= fun k => env[k]?
  match n.op with
  | .input => ins[n.imm]?
  | .const => (decode f n.imm).toRat?
  | .bconst => some (q2b (n.imm != 0))
  | .add => do some (r ((← arg 0) + (← arg 1)))
  | .sub => do some (r ((← arg 0) - (← arg 1)))
  | .mul => do some (r ((← arg 0) * (← arg 1)))
  | .div => do let b ← arg 1; if b = 0 then none else some (r ((← arg 0) / b))
  | .neg => do some (-(← arg 0))
  | .abs => do let a ← arg 0; some (if a < 0 then -a else a)
  | .pymax => do let a ← arg 0; let b ← arg 1; some (if a < b then b else a)
  | .pymin => do let a ← arg 0; let b ← arg 1; some (if b < a then b else a)
  | .lt => do some (q2b (decide ((← arg 0) < (← arg 1))))
  | .le => do some (q2b (decide ((← arg 0) ≤ (← arg 1))))
  | .gt => do some (q2b (decide ((← arg 1) < (← arg 0))))
  | .ge => do some (q2b (decide ((← arg 1) ≤ (← arg 0))))
  | .eq => do some (q2b (decide ((← arg 0) = (← arg 1))))
  | .ne => do some (q2b (decide ((← arg 0) ≠ (← arg 1))))
  | .and => do some (q2b (decide ((← arg 0) ≠ 0 ∧ (← arg 1) ≠ 0)))
  | .or => do some (q2b (decide ((← arg 0) ≠ 0 ∨ (← arg 1) ≠ 0)))
  | .not => do some (q2b (decide ((← arg 0) = 0)))
  | .select => do let c ← arg 0; let a ← arg 1; let b ← arg 2; some (if c ≠ 0 then a else b)
  | .isfinite => do let _ ← arg 0; some (q2b true)      -- every rational is finite (overflow-free idealisation)
  | _ => none

def evalNodesQ (f : Fmt) (r : Rat → Rat) (ins : List Rat) : List Node → List Rat → Option (List Rat)
  | [], env => some env
  | n :: ns, env => do
    let v ← evalNodeQ f r ins env n
    evalNodesQ f r ins ns (env ++ [v])

/-- Evaluate the node list `nodes` with outputs `outs` (format `f` only matters for constants). -/
def evalQ (f : Fmt) (r : Rat → Rat) (nodes : List Node) (outs : List Nat) (ins : List Rat) : Option (List Rat) := do
  let env ← evalNodesQ f r ins nodes []
  outs.mapM fun k => env[k]?

def Prog.evalQ (p : Prog) (r : Rat → Rat) (ins : List Rat) : Option (List Rat) :=
  IR.evalQ p.fmt r p.nodes p.outs ins

end FAVerif.IR
