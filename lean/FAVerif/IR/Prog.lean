/-
Deep embedding of traced expression graphs (regenerated from /repo by fav/translate).

A program is a DAG in topological order over one floating-point format plus booleans.
Values are `Nat`: floats are bit patterns of the program's format, booleans are 0/1.
Transcendental primitives are not modelled: they are answered by a `Libm` oracle
(kind name, operand patterns) ↦ result pattern.
-/
import FAVerif.FP.Soft

namespace FAVerif.IR
open FAVerif.FP

inductive Op where
  | input | const | bconst
  | add | sub | mul | div | neg | abs | sqrt | fma
  | pymax | pymin          -- Python builtin max/min on scalars: `b if b > a else a`
  | npmax | npmin          -- numpy.maximum / minimum (NaN propagating)
  | lt | le | gt | ge | eq | ne
  | and | or | xor | not
  | select                 -- args [c, a, b] : if c then a else b
  | isfinite
  | libm (name : String)   -- log, log1p, exp, sin, cos, atan2, ...
  deriving DecidableEq, Repr

structure Node where
  op : Op
  args : List Nat := []
  imm : Nat := 0          -- input index / constant pattern / boolean
  deriving DecidableEq, Repr

structure Prog where
  fmt : Fmt
  nIn : Nat
  nodes : List Node
  outs : List Nat
  deriving DecidableEq, Repr

abbrev Libm := String → List Nat → Option Nat

def b2n (b : Bool) : Nat := if b then 1 else 0

/-- Evaluate one node given the values of earlier nodes. `none` = stuck (ill-formed program or
    oracle miss). -/
def evalNode (f : Fmt) (lib : Libm) (ins : List Nat) (env : Array Nat) (n : Node) : Option Nat :=
  let arg (i : Nat) : Option Nat := n.args[i]? >>= fun k => env[k]?
  match n.op with
  | .input => ins[n.imm]?
  | .const => some n.imm
  | .bconst => some n.imm
  | .add => do some (FP.add f (← arg 0) (← arg 1))
  | .sub => do some (FP.sub f (← arg 0) (← arg 1))
  | .mul => do some (FP.mul f (← arg 0) (← arg 1))
  | .div => do some (FP.div f (← arg 0) (← arg 1))
  | .neg => do some (FP.neg f (← arg 0))
  | .abs => do some (FP.abs f (← arg 0))
  | .sqrt => do some (FP.sqrt f (← arg 0))
  | .fma => do some (FP.fma f (← arg 0) (← arg 1) (← arg 2))
  | .pymax => do let a ← arg 0; let b ← arg 1; some (if FP.lt f a b then b else a)
  | .pymin => do let a ← arg 0; let b ← arg 1; some (if FP.lt f b a then b else a)
  | .npmax => do some (FP.max f (← arg 0) (← arg 1))
  | .npmin => do some (FP.min f (← arg 0) (← arg 1))
  | .lt => do some (b2n (FP.lt f (← arg 0) (← arg 1)))
  | .le => do some (b2n (FP.le f (← arg 0) (← arg 1)))
  | .gt => do some (b2n (FP.gt f (← arg 0) (← arg 1)))
  | .ge => do some (b2n (FP.ge f (← arg 0) (← arg 1)))
  | .eq => do some (b2n (FP.eq f (← arg 0) (← arg 1)))
  | .ne => do some (b2n (FP.ne f (← arg 0) (← arg 1)))
  | .and => do some (b2n ((← arg 0) != 0 && (← arg 1) != 0))
  | .or => do some (b2n ((← arg 0) != 0 || (← arg 1) != 0))
  | .xor => do some (b2n (((← arg 0) != 0) != ((← arg 1) != 0)))
  | .not => do some (b2n ((← arg 0) == 0))
  | .select => do let c ← arg 0; let a ← arg 1; let b ← arg 2; some (if c != 0 then a else b)
  | .isfinite => do some (b2n (isFiniteBits f (← arg 0)))
  | .libm name => do lib name (← n.args.mapM fun k => env[k]?)

def evalNodes (f : Fmt) (lib : Libm) (ins : List Nat) : List Node → Array Nat → Option (Array Nat)
  | [], env => some env
  | n :: ns, env => do
    let v ← evalNode f lib ins env n
    evalNodes f lib ins ns (env.push v)

def Prog.eval (p : Prog) (lib : Libm) (ins : List Nat) : Option (List Nat) := do
  let env ← evalNodes p.fmt lib ins p.nodes #[]
  p.outs.mapM fun k => env[k]?

/-- Well-formedness: every argument refers to an earlier node, inputs are in range. -/
def Prog.wf (p : Prog) : Bool :=
  let rec go : List Node → Nat → Bool
    | [], _ => true
    | n :: ns, k => n.args.all (· < k) && (n.op != .input || n.imm < p.nIn) && go ns (k + 1)
  go p.nodes 0 && p.outs.all (· < p.nodes.length)

end FAVerif.IR
