/-
Specification programs for C11 (`next`), in the canonical form the translator emits.
next(x, up):  c = 1 - 2^-p;  up: select(x > 0, x / c, x * c);  down: select(x < 0, x / c, x * c)
-/
import FAVerif.IR.Prog

namespace FAVerif.Spec
open FAVerif.IR FAVerif.FP

/-- pattern of `1 - 2^-p` : exponent field bias-1, all fraction bits set = pattern of 1.0 minus one -/
def cNextBits (f : Fmt) : Nat := (f.bias.toNat) * 2 ^ f.fracBits - 1

def nextProg (f : Fmt) (up : Bool) : List Node := [
  ⟨.input, [], 0⟩, ⟨.const, [], 0⟩, ⟨if up then .gt else .lt, [0, 1], 0⟩,
  ⟨.const, [], cNextBits f⟩, ⟨.div, [0, 3], 0⟩, ⟨.mul, [3, 0], 0⟩, ⟨.select, [2, 4, 5], 0⟩ ]

end FAVerif.Spec
