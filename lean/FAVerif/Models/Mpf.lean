/-
Model for C15 — multiprecision reference values are rounded correctly to the target type.

Ports, as written, from /repo/functional_algorithms/utils.py:
  * `mpf2float`                          → `mpf2float`
  * `vectorize_with_mpmath.__init__`     → `initFlush`, `effectiveFlush` (flag handling)
  * `vectorize_with_mpmath.backend_context` (extra precision arithmetic) → `workPrec`
  * `vectorize_with_mpmath.__call__` / `nptomp` / `mptonp` / `float2mpf` on scalars → `call`
  * class tables `float_subexp`, `float_minexp`, `float_maxexp`, `float_max` → `subexp`, `minexp`, `maxexp`, `largest`
and, as TRUSTED SPECIFICATIONS of the libraries the code calls (validated by correspondence):
  * `mpmath.libmp.libmpf._normalize`     → `normalize`  ("round man·2^exp to prec bits, strip trailing zeros")
  * `numpy.<dtype>(int)`                 → `convInt`    (int → C double → dtype, both round-to-nearest-even)
  * `numpy.ldexp`                        → `ldexpV`     (x·2^k rounded to nearest-even in the format, subnormals included)
  * IEEE-754 round-to-nearest-even       → `roundV` / `roundBits`

All definitions are total and executable; nothing here imports Mathlib.
-/
import FAVerif.FP.Basic

namespace FAVerif.Mpf
open FAVerif.FP

/-! ### Python value fragment (DESIGN §3.5): what the `flush_subnormals` keyword may hold -/

/-- The values the `flush_subnormals` keyword is given in practice.  `unspecified` is the
module singleton `utils.UNSPECIFIED` (class `_UNSPECIFIED`: defines no `__bool__`/`__len__`). -/
inductive PyVal where
  | unspecified
  | true
  | false
  | none
  | int (n : Int)
  deriving DecidableEq, Repr

/-- Python truthiness (`if v:`).  A plain object without `__bool__`/`__len__` is truthy. -/
def PyVal.truthy : PyVal → Bool
  | .unspecified => Bool.true
  | .true => Bool.true
  | .false => Bool.false
  | .none => Bool.false
  | .int n => n != 0

/-- `v is UNSPECIFIED` (identity with the singleton). -/
def PyVal.isUnspecified : PyVal → Bool
  | .unspecified => Bool.true
  | _ => Bool.false

/-- `vectorize_with_mpmath.__init__`, as written (since /repo commit 724e786):
```
flush_subnormals = kwargs.pop("flush_subnormals", UNSPECIFIED)
self.flush_subnormals = flush_subnormals if flush_subnormals is not UNSPECIFIED else default_flush_subnormals
```
`kw = none` means the keyword is absent; `dflt` is the module global `default_flush_subnormals`. -/
def initFlush (kw : Option PyVal) (dflt : PyVal) : PyVal :=
  let fs := kw.getD .unspecified
  if fs.isUnspecified then dflt else fs

/-- What `mpf2float` does with the stored attribute: `if flush_subnormals` (truthiness). -/
def effectiveFlush (kw : Option PyVal) (dflt : PyVal) : Bool := (initFlush kw dflt).truthy

/-- What the property demands: the requested setting, the module default when unspecified. -/
def requestedFlush (kw : Option PyVal) (dflt : PyVal) : Bool :=
  match kw with
  | Option.none => dflt.truthy
  | some v => if v.isUnspecified then dflt.truthy else v.truthy

/-- `backend_context`: `extraprec = int(context.prec * extra_prec_multiplier) + extra_prec`, then
`context.extraprec(extraprec)` sets `ctx.prec = max(1, prec + extraprec)` (mpmath's `prec` setter).
The multiplier is the rational `mnum/mden` (Python `int()` truncates toward zero). -/
def extraPrec (prec : Nat) (mnum : Int) (mden : Nat) (extra : Int) : Int :=
  Int.tdiv ((prec : Int) * mnum) (mden : Int) + extra

def workPrec (prec : Nat) (mnum : Int) (mden : Nat) (extra : Int) : Nat :=
  (max 1 ((prec : Int) + extraPrec prec mnum mden extra)).toNat

/-! ### Integers: bit length, trailing zeros, shifts with rounding -/

/-- Python `int.bit_length()`. -/
def bitlen (n : Nat) : Nat := if n = 0 then 0 else n.log2 + 1

/-- number of trailing zero bits (0 for 0) -/
def tz (n : Nat) : Nat :=
  if h : n = 0 then 0 else if n % 2 = 0 then tz (n / 2) + 1 else 0
decreasing_by omega

/-- `m / 2^n` rounded to the nearest integer, ties to even. -/
def rneDiv (m n : Nat) : Nat :=
  let q := m / 2 ^ n
  let r := m % 2 ^ n
  if 2 ^ n < 2 * r ∨ (2 * r = 2 ^ n ∧ q % 2 = 1) then q + 1 else q

/-- ceiling of `m / 2^n` (Python `-((-m) >> n)`) -/
def ceilDiv (m n : Nat) : Nat := (m + (2 ^ n - 1)) / 2 ^ n

/-- mpmath rounding modes: nearest(-even), floor, ceiling, down (toward zero), up (away). -/
inductive Rnd where
  | n | f | c | d | u
  deriving DecidableEq, Repr

/-- magnitude `m / 2^n` rounded per mode (`shifts_down = {f:(1,0), c:(0,1), d:(1,1), u:(0,0)}` indexed by sign) -/
def shiftRnd (rnd : Rnd) (s : Bool) (m n : Nat) : Nat :=
  match rnd with
  | .n => rneDiv m n
  | .f => if s then ceilDiv m n else m / 2 ^ n
  | .c => if s then m / 2 ^ n else ceilDiv m n
  | .d => m / 2 ^ n
  | .u => ceilDiv m n

/-! ### mpmath raw tuples and `_normalize` (trusted specification) -/

/-- a finite raw mpf tuple `(sign, man, exp, bc)`: value `(-1)^sign · man · 2^exp` -/
structure MpfT where
  sign : Bool
  man : Nat
  exp : Int
  bc : Nat
  deriving DecidableEq, Repr

/-- mpmath `fzero = (0, 0, 0, 0)` -/
def fzero : MpfT := ⟨false, 0, 0, 0⟩

/-- `libmpf._normalize(sign, man, exp, bc, prec, rnd)` with `bc = man.bit_length()`:
round to `prec` bits in mode `rnd`, then strip trailing zero bits; zero mantissa → `fzero`. -/
def normalize (s : Bool) (man : Nat) (exp : Int) (prec : Nat) (rnd : Rnd) : MpfT :=
  if man = 0 then fzero
  else
    let n := bitlen man - prec                 -- natural subtraction: 0 when bc ≤ prec
    let man1 := if n = 0 then man else shiftRnd rnd s man n
    let exp1 : Int := exp + (n : Nat)
    if man1 = 0 then fzero                     -- only reachable with prec = 0
    else
      let t := tz man1
      let man2 := man1 / 2 ^ t
      ⟨s, man2, exp1 + (t : Nat), bitlen man2⟩

/-- an `mpf` object: the special tuples `fnan`, `finf`, `fninf`, or a finite tuple
(any `man`; the object's own `bc` is `bitlen man`). -/
inductive Mpf where
  | nan
  | inf (s : Bool)
  | fin (s : Bool) (man : Nat) (exp : Int)
  deriving DecidableEq, Repr

/-! ### IEEE round-to-nearest-even at value level -/

/-- result of a rounding: `inf` or the magnitude `q · 2^e` -/
inductive RV where
  | inf
  | fin (q : Nat) (e : Int)
  deriving DecidableEq, Repr

/-- `man · 2^exp / 2^e` rounded to an integer, nearest-even (exact when `e ≤ exp`). -/
def rne (man : Nat) (exp e : Int) : Nat :=
  if e ≤ exp then man * 2 ^ (exp - e).toNat else rneDiv man (e - exp).toNat

/-- IEEE-754 round-to-nearest-even of the magnitude `man · 2^exp` into format `f`:
quantum exponent `e = max(bitlen man + exp - p, emin)`, integer significand by `rne`,
carry to the next binade, overflow to `inf` beyond the largest exponent.
The result `fin q e` is canonical: `q < 2^p`, and `q ≥ 2^(p-1)` (normal) or `e = emin`. -/
def roundV (f : Fmt) (man : Nat) (exp : Int) : RV :=
  if man = 0 then .fin 0 f.emin
  else
    let e : Int := max ((bitlen man : Int) + exp - f.p) f.emin
    let q := rne man exp e
    let q' := if q = 2 ^ f.p then 2 ^ (f.p - 1) else q
    let e' := if q = 2 ^ f.p then e + 1 else e
    if f.emaxUlp < e' then .inf else .fin q' e'

/-- magnitude bit pattern of a canonical rounding result -/
def pack (f : Fmt) : RV → Nat
  | .inf => f.infBits
  | .fin q e => (e - f.emin).toNat * 2 ^ f.fracBits + q

/-- magnitude bit pattern of RNE(`man · 2^exp`) in format `f` — the reference rounding of the theorems -/
def roundBits (f : Fmt) (man : Nat) (exp : Int) : Nat := pack f (roundV f man exp)

def signBits (f : Fmt) (s : Bool) : Nat := if s then f.signBit else 0

/-- canonical quiet NaN (`dtype(numpy.nan)`) -/
def nanBits (f : Fmt) : Nat := f.infBits + 2 ^ (f.fracBits - 1)

/-! ### the class tables of `vectorize_with_mpmath`, by formula (tied to the real dicts by the harness) -/

/-- `float_subexp`: values below `2^(subexp-1)` (= smallest subnormal) are returned as zero -/
def subexp (f : Fmt) : Int := f.emin + 1
/-- `float_minexp`: `2^(minexp-1)` is the smallest normal -/
def minexp (f : Fmt) : Int := f.emin + f.p
/-- `float_maxexp`: `2^maxexp` is the first power of two that overflows -/
def maxexp (f : Fmt) : Int := f.emaxUlp + f.p
/-- `int(float_max)`: the largest finite value as an integer -/
def largest (f : Fmt) : Nat := (2 ^ f.p - 1) * 2 ^ f.emaxUlp.toNat

/-! ### numpy pieces (trusted specifications) -/

/-- `dtype(man)` for a Python int: exact when representable; otherwise via C double
(`PyFloat_AsDouble`, RNE; `OverflowError` = `none` when that overflows) then cast to `dtype` (RNE). -/
def convInt (f : Fmt) (man : Nat) : Option RV :=
  if bitlen man ≤ f.p ∧ bitlen man ≤ 53 ∧ man ≤ largest f then some (.fin man 0)
  else match roundV binary64 man 0 with
    | .inf => none
    | .fin q e => some (roundV f q e)

/-- `numpy.ldexp(x, k)`: `x · 2^k` rounded to nearest-even in the format (also into the subnormal range) -/
def ldexpV (f : Fmt) (x : RV) (k : Int) : RV :=
  match x with
  | .inf => .inf
  | .fin q e => roundV f q (e + k)

/-! ### `mpf2float`, as written -/

inductive Out where
  | bits (b : Nat)
  | assertionError
  | overflowError
  deriving DecidableEq, Repr

/-- `while man > largest: man >>= 1; exp += 1` -/
def shiftLoop (largest : Nat) (man : Nat) (exp : Int) : Nat × Int :=
  if h : largest < man then shiftLoop largest (man / 2) (exp + 1) else (man, exp)
decreasing_by omega

/-- the retry loop after `ldexp` overflowed:
```
for e in range(1, maxexp - exp):
    m = (man >> e) << e ; assert m
    r_ = numpy.ldexp(dtype(m), exp)
    if numpy.isfinite(r_): r = r_; break
```
`none` = an `assert` failed (or `dtype(m)` raised); `some .inf` = loop exhausted, `r` still infinite. -/
def retryLoop (f : Fmt) (man : Nat) (exp : Int) : List Nat → Option RV
  | [] => some .inf
  | e :: es =>
    let m := man / 2 ^ e * 2 ^ e
    if m = 0 then none
    else match convInt f m with
      | none => none
      | some x =>
        match ldexpV f x exp with
        | .inf => retryLoop f man exp es
        | r => some r

/-- `utils.mpf2float(dtype, x, flush_subnormals, prec, rounding)` for one mpf object.
`prec = none`: `get_precision(dtype)`; `rnd`: the context's rounding unless overridden
(mpmath contexts round to nearest).  Returns the bit pattern of the numpy scalar. -/
def mpf2float (f : Fmt) (flush : PyVal) (x : Mpf) (prec : Option Nat) (rnd : Rnd) : Out :=
  match x with
  | .nan => .bits (nanBits f)
  | .inf s => .bits (signBits f s + f.infBits)
  | .fin s0 man0 exp0 =>
    let t := normalize s0 man0 exp0 (prec.getD f.p) rnd
    -- `assert bc >= 0`: bc is a bit count
    let zexp := if flush.truthy then minexp f else subexp f
    if t.exp + t.bc < zexp then .bits (signBits f t.sign)
    else if maxexp f < t.exp + t.bc then .bits (signBits f t.sign + f.infBits)
    else
      let me := shiftLoop (largest f) t.man t.exp
      match convInt f me.1 with
      | none => .overflowError
      | some x0 =>
        let r := ldexpV f x0 me.2
        let r' : Option RV :=
          match r with
          | .inf =>
            if me.2 ≤ 0 then none      -- `assert exp > 0`
            else retryLoop f me.1 me.2 (List.range' 1 ((maxexp f - me.2).toNat - 1))
          | _ => some r
        match r' with
        | none => .assertionError
        | some .inf => .assertionError       -- final `assert numpy.isfinite(r)`
        | some v => .bits (signBits f t.sign + pack f v)

/-! ### the call protocol on scalars -/

/-- `float2mpf` (through `nptomp`): a float bit pattern as an mpf object; zero loses its sign
(mpmath has one zero). -/
def float2mpf (f : Fmt) (b : Nat) : Mpf :=
  match decode f b with
  | .nan => .nan
  | .inf s => .inf s
  | .fin s m e => if m = 0 then .fin false 0 0 else .fin s m e

/-- exact functions evaluated by mpmath at working precision `wp` (result = exact value
normalised to `wp` bits, nearest-even): identity (`+x` is not applied: the object is returned
unchanged), negation, product, sum. -/
inductive Fn where
  | id | neg | mul | add
  deriving DecidableEq, Repr

def sval (s : Bool) (m : Nat) : Int := if s then -(m : Int) else (m : Int)

def ofTuple (t : MpfT) : Mpf := .fin t.sign t.man t.exp

def evalFn (fn : Fn) (wp : Nat) (x y : Mpf) : Option Mpf :=
  match fn, x, y with
  | .id, x, _ => some x
  | .neg, .fin s m e, _ => some (ofTuple (normalize (!s) m e wp .n))   -- `__neg__` rounds to the context precision
  | .neg, .inf s, _ => some (.inf (!s))
  | .neg, .nan, _ => some .nan
  | .mul, .fin s1 m1 e1, .fin s2 m2 e2 => some (ofTuple (normalize (s1 != s2) (m1 * m2) (e1 + e2) wp .n))
  | .add, .fin s1 m1 e1, .fin s2 m2 e2 =>
    let e := min e1 e2
    let v : Int := sval s1 m1 * 2 ^ (e1 - e).toNat + sval s2 m2 * 2 ^ (e2 - e).toNat
    some (ofTuple (normalize (decide (v < 0)) v.natAbs e wp .n))
  | _, _, _ => none

/-- `vectorize_with_mpmath(fn, flush_subnormals=kw, extra_prec_multiplier=mnum/mden,
extra_prec=extra)(x[, y])` on scalar floats of format `f`: the result's bit pattern.
`none`: outside the modelled fragment (special operands of binary functions; negative total
extra precision, where `float2mpf` itself rounds its input at the reduced context precision). -/
def call (f : Fmt) (kw : Option PyVal) (dflt : PyVal) (mnum : Int) (mden : Nat) (extra : Int)
    (fn : Fn) (bx by_ : Nat) : Option Out :=
  let wp := workPrec f.p mnum mden extra
  if extraPrec f.p mnum mden extra < 0 then none else
  match evalFn fn wp (float2mpf f bx) (float2mpf f by_) with
  | none => none
  | some r => some (mpf2float f (initFlush kw dflt) r none .n)

end FAVerif.Mpf
