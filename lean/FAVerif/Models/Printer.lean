/-
Model of the generic target printer of /repo (C05): `functional_algorithms/targets/base.py`
(`PrinterBase.tostring`, `init_arguments`), `Expr.tostring`/`compute_need_ref` (expr.py 529-553)
and the per-target pieces of targets/python.py, targets/numpy.py, targets/cpp.py
(`make_assignment`, `make_constant`, `make_apply`, `check_dtype`, `upcast_func`, `downcast_func`,
`list_func`).  Hand-written; the template / constant / type tables are NOT here: they are
regenerated from the source on every run into `FAVerif/Generated/C05Tables.lean`.
Tied to the code by `fav/props/c05.py` through `Drivers/Printer.lean` (token / AST comparison of
the model's text with the real printers' text).

Part A  generic printer over an arbitrary label type `L` (what the theorems are about)
Part B  str.format, template tokenizer, template shapes (what `templates_<target>` is about)
Part C  concrete labels, rendering to text for the three targets (what the driver prints)

Python ↔ model
  Expr (node of the DAG)                 `Node L`  (index in `Graph L` = position in a topological order)
  expr.operands that are Expr            `Node.cargs`  (compute_need_ref recurses into all of them,
                                                         including the `like` operand of a constant)
  operands that are printed              `Node.pargs`  (template operands; none for symbol/constant)
  expr.ref                               `Node.ref`    (computed by Models/RefAlloc.lean in the driver)
  expr.props.get("force_ref", False)     `Node.force`
  compute_need_ref                       `countRefs`   (dict keyed by the reference NAME, as written)
  PrinterBase.defined_refs / assignments `St.defined` / `St.stmts`
  PrinterBase.tostring (generic branch)  `pr`
-/
namespace FAVerif.Printer

abbrev Name := String

/-! ## Part A — generic printer -/

/-- Printed expression: a variable (reference name or parameter) or an operation applied to printed
operands.  The label carries kind, payload and target types. -/
inductive TExp (L : Type) where
  | var (r : Name)
  | op (lab : L) (args : List (TExp L))

/-- Printed statement: `make_assignment(get_type(expr), ref, text)` or the debug>=1 `check_dtype`. -/
inductive Stmt (L : Type) where
  | assign (r : Name) (lab : L) (e : TExp L)
  | check (r : Name) (lab : L)

structure Node (L : Type) where
  lab : L
  pargs : List Nat
  cargs : List Nat
  ref : Name
  force : Bool := false
  /-- exception the real printer raises when it starts expanding this node (unknown kind, KeyError /
  NotImplementedError of `get_type` on an operand or on `like`), precomputed by the harness -/
  preErr : Option String := none
  /-- exception of `get_type(expr)` when the node is assigned -/
  tyErr : Option String := none
  /-- list-typed node: debug>=1 emits no `check_dtype` -/
  noCheck : Bool := false

abbrev Graph (L : Type) := List (Node L)

/-- Operands come before their users (the harness emits nodes in post-order). -/
def WF {L} (g : Graph L) : Prop :=
  ∀ (i : Nat) (n : Node L), g[i]? = some n → (∀ a ∈ n.pargs, a < i) ∧ (∀ a ∈ n.cargs, a < i)

/-- `need_ref: dict` of `compute_need_ref`, newest binding first. -/
abbrev NeedRef := List (Name × Bool)

def NeedRef.get? (d : NeedRef) (r : Name) : Option Bool :=
  match d.find? (fun p => p.1 == r) with
  | some p => some p.2
  | none => none

/-- truthiness of `self.need_ref.get(ref)` -/
def NeedRef.need (d : NeedRef) (r : Name) : Bool := (d.get? r).getD false

/-- `compute_need_ref(expr, need_ref)`; the first argument is recursion fuel (any value above the
node index is enough for a well-formed graph). -/
def countRefs {L} (g : Graph L) : Nat → NeedRef → Nat → NeedRef
  | 0, d, _ => d
  | f + 1, d, i =>
    match g[i]? with
    | none => d
    | some n =>
      match d.get? n.ref with
      | some _ => (n.ref, true) :: d
      | none => n.cargs.foldl (countRefs g f) ((n.ref, n.force) :: d)

structure St (L : Type) where
  defined : List Name
  stmts : List (Stmt L)
  err : Option String := none

/-- remember the first exception only -/
def St.fail {L} (s : St L) (e : Option String) : St L :=
  match s.err with
  | some _ => s
  | none => { s with err := e }

/-- `[self.tostring(operand) for operand in expr.operands]`, threading the printer state -/
def foldArgs {L} (f : St L → Nat → TExp L × St L) : St L → List Nat → List (TExp L) × St L
  | s, [] => ([], s)
  | s, a :: as =>
    let r := f s a
    let rs := foldArgs f r.2 as
    (r.1 :: rs.1, rs.2)

/-- `PrinterBase.tostring` for every kind except `apply`.  `need` is `need_ref.get`, `dbg` the debug
level (0 or 1 are modelled), the first `Nat` is recursion fuel. -/
def pr {L} (g : Graph L) (need : Name → Bool) (dbg : Nat) : Nat → St L → Nat → TExp L × St L
  | 0, s, _ => (.var "<fuel>", s.fail (some "fuel"))
  | f + 1, s, i =>
    match g[i]? with
    | none => (.var "<bad-index>", s.fail (some "bad-index"))
    | some n =>
      if n.ref ∈ s.defined then
        -- `assert self.need_ref.get(expr.ref), expr.ref`
        (.var n.ref, if need n.ref then s else s.fail (some "AssertionError"))
      else
        let r := foldArgs (pr g need dbg f) (s.fail n.preErr) n.pargs
        let e := TExp.op n.lab r.1
        if need n.ref then
          let s1 := r.2.fail n.tyErr
          (.var n.ref,
            { defined := n.ref :: s1.defined
              stmts := s1.stmts ++
                (Stmt.assign n.ref n.lab e :: (if dbg ≥ 1 ∧ ¬ n.noCheck then [Stmt.check n.ref n.lab] else []))
              err := s1.err })
        else (e, r.2)

/-! ### semantics of printed code and of the graph -/

abbrev Env (V : Type) := List (Name × V)

def Env.get? {V} (env : Env V) (r : Name) : Option V :=
  match env.find? (fun p => p.1 == r) with
  | some p => some p.2
  | none => none

mutual
/-- value of a printed expression; `prim` is the target's primitive semantics (a parameter) -/
def evalT {L V} [Inhabited V] (prim : L → List V → V) (env : Env V) : TExp L → V
  | .var r => (env.get? r).getD default
  | .op l as => prim l (evalTs prim env as)
def evalTs {L V} [Inhabited V] (prim : L → List V → V) (env : Env V) : List (TExp L) → List V
  | [] => []
  | a :: as => evalT prim env a :: evalTs prim env as
end

/-- an assignment (re)binds its variable; an assertion changes nothing -/
def execStmt {L V} [Inhabited V] (prim : L → List V → V) (env : Env V) : Stmt L → Env V
  | .assign r _ e => (r, evalT prim env e) :: env
  | .check _ _ => env

def execStmts {L V} [Inhabited V] (prim : L → List V → V) (env : Env V) (ss : List (Stmt L)) : Env V :=
  ss.foldl (execStmt prim) env

/-- direct evaluation of the graph: one application of `prim` per node occurrence -/
def valOf {L V} [Inhabited V] (g : Graph L) (prim : L → List V → V) : Nat → Nat → V
  | 0, _ => default
  | f + 1, i =>
    match g[i]? with
    | none => default
    | some n => prim n.lab (n.pargs.map (valOf g prim f))

mutual
def TExp.vars {L} : TExp L → List Name
  | .var r => [r]
  | .op _ as => varsList as
def varsList {L} : List (TExp L) → List Name
  | [] => []
  | a :: as => a.vars ++ varsList as
end

mutual
/-- s-expression of a printed expression (for examples and diagnostics) -/
def TExp.toSexp {L} (f : L → String) : TExp L → String
  | .var r => r
  | .op l as => "(" ++ f l ++ sexpList f as ++ ")"
def sexpList {L} (f : L → String) : List (TExp L) → String
  | [] => ""
  | a :: as => " " ++ a.toSexp f ++ sexpList f as
end

def Stmt.toSexp {L} (f : L → String) : Stmt L → String
  | .assign r l e => "(assign " ++ r ++ " " ++ f l ++ " " ++ e.toSexp f ++ ")"
  | .check r l => "(check " ++ r ++ " " ++ f l ++ ")"

/-- SSA scan: every assignment targets a name not bound before and reads only bound names; every
assertion reads a bound name.  Returns the bound names after the statements. -/
def scan {L} : List Name → List (Stmt L) → Option (List Name)
  | b, [] => some b
  | b, .assign r _ e :: rest =>
    if (e.vars.all (· ∈ b)) ∧ r ∉ b then scan (r :: b) rest else none
  | b, .check r _ :: rest => if r ∈ b then scan b rest else none

def assigned {L} : List (Stmt L) → List Name
  | [] => []
  | .assign r _ _ :: rest => r :: assigned rest
  | .check _ _ :: rest => assigned rest

def Stmt.isCheck {L} : Stmt L → Bool
  | .check _ _ => true
  | _ => false

def stripChecks {L} (ss : List (Stmt L)) : List (Stmt L) := ss.filter (fun s => !s.isCheck)

/-! ## Part B — str.format, template tokens, template shapes -/

/-- a piece of a format string -/
inductive Piece where
  | lit (s : String)
  | field (name : String)
  deriving DecidableEq, Repr

inductive FMode where
  | lit | sawOpen | sawClose | field
  deriving DecidableEq

def litPiece (cur : List Char) : List Piece := if cur.isEmpty then [] else [.lit (String.ofList cur.reverse)]

/-- Scanner of Python format strings restricted to what the tables use: `{N}`, `{name}`, `{{`, `}}`.
Returns `none` where Python raises ValueError (single `}` / unterminated field).  `cur` is the
current piece, reversed. -/
def fmtScan : List Char → FMode → List Char → List Piece → Option (List Piece)
  | [], .lit, cur, acc => some (acc ++ litPiece cur)
  | [], _, _, _ => none
  | c :: cs, .lit, cur, acc =>
    if c == '{' then fmtScan cs .sawOpen cur acc
    else if c == '}' then fmtScan cs .sawClose cur acc
    else fmtScan cs .lit (c :: cur) acc
  | c :: cs, .sawOpen, cur, acc =>
    if c == '{' then fmtScan cs .lit ('{' :: cur) acc
    else if c == '}' then fmtScan cs .lit [] (acc ++ litPiece cur ++ [.field ""])
    else fmtScan cs .field [c] (acc ++ litPiece cur)
  | c :: cs, .sawClose, cur, acc =>
    if c == '}' then fmtScan cs .lit ('}' :: cur) acc else none
  | c :: cs, .field, cur, acc =>
    if c == '}' then fmtScan cs .lit [] (acc ++ [.field (String.ofList cur.reverse)])
    else fmtScan cs .field (c :: cur) acc

def pieces (t : String) : Option (List Piece) := fmtScan t.toList .lit [] []

def allDigits (s : String) : Bool := !s.toList.isEmpty && s.toList.all Char.isDigit

def digitsToNat (s : String) : Nat := s.toList.foldl (fun n c => 10 * n + (c.toNat - '0'.toNat)) 0

/-- `tmpl.format(*pos, **kw)`; errors: "ValueError" (bad format), "IndexError", "KeyError" -/
def pyFormat (t : String) (pos : List String) (kw : List (String × String)) : Except String String :=
  match pieces t with
  | none => .error "ValueError"
  | some ps =>
    ps.foldlM (init := "") fun acc p =>
      match p with
      | .lit s => .ok (acc ++ s)
      | .field f =>
        if f.toList.isEmpty then .error "ValueError"
        else if allDigits f then
          match pos[digitsToNat f]? with
          | some s => .ok (acc ++ s)
          | none => .error "IndexError"
        else
          match kw.lookup f with
          | some s => .ok (acc ++ s)
          | none => .error "KeyError"

/-- template token -/
inductive Tok where
  | hole (n : Nat)          -- `{n}`
  | nhole (name : String)   -- `{name}`
  | id (s : String)         -- identifier, with `.`/`::` qualification folded in: numpy.less, std::max
  | num (s : String)
  | sym (s : String)        -- operator or punctuation
  deriving DecidableEq, Repr

def isIdStart (c : Char) : Bool := c.isAlpha || c == '_'
def isIdCont (c : Char) : Bool := c.isAlphanum || c == '_'

def twoCharOps : List String := ["**", "//", "<<", ">>", "<=", ">=", "==", "!=", "&&", "||", "%%"]

/-- tokenizer state; identifiers / numbers are accumulated reversed -/
inductive TMode where
  | start
  | ident (cur : List Char)
  | identDot (cur : List Char)      -- saw `.` after an identifier
  | identColon (cur : List Char)    -- saw `:` after an identifier
  | identColon2 (cur : List Char)   -- saw `::` after an identifier
  | number (cur : List Char)
  | op1 (c : Char)                  -- saw a character that may start a two-character operator

def str (cur : List Char) : String := String.ofList cur.reverse

/-- a character read in start mode -/
def tokStart (c : Char) : TMode × List Tok :=
  if isIdStart c then (.ident [c], [])
  else if c.isDigit then (.number [c], [])
  else if c.isWhitespace then (.start, [])
  else if c ∈ ['*', '/', '<', '>', '=', '!', '&', '|', '%', ':'] then (.op1 c, [])
  else (.start, [.sym (String.singleton c)])

/-- finish the pending token, then read `c` in start mode -/
def tokThen (pending : List Tok) (c : Char) : TMode × List Tok :=
  let r := tokStart c
  (r.1, pending ++ r.2)

/-- one step of the tokenizer: new state and the tokens completed by this character -/
def tokStep : TMode → Char → TMode × List Tok
  | .start, c => tokStart c
  | .ident cur, c =>
    if isIdCont c then (.ident (c :: cur), [])
    else if c == '.' then (.identDot cur, [])
    else if c == ':' then (.identColon cur, [])
    else tokThen [.id (str cur)] c
  | .identDot cur, c =>
    if isIdStart c then (.ident (c :: '.' :: cur), [])
    else tokThen [.id (str cur), .sym "."] c
  | .identColon cur, c =>
    if c == ':' then (.identColon2 cur, [])
    else tokThen [.id (str cur), .sym ":"] c
  | .identColon2 cur, c =>
    if isIdStart c then (.ident (c :: ':' :: ':' :: cur), [])
    else tokThen [.id (str cur), .sym "::"] c
  | .number cur, c =>
    if c.isDigit || c == '.' then (.number (c :: cur), [])
    else tokThen [.num (str cur)] c
  | .op1 p, c =>
    let two := String.ofList [p, c]
    if two ∈ twoCharOps then (.start, [.sym two])
    else tokThen [.sym (String.singleton p)] c

def tokFlush : TMode → List Tok
  | .start => []
  | .ident cur => [.id (str cur)]
  | .identDot cur => [.id (str cur), .sym "."]
  | .identColon cur => [.id (str cur), .sym ":"]
  | .identColon2 cur => [.id (str cur), .sym "::"]
  | .number cur => [.num (str cur)]
  | .op1 c => [.sym (String.singleton c)]

/-- Tokenizer of one *literal* piece of a template. -/
def tokScan : List Char → TMode → List Tok → List Tok
  | [], m, acc => acc ++ tokFlush m
  | c :: cs, m, acc =>
    let r := tokStep m c
    tokScan cs r.1 (acc ++ r.2)

/-- tokens of a template: fields become holes, literal pieces are tokenized -/
def tokenize (t : String) : Option (List Tok) :=
  match pieces t with
  | none => none
  | some ps =>
    some (ps.foldl (init := []) fun acc p =>
      match p with
      | .lit s => acc ++ tokScan s.toList .start []
      | .field f => if allDigits f then acc ++ [.hole (digitsToNat f)] else acc ++ [.nhole f])

/-- What a template may look like.  In every shape except `index` and `raw` each operand hole is
either alone inside parentheses or a whole call argument, so substituting operand text cannot
change the parse (operand texts are balanced and have no top-level comma). -/
inductive Shape where
  | call (f : String) (holes : List Nat)            -- f({0}, {1})
  | callT (f : String) (tparam : String) (holes : List Nat)   -- f<{typeof_0}>({0}, {1})
  | pre (op : String) (h : Nat)                      -- op({0})
  | inf (op : String) (l r : Nat)                    -- ({0}) op ({1})
  | method (h : Nat) (name : String)                 -- ({0}).name()
  | attr (h : Nat) (name : String)                   -- ({0}).name
  | index (c i : Nat)                                -- {0}[{1}]       (hole 0 is bare)
  | condPy (c a b : Nat)                             -- ({a}) if ({c}) else ({b})
  | condC (c a b : Nat)                              -- (({c}) ? ({a}) : ({b}))
  | paren (h : Nat)                                  -- ({0})
  | raw (toks : List Tok)                            -- anything else
  deriving DecidableEq, Repr

/-- `{a}, {b}, ...` followed by `)` -/
def parseHoleArgs : List Tok → Option (List Nat)
  | [.hole h, .sym ")"] => some [h]
  | .hole h :: .sym "," :: rest => (parseHoleArgs rest).map (h :: ·)
  | _ => none

def prefixOps : List String := ["-", "+", "~", "!"]
def infixOps : List String :=
  ["+", "-", "*", "/", "%", "//", "**", "&", "|", "^", "<<", ">>", "<", "<=", ">", ">=", "==", "!=", "&&", "||"]

def parseShape (toks : List Tok) : Shape :=
  match toks with
  | [.sym "(", .hole a, .sym ")", .id "if", .sym "(", .hole c, .sym ")", .id "else", .sym "(", .hole b, .sym ")"] =>
    .condPy c a b
  | [.sym "(", .sym "(", .hole c, .sym ")", .sym "?", .sym "(", .hole a, .sym ")", .sym ":", .sym "(", .hole b, .sym ")", .sym ")"] =>
    .condC c a b
  | [.sym "(", .hole l, .sym ")", .sym op, .sym "(", .hole r, .sym ")"] =>
    if op ∈ infixOps then .inf op l r else .raw toks
  | [.sym "(", .hole l, .sym ")", .id op, .sym "(", .hole r, .sym ")"] =>
    if op == "and" || op == "or" then .inf op l r else .raw toks
  | [.sym "(", .hole h, .sym ")", .sym ".", .id name, .sym "(", .sym ")"] => .method h name
  | [.sym "(", .hole h, .sym ")", .sym ".", .id name] => .attr h name
  | [.sym "(", .hole h, .sym ")"] => .paren h
  | [.hole c, .sym "[", .hole i, .sym "]"] => .index c i
  | [.sym op, .sym "(", .hole h, .sym ")"] => if op ∈ prefixOps then .pre op h else .raw toks
  | .id f :: .sym "(" :: rest =>
    if f == "not" then
      match rest with
      | [.hole h, .sym ")"] => .pre "not" h
      | _ => .raw toks
    else
      match parseHoleArgs rest with
      | some hs => .call f hs
      | none => .raw toks
  | .id f :: .sym "<" :: .nhole t :: .sym ">" :: .sym "(" :: rest =>
    match parseHoleArgs rest with
    | some hs => .callT f t hs
    | none => .raw toks
  | _ => .raw toks

def holeArgToks : List Nat → List Tok
  | [] => [.sym ")"]
  | [h] => [.hole h, .sym ")"]
  | h :: hs => .hole h :: .sym "," :: holeArgToks hs

/-- canonical token list of a shape (`render (parse t) = t` up to white space) -/
def Shape.toks : Shape → List Tok
  | .call f hs => .id f :: .sym "(" :: holeArgToks hs
  | .callT f t hs => .id f :: .sym "<" :: .nhole t :: .sym ">" :: .sym "(" :: holeArgToks hs
  | .pre op h => (if op == "not" then Tok.id op else Tok.sym op) :: [.sym "(", .hole h, .sym ")"]
  | .inf op l r =>
    [.sym "(", .hole l, .sym ")", (if op == "and" || op == "or" then Tok.id op else Tok.sym op), .sym "(", .hole r, .sym ")"]
  | .method h name => [.sym "(", .hole h, .sym ")", .sym ".", .id name, .sym "(", .sym ")"]
  | .attr h name => [.sym "(", .hole h, .sym ")", .sym ".", .id name]
  | .index c i => [.hole c, .sym "[", .hole i, .sym "]"]
  | .condPy c a b => [.sym "(", .hole a, .sym ")", .id "if", .sym "(", .hole c, .sym ")", .id "else", .sym "(", .hole b, .sym ")"]
  | .condC c a b => [.sym "(", .sym "(", .hole c, .sym ")", .sym "?", .sym "(", .hole a, .sym ")", .sym ":", .sym "(", .hole b, .sym ")", .sym ")"]
  | .paren h => [.sym "(", .hole h, .sym ")"]
  | .raw ts => ts

/-- every operand hole is protected (parenthesised or a whole call argument) -/
def Shape.guarded : Shape → Bool
  | .index _ _ => false
  | .raw _ => false
  | _ => true

inductive Target where
  | python | numpy | cpp
  deriving DecidableEq, Repr

/-- row of `kind_to_target` -/
inductive Entry where
  | tmpl (s : String)
  | callable (name : String)
  | notImpl
  deriving DecidableEq, Repr

structure Tables where
  kinds : List (String × Entry)
  consts : List (String × String)
  types : List (String × String)

/-- Trusted primitive-name table: which operator / library primitive implements a kind in a target
language, with the operand positions.  `none`: the kind has no agreed primitive in that target. -/
def sharedSem (kind : String) : Option Shape :=
  match kind with
  | "negative" => some (.pre "-" 0)
  | "add" => some (.inf "+" 0 1)
  | "subtract" => some (.inf "-" 0 1)
  | "multiply" => some (.inf "*" 0 1)
  | "divide" => some (.inf "/" 0 1)
  | "remainder" => some (.inf "%" 0 1)
  | "bitwise_invert" => some (.pre "~" 0)
  | "bitwise_and" => some (.inf "&" 0 1)
  | "bitwise_or" => some (.inf "|" 0 1)
  | "bitwise_xor" => some (.inf "^" 0 1)
  | "bitwise_left_shift" => some (.inf "<<" 0 1)
  | "bitwise_right_shift" => some (.inf ">>" 0 1)
  | _ => none

def cmpSem (kind : String) : Option Shape :=
  match kind with
  | "lt" => some (.inf "<" 0 1)
  | "le" => some (.inf "<=" 0 1)
  | "gt" => some (.inf ">" 0 1)
  | "ge" => some (.inf ">=" 0 1)
  | "eq" => some (.inf "==" 0 1)
  | "ne" => some (.inf "!=" 0 1)
  | _ => none

/-- unary / binary library functions named `<prefix><name>` -/
def libSem (pfx : String) (table : List (String × String × Nat)) (kind : String) : Option Shape :=
  match table.lookup kind with
  | some (name, 1) => some (.call (pfx ++ name) [0])
  | some (name, 2) => some (.call (pfx ++ name) [0, 1])
  | some (name, 3) => some (.call (pfx ++ name) [0, 1, 2])
  | _ => none

def mathLib : List (String × String × Nat) :=
  [("acos", "acos", 1), ("acosh", "acosh", 1), ("asin", "asin", 1), ("asinh", "asinh", 1), ("atan", "atan", 1),
   ("atanh", "atanh", 1), ("atan2", "atan2", 2), ("cos", "cos", 1), ("cosh", "cosh", 1), ("sin", "sin", 1),
   ("sinh", "sinh", 1), ("tan", "tan", 1), ("tanh", "tanh", 1), ("exp", "exp", 1), ("expm1", "expm1", 1),
   ("exp2", "exp2", 1), ("log", "log", 1), ("log1p", "log1p", 1), ("log2", "log2", 1), ("log10", "log10", 1),
   ("ceil", "ceil", 1), ("floor", "floor", 1), ("copysign", "copysign", 2), ("truncate", "trunc", 1),
   ("sqrt", "sqrt", 1), ("is_finite", "isfinite", 1), ("hypot", "hypot", 2), ("nextafter", "nextafter", 2)]

def numpyLib : List (String × String × Nat) :=
  [("absolute", "abs", 1), ("logical_and", "logical_and", 2), ("logical_or", "logical_or", 2),
   ("logical_not", "logical_not", 1),
   ("acos", "arccos", 1), ("acosh", "arccosh", 1), ("asin", "arcsin", 1), ("asinh", "arcsinh", 1),
   ("atan", "arctan", 1), ("atanh", "arctanh", 1), ("atan2", "arctan2", 2), ("cos", "cos", 1), ("cosh", "cosh", 1),
   ("sin", "sin", 1), ("sinh", "sinh", 1), ("tan", "tan", 1), ("tanh", "tanh", 1), ("exp", "exp", 1),
   ("exp2", "exp2", 1), ("expm1", "expm1", 1), ("log", "log", 1), ("log1p", "log1p", 1), ("log2", "log2", 1),
   ("log10", "log10", 1), ("ceil", "ceil", 1), ("floor", "floor", 1), ("copysign", "copysign", 2),
   ("sign", "sign", 1), ("truncate", "trunc", 1), ("hypot", "hypot", 2), ("square", "square", 1),
   ("sqrt", "sqrt", 1), ("select", "where", 3), ("lt", "less", 2), ("le", "less_equal", 2),
   ("gt", "greater", 2), ("ge", "greater_equal", 2), ("eq", "equal", 2), ("ne", "not_equal", 2),
   ("nextafter", "nextafter", 2), ("is_finite", "isfinite", 1)]

def cppLib : List (String × String × Nat) :=
  [("absolute", "abs", 1), ("maximum", "max", 2), ("minimum", "min", 2),
   ("acos", "acos", 1), ("acosh", "acosh", 1), ("asin", "asin", 1), ("asinh", "asinh", 1), ("atan", "atan", 1),
   ("atanh", "atanh", 1), ("atan2", "atan2", 2), ("cos", "cos", 1), ("cosh", "cosh", 1), ("sin", "sin", 1),
   ("sinh", "sinh", 1), ("tan", "tan", 1), ("tanh", "tanh", 1), ("exp", "exp", 1), ("expm1", "expm1", 1),
   ("exp2", "exp2", 1), ("log", "log", 1), ("log1p", "log1p", 1), ("log2", "log2", 1), ("log10", "log10", 1),
   ("ceil", "ceil", 1), ("floor", "floor", 1), ("round", "round", 1), ("copysign", "copysign", 2),
   ("truncate", "trunc", 1), ("sqrt", "sqrt", 1), ("is_finite", "isfinite", 1), ("hypot", "hypot", 2),
   ("nextafter", "nextafter", 2)]

/-- The trusted table.  Python: operators and `math`; NumPy: operators and `numpy` ufuncs (Python's
`max`/`min` for maximum/minimum — the repo's choice of primitive); C++: operators and `std::`. -/
def kindSem (t : Target) (kind : String) : Option Shape :=
  match t with
  | .python =>
    match kind with
    | "absolute" => some (.call "abs" [0])
    | "positive" => some (.pre "+" 0)
    | "floor_divide" => some (.inf "//" 0 1)
    | "pow" => some (.inf "**" 0 1)
    | "logical_and" => some (.inf "and" 0 1)
    | "logical_or" => some (.inf "or" 0 1)
    | "logical_not" => some (.pre "not" 0)
    | "maximum" => some (.call "max" [0, 1])
    | "minimum" => some (.call "min" [0, 1])
    | "conjugate" => some (.method 0 "conjugate")
    | "real" => some (.attr 0 "real")
    | "imag" => some (.attr 0 "imag")
    | "complex" => some (.call "complex" [0, 1])
    | "select" => some (.condPy 0 1 2)
    | _ => (sharedSem kind <|> cmpSem kind <|> libSem "math." mathLib kind)
  | .numpy =>
    match kind with
    | "positive" => some (.pre "+" 0)
    | "floor_divide" => some (.inf "//" 0 1)
    | "pow" => some (.inf "**" 0 1)
    | "maximum" => some (.call "max" [0, 1])
    | "minimum" => some (.call "min" [0, 1])
    | "conjugate" => some (.method 0 "conjugate")
    | "real" => some (.attr 0 "real")
    | "imag" => some (.attr 0 "imag")
    | "complex" => some (.call "make_complex" [0, 1])
    | "item" => some (.index 0 1)
    | _ => (libSem "numpy." numpyLib kind <|> sharedSem kind)
  | .cpp =>
    match kind with
    | "positive" => some (.paren 0)
    | "logical_and" => some (.inf "&&" 0 1)
    | "logical_or" => some (.inf "||" 0 1)
    | "logical_not" => some (.pre "!" 0)
    | "real" => some (.method 0 "real")
    | "imag" => some (.method 0 "imag")
    | "complex" => some (.callT "std::complex" "typeof_0" [0, 1])
    | "select" => some (.condC 0 1 2)
    | _ => (sharedSem kind <|> cmpSem kind <|> libSem "std::" cppLib kind)

/-- callable rows: the function that must be installed for the kind -/
def callableSem (t : Target) (kind : String) : Option String :=
  match t, kind with
  | .numpy, "upcast" => some "upcast_func"
  | .numpy, "downcast" => some "downcast_func"
  | .numpy, "list" => some "list_func"
  | _, _ => none

/-- The per-row obligation: a template row tokenizes, its shape is guarded, its canonical token list
is the template (up to white space) and the shape is the one the trusted table assigns to the kind;
a callable row installs the expected function; `NotImplemented` rows promise nothing. -/
def rowOK (t : Target) (kind : String) (e : Entry) : Bool :=
  match e with
  | .notImpl => true
  | .callable f => callableSem t kind == some f
  | .tmpl s =>
    match tokenize s with
    | none => false
    | some toks =>
      let sh := parseShape toks
      sh.guarded && sh.toks == toks && kindSem t kind == some sh

/-- weaker obligation for rows whose shape has a bare operand hole (`{0}[{1}]`): everything except
guardedness -/
def rowShapeOK (t : Target) (kind : String) (e : Entry) : Bool :=
  match e with
  | .tmpl s =>
    match tokenize s with
    | none => false
    | some toks => let sh := parseShape toks; sh.toks == toks && kindSem t kind == some sh
  | _ => rowOK t kind e

/-- Rows that are not required to satisfy `rowOK`, each for a stated reason (Props/C05.lean proves
what IS true of them and carries the negation witnesses; fav/props/c05.py replays the defects):
  python `sign`   = "(0 if {0} == 0 else math.copysign(1, {0}))" : bare holes — defect with a `select` operand
  numpy  `item`   = "{0}[{1}]"                  : bare hole 0 — correct only for atomic operand text (search)
  cpp    `sign`   = "({0} == 0 ? {0} : std::copysign(1, {0}))" : bare holes — precedence side condition (search) -/
-- (cpp `floor` = "std::floot({0})" was exempt until /repo commit 1e6d6d5 fixed the spelling, python/numpy
-- `remainder` = "({0}) %% ({1})" until 3525211 made it "({0}) % ({1})"; the old rows are kept as regression
-- witnesses in Props/C05.lean `templates_witness`)
def exempt : Target → List String
  | .python => ["sign"]
  | .numpy => ["item"]
  | .cpp => ["sign"]

def badRows (t : Target) (tb : Tables) : List String :=
  (tb.kinds.filter fun r => !rowOK t r.1 r.2).map (·.1)

/-- trusted named-constant table (`constant_to_target`) -/
def constSem (t : Target) : List (String × String) :=
  match t with
  | .python => [("smallest", "sys.float_info.min"), ("largest", "sys.float_info.max"), ("posinf", "math.inf"),
                ("neginf", "-math.inf"), ("pi", "math.pi")]
  | .numpy => [("smallest_subnormal", "numpy.finfo({type}).smallest_subnormal"),
               ("smallest", "numpy.finfo({type}).smallest_normal"), ("eps", "numpy.finfo({type}).eps"),
               ("largest", "numpy.finfo({type}).max"), ("posinf", "{type}(numpy.inf)"),
               ("neginf", "-{type}(numpy.inf)"), ("pi", "{type}(numpy.pi)"), ("nan", "{type}(numpy.nan)")]
  | .cpp => [("smallest", "std::numeric_limits<{type}>::min()"), ("largest", "std::numeric_limits<{type}>::max()"),
             ("posinf", "std::numeric_limits<{type}>::infinity()"),
             ("neginf", "-std::numeric_limits<{type}>::infinity()"), ("pi", "M_PI"), ("nan", "NAN")]

def constOK (t : Target) (name : String) (text : String) : Bool :=
  (constSem t).lookup name == some text

/-- trusted type table (`type_to_target`) -/
def typeSem (t : Target) : List (String × String) :=
  match t with
  | .python => [("integer", "int"), ("float", "float"), ("complex", "complex"), ("boolean", "bool")]
  | .numpy => [("integer8", "numpy.int8"), ("integer16", "numpy.int16"), ("integer32", "numpy.int32"),
               ("integer64", "numpy.int64"), ("integer", "numpy.int64"), ("float16", "numpy.float16"),
               ("float32", "numpy.float32"), ("float64", "numpy.float64"), ("float", "numpy.float64"),
               ("float128", "numpy.float128"), ("complex64", "numpy.complex64"), ("complex128", "numpy.complex128"),
               ("complex", "numpy.complex128"), ("boolean", "numpy.bool_")]
  | .cpp => [("integer8", "int8_t"), ("integer16", "int16_t"), ("integer32", "int32_t"), ("integer64", "int64_t"),
             ("integer", "int64_t"), ("float32", "float"), ("float64", "double"), ("float", "double"),
             ("complex64", "std::complex<float>"), ("complex128", "std::complex<double>"),
             ("complex", "std::complex<double>"), ("boolean", "bool")]

def typeOK (t : Target) (name : String) (text : String) : Bool :=
  (typeSem t).lookup name == some text

/-! ## Part C — concrete labels and rendering -/

structure Lab where
  kind : String
  /-- symbol: its name; constant: `str(value)` or the constant's name; cast: nothing -/
  text : String := ""
  /-- `printer.get_type(expr)`; empty = `None` (un-annotated assignment) -/
  ty : String := ""
  /-- constant / cast: `get_type(like)`; upcast/downcast: `get_type(operand)` -/
  likeTy : String := ""
  /-- `get_type` of the LAST operand (the loop in `tostring` overwrites `typeof_0` every round) -/
  typeof0 : String := ""
  /-- constant whose value is a `str` (named constant) -/
  named : Bool := false
  deriving DecidableEq, Repr, Inhabited

def upTable : List (String × String) :=
  [("numpy.float16", "numpy.float32"), ("numpy.float32", "numpy.float64"), ("numpy.float64", "numpy.float128"),
   ("numpy.complex32", "numpy.complex64"), ("numpy.complex64", "numpy.complex128"),
   ("numpy.complex128", "numpy.complex256"), ("numpy.int8", "numpy.int16"), ("numpy.int16", "numpy.int32"),
   ("numpy.int32", "numpy.int64")]

def downTable : List (String × String) :=
  [("numpy.float32", "numpy.float16"), ("numpy.float64", "numpy.float32"), ("numpy.float128", "numpy.float64"),
   ("numpy.complex64", "numpy.complex32"), ("numpy.complex128", "numpy.complex64"),
   ("numpy.complex256", "numpy.complex128"), ("numpy.int16", "numpy.int8"), ("numpy.int32", "numpy.int16"),
   ("numpy.int64", "numpy.int32")]

/-- `Printer.make_constant(like, value)` of the three targets (`typ = get_type(like)`) -/
def makeConstant (t : Target) (likeTy : String) (s : String) : String :=
  match t with
  | .python => s
  | .numpy =>
    let s := if s == "inf" then "numpy.inf" else if s == "-inf" then "-numpy.inf" else if s == "nan" then "numpy.nan" else s
    likeTy ++ "(" ++ s ++ ")"
  | .cpp =>
    if s == "inf" then "std::numeric_limits<" ++ likeTy ++ ">::infinity()"
    else if s == "-inf" then "(-std::numeric_limits<" ++ likeTy ++ ">::infinity())"
    else s

def okOr (r : Except String String) : String :=
  match r with
  | .ok s => s
  | .error e => "<" ++ e ++ ">"

/-- text of one operation given the texts of its operands (the generic branch of `tostring`) -/
def renderOp (t : Target) (tb : Tables) (l : Lab) (args : List String) : String :=
  if l.kind == "symbol" then l.text
  else if l.kind == "cast" then makeConstant t l.likeTy (args.headD "")
  else if l.kind == "constant" then
    if l.named then
      match tb.consts.lookup l.text with
      | some tv => makeConstant t l.likeTy (okOr (pyFormat tv [] [("type", l.ty)]))
      | none => makeConstant t l.likeTy l.text
    else makeConstant t l.likeTy l.text
  else
    match tb.kinds.lookup l.kind with
    | some (.tmpl s) => okOr (pyFormat s args (if args.isEmpty then [] else [("typeof_0", l.typeof0)]))
    | some (.callable "upcast_func") => (upTable.lookup l.likeTy).getD "<KeyError>" ++ "(" ++ args.headD "" ++ ")"
    | some (.callable "downcast_func") => (downTable.lookup l.likeTy).getD "<KeyError>" ++ "(" ++ args.headD "" ++ ")"
    | some (.callable "list_func") => "[" ++ ", ".intercalate args ++ "]"
    | _ => "<NotImplemented>"

mutual
def renderT (t : Target) (tb : Tables) : TExp Lab → String
  | .var r => r
  | .op l as => renderOp t tb l (renderTs t tb as)
def renderTs (t : Target) (tb : Tables) : List (TExp Lab) → List String
  | [] => []
  | a :: as => renderT t tb a :: renderTs t tb as
end

/-- `make_assignment` / `check_dtype`; `none`: the target emits nothing -/
def renderStmt (t : Target) (tb : Tables) : Stmt Lab → Option String
  | .assign r l e =>
    let v := renderT t tb e
    match t with
    | .cpp => some (l.ty ++ " " ++ r ++ " = " ++ v ++ ";")
    | _ => if l.ty.isEmpty then some (r ++ " = " ++ v) else some (r ++ ": " ++ l.ty ++ " = " ++ v)
  | .check r l =>
    match t with
    | .numpy => some ("assert " ++ r ++ ".dtype == " ++ l.ty ++ ", (" ++ r ++ ".dtype, " ++ l.ty ++ ")")
    | _ => none

/-- an argument of the traced function: index of its symbol node, its name and its target type -/
structure Arg where
  node : Nat
  name : String
  ty : String

structure FnSpec where
  name : String
  args : List Arg
  body : Nat
  /-- `get_type(body)`; python: `type_to_target[str(body.get_type())]` -/
  retTy : String
  /-- numpy, list-valued body, debug>=1: the dtype names `t.__name__` of the items -/
  retItems : Option (List String) := none
  /-- exception raised while the arguments are typed (unknown argument type) -/
  argErr : Option String := none
  /-- exception raised while the result is typed -/
  retErr : Option String := none

structure Out where
  lines : List String
  err : Option String

def indent (n : Nat) (s : String) : String := String.ofList (List.replicate n ' ') ++ s

def argRef (g : Graph Lab) (a : Arg) : Name := ((g[a.node]?).map (·.ref)).getD a.name

/-- `tostring` of an `apply` node: `init_arguments` then the target's `make_apply`.  The emitted lines
are the text handed to `utils.format_python` / `utils.format_cpp`. -/
def printFn (t : Target) (tb : Tables) (g : Graph Lab) (fuel : Nat) (need : NeedRef) (dbg : Nat) (fn : FnSpec) : Out :=
  let refs := fn.args.map (argRef g)
  -- init_arguments: defined_refs.add(a.ref); numpy (force_cast_arguments): `ref = typ(name)`
  let casts : List (Stmt Lab) :=
    match t with
    | .numpy => fn.args.map fun a =>
        Stmt.assign (argRef g a) { kind := "cast" } (.op { kind := "cast", likeTy := a.ty } [.var a.name])
    | _ => []
  let s0 : St Lab := { defined := refs.reverse, stmts := casts, err := none }
  -- python prints the body first, then types the result, then the arguments; numpy / cpp type the
  -- arguments first, print the body and type the result last
  let s0 := match t with
    | .python => s0
    | _ => s0.fail fn.argErr
  let r := pr g need.need dbg fuel s0 fn.body
  let s1 := (r.2.fail fn.retErr).fail fn.argErr
  -- python: `self.tostring(a)` on a defined reference asserts need_ref
  let s1 := match t with
    | .python => if refs.all need.need then s1 else s1.fail (some "AssertionError")
    | _ => s1
  let body := renderT t tb r.1
  let stmts := s1.stmts.filterMap (renderStmt t tb)
  let lines :=
    match t with
    | .python =>
      let sargs := ", ".intercalate (fn.args.map fun a => argRef g a ++ ": " ++ a.ty)
      ["def " ++ fn.name ++ "(" ++ sargs ++ ") -> " ++ fn.retTy ++ ":"] ++ stmts.map (indent 2) ++
        [indent 2 ("return " ++ body)]
    | .numpy =>
      let sargs := ", ".intercalate (fn.args.map fun a => a.name ++ ": " ++ a.ty)
      let dbgLines :=
        if dbg ≥ 1 then
          match fn.retItems with
          | some items =>
            ["assert isinstance(result, list), (type(result))",
             "assert len(result) == " ++ toString items.length ++ ", (len(result),)",
             "print([" ++ ", ".intercalate (items.map fun s => "'" ++ s ++ "'") ++ "])"] ++
            (items.zipIdx.map fun (s, i) =>
              let v := "result[" ++ toString i ++ "]"
              "assert " ++ v ++ ".dtype == numpy." ++ s ++ ", (" ++ v ++ ".dtype, numpy." ++ s ++ ")")
          | none => ["assert result.dtype == " ++ fn.retTy ++ ", (result.dtype,)"]
        else []
      ["def " ++ fn.name ++ "(" ++ sargs ++ ") -> " ++ fn.retTy ++ ":",
       indent 2 "with warnings.catch_warnings(action=\"ignore\"):"] ++ stmts.map (indent 4) ++
        [indent 4 ("result = " ++ body)] ++ dbgLines.map (indent 4) ++ [indent 4 "return result"]
    | .cpp =>
      let sargs := ", ".intercalate (fn.args.map fun a => a.ty ++ " " ++ a.name)
      [fn.retTy ++ " " ++ fn.name ++ "(" ++ sargs ++ ") {"] ++ stmts.map (indent 4) ++
        [indent 4 ("return " ++ body ++ ";"), "}"]
  { lines, err := s1.err }

end FAVerif.Printer
