/-
C09 — vocabulary of the nondeterminism census (shared by the generated census
`FAVerif/Generated/C09Census.lean` and the hand-audited list `FAVerif/Models/C09Audited.lean`).
The categories are those of `fav/props/c09_census.py` (see its module docstring).
-/
namespace FAVerif.Census

/-- Category of a census entry (one per kind of hidden-state / nondeterminism source). -/
inductive Cat
  | idRef | hashRef | setCreate | setIter | setSorted | setReduce | setPop | namespaceIter
  | watchedImport | watchedUse | moduleMutable | mutableDefault | globalStmt | stateMutation
  | cacheDecorator | dunderDef | keyOrder
  deriving DecidableEq, Repr

/-- One census entry; line independent: category, file, enclosing qualified function,
normalised source of the enclosing statement, occurrence index among identical fingerprints. -/
structure Entry where
  cat : Cat
  file : String
  func : String
  stmt : String
  occ : Nat
  deriving DecidableEq, Repr

/-- How the C09 model accounts for an audited entry. -/
inductive Disp
  /-- `Ambient.tmpCounter`: the process-global counter behind anonymous symbol names. -/
  | tmpCounter
  /-- `Ambient.registry`: the process-global definition registry, written only at import time. -/
  | registry
  /-- `Ambient.warnCache`: warn-once cache; influences warnings (stderr) only. -/
  | warnCache
  /-- State owned by one `Context` / `Printer` instance, created afresh for every request. -/
  | perInstance
  /-- A set (hash-ordered container) that is only written and queried for membership / size:
  modelled by `Store.get` under an arbitrary `seedPerm`. -/
  | membershipOnly
  /-- Hash-ordered container consumed through `sorted(...)`: `Consumers.sorted_perm_invariant`. -/
  | sortedConsume
  /-- Hash-ordered container consumed through an order-insensitive reducer (`len`):
  `Consumers.length_perm_invariant`. -/
  | reduceConsume
  /-- `.pop()` of a set whose size was just checked to be 1. -/
  | singletonPop
  /-- Module-level / class-level table that no function mutates after import. -/
  | readOnlyTable
  /-- Mutable default argument that is never mutated. -/
  | readOnlyDefault
  /-- `Type.__hash__`: hashes the structural pair (kind, param); the value is used for dict / set
  lookups only, never ordered, printed or iterated. -/
  | structuralHash
  /-- Structural equality used for dict lookups. -/
  | structuralEq
  /-- Operator overloads on `Expr` that *build* comparison expressions (they return `Expr`, not bool). -/
  | exprBuilder
  /-- Ordering of commutative operands by `Expr.key` (kind + construction counters):
  `KeyOrder.cmp`, theorem `key_order_equivariant`. -/
  | keyOrderStructural
  /-- Iteration over a function frame's locals: CPython yields them in definition order
  (code-object order), modelled as the program-ordered `autoname` operations. -/
  | frameLocals
  /-- Code not on the path `trace → rewrite → tostring` (e.g. `try_compile`). -/
  | notOnTextPath
  /-- External formatter (`clang-format` through a temporary file): the temporary name is not part
  of the output; determinism of the external tool is trusted. -/
  | externalFormatter
  /-- A genuine order-sensitive iteration over a hash-ordered container: NOT accounted for by the
  model; listed in known_findings.json (the check reproduces a text difference across hash seeds).
  No audited entry carries it at present (`FAVerif.Props.C09.no_listed_findings`); it was the disposition of
  `Context.dtype_index.find_dtype_index` until /repo commit 05234cd. -/
  | listedFinding
  deriving DecidableEq, Repr

/-- An audited entry: census entry + disposition. -/
structure Audited where
  entry : Entry
  disp : Disp
  deriving DecidableEq, Repr

/-- Which dispositions are admissible for which category (table of the audit's own consistency:
e.g. an `id(` reference has NO admissible disposition, so the audited list can never contain one). -/
def admissible : Cat → Disp → Bool
  | .idRef, _ => false
  | .hashRef, .structuralHash => true
  | .hashRef, _ => false
  | .setIter, d => d == .listedFinding
  | .setCreate, d => d == .membershipOnly || d == .perInstance || d == .readOnlyTable || d == .sortedConsume || d == .warnCache
  | .setSorted, d => d == .sortedConsume
  | .setReduce, d => d == .reduceConsume
  | .setPop, d => d == .singletonPop
  | .namespaceIter, d => d == .frameLocals || d == .notOnTextPath
  | .watchedImport, d => d == .notOnTextPath || d == .externalFormatter
  | .watchedUse, d => d == .notOnTextPath || d == .externalFormatter
  | .moduleMutable, d => d == .readOnlyTable || d == .registry || d == .warnCache
  | .mutableDefault, d => d == .tmpCounter || d == .readOnlyDefault
  | .globalStmt, _ => false
  | .stateMutation, d => d == .tmpCounter || d == .registry || d == .warnCache
  | .cacheDecorator, _ => false
  | .dunderDef, d => d == .structuralHash || d == .structuralEq || d == .exprBuilder
  | .keyOrder, d => d == .keyOrderStructural

end FAVerif.Census
