/-
Model of `functional_algorithms/utils.py` sample generators on bit-pattern integers (C19).
Hand-written port of the code *as it is written*; tied to the code by the correspondence
check `fav/props/c19.py` through `Drivers/Samples.lean`.

Python ↔ model
  real_samples(size, dtype, include_*, nonnegative, min_value, max_value, unique)
                                            `realSamples c p` (`c : Cfg` is the dtype, `p : Params`)
  `[i // (num - 1) for i in range(0, num * step, step)]` + `start + numpy.array(.., dtype=utype)`
                                            `stepVals`   (unsigned wrap-around included)
  defaulting of min_value / max_value, the `if not include_subnormal:` adjustment
                                            `resolveBounds`
  the three `if user_specified_bounds:` sign cases, the recursive split at zero with
  `neg_num` / `pos_num`                     `realSamplesF` (fuel = recursion depth, 2 suffices)
  `diff_ulp(abs(v), min_pos_value)`         `diffUlp`
  `int(neg_diff * num / max(1, neg_diff + pos_diff))` (Python int true division: correctly
  rounded binary64, then truncation)        `pyTrueDivTrunc`
  the post-flush loop                       `flush`
  `numpy.unique`                            `uniq` (stable sort by value, NaN last; runs of equal
                                            values — including -0.0 == 0.0 and all NaNs — collapse)
  the unbounded branch (`finite_positive`, huge, parts/extra)   `unbounded`
  real_pair_samples / real_triple_samples / complex_samples / complex_pair_samples
                                            `pairSamples`, `tripleSamples`, `complexGrid`, `complexPairGrid`

A floating-point number travels as the `Nat` bit pattern of its dtype (`x.view(utype)`).
Float comparisons (`<`, `<=`, `==`, `!=`) are modelled on patterns with the IEEE rules
(NaN compares false, -0.0 == 0.0).  Python exceptions are the constructors of `Err`.
-/
import FAVerif.FP.Basic

namespace FAVerif.Samples
open FAVerif.FP

inductive Err where
  | zeroDivision   -- `i // (num - 1)` with num == 1
  | assertion      -- `assert r.size == num` with num < 0
  | index          -- `finite_positive[-1] = max_value` on an empty array
  | value          -- `raise ValueError("minimal value ... cannot be greater than maximal value")`
  | fuel           -- model artefact: recursion deeper than the fuel (proved unreachable)
  deriving DecidableEq, Repr

/-- The dtype as the model needs it: sign-bit pattern, pattern of the smallest normal, pattern
of +inf, and the cap `2 ** {float16: 16, float32: 64, float64: 64}[dtype]` applied to `size`. -/
structure Cfg where
  sb : Nat
  mn : Nat
  inf : Nat
  cap : Nat
  deriving DecidableEq, Repr

def Cfg.ofFmt (f : Fmt) (cap : Nat) : Cfg := ⟨f.signBit, f.minNormalBits, f.infBits, cap⟩
def cfg16 : Cfg := Cfg.ofFmt binary16 (2 ^ 16)
def cfg32 : Cfg := Cfg.ofFmt binary32 (2 ^ 64)
def cfg64 : Cfg := Cfg.ofFmt binary64 (2 ^ 64)

/-- well-formedness shared by the three dtypes -/
structure Cfg.WF (c : Cfg) : Prop where
  mn_pos : 2 ≤ c.mn
  mn_inf : c.mn + 2 ≤ c.inf
  inf_sb : 2 * c.inf < 2 * c.sb     -- room for NaN patterns above inf
  nan_sb : c.inf + c.mn / 2 < c.sb
  cap_ge : 6 ≤ c.cap

/-- `2 ** nbits`: unsigned arithmetic of the integer view wraps modulo this -/
def Cfg.modulus (c : Cfg) : Nat := 2 * c.sb
/-- pattern of `dtype(fi.max)` -/
def Cfg.maxFin (c : Cfg) : Nat := c.inf - 1
/-- pattern of `-dtype(0)` -/
def Cfg.negZero (c : Cfg) : Nat := c.sb
/-- pattern of `numpy.nan` converted to dtype (quiet NaN) -/
def Cfg.qnan (c : Cfg) : Nat := c.inf + c.mn / 2

/-- `abs(x)` on patterns -/
def mag (c : Cfg) (b : Nat) : Nat := if b < c.sb then b else b - c.sb
/-- `-x` on patterns -/
def negB (c : Cfg) (b : Nat) : Nat := if b < c.sb then b + c.sb else b - c.sb
def isNaN (c : Cfg) (b : Nat) : Bool := decide (c.inf < mag c b)
def isZero (c : Cfg) (b : Nat) : Bool := mag c b == 0
/-- 0 < |x| < smallest normal -/
def isSubnormal (c : Cfg) (b : Nat) : Bool := decide (0 < mag c b) && decide (mag c b < c.mn)
/-- Sign-magnitude ordinal: strictly monotone in the value on non-NaN patterns, both zeros ↦ 0.
(`= FP.ord` on patterns of the format, see `Lemmas.Samples.key_eq_ord`.) -/
def key (c : Cfg) (b : Nat) : Int := if b < c.sb then (b : Int) else -((b - c.sb : Nat) : Int)

/-- `a < b` on floats -/
def flt (c : Cfg) (a b : Nat) : Bool := !isNaN c a && !isNaN c b && decide (key c a < key c b)
/-- `a <= b` -/
def fle (c : Cfg) (a b : Nat) : Bool := !isNaN c a && !isNaN c b && decide (key c a ≤ key c b)
/-- `a == b` -/
def feq (c : Cfg) (a b : Nat) : Bool := !isNaN c a && !isNaN c b && decide (key c a = key c b)

/-- Sort key of `numpy.sort` / `numpy.unique`: value order, NaN after everything. -/
def skey (c : Cfg) (b : Nat) : Int := if isNaN c b then (2 * c.sb : Nat) else key c b

/-- The stepping comprehension
`start + numpy.array([i // (num - 1) for i in range(0, num * step, step)], dtype=utype)`:
`num ≤ 0` gives an empty range, `num = 1` divides by zero, otherwise element `k` is
`start + (k * step) // (num - 1)` in `modulus`-wrapping unsigned arithmetic. -/
def stepVals (c : Cfg) (start step : Nat) (num : Int) : Except Err (List Nat) :=
  if num ≤ 0 then .ok []
  else if num = 1 then .error .zeroDivision
  else .ok ((List.range num.toNat).map fun k => (start + k * step / (num.toNat - 1)) % c.modulus)

/-- `int(end - start)` on `utype` scalars (wraps when `end < start`) -/
def wrapSub (c : Cfg) (e s : Nat) : Nat := (e + c.modulus - s) % c.modulus

/-- The loop after the sign cases: every nonzero `r[i]` with `abs(r[i]) < fi.smallest_normal`
becomes a zero of the same sign. -/
def flush1 (c : Cfg) (b : Nat) : Nat :=
  if isSubnormal c b then (if b < c.sb then 0 else c.negZero) else b

def flush (c : Cfg) (l : List Nat) : List Nat := l.map (flush1 c)

/-- insertion into a list sorted by `skey` (stable: goes before equal keys) -/
def ins (c : Cfg) (x : Nat) : List Nat → List Nat
  | [] => [x]
  | y :: ys => if skey c x ≤ skey c y then x :: y :: ys else y :: ins c x ys

def isort (c : Cfg) (l : List Nat) : List Nat := l.foldr (ins c) []

/-- keep the first element of every run of equal sort keys -/
def dedupStep (c : Cfg) (x : Nat) (acc : List Nat) : List Nat :=
  match acc with
  | [] => [x]
  | y :: r => if skey c x = skey c y then x :: r else x :: y :: r

def dedup (c : Cfg) (l : List Nat) : List Nat := l.foldr (dedupStep c) []

/-- `numpy.unique(r)` (which of several equal-comparing patterns survives is an artefact of
the sorting algorithm; the correspondence check canonicalises ±0 and NaN payloads). -/
def uniq (c : Cfg) (l : List Nat) : List Nat := dedup c (isort c l)

/-- floor of the binary64 value nearest (ties to even) to `a / b`, for `b > 0`:
Python's `int(a / b)` on non-negative ints. -/
def truncRN53 (a b : Nat) : Nat :=
  if a = 0 then 0 else
  let e0 : Int := (Nat.log2 a : Int) - (Nat.log2 b : Int) - 52
  let scale (e : Int) : Nat × Nat := if 0 ≤ e then (a, b * 2 ^ e.toNat) else (a * 2 ^ (-e).toNat, b)
  let e : Int := if (scale e0).1 / (scale e0).2 < 2 ^ 52 then e0 - 1 else e0
  let n := (scale e).1
  let d := (scale e).2
  let q := n / d
  let r := n % d
  let m := if d < 2 * r ∨ (2 * r = d ∧ q % 2 = 1) then q + 1 else q
  if 0 ≤ e then m * 2 ^ e.toNat else m / 2 ^ (-e).toNat

/-- `int(a / b)` for a Python int `a` of either sign (`int()` truncates toward zero) -/
def pyTrueDivTrunc (a : Int) (b : Nat) : Int :=
  if 0 ≤ a then (truncRN53 a.toNat b : Nat) else -((truncRN53 (-a).toNat b : Nat) : Int)

/-- `diff_ulp(x, y)` for `x = abs(bound)`, `y = min_pos_value` (both non-negative,
`flush_subnormals` at its default False): finite → `ix + iy` when exactly one is zero,
else `|ix - iy|`; otherwise `2 ** nbits`. -/
def diffUlp (c : Cfg) (x y : Nat) : Nat :=
  if x < c.inf ∧ y < c.inf then
    (if (x = 0) ≠ (y = 0) then x + y else if y ≤ x then x - y else y - x)
  else if x = y then 0
  else c.modulus

structure Params where
  size : Int := 10
  includeInfinity : Bool := true
  includeZero : Bool := true
  includeSubnormal : Bool := false
  includeNan : Bool := false
  includeHuge : Bool := true
  nonnegative : Bool := false
  minValue : Option Nat := none
  maxValue : Option Nat := none
  unique : Bool := true
  deriving DecidableEq, Repr

def Params.userBounds (p : Params) : Bool := p.minValue.isSome || p.maxValue.isSome

/-- `min_pos_value` -/
def minPos (c : Cfg) (p : Params) : Nat := if p.includeSubnormal then 1 else c.mn

/-- `num` after `size = min(size, cap)`, halving and the infinity slot -/
def numOf (c : Cfg) (p : Params) : Int :=
  let size : Int := min p.size (c.cap : Int)
  let num : Int := if !p.nonnegative && !p.userBounds then size / 2 else size
  if p.includeInfinity && !p.userBounds then num - 1 else num

/-- `min_value` after defaulting (`-dtype(fi.max)` when only a negative `max_value` is given,
else `min_pos_value`) -/
def defaultMin (c : Cfg) (p : Params) : Nat :=
  match p.minValue with
  | some v => v
  | none => match p.maxValue with
    | some mx => if flt c mx 0 then negB c c.maxFin else minPos c p
    | none => minPos c p

/-- `max_value` after defaulting, given the defaulted `min_value` -/
def defaultMax (c : Cfg) (p : Params) (minV : Nat) : Nat :=
  match p.maxValue with
  | some v => v
  | none => if flt c minV 0 then negB c (minPos c p) else c.maxFin

/-- the `if not include_subnormal:` adjustment of `min_value` -/
def adjustLo (c : Cfg) (p : Params) (v : Nat) : Nat :=
  if !p.includeSubnormal && !feq c v 0 && flt c (mag c v) (minPos c p) then
    (if flt c v 0 then negB c (minPos c p) else 0) else v

/-- the `if not include_subnormal:` adjustment of `max_value` -/
def adjustHi (c : Cfg) (p : Params) (v : Nat) : Nat :=
  if !p.includeSubnormal && !feq c v 0 && flt c (mag c v) (minPos c p) then
    (if flt c v 0 then c.negZero else minPos c p) else v

/-- `(min_value, max_value)` after defaulting and after the `if not include_subnormal:` block -/
def resolveBounds (c : Cfg) (p : Params) : Nat × Nat :=
  (adjustLo c p (defaultMin c p), adjustHi c p (defaultMax c p (defaultMin c p)))

/-- `extra` of the unbounded branch -/
def extras (c : Cfg) (p : Params) : List Nat :=
  (if !p.nonnegative && p.includeInfinity then [negB c c.inf] else []) ++
  (if p.includeZero then [0] else []) ++
  (if p.includeInfinity then [c.inf] else []) ++
  (if p.includeNan then [c.qnan] else [])

/-- `finite_positive` after `finite_positive[-1] = max_value` and the `huge` patch -/
def patchTop (p : Params) (num : Int) (hi : Nat) (fp : List Nat) : List Nat :=
  let fp := fp.set (fp.length - 1) hi
  if p.includeHuge && decide (3 < num) then fp.set (fp.length - 2) (hi - 1) else fp

/-- The branch without user bounds (`min_value is None and max_value is None`). -/
def unbounded (c : Cfg) (p : Params) (lo hi : Nat) : Except Err (List Nat) :=
  match stepVals c lo (wrapSub c hi lo) (numOf c p) with
  | .error e => .error e
  | .ok fp0 =>
    if fp0.isEmpty then .error .index                      -- finite_positive[-1] = max_value
    else
      let fp := patchTop p (numOf c p) hi fp0
      let negs := if !p.nonnegative then fp.reverse.map (negB c) else []
      let r := negs ++ fp ++ extras c p
      .ok (if p.unique then uniq c r else r)

/-- branch `min_value >= dtype(0)`: step upward from `min_value` to `max_value` -/
def sameSignPos (c : Cfg) (lo hi : Nat) (num : Int) : Except Err (List Nat) :=
  match stepVals c lo (wrapSub c hi lo) num with
  | .error e => .error e
  | .ok r => if num < 0 then .error .assertion else .ok r       -- assert r.size == num

/-- branch `max_value <= -dtype(0)`: step (in pattern order) from `max_value` to `min_value`, reversed -/
def sameSignNeg (c : Cfg) (lo hi : Nat) (num : Int) : Except Err (List Nat) :=
  match stepVals c hi (wrapSub c lo hi) num with
  | .error e => .error e
  | .ok r => if num < 0 then .error .assertion else .ok r.reverse

/-- `(neg_num, pos_num)` of the split at zero -/
def apportion (c : Cfg) (p : Params) (lo hi : Nat) : Int × Int :=
  let mp := minPos c p
  let negDiff := diffUlp c (mag c lo) mp
  let posDiff := diffUlp c (mag c hi) mp
  let negNum := pyTrueDivTrunc ((negDiff : Int) * numOf c p) (max 1 (negDiff + posDiff))
  (negNum, numOf c p - negNum - (if p.includeZero then 1 else 0))

/-- arguments of the recursive call producing `neg_part` -/
def negCall (c : Cfg) (p : Params) (lo hi : Nat) : Params :=
  { size := (apportion c p lo hi).1, includeSubnormal := p.includeSubnormal, minValue := some lo,
    maxValue := some (if flt c lo (negB c (minPos c p)) then negB c (minPos c p) else c.negZero) }

/-- arguments of the recursive call producing `pos_part` -/
def posCall (c : Cfg) (p : Params) (lo hi : Nat) : Params :=
  { size := (apportion c p lo hi).2, includeSubnormal := p.includeSubnormal,
    minValue := some (if flt c (minPos c p) hi then minPos c p else 0), maxValue := some hi }

/-- the post-flush and `numpy.unique(r) if unique else r` -/
def finish (c : Cfg) (p : Params) (r : List Nat) : List Nat :=
  let r := if !p.includeSubnormal then flush c r else r
  if p.unique then uniq c r else r

/-- `real_samples`, `fuel` bounding the recursion depth. -/
def realSamplesF (c : Cfg) : Nat → Params → Except Err (List Nat)
  | 0, _ => .error .fuel
  | fuel + 1, p =>
    let lo := (resolveBounds c p).1
    let hi := (resolveBounds c p).2
    if feq c lo hi then .ok [lo]                                  -- min_value == max_value
    else if fle c hi lo then .error .value                        -- min_value >= max_value
    else if !p.userBounds then unbounded c p lo hi
    else if fle c 0 lo then (sameSignPos c lo hi (numOf c p)).map (finish c p)
    else if fle c hi c.negZero then (sameSignNeg c lo hi (numOf c p)).map (finish c p)
    else
      match realSamplesF c fuel (negCall c p lo hi) with
      | .error e => .error e
      | .ok negPart =>
        match realSamplesF c fuel (posCall c p lo hi) with
        | .error e => .error e
        | .ok posPart =>
          .ok (finish c p (if p.includeZero then negPart ++ [0] ++ posPart else negPart ++ posPart))

/-- `real_samples` (the recursion never goes deeper than one level: `Lemmas.Samples.fuel_enough`). -/
def realSamples (c : Cfg) (p : Params) : Except Err (List Nat) := realSamplesF c 2 p

/-! ### product constructors (generic in the element type) -/

/-- `s.reshape(1, -1).repeat(k, 0).flatten()`: the whole list `k` times -/
def tile {α} (k : Nat) (l : List α) : List α := (List.replicate k l).flatten
/-- `s.repeat(k)`: every element `k` times in place -/
def repeatEach {α} (k : Nat) (l : List α) : List α := l.flatMap (List.replicate k)

/-- `real_pair_samples(...)[target_func=None]` on the two 1-D sample lists:
`s1.reshape(1, -1).repeat(s2.size, 0).flatten(), s2.repeat(s1.size)` -/
def pairSamples {α} (s1 s2 : List α) : List α × List α :=
  (tile s2.length s1, repeatEach s1.length s2)

/-- `real_triple_samples(...)[target_func=None]` on the three 1-D lists -/
def tripleSamples {α} (s1 s2 s3 : List α) : List α × List α × List α :=
  (repeatEach (s2.length * s3.length) s1,
   tile s1.length (repeatEach s3.length s2),
   tile (s1.length * s2.length) s3)

/-- `x + 0.0` on patterns, what `real_part + imag_part` does to every component in
`complex_samples` (NaN payloads aside): `-0.0` becomes `+0.0`, everything else is unchanged. -/
def addZero (c : Cfg) (b : Nat) : Nat := if b = c.negZero then 0 else b

/-- `complex_samples` on the two 1-D lists (components as bit patterns):
`real_part = re.reshape((-1, re.size)).repeat(im.size, 0).astype(complex_dtype)` is `im.size` rows, each
`re` with imaginary parts `+0.0`; `imag_part` has in row `j` `re.size` copies of `0.0 + im[j]·1j`;
the result is `real_part + imag_part`, a componentwise float addition in which one operand is `+0.0`
(`addZero`).  Row `j`, column `i` therefore holds `(re[i] + 0.0) + (0.0 + im[j])·1j`. -/
def complexGrid (c : Cfg) (re im : List Nat) : List (List (Nat × Nat)) :=
  let realPart : List (List (Nat × Nat)) := List.replicate im.length (re.map fun x => (x, 0))
  let imagPart : List (List (Nat × Nat)) := im.map fun y => List.replicate re.length (0, y)
  List.zipWith (List.zipWith fun a b => (addZero c a.1, addZero c b.2)) realPart imagPart

/-- `complex_pair_samples` on two grids: `numpy.tile(s1, shape2)` and
`s2.repeat(shape1[0], 0).repeat(shape1[1], 1)` -/
def complexPairGrid {α} (g1 g2 : List (List α)) : List (List α) × List (List α) :=
  let m1 := g1.length
  let n1 := (g1.headD []).length
  let m2 := g2.length
  let n2 := (g2.headD []).length
  (tile m2 (g1.map (tile n2)), repeatEach m1 (g2.map (repeatEach n1)))

end FAVerif.Samples
