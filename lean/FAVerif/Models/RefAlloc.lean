/-
Model of reference-name allocation of /repo (C05, `no_alias`):
  `Context._register_reference`  (context.py 106-149)   →  `register`  (the `_name_k_` suffix loop as written)
  `expr.make_ref`                (expr.py 204-251)      →  `makeRef`   (auto-generated names are NOT registered)
Hand-written; tied to the code by `fav/props/c05.py` through `Drivers/Printer.lean`
(command `H`: registration histories on a real `Context`; command `P`: every printed graph uses
the names computed here).

State: `reg` = `Context._ref_values` (name ↦ expression), `refOf` = `expr.props["ref"]`.
Expressions are identified by a number (the harness uses the position in its node list).
-/
namespace FAVerif.RefAlloc

abbrev RName := String
abbrev ExprId := Nat

structure RState where
  /-- `Context._ref_values`, newest binding first -/
  reg : List (RName × ExprId) := []
  /-- `expr.props["ref"]`, newest binding first -/
  refOf : List (ExprId × RName) := []

/-- what `_register_reference` returns -/
inductive Res where
  | name (n : RName)
  /-- the branches that `return expr` (an `Expr`, not a `str`) -/
  | exprObj
  /-- the suffix loop ran out of fuel (fuel = registry size + 1; by pigeonhole the real loop stops earlier —
  not proved, never observed; the theorems treat this outcome as `no registration`) -/
  | diverge
  deriving DecidableEq, Repr

/-- `f"_{ref_name}_{counter}_"` -/
def sfx (base : RName) (k : Nat) : RName := "_" ++ base ++ "_" ++ toString k ++ "_"

inductive LoopRes where
  | fresh (n : RName)
  | same
  | diverge
  deriving DecidableEq, Repr

/-- the `while other is not None:` loop, entered with `other` bound to another expression -/
def loop (reg : List (RName × ExprId)) (e : ExprId) (base : RName) : Nat → Nat → LoopRes
  | 0, _ => .diverge
  | f + 1, k =>
    match reg.lookup (sfx base k) with
    | none => .fresh (sfx base k)
    | some o => if o = e then .same else loop reg e base f (k + 1)

/-- `self._ref_values[ref_name] = expr; expr.props.update(ref=ref_name)` -/
def commit (s : RState) (e : ExprId) (n : RName) : RState × Res :=
  ({ reg := (n, e) :: s.reg, refOf := (e, n) :: s.refOf }, .name n)

/-- `Context._register_reference(expr, ref_name)` as written. -/
def register (s : RState) (e : ExprId) (origin : String) (name : RName) : RState × Res :=
  match s.reg.lookup name with
  | none => commit s e name
  | some o =>
    if o = e then (s, .name name)
    else
      let base := origin ++ name
      match s.reg.lookup base with
      | none =>
        -- `other is None`: the while loop is not entered and `_{base}_0_` is taken WITHOUT a lookup
        commit s e (sfx base 0)
      | some o2 =>
        if o2 = e then (s, .exprObj)
        else
          match loop s.reg e base (s.reg.length + 1) 0 with
          | .fresh n => commit s e n
          | .same => (s, .exprObj)
          | .diverge => (s, .diverge)

/-- what `make_ref` needs to know about an expression -/
structure RNode where
  kind : String
  /-- `props["reference_name"]` when it is a `str` -/
  refName : Option RName := none
  /-- `props["origin"]` -/
  origin : String := ""
  /-- `expr.operands` (all of them are expressions for the kinds that reach the generic branch) -/
  operands : List Nat := []
  intkey : Nat := 0
  /-- symbol: its name; constant: `toidentifier(value)` -/
  text : String := ""

def resName : Res → Except String RName
  | .name n => .ok n
  | .exprObj => .error "returns-Expr"
  | .diverge => .error "diverge"

def mapRefs (f : RState → Nat → RState × Except String RName) : RState → List Nat → RState × Except String (List RName)
  | s, [] => (s, .ok [])
  | s, a :: as =>
    let r := f s a
    match r.2 with
    | .error e => (r.1, .error e)
    | .ok n =>
      let rs := mapRefs f r.1 as
      match rs.2 with
      | .error e => (rs.1, .error e)
      | .ok ns => (rs.1, .ok (n :: ns))

/-- `make_ref(expr)`; the first `Nat` is recursion fuel -/
def makeRef (nodes : List RNode) : Nat → RState → Nat → RState × Except String RName
  | 0, s, _ => (s, .error "fuel")
  | f + 1, s, e =>
    match nodes[e]? with
    | none => (s, .error "bad-index")
    | some n =>
      match s.refOf.lookup e with
      | some r => (s, .ok r)          -- existing reference name
      | none =>
        match n.refName with
        | some rn =>
          let r := register s e n.origin rn
          (r.1, resName r.2)
        | none =>
          -- auto-generated name: returned without registration (`if ref_name is None: return ref`)
          if n.kind == "symbol" then (s, .ok ("symbol_" ++ n.text))
          else if n.kind == "constant" then
            -- `toidentifier(value)` itself may raise (e.g. ValueError for a Python float NaN): the harness
            -- passes `!<exception>` instead of the identifier
            match n.text.toList with
            | '!' :: exc => (s, .error (String.ofList exc))
            | _ =>
              let r := "constant_" ++ n.text
              if r.length < 50 then (s, .ok r) else (s, .error "AssertionError")
          else if n.kind == "absolute" then
            match n.operands with
            | o :: _ =>
              let r := makeRef nodes f s o
              (r.1, r.2.map ("abs_" ++ ·))
            | [] => (s, .error "IndexError")
          else
            -- `not [0 for o in expr.operands if not isinstance(expr.operands[0].props.get("reference_name"), str)]`
            let allHave :=
              match n.operands with
              | [] => true
              | o :: _ => ((nodes[o]?).bind (·.refName)).isSome
            if allHave then
              let r := mapRefs (makeRef nodes f) s n.operands
              (r.1, r.2.map fun ns => "_".intercalate (n.kind :: ns))
            else (s, .ok (n.kind ++ "_" ++ toString n.intkey))

/-- calls of `.ref` in the order of `compute_need_ref` (pre-order, each expression once) -/
def refsOf (nodes : List RNode) (cargs : Nat → List Nat) :
    Nat → (RState × List (Nat × Except String RName)) → Nat → RState × List (Nat × Except String RName)
  | 0, acc, _ => acc
  | f + 1, acc, e =>
    if (acc.2.lookup e).isSome then acc
    else
      let r := makeRef nodes (e + 1) acc.1 e
      (cargs e).foldl (refsOf nodes cargs f) (r.1, (e, r.2) :: acc.2)

/-! ### registration histories (what `inj` is about) -/

/-- one call of `make_ref` on an expression that has a `reference_name` -/
structure Call where
  e : ExprId
  origin : String
  name : RName
  deriving DecidableEq, Repr

/-- `make_ref`: an expression that already has `props["ref"]` is not registered again -/
def step (s : RState) (c : Call) : RState :=
  match s.refOf.lookup c.e with
  | some _ => s
  | none => (register s c.e c.origin c.name).1

def run (s : RState) (cs : List Call) : RState := cs.foldl step s

/-- every expression's reference name is registered to that expression -/
def Consistent (s : RState) : Prop :=
  ∀ e n, s.refOf.lookup e = some n → s.reg.lookup n = some e

/-- The exact extra hypothesis under which a registration is safe: whenever the branch that skips the
loop is taken, the name it commits is not in the registry. -/
def Guard (s : RState) (c : Call) : Prop :=
  s.refOf.lookup c.e = none →
  ∀ o, s.reg.lookup c.name = some o → o ≠ c.e →
    s.reg.lookup (c.origin ++ c.name) = none → s.reg.lookup (sfx (c.origin ++ c.name) 0) = none

def GuardedRun : RState → List Call → Prop
  | _, [] => True
  | s, c :: cs => Guard s c ∧ GuardedRun (step s c) cs

end FAVerif.RefAlloc
