/-
Model of the polynomial utilities of /repo (C16), hand-ported *as written*:

  functional_algorithms/polynomial.py               namespace FAVerif.Poly
    fast_exponent_by_squaring                          fastPow
    canonical_/horner_/estrin_dac_/balanced_dac_scheme canonicalScheme … balancedScheme
    fast_polynomial (incl. the `len(coeffs) > 500` switch, the `d == 0` branch)
                                                       fastPolyRec, fastPolynomial
    asrpolynomial, rpolynomial                         asrCore, asrpolynomial, rpolynomial
    multiply, add                                      mulCore, multiply, addCore, add
    divmod                                             stripZeros, divLoop, divmodCore, divmod
    derivative                                         deriv1, derivCore, derivative
    taylorat                                           choose (= math.comb), taylorCore, taylorat
  functional_algorithms/floating_point_algorithms.py namespace FAVerif.Poly.Fpa
    horner, fast_exponent_by_squaring, fast_polynomial, rpolynomial, laurent
    (`ctx.constant(v, like)` is the identity on values, `ctx.reciprocal(z)` is `z⁻¹`)

The definitions are generic over a carrier with explicit operations (core classes `Add`,
`Mul`, `Zero`, `One`, `Neg`, `Div`, `Inv`, `NatCast`, `DecidableEq`) so that the Mathlib-free
driver runs them on `Rat` and on formal polynomials, while `Lemmas/Poly.lean` instantiates
them with Mathlib's `CommRing` / `Field`.

Conventions.  Python recursion is rendered with a fuel argument (initial fuel = length of the
list, which suffices whenever the scheme returns 1 ≤ d ≤ N; running out of fuel / empty
coefficient lists correspond to Python's RecursionError / IndexError and return `0` here —
outside the domain of the property).  Python `int` literals 0/1 mixed into arithmetic are
`Zero`/`One` of the carrier; `x * i` with an `int` i is `x * (i : α)` through `NatCast`.
Scalars passed to `multiply`/`add` (`not isinstance(Q, list)`) are singleton lists.
-/
namespace FAVerif.Poly

/-- `scheme(k, N)`: an int-to-int function; the shipped ones return naturals. -/
abbrev Scheme := Nat → Nat → Nat

/-- `canonical_scheme(k, N) = k` -/
def canonicalScheme : Scheme := fun k _ => k
/-- `horner_scheme(k, N) = 1` -/
def hornerScheme : Scheme := fun _ _ => 1
/-- `⌈e^j⌉` for j = 1..20; `int(math.log(k))` = number of thresholds ≤ k (1 ≤ k < e^21). -/
def estrinThresholds : List Nat :=
  [3, 8, 21, 55, 149, 404, 1097, 2981, 8104, 22027, 59875, 162755, 442414, 1202605, 3269018,
   8886111, 24154953, 65659970, 178482301, 485165196]
/-- `estrin_dac_scheme(k, N) = int(math.log(k))` (natural logarithm!), for 1 ≤ k < e^21 -/
def estrinScheme : Scheme := fun k _ => (estrinThresholds.filter (· ≤ k)).length
/-- `balanced_dac_scheme(k, N) = k // 2` -/
def balancedScheme : Scheme := fun k _ => k / 2

section Ring
variable {α : Type} [Add α] [Mul α] [Zero α] [One α]

/-- `fast_exponent_by_squaring(x, n)`; `fuel ≥ n` (more precisely ≥ log₂ n + 1) suffices. -/
def fastPowFuel (x : α) : Nat → Nat → α
  | _, 0 => 1
  | _, 1 => x
  | _, 2 => x * x
  | 0, _ => 1   -- unreachable with fuel = n
  | fuel + 1, n =>
    let r := fastPowFuel x fuel (n / 2)
    let r2 := r * r
    if n % 2 = 0 then r2 else r2 * x

/-- polynomial.py `fast_exponent_by_squaring(x, n)` -/
def fastPow (x : α) (n : Nat) : α := fastPowFuel x n n

/-- The `d == 0` branch of `fast_polynomial`, exactly as written:
`s = coeffs[0]; for i in range(1, N + 1): s += coeffs[i] * fast_exponent_by_squaring(x, i)`
with `N = len(coeffs) - 1`. -/
def d0Branch (x : α) (cs : List α) : α :=
  (List.range' 1 (cs.length - 1)).foldl (fun s i => s + cs.getD i 0 * fastPow x i) (cs.getD 0 0)

/-- polynomial.py `fast_polynomial(x, coeffs, reverse=False, scheme=σ, _N=N0)` after the scheme
defaults were resolved: `σ` is `scheme`, `alt` is `alt_scheme`.  The recursive calls pass
`scheme=scheme` (the resolved one), so inside them `alt_scheme = scheme`. -/
def fastPolyRec : Nat → Scheme → Scheme → Nat → α → List α → α
  | 0, _, _, _, _, _ => 0
  | _ + 1, _, _, _, _, [] => 0
  | _ + 1, _, _, _, _, [c0] => c0
  | _ + 1, _, _, _, x, [c0, c1] => c0 + c1 * x
  | fuel + 1, σ, alt, N0, x, cs =>
    let N := cs.length - 1
    let d := if cs.length > 500 then alt N N0 else σ N N0
    if d = 0 then d0Branch x cs
    else
      let a := fastPolyRec fuel σ σ N0 x (cs.drop d)
      let b := fastPolyRec fuel σ σ N0 x (cs.take d)
      let xd := fastPow x d
      a * xd + b

/-- polynomial.py `fast_polynomial(x, coeffs, reverse, scheme)` (public entry, `_N=None`). -/
def fastPolynomial (x : α) (coeffs : List α) (reverse : Bool := false) (scheme : Option Scheme := none) : α :=
  let cs := if reverse then coeffs.reverse else coeffs
  match scheme with
  | none => fastPolyRec cs.length hornerScheme balancedScheme (cs.length - 1) x cs
  | some s => fastPolyRec cs.length s s (cs.length - 1) x cs

/-- polynomial.py `rpolynomial(x, rcoeffs, reverse)`:
`r = 1; for rc in reversed(rcoeffs[1:]): r = 1 + rc * x * r; return r * rcoeffs[0]` -/
def rpolynomial (x : α) (rcoeffs : List α) (reverse : Bool := false) : α :=
  let rc := if reverse then rcoeffs.reverse else rcoeffs
  let r := (rc.drop 1).reverse.foldl (fun r c => 1 + c * x * r) 1
  r * rc.getD 0 0

/-- polynomial.py `asrpolynomial(coeffs, reverse=False)`:
`[coeffs[0]] + [coeffs[i] / coeffs[i-1] for i in 1..]` -/
def asrCore [Div α] (cs : List α) : List α :=
  cs.getD 0 0 :: (List.range' 1 (cs.length - 1)).map (fun i => cs.getD i 0 / cs.getD (i - 1) 0)

/-- polynomial.py `asrpolynomial(coeffs, reverse)` -/
def asrpolynomial [Div α] (coeffs : List α) (reverse : Bool := false) : List α :=
  if reverse then (asrCore coeffs.reverse).reverse else asrCore coeffs

/-- polynomial.py `multiply(P, Q, reverse=False)`:
`lst = [0] * (len(P) + len(Q) - 1); for i, p: for j, q: lst[i + j] += p * q` -/
def mulCore (P Q : List α) : List α :=
  P.zipIdx.foldl
    (fun lst pi => Q.zipIdx.foldl (fun lst qj => lst.modify (pi.2 + qj.2) (· + pi.1 * qj.1)) lst)
    (List.replicate (P.length + Q.length - 1) 0)

/-- polynomial.py `multiply(P, Q, reverse)` -/
def multiply (P Q : List α) (reverse : Bool := false) : List α :=
  if reverse then (mulCore P.reverse Q.reverse).reverse else mulCore P Q

/-- polynomial.py `add(P, Q, reverse=False)` -/
def addCore (P Q : List α) : List α :=
  List.zipWith (· + ·) P Q ++
    (if P.length < Q.length then Q.drop P.length
     else if P.length > Q.length then P.drop Q.length else [])

/-- polynomial.py `add(P, Q, reverse)` -/
def add (P Q : List α) (reverse : Bool := false) : List α :=
  if reverse then (addCore P.reverse Q.reverse).reverse else addCore P Q

/-- `while P and P[-1] == 0: P.pop()` -/
def stripZeros [DecidableEq α] (l : List α) : List α :=
  (l.reverse.dropWhile (fun c => decide (c = 0))).reverse

/-- The `while len(R) >= len(D)` loop of `divmod` (`ld = D[-1]`, `D` stripped and non-empty):
`k = len(R) - len(D); t = R[-1] / ld; Q[k] = t;
 R = add(R, multiply(-t, [0] * k + D))[:-1]; while R and R[-1] == 0: R.pop()`.
Every iteration shortens `R`, so fuel `len(P) + 1` suffices. -/
def divLoop [DecidableEq α] [Neg α] [Div α] (ld : α) (D : List α) : Nat → List α → List α → List α × List α
  | 0, Q, R => (Q, R)
  | fuel + 1, Q, R =>
    if R.length ≥ D.length then
      let k := R.length - D.length
      let t := R.getLastD 0 / ld
      divLoop ld D fuel (Q.set k t)
        (stripZeros (addCore R (mulCore [-t] (List.replicate k 0 ++ D))).dropLast)
    else (Q, R)

/-- polynomial.py `divmod(P, D, reverse=False)`; `none` = IndexError at `ld = D[-1]`
(division by the zero polynomial). -/
def divmodCore [DecidableEq α] [Neg α] [Div α] (P D : List α) : Option (List α × List α) :=
  let P := stripZeros P
  let D := stripZeros D
  if P.length < D.length then some ([], P)
  else match D.getLast? with
    | none => none
    | some ld =>
      let n := P.length - D.length + 1
      let st := divLoop ld D (P.length + 1) (List.replicate n 0) P
      some (stripZeros st.1, st.2)

/-- polynomial.py `divmod(P, D, reverse)` -/
def divmod [DecidableEq α] [Neg α] [Div α] (P D : List α) (reverse : Bool := false) : Option (List α × List α) :=
  if reverse then (divmodCore P.reverse D.reverse).map (fun qr => (qr.1.reverse, qr.2.reverse))
  else divmodCore P D

/-- `[P[i] * i for i in range(1, len(P))]` -/
def deriv1 [NatCast α] (P : List α) : List α :=
  (List.range' 1 (P.length - 1)).map (fun i => P.getD i 0 * (i : α))

/-- polynomial.py `derivative(P, n, reverse=False)`: `n == 0 → P`,
`n > 1 → derivative(derivative(P, 1), n - 1)`, `n == 1 → deriv1`. -/
def derivCore [NatCast α] (P : List α) : Nat → List α
  | 0 => P
  | 1 => deriv1 P
  | n + 2 => derivCore (deriv1 P) (n + 1)

/-- polynomial.py `derivative(P, n, reverse)` -/
def derivative [NatCast α] (P : List α) (n : Nat := 1) (reverse : Bool := false) : List α :=
  if reverse then (derivCore P.reverse n).reverse else derivCore P n

end Ring

/-- `math.comb(n, k)` computed by the exact multiplicative recurrence
`C(n, i+1) = C(n, i) * (n - i) / (i + 1)` (proved equal to `Nat.choose` in Lemmas). -/
def choose (n k : Nat) : Nat :=
  (List.range k).foldl (fun acc i => acc * (n - i) / (i + 1)) 1

section Ring2
variable {α : Type} [Add α] [Mul α] [Zero α] [One α] [NatCast α]

/-- Inner loop of `taylorat` for one `m`:
`s = 0; z0e = 1; for j in range(m, k + 1): s += P[j] * math.comb(j, m) * z0e; z0e *= z0`. -/
def taylorCoeff (P : List α) (z0 : α) (m : Nat) : α :=
  ((List.range' m (P.length - m)).foldl
    (fun (st : α × α) j => (st.1 + P.getD j 0 * (choose j m : α) * st.2, st.2 * z0)) (0, 1)).1

/-- polynomial.py `taylorat(P, z0, reverse=False, size)` -/
def taylorCore (P : List α) (z0 : α) (size : Option Nat) : List α :=
  (List.range (size.getD P.length)).map (taylorCoeff P z0)

/-- polynomial.py `taylorat(P, z0, reverse, size)`; with `reverse=True` the code does not
forward `size`. -/
def taylorat (P : List α) (z0 : α) (reverse : Bool := false) (size : Option Nat := none) : List α :=
  if reverse then (taylorCore P.reverse z0 none).reverse else taylorCore P z0 size

end Ring2

/-! ### floating_point_algorithms.py (on a context) -/
namespace Fpa
section
variable {α : Type} [Add α] [Mul α] [Zero α] [One α]

/-- fpa `fast_exponent_by_squaring(ctx, x, n)` (`r * r * x` for odd n) -/
def fastPowFuel (x : α) : Nat → Nat → α
  | _, 0 => 1
  | _, 1 => x
  | _, 2 => x * x
  | 0, _ => 1
  | fuel + 1, n =>
    let r := fastPowFuel x fuel (n / 2)
    if n % 2 = 0 then r * r else r * r * x

def fastPow (x : α) (n : Nat) : α := fastPowFuel x n n

/-- fpa `horner(ctx, x, coeffs, reverse=True)`, as written:
`reverse`: `s = coeffs[0]; for i in range(1, N + 1): s = s * x + coeffs[i]`;
otherwise  `s = coeffs[N]; for i in reversed(range(N)): s = s * x + coeffs[i]`. -/
def horner (x : α) (coeffs : List α) (reverse : Bool := true) : α :=
  let N := coeffs.length - 1
  if reverse then
    (List.range' 1 N).foldl (fun s i => s * x + coeffs.getD i 0) (coeffs.getD 0 0)
  else
    (List.range N).reverse.foldl (fun s i => s * x + coeffs.getD i 0) (coeffs.getD N 0)

/-- the `d == 0` branch of fpa `fast_polynomial` (`range(1, N + 1)`) -/
def d0Branch (x : α) (cs : List α) : α :=
  (List.range' 1 (cs.length - 1)).foldl (fun s i => s + cs.getD i 0 * fastPow x i) (cs.getD 0 0)

/-- fpa `fast_polynomial(ctx, x, coeffs, reverse=False, scheme=σ, _N=N0)` (no length switch) -/
def fastPolyRec : Nat → Scheme → Nat → α → List α → α
  | 0, _, _, _, _ => 0
  | _ + 1, _, _, _, [] => 0
  | _ + 1, _, _, _, [c0] => c0
  | _ + 1, _, _, x, [c0, c1] => c0 + c1 * x
  | fuel + 1, σ, N0, x, cs =>
    let N := cs.length - 1
    let d := σ N N0
    if d = 0 then d0Branch x cs
    else
      let a := fastPolyRec fuel σ N0 x (cs.drop d)
      let b := fastPolyRec fuel σ N0 x (cs.take d)
      let xd := fastPow x d
      a * xd + b

/-- fpa `fast_polynomial(ctx, x, coeffs, reverse=True, scheme=None)`; default scheme balanced. -/
def fastPolynomial (x : α) (coeffs : List α) (reverse : Bool := true) (scheme : Option Scheme := none) : α :=
  let cs := if reverse then coeffs.reverse else coeffs
  fastPolyRec cs.length (scheme.getD balancedScheme) (cs.length - 1) x cs

/-- fpa `rpolynomial(ctx, x, rcoeffs, reverse)`: `r = one + r * rc * x` -/
def rpolynomial (x : α) (rcoeffs : List α) (reverse : Bool := false) : α :=
  let rc := if reverse then rcoeffs.reverse else rcoeffs
  let r := (rc.drop 1).reverse.foldl (fun r c => 1 + r * c * x) 1
  r * rc.getD 0 0

/-- fpa `laurent(ctx, z, C, m, reverse, scheme)`, four cases as written. -/
def laurent [Inv α] (z : α) (C : List α) (m : Int) (reverse : Bool := false) (scheme : Option Scheme := none) : α :=
  if m = 0 then fastPolynomial z C reverse scheme
  else if m > 0 then fastPolynomial z C reverse scheme * fastPow z m.toNat
  else if -m < C.length then
    let rz := z⁻¹
    let p := (-m).toNat
    let N := if reverse then (0 : α) :: C.drop (C.length - p) else C.take p ++ [0]
    let P := if reverse then C.take (C.length - p) else C.drop p
    fastPolynomial rz N (!reverse) scheme + fastPolynomial z P reverse scheme
  else
    let rz := z⁻¹
    fastPolynomial rz C (!reverse) scheme * fastPow rz ((-m).toNat - C.length + 1)

end
end Fpa
end FAVerif.Poly
