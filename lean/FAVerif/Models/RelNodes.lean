/-
Intra-run relation checker: decides, for two nodes i, j of ONE program (one run), whether
value(i) = value(j) (`same`) or value(i) = −value(j) (`neg`), NaN matching NaN, under a list of
assumed truth values of condition nodes.  Used for the rotation identities of C03 on combined
programs that compute both sides of an identity (shared subgraphs are shared nodes).
Soundness: Lemmas/RelNodesSound.lean.
-/
import FAVerif.Models.Sym

namespace FAVerif.Sym
open FAVerif.IR FAVerif.FP

def flipD : Desc → Desc
  | .same => .neg
  | .neg => .same
  | _ => .unk

/-- node `i` is a `select` whose condition has an assumed truth value: the branch it equals -/
def selKnown (p : Prog) (asm : List (Nat × Bool)) (i : Nat) : Option Nat :=
  match p.nodes[i]? with
  | some n => (match n.op, n.args with
    | .select, [c, a, b] => (match asm.lookup c with
      | some true => some a
      | some false => some b
      | none => none)
    | _, _ => none)
  | none => none

/-- node `i` is `neg a` -/
def negArg (p : Prog) (i : Nat) : Option Nat :=
  match p.nodes[i]? with
  | some n => (match n.op, n.args with
    | .neg, [a] => some a
    | _, _ => none)
  | none => none

/-- node `i` is a two-argument oracle call -/
def libm2 (p : Prog) (i : Nat) : Option (String × Nat × Nat) :=
  match p.nodes[i]? with
  | some n => (match n.op, n.args with
    | .libm name, [a, b] => some (name, a, b)
    | _, _ => none)
  | none => none

/-- `relN p asm fuel i j` -/
def relN (p : Prog) (asm : List (Nat × Bool)) : Nat → Nat → Nat → Desc
  | 0, _, _ => .unk
  | fuel + 1, i, j =>
    if i = j then .same else
    match selKnown p asm i with
    | some a => relN p asm fuel a j
    | none =>
      match negArg p i with
      | some a => flipD (relN p asm fuel a j)
      | none =>
        match selKnown p asm j with
        | some a => relN p asm fuel i a
        | none =>
          match negArg p j with
          | some a => flipD (relN p asm fuel i a)
          | none =>
            match libm2 p i, libm2 p j with
            | some (n1, a, b), some (n2, c, d) =>
              if n1 = n2 then
                (match relN p asm fuel a c, relN p asm fuel b d with
                 | .same, .same => .same
                 | .neg, .same => if n1 = "atan2" then .neg else .unk
                 | _, _ => .unk)
              else .unk
            | _, _ => .unk

/-- relation between output k1 and output k2 of `p` -/
def relOuts (p : Prog) (asm : List (Nat × Bool)) (k1 k2 : Nat) : Desc :=
  match p.outs[k1]?, p.outs[k2]? with
  | some i, some j => relN p asm (i + j + 2) i j
  | _, _ => .unk

end FAVerif.Sym
