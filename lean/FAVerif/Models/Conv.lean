/-
Model of the number-representation conversions of `functional_algorithms/utils.py` (property C13),
ported *as written*; tied to the code by the correspondence check `fav/props/c13.py` through
`Drivers/Conv.lean` (exhaustive on float16, directed on float32/float64).

Python ↔ model (all in namespace `FAVerif.Conv`)
  numpy.finfo(dtype).{nexp,negep,minexp,maxexp}      `f.ew`, `-f.p`, `minexp f`, `maxexp f`  (checked by the harness)
  f < 0, f >= 0  (numpy comparisons)                 `ltZero`, `geZero`
  float2fraction(f)        (numpy.floating branch)   `float2fraction`      : pattern → Rat (= Python Fraction, normalised)
  fraction2float(dtype,q)  (prec=None)               `fraction2float`
  float2bin(f)             (float16/32/64)           `float2bin`           : pattern → List Char (Python str)
  bin2float(dtype,b)                                 `bin2float`           : List Char → Except Err pattern
  float2mpf(ctx,x)                                   `float2mpf`           : raw mpf tuples `(sign, man, exp, bc)`
  mpf2float(dtype,x)  (defaults only)                `mpf2floatC`          : SUPPORT port, see below
  expansion2mpf / multiword2mpf                      `expansion2mpf`, `multiword2mpf`
  mpf2expansion(dtype,x,length,functional) base=None `mpf2expansion`       (fuel = iterations of `while True`)
  mpf2multiword(dtype,x,p,max_length)                `mpf2multiword`
  mpmath: _normalize / mpf_pos / mpf_neg / mpf_add / mpf_sub / mpf_div / from_int / from_man_exp
                                                     `normalize`, `mpfPos`, `mpfNeg`, `mpfAdd`, `mpfSub`, `mpfDiv`, `fromInt`

What is assumed about mpmath (trusted; exercised by the correspondence check on every run):
  * round-to-nearest-even contexts (`ctx._prec_rounding = [prec, 'n']`);
  * `mpf_add`/`mpf_sub` return the exact sum/difference rounded by `_normalize` at the context
    precision (mpmath's far-apart shortcut is equivalent to that for operands whose mantissas
    fit the precision); `mpf_div` is ported literally;
  * `ctx.ldexp(x, n)` converts a numpy float16/32 through `ctx.mpf(from_npfloat(x))`, i.e. ROUNDS the
    mantissa to the context precision, while a numpy float64 (a Python float) is converted exactly.

`mpf2floatC` is a support port of `mpf2float` (default arguments) needed to *run* fraction2float,
mpf2expansion and mpf2multiword in the driver.  C13 proves about it only that it is the identity on
exactly representable values and maps inf/nan to themselves; its rounding behaviour belongs to C15.
`numpy.ldexp(dtype(man), exp)` is modelled by `roundDyadic` (C `ldexp`: correctly rounded, ties to
even, overflow to inf).

Formats: the model is meant for `2 ≤ f.ew`, `2 ≤ f.p` (Python's `1 << negative` would raise otherwise).
-/
import FAVerif.FP.Basic

namespace FAVerif.Conv
open FAVerif.FP

/-! ## numpy facts as functions of the format -/

/-- `numpy.finfo(dtype).minexp` -/
def minexp (f : Fmt) : Int := 2 - 2 ^ (f.ew - 1)
/-- `numpy.finfo(dtype).maxexp` (also `vectorize_with_mpmath.float_maxexp`) -/
def maxexp (f : Fmt) : Nat := 2 ^ (f.ew - 1)
/-- `vectorize_with_mpmath.float_subexp[fp_format]` (−23, −148, −1073) -/
def subexp (f : Fmt) : Int := f.emin + 1

def isNaNb (f : Fmt) (b : Nat) : Bool := (fields f b).e == f.expMax && (fields f b).m != 0
def isInfb (f : Fmt) (b : Nat) : Bool := (fields f b).e == f.expMax && (fields f b).m == 0
def isZerob (f : Fmt) (b : Nat) : Bool := (fields f b).e == 0 && (fields f b).m == 0
/-- numpy `f < 0` -/
def ltZero (f : Fmt) (b : Nat) : Bool := (fields f b).sign && !isNaNb f b && !isZerob f b
/-- numpy `f >= 0` -/
def geZero (f : Fmt) (b : Nat) : Bool := !isNaNb f b && (!(fields f b).sign || isZerob f b)
/-- numpy unary minus on a float: flips the sign bit -/
def negBits (f : Fmt) (b : Nat) : Nat := if b / f.signBit % 2 = 1 then b - f.signBit else b + f.signBit
/-- `dtype(numpy.nan)` -/
def nanBits (f : Fmt) : Nat := f.infBits + 2 ^ (f.fracBits - 1)

inductive Err where
  | valueError | assertionError | overflowError | indexError | nonTermination
  deriving DecidableEq, Repr

deriving instance DecidableEq for Except

/-! ## float2fraction / fraction2float -/

/-- `utils.float2fraction`, `numpy.floating` branch.  `b` is `f.view(itype)`. -/
def float2fraction (f : Fmt) (b : Nat) : Rat :=
  let esz := f.ew                         -- itype(fi.nexp)
  let fsz := f.p - 1                      -- itype(-ssz - fi.negep)
  let mxu : Int := 2 ^ fsz                -- int(one << fsz)
  let u := b % 2 ^ (esz + fsz)            -- i & umask
  let fpart := u % 2 ^ fsz                -- int(u & fmask)
  let epart := (u / 2 ^ fsz) % 2 ^ esz    -- int((u >> fsz) & emask)
  let s : Int := if ltZero f b then 1 else 0
  let e : Int := epart + minexp f - 1
  let nd : Int × Int :=
    if epart = 0 ∧ fpart = 0 then (0, 1 - 2 * s)
    else if epart = 0 then ((1 - 2 * s) * fpart, mxu * 2 ^ (-e - 1).toNat)
    else if epart = 2 ^ esz - 1 ∧ fpart = 0 then ((1 - 2 * s) * 2 ^ maxexp f, 1)
    else if e < 0 then ((1 - 2 * s) * (mxu + fpart), mxu * 2 ^ (-e).toNat)
    else ((1 - 2 * s) * (mxu + fpart) * 2 ^ e.toNat, mxu)
  Rat.divInt nd.1 nd.2                    -- fractions.Fraction(num, denom)

/-! ## raw mpf tuples and the mpmath kernel -/

structure MpfT where
  sign : Nat
  man : Nat
  exp : Int
  bc : Int
  deriving DecidableEq, Repr

def fzero : MpfT := ⟨0, 0, 0, 0⟩
def finf : MpfT := ⟨0, 0, -456, -2⟩
def fninf : MpfT := ⟨1, 0, -789, -3⟩
def fnan : MpfT := ⟨0, 0, -123, -1⟩

/-- `int.bit_length()` -/
def bitLen : Nat → Nat
  | 0 => 0
  | n + 1 => bitLen ((n + 1) / 2) + 1
decreasing_by omega

/-- the rounding step of `_normalize` for `rnd = round_nearest`, `n > 0`: `man / 2^n` to nearest, ties to even -/
def rshiftRNE (man n : Nat) : Nat :=
  let t := man / 2 ^ (n - 1)
  if t % 2 = 1 ∧ (t / 2 % 2 = 1 ∨ man % 2 ^ (n - 1) ≠ 0) then t / 2 + 1 else t / 2

/-- "Strip trailing bits" of `_normalize` (`man ≠ 0`). -/
def stripTZ : Nat → Int → Nat × Int
  | 0, e => (0, e)
  | m + 1, e => if (m + 1) % 2 = 0 then stripTZ ((m + 1) / 2) (e + 1) else (m + 1, e)
decreasing_by omega

/-- `libmpf._normalize(sign, man, exp, bit_length(man), prec, round_nearest)` -/
def normalize (sign man : Nat) (exp : Int) (prec : Nat) : MpfT :=
  if man = 0 then fzero
  else
    let n := bitLen man - prec
    let me : Nat × Int := if bitLen man > prec then (rshiftRNE man n, exp + n) else (man, exp)
    let me := stripTZ me.1 me.2
    ⟨sign, me.1, me.2, bitLen me.1⟩

def MpfT.isSpecial (t : MpfT) : Bool := t.man == 0 && t.exp != 0
/-- `ctx.isinf(x)` : `x._mpf_ in (finf, fninf)` -/
def MpfT.isInf (t : MpfT) : Bool := t == finf || t == fninf
/-- `ctx.isnan(x)` : `x._mpf_ == fnan` -/
def MpfT.isNaN (t : MpfT) : Bool := t == fnan
def MpfT.isFinite (t : MpfT) : Bool := !(t.isInf || t.isNaN)

/-- `mpf_pos(s, prec, rnd)`; also what `ctx.mpf(<4-tuple>)` does to its argument -/
def mpfPos (prec : Nat) (t : MpfT) : MpfT :=
  if t.isSpecial then t else normalize t.sign t.man t.exp prec

/-- `mpf_neg(s)` (exact) -/
def mpfNeg (t : MpfT) : MpfT :=
  if t.man = 0 then
    (if t.exp ≠ 0 then (if t = finf then fninf else if t = fninf then finf else t) else t)
  else { t with sign := 1 - t.sign }

/-- signed mantissa -/
def MpfT.sman (t : MpfT) : Int := if t.sign = 1 then -(t.man : Int) else t.man

/-- `from_man_exp(man, exp, prec, rnd)` with a signed mantissa -/
def fromManExp (man : Int) (exp : Int) (prec : Nat) : MpfT :=
  normalize (if man < 0 then 1 else 0) man.natAbs exp prec

/-- `mpf_add(s, t, prec, 'n')` -/
def mpfAdd (prec : Nat) (s t : MpfT) : MpfT :=
  if s.man ≠ 0 ∧ t.man ≠ 0 then
    let e := min s.exp t.exp
    let m : Int := s.sman * 2 ^ (s.exp - e).toNat + t.sman * 2 ^ (t.exp - e).toNat
    fromManExp m e prec
  else if s.man = 0 then
    if s.exp ≠ 0 then (if s = t ∨ t.man ≠ 0 ∨ t.exp = 0 then s else fnan)
    else if t.man ≠ 0 then normalize t.sign t.man t.exp prec
    else t
  else if t.exp ≠ 0 then t
  else normalize s.sign s.man s.exp prec

/-- `mpf_sub(s, t, prec, 'n')` = `mpf_add(s, t, prec, rnd, _sub=1)` -/
def mpfSub (prec : Nat) (s t : MpfT) : MpfT :=
  if s.man ≠ 0 ∧ t.man ≠ 0 then mpfAdd prec s { t with sign := 1 - t.sign } else mpfAdd prec s (mpfNeg t)

/-- `from_int(n)` without precision (exact) followed, when `prec ≠ 0`, by rounding -/
def fromInt (n : Int) (prec : Nat) : MpfT :=
  fromManExp n 0 (if prec = 0 then bitLen n.natAbs else prec)

def mpfSign (t : MpfT) : Int :=
  if t.man = 0 then (if t = finf then 1 else if t = fninf then -1 else 0) else (if t.sign = 1 then -1 else 1)

/-- `mpf_div(s, t, prec, 'n')`; `none` = ZeroDivisionError -/
def mpfDiv (prec : Nat) (s t : MpfT) : Option MpfT :=
  if s.man = 0 ∨ t.man = 0 then
    if s = fzero then (if t = fzero then none else if t = fnan then some fnan else some fzero)
    else if t = fzero then none
    else if s.isSpecial ∧ t.isSpecial then some fnan
    else if s = fnan ∨ t = fnan then some fnan
    else if ¬ t.isSpecial then some (if mpfSign s * mpfSign t = 1 then finf else fninf)
    else some fzero
  else
    let sign := if s.sign = t.sign then 0 else 1
    if t.man = 1 then some (normalize sign s.man (s.exp - t.exp) prec)
    else
      let extra0 : Int := (prec : Int) - bitLen s.man + bitLen t.man + 5
      let extra : Nat := if extra0 < 5 then 5 else extra0.toNat
      let quot := (s.man * 2 ^ extra) / t.man
      let rem := (s.man * 2 ^ extra) % t.man
      if rem ≠ 0 then some (normalize sign (quot * 2 + 1) (s.exp - t.exp - (extra + 1 : Nat)) prec)
      else some (normalize sign quot (s.exp - t.exp - extra) prec)

/-! ## numpy side of the mpf conversions -/

/-- C `ldexp` / numpy cast of an integer: the dyadic `(-1)^sign * m * 2^e` rounded to the format,
ties to even, overflow to infinity.  Returns the bit pattern. -/
def roundDyadic (f : Fmt) (sign : Bool) (m : Nat) (e : Int) : Nat :=
  let sgn := if sign then f.signBit else 0
  if m = 0 then sgn
  else
    let et : Int := max (e + bitLen m - f.p) f.emin
    let m' : Nat := if et ≤ e then m * 2 ^ (e - et).toNat else rshiftRNE m (et - e).toNat
    let me : Nat × Int := if m' = 2 ^ f.p then (2 ^ (f.p - 1), et + 1) else (m', et)
    if me.1 < 2 ^ (f.p - 1) then sgn + me.1
    else
      let ef : Int := me.2 - f.emin + 1
      if ef ≥ f.expMax then sgn + f.infBits
      else sgn + ef.toNat * 2 ^ (f.p - 1) + (me.1 - 2 ^ (f.p - 1))

/-- value of a finite pattern as sign, integer significand, exponent (the `fin` case of `decode`) -/
def finParts (f : Fmt) (b : Nat) : Bool × Nat × Int :=
  match decode f b with
  | .fin s m e => (s, m, e)
  | _ => (false, 0, 0)

/-- `numpy.ldexp(x, n)` on a pattern -/
def ldexpBits (f : Fmt) (b : Nat) (n : Int) : Nat :=
  if isNaNb f b || isInfb f b then b
  else let (s, m, e) := finParts f b; roundDyadic f s m (e + n)

/-- `while man > largest: man >>= 1; exp += 1` -/
def shrinkTo (largest : Nat) : Nat → Nat → Int → Nat × Int
  | 0, man, exp => (man, exp)
  | fuel + 1, man, exp => if man > largest then shrinkTo largest fuel (man / 2) (exp + 1) else (man, exp)

/-- `utils.mpf2float(dtype, x)` with default keyword arguments (support port, see header). -/
def mpf2floatC (f : Fmt) (x : MpfT) : Nat :=
  if x.isFinite then
    let t := normalize x.sign x.man x.exp f.p        -- _normalize(*x._mpf_, p, 'n')
    let sgn := if t.sign = 1 then f.signBit else 0
    if t.exp + t.bc < subexp f then sgn              -- -dtype(0) if sign else dtype(0)
    else if t.exp + t.bc > maxexp f then sgn + f.infBits
    else
      -- `while man > largest: man >>= 1; exp += 1`  (largest = int(finfo.max))
      let largest : Nat := (2 ^ f.p - 1) * 2 ^ (f.emaxUlp).toNat
      let (man, exp) := shrinkTo largest (bitLen t.man) t.man t.exp
      let r := ldexpBits f (roundDyadic f false man 0) exp
      let r :=
        if isInfb f r then
          -- for e in range(1, maxexp - exp): m = (man >> e) << e; r_ = ldexp(dtype(m), exp); first finite wins
          match (List.range ((maxexp f : Int) - exp).toNat).drop 1 |>.find? (fun e =>
              !isInfb f (ldexpBits f (roundDyadic f false (man / 2 ^ e * 2 ^ e) 0) exp)) with
          | some e => ldexpBits f (roundDyadic f false (man / 2 ^ e * 2 ^ e) 0) exp
          | none => r
        else r
      if t.sign = 1 then negBits f r else r
  else if x.isNaN then nanBits f
  else (if x.sign = 1 then f.signBit else 0) + f.infBits

/-- `numpy.frexp` exponent and `ctx.ldexp(mantissa, prec)`, `int(.)`, `from_man_exp(man, exp, prec, rnd)` of
`utils.float2mpf(ctx, x)`; `prec` is the precision of `ctx`.  The numpy mantissa reaches mpmath through
`ctx.convert`: exactly for float64, rounded to `prec` bits for float16/float32. -/
def float2mpf (f : Fmt) (prec : Nat) (b : Nat) : Except Err MpfT :=
  if isInfb f b then .ok (if (fields f b).sign then fninf else finf)
  else if isNaNb f b then .ok fnan
  else
    let (s, m, e) := finParts f b
    let L := bitLen m
    let exponent : Int := if m = 0 then 0 else e + L                        -- numpy.frexp(x)[1]
    -- mantissa = ±m·2^(−L); ctx.convert(mantissa)
    let mant : MpfT := normalize (if s then 1 else 0) m (-(L : Int)) (if f = binary64 then bitLen m else prec)
    -- man_ = ctx.ldexp(mantissa, p)  (mpf_shift, exact)
    let man_ : MpfT := if mant.man = 0 then mant else { mant with exp := mant.exp + f.p }
    -- man = int(man_); assert man == man_
    if man_.exp < 0 then .error .assertionError
    else
      let man : Int := man_.sman * 2 ^ man_.exp.toNat
      let exp : Int := exponent - f.p
      let r := fromManExp man exp f.p
      .ok r

/-- `mpmath.mp.mpf(num) / denom` under `workprec(prec)` -/
def mpfOfFraction (prec : Nat) (num : Int) (den : Nat) : Option MpfT :=
  mpfDiv prec (mpfPos prec (fromInt num 0)) (fromInt den 0)

/-- `utils.fraction2float(dtype, q)` with `prec=None` -/
def fraction2float (f : Fmt) (q : Rat) : Nat :=
  if q.num = 0 then (if q.den = 1 then 0 else f.signBit)
  else if q.den = 1 ∧ q.num.natAbs ≥ 2 ^ maxexp f then (if q.num < 0 then f.signBit + f.infBits else f.infBits)
  else
    match mpfOfFraction (f.p + 10) q.num q.den with
    | some t => mpf2floatC f t
    | none => nanBits f   -- unreachable: the denominator of a Fraction is positive

/-! ## float2bin / bin2float (Python `str` = `List Char`) -/

def bitChar (n : Nat) : Char := if n % 2 = 1 then '1' else '0'

/-- `bin(n)[2:]` -/
def binStr : Nat → List Char
  | 0 => ['0']
  | 1 => ['1']
  | n + 2 => binStr ((n + 2) / 2) ++ [bitChar (n + 2)]
decreasing_by omega

/-- `int(s, 2)` for a string of binary digits (no sign); `none` = ValueError -/
def parseBinNat (s : List Char) : Option Nat :=
  if s = [] then none
  else s.foldl (fun acc c => match acc with
    | none => none
    | some a => if c = '0' then some (2 * a) else if c = '1' then some (2 * a + 1) else none) (some 0)

/-- `int(s, 2)` restricted to `[+-]?[01]+` -/
def parseBin (s : List Char) : Option Int :=
  match s with
  | '-' :: r => (parseBinNat r).map (fun n => -(n : Int))
  | '+' :: r => (parseBinNat r).map (fun n => (n : Int))
  | _ => (parseBinNat s).map (fun n => (n : Int))

def decChar (n : Nat) : Char := Char.ofNat (48 + n % 10)

/-- decimal digits of a natural number (`str(n)`) -/
def natDec : Nat → List Char
  | n => if n < 10 then [decChar n] else natDec (n / 10) ++ [decChar n]
decreasing_by omega

/-- `f"{e:+01d}"` -/
def showExp (e : Int) : List Char := (if e < 0 then '-' else '+') :: natDec e.natAbs

def decVal (c : Char) : Option Nat := if '0' ≤ c ∧ c ≤ '9' then some (c.toNat - 48) else none

def parseDecNat (s : List Char) : Option Nat :=
  if s = [] then none
  else s.foldl (fun acc c => match acc, decVal c with
    | some a, some d => some (10 * a + d)
    | _, _ => none) (some 0)

/-- `int(s)` restricted to `[+-]?[0-9]+` -/
def parseInt (s : List Char) : Option Int :=
  match s with
  | '-' :: r => (parseDecNat r).map (fun n => -(n : Int))
  | '+' :: r => (parseDecNat r).map (fun n => (n : Int))
  | _ => (parseDecNat s).map (fun n => (n : Int))

/-- `s.rstrip("0")` -/
def rstrip0 (s : List Char) : List Char := (s.reverse.dropWhile (· == '0')).reverse
/-- `s.lstrip("0")` -/
def lstrip0 (s : List Char) : List Char := s.dropWhile (· == '0')

/-- `utils.float2bin(f)` for float16/32/64 (`integer_part_width = 0`) -/
def float2bin (f : Fmt) (b : Nat) : List Char :=
  let total := f.width
  let d := binStr b                                         -- bin(x.view(uint))[2:]
  if isNaNb f b then "nan".toList
  else
    let sign : List Char := if geZero f b then [] else ['-']
    let digits := if geZero f b then List.replicate (total - d.length) '0' ++ d
                  else d ++ List.replicate (total - d.length) '0'
    let exponentBits := (digits.drop 1).take f.ew
    let sig := rstrip0 (digits.drop (1 + f.ew))
    let eb : Int := 2 ^ (f.ew - 1)
    let e : Int := ((parseBinNat exponentBits).getD 0 : Nat) - eb + 1
    if e = eb then sign ++ "inf".toList
    else if e = -eb + 1 then
      if sig = [] then ['0']
      else
        let sig' := lstrip0 sig
        let e := e - ((sig.length : Int) - sig'.length)
        let sig' := sig'.drop 1
        if sig' ≠ [] then sign ++ '1' :: '.' :: sig' ++ 'p' :: showExp e
        else sign ++ '1' :: 'p' :: showExp e
    else if sig ≠ [] then sign ++ '1' :: '.' :: sig ++ 'p' :: showExp e
    else sign ++ '1' :: 'p' :: showExp e

/-- index of the first `'p'` (`b.index("p")`) -/
def indexP : List Char → Option Nat
  | [] => none
  | c :: r => if c = 'p' then some 0 else (indexP r).map (· + 1)

/-- `utils.bin2float(dtype, b)`; integers of type `uint` are reduced modulo `2^width`,
    `uint(<negative or too large>)` raises OverflowError (numpy ≥ 2). -/
def bin2float (f : Fmt) (b : List Char) : Except Err Nat :=
  if b = ['0'] then .ok 0
  else if b = "-inf".toList then .ok (negBits f f.infBits)
  else if b = "inf".toList then .ok f.infBits
  else if b = "nan".toList then .ok (nanBits f)
  else
    let sw := f.p - 1
    let W : Nat := 2 ^ f.width
    let isneg := b.head? = some '-'
    let b := if isneg then b.drop 1 else b
    match indexP b with
    | none => .error .valueError
    | some i =>
      match parseInt (b.drop (i + 1)) with
      | none => .error .valueError
      | some ex =>
        let e : Int := ex + 2 ^ (f.ew - 1) - 1
        let b := b.take i
        let bits? : Option (List Char) :=
          if b.take 2 = ['1', '.'] then some (b.drop 2) else if b = ['1'] then some ['0'] else none
        match bits? with
        | none => .error .assertionError
        | some bits =>
          let s : Int := (sw : Int) - bits.length
          let bits := if e ≤ 0 then '1' :: bits else bits
          let s := if e ≤ 0 then s - 1 else s
          match parseBin bits with
          | none => .error .valueError
          | some v =>
            if v < 0 ∨ v ≥ (W : Int) then .error .overflowError      -- uint(int(significant_bits, 2))
            else if s < 0 then .error .overflowError          -- uint(s)
            else
              let sig := (v.toNat * 2 ^ s.toNat) % W         -- significant_bits <<= uint(s)
              if e ≤ 0 then
                if (-e).toNat ≥ W then .error .overflowError  -- uint(-e)
                else
                  let ivalue := sig / 2 ^ (-e).toNat         -- significant_bits >> uint(-e)
                  .ok (if isneg then negBits f ivalue else ivalue)
              else if e.toNat * 2 ^ sw ≥ W then .error .overflowError   -- uint(e << significant_width)
              else
                let ivalue := (sig + e.toNat * 2 ^ sw) % W
                .ok (if isneg then negBits f ivalue else ivalue)

/-- What a string produced by `float2bin` denotes:
`[-]1.b₁…b_k p e  ↦  ± (1 b₁ … b_k)₂ · 2^(e−k)`, `"0" ↦ 0`; `none` for inf/nan/anything else. -/
def valueOfBin (b : List Char) : Option Rat :=
  if b = ['0'] then some 0
  else
    let isneg := b.head? = some '-'
    let b := if isneg then b.drop 1 else b
    match indexP b with
    | none => none
    | some i =>
      match parseInt (b.drop (i + 1)) with
      | none => none
      | some ex =>
        let b := b.take i
        let bits? : Option (List Char) :=
          if b.take 2 = ['1', '.'] then some (b.drop 2) else if b = ['1'] then some [] else none
        match bits? with
        | none => none
        | some bits =>
          match parseBinNat ('1' :: bits) with
          | none => none
          | some v => some ((if isneg then -1 else 1) * (v : Rat) * pow2 (ex - bits.length))

/-! ## expansions and multiwords -/

/-- value of a raw mpf tuple (`none` for inf/nan) -/
def MpfT.toRat? (t : MpfT) : Option Rat :=
  if t.isSpecial then none else some ((t.sman : Rat) * pow2 t.exp)

/-- `sum([float2mpf(ctx, e_) for e_ in reversed(e[:-1])], float2mpf(ctx, e[-1]))`, also the loop of `multiword2mpf` -/
def expansion2mpf (f : Fmt) (prec : Nat) (e : List Nat) : Except Err MpfT :=
  match e.reverse with
  | [] => .error .indexError
  | last :: rest =>
    rest.foldl (fun acc w => match acc, float2mpf f prec w with
      | .ok a, .ok t => .ok (mpfAdd prec a t)
      | .error x, _ => .error x
      | _, .error x => .error x) (float2mpf f prec last)

def multiword2mpf (f : Fmt) (prec : Nat) (mw : List Nat) : Except Err MpfT := expansion2mpf f prec mw

/-- the `while True` loop of `utils.mpf2expansion` (`base=None`); `fuel` bounds the number of iterations.
`R` is the rounding step `mpf2float(dtype, ·)`; the model instantiates it with `mpf2floatC f`, the theorems
of C13 hold for every `R` that satisfies `RSpec` (Lemmas/ConvExp.lean). -/
def expansionLoopG (R : MpfT → Nat) (f : Fmt) (prec : Nat) (length : Option Nat) : Nat → MpfT → List Nat → Except Err (List Nat)
  | 0, _, _ => .error .nonTermination
  | fuel + 1, x, lst =>
    let y := R x
    let lst := lst ++ [y]
    if isInfb f y || isZerob f y then .ok lst
    else
      match float2mpf f prec y with
      | .error e => .error e
      | .ok ym =>
        let x := mpfSub prec x ym
        if length = some lst.length then .ok lst
        else expansionLoopG R f prec length fuel x lst

def expansionLoop (f : Fmt) (prec : Nat) (length : Option Nat) : Nat → MpfT → List Nat → Except Err (List Nat) :=
  expansionLoopG (mpf2floatC f) f prec length

/-- `utils.mpf2expansion(dtype, x, length=length, functional=functional)` for a rounding step `R` -/
def mpf2expansionG (R : MpfT → Nat) (f : Fmt) (prec : Nat) (x : MpfT) (length : Option Nat) (functional : Bool) (fuel : Nat) :
    Except Err (List Nat) :=
  let r := if x.isInf || x.isNaN then .ok [R x] else expansionLoopG R f prec length fuel x []
  match r, length with
  | .ok lst, some n => if functional ∧ lst.length < n then .ok (lst ++ List.replicate (n - lst.length) 0) else .ok lst
  | r, _ => r

/-- `utils.mpf2expansion(dtype, x, length=length, functional=functional)` -/
def mpf2expansion (f : Fmt) (prec : Nat) (x : MpfT) (length : Option Nat) (functional : Bool) (fuel : Nat) :
    Except Err (List Nat) :=
  mpf2expansionG (mpf2floatC f) f prec x length functional fuel

structure MwState where
  w : Nat            -- mask = 2^w − 1
  offset : Nat
  result : List Nat
  deriving Repr

/-- the `while True` loop of `utils.mpf2multiword` -/
def multiwordLoop (f : Fmt) (prec : Nat) (x : MpfT) (p : Nat) (maxLength : Option Nat) :
    Nat → MwState → Except Err (List Nat)
  | 0, _ => .error .nonTermination
  | fuel + 1, st =>
    let man1 := x.man / 2 ^ st.offset % 2 ^ st.w              -- (man & (mask << offset)) >> offset
    let d := st.w - bitLen man1                               -- mask.bit_length() - bl1   (assert d >= 0)
    let offset := if d > 0 ∧ st.offset ≥ d then st.offset - d else st.offset
    let man1 := if d > 0 ∧ st.offset ≥ d then x.man / 2 ^ offset % 2 ^ st.w else man1
    let bl1 := bitLen man1
    let exp1 : Int := x.exp + offset
    let x1 := mpf2floatC f (mpfPos prec ⟨x.sign, man1, exp1, bl1⟩)
    if x1 % f.signBit = 0 then .ok st.result                  -- x1 == dtype(0)
    else
      let result := st.result ++ [x1]
      if offset = 0 then .ok result
      else if (maxLength.isSome ∧ (result.length : Int) = (maxLength.getD 0 : Int) - 1) ∨ offset < p then
        multiwordLoop f prec x p maxLength fuel ⟨offset, 0, result⟩
      else multiwordLoop f prec x p maxLength fuel ⟨st.w, offset - bl1, result⟩

/-- `utils.mpf2multiword(dtype, x, p=p, max_length=max_length)`; `prec` = precision of `x.context` -/
def mpf2multiword (f : Fmt) (prec : Nat) (x : MpfT) (p? : Option Nat) (maxLength : Option Nat) :
    Except Err (List Nat) :=
  let tp := f.p
  let p := p?.getD tp
  if p > tp then .error .valueError
  else
    let bl := bitLen x.man
    let st : MwState :=
      if maxLength = some 1 then ⟨min bl p, 0, [mpf2floatC f x]⟩ else ⟨min bl p, bl - p, []⟩
    match multiwordLoop f prec x p maxLength (bl + 2) st with
    | .error e => .error e
    | .ok result =>
      match maxLength with
      | some n => if result.length ≤ n then .ok result else .error .assertionError
      | none => .ok result

end FAVerif.Conv
