/-
Overflow analyser: an abstract interpretation of a traced program in the arithmetic/comparison/select fragment (division
only by non-zero constants, no sqrt/libm) that computes, per node, an exponent k with |value| ≤ 2^k in the run over ℚ
(round-to-nearest with an unbounded exponent range), from exponent bounds on the inputs.  Powers of two are
representable and rounding is monotone, so rounding never raises such a bound.  Soundness: Lemmas/OverflowSound.lean;
with the forward refinement theorem it turns "whenever no float node is non-finite" into a decidable check.

The analysis is condition-aware to the extent the clamp / scaling idioms of the package need: inputs may carry a lower
exponent (2^lo ≤ |x|), values known to be non-negative (absolute values, non-negative constants) are flagged, a comparison
`<` / `>` whose outcome follows from the exponent bounds gets a known truth value, and a `select` on a known condition takes
the bounds of the selected branch only.
-/
import FAVerif.IR.Prog
import FAVerif.FP.Soft

namespace FAVerif.Ovf
open FAVerif.IR FAVerif.FP

/-- per node: upper exponent (|v| ≤ 2^hi); for non-zero constants and bounded-below inputs (and their negations / absolute
values) a lower exponent (2^lo ≤ |v|); `fin`: the value is (plus or minus) a finite constant of the format or a selection
among such (≤ Lmax by itself); `nn`: the value is ≥ 0; `tv`: the known value of a boolean node -/
structure B where
  hi : Int
  lo : Option Int := none
  fin : Bool := false
  nn : Bool := false
  tv : Option Bool := none
  deriving DecidableEq, Repr

def clamp (f : Fmt) (k : Int) : Int := max k f.emin

def argB (st : List B) (args : List Nat) (i : Nat) : Option B :=
  match args[i]? with
  | some j => st[j]?
  | none => none

/-- exponent k with m·2^e ≤ 2^k (m ≠ 0): tight for powers of two -/
def constHi (m : Nat) (e : Int) : Int :=
  if m = 2 ^ (bitLen m - 1) then e + (bitLen m : Int) - 1 else e + bitLen m

/-- `a < b` is known to be false: a ≥ 2^a.lo ≥ 2^b.hi ≥ b -/
def ltFalse (a b : B) : Bool :=
  a.nn && (match a.lo with | some kl => decide (b.hi ≤ kl) | none => false)

/-- `a < b` is known to be true: a ≤ 2^a.hi < 2^b.lo ≤ b -/
def ltTrue (a b : B) : Bool :=
  b.nn && (match b.lo with | some kb => decide (a.hi < kb) | none => false)

def ltTv (a b : B) : Option Bool :=
  if ltFalse a b then some false else if ltTrue a b then some true else none

def stepB (f : Fmt) (E : List Int) (EL : List (Option Int)) (st : List B) (n : Node) : Option B :=
  match n.op with
  | .input => (E[n.imm]?).map fun k => { hi := clamp f k, lo := (EL[n.imm]?).join }
  | .const =>
    match decode f n.imm with
    | .fin s m e => if m = 0 then some { hi := f.emin, fin := true, nn := true }
                    else some { hi := clamp f (constHi m e), lo := some (e + (bitLen m : Int) - 1), fin := true, nn := !s }
    | _ => none
  | .bconst => if n.imm ≤ 1 then some { hi := clamp f 0 } else none
  | .add | .sub =>
    match argB st n.args 0, argB st n.args 1 with
    | some a, some b => some { hi := clamp f (max a.hi b.hi + 1) }
    | _, _ => none
  | .mul =>
    match argB st n.args 0, argB st n.args 1 with
    | some a, some b => some { hi := clamp f (a.hi + b.hi) }
    | _, _ => none
  | .div =>
    match argB st n.args 0, argB st n.args 1 with
    | some a, some b => (b.lo).map fun kl => { hi := clamp f (a.hi - kl) }
    | _, _ => none
  | .neg => (argB st n.args 0).map fun a => { hi := a.hi, lo := a.lo, fin := a.fin }
  | .abs => (argB st n.args 0).map fun a => { hi := a.hi, lo := a.lo, fin := a.fin, nn := true }
  | .pymax | .pymin =>
    match argB st n.args 0, argB st n.args 1 with
    | some a, some b => some { hi := max a.hi b.hi, fin := a.fin && b.fin }
    | _, _ => none
  | .lt =>
    match argB st n.args 0, argB st n.args 1 with
    | some a, some b => some { hi := clamp f 0, tv := ltTv a b }
    | _, _ => none
  | .gt =>
    match argB st n.args 0, argB st n.args 1 with
    | some a, some b => some { hi := clamp f 0, tv := ltTv b a }
    | _, _ => none
  | .le | .ge | .eq | .ne | .and | .or =>
    match argB st n.args 0, argB st n.args 1 with
    | some _, some _ => some { hi := clamp f 0 }
    | _, _ => none
  | .not | .isfinite => (argB st n.args 0).map fun _ => { hi := clamp f 0 }
  | .select =>
    match argB st n.args 0, argB st n.args 1, argB st n.args 2 with
    | some c, some a, some b =>
      match c.tv with
      | some true => some { hi := a.hi, lo := a.lo, fin := a.fin, nn := a.nn }
      | some false => some { hi := b.hi, lo := b.lo, fin := b.fin, nn := b.nn }
      | none => some { hi := max a.hi b.hi, fin := a.fin && b.fin }
    | _, _, _ => none
  | _ => none

def boundsOfL (f : Fmt) (E : List Int) (EL : List (Option Int)) : List Node → List B → Option (List B)
  | [], st => some st
  | n :: ns, st => do
    let b ← stepB f E EL st n
    boundsOfL f E EL ns (st ++ [b])

/-- largest exponent k with 2^k ≤ Lmax:  2^(emaxUlp + p − 1) -/
def kmax (f : Fmt) : Int := f.emaxUlp + (f.p : Int) - 1

/-- the whole check: the analysis succeeds and every node's bound is below the overflow threshold; `EL` gives optional
lower exponents of the inputs -/
def overflowFreeL (f : Fmt) (E : List Int) (EL : List (Option Int)) (nodes : List Node) : Bool :=
  match boundsOfL f E EL nodes [] with
  | some st => st.all fun b => b.fin || decide (b.hi ≤ kmax f)
  | none => false

/-- the check without lower bounds on the inputs -/
def overflowFree (f : Fmt) (E : List Int) (nodes : List Node) : Bool := overflowFreeL f E [] nodes

end FAVerif.Ovf
