/-
Overflow analyser: an abstract interpretation of a traced program in the arithmetic/comparison/select fragment (division
only by non-zero constants, no sqrt/libm) that computes, per node, an exponent k with |value| ≤ 2^k in the run over ℚ
(round-to-nearest with an unbounded exponent range), from exponent bounds on the inputs.  Powers of two are
representable and rounding is monotone, so rounding never raises such a bound.  Soundness: Lemmas/OverflowSound.lean;
with the forward refinement theorem it turns "whenever no float node is non-finite" into a decidable check.
-/
import FAVerif.IR.Prog
import FAVerif.FP.Soft

namespace FAVerif.Ovf
open FAVerif.IR FAVerif.FP

/-- per node: upper exponent (|v| ≤ 2^hi) and, for non-zero constants (and their negations / absolute values), a lower
exponent (2^lo ≤ |v|) -/
structure B where
  hi : Int
  lo : Option Int := none
  fin : Bool := false     -- the value is (plus or minus) a finite constant of the format or a selection among such: ≤ Lmax by itself
  deriving DecidableEq, Repr

def clamp (f : Fmt) (k : Int) : Int := max k f.emin

def argB (st : List B) (args : List Nat) (i : Nat) : Option B :=
  match args[i]? with
  | some j => st[j]?
  | none => none

def stepB (f : Fmt) (E : List Int) (st : List B) (n : Node) : Option B :=
  match n.op with
  | .input => (E[n.imm]?).map fun k => { hi := clamp f k }
  | .const =>
    match decode f n.imm with
    | .fin _ m e => if m = 0 then some { hi := f.emin, fin := true } else some { hi := clamp f (e + bitLen m), lo := some (e + (bitLen m : Int) - 1), fin := true }
    | _ => none
  | .bconst => if n.imm ≤ 1 then some { hi := clamp f 0 } else none
  | .add | .sub =>
    match argB st n.args 0, argB st n.args 1 with
    | some a, some b => some { hi := clamp f (max a.hi b.hi + 1) }
    | _, _ => none
  | .mul =>
    match argB st n.args 0, argB st n.args 1 with
    | some a, some b => some { hi := clamp f (a.hi + b.hi) }
    | _, _ => none
  | .div =>
    match argB st n.args 0, argB st n.args 1 with
    | some a, some b => (b.lo).map fun kl => { hi := clamp f (a.hi - kl) }
    | _, _ => none
  | .neg | .abs => (argB st n.args 0).map fun a => { hi := a.hi, lo := a.lo, fin := a.fin }
  | .pymax | .pymin =>
    match argB st n.args 0, argB st n.args 1 with
    | some a, some b => some { hi := max a.hi b.hi, fin := a.fin && b.fin }
    | _, _ => none
  | .lt | .le | .gt | .ge | .eq | .ne | .and | .or =>
    match argB st n.args 0, argB st n.args 1 with
    | some _, some _ => some { hi := clamp f 0 }
    | _, _ => none
  | .not | .isfinite => (argB st n.args 0).map fun _ => { hi := clamp f 0 }
  | .select =>
    match argB st n.args 0, argB st n.args 1, argB st n.args 2 with
    | some _, some a, some b => some { hi := max a.hi b.hi, fin := a.fin && b.fin }
    | _, _, _ => none
  | _ => none

def boundsOf (f : Fmt) (E : List Int) : List Node → List B → Option (List B)
  | [], st => some st
  | n :: ns, st => do
    let b ← stepB f E st n
    boundsOf f E ns (st ++ [b])

/-- largest exponent k with 2^k ≤ Lmax:  2^(emaxUlp + p − 1) -/
def kmax (f : Fmt) : Int := f.emaxUlp + (f.p : Int) - 1

/-- the whole check: the analysis succeeds and every node's bound is below the overflow threshold -/
def overflowFree (f : Fmt) (E : List Int) (nodes : List Node) : Bool :=
  match boundsOf f E nodes [] with
  | some st => st.all fun b => b.fin || decide (b.hi ≤ kmax f)
  | none => false

end FAVerif.Ovf
