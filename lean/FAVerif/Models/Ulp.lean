/-
Model of `functional_algorithms/utils.py`: `diff_ulp` (scalar and complex branches) and `ulp`,
on bit-pattern integers.  Hand-written port of the code *as written*; tied to the code by the
correspondence check `fav/props/c14.py` through `Drivers/Ulp.lean`.

Python ↔ model  (a numpy float scalar travels as its bit pattern `b < 2^width`)
  x < 0, x > 0  (float comparisons, False for NaN and zeros)      `pyLt0`, `pyGt0`
  sx = -1 if x < 0 else (1 if x > 0 else 0)                       `sgn`
  abs(x)                        (clears the sign bit, also of NaN)  `absBits`
  int(x.view(uint))                                               the pattern itself
  numpy.isfinite / numpy.isnan                                    `FP.isFiniteBits` / `FP.isNaNBits`
  i = int(fi.smallest_normal.view(uint)) - 1;
  ix - i if ix > i else (0 if 2 * ix <= i else 1)                 `flushMap`
  {float64: 2**64, float32: 2**32, float16: 2**16}[dtype]         `sentinel`
  flush_subnormals if ... is not UNSPECIFIED else default_...     `flushArg` (module default is False)
  the `isinstance(x, numpy.floating)` branch of diff_ulp          `diffUlp`
  the `isinstance(x, numpy.complexfloating)` branch               `complexDiffUlp`
  numpy.frexp(x)[1]                                               `frexpExp`
  numpy.finfo(dtype).negep                                        `negep`
  numpy.ldexp(dtype(1), k)     (correctly rounded 2^k)            `ldexpOne`
  x < finfo.smallest_normal                                       `pyLtMinNormal`
  ulp(x)  (current code, with the subnormal branch of d4402b6)    `ulp`, `ulpTail`
  ulp(x)  before d4402b6 (regression witness only, not the code)  `ulpOld`

Not part of the model: the list / ndarray dispatch branches of `diff_ulp` (they only map the
scalar function over elements).

Also defined here (executable, used by the theorems and by the driver, they are *specification*
objects and are compared by the harness with `numpy.nextafter` / `-x`): `negBits`, `nextUp`,
`nextDown`, `nextUpN`, `magVal`, `sval`.
-/
import FAVerif.FP.Basic

namespace FAVerif.Ulp
open FAVerif.FP

/-! ### diff_ulp -/

/-- Python `x < 0` on a numpy float scalar: False for NaN and for both zeros. -/
def pyLt0 (f : Fmt) (b : Nat) : Bool :=
  !(isNaNBits f b) && (fields f b).sign && (magBits f b != 0)

/-- Python `x > 0` on a numpy float scalar. -/
def pyGt0 (f : Fmt) (b : Nat) : Bool :=
  !(isNaNBits f b) && !(fields f b).sign && (magBits f b != 0)

/-- `sx = -1 if x < 0 else (1 if x > 0 else 0)` -/
def sgn (f : Fmt) (b : Nat) : Int :=
  if pyLt0 f b then -1 else if pyGt0 f b then 1 else 0

/-- `abs(x)`: the sign bit is cleared (for every pattern, NaN included). -/
def absBits (f : Fmt) (b : Nat) : Nat := magBits f b

/-- `i = int(fi.smallest_normal.view(uint)) - 1`  (pattern of the largest subnormal) -/
def flushI (f : Fmt) : Nat := f.minNormalBits - 1

/-- `ix - i if ix > i else (0 if 2 * ix <= i else 1)` -/
def flushMap (f : Fmt) (ix : Nat) : Nat :=
  let i := flushI f
  if ix > i then ix - i else (if 2 * ix ≤ i then 0 else 1)

/-- `{numpy.float64: 2**64, numpy.float32: 2**32, numpy.float16: 2**16}[x.dtype.type]` -/
def sentinel (f : Fmt) : Nat := 2 ^ f.width

/-- `utils.default_flush_subnormals` -/
def defaultFlush : Bool := false

/-- `flush_subnormals if flush_subnormals is not UNSPECIFIED else default_flush_subnormals`
    (`none` is UNSPECIFIED). -/
def flushArg (fl : Option Bool) : Bool :=
  match fl with
  | some b => b
  | none => defaultFlush

/-- The `isinstance(x, numpy.floating)` branch of `diff_ulp(x, y, flush_subnormals, equal_nan)`,
    `x` and `y` of the same dtype. -/
def diffUlp (f : Fmt) (fl : Option Bool) (equalNan : Bool) (x y : Nat) : Nat :=
  let sx := sgn f x
  let sy := sgn f y
  let ax := absBits f x
  let ay := absBits f y
  let ix := ax
  let iy := ay
  if isFiniteBits f ax && isFiniteBits f ay then
    let ix := if flushArg fl then flushMap f ix else ix
    let iy := if flushArg fl then flushMap f iy else iy
    if sx ≠ sy then ix + iy
    else if ix ≥ iy then ix - iy else iy - ix
  else if ix = iy ∧ sx = sy then 0
  else if (isNaNBits f ax && isNaNBits f ay) && equalNan then 0
  else sentinel f

/-- The `isinstance(x, numpy.complexfloating)` branch: `max(diff_ulp(re, re'), diff_ulp(im, im'))`. -/
def complexDiffUlp (f : Fmt) (fl : Option Bool) (equalNan : Bool) (x y : Nat × Nat) : Nat :=
  max (diffUlp f fl equalNan x.1 y.1) (diffUlp f fl equalNan x.2 y.2)

/-! ### ulp -/

/-- number of significant bits of `m` -/
def bitLen (m : Nat) : Nat := if m = 0 then 0 else Nat.log2 m + 1

/-- `numpy.frexp(x)[1]` for a finite non-zero `x = m * 2^e` (`m` an integer): `e + bitLen m`,
    so that `x = m' * 2^(frexpExp)` with `1/2 ≤ m' < 1`.  (0 for zero / non-finite, as numpy.) -/
def frexpExp (f : Fmt) (b : Nat) : Int :=
  match decode f b with
  | .fin _ m e => if m = 0 then 0 else e + (bitLen m : Nat)
  | _ => 0

/-- `numpy.finfo(dtype).negep` -/
def negep (f : Fmt) : Int := -(f.p : Int)

/-- `numpy.ldexp(dtype(1), k)`: the pattern of `2^k` correctly rounded (nearest, ties to even):
    below `2^emin` the result underflows to `+0` (`2^(emin-1)` is the tie between `0` and the
    smallest subnormal, and `0` is even); above the largest binade it overflows to `+inf`. -/
def ldexpOne (f : Fmt) (k : Int) : Nat :=
  if k < f.emin then 0
  else if k < f.emin + (f.fracBits : Int) then 2 ^ (k - f.emin).toNat
  else
    let ef : Int := k - f.emin - (f.fracBits : Int) + 1
    if ef ≥ (f.expMax : Int) then f.infBits else ef.toNat * 2 ^ f.fracBits

/-- pattern of `dtype("nan")` -/
def nanBits (f : Fmt) : Nat := f.infBits + 2 ^ (f.fracBits - 1)

/-- `-x` -/
def negBits (f : Fmt) (b : Nat) : Nat :=
  if (fields f b).sign then magBits f b else b + f.signBit

/-- last line of `ulp`, reached for finite `x > 0`:
    `numpy.ldexp(dtype(1), numpy.frexp(x)[1] + numpy.finfo(dtype).negep)` -/
def ulpPos (f : Fmt) (b : Nat) : Nat := ldexpOne f (frexpExp f b + negep f)

/-- Python `x < numpy.finfo(dtype).smallest_normal` on a numpy float scalar (False for NaN; true for
    every negative value, both zeros and the positive subnormals). -/
def pyLtMinNormal (f : Fmt) (b : Nat) : Bool :=
  !(isNaNBits f b) && ((fields f b).sign || decide (magBits f b < f.minNormalBits))

/-- the part of `ulp` after the `x < 0` recursion (reached for finite `x > 0`):
      if x < finfo.smallest_normal: return finfo.smallest_subnormal
      return ldexp(dtype(1), frexp(x)[1] + finfo.negep) -/
def ulpTail (f : Fmt) (b : Nat) : Nat :=
  if pyLtMinNormal f b then 1 else ulpPos f b

/-- `ulp(x)` (as of /repo commit d4402b6):
      if x == 0: return finfo.smallest_subnormal
      if isinf(x): return dtype("inf")
      if isnan(x): return dtype("nan")
      if x < 0: return ulp(-x)
      if x < finfo.smallest_normal: return finfo.smallest_subnormal
      return ldexp(dtype(1), frexp(x)[1] + finfo.negep) -/
def ulp (f : Fmt) (b : Nat) : Nat :=
  let v := decode f b
  if v.isZero then 1
  else if v.isInf then f.infBits
  else if v.isNaN then nanBits f
  else if pyLt0 f b then ulpTail f (negBits f b)
  else ulpTail f b

/-- `ulp(x)` as it was BEFORE the fix d4402b6 (no subnormal branch).  Not a port of the current code:
    kept only for the regression theorems `C14.ulp_old_*` (the defect: `ldexp` underflows to 0 on
    every subnormal). -/
def ulpOld (f : Fmt) (b : Nat) : Nat :=
  let v := decode f b
  if v.isZero then 1
  else if v.isInf then f.infBits
  else if v.isNaN then nanBits f
  else if pyLt0 f b then ulpPos f (negBits f b)
  else ulpPos f b

/-! ### specification objects: neighbours and scaled values -/

/-- `numpy.nextafter(x, +inf)` on non-NaN patterns other than `+inf` (`-0` steps to the smallest
    positive subnormal, the smallest negative subnormal steps to `-0`, `max` steps to `+inf`). -/
def nextUp (f : Fmt) (b : Nat) : Nat :=
  if (fields f b).sign then (if magBits f b = 0 then 1 else b - 1) else b + 1

/-- `numpy.nextafter(x, -inf)` -/
def nextDown (f : Fmt) (b : Nat) : Nat := negBits f (nextUp f (negBits f b))

/-- the `k`-th neighbour above -/
def nextUpN (f : Fmt) : Nat → Nat → Nat
  | 0, b => b
  | k + 1, b => nextUpN f k (nextUp f b)

/-- magnitude of the finite non-negative pattern `a` in units of `2^emin`
    (`value = magVal * 2^emin`) -/
def magVal (f : Fmt) (a : Nat) : Nat :=
  let e := a / 2 ^ f.fracBits
  let m := a % 2 ^ f.fracBits
  if e = 0 then m else (m + 2 ^ f.fracBits) * 2 ^ (e - 1)

/-- signed value of a finite pattern in units of `2^emin` -/
def sval (f : Fmt) (b : Nat) : Int :=
  if (fields f b).sign then -(magVal f (magBits f b) : Int) else (magVal f (magBits f b) : Int)

/-- signed flushed ordinal: the position of `x` on the lattice without subnormals -/
def flushOrd (f : Fmt) (b : Nat) : Int :=
  if (fields f b).sign then -(flushMap f (magBits f b) : Int) else (flushMap f (magBits f b) : Int)

/-- sum of the distances between consecutive members of a chain -/
def chainSum (f : Fmt) (fl : Option Bool) : List Nat → Nat
  | x :: y :: t => diffUlp f fl false x y + chainSum f fl (y :: t)
  | _ => 0

end FAVerif.Ulp
