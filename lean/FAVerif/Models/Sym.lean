/-
Symmetry analyser ("BitExactNorm"): an abstract interpretation of a traced program under a
sign substitution of its inputs (e.g. conjugation y ↦ −y, or z ↦ −z).  For every node it computes
a descriptor saying how the node's value in the transformed run relates to its value in the
original run:  same | neg (negated, NaN matching NaN) | bnot (boolean negated) | unk.
Soundness is proved once (Lemmas/SymSound.lean); the result for a regenerated program is then a
kernel-checked `decide`.
-/
import FAVerif.IR.Prog

namespace FAVerif.Sym
open FAVerif.IR FAVerif.FP

inductive Desc where
  | same | neg | bnot | unk
  deriving DecidableEq, Repr

/-- per-node facts: relation descriptor, "this node is −(node k)", "this node is the constant ±0",
"this node is an input that is negated exactly, non-NaN and non-zero". -/
structure Info where
  d : Desc
  negOf : Option Nat := none
  zero : Bool := false
  nzin : Bool := false
  deriving DecidableEq, Repr

structure Cfg where
  sigma : List Desc      -- how each input is transformed (same / neg)
  nz : List Nat          -- inputs assumed non-NaN and non-zero (and transformed by exact negation)
  deriving Repr

def dOf (infos : List Info) (args : List Nat) (i : Nat) : Desc :=
  match args[i]? with
  | some j => match infos[j]? with
    | some x => x.d
    | none => .unk
  | none => .unk

def infoOf (infos : List Info) (args : List Nat) (i : Nat) : Option Info :=
  match args[i]? with
  | some j => infos[j]?
  | none => none

def mulDesc : Desc → Desc → Desc
  | .same, .same => .same
  | .neg, .same => .neg
  | .same, .neg => .neg
  | .neg, .neg => .same
  | _, _ => .unk

/-- comparison against the constant ±0 of an exactly negated non-zero non-NaN input: flips -/
def cmpFlip (infos : List Info) (args : List Nat) : Bool :=
  match infoOf infos args 0, infoOf infos args 1 with
  | some a, some b => a.nzin && b.zero
  | _, _ => false

def isNegPair (infos : List Info) (args : List Nat) : Bool :=
  match args[1]?, args[2]? with
  | some a, some b =>
    (match infos[a]? with | some x => x.negOf == some b | none => false) ||
    (match infos[b]? with | some x => x.negOf == some a | none => false)
  | _, _ => false

def selDesc (dc da db : Desc) (np : Bool) : Desc :=
  match dc with
  | .same => if da = db ∧ (da = .same ∨ da = .neg) then da else .unk
  | .bnot => if da = .same ∧ db = .same ∧ np then .neg else .unk
  | _ => .unk

def stepInfo (f : Fmt) (cfg : Cfg) (infos : List Info) (n : Node) : Info :=
  let d := dOf infos n.args
  match n.op with
  | .input =>
    { d := (cfg.sigma[n.imm]?).getD .unk, nzin := cfg.nz.contains n.imm && (cfg.sigma[n.imm]?).getD .unk == .neg }
  | .const => { d := .same, zero := n.imm == 0 || n.imm == f.signBit }
  | .bconst => { d := .same }
  | .neg => { d := (match d 0 with | .same => .same | .neg => .neg | _ => .unk), negOf := n.args[0]? }
  | .abs => { d := match d 0 with | .same => .same | .neg => .same | _ => .unk }
  | .sqrt => { d := if d 0 = .same then .same else .unk }
  | .add => { d := if d 0 = .same ∧ d 1 = .same then .same else .unk }
  | .sub => { d := if d 0 = .same ∧ d 1 = .same then .same else .unk }
  | .pymax => { d := if d 0 = .same ∧ d 1 = .same then .same else .unk }
  | .pymin => { d := if d 0 = .same ∧ d 1 = .same then .same else .unk }
  | .and => { d := if d 0 = .same ∧ d 1 = .same then .same else .unk }
  | .or => { d := if d 0 = .same ∧ d 1 = .same then .same else .unk }
  | .mul => { d := mulDesc (d 0) (d 1) }
  | .div => { d := mulDesc (d 0) (d 1) }
  | .lt => { d := if d 0 = .same ∧ d 1 = .same then .same else if cmpFlip infos n.args then .bnot else .unk }
  | .le => { d := if d 0 = .same ∧ d 1 = .same then .same else if cmpFlip infos n.args then .bnot else .unk }
  | .gt => { d := if d 0 = .same ∧ d 1 = .same then .same else if cmpFlip infos n.args then .bnot else .unk }
  | .ge => { d := if d 0 = .same ∧ d 1 = .same then .same else if cmpFlip infos n.args then .bnot else .unk }
  | .eq => { d := if (d 0 = .same ∧ d 1 = .same) ∨ (d 0 = .neg ∧ d 1 = .neg) then .same else .unk }
  | .ne => { d := if (d 0 = .same ∧ d 1 = .same) ∨ (d 0 = .neg ∧ d 1 = .neg) then .same else .unk }
  | .not => { d := match d 0 with | .same => .same | .bnot => .bnot | _ => .unk }
  | .isfinite => { d := match d 0 with | .same => .same | .neg => .same | _ => .unk }
  | .select => { d := selDesc (d 0) (d 1) (d 2) (isNegPair infos n.args) }
  | .libm name =>
    { d := if n.args.all (fun j => match infos[j]? with | some x => x.d == .same | none => false) then .same
           else if name = "atan2" ∧ n.args.length = 2 ∧ d 0 = .neg ∧ d 1 = .same then .neg
           else .unk }
  | _ => { d := .unk }

def analyse (f : Fmt) (cfg : Cfg) : List Node → List Info → List Info
  | [], infos => infos
  | n :: ns, infos => analyse f cfg ns (infos ++ [stepInfo f cfg infos n])

/-- descriptors of the outputs of a program under `cfg` -/
def outDescs (p : Prog) (cfg : Cfg) : List Desc :=
  let infos := analyse p.fmt cfg p.nodes []
  p.outs.map fun k => match infos[k]? with | some x => x.d | none => .unk

end FAVerif.Sym
