/-
Symmetry analyser ("BitExactNorm"): an abstract interpretation of a traced program under a
sign substitution of its inputs (e.g. conjugation y ↦ −y, or z ↦ −z).  For every node it computes
a descriptor saying how the node's value in the transformed run relates to its value in the
original run:  same | neg (negated, NaN matching NaN) | bnot (boolean negated) | unk.
Soundness is proved once (Lemmas/SymSound.lean); the result for a regenerated program is then a
kernel-checked `decide`.
-/
import FAVerif.IR.Prog

namespace FAVerif.Sym
open FAVerif.IR FAVerif.FP

inductive Desc where
  | same | neg | bnot | unk
  deriving DecidableEq, Repr

/-- per-node facts: relation descriptor; "this node is −(node k)"; "this node is the constant ±0";
"this node is an input that is negated exactly, non-NaN and non-zero"; "this node is the constant c";
"the truth value of this node is b in both runs"; "this node is eq(node a, c) for a non-NaN constant c";
"this node is add/sub(node a, node b)". -/
structure Info where
  d : Desc
  negOf : Option Nat := none
  zero : Bool := false
  nzin : Bool := false
  cst : Option Nat := none
  kb : Option Bool := none
  eqc : Option (Nat × Nat) := none
  addsub : Option (Bool × Nat × Nat) := none
  deriving DecidableEq, Repr

structure Cfg where
  sigma : List Desc      -- how each input is transformed (same / neg)
  nz : List Nat          -- inputs assumed non-NaN and non-zero (and transformed by exact negation)
  deriving Repr

def dIdx (infos : List Info) (j : Nat) : Desc :=
  match infos[j]? with
  | some x => x.d
  | none => .unk

def dOf (infos : List Info) (args : List Nat) (i : Nat) : Desc :=
  match args[i]? with
  | some j => match infos[j]? with
    | some x => x.d
    | none => .unk
  | none => .unk

def infoOf (infos : List Info) (args : List Nat) (i : Nat) : Option Info :=
  match args[i]? with
  | some j => infos[j]?
  | none => none

def mulDesc : Desc → Desc → Desc
  | .same, .same => .same
  | .neg, .same => .neg
  | .same, .neg => .neg
  | .neg, .neg => .same
  | _, _ => .unk

/-- comparison against the constant ±0 of an exactly negated non-zero non-NaN input: flips -/
def cmpFlip (infos : List Info) (args : List Nat) : Bool :=
  match infoOf infos args 0, infoOf infos args 1 with
  | some a, some b => (a.nzin && b.zero) || (b.nzin && a.zero)
  | _, _ => false

/-- first operand negated (NaN matching NaN), second the constant ±0: equality tests are unchanged -/
def eqNegZero (infos : List Info) (args : List Nat) : Bool :=
  match infoOf infos args 0, infoOf infos args 1 with
  | some a, some b => (a.d == .neg && b.zero) || (b.d == .neg && a.zero)
  | _, _ => false

def isNegPair (f : Fmt) (infos : List Info) (args : List Nat) : Bool :=
  match args[1]?, args[2]? with
  | some a, some b =>
    (match infos[a]? with | some x => x.negOf == some b | none => false) ||
    (match infos[b]? with | some x => x.negOf == some a | none => false) ||
    (match infos[a]?, infos[b]? with
      | some x, some y => (match x.cst, y.cst with
          | some c1, some c2 => c2 == FP.neg f c1
          | _, _ => false)
      | _, _ => false)
  | _, _ => false

/-- `(c ⊕ x)·(c ⊖ x)` with `c` unchanged and `x` negated: the two factors swap.  The sum may be
written `c ⊕ x` or `x ⊕ c`. -/
def swapPair (infos : List Info) (args : List Nat) : Bool :=
  match infoOf infos args 0, infoOf infos args 1 with
  | some x, some y => (match x.addsub, y.addsub with
      | some (t1, a1, b1), some (t2, a2, b2) =>
        -- normalise so that (sa, sb) are the operands of the difference
        let sa := if t1 then a2 else a1
        let sb := if t1 then b2 else b1
        let pa := if t1 then a1 else a2
        let pb := if t1 then b1 else b2
        t1 != t2 && ((pa == sa && pb == sb) || (pa == sb && pb == sa)) && dIdx infos sa == .same && dIdx infos sb == .neg
      | _, _ => false)
  | _, _ => false

/-- `a == c || a == −c` with `a` negated -/
def orSwap (f : Fmt) (infos : List Info) (args : List Nat) : Bool :=
  match infoOf infos args 0, infoOf infos args 1 with
  | some x, some y => (match x.eqc, y.eqc with
      | some (a1, c1), some (a2, c2) => a1 == a2 && c2 == FP.neg f c1 && dIdx infos a1 == .neg
      | _, _ => false)
  | _, _ => false

def selDesc (dc da db : Desc) (np : Bool) : Desc :=
  match dc with
  | .same => if da = db ∧ (da = .same ∨ da = .neg) then da else .unk
  | .bnot => if da = .same ∧ db = .same ∧ np then .neg else .unk
  | _ => .unk

def kbOf (infos : List Info) (args : List Nat) (i : Nat) : Option Bool :=
  match infoOf infos args i with
  | some x => x.kb
  | none => none

def cstOf (infos : List Info) (args : List Nat) (i : Nat) : Option Nat :=
  match infoOf infos args i with
  | some x => x.cst
  | none => none

def nzinOf (infos : List Info) (args : List Nat) (i : Nat) : Bool :=
  match infoOf infos args i with
  | some x => x.nzin
  | none => false

def argPair (args : List Nat) : Option (Nat × Nat) :=
  match args[0]?, args[1]? with
  | some a, some b => some (a, b)
  | _, _ => none

def stepInfo (f : Fmt) (cfg : Cfg) (infos : List Info) (n : Node) : Info :=
  let d := dOf infos n.args
  match n.op with
  | .input =>
    { d := (cfg.sigma[n.imm]?).getD .unk, nzin := cfg.nz.contains n.imm && (cfg.sigma[n.imm]?).getD .unk == .neg }
  | .const => { d := .same, zero := n.imm == 0 || n.imm == f.signBit, cst := some n.imm }
  | .bconst => { d := .same }
  | .neg => { d := (match d 0 with | .same => .same | .neg => .neg | _ => .unk), negOf := n.args[0]?, nzin := nzinOf infos n.args 0 }
  | .abs => { d := match d 0 with | .same => .same | .neg => .same | _ => .unk }
  | .sqrt => { d := if d 0 = .same then .same else .unk }
  | .add =>
    { d := if d 0 = .same ∧ d 1 = .same then .same
           else if n.args[0]? = n.args[1]? ∧ d 0 = .neg then .neg else .unk,
      addsub := (argPair n.args).map fun (a, b) => (true, a, b) }
  | .sub =>
    { d := if d 0 = .same ∧ d 1 = .same then .same else .unk,
      addsub := (argPair n.args).map fun (a, b) => (false, a, b) }
  | .pymax => { d := if d 0 = .same ∧ d 1 = .same then .same else .unk }
  | .pymin => { d := if d 0 = .same ∧ d 1 = .same then .same else .unk }
  | .and => { d := if d 0 = .same ∧ d 1 = .same then .same else .unk }
  | .or => { d := if d 0 = .same ∧ d 1 = .same then .same else if orSwap f infos n.args then .same else .unk }
  | .mul => { d := if swapPair infos n.args then .same else mulDesc (d 0) (d 1) }
  | .div => { d := mulDesc (d 0) (d 1) }
  | .lt => { d := if d 0 = .same ∧ d 1 = .same then .same else if cmpFlip infos n.args then .bnot else .unk }
  | .le => { d := if d 0 = .same ∧ d 1 = .same then .same else if cmpFlip infos n.args then .bnot else .unk }
  | .gt => { d := if d 0 = .same ∧ d 1 = .same then .same else if cmpFlip infos n.args then .bnot else .unk }
  | .ge => { d := if d 0 = .same ∧ d 1 = .same then .same else if cmpFlip infos n.args then .bnot else .unk }
  | .eq =>
    { d := if (d 0 = .same ∧ d 1 = .same) ∨ (d 0 = .neg ∧ d 1 = .neg) then .same
           else if eqNegZero infos n.args then .same else .unk,
      kb := if cmpFlip infos n.args then some false else none,
      eqc := match n.args[0]?, cstOf infos n.args 1 with
        | some a, some c => if isNaNBits f c then none else some (a, c)
        | _, _ => (match n.args[1]?, cstOf infos n.args 0 with
          | some a, some c => if isNaNBits f c then none else some (a, c)
          | _, _ => none) }
  | .ne =>
    { d := if (d 0 = .same ∧ d 1 = .same) ∨ (d 0 = .neg ∧ d 1 = .neg) then .same
           else if eqNegZero infos n.args then .same else .unk,
      kb := if cmpFlip infos n.args then some true else none }
  | .not => { d := match d 0 with | .same => .same | .bnot => .bnot | _ => .unk }
  | .isfinite => { d := match d 0 with | .same => .same | .neg => .same | _ => .unk }
  | .select =>
    { d := match kbOf infos n.args 0 with
        | some true => (match d 1 with | .same => .same | .neg => .neg | _ => .unk)
        | some false => (match d 2 with | .same => .same | .neg => .neg | _ => .unk)
        | none => selDesc (d 0) (d 1) (d 2) (isNegPair f infos n.args) }
  | .libm name =>
    { d := if n.args.all (fun j => match infos[j]? with | some x => x.d == .same | none => false) then .same
           else if name = "atan2" ∧ n.args.length = 2 ∧ d 0 = .neg ∧ d 1 = .same then .neg
           else if name = "cos" ∧ n.args.length = 1 ∧ d 0 = .neg then .same
           else if name = "sin" ∧ n.args.length = 1 ∧ d 0 = .neg then .neg
           else if name = "sign" ∧ n.args.length = 1 ∧ nzinOf infos n.args 0 = true then .neg
           else .unk }
  | _ => { d := .unk }

def analyse (f : Fmt) (cfg : Cfg) : List Node → List Info → List Info
  | [], infos => infos
  | n :: ns, infos => analyse f cfg ns (infos ++ [stepInfo f cfg infos n])

/-- descriptors of the outputs of a program under `cfg` -/
def outDescs (p : Prog) (cfg : Cfg) : List Desc :=
  let infos := analyse p.fmt cfg p.nodes []
  p.outs.map fun k => match infos[k]? with | some x => x.d | none => .unk

end FAVerif.Sym
