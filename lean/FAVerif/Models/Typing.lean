/-
Static typing of functional_algorithms expression graphs (C08).  Mathlib-free.

Ports, AS WRITTEN (not as they should be):
  * `typesystem.Type`            -> `Ty` (scalar kinds only: boolean / integer / float / complex, `bits : Option Nat`,
                                    `none` = the unsized types "float", "integer", "complex", "boolean")
  * `Type._initialize` assertion -> `validBits`, `Ty.mk?`
  * `Type.max`  (141-177)        -> `Ty.max`
  * `Type.complex_part` (180-183)-> `Ty.complexPart`
  * `Expr.get_type` (1150-1238)  -> `nodeTy`   (one `match` arm per Python `elif`; an exception = `none`)
  * `Expr.is_complex` (1070-1147)-> `nodeIsComplex`
  * `PrinterBase.get_type` + `type_to_target`  -> the `canon` field of `Tables` (regenerated, see Generated/C08Tables)
  * graph level: `staticAll` / `staticTy` (get_type at every node of a DAG), `dynAll` / `dynTy` (the dtype NumPy produces
    at every node, defined from an ABSTRACT per-node result-dtype oracle `NP`).

All definitions are written with `match` on enumerations (not list membership) so that the kernel can evaluate
them on the thousands of regenerated table rows in seconds.
-/
namespace FAVerif.Typing

/-! ## Types -/

inductive TKind | boolean | integer | float | complex
  deriving DecidableEq, Repr, Inhabited

def TKind.beq : TKind → TKind → Bool
  | .boolean, .boolean | .integer, .integer | .float, .float | .complex, .complex => true
  | _, _ => false

structure Ty where
  kind : TKind
  bits : Option Nat
  deriving DecidableEq, Repr, Inhabited

namespace Ty
def b : Ty := ⟨.boolean, none⟩
def i : Ty := ⟨.integer, none⟩
def i8 : Ty := ⟨.integer, some 8⟩
def i16 : Ty := ⟨.integer, some 16⟩
def i32 : Ty := ⟨.integer, some 32⟩
def i64 : Ty := ⟨.integer, some 64⟩
def f : Ty := ⟨.float, none⟩
def f16 : Ty := ⟨.float, some 16⟩
def f32 : Ty := ⟨.float, some 32⟩
def f64 : Ty := ⟨.float, some 64⟩
def f128 : Ty := ⟨.float, some 128⟩
def c : Ty := ⟨.complex, none⟩
def c64 : Ty := ⟨.complex, some 64⟩
def c128 : Ty := ⟨.complex, some 128⟩
def c256 : Ty := ⟨.complex, some 256⟩
/-- A run-time result that is not a NumPy value of one of the dtypes above (Python scalar, object, …). -/
def alien : Ty := ⟨.boolean, some 0⟩
end Ty

def obeq : Option Nat → Option Nat → Bool
  | none, none => true
  | some x, some y => x == y
  | _, _ => false

/-- fast structural equality test (`Ty.beq_iff` in Lemmas) -/
def Ty.beq (a b : Ty) : Bool := a.kind.beq b.kind && obeq a.bits b.bits

def tysBeq : List Ty → List Ty → Bool
  | [], [] => true
  | x :: xs, y :: ys => x.beq y && tysBeq xs ys
  | _, _ => false

/-- all entries defined -/
def allSome {α : Type} : List (Option α) → Option (List α)
  | [] => some []
  | none :: _ => none
  | some x :: xs => (allSome xs).map (x :: ·)

/-- `Type._initialize`: `assert param in {1, 8, 16, 32, 64, 128, 256, 512, None}`. -/
def validBits : Option Nat → Bool
  | none => true
  | some n => n == 1 || n == 8 || n == 16 || n == 32 || n == 64 || n == 128 || n == 256 || n == 512

/-- `Type(context, kind, bits)`: `none` when the constructor assertion fails. -/
def Ty.mk? (k : TKind) (bits : Option Nat) : Option Ty :=
  if validBits bits then some ⟨k, bits⟩ else none

def Ty.valid (t : Ty) : Bool := validBits t.bits

/-- `max(list or [None])` on the bit widths collected by `Type.max`. -/
def maxBits : List Nat → Option Nat
  | [] => none
  | x :: xs => some (xs.foldl max x)

/-- `[t.bits for t in [self] if t.kind == kind and t.bits is not None]` -/
def Ty.cand (kind : TKind) (t : Ty) : List Nat :=
  if t.kind.beq kind then (match t.bits with | some n => [n] | none => []) else []

/-- `Type.max` (typesystem.py 141-177), scalar kinds.  The `if … in {self.kind, other.kind}` cascade picks the
larger kind; the width is the maximum over the operands OF THAT KIND whose width is not None. -/
def Ty.max (a b : Ty) : Ty :=
  if a.beq b then a else
  let kind : TKind :=
    if a.kind.beq .complex || b.kind.beq .complex then .complex
    else if a.kind.beq .float || b.kind.beq .float then .float
    else if a.kind.beq .integer || b.kind.beq .integer then .integer
    else .boolean
  ⟨kind, maxBits (a.cand kind ++ b.cand kind)⟩

/-- `Type.complex_part`: `assert self.kind == "complex"`; `bits // 2`. -/
def Ty.complexPart (t : Ty) : Option Ty :=
  if t.kind.beq .complex then Ty.mk? .float (t.bits.map (· / 2)) else none

/-- The `complex` branch of `get_type`: `Type(context, "complex", t.bits * 2)`. -/
def Ty.complexify (t : Ty) : Option Ty := Ty.mk? .complex (t.bits.map (· * 2))

def Ty.isComplex (t : Ty) : Bool := t.kind.beq .complex

/-! ## Expression kinds (expr.py `known_expression_kinds`, operations only) -/

inductive Kind
  | select | item
  | negative | positive | add | subtract | multiply | divide | minimum | maximum
  | asin | acos | atan | asinh | acosh | atanh | asin_acos_kernel | atan2
  | sin | cos | tan | sinh | cosh | tanh
  | log | log1p | log2 | log10 | exp | expm1 | sqrt | square | pow | exp2
  | complex | conjugate | real | imag | absolute | hypot
  | lt | gt | le | ge | eq | ne
  | logical_and | logical_or | logical_xor | logical_not
  | bitwise_invert | bitwise_and | bitwise_or | bitwise_xor | bitwise_left_shift | bitwise_right_shift
  | ceil | floor | floor_divide | remainder | round | truncate
  | copysign | sign | nextafter | upcast | downcast
  | is_finite | is_inf | is_posinf | is_neginf | is_nan | is_negzero
  deriving DecidableEq, Repr, Inhabited

def Kind.beq (a b : Kind) : Bool := a.ctorIdx == b.ctorIdx

/-- `item` branch of get_type on the element types of the container: one kind and one width -> that type;
one kind, several widths -> the unsized type of that kind; several kinds -> `assert 0`. -/
def itemTy : List Ty → Option Ty
  | [] => none
  | t :: ts =>
    if ts.all (fun u => u.kind.beq t.kind) then
      (if ts.all (fun u => obeq u.bits t.bits) then some t else some ⟨t.kind, none⟩)
    else none

/-- `Expr.get_type` for an operation node, as a function of the kind and of the operands' types
(`none` = the operand's own `get_type()` raised).  `none` result = `get_type` raises
(NotImplementedError for kinds without a branch, AssertionError from the `Type` constructor / `complex_part`).
An operand's type is demanded exactly where the Python code calls `operand.get_type()`. -/
def nodeTy (k : Kind) (ts : List (Option Ty)) : Option Ty :=
  let arg (n : Nat) : Option Ty := (ts.getD n none)
  match k with
  -- kind in {"lt", "le", "gt", "ge", "eq", "ne", "logical_and", "logical_or", "logical_xor", "is_finite"}
  | .lt | .le | .gt | .ge | .eq | .ne | .logical_and | .logical_or | .logical_xor | .is_finite => some Ty.b
  -- kinds typed as self.operands[0].get_type()
  | .positive | .negative | .sqrt | .square | .asin | .acos | .atan | .asinh | .acosh | .atanh | .sinh | .cosh | .tanh
  | .sin | .cos | .tan | .log | .log1p | .log2 | .log10 | .exp | .exp2 | .expm1 | .ceil | .floor | .logical_not | .sign
  | .copysign | .conjugate | .asin_acos_kernel => arg 0
  -- operands[0].get_type().max(operands[1].get_type())
  | .add | .subtract | .divide | .multiply | .pow | .maximum | .minimum | .hypot | .remainder | .atan2 =>
    (arg 0).bind fun a => (arg 1).bind fun b => some (a.max b)
  -- t.complex_part if t.is_complex else t
  | .absolute | .real | .imag => (arg 0).bind fun t => if t.isComplex then t.complexPart else some t
  | .select => (arg 1).bind fun a => (arg 2).bind fun b => some (a.max b)
  | .complex => (arg 0).bind fun a => (arg 1).bind fun b => (a.max b).complexify
  | .upcast => (arg 0).bind fun t => Ty.mk? t.kind (t.bits.map (· * 2))
  | .downcast => (arg 0).bind fun t => Ty.mk? t.kind (t.bits.map (· / 2))
  | .item => (allSome ts).bind itemTy
  | _ => none

/-- `Expr.is_complex` for an operation node as a function of the kind and the operands' `is_complex`
(`none` = NotImplementedError).  Note `select` looks at operand 1 only. -/
def nodeIsComplex (k : Kind) (cs : List (Option Bool)) : Option Bool :=
  let arg (n : Nat) : Option Bool := cs.getD n none
  match k with
  | .select => arg 1
  | .lt | .le | .gt | .ge | .eq | .ne | .real | .imag | .absolute | .logical_and | .logical_or | .logical_xor | .logical_not
  | .bitwise_invert | .bitwise_and | .bitwise_or | .bitwise_xor | .bitwise_left_shift | .bitwise_right_shift
  | .ceil | .floor | .hypot | .maximum | .minimum | .floor_divide | .remainder => some false
  | .complex | .conjugate => some true
  | .add | .subtract | .divide | .multiply | .pow => (arg 0).bind fun a => if a then some true else arg 1
  | .positive | .negative | .sqrt | .square | .asin | .acos | .atan | .asinh | .acosh | .atanh | .sinh | .cosh | .tanh
  | .sin | .cos | .tan | .log | .log1p | .log2 | .log10 | .exp | .expm1 | .exp2 => arg 0
  | .item => (allSome cs).map (fun es => es.all id)
  | _ => none

/-! ## Graphs: flat DAGs, node `i` refers to earlier nodes only -/

/-- Value classes of constants (what `make_constant` is given to print). -/
inductive VC
  | pybool | pyint | pyfloat | pycomplex | npint | npfloat16 | npfloat32 | npfloat64 | npcomplex | named
  deriving DecidableEq, Repr, Inhabited

def VC.beq (a b : VC) : Bool := a.ctorIdx == b.ctorIdx

inductive Node
  /-- symbol of a declared type (function argument, or the hidden `_float_value`-style like-symbols) -/
  | symbol (t : Ty)
  /-- constant: value class and the index of its (normalised) like expression -/
  | const (vc : VC) (like : Nat)
  /-- operation; `idx` is the element index for `item` (0 otherwise) -/
  | op (k : Kind) (idx : Nat) (args : List Nat)
  deriving DecidableEq, Repr, Inhabited

abbrev Graph := List Node

/-- Well-formedness: every reference points to an earlier node. -/
def Node.refsBelow (i : Nat) : Node → Bool
  | .symbol _ => true
  | .const _ l => l < i
  | .op _ _ as => as.all (· < i)

def wfFrom (i : Nat) : List Node → Bool
  | [] => true
  | n :: ns => n.refsBelow i && wfFrom (i + 1) ns

def Graph.wf (g : Graph) : Bool := wfFrom 0 g

/-- `get_type` of one node given the types of the earlier nodes.  A constant's type is its like's type
(`self.operands[1].get_type()`). -/
def nodeStatic (env : List (Option Ty)) : Node → Option Ty
  | .symbol t => some t
  | .const _ l => env.getD l none
  | .op k _ as => nodeTy k (as.map (fun a => env.getD a none))

def staticFrom (env : List (Option Ty)) : List Node → List (Option Ty)
  | [] => env
  | n :: ns => staticFrom (env ++ [nodeStatic env n]) ns

/-- Static types of all nodes (forward pass). -/
def staticAll (g : Graph) : List (Option Ty) := staticFrom [] g
def staticTy (g : Graph) (i : Nat) : Option Ty := (staticAll g).getD i none

/-- Abstract NumPy oracle: the result dtype(s) of each piece of emitted code.
`[]` = the code raises; two or more entries = the dtype depends on the VALUES. -/
structure NP where
  /-- argument cast `x = T(x)` for a symbol of static type `t` -/
  symbol : Ty → List Ty
  /-- `make_constant`: `T(value)` where `T` is printed from the like's static type -/
  const : VC → Ty → List Ty
  /-- template of `kind` applied to operands of the given DTYPES -/
  op : Kind → Nat → List Ty → List Ty
  /-- `upcast` / `downcast`: the printer chooses the target dtype from the operand's STATIC type -/
  cast : Kind → Nat → List Ty → List Ty

/-- A single-valued observation. -/
def single : List Ty → Option Ty
  | [d] => some d
  | _ => none

def Kind.isCast : Kind → Bool
  | .upcast | .downcast => true
  | _ => false

/-- dtype produced at one node, from the static types (`senv`: constants and casts are printed from
static types) and the run-time dtypes (`denv`) of the earlier nodes.  No value is produced when an operand produced none. -/
def nodeDyn (np : NP) (senv denv : List (Option Ty)) : Node → Option Ty
  | .symbol t => single (np.symbol t)
  | .const vc l => (senv.getD l none).bind (fun t => single (np.const vc t))
  | .op k idx as =>
    (allSome (as.map (fun a => denv.getD a none))).bind fun ds =>
      if k.isCast then (allSome (as.map (fun a => senv.getD a none))).bind (fun ts => single (np.cast k idx ts))
      else single (np.op k idx ds)

def dynFrom (np : NP) (senv denv : List (Option Ty)) : List Node → List (Option Ty)
  | [] => denv
  | n :: ns => dynFrom np (senv ++ [nodeStatic senv n]) (denv ++ [nodeDyn np senv denv n]) ns

def dynAll (np : NP) (g : Graph) : List (Option Ty) := dynFrom np [] [] g
def dynTy (np : NP) (g : Graph) (i : Nat) : Option Ty := (dynAll np g).getD i none

/-! ## Rows of the regenerated tables -/

/-- One row of the extensional table of the REAL `get_type` / `is_complex`:
node of `kind` (element index `idx` for `item`) over symbols of types `args`. -/
structure SRow where
  kind : Kind
  idx : Nat
  args : List Ty
  ty : Option Ty
  isComplex : Option Bool
  deriving DecidableEq, Repr

/-- One row of the observed NumPy table: template of `kind` on operands of dtypes `args`. -/
structure NRow where
  kind : Kind
  idx : Nat
  args : List Ty
  obs : List Ty
  deriving DecidableEq, Repr

structure CRow where
  vc : VC
  like : Ty
  ty : Option Ty
  obs : List Ty
  deriving DecidableEq, Repr

structure YRow where
  ty : Ty
  obs : List Ty
  deriving DecidableEq, Repr

/-- The regenerated tables.  Rows of a kind are listed with their operand tuples in lexicographic order of the
position (`ucode` / `dcode`) of each operand type in the universe, so a row is found by index. -/
structure Tables where
  /-- `type_to_target`: static type ↦ dtype it is printed as (`none` = KeyError) -/
  canon : Ty → Option Ty
  /-- position of a static type in the row universe, and the size of the universe -/
  ucode : Ty → Option Nat
  nU : Nat
  /-- position of a dtype in the dtype universe -/
  dcode : Ty → Option Nat
  nD : Nat
  kinds : List Kind
  /-- static rows of a kind -/
  chunkOf : Kind → List SRow
  /-- observed rows of a kind (`[]` for kinds the numpy target does not print) -/
  npOf : Kind → List NRow
  consts : List CRow
  symbols : List YRow

/-- all static rows -/
def Tables.static (T : Tables) : List SRow := T.kinds.flatMap T.chunkOf

/-- a Bool check on every static row (kind by kind) -/
def Tables.allRows (T : Tables) (f : SRow → Bool) : Bool := T.kinds.all (fun k => (T.chunkOf k).all f)

def Tables.canonTy (T : Tables) (t : Ty) : Option Ty := T.canon t

/-- position of an operand tuple: `((idx * n + c₀) * n + c₁) …` -/
def lexIndex (n : Nat) (start : Nat) (cs : List Nat) : Nat := cs.foldl (fun acc c => acc * n + c) start

/-- the static row with the given key, by position (the key is re-checked) -/
def Tables.rowAt (T : Tables) (k : Kind) (idx : Nat) (ts : List Ty) : Option SRow :=
  (allSome (ts.map T.ucode)).bind fun cs =>
    match (T.chunkOf k)[lexIndex T.nU idx cs]? with
    | some r => if r.kind.beq k && r.idx == idx && tysBeq r.args ts then some r else none
    | none => none

def Tables.npLookup (T : Tables) (k : Kind) (idx : Nat) (ds : List Ty) : Option (List Ty) :=
  (allSome (ds.map T.dcode)).bind fun cs =>
    match (T.npOf k)[lexIndex T.nD idx cs]? with
    | some r => if r.kind.beq k && r.idx == idx && tysBeq r.args ds then some r.obs else none
    | none => none

/-- The concrete oracle read off the observed tables (`[]` for combinations that were not observed). -/
def Tables.toNP (T : Tables) : NP where
  symbol t := ((T.symbols.find? (fun r => r.ty.beq t)).map (·.obs)).getD []
  const vc t := ((T.consts.find? (fun r => r.vc.beq vc && r.like.beq t)).map (·.obs)).getD []
  op k idx ds := (T.npLookup k idx ds).getD []
  cast k idx ts := ((allSome (ts.map T.canonTy)).bind (T.npLookup k idx)).getD []

/-- Status of one static row against the observed table. -/
inductive Status | untyped | unprintable | unobserved | error | agree | disagree
  deriving DecidableEq, Repr

def Status.isDisagree : Status → Bool | .disagree => true | _ => false
def Status.isAgree : Status → Bool | .agree => true | _ => false

/-- untyped: get_type raises.  unprintable: the static type has no entry in `type_to_target` (printing the
annotation / the assertion raises KeyError).  unobserved: the numpy target has no template / no observation for the row.
error: the emitted code raises on every sample (no value, no dtype).  agree: exactly one observed dtype and it is
the dtype the static type is printed as.  disagree: anything else. -/
def Tables.status (T : Tables) (r : SRow) : Status :=
  match r.ty with
  | none => .untyped
  | some t =>
    match T.canonTy t with
    | none => .unprintable
    | some ct =>
      match (allSome (r.args.map T.canonTy)).bind (T.npLookup r.kind r.idx) with
      | none => .unobserved
      | some [] => .error
      | some [d] => if ct.beq d then .agree else .disagree
      | some _ => .disagree

/-! ## Reference (fixed) description of the known deviations — depends on kind and operand types ONLY -/

/-- Printed width of a type: `type_to_target` maps the unsized types to the 64-bit ones (complex: 128). -/
def Ty.width (t : Ty) : Nat :=
  match t.bits with
  | some n => n
  | none => match t.kind with | .complex => 128 | .boolean => 8 | _ => 64

/-- Width NumPy's promotion needs IN KIND `k` to hold an operand of type `t`
(float -> complex doubles; int -> float needs the next float that holds it, at most 64; bool needs nothing). -/
def need (k : TKind) (t : Ty) : Nat :=
  match k, t.kind with
  | .complex, .complex => t.width
  | .complex, .float => 2 * t.width
  | .complex, .integer => Nat.min 128 (4 * t.width)
  | .float, .float => t.width
  | .float, .integer => Nat.min 64 (2 * t.width)
  | .integer, .integer => t.width
  | _, _ => 0

inductive Cause
  | floatWiderThanComplexPart   -- Type.max: sized float operand needs a wider complex than the complex operand
  | unsizedOperandIgnored       -- Type.max: operand of an unsized type ("float" = float64 when printed) contributes no width
  | integerWidthIgnored         -- Type.max: sized integer operand contributes no width to a float/complex result
  | builtinMaxMin               -- maximum/minimum are printed as Python max/min: the result is one of the operands
  | copysignFirstOperand        -- copysign typed as operand 0, NumPy promotes both
  | castOfUnsized               -- upcast/downcast of an unsized type: static stays unsized (=64 bit), cast goes to 128/32
  | itemHeterogeneous           -- item of a list with element types of several widths typed as the unsized type
  | floatFnOfInteger            -- float-valued NumPy function of integer operands typed integer (NumPy returns float64)
  deriving DecidableEq, Repr

def Cause.signature : Cause → String
  | .floatWiderThanComplexPart => "Type.max:float-operand-wider-than-complex-part"
  | .unsizedOperandIgnored => "Type.max:unsized-operand-ignored"
  | .integerWidthIgnored => "Type.max:integer-operand-width-ignored"
  | .builtinMaxMin => "maximum-minimum:python-builtin-returns-operand-dtype"
  | .copysignFirstOperand => "copysign:typed-as-first-operand"
  | .castOfUnsized => "upcast-downcast:unsized-operand"
  | .itemHeterogeneous => "item:heterogeneous-list-typed-unsized"
  | .floatFnOfInteger => "float-function:integer-operand-typed-integer"

/-- The larger kind of a list of types (boolean < integer < float < complex). -/
def topKind (ts : List Ty) : TKind :=
  if ts.any (·.kind.beq .complex) then .complex
  else if ts.any (·.kind.beq .float) then .float
  else if ts.any (·.kind.beq .integer) then .integer
  else .boolean

/-- First operand whose NumPy width need exceeds the width `w` the static type provides. -/
def culprit (k : TKind) (w : Nat) (ts : List Ty) : Option Cause :=
  match ts.find? (fun t => decide (need k t > w)) with
  | none => none
  | some t =>
    if t.bits.isNone then some .unsizedOperandIgnored
    else if t.kind.beq .integer then some .integerWidthIgnored
    else some .floatWiderThanComplexPart

/-- Kinds whose NumPy template returns a float for integer operands. -/
def Kind.isFloatFn : Kind → Bool
  | .sqrt | .asin | .acos | .atan | .asinh | .acosh | .atanh | .sinh | .cosh | .tanh | .sin | .cos | .tan
  | .log | .log1p | .log2 | .log10 | .exp | .exp2 | .expm1 | .divide | .atan2 | .hypot | .asin_acos_kernel => true
  | _ => false

/-- Operand discipline ("well-typed use"): rows outside it are misuse of the operation (numbers into logical
operations, a non-boolean `select` condition, all-boolean operands of arithmetic, non-float parts of `complex`,
a non-float magnitude of `copysign`); the property makes no claim about them. -/
def wtRow (k : Kind) (ts : List Ty) : Bool :=
  match k with
  | .logical_and | .logical_or | .logical_xor | .logical_not => ts.all (·.kind.beq .boolean)
  | .select => (ts.head?.map (·.kind.beq .boolean)).getD false
  | .lt | .le | .gt | .ge | .eq | .ne | .is_finite | .upcast | .downcast | .item => true
  | .complex => ts.all (·.kind.beq .float)
  | .copysign => (ts.head?.map (·.kind.beq .float)).getD false && !ts.any (·.kind.beq .complex)
  | _ => !(topKind ts).beq .boolean

/-- Known deviation of the row `(k, idx, ts)`, as a function of the kind and operand types only.
`sw` = printed width of the hand-ported static type. -/
def cause (k : Kind) (idx : Nat) (ts : List Ty) : Option Cause :=
  let sw := ((nodeTy k (ts.map some)).map Ty.width).getD 0
  if k.isFloatFn && (topKind ts).beq .integer then some .floatFnOfInteger
  else match k with
  | .maximum | .minimum =>
    (match ts with
     | [a, b] => if a.kind.beq b.kind && a.width == b.width then none else some .builtinMaxMin
     | _ => none)
  | .add | .subtract | .multiply | .divide | .pow | .remainder | .atan2 | .hypot => culprit (topKind ts) sw ts
  | .select => culprit (topKind (ts.drop 1)) sw (ts.drop 1)
  | .complex => culprit .complex sw ts
  | .copysign => (match culprit .float sw ts with | none => none | some _ => some .copysignFirstOperand)
  | .upcast | .downcast =>
    (match ts with
     | [t] => if t.bits.isNone && !t.kind.beq .boolean then some .castOfUnsized else none
     | _ => none)
  | .item =>
    (match ts[idx]? with
     | some e =>
       if ts.any (fun u => !obeq u.bits e.bits) && !(e.width == (Ty.mk e.kind none).width) then some .itemHeterogeneous
       else none
     | none => none)
  | _ => none

/-! ## Row checks (Bool), evaluated by the kernel on the regenerated tables and by the driver -/

def otyBeq : Option Ty → Option Ty → Bool
  | none, none => true
  | some a, some b => a.beq b
  | _, _ => false

def oboolBeq : Option Bool → Option Bool → Bool
  | none, none => true
  | some a, some b => a == b
  | _, _ => false

/-- the hand port reproduces the real get_type / is_complex on the row -/
def modelRow (r : SRow) : Bool :=
  otyBeq (nodeTy r.kind (r.args.map some)) r.ty &&
  oboolBeq (nodeIsComplex r.kind (r.args.map (fun t => some t.isComplex))) r.isComplex

/-- THE per-row agreement check: on a well-typed row, `disagree` ⇒ a known cause, `agree` ⇒ no known cause
(so: no cause ⇒ no disagreement, and among rows that produce a value: disagree ⇔ known cause). -/
def Tables.rowCheck (T : Tables) (r : SRow) : Bool :=
  if wtRow r.kind r.args then
    (match T.status r with
     | .disagree => (cause r.kind r.idx r.args).isSome
     | .agree => (cause r.kind r.idx r.args).isNone
     | _ => true)
  else true

/-- rows over one uniform family of types: the only possible deviations are Python max/min and `item` applied to
operands of DIFFERENT types of the family -/
def Tables.familyRow (T : Tables) (fam : List Ty) (r : SRow) : Bool :=
  !(r.args.all (fun t => fam.any (·.beq t))) || !(wtRow r.kind r.args) ||
  (match cause r.kind r.idx r.args with
   | none => !(T.status r).isDisagree
   | some .builtinMaxMin | some .itemHeterogeneous => true
   | some _ => false)

/-- rows on which `is_complex` and `get_type` are known to contradict each other -/
def icExcluded (r : SRow) : Bool :=
  (match r.kind with
   | .ceil | .floor | .hypot | .maximum | .minimum | .remainder | .logical_not => r.args.any Ty.isComplex
   | .conjugate => !r.args.any Ty.isComplex
   | .select => (match r.args with | [_, a, b] => !a.isComplex && b.isComplex | _ => false)
   | _ => false)

def icRow (r : SRow) : Bool :=
  match r.ty, r.isComplex with
  | some t, some c => (!icExcluded r) == (c == t.isComplex)
  | _, _ => true

end FAVerif.Typing
