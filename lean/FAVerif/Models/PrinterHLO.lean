/-
Model of the StableHLO (TableGen pattern) and XLA-client (C++ builder) printers of
functional_algorithms — property C06.  Mathlib-free, total, computable.

Ported, as written, from /repo/functional_algorithms:
  * expr.py `Expr.tostring` / `compute_need_ref`                       -> `cn`, `needFn`
  * targets/stablehlo.py `Printer.tostring`                            -> `prS`, `printS`
  * targets/base.py `PrinterBase.tostring`, `get_type`, targets/xla_client.py and targets/cpp.py
    `make_assignment`, `make_constant`, `make_argument`, `make_apply`  -> `prX`, `printX`
  * expr.py `Expr.__new__` (alternative context: wrapping and folding of constants) -> `mkConst`, `mkOp1..3`

The printers key every decision on the *reference name* (`expr.ref in self.defined_refs`), never on
object identity, so a DAG is faithfully represented by its unfolding into a tree whose nodes carry
their reference names: sharing = equal reference names.  The tables (`kind_to_target`,
`constant_to_target`, `type_to_target`) are parameters; the run-time instances are regenerated from
/repo into `FAVerif/Generated/C06Tables.lean`.
-/

namespace FAVerif.PrinterHLO

/-! ## Graphs -/

/-- What `Printer.get_type(expr)` has to work with: `str(expr.get_type())` and how it is used. -/
inductive Ty where
  | param (s : String)   -- Type of kind "type": printed verbatim (`str(typ.param)`)
  | named (s : String)   -- looked up in `type_to_target`
  | err (exc : String)   -- `Expr.get_type()` itself raises `exc`
  deriving DecidableEq, Repr, Inhabited

/-- Value of a constant whose value is not an expression. -/
inductive CVal where
  | named (s : String)           -- a named constant (`isinstance(value, str)`)
  | lit (fmt str : String)       -- a number: `f"{value}"` and `str(value)`
  deriving DecidableEq, Repr, Inhabited

/-- Expression trees with reference names (`ref`), `props["force_ref"]` (`force`) and types. -/
inductive E where
  | sym (ref name : String) (force : Bool) (ty : Ty)
  | const (ref : String) (force : Bool) (ty : Ty) (v : CVal) (like : E)
  | constE (ref : String) (force : Bool) (ty : Ty) (val like : E)   -- value lives in the alternative context
  | op1 (ref : String) (force : Bool) (ty : Ty) (kind : String) (a : E)
  | op2 (ref : String) (force : Bool) (ty : Ty) (kind : String) (a b : E)
  | op3 (ref : String) (force : Bool) (ty : Ty) (kind : String) (a b c : E)
  deriving DecidableEq, Repr, Inhabited

namespace E
def ref : E → String
  | sym r .. | const r .. | constE r .. | op1 r .. | op2 r .. | op3 r .. => r
def force : E → Bool
  | sym _ _ f _ | const _ f .. | constE _ f .. | op1 _ f .. | op2 _ f .. | op3 _ f .. => f
def ty : E → Ty
  | sym _ _ _ t | const _ _ t .. | constE _ _ t .. | op1 _ _ t .. | op2 _ _ t .. | op3 _ _ t .. => t
def isSym : E → Bool
  | sym .. => true
  | _ => false
/-- All sub-expressions (the expression itself first). -/
def subs : E → List E
  | e@(sym ..) => [e]
  | e@(const _ _ _ _ like) => e :: like.subs
  | e@(constE _ _ _ val like) => e :: (val.subs ++ like.subs)
  | e@(op1 _ _ _ _ a) => e :: a.subs
  | e@(op2 _ _ _ _ a b) => e :: (a.subs ++ b.subs)
  | e@(op3 _ _ _ _ a b c) => e :: (a.subs ++ b.subs ++ c.subs)
/-- Sub-expressions the XLA printers actually print: the `like` of a constant is only named
(`ScalarLike(like.ref, ..)`) or used for its type, never printed. -/
def xsubs : E → List E
  | e@(sym ..) => [e]
  | e@(const ..) => [e]
  | e@(constE _ _ _ val _) => e :: val.xsubs
  | e@(op1 _ _ _ _ a) => e :: a.xsubs
  | e@(op2 _ _ _ _ a b) => e :: (a.xsubs ++ b.xsubs)
  | e@(op3 _ _ _ _ a b c) => e :: (a.xsubs ++ b.xsubs ++ c.xsubs)
def size : E → Nat
  | sym .. => 1
  | const _ _ _ _ like => like.size + 1
  | constE _ _ _ val like => val.size + like.size + 1
  | op1 _ _ _ _ a => a.size + 1
  | op2 _ _ _ _ a b => a.size + b.size + 1
  | op3 _ _ _ _ a b c => a.size + b.size + c.size + 1
end E

structure Arg where
  ref : String
  name : String
  force : Bool
  ty : Ty
  cplx : Bool
  deriving Repr, Inhabited

/-- The `apply` node: function name symbol, arguments, body (+ the props the printers read). -/
structure Fn where
  fnameRef : String
  fname : String
  fnameForce : Bool
  propName : Option String
  expander : Option String
  tmplParam : Option String
  args : List Arg
  body : E
  deriving Repr, Inhabited

def Fn.argRefs (f : Fn) : List String := f.args.map (·.ref)

/-! ## `compute_need_ref` (expr.py, inside `Expr.tostring`) -/

/-- The `need_ref` dict: `seen` = its keys, `need` = keys whose value is truthy. -/
structure Need where
  seen : List String
  need : List String
  deriving Repr, Inhabited

/-- `need_ref[ref] = True` (second and later encounters). -/
def Need.mark (m : Need) (r : String) : Need := ⟨m.seen, r :: m.need⟩
/-- `need_ref[ref] = expr.props.get("force_ref", False)` (first encounter). -/
def Need.first (m : Need) (r : String) (force : Bool) : Need :=
  ⟨r :: m.seen, if force then r :: m.need else m.need⟩

def cn : E → Need → Need
  | .sym r _ f _, m => if r ∈ m.seen then m.mark r else m.first r f
  | .const r f _ _ like, m => if r ∈ m.seen then m.mark r else cn like (m.first r f)
  | .constE r f _ val like, m => if r ∈ m.seen then m.mark r else cn like (cn val (m.first r f))
  | .op1 r f _ _ a, m => if r ∈ m.seen then m.mark r else cn a (m.first r f)
  | .op2 r f _ _ a b, m => if r ∈ m.seen then m.mark r else cn b (cn a (m.first r f))
  | .op3 r f _ _ a b c, m => if r ∈ m.seen then m.mark r else cn c (cn b (cn a (m.first r f)))

def visitSym (m : Need) (r : String) (f : Bool) : Need := if r ∈ m.seen then m.mark r else m.first r f

/-- State of `need_ref` when the traversal reaches the body: the apply's operands are the
name symbol, the arguments, then the body. -/
def cnArgs (f : Fn) : Need :=
  f.args.foldl (fun m a => visitSym m a.ref a.force) (visitSym ⟨[], []⟩ f.fnameRef f.fnameForce)

def cnFn (f : Fn) : Need := cn f.body (cnArgs f)

/-- `need_ref.get(ref)` as the printers use it. -/
def needOf (m : Need) (r : String) : Bool := decide (r ∈ m.need)
def needFn (f : Fn) : String → Bool := needOf (cnFn f)

/-! ## Errors -/

inductive Err where
  | assertion | notImpl | keyError | indexError | unsupported | other (s : String)
  deriving DecidableEq, Repr, Inhabited

def Err.name : Err → String
  | .assertion => "AssertionError" | .notImpl => "NotImplementedError" | .keyError => "KeyError"
  | .indexError => "IndexError" | .unsupported => "unsupported" | .other s => s

def Err.ofName : String → Err
  | "AssertionError" => .assertion | "NotImplementedError" => .notImpl | "KeyError" => .keyError
  | "IndexError" => .indexError | s => .other s

/-! ## StableHLO printer (targets/stablehlo.py) -/

/-- An entry of stablehlo `kind_to_target`: an operator name, `None` (comparisons), `NotImplemented`. -/
inductive SEntry where
  | op (hlo : String) | cmp | notImpl | callable (name : String)
  deriving DecidableEq, Repr, Inhabited

structure STables where
  kinds : List (String × SEntry)
  consts : List (String × String)
  deriving Repr, Inhabited

inductive Head where
  | op (hlo : String)            -- `(hlo[:$b] operands)`
  | cmp (dir : String)           -- `(StableHLO_CompareOp[:$b] a, b, StableHLO_ComparisonDirectionValue<"dir">, (STABLEHLO_DEFAULT_COMPARISON_TYPE))`
  | constNamed (tgt : String)    -- `(tgt[:$b] like)`
  | constLit (v : String)        -- `(StableHLO_ConstantLike<"v">[:$b] like)`
  deriving DecidableEq, Repr, Inhabited

/-- The emitted pattern.  `b` is the inline binding `:$name`. -/
inductive P where
  | ref (r : String)
  | n1 (h : Head) (b : Option String) (a : P)
  | n2 (h : Head) (b : Option String) (a1 a2 : P)
  | n3 (h : Head) (b : Option String) (a1 a2 a3 : P)
  deriving DecidableEq, Repr, Inhabited

def bindTok : Option String → List String
  | none => []
  | some r => [":$" ++ r]

def headToks : Head → Option String → List String
  | .op hlo, b => ["(", hlo] ++ bindTok b
  | .cmp _, b => ["(", "StableHLO_CompareOp"] ++ bindTok b
  | .constNamed t, b => ["(", t] ++ bindTok b
  | .constLit v, b => ["(", "StableHLO_ConstantLike<\"" ++ v ++ "\">"] ++ bindTok b

def tailToks : Head → List String
  | .cmp d => [",", "StableHLO_ComparisonDirectionValue<\"" ++ d ++ "\">", ",", "(STABLEHLO_DEFAULT_COMPARISON_TYPE)", ")"]
  | _ => [")"]

/-- Token list of the pattern (white space is not significant). -/
def P.toks : P → List String
  | .ref r => ["$" ++ r]
  | .n1 h b a => headToks h b ++ a.toks ++ tailToks h
  | .n2 h b a1 a2 => headToks h b ++ a1.toks ++ [","] ++ a2.toks ++ tailToks h
  | .n3 h b a1 a2 a3 => headToks h b ++ a1.toks ++ [","] ++ a2.toks ++ [","] ++ a3.toks ++ tailToks h

structure SSt where
  defined : List String
  warnUndef : Nat      -- "undefined reference ..." warnings
  warnConst : Nat      -- "Constant `..` is not implemented ..." warnings
  deriving Repr, Inhabited

def cmpKinds : List String := ["lt", "le", "gt", "ge", "eq", "ne"]

/-- `str.upper()` on ASCII (written over `List Char` so that the kernel can evaluate it). -/
def upChar (c : Char) : Char := if 'a' ≤ c ∧ c ≤ 'z' then Char.ofNat (c.toNat - 32) else c
def upper (s : String) : String := String.ofList (s.toList.map upChar)

/-- Operator head of a non-constant node: comparisons first (`expr.kind in {"lt", ...}`), then
`kind_to_target.get(kind, NotImplemented)`. -/
def headOf (tb : STables) (k : String) : Except Err Head :=
  if k ∈ cmpKinds then .ok (.cmp (upper k))
  else match tb.kinds.lookup k with
    | some (.op hlo) => .ok (.op hlo)
    | some .notImpl | none => .error .notImpl
    | some _ => .error .unsupported

def constHead (tb : STables) (v : CVal) : Head × Nat :=
  match v with
  | .named s => match tb.consts.lookup s with
      | some t => (.constNamed t, 0)
      | none => (.constLit s, 1)
  | .lit fmt _ => (.constLit fmt, 0)

/-- `Printer.tostring(expr)` for non-apply expressions. -/
def prS (tb : STables) (need : String → Bool) : E → SSt → Except Err (P × SSt)
  | .sym r _ _ _, st => .ok (.ref r, st)
  | .const r _ _ v like, st =>
    if r ∈ st.defined then (if need r then .ok (.ref r, st) else .error .assertion) else
    let st1 : SSt := { st with defined := r :: st.defined }
    let b := if need r then some r else none
    let hw := constHead tb v
    if like.ref ∈ st1.defined then
      .ok (.n1 hw.1 b (.ref like.ref), { st1 with warnConst := st1.warnConst + hw.2 })
    else match prS tb need like { st1 with warnUndef := st1.warnUndef + 1 } with
      | .error e => .error e
      | .ok (lk, st2) => .ok (.n1 hw.1 b lk, { st2 with warnConst := st2.warnConst + hw.2 })
  | .constE .., _ => .error .unsupported
  | .op1 r _ _ k a, st =>
    if r ∈ st.defined then (if need r then .ok (.ref r, st) else .error .assertion) else
    let st1 : SSt := { st with defined := r :: st.defined }
    let b := if need r then some r else none
    match headOf tb k with
    | .error e => .error e
    | .ok h =>
      match prS tb need a st1 with
      | .error e => .error e
      | .ok (pa, st2) => .ok (.n1 h b pa, st2)
  | .op2 r _ _ k a a', st =>
    if r ∈ st.defined then (if need r then .ok (.ref r, st) else .error .assertion) else
    let st1 : SSt := { st with defined := r :: st.defined }
    let b := if need r then some r else none
    match headOf tb k with
    | .error e => .error e
    | .ok h =>
      match prS tb need a st1 with
      | .error e => .error e
      | .ok (pa, st2) =>
        match prS tb need a' st2 with
        | .error e => .error e
        | .ok (pb, st3) => .ok (.n2 h b pa pb, st3)
  | .op3 r _ _ k a a' a'', st =>
    if r ∈ st.defined then (if need r then .ok (.ref r, st) else .error .assertion) else
    let st1 : SSt := { st with defined := r :: st.defined }
    let b := if need r then some r else none
    match headOf tb k with
    | .error e => .error e
    | .ok h =>
      match prS tb need a st1 with
      | .error e => .error e
      | .ok (pa, st2) =>
        match prS tb need a' st2 with
        | .error e => .error e
        | .ok (pb, st3) =>
          match prS tb need a'' st3 with
          | .error e => .error e
          | .ok (pc, st4) => .ok (.n3 h b pa pb pc, st4)

/-- `str.title()` on ASCII. -/
def titleGo : List Char → Bool → List Char
  | [], _ => []
  | c :: cs, prevAlpha =>
    if c.isAlpha then (if prevAlpha then c.toLower else c.toUpper) :: titleGo cs true
    else c :: titleGo cs false
def title (s : String) : String := String.ofList (titleGo s.toList false)

structure SOut where
  header : List String
  pattern : P
  warnUndef : Nat
  warnConst : Nat
  deriving Repr

def sArgTok (a : Arg) : String :=
  (if a.cplx then "ComplexElementType" else "NonComplexElementType") ++ ":$" ++ a.ref

def sepBy (sep : String) : List String → List String
  | [] => []
  | [x] => [x]
  | x :: xs => x :: sep :: sepBy sep xs

/-- `Printer.tostring(apply)`: header `def <expander>: Pat<(<chlo> <args>),` body `>;`. -/
def printS (tb : STables) (f : Fn) : Except Err SOut :=
  match prS tb (needFn f) f.body ⟨f.argRefs.reverse, 0, 0⟩ with
  | .error e => .error e
  | .ok (p, st) =>
    .ok { header := ["def", f.expander.getD "", ":", "Pat<(", f.propName.getD ("CHLO_" ++ title f.fnameRef)]
                    ++ sepBy "," (f.args.map sArgTok) ++ [")", ","],
          pattern := p, warnUndef := st.warnUndef, warnConst := st.warnConst }

def SOut.text (o : SOut) : String := " ".intercalate (o.header ++ o.pattern.toks ++ [">;"])

/-! ### Binding discipline of a pattern (textual order) -/

inductive Ev where
  | bind (r : String) | use (r : String)
  deriving DecidableEq, Repr

def bindEv : Option String → List Ev
  | none => []
  | some r => [.bind r]

/-- Binding and reference events in textual (left-to-right) order. -/
def P.events : P → List Ev
  | .ref r => [.use r]
  | .n1 _ b a => bindEv b ++ a.events
  | .n2 _ b a1 a2 => bindEv b ++ a1.events ++ a2.events
  | .n3 _ b a1 a2 a3 => bindEv b ++ a1.events ++ a2.events ++ a3.events

/-- Every `:$name` binds a fresh name; every `$name` refers to a name bound textually earlier. -/
def checkBind : List String → List Ev → Option (List String)
  | B, [] => some B
  | B, .bind r :: es => if r ∈ B then none else checkBind (r :: B) es
  | B, .use r :: es => if r ∈ B then checkBind B es else none

/-! ## Operator trees (what the output denotes) -/

/-- Operator tree over expression kinds: `E` without names, flags and types. -/
inductive T where
  | sym (ref : String)
  | const (v : CVal) (like : T)
  | constE (val like : T)
  | op1 (kind : String) (a : T)
  | op2 (kind : String) (a b : T)
  | op3 (kind : String) (a b c : T)
  deriving DecidableEq, Repr, Inhabited

def strip : E → T
  | .sym r _ _ _ => .sym r
  | .const _ _ _ v like => .const v (strip like)
  | .constE _ _ _ val like => .constE (strip val) (strip like)
  | .op1 _ _ _ k a => .op1 k (strip a)
  | .op2 _ _ _ k a b => .op2 k (strip a) (strip b)
  | .op3 _ _ _ k a b c => .op3 k (strip a) (strip b) (strip c)

/-! ### Trusted operator tables (the specification; hand written from the StableHLO / CHLO
TableGen definitions and the xla client headers — NOT read from /repo) -/

def trustedHlo : List (String × String) := [
  ("absolute", "StableHLO_AbsOp"), ("negative", "StableHLO_NegOp"), ("add", "StableHLO_AddOp"),
  ("subtract", "StableHLO_SubtractOp"), ("multiply", "StableHLO_MulOp"), ("divide", "StableHLO_DivOp"),
  ("remainder", "StableHLO_RemOp"), ("pow", "StableHLO_PowOp"),
  ("logical_and", "StableHLO_AndOp"), ("logical_or", "StableHLO_OrOp"), ("logical_xor", "StableHLO_XorOp"),
  ("logical_not", "StableHLO_NotOp"), ("bitwise_and", "StableHLO_AndOp"), ("bitwise_or", "StableHLO_OrOp"),
  ("bitwise_xor", "StableHLO_XorOp"), ("bitwise_invert", "StableHLO_NotOp"),
  ("bitwise_left_shift", "StableHLO_ShiftLeftOp"), ("bitwise_right_shift", "StableHLO_ShiftRightArithmeticOp"),
  ("maximum", "StableHLO_MaxOp"), ("minimum", "StableHLO_MinOp"),
  ("asin_acos_kernel", "CHLO_AsinAcosKernelOp"), ("acos", "CHLO_AcosOp"), ("acosh", "CHLO_AcoshOp"),
  ("asin", "CHLO_AsinOp"), ("asinh", "CHLO_AsinhOp"), ("atan", "CHLO_AtanOp"), ("atanh", "CHLO_AtanhOp"),
  ("atan2", "StableHLO_Atan2Op"), ("cos", "StableHLO_CosineOp"), ("cosh", "CHLO_CoshOp"),
  ("sin", "StableHLO_SineOp"), ("sinh", "CHLO_SinhOp"), ("tan", "CHLO_TanOp"), ("tanh", "StableHLO_TanhOp"),
  ("exp", "StableHLO_ExpOp"), ("expm1", "StableHLO_Expm1Op"), ("log", "StableHLO_LogOp"),
  ("log1p", "StableHLO_Log1pOp"), ("ceil", "StableHLO_CeilOp"), ("floor", "StableHLO_FloorOp"),
  ("round", "StableHLO_RoundOp"), ("sign", "StableHLO_SignOp"), ("conjugate", "CHLO_ConjOp"),
  ("real", "StableHLO_RealOp"), ("imag", "StableHLO_ImagOp"), ("complex", "StableHLO_ComplexOp"),
  ("sqrt", "StableHLO_SqrtOp"), ("select", "StableHLO_SelectOp"), ("nextafter", "CHLO_NextAfterOp"),
  ("is_finite", "StableHLO_IsFiniteOp"), ("is_inf", "CHLO_IsInfOp"), ("is_posinf", "CHLO_IsPosInfOp"),
  ("is_neginf", "CHLO_IsNegInfOp")]

def trustedDir : List (String × String) :=
  [("lt", "LT"), ("le", "LE"), ("gt", "GT"), ("ge", "GE"), ("eq", "EQ"), ("ne", "NE")]

def trustedHloConst : List (String × String) := [
  ("largest", "StableHLO_ConstantLikeMaxFiniteValue"),
  ("smallest", "StableHLO_ConstantLikeSmallestNormalizedValue"),
  ("posinf", "StableHLO_ConstantLikePosInfValue"),
  ("neginf", "StableHLO_ConstantLikeNegInfValue"),
  ("pi", "StableHLO_ConstantLike<\"M_PI\">")]

/-- One row of stablehlo `kind_to_target` is right: operator rows name the specified operator of the
kind, `None` rows are exactly the comparison kinds (whose direction is the upper-cased kind, checked
against `trustedDir`), `NotImplemented` rows claim nothing. -/
def sRowOk (row : String × SEntry) : Bool :=
  match row.2 with
  | .op hlo => trustedHlo.lookup row.1 == some hlo && !(row.1 ∈ cmpKinds)
  | .cmp => trustedDir.lookup row.1 == some (upper row.1)
  | .notImpl => true
  | .callable _ => false

def sConstOk (row : String × String) : Bool := trustedHloConst.lookup row.1 == some row.2

/-- The comparison kinds are handled before the table is consulted; their direction is right. -/
def cmpDirsOk : Bool := cmpKinds.all fun k => trustedDir.lookup k == some (upper k)

/-- Reading of a head through the trusted tables: which kind / constant it denotes. -/
def headKind (h : Head) : Option String :=
  match h with
  | .op hlo => (trustedHlo.find? (·.2 == hlo)).map (·.1)
  | .cmp d => (trustedDir.find? (·.2 == d)).map (·.1)
  | _ => none

/-! ## XLA client printer (targets/base.py + targets/xla_client.py + targets/cpp.py) -/

/-- A `str.format` template, parsed: literal text, positional fields `{i}`, named fields `{name}`. -/
inductive Piece where
  | lit (s : String) | arg (i : Nat) | named (n : String)
  deriving DecidableEq, Repr, Inhabited

/-- A table row: `raw = none` is `NotImplemented`. -/
structure TRow where
  kind : String
  raw : Option String
  pieces : List Piece
  deriving DecidableEq, Repr, Inhabited

def digitStr (i : Nat) : String := if i < 10 then String.singleton (Char.ofNat (48 + i)) else "?"

def renderPieces : List Piece → String
  | [] => ""
  | .lit s :: ps => s ++ renderPieces ps
  | .arg i :: ps => "{" ++ digitStr i ++ "}" ++ renderPieces ps
  | .named n :: ps => "{" ++ n ++ "}" ++ renderPieces ps

structure XTables where
  kinds : List TRow
  consts : List TRow
  types : List (String × String)
  deriving Repr, Inhabited

structure XTabs where
  main : XTables      -- xla_client
  cpp : XTables       -- constant_target = cpp
  deriving Repr, Inhabited

inductive Mode where
  | main | cpp
  deriving DecidableEq, Repr

def XTabs.of (tb : XTabs) : Mode → XTables
  | .main => tb.main
  | .cpp => tb.cpp

def findRow (rows : List TRow) (k : String) : Option TRow := rows.find? (·.kind == k)

/-- The emitted C++ expression. -/
inductive X where
  | var (r : String)                                   -- a variable defined by an assignment / a parameter
  | name (s : String)                                  -- a symbol printed by name
  | litV (s : String)                                  -- literal value text
  | namedV (n : String) (pieces : List Piece) (ty : String)   -- `constant_to_target[n].format(type=ty)`
  | unkV (n : String)                                  -- named constant missing from the table
  | infV (neg : Bool) (ty : String)                    -- cpp `make_constant` for inf / -inf
  | scalarLike (like : String) (v : X)                 -- xla `make_constant`
  | t1 (pieces : List Piece) (ty0 : String) (a : X)
  | t2 (pieces : List Piece) (ty0 : String) (a b : X)
  | t3 (pieces : List Piece) (ty0 : String) (a b c : X)
  deriving DecidableEq, Repr, Inhabited

def fmtPieces (ps : List Piece) (args : List String) (named : String → String) : String :=
  match ps with
  | [] => ""
  | .lit s :: ps => s ++ fmtPieces ps args named
  | .arg i :: ps => args.getD i "" ++ fmtPieces ps args named
  | .named n :: ps => named n ++ fmtPieces ps args named

def X.text : X → String
  | .var r => r
  | .name s => s
  | .litV s => s
  | .namedV _ ps ty => fmtPieces ps [] (fun _ => ty)
  | .unkV n => n
  | .infV false ty => "std::numeric_limits<" ++ ty ++ ">::infinity()"
  | .infV true ty => "(-std::numeric_limits<" ++ ty ++ ">::infinity())"
  | .scalarLike l v => "ScalarLike(" ++ l ++ ", " ++ v.text ++ ")"
  | .t1 ps ty0 a => fmtPieces ps [a.text] (fun _ => ty0)
  | .t2 ps ty0 a b => fmtPieces ps [a.text, b.text] (fun _ => ty0)
  | .t3 ps ty0 a b c => fmtPieces ps [a.text, b.text, c.text] (fun _ => ty0)

/-- One assignment `ty var = rhs;`. -/
structure Stmt where
  ty : String
  var : String
  rhs : X
  deriving DecidableEq, Repr, Inhabited

structure XSt where
  defined : List String
  stmts : List Stmt
  late : Nat          -- ghost: `ScalarLike(like.ref, ..)` emitted while `like.ref` is not in `defined_refs`
  warnConst : Nat     -- "constant_to_target does not implement" warnings
  deriving Repr, Inhabited

/-- `PrinterBase.get_type`. -/
def getTy (types : List (String × String)) : Ty → Except Err String
  | .param s => .ok s
  | .named s => match types.lookup s with
      | some t => .ok t
      | none => .error .keyError
  | .err exc => .error (Err.ofName exc)

/-- Do all fields of the template exist (`str.format` raises IndexError / KeyError otherwise)? -/
def piecesCheck (ps : List Piece) (n : Nat) (names : List String) : Except Err Unit :=
  match ps with
  | [] => .ok ()
  | .lit _ :: ps => piecesCheck ps n names
  | .arg i :: ps => if i < n then piecesCheck ps n names else .error .indexError
  | .named m :: ps => if m ∈ names then piecesCheck ps n names else .error .keyError

/-- The tail of `PrinterBase.tostring`: assign to a variable when the expression needs a reference. -/
def finishX (types : List (String × String)) (need : String → Bool) (r : String) (ty : Ty) (x : X) (st : XSt) :
    Except Err (X × XSt) :=
  if need r then
    if r ∈ st.defined then .error .assertion else
    match getTy types ty with
    | .error e => .error e
    | .ok t => .ok (.var r, { st with stmts := st.stmts ++ [⟨t, r, x⟩], defined := r :: st.defined })
  else .ok (x, st)

/-- cpp `make_constant`: a value whose text is `inf` / `-inf` becomes the infinity of the like's type. -/
def pickInf (t : String) (x : X) : X :=
  if x.text == "inf" then .infV false t else if x.text == "-inf" then .infV true t else x

/-- cpp `make_constant(like, value)` (`str(value)` is the text of `x`). -/
def cppConst (types : List (String × String)) (likeTy : Ty) (x : X) : Except Err X :=
  match getTy types likeTy with
  | .error e => .error e
  | .ok t => .ok (pickInf t x)

def lateOf (st : XSt) (r : String) : Nat := if r ∈ st.defined then 0 else 1

/-- `self.make_constant(like, value)` of the printer instance that runs: xla wraps the value text in
`ScalarLike(like.ref, ..)` (whether or not `like.ref` is defined), cpp prints the value itself. -/
def wrapX (T : XTables) (mode : Mode) (like : E) (st : XSt) (x : X) (warn : Nat) : Except Err (X × XSt) :=
  match mode with
  | .main => .ok (.scalarLike like.ref x, { st with late := st.late + lateOf st like.ref, warnConst := st.warnConst + warn })
  | .cpp => match cppConst T.types like.ty x with
    | .error e => .error e
    | .ok x' => .ok (x', { st with warnConst := st.warnConst + warn })

/-- The value text of a constant whose value is not an expression, and the number of warnings. -/
def constVal (T : XTables) (mode : Mode) (ty : Ty) (v : CVal) : Except Err (X × Nat) :=
  match v with
  | .lit fmt str =>
    (match mode with
     | .main => .ok (.litV fmt, 0)       -- xla: f"ScalarLike({like.ref}, {value})"
     | .cpp => .ok (.litV str, 0))       -- cpp: str(value)
  | .named s =>
    match findRow T.consts s with
    | none => .ok (.unkV s, 1)           -- warning, value printed verbatim
    | some row =>
      match row.raw with
      | none => .ok (.unkV s, 1)
      | some _ =>
        match getTy T.types ty with
        | .error e => .error e
        | .ok t =>
          match piecesCheck row.pieces 0 ["type"] with
          | .error e => .error e
          | .ok _ => .ok (.namedV s row.pieces t, 0)

/-- The constant branch of `PrinterBase.tostring` (value not an expression): the text of the
constant, before the optional assignment.  `T` = tables of the printer instance that runs. -/
def constX (T : XTables) (mode : Mode) (ty : Ty) (v : CVal) (like : E) (st : XSt) : Except Err (X × XSt) :=
  match constVal T mode ty v with
  | .error e => .error e
  | .ok (x, warn) => wrapX T mode like st x warn

/-- `kind_to_target.get(kind, NotImplemented)`; NotImplemented raises. -/
def rowFor (T : XTables) (k : String) : Except Err TRow :=
  match findRow T.kinds k with
  | none => .error .notImpl
  | some row =>
    match row.raw with
    | none => .error .notImpl
    | some _ => .ok row

/-- `PrinterBase.tostring(expr)` for non-apply expressions; `mode` = which printer instance runs
(the xla printer, or its `constant_printer`, the cpp printer, sharing `defined_refs` and
`assignments`). -/
def prX (tb : XTabs) (need : String → Bool) (mode : Mode) : E → XSt → Except Err (X × XSt)
  | .sym r name _ ty, st =>
    if r ∈ st.defined then (if need r then .ok (.var r, st) else .error .assertion) else
    finishX (tb.of mode).types need r ty (.name name) st
  | .const r _ ty v like, st =>
    if r ∈ st.defined then (if need r then .ok (.var r, st) else .error .assertion) else
    match constX (tb.of mode) mode ty v like st with
    | .error e => .error e
    | .ok (x, st1) => finishX (tb.of mode).types need r ty x st1
  | .constE r _ ty val like, st =>
    if r ∈ st.defined then (if need r then .ok (.var r, st) else .error .assertion) else
    match mode with
    | .cpp => .error .unsupported
    | .main =>
      match prX tb need .cpp val st with
      | .error e => .error e
      | .ok (xv, st1) =>
        finishX tb.main.types need r ty (.scalarLike like.ref xv) { st1 with late := st1.late + lateOf st1 like.ref }
  | .op1 r _ ty k a, st =>
    if r ∈ st.defined then (if need r then .ok (.var r, st) else .error .assertion) else
    match rowFor (tb.of mode) k with
    | .error e => .error e
    | .ok row =>
      match getTy (tb.of mode).types a.ty with
      | .error e => .error e
      | .ok t0 =>
        match prX tb need mode a st with
        | .error e => .error e
        | .ok (xa, st1) =>
          match piecesCheck row.pieces 1 ["typeof_0"] with
          | .error e => .error e
          | .ok _ => finishX (tb.of mode).types need r ty (.t1 row.pieces t0 xa) st1
  | .op2 r _ ty k a b, st =>
    if r ∈ st.defined then (if need r then .ok (.var r, st) else .error .assertion) else
    match rowFor (tb.of mode) k with
    | .error e => .error e
    | .ok row =>
      match getTy (tb.of mode).types a.ty with
      | .error e => .error e
      | .ok _ =>
        match getTy (tb.of mode).types b.ty with
        | .error e => .error e
        | .ok t0 =>
          match prX tb need mode a st with
          | .error e => .error e
          | .ok (xa, st1) =>
            match prX tb need mode b st1 with
            | .error e => .error e
            | .ok (xb, st2) =>
              match piecesCheck row.pieces 2 ["typeof_0"] with
              | .error e => .error e
              | .ok _ => finishX (tb.of mode).types need r ty (.t2 row.pieces t0 xa xb) st2
  | .op3 r _ ty k a b c, st =>
    if r ∈ st.defined then (if need r then .ok (.var r, st) else .error .assertion) else
    match rowFor (tb.of mode) k with
    | .error e => .error e
    | .ok row =>
      match getTy (tb.of mode).types a.ty with
      | .error e => .error e
      | .ok _ =>
        match getTy (tb.of mode).types b.ty with
        | .error e => .error e
        | .ok _ =>
          match getTy (tb.of mode).types c.ty with
          | .error e => .error e
          | .ok t0 =>
            match prX tb need mode a st with
            | .error e => .error e
            | .ok (xa, st1) =>
              match prX tb need mode b st1 with
              | .error e => .error e
              | .ok (xb, st2) =>
                match prX tb need mode c st2 with
                | .error e => .error e
                | .ok (xc, st3) =>
                  match piecesCheck row.pieces 3 ["typeof_0"] with
                  | .error e => .error e
                  | .ok _ => finishX (tb.of mode).types need r ty (.t3 row.pieces t0 xa xb xc) st3

structure XOut where
  tmplParam : Option String
  retTy : String
  name : String
  params : List (String × String)
  stmts : List Stmt
  ret : X
  late : Nat
  warnConst : Nat
  deriving Repr

def argTypes (types : List (String × String)) : List Arg → Except Err (List (String × String))
  | [] => .ok []
  | a :: as =>
    match getTy types a.ty with
    | .error e => .error e
    | .ok t => match argTypes types as with
      | .error e => .error e
      | .ok r => .ok ((t, a.name) :: r)

/-- `PrinterBase.tostring(apply)` + xla `make_apply`. -/
def printX (tb : XTabs) (f : Fn) : Except Err XOut :=
  match argTypes tb.main.types f.args with
  | .error e => .error e
  | .ok params =>
    match prX tb (needFn f) .main f.body ⟨f.argRefs.reverse, [], 0, 0⟩ with
    | .error e => .error e
    | .ok (x, st) =>
      match getTy tb.main.types f.body.ty with
      | .error e => .error e
      | .ok rt =>
        .ok { tmplParam := f.tmplParam, retTy := rt, name := f.propName.getD f.fname, params := params,
              stmts := st.stmts, ret := x, late := st.late, warnConst := st.warnConst }

def XOut.text (o : XOut) : String :=
  (match o.tmplParam with
   | some p => "template <typename " ++ p ++ "> "
   | none => "")
  ++ o.retTy ++ " " ++ o.name ++ "(" ++ ", ".intercalate (o.params.map fun p => p.1 ++ " " ++ p.2) ++ ") { "
  ++ " ".intercalate (o.stmts.map fun s => s.ty ++ " " ++ s.var ++ " = " ++ s.rhs.text ++ ";")
  ++ " return " ++ o.ret.text ++ "; }"

/-! ### Definition discipline of the emitted C++ (statement order) -/

/-- Variables an expression refers to (`ScalarLike(like, ..)` refers to `like`). -/
def X.uses : X → List String
  | .var r => [r]
  | .name _ | .litV _ | .namedV .. | .unkV _ | .infV .. => []
  | .scalarLike l v => l :: v.uses
  | .t1 _ _ a => a.uses
  | .t2 _ _ a b => a.uses ++ b.uses
  | .t3 _ _ a b c => a.uses ++ b.uses ++ c.uses

/-- Free names printed verbatim (symbols that are not parameters). -/
def X.names : X → List String
  | .name s => [s]
  | .var _ | .litV _ | .namedV .. | .unkV _ | .infV .. => []
  | .scalarLike _ v => v.names
  | .t1 _ _ a => a.names
  | .t2 _ _ a b => a.names ++ b.names
  | .t3 _ _ a b c => a.names ++ b.names ++ c.names

def usesOK (B : List String) (x : X) : Bool := x.uses.all (· ∈ B) && x.names.all (· ∈ B)

/-- Every variable is defined once, and only variables defined earlier (or parameters) are used. -/
def checkStmts : List String → List Stmt → Option (List String)
  | B, [] => some B
  | B, s :: ss => if usesOK B s.rhs && !(s.var ∈ B) then checkStmts (s.var :: B) ss else none

def checkFnX (o : XOut) : Bool :=
  match checkStmts (o.params.map (·.2)) o.stmts with
  | some B => usesOK B o.ret
  | none => false

/-- Shape of a kind template, for the operator table check. -/
inductive Shape where
  | call (f : String) (args : List Nat)       -- `f({i}, {j}, ...)`
  | infix (op : String) (i j : Nat)           -- `({i}) op ({j})`
  | pre (op : String) (i : Nat)               -- `op({i})`
  | paren (i : Nat)                           -- `({i})`
  | method (i : Nat) (m : String)             -- `({i}).m()`
  | tern (i j k : Nat)                        -- `(({i}) ? ({j}) : ({k}))`
  | ctor (f : String) (args : List Nat)       -- `f<{typeof_0}>({i}, {j})`
  | other
  deriving DecidableEq, Repr, Inhabited

def callArgs : List Piece → Option (List Nat)
  | [.arg i, .lit ")"] => some [i]
  | .arg i :: .lit ", " :: rest => (callArgs rest).map (i :: ·)
  | _ => none

def isIdentChar (c : Char) : Bool :=
  ('a' ≤ c && c ≤ 'z') || ('A' ≤ c && c ≤ 'Z') || ('0' ≤ c && c ≤ '9') || c == '_' || c == ':'

def isIdent (s : List Char) : Bool := !s.isEmpty && s.all isIdentChar

/-- `xs` = `pre ++ [c]`? returns `pre`. -/
def stripLast (c : Char) (xs : List Char) : Option (List Char) :=
  match xs.reverse with
  | d :: r => if d == c then some r.reverse else none
  | [] => none

/-- `") op ("` ↦ `op` -/
def infixOp (mid : List Char) : Option String :=
  match mid with
  | ')' :: ' ' :: rest =>
    match rest.reverse with
    | '(' :: ' ' :: r => some (String.ofList r.reverse)
    | _ => none
  | _ => none

def shapeOf (ps : List Piece) : Shape :=
  match ps with
  | [.lit "(", .arg i, .lit ")"] => .paren i
  | [.lit "(", .arg i, .lit ").real()"] => .method i "real"
  | [.lit "(", .arg i, .lit ").imag()"] => .method i "imag"
  | [.lit "((", .arg i, .lit ") ? (", .arg j, .lit ") : (", .arg k, .lit "))"] => .tern i j k
  | [.lit "(", .arg i, .lit mid, .arg j, .lit ")"] =>
    match infixOp mid.toList with
    | some op => .infix op i j
    | none => .other
  | .lit f :: .named "typeof_0" :: .lit ">(" :: rest =>
    match stripLast '<' f.toList, callArgs rest with
    | some g, some as => .ctor (String.ofList g) as
    | _, _ => .other
  | .lit f :: rest =>
    match stripLast '(' f.toList, callArgs rest with
    | some g, some as =>
      if isIdent g then .call (String.ofList g) as
      else (match as with
            | [i] => .pre (String.ofList g) i
            | _ => .other)
    | _, _ => .other
  | _ => .other

/-- trusted: kind ↦ xla client builder call / XlaOp operator (xla_builder.h, lib/math.h). -/
def trustedXla : List (String × Shape) := [
  ("absolute", .call "Abs" [0]), ("negative", .call "Neg" [0]), ("positive", .paren 0),
  ("add", .call "Add" [0, 1]), ("subtract", .call "Sub" [0, 1]), ("multiply", .call "Mul" [0, 1]),
  ("divide", .call "Div" [0, 1]), ("remainder", .call "Rem" [0, 1]), ("pow", .call "Pow" [0, 1]),
  ("logical_and", .call "And" [0, 1]), ("logical_or", .call "Or" [0, 1]), ("logical_xor", .call "Xor" [0, 1]),
  ("logical_not", .call "Not" [0]),
  ("bitwise_and", .infix "&" 0 1), ("bitwise_or", .infix "|" 0 1), ("bitwise_xor", .infix "^" 0 1),
  ("bitwise_invert", .pre "~" 0), ("bitwise_left_shift", .infix "<<" 0 1), ("bitwise_right_shift", .infix ">>" 0 1),
  ("maximum", .call "Max" [0, 1]), ("minimum", .call "Min" [0, 1]),
  ("acos", .call "Acos" [0]), ("acosh", .call "Acosh" [0]), ("asin", .call "Asin" [0]), ("asinh", .call "Asinh" [0]),
  ("atan", .call "Atan" [0]), ("atanh", .call "Atanh" [0]), ("atan2", .call "Atan2" [0, 1]),
  ("cos", .call "Cos" [0]), ("cosh", .call "Cosh" [0]), ("sin", .call "Sin" [0]), ("sinh", .call "Sinh" [0]),
  ("tan", .call "Tan" [0]), ("tanh", .call "Tanh" [0]), ("exp", .call "Exp" [0]), ("expm1", .call "Expm1" [0]),
  ("log", .call "Log" [0]), ("log1p", .call "Log1p" [0]), ("log2", .call "Log2" [0]), ("log10", .call "Log10" [0]),
  ("ceil", .call "Ceil" [0]), ("floor", .call "Floor" [0]), ("round", .call "Round" [0]), ("sign", .call "Sign" [0]),
  ("real", .call "Real" [0]), ("imag", .call "Imag" [0]), ("complex", .call "Complex" [0, 1]),
  ("conjugate", .call "Conj" [0]), ("square", .call "Square" [0]), ("sqrt", .call "Sqrt" [0]),
  ("select", .call "Select" [0, 1, 2]),
  ("lt", .call "Lt" [0, 1]), ("le", .call "Le" [0, 1]), ("gt", .call "Gt" [0, 1]), ("ge", .call "Ge" [0, 1]),
  ("eq", .call "Eq" [0, 1]), ("ne", .call "Ne" [0, 1]),
  ("is_finite", .call "IsFinite" [0]), ("is_inf", .call "IsInf" [0]), ("is_posinf", .call "IsPosInf" [0]),
  ("is_neginf", .call "IsNegInf" [0]), ("is_nan", .call "IsNan" [0]), ("is_negzero", .call "IsNegZero" [0]),
  ("nextafter", .call "NextAfter" [0, 1])]

/-- trusted: kind ↦ C++ rendering for compile-time expressions (<cmath>, <complex>, operators). -/
def trustedCpp : List (String × Shape) := [
  ("absolute", .call "std::abs" [0]), ("negative", .pre "-" 0), ("positive", .paren 0),
  ("add", .infix "+" 0 1), ("subtract", .infix "-" 0 1), ("multiply", .infix "*" 0 1), ("divide", .infix "/" 0 1),
  ("remainder", .infix "%" 0 1), ("logical_and", .infix "&&" 0 1), ("logical_or", .infix "||" 0 1),
  ("logical_not", .pre "!" 0),
  ("bitwise_and", .infix "&" 0 1), ("bitwise_or", .infix "|" 0 1), ("bitwise_xor", .infix "^" 0 1),
  ("bitwise_invert", .pre "~" 0), ("bitwise_left_shift", .infix "<<" 0 1), ("bitwise_right_shift", .infix ">>" 0 1),
  ("maximum", .call "std::max" [0, 1]), ("minimum", .call "std::min" [0, 1]),
  ("acos", .call "std::acos" [0]), ("acosh", .call "std::acosh" [0]), ("asin", .call "std::asin" [0]),
  ("asinh", .call "std::asinh" [0]), ("atan", .call "std::atan" [0]), ("atanh", .call "std::atanh" [0]),
  ("atan2", .call "std::atan2" [0, 1]), ("cos", .call "std::cos" [0]), ("cosh", .call "std::cosh" [0]),
  ("sin", .call "std::sin" [0]), ("sinh", .call "std::sinh" [0]), ("tan", .call "std::tan" [0]),
  ("tanh", .call "std::tanh" [0]), ("exp", .call "std::exp" [0]), ("expm1", .call "std::expm1" [0]),
  ("log", .call "std::log" [0]), ("log1p", .call "std::log1p" [0]), ("log2", .call "std::log2" [0]),
  ("log10", .call "std::log10" [0]), ("ceil", .call "std::ceil" [0]), ("floor", .call "std::floor" [0]),
  ("round", .call "std::round" [0]), ("real", .method 0 "real"), ("imag", .method 0 "imag"),
  ("complex", .ctor "std::complex" [0, 1]), ("sqrt", .call "std::sqrt" [0]), ("select", .tern 0 1 2),
  ("lt", .infix "<" 0 1), ("le", .infix "<=" 0 1), ("gt", .infix ">" 0 1), ("ge", .infix ">=" 0 1),
  ("eq", .infix "==" 0 1), ("ne", .infix "!=" 0 1), ("is_finite", .call "std::isfinite" [0])]

/-- kinds whose C++ rendering is not a plain operator shape; their exact template is the specification -/
def trustedCppRaw : List (String × String) := [
  ("sign", "({0} == 0 ? {0} : std::copysign(1, {0}))")]

/-- A row of an XLA-style table is right: the stored pieces re-render to the raw template (the
translator's parse is faithful) and the template has the specified shape. -/
def rowSpec (spec : List (String × Shape)) (rawSpec : List (String × String)) (k : String) (ps : List Piece) : Bool :=
  match rawSpec.lookup k with
  | some want => renderPieces ps == want
  | none => spec.lookup k == some (shapeOf ps) && shapeOf ps != .other

def xRowOk (spec : List (String × Shape)) (rawSpec : List (String × String)) (row : TRow) : Bool :=
  match row.raw with
  | none => row.pieces == []
  | some raw => renderPieces row.pieces == raw && rowSpec spec rawSpec row.kind row.pieces

def trustedCppConst : List (String × String) := [
  ("smallest", "std::numeric_limits<{type}>::min()"), ("largest", "std::numeric_limits<{type}>::max()"),
  ("posinf", "std::numeric_limits<{type}>::infinity()"), ("neginf", "-std::numeric_limits<{type}>::infinity()"),
  ("pi", "M_PI"), ("nan", "NAN")]

def xConstOk (row : TRow) : Bool :=
  match row.raw with
  | none => row.pieces == []
  | some raw => renderPieces row.pieces == raw && trustedCppConst.lookup row.kind == some raw

def trustedXlaTypes : List (String × String) :=
  [("float", "XlaOp"), ("complex", "XlaOp"), ("boolean", "XlaOp"), ("type", "XlaOp")]

def trustedCppTypes : List (String × String) := [
  ("integer8", "int8_t"), ("integer16", "int16_t"), ("integer32", "int32_t"), ("integer64", "int64_t"),
  ("integer", "int64_t"), ("float32", "float"), ("float64", "double"), ("float", "double"),
  ("complex64", "std::complex<float>"), ("complex128", "std::complex<double>"),
  ("complex", "std::complex<double>"), ("boolean", "bool")]

/-! ## Alternative context: wrapping and folding of constants (expr.py `Expr.__new__`, 340-373) -/

/-- compile-time (alternative-context) expression -/
inductive A where
  | c (v : String)
  | op1 (k : String) (a : A)
  | op2 (k : String) (a b : A)
  | op3 (k : String) (a b c : A)
  deriving DecidableEq, Repr, Inhabited

/-- run-time expression as `Expr.__new__` builds it -/
inductive R where
  | sym (x : String)
  | constV (v : String) (like : R)     -- alt disabled: the value itself
  | constA (v : A) (like : R)          -- alt enabled: `context.alt.constant(value)` / folded expression
  | op1 (k : String) (a : R)
  | op2 (k : String) (a b : R)
  | op3 (k : String) (a b c : R)
  deriving DecidableEq, Repr, Inhabited

/-- `normalize_like`, constant case: the like of a constant is the (already normalised) like of that
constant.  (With the alternative context an operation over constants IS a constant.) -/
def likeOf : R → R
  | .constA _ l => l
  | .constV _ l => l
  | r => r

/-- `make_constant` / `Expr(ctx, "constant", (value, like))`: with `context.alt` the value is wrapped. -/
def mkConst (alt : Bool) (v : String) (like : R) : R :=
  if alt then .constA (.c v) (likeOf like) else .constV v (likeOf like)

/-- `Expr(ctx, kind, operands)`: with `context.alt`, when every operand is a constant the operation
moves into the alternative context and the result is a constant like the FIRST operand's like. -/
def mkOp1 (alt : Bool) (k : String) (a : R) : R :=
  if alt then
    match a with
    | .constA va la => .constA (.op1 k va) la
    | _ => .op1 k a
  else .op1 k a

def mkOp2 (alt : Bool) (k : String) (a b : R) : R :=
  if alt then
    match a, b with
    | .constA va la, .constA vb _ => .constA (.op2 k va vb) la
    | _, _ => .op2 k a b
  else .op2 k a b

def mkOp3 (alt : Bool) (k : String) (a b c : R) : R :=
  if alt then
    match a, b, c with
    | .constA va la, .constA vb _, .constA vc _ => .constA (.op3 k va vb vc) la
    | _, _, _ => .op3 k a b c
  else .op3 k a b c

/-- An interpretation of kinds and literals over a carrier `V` (the SAME at compile time and at run time). -/
structure Interp (V : Type) where
  lit : String → V
  f1 : String → V → V
  f2 : String → V → V → V
  f3 : String → V → V → V → V

def evalA {V : Type} (I : Interp V) : A → V
  | .c v => I.lit v
  | .op1 k a => I.f1 k (evalA I a)
  | .op2 k a b => I.f2 k (evalA I a) (evalA I b)
  | .op3 k a b c => I.f3 k (evalA I a) (evalA I b) (evalA I c)

def evalR {V : Type} (I : Interp V) (env : String → V) : R → V
  | .sym x => env x
  | .constV v _ => I.lit v
  | .constA a _ => evalA I a
  | .op1 k a => I.f1 k (evalR I env a)
  | .op2 k a b => I.f2 k (evalR I env a) (evalR I env b)
  | .op3 k a b c => I.f3 k (evalR I env a) (evalR I env b) (evalR I env c)

end FAVerif.PrinterHLO
