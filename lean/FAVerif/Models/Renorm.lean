/-
Model of the expansion renormalisation in functional_algorithms/apmath.py (vecsum,
renormalize: VecSum + VecSumErrBranch, eager and functional variants, nztopk compaction),
generic over the arithmetic so that the same definitions are
  * evaluated on bit patterns with the softfloat (driver, correspondence with the real code),
  * reasoned about over ℚ with an abstract round-to-nearest (theorems for every length).
Hand-written; tied by correspondence (fav/props/c12.py, Drivers/Renorm.lean).
-/
namespace FAVerif.Renorm

structure Arith (α : Type) where
  add : α → α → α
  sub : α → α → α
  zero : α
  isZero : α → Bool

variable {α : Type} (A : Arith α)

/-- fpa.add_2sum(x, y, fast=False) -/
def twoSum (x y : α) : α × α :=
  let s := A.add x y
  let z := A.sub s x
  (s, A.add (A.sub x (A.sub s z)) (A.sub y z))

/-- fpa.add_2sum(x, y, fast=True) -/
def fastTwoSum (x y : α) : α × α :=
  let s := A.add x y
  let z := A.sub s x
  (s, A.sub y z)

def two (fast : Bool) (x y : α) : α × α := if fast then fastTwoSum A x y else twoSum A x y

/-- apmath.vecsum: `s = seq[-1]; for i reversed: s, e = two_sum(seq[i], s)`; result `[s, e_0, …]`. -/
def vecsum (fast : Bool) : List α → List α
  | [] => []
  | [a] => [a]
  | a :: rest =>
    match vecsum fast rest with
    | [] => [a]
    | s :: es => let r := two A fast a s; r.1 :: r.2 :: es

/-- VecSumErrBranch, eager variant (data-dependent branching on zero). -/
def errBranch (fast : Bool) (eps : α) : List α → List α
  | [] => if A.isZero eps then [] else [eps]
  | x :: xs =>
    let r := two A fast eps x
    if A.isZero r.2 then errBranch fast r.1 xs else r.1 :: errBranch fast r.2 xs

/-- VecSumErrBranch, functional variant for input length > 2: selects instead of branches. -/
def errBranchF (fast : Bool) (eps : α) : List α → List α
  | [] => [eps]
  | x :: xs =>
    let r := two A fast eps x
    if A.isZero r.2 then A.zero :: errBranchF fast r.1 xs else r.1 :: errBranchF fast r.2 xs

/-- renormalize(seq, functional=False, size=None) -/
def renormEager (fast : Bool) (seq : List α) : List α :=
  match vecsum A fast seq with
  | [] => []
  | e0 :: es => errBranch A fast e0 es

/-- nztopk for k = length: the non-zero items in order, padded with zeros. -/
def compact (l : List α) : List α :=
  let nz := l.filter (fun a => !A.isZero a)
  nz ++ List.replicate (l.length - nz.length) A.zero

/-- renormalize(seq, functional=True, size=None) for len(seq) > 2 (before / after compaction). -/
def renormFunctionalRaw (fast : Bool) (seq : List α) : List α :=
  match vecsum A fast seq with
  | [] => []
  | e0 :: es => errBranchF A fast e0 es

def renormFunctional (fast : Bool) (seq : List α) : List α :=
  match seq with
  | [_, _] =>
    -- len == 2: one two_sum after vecsum, no selects; nztopk on two items
    match vecsum A fast seq with
    | [e0, e1] => let r := two A fast e0 e1; compact A [r.1, r.2]
    | l => l
  | _ => compact A (renormFunctionalRaw A fast seq)

/-! ### products of expansions (apmath.multiply / apmath.square before the final renormalisation)

`tp` is the error-free product `two_prod` (Dekker): it returns (hi, lo). -/

/-- one index of a diagonal of `apmath.multiply` -/
def mulStep (tp : α → α → α × α) (seq1 seq2 : List α) (n : Nat) (acc : List α × List α) (i1 : Nat) : List α × List α :=
  if i1 ≤ n ∧ n - i1 < seq2.length then
    match seq1[i1]?, seq2[n - i1]? with
    | some a, some b => let pe := tp a b; (acc.1 ++ [pe.1], acc.2 ++ [pe.2])
    | _, _ => acc
  else acc

/-- diagonal `n` of `apmath.multiply`: the pairs (i1, n − i1) with i1 < len seq1 and 0 ≤ n − i1 < len seq2, in the order of i1;
returns (p_lst, ne_lst) -/
def mulDiag (tp : α → α → α × α) (seq1 seq2 : List α) (n : Nat) : List α × List α :=
  (List.range seq1.length).foldl (mulStep tp seq1 seq2 n) ([], [])

/-- one index of a diagonal of `apmath.square`; off-diagonal products are doubled -/
def squareStep (tp : α → α → α × α) (seq : List α) (n : Nat) (acc : List α × List α) (i1 : Nat) : List α × List α :=
  if i1 ≤ n ∧ i1 ≤ n - i1 ∧ n - i1 < seq.length then
    match seq[i1]?, seq[n - i1]? with
    | some a, some b =>
      let pe := tp a b
      if i1 < n - i1 then (acc.1 ++ [A.add pe.1 pe.1], acc.2 ++ [A.add pe.2 pe.2]) else (acc.1 ++ [pe.1], acc.2 ++ [pe.2])
    | _, _ => acc
  else acc

/-- diagonal `n` of `apmath.square`: the pairs i1 ≤ i2 = n − i1 < len seq -/
def squareDiag (tp : α → α → α × α) (seq : List α) (n : Nat) : List α × List α :=
  (List.range seq.length).foldl (squareStep A tp seq n) ([], [])

/-- the accumulation loop shared by `multiply` and `square`: for each diagonal, `lst = vecsum(p_lst + e_lst)`,
`r_lst.append(lst[0])`, `e_lst = lst[1:] + ne_lst` -/
def accumulate (fast : Bool) (diag : Nat → List α × List α) : List Nat → List α × List α → List α × List α
  | [], st => st
  | n :: ns, (r_lst, e_lst) =>
    let d := diag n
    match vecsum A fast (d.1 ++ e_lst) with
    | [] => accumulate fast diag ns (r_lst, e_lst)     -- unreachable in the real code (IndexError)
    | s :: es => accumulate fast diag ns (r_lst ++ [s], es ++ d.2)

/-- `apmath.multiply(seq1, seq2)` up to (excluding) the final `renormalize`; both operands non-empty -/
def mulRaw (tp : α → α → α × α) (fast : Bool) (seq1 seq2 : List α) : List α :=
  match seq1, seq2 with
  | a :: _, b :: _ =>
    let pe := tp a b
    let st := accumulate A fast (mulDiag tp seq1 seq2) ((List.range (seq1.length + seq2.length)).drop 1) ([pe.1], [pe.2])
    st.1 ++ st.2
  | _, _ => []

/-- `apmath.square(seq)` up to (excluding) the final `renormalize` -/
def squareRaw (tp : α → α → α × α) (fast : Bool) (seq : List α) : List α :=
  match seq with
  | a :: _ =>
    let pe := tp a a
    let st := accumulate A fast (squareDiag A tp seq) ((List.range (seq.length * 2)).drop 1) ([pe.1], [pe.2])
    st.1 ++ st.2
  | [] => []

end FAVerif.Renorm
