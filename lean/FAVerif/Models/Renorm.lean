/-
Model of the expansion renormalisation in functional_algorithms/apmath.py (vecsum,
renormalize: VecSum + VecSumErrBranch, eager and functional variants, nztopk compaction),
generic over the arithmetic so that the same definitions are
  * evaluated on bit patterns with the softfloat (driver, correspondence with the real code),
  * reasoned about over ℚ with an abstract round-to-nearest (theorems for every length).
Hand-written; tied by correspondence (fav/props/c12.py, Drivers/Renorm.lean).
-/
namespace FAVerif.Renorm

structure Arith (α : Type) where
  add : α → α → α
  sub : α → α → α
  zero : α
  isZero : α → Bool

variable {α : Type} (A : Arith α)

/-- fpa.add_2sum(x, y, fast=False) -/
def twoSum (x y : α) : α × α :=
  let s := A.add x y
  let z := A.sub s x
  (s, A.add (A.sub x (A.sub s z)) (A.sub y z))

/-- fpa.add_2sum(x, y, fast=True) -/
def fastTwoSum (x y : α) : α × α :=
  let s := A.add x y
  let z := A.sub s x
  (s, A.sub y z)

def two (fast : Bool) (x y : α) : α × α := if fast then fastTwoSum A x y else twoSum A x y

/-- apmath.vecsum: `s = seq[-1]; for i reversed: s, e = two_sum(seq[i], s)`; result `[s, e_0, …]`. -/
def vecsum (fast : Bool) : List α → List α
  | [] => []
  | [a] => [a]
  | a :: rest =>
    match vecsum fast rest with
    | [] => [a]
    | s :: es => let r := two A fast a s; r.1 :: r.2 :: es

/-- VecSumErrBranch, eager variant (data-dependent branching on zero). -/
def errBranch (fast : Bool) (eps : α) : List α → List α
  | [] => if A.isZero eps then [] else [eps]
  | x :: xs =>
    let r := two A fast eps x
    if A.isZero r.2 then errBranch fast r.1 xs else r.1 :: errBranch fast r.2 xs

/-- VecSumErrBranch, functional variant for input length > 2: selects instead of branches. -/
def errBranchF (fast : Bool) (eps : α) : List α → List α
  | [] => [eps]
  | x :: xs =>
    let r := two A fast eps x
    if A.isZero r.2 then A.zero :: errBranchF fast r.1 xs else r.1 :: errBranchF fast r.2 xs

/-- renormalize(seq, functional=False, size=None) -/
def renormEager (fast : Bool) (seq : List α) : List α :=
  match vecsum A fast seq with
  | [] => []
  | e0 :: es => errBranch A fast e0 es

/-- nztopk for k = length: the non-zero items in order, padded with zeros. -/
def compact (l : List α) : List α :=
  let nz := l.filter (fun a => !A.isZero a)
  nz ++ List.replicate (l.length - nz.length) A.zero

/-- renormalize(seq, functional=True, size=None) for len(seq) > 2 (before / after compaction). -/
def renormFunctionalRaw (fast : Bool) (seq : List α) : List α :=
  match vecsum A fast seq with
  | [] => []
  | e0 :: es => errBranchF A fast e0 es

def renormFunctional (fast : Bool) (seq : List α) : List α :=
  match seq with
  | [_, _] =>
    -- len == 2: one two_sum after vecsum, no selects; nztopk on two items
    match vecsum A fast seq with
    | [e0, e1] => let r := two A fast e0 e1; compact A [r.1, r.2]
    | l => l
  | _ => compact A (renormFunctionalRaw A fast seq)

end FAVerif.Renorm
