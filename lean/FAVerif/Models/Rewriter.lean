/-
C04 — hand model of `functional_algorithms/rewrite.py` (class `Rewriter`, `rewrite`,
`__rewrite_modifier__`), of the inference properties `Expr._is_*`, `Expr.is_complex`,
`Expr.get_type`, `normalize_like`/`make_constant` of `functional_algorithms/expr.py` and of the
bottom-up traversal `Expr.rewrite(..., deep_first=True)`.  Mathlib-free and executable.

The port follows the Python *as it is written*, including evaluation order and the places
where it raises (`assert not self.is_complex`, `NotImplementedError` of `is_complex` /
`get_type`, `math.sqrt` domain error, key comparison `TypeError`).

Conventions
* Expressions are trees; `x is y` of the hash-consed implementation is structural equality
  (C07); NaN payloads are canonicalised (one NaN).
* `x.key > y.key` is the parameter `Cfg.ord` (`none` = the comparison raises `TypeError`).
* The three relational tables are the parameter `Cfg.T` (regenerated from the module on every
  run, `Generated/C04Tables.lean`).
* Python/NumPy numeric values of constants are `CVal`; arithmetic on them is bit exact
  (`FP/Soft.lean`), with NumPy-2 promotion rules (Python scalars are weak).
* `Cfg.strict` adds *checks only*: a fold / cast whose result is not the exact rational
  result, a fold of two constants whose `like` types differ, a cast of a named constant to a
  dtype other than `Cfg.work`, make the model throw `Err.inexact`; `Cfg.strictUD` makes the
  rule `upcast(downcast(x)) -> x` throw.  With both flags off the model is the plain port.
-/
import FAVerif.FP.Soft

namespace FAVerif.Rewriter
open FAVerif.FP

/-! ## Errors -/

inductive Err where
  | assertion | notImpl | typeError | valueError | overflow
  | unsupported (what : String)   -- outside the modelled fragment (not an implementation error)
  | inexact (what : String)       -- strict mode only
  | fuel
  deriving DecidableEq, Repr

abbrev M := Except Err

/-- lazy `and` / `or` of Python conditions whose evaluation may raise -/
def andM (a b : M Bool) : M Bool := do if (← a) then b else pure false
def orM (a b : M Bool) : M Bool := do if (← a) then pure true else b
/-- truthiness of a three-valued answer (`None`/`False` are falsy) -/
def truthy (o : Option Bool) : Bool := o == some true
def tr (m : M (Option Bool)) : M Bool := do return truthy (← m)
/-- `not r` when `r is not None` -/
def onot (o : Option Bool) : Option Bool := o.map (!·)
/-- the answer is `False` (so its negation, `_is_positive` / `_is_negative`, is truthy) -/
def isF (o : Option Bool) : Bool := o == some false

/-- `a and b` on two three-valued answers with the tests `p`, `p'`; `b` is only evaluated
(its exception only propagates) when `p a` holds -/
def andT (a : M (Option Bool)) (p : Option Bool → Bool) (b : M (Option Bool)) (p' : Option Bool → Bool) : M Bool := do
  if p (← a) then do return p' (← b) else pure false

/-- a chain `if c1: return r1; if c2: return r2; ...; return None` -/
def firstM {α : Type} : List (M Bool × α) → M (Option α)
  | [] => pure none
  | (c, r) :: rest => do if (← c) then pure (some r) else firstM rest

/-- a chain of steps each of which may return a result (`some`) or fall through (`none`) -/
def firstSome {α : Type} : List (M (Option α)) → M (Option α)
  | [] => pure none
  | m :: ms => do
    match (← m) with
    | some r => pure (some r)
    | none => firstSome ms

/-- strict-mode check -/
def failIf (c : Bool) (e : Err) : M Unit := if c then throw e else pure ()

/-! ## Types (`typesystem.Type`, scalar kinds only) -/

inductive TKind where
  | boolean | integer | float | complex | other
  deriving DecidableEq, Repr

structure Ty where
  kind : TKind
  bits : Option Nat
  deriving DecidableEq, Repr

def TKind.rank : TKind → Nat
  | .boolean => 0 | .integer => 1 | .float => 2 | .complex => 3 | .other => 4

def validBits (b : Option Nat) : Bool :=
  match b with
  | none => true
  | some n => n == 1 || n == 8 || n == 16 || n == 32 || n == 64 || n == 128 || n == 256 || n == 512

/-- `Type.__new__` asserts the parameter is one of the allowed widths. -/
def mkTy (k : TKind) (b : Option Nat) : M Ty :=
  if validBits b then pure ⟨k, b⟩ else throw .assertion

def optMax (a b : Option Nat) : Option Nat :=
  match a, b with
  | none, x => x
  | x, none => x
  | some m, some n => some (max m n)

/-- `Type.max` -/
def Ty.max (a b : Ty) : M Ty :=
  if a = b then pure a
  else if a.kind = .other || b.kind = .other then throw .notImpl
  else
    let k := if a.kind.rank ≥ b.kind.rank then a.kind else b.kind
    let ba := if a.kind = k then a.bits else none
    let bb := if b.kind = k then b.bits else none
    pure ⟨k, optMax ba bb⟩

/-! ## Constant values -/

/-- Python `float` (`py`, weak in NumPy-2 promotion) or `numpy.float16/32/64`. -/
inductive FTag where
  | py | f16 | f32 | f64
  deriving DecidableEq, Repr

def FTag.fmt : FTag → Fmt
  | .py => binary64 | .f16 => binary16 | .f32 => binary32 | .f64 => binary64
def FTag.rank : FTag → Nat
  | .py => 0 | .f16 => 1 | .f32 => 2 | .f64 => 3

inductive CVal where
  | bool (b : Bool)
  | int (n : Int)                          -- Python `int`
  | flt (t : FTag) (bits : Nat)            -- IEEE pattern in `t.fmt`
  | cplx (t : FTag) (re im : Nat)          -- `complex` (py) / `numpy.complex64` (f32) / `complex128` (f64)
  | name (s : String)
  | other (d : String)                     -- anything else (NumPy integers, longdouble ...)
  deriving DecidableEq, Repr

/-- extended rational value of a float pattern -/
inductive ExtQ where
  | nan | ninf | fin (q : Rat) | pinf
  deriving DecidableEq, Repr

def extOfBits (f : Fmt) (b : Nat) : ExtQ :=
  match decode f b with
  | .nan => .nan
  | .inf s => if s then .ninf else .pinf
  | .fin s m e => .fin ((if s then -1 else 1) * (m : Rat) * pow2 e)

/-- one NaN in the model (the implementation's constant key keeps the sign of zero:
`(value, type(value).__name__, str(value))`) -/
def canonBits (f : Fmt) (b : Nat) : Nat :=
  if isNaNBits f b then f.nanBits else b

/-- float constant; bit patterns are canonicalised when the constant node is made (`canonVal`) -/
def mkFlt (t : FTag) (b : Nat) : CVal := .flt t b

/-- numeric view: `bool` is an `int` -/
inductive PNum where
  | i (n : Int) | f (t : FTag) (b : Nat)
  deriving DecidableEq, Repr

def CVal.pnum? : CVal → Option PNum
  | .bool b => some (.i (if b then 1 else 0))
  | .int n => some (.i n)
  | .flt t b => some (.f t b)
  | _ => none

def PNum.toCVal : PNum → CVal
  | .i n => .int n
  | .f t b => mkFlt t b

def PNum.ext : PNum → ExtQ
  | .i n => .fin (n : Rat)
  | .f t b => extOfBits t.fmt b

/-- value of a constant as an extended rational (named constants: see `namedBits`) -/
def CVal.ext? : CVal → Option ExtQ
  | .bool b => some (.fin (if b then 1 else 0))
  | .int n => some (.fin (n : Rat))
  | .flt t b => some (extOfBits t.fmt b)
  | _ => none

/-- `isinstance(value, number_types)` (bool is an int) -/
def CVal.isNumber : CVal → Bool
  | .bool _ | .int _ | .flt .. | .cplx .. => true
  | _ => false
/-- `isinstance(value, float_types)` -/
def CVal.isFloat : CVal → Bool
  | .flt .. => true | _ => false
/-- `isinstance(value, float_types + integer_types)` -/
def CVal.isReal : CVal → Bool
  | .bool _ | .int _ | .flt .. => true | _ => false

def extEqQ (x : ExtQ) (q : Rat) : Bool := x == .fin q

/-- Python `value == 0` on a number -/
def CVal.eq0 : CVal → Bool
  | .bool b => !b
  | .int n => n == 0
  | .flt t b => extEqQ (extOfBits t.fmt b) 0
  | .cplx t re im => extEqQ (extOfBits t.fmt re) 0 && extEqQ (extOfBits t.fmt im) 0
  | _ => false
/-- Python `value == 1` on a number -/
def CVal.eq1 : CVal → Bool
  | .bool b => b
  | .int n => n == 1
  | .flt t b => extEqQ (extOfBits t.fmt b) 1
  | .cplx t re im => extEqQ (extOfBits t.fmt re) 1 && extEqQ (extOfBits t.fmt im) 0
  | _ => false

def ExtQ.le : ExtQ → ExtQ → Bool
  | .nan, _ => false | _, .nan => false
  | .ninf, _ => true | _, .pinf => true
  | .pinf, _ => false | _, .ninf => false
  | .fin a, .fin b => a ≤ b
def ExtQ.lt : ExtQ → ExtQ → Bool
  | .nan, _ => false | _, .nan => false
  | .pinf, _ => false | _, .ninf => false
  | .ninf, _ => true | _, .pinf => true
  | .fin a, .fin b => a < b
def ExtQ.eq : ExtQ → ExtQ → Bool
  | .nan, _ => false | _, .nan => false
  | a, b => a == b

/-- `value >= 0`, `value <= 0` on floats / ints -/
def CVal.ge0 (v : CVal) : Bool := match v.ext? with | some x => ExtQ.le (.fin 0) x | none => false
def CVal.le0 (v : CVal) : Bool := match v.ext? with | some x => ExtQ.le x (.fin 0) | none => false

def ExtQ.abs : ExtQ → ExtQ
  | .nan => .nan
  | .fin q => .fin (if q < 0 then -q else q)
  | _ => .pinf
def ExtQ.neg : ExtQ → ExtQ
  | .nan => .nan
  | .fin q => .fin (-q)
  | .pinf => .ninf
  | .ninf => .pinf

def ExtQ.isFinite : ExtQ → Bool
  | .fin _ => true | _ => false

/-! ### Conversions -/

/-- Python `float(n)` / NumPy conversion of a Python int: through binary64, `OverflowError`
when the int does not fit. -/
def intToBits (t : FTag) (n : Int) : M Nat :=
  let d := ofInt binary64 n
  if (decode binary64 d).isInf then throw .overflow
  else pure (convert binary64 t.fmt d)

def PNum.castTo (t : FTag) : PNum → M Nat
  | .i n => intToBits t n
  | .f s b => pure (convert s.fmt t.fmt b)

/-- NumPy-2 result kind of a binary operation on two scalars (Python floats are weak). -/
def resTag : PNum → PNum → FTag
  | .i _, .i _ => .py
  | .i _, .f t _ => t
  | .f t _, .i _ => t
  | .f s _, .f t _ => if s = .py then t else if t = .py then s else if s.rank ≥ t.rank then s else t

inductive AOp where
  | add | sub | mul
  deriving DecidableEq, Repr

def AOp.onInt : AOp → Int → Int → Int
  | .add, a, b => a + b | .sub, a, b => a - b | .mul, a, b => a * b
def AOp.onRat : AOp → Rat → Rat → Rat
  | .add, a, b => a + b | .sub, a, b => a - b | .mul, a, b => a * b
def AOp.onBits (f : Fmt) : AOp → Nat → Nat → Nat
  | .add => FP.add f | .sub => FP.sub f | .mul => FP.mul f

/-- Python `x + y`, `x - y`, `x * y` on numbers -/
def pyArith (op : AOp) (a b : PNum) : M PNum :=
  match a, b with
  | .i m, .i n => pure (.i (op.onInt m n))
  | _, _ => do
    let t := resTag a b
    let x ← a.castTo t
    let y ← b.castTo t
    pure (.f t (op.onBits t.fmt x y))

/-- relational operators, index as in the tables: `>= > <= < == !=` -/
inductive Rel where
  | ge | gt | le | lt | eq | ne
  deriving DecidableEq, Repr

def Rel.index : Rel → Nat
  | .ge => 0 | .gt => 1 | .le => 2 | .lt => 3 | .eq => 4 | .ne => 5
def Rel.swapIndex : Rel → Nat
  | .ge => 2 | .gt => 3 | .le => 0 | .lt => 1 | .eq => 4 | .ne => 5

def Rel.onExt : Rel → ExtQ → ExtQ → Bool
  | .ge, a, b => ExtQ.le b a
  | .gt, a, b => ExtQ.lt b a
  | .le, a, b => ExtQ.le a b
  | .lt, a, b => ExtQ.lt a b
  | .eq, a, b => ExtQ.eq a b
  | .ne, a, b => !ExtQ.eq a b

/-- operands of a comparison after NumPy promotion (Python int vs Python float: exact) -/
def cmpOperands (a b : PNum) : M (ExtQ × ExtQ) :=
  match a, b with
  | .i _, .i _ => pure (a.ext, b.ext)
  | .i _, .f .py _ => pure (a.ext, b.ext)
  | .f .py _, .i _ => pure (a.ext, b.ext)
  | _, _ => do
    let t := resTag a b
    let x ← a.castTo t
    let y ← b.castTo t
    pure (extOfBits t.fmt x, extOfBits t.fmt y)

def pyRel (r : Rel) (a b : PNum) : M Bool := do
  let (x, y) ← cmpOperands a b
  pure (r.onExt x y)

/-- Python builtin `min(x, y)` = `y if y < x else x`, `max(x, y)` = `y if y > x else x` -/
def pyMin (a b : PNum) : M PNum := do if (← pyRel .lt b a) then pure b else pure a
def pyMax (a b : PNum) : M PNum := do if (← pyRel .gt b a) then pure b else pure a

def pyAbs : PNum → PNum
  | .i n => .i (Int.ofNat n.natAbs)
  | .f t b => .f t (FP.abs t.fmt b)
def pyNeg : PNum → PNum
  | .i n => .i (-n)
  | .f t b => .f t (FP.neg t.fmt b)

/-! ### dtypes -/

inductive DT where
  | fl (t : FTag) | cx (t : FTag)
  deriving DecidableEq, Repr

/-- `Type.asdtype()` for scalar kinds: `getattr(numpy, str(type), None)`.  `integer64`,
`boolean8`, `float8`, `complex32` ... are not NumPy names (→ `None`); `float128` and
`complex256` exist but are outside the model. -/
def asDtype (t : Ty) : M (Option DT) :=
  match t.kind, t.bits with
  | .float, some 16 => pure (some (.fl .f16))
  | .float, some 32 => pure (some (.fl .f32))
  | .float, some 64 => pure (some (.fl .f64))
  | .float, some 128 => throw (.unsupported "float128")
  | .complex, some 64 => pure (some (.cx .f32))
  | .complex, some 128 => pure (some (.cx .f64))
  | .complex, some 256 => throw (.unsupported "complex256")
  | _, _ => pure none

/-- `isinstance(value, dtype)`; `numpy.float64` is *not* a supertype of Python `float`. -/
def isInstanceDT (v : CVal) (d : DT) : Bool :=
  match v, d with
  | .flt t _, .fl s => t = s && t ≠ .py
  | .cplx t _ _, .cx s => t = s && t ≠ .py
  | _, _ => false

/-- `dtype(value)` for a number -/
def castDT (d : DT) (v : CVal) : M CVal :=
  match d with
  | .fl t =>
    match v.pnum? with
    | some p => do return mkFlt t (← p.castTo t)
    | none => match v with
      | .cplx .. => throw .typeError
      | _ => throw (.unsupported "cast")
  | .cx t =>
    match v with
    | .cplx s re im => pure (.cplx t (canonBits t.fmt (convert s.fmt t.fmt re)) (canonBits t.fmt (convert s.fmt t.fmt im)))
    | _ => match v.pnum? with
      | some p => do return .cplx t (canonBits t.fmt (← p.castTo t)) 0
      | none => throw (.unsupported "cast")

/-- bit pattern of `2^e` (normal) -/
def pow2Bits (f : Fmt) (e : Int) : Nat := roundFin f false 1 e false

def piBits : FTag → Nat
  | .f16 => 0x4248 | .f32 => 0x40490fdb | _ => 0x400921fb54442d18

/-- value the rule `constant` gives a named constant in dtype `t`
(`numpy.inf`, `numpy.pi`, `numpy.nan`, `numpy.finfo(dtype)`). -/
def namedBits (t : FTag) (s : String) : Option Nat :=
  let f := t.fmt
  if s = "posinf" then some f.infBits
  else if s = "neginf" then some (f.signBit + f.infBits)
  else if s = "pi" then some (piBits t)
  else if s = "undefined" || s = "nan" then some f.nanBits
  else if s = "eps" then some (pow2Bits f (-(f.p - 1 : Nat)))
  else if s = "largest" then some f.maxBits
  else if s = "smallest" then some f.minNormalBits
  else if s = "smallest_subnormal" then some 1
  else none

def knownNames : List String :=
  ["eps", "posinf", "neginf", "smallest", "largest", "smallest_subnormal", "pi", "undefined", "nan"]

/-! ## Expressions -/

inductive K1 where
  | negative | positive | absolute | sqrt | square | sign | logical_not | upcast | downcast
  | conjugate | real | imag | log | log10 | log2 | log1p
  | other (name : String)
  deriving DecidableEq, Repr

inductive K2 where
  | add | subtract | multiply | divide | minimum | maximum
  | logical_and | logical_or | logical_xor
  | lt | le | gt | ge | eq | ne
  | complex
  | other (name : String)
  deriving DecidableEq, Repr

inductive Expr where
  | sym (name : String) (ty : Ty)
  | const (v : CVal) (like : Expr)
  | un (k : K1) (x : Expr)
  | bin (k : K2) (x y : Expr)
  | select (c x y : Expr)
  deriving DecidableEq, Repr

def K2.rel? : K2 → Option Rel
  | .ge => some .ge | .gt => some .gt | .le => some .le | .lt => some .lt | .eq => some .eq | .ne => some .ne
  | _ => none
def Rel.kind : Rel → K2
  | .ge => .ge | .gt => .gt | .le => .le | .lt => .lt | .eq => .eq | .ne => .ne

def Expr.isConst : Expr → Bool
  | .const .. => true | _ => false

def unaryTypeNames : List String :=
  ["asin", "acos", "atan", "asinh", "acosh", "atanh", "sinh", "cosh", "tanh", "sin", "cos", "tan",
   "exp", "exp2", "expm1", "ceil", "floor", "copysign", "asin_acos_kernel"]
def binaryTypeNames : List String := ["pow", "hypot", "remainder", "atan2"]
def booleanTypeNames : List String := ["is_finite"]

def boolTy : Ty := ⟨.boolean, none⟩

/-- `Expr.get_type` -/
def getType : Expr → M Ty
  | .sym _ t => pure t
  | .const _ like => getType like
  | .select _ x y => do (← getType x).max (← getType y)
  | .un k x =>
    match k with
    | .negative | .positive | .sqrt | .square | .logical_not | .sign | .conjugate
    | .log | .log10 | .log2 | .log1p => getType x
    | .absolute | .real | .imag => do
        let t ← getType x
        if t.kind = .complex then
          match t.bits with
          | some b => mkTy .float (some (b / 2))
          | none => pure ⟨.float, none⟩
        else pure t
    | .upcast => do
        let t ← getType x
        match t.kind with
        | .other => throw .notImpl
        | _ => mkTy t.kind (t.bits.map (· * 2))
    | .downcast => do
        let t ← getType x
        match t.kind with
        | .other => throw .notImpl
        | _ => mkTy t.kind (t.bits.map (· / 2))
    | .other n =>
        if unaryTypeNames.contains n then getType x
        else if booleanTypeNames.contains n then pure boolTy
        else throw .notImpl
  | .bin k x y =>
    match k with
    | .lt | .le | .gt | .ge | .eq | .ne | .logical_and | .logical_or | .logical_xor => pure boolTy
    | .add | .subtract | .multiply | .divide | .minimum | .maximum => do (← getType x).max (← getType y)
    | .complex => do
        let t ← (← getType x).max (← getType y)
        match t.kind with
        | .other => throw .notImpl
        | _ => mkTy .complex (t.bits.map (· * 2))
    | .other n =>
        if binaryTypeNames.contains n then do (← getType x).max (← getType y)
        else if n = "copysign" then getType x
        else throw .notImpl

def notComplexUnary : List String := ["bitwise_invert", "ceil", "floor", "len", "dtype_index"]
def notComplexBinary : List String :=
  ["bitwise_and", "bitwise_or", "bitwise_xor", "bitwise_left_shift", "bitwise_right_shift", "hypot",
   "floor_divide", "remainder"]
def operandComplexUnary : List String :=
  ["asin", "acos", "atan", "asinh", "acosh", "atanh", "sinh", "cosh", "tanh", "sin", "cos", "tan",
   "exp", "expm1", "exp2"]

/-- `Expr.is_complex` (raises `NotImplementedError` for kinds it does not list) -/
def isComplex : Expr → M Bool
  | .sym _ t => pure (t.kind == .complex)
  | .const _ like => isComplex like
  | .select _ x _ => isComplex x
  | .un k x =>
    match k with
    | .real | .imag | .absolute | .logical_not => pure false
    | .conjugate => pure true
    | .positive | .negative | .sqrt | .square | .log | .log1p | .log2 | .log10 => isComplex x
    | .sign | .upcast | .downcast => throw .notImpl
    | .other n =>
        if notComplexUnary.contains n then pure false
        else if operandComplexUnary.contains n then isComplex x
        else throw .notImpl
  | .bin k x y =>
    match k with
    | .lt | .le | .gt | .ge | .eq | .ne | .logical_and | .logical_or | .logical_xor
    | .maximum | .minimum => pure false
    | .complex => pure true
    | .add | .subtract | .divide | .multiply => orM (isComplex x) (isComplex y)
    | .other n =>
        if notComplexBinary.contains n then pure false
        else if n = "pow" then orM (isComplex x) (isComplex y)
        else throw .notImpl

/-- `Expr._is_boolean` -/
def isBoolean : Expr → Bool
  | .sym _ t => t.kind == .boolean
  | .const _ like => isBoolean like
  | .select _ x _ => isBoolean x
  | .un .logical_not _ => true
  | .un _ _ => false
  | .bin k _ _ =>
    match k with
    | .lt | .le | .gt | .ge | .eq | .ne | .logical_and | .logical_or | .logical_xor => true
    | _ => false

def likeFirstUnary : List String :=
  ["acos", "acosh", "asin", "asinh", "atan", "atanh", "cos", "cosh", "sin", "sinh", "tan", "tanh",
   "exp", "exp2", "expm1", "conj", "asin_acos_kernel"]
def likeFirstBinary : List String := ["atan2", "hypot"]

/-- `normalize_like` -/
def normalizeLike : Expr → M Expr
  | .sym n t => pure (.sym n t)
  | .const _ like => normalizeLike like
  | .select _ x _ => normalizeLike x
  | .un k x =>
    match k with
    | .negative | .positive | .sqrt | .square | .log | .log1p | .log2 | .log10 => normalizeLike x
    | .absolute => do
        if (← isComplex x) then pure (.un .absolute x) else normalizeLike x
    | .real =>
        match x with
        | .bin .complex a _ => normalizeLike a
        | _ => pure (.un .real x)
    | .imag =>
        match x with
        | .bin .complex _ b => normalizeLike b
        | _ => pure (.un .imag x)
    | .other n => if likeFirstUnary.contains n then normalizeLike x else pure (.un k x)
    | _ => pure (.un k x)
  | .bin k x y =>
    match k with
    | .add | .subtract | .multiply | .divide | .maximum | .minimum => normalizeLike x
    | .other n => if likeFirstBinary.contains n then normalizeLike x else pure (.bin k x y)
    | _ => pure (.bin k x y)

def canonVal : CVal → CVal
  | .flt t b => .flt t (canonBits t.fmt b)
  | .cplx t re im => .cplx t (canonBits t.fmt re) (canonBits t.fmt im)
  | v => v

/-- `make_constant` (`ctx.constant(value, like)`).  `strict`: check that canonicalising the bit
pattern does not change the value (always true for patterns of the right width). -/
def mkConstS (strict : Bool) (v : CVal) (like : Expr) : M Expr :=
  if strict && (canonVal v).ext? != v.ext? then throw (.inexact "internal:canon")
  else do return .const (canonVal v) (← normalizeLike like)

/-- `ctx.constant(True/False)`: the like is the symbol `_boolean_value : boolean` -/
def boolConst (b : Bool) : Expr := .const (.bool b) (.sym "_boolean_value" boolTy)

/-! ## Inference (`Expr._is_*`) -/

def namedKnown (s : String) : Bool := knownNames.contains s
def namedNaN (s : String) : Bool := s == "undefined" || s == "nan"

/-- `assert not self.is_complex` -/
def assertReal (e : Expr) : M Unit := do
  if (← isComplex e) then throw .assertion

abbrev Signs := M (Option Bool) × M (Option Bool)
/-- the operand's `_is_nonnegative` (`q = true`) / `_is_nonpositive` (`q = false`) -/
def Signs.get (s : Signs) (q : Bool) : M (Option Bool) := if q then s.1 else s.2

/-- constants -/
def constSign (q : Bool) (v : CVal) : Option Bool :=
  if v.isReal then some (if q then v.ge0 else v.le0)
  else match v with
    | .name s =>
      if s == "neginf" then some (!q)
      else if namedNaN s then none
      else if namedKnown s then some q
      else none
    | _ => none

/-- unary kinds; `s` are the answers for the operand -/
def unSign (q : Bool) (k : K1) (s : Signs) : M (Option Bool) :=
  match k with
  | .negative => s.get (!q)
  | .positive => s.get q
  | .sqrt =>
    if q then firstM [(tr (s.get true), true)]
    else firstM [(do return isF (← s.get false), false)]       -- operand `_is_positive`
  | .absolute | .square =>
    if q then pure (some true)
    else firstM [(do return isF (← s.get false), false),       -- operand `_is_positive`
                 (do return isF (← s.get true), false)]        -- operand `_is_negative`
  | _ => pure none

/-- binary kinds; `same` is `x is y and x.kind != "constant"` -/
def binSign (q : Bool) (k : K2) (same : Bool) (sx sy : Signs) : M (Option Bool) :=
  match k with
  | .add =>
    firstM [(andT (sx.get q) truthy (sy.get q) truthy, true),
            (andT (sx.get q) isF (sy.get q) isF, false)]
  | .subtract =>
    firstM [(andT (sx.get q) truthy (sy.get (!q)) truthy, true),
            (andT (sx.get q) isF (sy.get (!q)) isF, false)]
  | .multiply | .divide =>
    if q then
      firstM [(andT (sx.get true) truthy (sy.get true) truthy, true),
              (andT (sx.get false) truthy (sy.get false) truthy, true),
              (pure same, true),
              (andT (sx.get true) isF (sy.get false) isF, false),
              (andT (sx.get false) isF (sy.get true) isF, false)]
    else
      firstM [(andT (sx.get false) truthy (sy.get false) isF, true),
              (andT (sx.get true) truthy (sy.get true) isF, true),
              (andT (sx.get true) isF (sy.get true) isF, false),
              (andT (sx.get false) isF (sy.get false) isF, false)]
  | _ => pure none

/-- `(_is_nonnegative, _is_nonpositive)` of a node.  The implementation caches each answer per
node; the model computes the pair bottom-up once (an answer that would raise is an `Except`
value that only propagates when the Python code would evaluate it), which keeps the evaluation
order of the original and avoids recomputation. -/
def signs : Expr → Signs
  | .sym n t =>
    let c := assertReal (.sym n t)
    (do c; pure none, do c; pure none)
  | .const v l =>
    let c := assertReal (.const v l)
    (do c; pure (constSign true v), do c; pure (constSign false v))
  | .select a x y =>
    let c := assertReal (.select a x y)
    (do c; pure none, do c; pure none)
  | .un k x =>
    let s := signs x
    let c := assertReal (.un k x)
    (do c; unSign true k s, do c; unSign false k s)
  | .bin k x y =>
    let sx := signs x
    let sy := signs y
    let c := assertReal (.bin k x y)
    let same := x == y && !x.isConst
    (do c; binSign true k same sx sy, do c; binSign false k same sx sy)

def isNonneg (e : Expr) : M (Option Bool) := (signs e).1
def isNonpos (e : Expr) : M (Option Bool) := (signs e).2
/-- `_is_positive`: `not _is_nonpositive` when known -/
def isPos (e : Expr) : M (Option Bool) := do return onot (← isNonpos e)
/-- `_is_negative`: `not _is_nonnegative` when known -/
def isNeg (e : Expr) : M (Option Bool) := do return onot (← isNonneg e)

/-- `_is_zero` -/
def isZero : Expr → M (Option Bool)
  | .const v _ =>
    if v.isNumber then pure (some v.eq0)
    else match v with
      | .name s => if namedNaN s then pure none else if namedKnown s then pure (some false) else pure none
      | _ => pure none
  | .un .sqrt x => do
    if (← tr (isNeg x)) then pure none else isZero x
  | .un .square x => isZero x
  | .un .absolute x => isZero x
  | e => do
    if (← orM (tr (isPos e)) (tr (isNeg e))) then pure (some false) else pure none

/-- `_is_nonzero` -/
def isNonzero (e : Expr) : M (Option Bool) := do return onot (← isZero e)

/-- `_is_one` -/
def isOne : Expr → M (Option Bool)
  | .const v _ =>
    if v.isNumber then pure (some v.eq1)
    else match v with
      | .name s => if namedNaN s then pure none else if namedKnown s then pure (some false) else pure none
      | _ => pure none
  | .un .sqrt x => do
    if (← tr (isNeg x)) then pure none else isOne x
  | .un .square x => isOne x
  | .un .absolute x => isOne x
  | e => do
    if (← tr (isNonpos e)) then pure (some false) else pure none

/-- the loop `for x in self.operands: r = x._is_finite ...` -/
def allFinite (rs : List (M (Option Bool))) : M (Option Bool) :=
  match rs with
  | [] => pure (some true)
  | r :: rest => do
    match (← r) with
    | none => pure none
    | some false => pure (some false)
    | some true => allFinite rest

/-- `_is_finite` -/
def isFinite : Expr → M (Option Bool)
  | .const v _ =>
    match v with
    | .name s =>
      if s == "posinf" || s == "neginf" then pure (some false)
      else if namedNaN s then pure none
      else if namedKnown s then pure (some true)
      else pure none
    | .flt t b => pure (some (extOfBits t.fmt b).isFinite)
    | .int _ | .bool _ => pure (some true)
    | _ => pure none
  | .bin .divide x y => do
    let viaConst : M (Option (Option Bool)) :=
      match y with
      | .const yv _ => do
        if (← tr (isZero y)) then pure (some (some false))
        else if yv == .name "posinf" || yv == .name "neginf" then do return some (← isFinite x)
        else pure none
      | _ => pure none
    match (← viaConst) with
    | some r => pure r
    | none =>
      -- `x._is_finite and y._is_finite`
      match (← isFinite x) with
      | some true => isFinite y
      | r => pure r
  | e@(.un .sqrt _) => do
    if (← tr (isNonneg e)) then pure (some true) else pure none
  | .un .positive x => allFinite [isFinite x]
  | .un .negative x => allFinite [isFinite x]
  | .un .absolute x => allFinite [isFinite x]
  | .un .square x => allFinite [isFinite x]
  | .bin .add x y => allFinite [isFinite x, isFinite y]
  | .bin .subtract x y => allFinite [isFinite x, isFinite y]
  | .bin .multiply x y => allFinite [isFinite x, isFinite y]
  | _ => pure none

inductive Prop' where
  | positive | negative | nonpositive | nonnegative | finite
  deriving DecidableEq, Repr

def Prop'.name : Prop' → String
  | .positive => "positive" | .negative => "negative" | .nonpositive => "nonpositive"
  | .nonnegative => "nonnegative" | .finite => "finite"

/-- `expr._is(prop)` -/
def isProp (p : Prop') (e : Expr) : M (Option Bool) :=
  match p with
  | .positive => isPos e
  | .negative => isNeg e
  | .nonpositive => isNonpos e
  | .nonnegative => isNonneg e
  | .finite => isFinite e

/-! ## Relational tables -/

inductive Key where
  | name (s : String)
  | num (n : Int)
  deriving DecidableEq, Repr

abbrev Row := List (Option Bool)
abbrev Table := List ((Key × Key) × Row)

structure Tables where
  cc : Table   -- `_constant_relop_constant`
  ca : Table   -- `_constant_relop_any` (after the module's completion loop)
  aa : Table   -- `_any_relop_any`
  deriving Repr

def Table.get (t : Table) (k : Key × Key) : Option Row := t.lookup k

/-- integral rational → the int that hashes/compares equal to it -/
def ratKey (q : Rat) : Option Key := if q.den == 1 then some (.num q.num) else none

/-- dictionary key a constant value is equal to (Python `==`/`hash`: `True == 1 == 1.0`) -/
def keyOf : CVal → Option Key
  | .name s => some (.name s)
  | .bool b => some (.num (if b then 1 else 0))
  | .int n => some (.num n)
  | .flt t b => match extOfBits t.fmt b with
    | .fin q => ratKey q
    | _ => none
  | .cplx t re im =>
    if extEqQ (extOfBits t.fmt im) 0 then
      match extOfBits t.fmt re with
      | .fin q => ratKey q
      | _ => none
    else none
  | .other _ => none

/-! ## The rewriter -/

structure Cfg where
  T : Tables
  /-- `x.key > y.key`; `none`: the comparison raises `TypeError` -/
  ord : Expr → Expr → Option Bool
  strict : Bool := false
  strictUD : Bool := false
  work : Option FTag := none
  /-- floating-point reading: constants that take part in a fold must be representable in the
  working dtype -/
  fp : Bool := false

/-- every value of tag `t` is a value of the working dtype `w` -/
def FTag.within (t w : FTag) : Bool :=
  match t with
  | .f16 => true
  | .f32 => w != .f16
  | .py | .f64 => w == .py || w == .f64

/-- the constant is exactly representable in the working dtype (integers: up to 2^11, the
integer range of binary16) -/
def repOK (work : Option FTag) : CVal → Bool
  | .bool _ => true
  | .int n => n.natAbs ≤ 2048
  | .flt t _ => match work with
    | some w => t.within w
    | none => false
  | _ => false

def repGuard (cfg : Cfg) (v : CVal) : Bool := !cfg.fp || repOK cfg.work v

def guardRep (cfg : Cfg) (v : CVal) : M Unit :=
  if repGuard cfg v then pure () else throw (.inexact "constant outside the working format")

def mkConst (cfg : Cfg) (v : CVal) (like : Expr) : M Expr := mkConstS cfg.strict v like

def keyGt (cfg : Cfg) (x y : Expr) : M Bool :=
  match cfg.ord x y with
  | some b => pure b
  | none => throw .typeError

/-- strict-mode check that a float/int result has exactly the rational value `q` -/
def guardExact (cfg : Cfg) (what : String) (r : ExtQ) (q : Option Rat) : M Unit :=
  if cfg.strict then
    match q with
    | some q => if r == .fin q then pure () else throw (.inexact what)
    | none => throw (.inexact what)
  else pure ()

def ExtQ.rat? : ExtQ → Option Rat
  | .fin q => some q | _ => none

/-- strict mode: the two `like`s of a fold must have the same type -/
def guardSameType (cfg : Cfg) (xl yl : Expr) : M Unit :=
  if cfg.strict then do
    if (← getType xl) = (← getType yl) then pure () else throw (.inexact "mixed-type fold")
  else pure ()

/-- `_binary_op(expr, op)` for `+ - *` -/
def foldArith (cfg : Cfg) (op : AOp) (x y : Expr) : M (Option Expr) :=
  match x, y with
  | .const xv xl, .const yv yl =>
    if xv.isNumber && yv.isNumber then
      match xv.pnum?, yv.pnum? with
      | some a, some b => do
        let r ← pyArith op a b
        guardSameType cfg xl yl
        guardRep cfg xv
        guardRep cfg yv
        guardExact cfg "arith" r.ext (match a.ext, b.ext with | .fin p, .fin q => some (op.onRat p q) | _, _ => none)
        return some (← mkConst cfg r.toCVal xl)
      | _, _ => throw (.unsupported "complex fold")
    else pure none
  | _, _ => pure none

/-- `_binary_op(expr, min/max)` -/
def foldMinMax (cfg : Cfg) (isMin : Bool) (x y : Expr) : M (Option Expr) :=
  match x, y with
  | .const xv xl, .const yv yl =>
    if xv.isNumber && yv.isNumber then
      match xv.pnum?, yv.pnum? with
      | some a, some b => do
        let r ← if isMin then pyMin a b else pyMax a b
        guardSameType cfg xl yl
        guardRep cfg xv
        guardRep cfg yv
        -- strict: the comparison inside Python's min/max must be the comparison of the exact values
        failIf (cfg.strict && r != (if isMin then (if Rel.lt.onExt b.ext a.ext then b else a)
                                     else (if Rel.gt.onExt b.ext a.ext then b else a)))
          (.inexact "min/max after promotion")
        failIf (cfg.strict && (a.ext == .nan || b.ext == .nan)) (.inexact "nan")
        -- keep the Python type of the chosen operand (bool stays bool)
        let rv : CVal := if r == a then xv else yv
        return some (← mkConst cfg rv xl)
      | _, _ => throw .typeError   -- ordering complex numbers
    else pure none
  | _, _ => pure none

def constIs (p : CVal → Bool) : Expr → Bool
  | .const v _ => v.isNumber && p v
  | _ => false

def rAdd (cfg : Cfg) (x y : Expr) : M (Option Expr) := do
  match (← foldArith cfg .add x y) with
  | some r => pure (some r)
  | none =>
    if constIs CVal.eq0 x then pure (some y)
    else if constIs CVal.eq0 y then pure (some x)
    else pure none

def rSubtract (cfg : Cfg) (x y : Expr) : M (Option Expr) := do
  match (← foldArith cfg .sub x y) with
  | some r => pure (some r)
  | none =>
    if constIs CVal.eq0 x then pure (some (.un .negative y))
    else if constIs CVal.eq0 y then pure (some x)
    else pure none

def rMultiply (cfg : Cfg) (x y : Expr) : M (Option Expr) := do
  match (← foldArith cfg .mul x y) with
  | some r => pure (some r)
  | none =>
    if constIs CVal.eq1 x then pure (some y)
    else if constIs CVal.eq1 y then pure (some x)
    else pure none

def rDivide (_cfg : Cfg) (x y : Expr) : M (Option Expr) :=
  if constIs CVal.eq1 y then pure (some x) else pure none

def rAbsolute (cfg : Cfg) (x : Expr) : M (Option Expr) :=
  match x with
  | .un .absolute _ => pure (some x)
  | .const v like =>
    if v.isNumber then
      match v.pnum? with
      | some p => do
        failIf (cfg.strict && (pyAbs p).ext != p.ext.abs) (.inexact "internal:abs")
        return some (← mkConst cfg (pyAbs p).toCVal like)
      | none => throw (.unsupported "abs(complex)")
    else pure none
  | _ => pure none

def rNegative (cfg : Cfg) (x : Expr) : M (Option Expr) :=
  match x with
  | .const v like =>
    if v.isNumber then
      match v with
      | .cplx t re im => do return some (← mkConst cfg (.cplx t (FP.neg t.fmt re) (FP.neg t.fmt im)) like)
      | _ => match v.pnum? with
        | some p => do
          failIf (cfg.strict && (pyNeg p).ext != p.ext.neg) (.inexact "internal:neg")
          return some (← mkConst cfg (pyNeg p).toCVal like)
        | none => pure none
    else pure none
  | .un .negative a => pure (some a)
  | _ => pure none

/-- the value the rule `constant` gives the node (`none`: the rule does not fire): bring the
value to the dtype of `like` -/
def constantVal (v : CVal) (like : Expr) : M (Option CVal) := do
  let typ ← getType like
  if (typ.kind == .float || typ.kind == .complex) && typ.bits.isSome then
    match (← asDtype typ) with
    | none => pure none
    | some d =>
      if v.isNumber then
        if isInstanceDT v d then pure none
        else do return some (← castDT d v)
      else match v with
        | .name s =>
          match d with
          | .fl t => pure ((namedBits t s).map (mkFlt t))
          | .cx _ => if (namedBits .f64 s).isSome then throw (.unsupported "named complex constant") else pure none
        | _ => pure none
  else if typ.kind == .float && typ.bits.isNone then
    -- `not isinstance(value, float) and isinstance(value, number_types)` → `float(value)`
    match v with
    | .flt .py _ | .flt .f64 _ => pure none
    | .cplx .. => throw .typeError
    | _ =>
      match v.pnum? with
      | some p => do return some (mkFlt .py (← p.castTo .py))
      | none => pure none
  else if typ.kind == .complex && typ.bits.isNone then
    match v with
    | .cplx .py _ _ => pure none
    | .cplx .f64 _ _ => pure none   -- numpy.complex128 is a Python complex
    | .cplx s re im => pure (some (.cplx .py (convert s.fmt binary64 re) (convert s.fmt binary64 im)))
    | _ => match v.pnum? with
      | some p => do return some (.cplx .py (← p.castTo .py) 0)
      | none => pure none
  else pure none

/-- strict-mode check of the rule `constant`: the new value denotes the same number (a named
constant: it is the constant's value in the working dtype) -/
def constSame (cfg : Cfg) (v nv : CVal) : Bool :=
  match v with
  | .name s => match cfg.work with
    | some t => (namedBits t s).map (mkFlt t) == some nv
    | none => false
  | _ => v.isReal && nv.isReal && nv.ext? == v.ext? && v.ext? != some .nan

/-- the rule `constant` -/
def rConstant (cfg : Cfg) (v : CVal) (like : Expr) : M (Option Expr) := do
  match (← constantVal v like) with
  | some nv => do
    failIf (cfg.strict && !constSame cfg v nv) (.inexact "constant cast")
    return some (← mkConst cfg nv like)
  | none => pure none

def rUpcast (cfg : Cfg) (x : Expr) : M (Option Expr) :=
  match x with
  | .un .downcast a => if cfg.strictUD then throw (.inexact "upcast(downcast(x)) -> x") else pure (some a)
  | _ => pure none

def rDowncast (_cfg : Cfg) (x : Expr) : M (Option Expr) :=
  match x with
  | .un .upcast a => pure (some a)
  | _ => pure none

/-- `log`, `log10`, `log2`: `f(1) -> 0` -/
def rLog (cfg : Cfg) (x : Expr) : M (Option Expr) :=
  match x with
  | .const v like => if v.isNumber && v.eq1 then do return some (← mkConst cfg (.int 0) like) else pure none
  | _ => pure none

def rLog1p (_cfg : Cfg) (x : Expr) : M (Option Expr) :=
  match x with
  | .const v _ => if v.isNumber && v.eq0 then pure (some x) else pure none
  | _ => pure none

def constBool? : Expr → Option Bool
  | .const (.bool b) _ => some b
  | _ => none

def rLogicalAnd (cfg : Cfg) (x y : Expr) : M (Option Expr) :=
  firstSome [
    pure ((constBool? x).map fun b => if b then y else boolConst false),
    pure ((constBool? y).map fun b => if b then x else boolConst false),
    pure (if x == y then some x else none),
    pure (match x with
      | .bin .logical_and a b => if y == b || y == a then some x else none
      | _ => none),
    pure (match y with
      | .bin .logical_and a b => if x == a || x == b then some y else none
      | _ => none),
    (do if (← keyGt cfg x y) then pure (some (.bin .logical_and y x)) else pure none)]

def rLogicalNot (cfg : Cfg) (x : Expr) : M (Option Expr) :=
  match x with
  | .const (.bool b) like => do return some (← mkConst cfg (.bool (!b)) like)
  | .bin .eq a b => pure (some (.bin .ne a b))
  | .bin .ne a b => pure (some (.bin .eq a b))
  | .bin .lt a b => pure (some (.bin .le b a))
  | .bin .le a b => pure (some (.bin .lt b a))
  | .bin .gt a b => pure (some (.bin .le a b))
  | .bin .ge a b => pure (some (.bin .lt a b))
  | _ => pure none

/-- `self._try_rewrite(ctx.logical_not(x))` -/
def tryNot (cfg : Cfg) (x : Expr) : M Expr := do
  match (← rLogicalNot cfg x) with
  | some r => pure r
  | none => pure (.un .logical_not x)

/-- `self._try_rewrite(ctx.logical_and(x, y))` -/
def tryAnd (cfg : Cfg) (x y : Expr) : M Expr := do
  match (← rLogicalAnd cfg x y) with
  | some r => pure r
  | none => pure (.bin .logical_and x y)

/-- one iteration of the loop `for x_, y_ in [(x, y), (y, x)]` of `logical_or` -/
def orStep (cfg : Cfg) (x_ y_ : Expr) : M (Option Expr) :=
  match constBool? x_ with
  | some b => pure (some (if b then boolConst true else y_))
  | none => do
    let notY ← tryNot cfg y_
    match x_ with
    | .bin .logical_and a b =>
      if a == notY then pure (some (.bin .logical_or b y_))
      else if .un .logical_not a == y_ then pure (some (.bin .logical_or b y_))
      else if b == notY then pure (some (.bin .logical_or a y_))
      else if .un .logical_not b == y_ then pure (some (.bin .logical_or a y_))
      else pure none
    | _ => pure none

def rLogicalOr (cfg : Cfg) (x y : Expr) : M (Option Expr) :=
  firstSome [
    orStep cfg x y,
    orStep cfg y x,
    pure (if x == y then some x else none),
    (do if (← keyGt cfg x y) then pure (some (.bin .logical_or y x)) else pure none)]

def rConjugate (cfg : Cfg) (x : Expr) : M (Option Expr) :=
  match x with
  | .const v like =>
    match v with
    | .flt .. => pure (some x)
    | .cplx t re im => do return some (← mkConst cfg (.cplx t re (FP.neg t.fmt im)) like)
    | _ => pure none
  | .bin .complex re im => pure (some (.bin .complex re (.un .negative im)))
  | .un .conjugate _ => pure (some x)
  | _ => pure none

def rReal (_cfg : Cfg) (x : Expr) : M (Option Expr) :=
  match x with
  | .bin .complex re _ => pure (some re)
  | _ => pure none

def rImag (_cfg : Cfg) (x : Expr) : M (Option Expr) :=
  match x with
  | .bin .complex _ im => pure (some im)
  | _ => pure none

def propsList : List Prop' := [.positive, .negative, .nonpositive, .nonnegative, .finite]

def propPairs : List (Prop' × Prop') :=
  [(.positive, .negative), (.positive, .nonnegative), (.positive, .nonpositive),
   (.negative, .positive), (.negative, .nonpositive), (.negative, .nonnegative),
   (.nonpositive, .negative), (.nonpositive, .nonnegative), (.nonpositive, .positive),
   (.nonnegative, .positive), (.nonnegative, .nonpositive), (.nonnegative, .negative)]

/-- table entry `r[i]` when the row exists and the entry is not `None` -/
def entry (t : Table) (k : Key × Key) (i : Nat) : Option Bool :=
  match t.get k with
  | some row => (row[i]?).join
  | none => none

/-- `for prop in [...]: if e._is(prop): r = _constant_relop_any.get((value, prop)) ...` -/
def scanConstAny (cfg : Cfg) (vk : Option Key) (e : Expr) (i : Nat) : List Prop' → M (Option Bool)
  | [] => pure none
  | p :: ps => do
    if (← tr (isProp p e)) then
      match vk with
      | some k =>
        match entry cfg.T.ca (k, .name p.name) i with
        | some b => return some b
        | none => scanConstAny cfg vk e i ps
      | none => scanConstAny cfg vk e i ps
    else scanConstAny cfg vk e i ps

def scanAnyAny (cfg : Cfg) (x y : Expr) (i : Nat) : List (Prop' × Prop') → M (Option Bool)
  | [] => pure none
  | (p, q) :: ps => do
    if (← andM (tr (isProp p x)) (tr (isProp q y))) then
      match entry cfg.T.aa (.name p.name, .name q.name) i with
      | some b => return some b
      | none => scanAnyAny cfg x y i ps
    else scanAnyAny cfg x y i ps

/-- first part of `_compare`: folding by tables / by evaluation; `some b` = `return constant(b)` -/
def compareFold (cfg : Cfg) (r : Rel) (x y : Expr) : M (Option Bool) :=
  match x, y with
  | .const xv _, .const yv _ => do
    let viaTable : M (Option Bool) :=
      match keyOf xv, keyOf yv with
      | some kx, some ky =>
        match cfg.T.cc.get (kx, ky) with
        | some row =>
          match (row[r.index]?).join with
          | some b => pure (some b)
          | none => throw .assertion     -- `ctx.constant(None)`
        | none => pure none
      | _, _ => pure none
    match (← viaTable) with
    | some b => pure (some b)
    | none =>
      if xv.isNumber && yv.isNumber then
        match xv.pnum?, yv.pnum? with
        | some a, some b => do
          let res ← pyRel r a b
          guardRep cfg xv
          guardRep cfg yv
          failIf (cfg.strict && (a.ext == .nan || b.ext == .nan)) (.inexact "nan")
          -- strict: the comparison must be the comparison of the exact values (casts inside
          -- NumPy's promotion may round)
          failIf (cfg.strict && res != r.onExt a.ext b.ext) (.inexact "comparison after promotion")
          return some res
        | _, _ =>
          -- Python complex: `TypeError`; NumPy complex scalars compare lexicographically: outside the model
          throw (.unsupported "comparison of complex constants")
      else pure none
  | .const xv _, _ =>
    if xv.isNumber then scanConstAny cfg (keyOf xv) y r.index propsList else pure none
  | _, .const yv _ =>
    if yv.isNumber then scanConstAny cfg (keyOf yv) x r.swapIndex propsList else pure none
  | _, _ => scanAnyAny cfg x y r.index propPairs

/-- `x rop x` -/
def Rel.refl : Rel → Bool
  | .eq | .le | .ge => true
  | _ => false

/-- `select(cond, a, b) rop y -> (cond and a rop y) or (not cond and b rop y)` (`flip`: the select
is the right operand) -/
def distribute (cfg : Cfg) (r : Rel) (flip : Bool) (cond a b other : Expr) : M Expr := do
  let notCond ← tryNot cfg cond
  let l ← tryAnd cfg cond (if flip then .bin r.kind other a else .bin r.kind a other)
  let rr ← tryAnd cfg notCond (if flip then .bin r.kind other b else .bin r.kind b other)
  return .bin .logical_or l rr

def rCompare (cfg : Cfg) (r : Rel) (x y : Expr) : M (Option Expr) :=
  firstSome [
    (do return (← compareFold cfg r x y).map boolConst),
    pure (if x == y then some (boolConst r.refl) else none),
    (match x with
      | .select cond a b => do return some (← distribute cfg r false cond a b y)
      | _ => pure none),
    (match y with
      | .select cond a b => do return some (← distribute cfg r true cond a b x)
      | _ => pure none),
    (match r with
      | .eq | .ne => do if (← keyGt cfg x y) then pure (some (.bin r.kind y x)) else pure none
      | _ => pure none)]

/-- the nested-select part of the rule `select`, for a select in the first arm -/
def selectInner (cfg : Cfg) (cond x y : Expr) : M (Option Expr) :=
  match x with
  | .select cond1 a b =>
    if b == y then pure (some (.select (.bin .logical_and cond cond1) a y))
    else if a == y then do
      let notCond1 ← tryNot cfg cond1
      let c ← tryAnd cfg cond notCond1
      return some (.select c b y)
    else pure none
  | _ => pure none

/-- second half of the rule `select` (after the condition normalisation):
`if y.kind == "select": cond = not cond; x, y = y, x`, then the nested-select patterns -/
def selectNested (cfg : Cfg) (cond x y : Expr) : M (Option Expr) :=
  match y with
  | .select .. => do selectInner cfg (← tryNot cfg cond) y x
  | _ => selectInner cfg cond x y

def rSelect (cfg : Cfg) (cond x y : Expr) : M (Option Expr) :=
  match constBool? cond with
  | some b => pure (some (if b then x else y))
  | none =>
    if x == y then pure (some x)
    else match cond with
      | .bin .eq a b => if a == x && b == y then pure (some y) else selectNested cfg cond x y
      | .bin .ne a b => if a == x && b == y then pure (some x) else pure (some (.select (.bin .eq a b) y x))
      | .bin .ge a b => pure (some (.select (.bin .lt a b) y x))
      | .bin .gt a b => pure (some (.select (.bin .le a b) y x))
      | _ => selectNested cfg cond x y

/-- the value computed by `_eval(like, "sqrt"|"square", value)` (`none`: `_eval` returns `None`) -/
def evalVal (isSqrt : Bool) (like : Expr) (p : PNum) : M (Option CVal) := do
  let typ ← getType like
  let viaDtype : M (Option (Option CVal)) :=
    if typ.bits.isSome && typ.kind != .other then do
      match (← asDtype typ) with
      | some (.fl t) => do
        let a ← p.castTo t
        return some (some (mkFlt t (if isSqrt then FP.sqrt t.fmt a else FP.mul t.fmt a a)))
      | some (.cx _) => throw (.unsupported "complex eval")
      | none => pure none
    else pure none
  match (← viaDtype) with
  | some r => pure r
  | none =>
    if typ.kind == .float then
      if isSqrt then do
        -- `math.sqrt(value)`: through a C double, `ValueError` on a negative argument
        let a ← p.castTo .py
        match extOfBits binary64 a with
        | .ninf => throw .valueError
        | .fin q => if q < 0 then throw .valueError
        | _ => pure ()
        return some (mkFlt .py (FP.sqrt binary64 a))
      else do
        -- `x * x` on the raw Python value
        return some (← pyArith .mul p p).toCVal
    else pure none

/-- strict-mode check of `_eval`: the result is the exact square root / square -/
def evalExact (isSqrt : Bool) (x : ExtQ) (y : Option ExtQ) : Bool :=
  match x, y with
  | .fin q, some (.fin s) => if isSqrt then (s * s == q && decide (0 ≤ s)) else s == q * q
  | _, _ => false

/-- `_eval(like, "sqrt"|"square", value)` -/
def evalFn (cfg : Cfg) (isSqrt : Bool) (like : Expr) (p : PNum) : M (Option Expr) := do
  match (← evalVal isSqrt like p) with
  | some rv => do
    guardRep cfg p.toCVal
    failIf (cfg.strict && !(rv.isReal && evalExact isSqrt p.ext rv.ext?)) (.inexact "eval")
    return some (← mkConst cfg rv like)
  | none => pure none

def rSqrt (cfg : Cfg) (x : Expr) : M (Option Expr) :=
  match x with
  | .const v like =>
    if v.isNumber then
      if v.eq0 || v.eq1 then pure (some x)
      else match v.pnum? with
        | some p => evalFn cfg true like p
        | none => throw (.unsupported "sqrt(complex)")
    else pure none
  | _ => pure none

def rSquare (cfg : Cfg) (x : Expr) : M (Option Expr) :=
  match x with
  | .const v like =>
    if v.isNumber then
      match v.pnum? with
      | some p => evalFn cfg false like p
      | none => throw (.unsupported "square(complex)")
    else pure none
  | _ => pure none

def rSign (cfg : Cfg) (x : Expr) : M (Option Expr) :=
  match x with
  | .const v like =>
    match v with
    | .flt t b =>
      let e := extOfBits t.fmt b
      if v.eq0 then do return some (← mkConst cfg (.int 0) like)
      else do return some (← mkConst cfg (.int (if ExtQ.lt (.fin 0) e then 1 else -1)) like)
    | _ => pure none
  | .un .sign _ => pure (some x)
  | _ => pure none

/-- the rule method selected by `getattr(self, expr.kind, ...)`; `none` = the method returned
`None` (or there is no method) -/
def rule (cfg : Cfg) : Expr → M (Option Expr)
  | .sym .. => pure none
  | .const v like => rConstant cfg v like
  | .select c x y => rSelect cfg c x y
  | .un k x =>
    match k with
    | .negative => rNegative cfg x
    | .absolute => rAbsolute cfg x
    | .sqrt => rSqrt cfg x
    | .square => rSquare cfg x
    | .sign => rSign cfg x
    | .logical_not => rLogicalNot cfg x
    | .upcast => rUpcast cfg x
    | .downcast => rDowncast cfg x
    | .conjugate => rConjugate cfg x
    | .real => rReal cfg x
    | .imag => rImag cfg x
    | .log | .log10 | .log2 => rLog cfg x
    | .log1p => rLog1p cfg x
    | .positive | .other _ => pure none
  | .bin k x y =>
    match k with
    | .add => rAdd cfg x y
    | .subtract => rSubtract cfg x y
    | .multiply => rMultiply cfg x y
    | .divide => rDivide cfg x y
    | .minimum => foldMinMax cfg true x y
    | .maximum => foldMinMax cfg false x y
    | .logical_and => rLogicalAnd cfg x y
    | .logical_or => rLogicalOr cfg x y
    | .ge => rCompare cfg .ge x y
    | .gt => rCompare cfg .gt x y
    | .le => rCompare cfg .le x y
    | .lt => rCompare cfg .lt x y
    | .eq => rCompare cfg .eq x y
    | .ne => rCompare cfg .ne x y
    | .logical_xor | .complex | .other _ => pure none

/-- `Rewriter._try_rewrite` -/
def tryRewrite (cfg : Cfg) (e : Expr) : M Expr := do
  match (← rule cfg e) with
  | some n => pure n
  | none => pure e

/-- `Rewriter.__call__` -/
def call (cfg : Cfg) (e : Expr) : M (Option Expr) := do
  match (← rule cfg e) with
  | some r => do return some (← tryRewrite cfg r)
  | none => pure none

/-- the `while True` loop of `rewrite(expr)`; running out of fuel is `Err.fuel` -/
def rewriteLoop (cfg : Cfg) : Nat → Expr → Option Expr → M (Option Expr)
  | 0, _, _ => throw .fuel
  | n + 1, cur, last => do
    match (← call cfg cur) with
    | some r => rewriteLoop cfg n r (some r)
    | none => pure last

/-- `rewrite.__rewrite_modifier__` -/
def modifier (cfg : Cfg) (fuel : Nat) (e : Expr) : M Expr := do
  match (← rewriteLoop cfg fuel e none) with
  | some r => pure r
  | none => pure e

/-- `Expr.rewrite(modifier, deep_first=True)`: operands first (left to right), then the node.
The memo table of the implementation only avoids recomputation. -/
def rewriteDeep (cfg : Cfg) (fuel : Nat) : Expr → M Expr
  | .sym n t => modifier cfg fuel (.sym n t)
  | .const v like => do
    let like' ← rewriteDeep cfg fuel like
    let e' ← if like' == like then pure (.const v like) else mkConst cfg v like'
    modifier cfg fuel e'
  | .un k x => do
    let x' ← rewriteDeep cfg fuel x
    modifier cfg fuel (.un k x')
  | .bin k x y => do
    let x' ← rewriteDeep cfg fuel x
    let y' ← rewriteDeep cfg fuel y
    modifier cfg fuel (.bin k x' y')
  | .select c x y => do
    let c' ← rewriteDeep cfg fuel c
    let x' ← rewriteDeep cfg fuel x
    let y' ← rewriteDeep cfg fuel y
    modifier cfg fuel (.select c' x' y')

end FAVerif.Rewriter
