/-
Model of `functional_algorithms/fpu.py` (MXCSRRegister.__call__ and the returned
ContextDecorator) as a register state machine.  Hand-written; tied to the code by the
correspondence check `fav/props/c18.py` through `Drivers/Mxcsr.lean`.

Python ↔ model
  MXCSRRegister.get_mxcsr / set_mxcsr        reading / writing `State.reg`
  register(FZ=, DAZ=, RN=)  (`__call__`)      `Op.create a`: allocates a context object holding the
                                              arguments, with `saved = none`
  context.__enter__                           `Op.enter i`  (assert saved is None; save; recompute the
                                              desired word from the register value *now*; load it)
  context.__exit__(exc_type, ..)              `Op.exit i exc` (assert saved is not None; restore; clear)
  arithmetic in a body                        `Op.body flags`: may set sticky exception flags (bits 0-5)
-/
namespace FAVerif.Mxcsr

inductive RN where
  | nearest | down | up | towardszero
  deriving DecidableEq, Repr

structure Args where
  fz  : Option Bool := none
  daz : Option Bool := none
  rn  : Option RN := none
  deriving DecidableEq, Repr

abbrev Reg := BitVec 32

def setBit (v : Reg) (i : Nat) (b : Bool) : Reg :=
  if b then v ||| (1#32 <<< i) else v &&& ~~~(1#32 <<< i)

/-- `dict(nearest=0, down=1, up=2, towardszero=3)[RN]`, then bit 14 := r>>1, bit 13 := r&1 -/
def RN.hi : RN → Bool
  | .nearest => false | .down => false | .up => true | .towardszero => true
def RN.lo : RN → Bool
  | .nearest => false | .down => true | .up => false | .towardszero => true

/-- The word `MXCSRRegister.__call__` computes from the current register value. -/
def desired (cur : Reg) (a : Args) : Reg :=
  let v := match a.rn with
    | none => cur
    | some r => setBit (setBit cur 14 r.hi) 13 r.lo
  let v := match a.fz with
    | none => v
    | some b => setBit v 15 b
  match a.daz with
    | none => v
    | some b => setBit v 6 b

structure CtxObj where
  args : Args
  saved : Option Reg
  deriving DecidableEq, Repr

structure State where
  reg : Reg
  ctxs : List CtxObj
  deriving DecidableEq, Repr

inductive Op where
  | create (a : Args)
  | enter (i : Nat)
  | exit (i : Nat) (exc : Bool)
  | body (flags : Reg)
  deriving DecidableEq, Repr

inductive Out where
  | ok | assertionError | noSuchContext
  deriving DecidableEq, Repr

def stickyMask : Reg := 0x3f#32

def step (s : State) : Op → State × Out
  | .create a => ({ s with ctxs := s.ctxs ++ [{ args := a, saved := none }] }, .ok)
  | .enter i =>
    match s.ctxs[i]? with
    | none => (s, .noSuchContext)
    | some c =>
      match c.saved with
      | some _ => (s, .assertionError)
      | none => ({ reg := desired s.reg c.args, ctxs := s.ctxs.set i { c with saved := some s.reg } }, .ok)
  | .exit i _exc =>
    match s.ctxs[i]? with
    | none => (s, .noSuchContext)
    | some c =>
      match c.saved with
      | none => (s, .assertionError)
      | some r => ({ reg := r, ctxs := s.ctxs.set i { c with saved := none } }, .ok)
  | .body flags => ({ s with reg := s.reg ||| (flags &&& stickyMask) }, .ok)

def run (s : State) (ops : List Op) : State := ops.foldl (fun s op => (step s op).1) s

/-! ### Ghost instrumentation: the stack of open contexts with the register value at entry.

`exec` follows a history, pushing `(i, reg-before-enter)` on every successful enter and
popping on the exit of the innermost open context.  A history in which an exit does not
address the innermost open context is not well nested (Python's `with` cannot produce it)
and `exec` returns `none`.  Each exit emits the observation
`(register at the matching enter, register after the exit)`. -/

abbrev Stack := List (Nat × Reg)

def exec (s : State) (stk : Stack) : List Op → Option (State × Stack × List (Reg × Reg))
  | [] => some (s, stk, [])
  | .enter i :: ops =>
    let (s', o) := step s (.enter i)
    let stk' := if o = .ok then (i, s.reg) :: stk else stk
    exec s' stk' ops
  | .exit i e :: ops =>
    match stk with
    | (j, r) :: rest =>
      if i = j then
        let (s', _) := step s (.exit i e)
        match exec s' rest ops with
        | none => none
        | some (s'', stk'', obs) => some (s'', stk'', (r, s'.reg) :: obs)
      else none
    | [] => none
  | op :: ops => exec (step s op).1 stk ops

end FAVerif.Mxcsr
