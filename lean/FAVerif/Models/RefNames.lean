/-
C09 — model of reference-name allocation with the hidden state made explicit.

Ports (as written, quirks included):
  * `expr.make_symbol`            (expr.py 109-115: the process-global `_tmp_counter=[0]`)
  * `Context.default_like`        (context.py 62-70: the only caller of `symbol(None, …)`, cached per context)
  * `Context._register_expression` (context.py 72-104: hash-consing, `intkey`, `origin`)
  * `Expr.reference`              (expr.py 640-646: sets `props["reference_name"]`)
  * `Context.__call__`            (context.py 151-168: one loop iteration = `autoname`)
  * `Context.call`                (context.py 318-332: per-function call counters, stack names)
  * `expr.make_ref`               (expr.py 204-251)
  * `Context._register_reference` (context.py 106-149: `_ref_values`, origin prefix, `_name_k_` suffix loop)

Everything that CPython keeps outside the context object is in `Ambient`; every hash-keyed
container (`_ref_values`, `_stack_call_count`) is a `Store` that is read only through
`Store.get`, which first applies the ambient's arbitrary permutation `seedPerm` (the model's
stand-in for hash-seed dependent iteration order).

Not modelled (see notes/C09.md): `toidentifier` (the identifier of a constant's value is an
input), constants whose value is an expression of the alternative context, the
`assert len(ref) < 50`, the type component of symbols beyond hash-consing.
Modelling assumption: user symbols are not called `_tmp<digits>`; the rendering of a stack
name `_f_k_` is injective in (f, k) (origins are compared as pairs).
-/
namespace FAVerif.RefNames

/-- Python `str(n)` for a natural number. -/
def natStr (n : Nat) : String := toString n

/-- A symbol name: given by the user, or anonymous: `_tmp{n}` with `n` read from the ambient counter. -/
inductive SymName
  | named (s : String)
  | anon (n : Nat)
  deriving DecidableEq, Repr

def SymName.render : SymName → String
  | .named s => s
  | .anon n => "_tmp" ++ natStr n

/-- `Context._stack_name`: `none` is `""` (top of stack); `some (f, k)` is `"_f_k_"`. -/
abbrev Origin := Option (String × Nat)

def renderOrigin : Origin → String
  | none => ""
  | some (f, k) => "_" ++ f ++ "_" ++ natStr k ++ "_"

inductive Payload
  /-- kind `symbol`: name and (rendered) type. -/
  | sym (n : SymName) (typ : String)
  /-- kind `constant`: `toidentifier(value)` and `type(value).__name__`. -/
  | const (ident : String) (tyname : String)
  /-- any other kind. -/
  | node
  deriving DecidableEq, Repr

/-- One registered expression (`Context._expressions` value) with the props the allocator reads. -/
structure ExprInfo where
  kind : String
  payload : Payload
  operands : List Nat
  intkey : Nat
  origin : Origin
  refName : Option String := none   -- props["reference_name"]
  ref : Option String := none       -- props["ref"]
  deriving DecidableEq, Repr

/-! ### Hash-keyed containers and the seed permutation -/

abbrev Assoc := List (String × Nat)

/-- An arbitrary re-ordering of a container's items: the model of hash-seed dependent order. -/
structure SeedPerm where
  fn : Assoc → Assoc
  perm : ∀ l, (fn l).Perm l

def SeedPerm.id : SeedPerm := ⟨fun l => l, fun _ => .refl _⟩
def SeedPerm.rev : SeedPerm := ⟨List.reverse, fun l => List.reverse_perm l⟩

/-- A dict with string keys (keys pairwise distinct by construction). -/
structure Store where
  val : Assoc
  property : (val.map Prod.fst).Nodup

instance : DecidableEq Store := fun a b =>
  decidable_of_iff (a.val = b.val) (by cases a; cases b; simp)

def Store.empty : Store := ⟨[], List.nodup_nil⟩

/-- `d.get(k)`, evaluated on the items in the order the ambient's permutation presents them. -/
def Store.get (p : SeedPerm) (s : Store) (k : String) : Option Nat := (p.fn s.val).lookup k

theorem Store.set_nodup (l : Assoc) (k : String) (v : Nat) (h : (l.map Prod.fst).Nodup) :
    (((k, v) :: l.filter (fun q => q.1 != k)).map Prod.fst).Nodup := by
  rw [List.map_cons, List.nodup_cons]
  refine ⟨?_, ?_⟩
  · intro hm
    obtain ⟨q, hq, hk⟩ := List.mem_map.1 hm
    have := (List.mem_filter.1 hq).2
    simp [hk] at this
  · exact List.Nodup.sublist (List.Sublist.map _ List.filter_sublist) h

/-- `d[k] = v`. -/
def Store.set (s : Store) (k : String) (v : Nat) : Store :=
  ⟨(k, v) :: s.val.filter (fun q => q.1 != k), Store.set_nodup s.val k v s.property⟩

/-! ### Ambient (process-global) state and per-context state -/

/-- Everything the process keeps outside a `Context` object. -/
structure Ambient where
  /-- `make_symbol.__defaults__[0][0]`. -/
  tmpCounter : Nat := 0
  /-- `algorithms.definition._registry` (domain/native name ↦ definition), fixed after import. -/
  registry : List (String × String) := []
  /-- `_stack_call_count` of the other contexts alive in the process. -/
  otherStackCounts : Assoc := []
  /-- `utils._warn_once_cache`. -/
  warnCache : List String := []
  /-- iteration order of hash-keyed containers. -/
  seedPerm : SeedPerm := SeedPerm.id

structure State where
  exprs : List ExprInfo := []          -- `_expressions`, in construction order
  exprCounter : Nat := 0               -- `_expression_counter`
  stackName : Origin := none           -- `_stack_name`
  saved : List Origin := []            -- `save_stack_name` of the active `Context.call` frames
  stackCounts : Store := Store.empty   -- `_stack_call_count`
  refValues : Store := Store.empty     -- `_ref_values` (name ↦ expression)
  defaultLike : Option Nat := none     -- `_default_like`

/-- A fresh `Context`. -/
def State.fresh : State := {}

/-! ### Expression construction (hash-consing) -/

def sameKey (kind : String) (p : Payload) (ops : List Nat) (e : ExprInfo) : Bool :=
  e.kind == kind && e.payload == p && e.operands == ops

/-- Append a new expression with `intkey = _expression_counter` and `origin = _stack_name`. -/
def appendExpr (st : State) (kind : String) (p : Payload) (ops : List Nat) : State × Nat :=
  ({ st with
      exprs := st.exprs ++ [{ kind := kind, payload := p, operands := ops,
                              intkey := st.exprCounter, origin := st.stackName }]
      exprCounter := st.exprCounter + 1 },
   st.exprs.length)

/-- `Context._register_expression`: return the existing structurally equal expression, or append a new one. -/
def mkExpr (st : State) (kind : String) (p : Payload) (ops : List Nat) : State × Nat :=
  match st.exprs.findIdx? (sameKey kind p ops) with
  | some i => (st, i)
  | none => appendExpr st kind p ops

def updAt (l : List ExprInfo) (i : Nat) (f : ExprInfo → ExprInfo) : List ExprInfo :=
  match l, i with
  | [], _ => []
  | e :: t, 0 => f e :: t
  | e :: t, i + 1 => e :: updAt t i f

/-! ### `_register_reference` -/

def suffixed (base : String) (k : Nat) : String := "_" ++ base ++ "_" ++ natStr k ++ "_"

/-- The `while other is not None` loop, entered with candidate number `k`.  Returns the candidate and
whether it is free (`true`) or already bound to this very expression (`false`; in Python this branch
returns the expression object itself — unreachable while registry and props agree).
`fuel` bounds the search; it is larger than the registry, so exhaustion is unreachable. -/
def suffixLoop (get : String → Option Nat) (id : Nat) (base : String) : Nat → Nat → String × Bool
  | 0, k => (suffixed base k, true)
  | fuel + 1, k =>
    match get (suffixed base k) with
    | none => (suffixed base k, true)
    | some o => if o = id then (suffixed base k, false) else suffixLoop get id base fuel (k + 1)

/-- `self._ref_values[ref_name] = expr; expr.props.update(ref=ref_name)`. -/
def commit (st : State) (id : Nat) (nm : String) : State × String :=
  ({ st with refValues := st.refValues.set nm id
             exprs := updAt st.exprs id (fun e => { e with ref := some nm }) }, nm)

/-- The name `Context._register_reference(expr, ref_name)` settles on, given the registry `rv`.
In the three `other is expr` branches Python asserts `expr.props["ref"] == name` (and in two of them
returns the expression object instead of the name); they are unreachable while `_ref_values` and
`props["ref"]` agree — `make_ref` returns a cached `props["ref"]` before it gets here — and the
model simply re-commits the same name there. -/
def chooseName (p : SeedPerm) (rv : Store) (id : Nat) (origin : Origin) (name : String) : String :=
  match rv.get p name with
  | none => name                               -- a new reference
  | some other =>
    if other = id then name                    -- already registered
    else
      -- the name is used by another expression: prefix the origin, then add a counter suffix
      let name2 := renderOrigin origin ++ name
      match rv.get p name2 with
      | none =>
        -- `other is None`: the loop body never runs and candidate 0 is taken WITHOUT a lookup
        suffixed name2 0
      | some o2 =>
        if o2 = id then name2
        else (suffixLoop (rv.get p) id name2 (rv.val.length + 1) 0).1

/-- `Context._register_reference(expr, ref_name)`. -/
def register (p : SeedPerm) (st : State) (id : Nat) (origin : Origin) (name : String) : State × String :=
  commit st id (chooseName p st.refValues id origin name)

/-! ### `make_ref` -/

/-- `"_".join`. -/
def joinU : List String → String
  | [] => ""
  | [a] => a
  | a :: t => a ++ "_" ++ joinU t

/-- `list(map(f, ids))` with the state threaded left to right. -/
def threadMap (f : State → Nat → State × String) : State → List Nat → State × List String
  | st, [] => (st, [])
  | st, o :: os =>
    let r := f st o
    let rs := threadMap f r.1 os
    (rs.1, r.2 :: rs.2)

/-- The quirk of `all_operands_have_ref_name`: the comprehension tests `expr.operands[0]` for every
operand, so only the FIRST operand's `reference_name` matters (vacuously true without operands). -/
def firstNamed (exprs : List ExprInfo) (ops : List Nat) : Bool :=
  match ops with
  | [] => true
  | o :: _ => match exprs[o]? with
    | some e => e.refName.isSome
    | none => false

/-- Body of `make_ref(expr)` for the registered expression `e` with index `id`; `rec` is `make_ref` for
the operands, `ks` renders the construction counter (`str(expr.intkey)`). -/
def makeRefBody (ks : Nat → String) (p : SeedPerm) (rec : State → Nat → State × String)
    (st : State) (id : Nat) (e : ExprInfo) : State × String :=
  match e.ref with
  | some r => (st, r)                      -- existing reference name
  | none =>
    match e.refName with
    | some rn => register p st id e.origin rn
    | none =>
      -- generated name; never registered (`if ref_name is None: return ref`)
      match e.payload with
      | .sym n _ => (st, "symbol_" ++ n.render)
      | .const ident _ => (st, "constant_" ++ ident)
      | .node =>
        if e.kind == "absolute" then
          match e.operands with
          | o :: _ => ((rec st o).1, "abs_" ++ (rec st o).2)
          | [] => (st, "abs_?")
        else if firstNamed st.exprs e.operands then
          ((threadMap rec st e.operands).1, joinU (e.kind :: (threadMap rec st e.operands).2))
        else (st, e.kind ++ "_" ++ ks e.intkey)

/-- `make_ref(expr)`; `fuel` bounds the recursion through operands (operands are older expressions,
so `fuel > id` suffices). -/
def makeRef (ks : Nat → String) (p : SeedPerm) : Nat → State → Nat → State × String
  | 0, st, _ => (st, "?")
  | fuel + 1, st, id =>
    match st.exprs[id]? with
    | none => (st, "?")
    | some e => makeRefBody ks p (makeRef ks p fuel) st id e

/-! ### Operations of a tracing request -/

inductive Op
  | symbol (name typ : String)                   -- ctx.symbol(name, typ)
  | defaultLike (typ : String)                   -- ctx.default_like  (anonymous symbol, cached)
  | const (ident tyname : String) (like : Nat)   -- ctx.constant(value, like)
  | node (kind : String) (operands : List Nat)   -- Expr(ctx, kind, operands)
  | bump (n : Nat)                               -- n expressions constructed that the request never mentions
  | name (id : Nat) (s : String)                 -- expr.reference(ref_name=s)
  | autoname (id : Nat) (s : String)             -- one iteration of the loop in Context.__call__
  | call (f : String)                            -- prologue of Context.call(func, …), func.__name__ = f
  | ret                                          -- epilogue (`finally`) of Context.call
  | ref (id : Nat) (emit : Bool)                 -- expr.ref; emit = the returned name is printed
                                                 -- (false: only computed, e.g. by compute_need_ref)
  deriving DecidableEq, Repr

inductive Out
  | unit
  | id (i : Nat)
  | name (s : String)     -- an emitted reference name
  | quiet (s : String)    -- a reference name that was computed but is not printed
  deriving DecidableEq, Repr

def fuelOf (st : State) : Nat := st.exprs.length + 1

def step (amb : Ambient) (st : State) : Op → Ambient × State × Out
  | .symbol s t =>
    let r := mkExpr st "symbol" (.sym (.named s) t) []
    (amb, r.1, .id r.2)
  | .defaultLike t =>
    match st.defaultLike with
    | some i => (amb, st, .id i)
    | none =>
      -- the name `_tmp{n}` is fresh (modelling assumption), so the hash-consing lookup misses
      let r := appendExpr st "symbol" (.sym (.anon amb.tmpCounter) t) []
      ({ amb with tmpCounter := amb.tmpCounter + 1 }, { r.1 with defaultLike := some r.2 }, .id r.2)
  | .const ident ty like =>
    let r := mkExpr st "constant" (.const ident ty) [like]
    (amb, r.1, .id r.2)
  | .node kind ops =>
    let r := mkExpr st kind .node ops
    (amb, r.1, .id r.2)
  | .bump n => (amb, { st with exprCounter := st.exprCounter + n }, .unit)
  | .name i s => (amb, { st with exprs := updAt st.exprs i (fun e => { e with refName := some s }) }, .unit)
  | .autoname i s =>
    (amb, { st with exprs := updAt st.exprs i (fun e =>
        if e.origin == st.stackName && e.refName.isNone then { e with refName := some s } else e) }, .unit)
  | .call f =>
    let c := (st.stackCounts.get amb.seedPerm f).getD 0 + 1
    (amb, { st with stackCounts := st.stackCounts.set f c
                    saved := st.stackName :: st.saved
                    stackName := some (f, c) }, .unit)
  | .ret =>
    match st.saved with
    | o :: t => (amb, { st with stackName := o, saved := t }, .unit)
    | [] => (amb, st, .unit)
  | .ref i emit =>
    let r := makeRef natStr amb.seedPerm (fuelOf st) st i
    (amb, r.1, if emit then .name r.2 else .quiet r.2)

def run (amb : Ambient) (st : State) : List Op → Ambient × State × List Out
  | [] => (amb, st, [])
  | op :: ops =>
    let r := step amb st op
    let rs := run r.1 r.2.1 ops
    (rs.1, rs.2.1, r.2.2 :: rs.2.2)

/-- The names a request returns (the observable of allocation). -/
def names : List Out → List String
  | [] => []
  | .name s :: t => s :: names t
  | _ :: t => names t

/-- The `ref`-only phase (what a printer does): names in request order. -/
def runRefs (ks : Nat → String) (p : SeedPerm) : State → List Nat → State × List String
  | st, [] => (st, [])
  | st, i :: is =>
    let r := makeRef ks p (fuelOf st) st i
    let rs := runRefs ks p r.1 is
    (rs.1, r.2 :: rs.2)

/-! ### The guard `tmp_unprinted`: which `ref`s can reach an anonymous symbol's name -/

/-- What `refSafe` reads of an expression: everything `make_ref` branches on, except names. -/
structure Skel where
  isAbs : Bool
  shape : Nat            -- 0 named symbol, 1 anonymous symbol, 2 constant, 3 node
  operands : List Nat
  named : Bool           -- reference_name is set
  deriving DecidableEq

def skel (e : ExprInfo) : Skel :=
  { isAbs := e.kind == "absolute"
    shape := match e.payload with
      | .sym (.named _) _ => 0
      | .sym (.anon _) _ => 1
      | .const _ _ => 2
      | .node => 3
    operands := e.operands
    named := e.refName.isSome }

def firstNamedS (sk : List Skel) (ops : List Nat) : Bool :=
  match ops with
  | [] => true
  | o :: _ => match sk[o]? with
    | some e => e.named
    | none => false

/-- Body of `refSafeS` for one expression skeleton; `safe` is the guard for the operands. -/
def bodySafe (safe : List Skel → Nat → Bool) (sk : List Skel) (e : Skel) : Bool :=
  if e.named then true
  else if e.shape == 1 then false
  else if e.shape != 3 then true
  else if e.isAbs then
    match e.operands with
    | o :: _ => safe sk o
    | [] => true
  else if firstNamedS sk e.operands then e.operands.all (safe sk)
  else true

/-- `make_ref` on this expression never reads the name of an anonymous symbol. -/
def refSafeS (sk : List Skel) : Nat → Nat → Bool
  | 0, _ => true
  | fuel + 1, id =>
    match sk[id]? with
    | none => true
    | some e => bodySafe (fun sk i => refSafeS sk fuel i) sk e

def refSafe (st : State) (id : Nat) : Bool :=
  refSafeS (st.exprs.map skel) (fuelOf st) id

/-- Every EMITTED `ref` of the request, at the moment it is executed, is safe. -/
def safeRun (amb : Ambient) (st : State) : List Op → Bool
  | [] => true
  | op :: ops =>
    (match op with | .ref i true => refSafe st i | _ => true) &&
    safeRun (step amb st op).1 (step amb st op).2.1 ops

/-! ### Relabelling of construction counters -/

def relabelE (ρ : Nat → Nat) (e : ExprInfo) : ExprInfo := { e with intkey := ρ e.intkey }

def State.relabel (ρ : Nat → Nat) (st : State) : State :=
  { st with exprs := st.exprs.map (relabelE ρ), exprCounter := ρ st.exprCounter }

/-! ### Ordering of commutative operands by `Expr.key` (rewrite.py: `if x.key > y.key: swap`) -/

namespace KeyOrder

/-- A flattened `Expr.key`: strings (kinds, symbol names) and construction counters. -/
inductive Tok
  | s (v : String)
  | n (v : Nat)
  deriving DecidableEq, Repr

/-- Python tuple comparison, flattened: `none` is `TypeError` (str against int). -/
def cmp : List Tok → List Tok → Option Ordering
  | [], [] => some .eq
  | [], _ :: _ => some .lt
  | _ :: _, [] => some .gt
  | .s a :: x, .s b :: y => if a < b then some .lt else if b < a then some .gt else cmp x y
  | .n a :: x, .n b :: y => if a < b then some .lt else if b < a then some .gt else cmp x y
  | _, _ => none

def relabel (ρ : Nat → Nat) : List Tok → List Tok
  | [] => []
  | .s a :: x => .s a :: relabel ρ x
  | .n a :: x => .n (ρ a) :: relabel ρ x

/-- `if x.key > y.key: return op(y, x)`: the pair of operand positions after normalisation. -/
def swapNeeded (kx ky : List Tok) : Bool := cmp kx ky == some .gt

end KeyOrder

/-! ### Order-insensitive consumers of hash-ordered containers -/

namespace Consumers
/-- `sorted(s)` on keys (modelled as naturals). -/
def sorted (l : List Nat) : List Nat := l.mergeSort (fun a b => a ≤ b)
/-- `len(s)`. -/
def len (l : List Nat) : Nat := l.length
/-- `k in s`. -/
def mem (k : Nat) (l : List Nat) : Bool := l.contains k
end Consumers

end FAVerif.RefNames
