/-
Model of `expr.toidentifier(value)` (expr.py 162-201): the part of an auto-generated reference name
`constant_<ident>` that is derived from the VALUE of an unnamed constant (`make_ref`, expr.py 219-224).
The "distinct sub-expressions never share a variable" clause of C05 needs this name to be injective in
the value (two historical failures, repaired in /repo by a45d4e7 and b8b6842, are kept as regression
witnesses in Props/C05.lean `const_name_regression`).
Hand-written; tied to the code by `fav/props/c05.py` through `Drivers/Printer.lean` (command `I`: the
identifier of seeded values, and every printed graph uses the names computed here).

Python ↔ model
  bool / int / numpy.integer          `.bool b` / `.int i`
  float (binary64)                    `.pyfloat bits`
  complex                             `.pycomplex re im`          ("c" + id(real) + id(imag))
  numpy.float16/32/64                 `.npfloat w bits`
  numpy.complex64/128                 `.npcomplex w re im`        (dtype.kind "c" + id(real) + id(imag), parts of width w)
  str                                 `.name s`
-/
namespace FAVerif.ConstName

inductive Val where
  | bool (b : Bool)
  | int (i : Int)
  | pyfloat (bits : Nat)
  | pycomplex (re im : Nat)
  | npfloat (w : Nat) (bits : Nat)
  | npcomplex (w : Nat) (re im : Nat)
  | name (s : String)
  deriving DecidableEq, Repr

/-- `toidentifier` of an int: `"neg" + str(-value)` / `str(value)` -/
def identInt (i : Int) : String :=
  if i < 0 then "neg" ++ toString (-i).toNat else toString i.toNat

/-- exponent and fraction widths of binary16/32/64 -/
def fmt (w : Nat) : Nat × Nat :=
  if w == 16 then (5, 10) else if w == 32 then (8, 23) else (11, 52)

inductive Cls where
  | nan
  | inf (neg : Bool)
  /-- finite: sign, magnitude `m * 2^x` as (m, x) with x possibly negative -/
  | fin (neg : Bool) (m : Nat) (x : Int)

def classify (w bits : Nat) : Cls :=
  let (ew, fw) := fmt w
  let s := bits / 2 ^ (ew + fw) % 2 == 1
  let e := bits / 2 ^ fw % 2 ^ ew
  let f := bits % 2 ^ fw
  let bias := 2 ^ (ew - 1) - 1
  if e == 2 ^ ew - 1 then (if f == 0 then .inf s else .nan)
  else if e == 0 then .fin s f (1 - (bias : Int) - fw)
  else .fin s (f + 2 ^ fw) ((e : Int) - bias - fw)

/-- `int(value)` when `value == int(value)`: the integer magnitude, if the value is integral -/
def integral (m : Nat) (x : Int) : Option Nat :=
  if x ≥ 0 then some (m * 2 ^ x.toNat)
  else if m % 2 ^ (-x).toNat == 0 then some (m / 2 ^ (-x).toNat) else none

/-- `int.bit_length()` -/
def bitLength (n : Nat) : Nat := if n == 0 then 0 else Nat.log2 n + 1

def hexNat (n : Nat) : String := String.ofList (Nat.toDigits 16 n)

/-- two hex digits of a byte -/
def hexByte (b : Nat) : String := hexNat (b / 16 % 16) ++ hexNat (b % 16)

/-- `value.tobytes()[::-1].hex()`: bytes from the most significant one, two hex digits each
(since /repo b8b6842; before, `hex(byte)` without zero padding: see `hexBytesOld`) -/
def hexBytes (w bits : Nat) : String :=
  String.join ((List.range (w / 8)).reverse.map fun k => hexByte (bits / 2 ^ (8 * k) % 256))

/-- the naming before /repo b8b6842 (regression witness only): bytes WITHOUT zero padding -/
def hexBytesOld (w bits : Nat) : String :=
  String.join ((List.range (w / 8)).reverse.map fun k => hexNat (bits / 2 ^ (8 * k) % 256))

/-- `toidentifier` of a Python float (`np = false`, width 64) or of a numpy floating scalar -/
def identFloat (np : Bool) (w bits : Nat) : Except String String :=
  match classify w bits with
  | .nan => .error "ValueError"          -- `int(nan)` raises before any NaN test
  | .inf neg => .ok (if neg then "neginf" else "posinf")
  | .fin neg m x =>
    match integral m x with
    | some n =>
      if bitLength n ≤ (if np then w else 64) then
        -- `-0.0` is `fneg0` (python float and numpy floating alike) since /repo a45d4e7; before, `f0`
        if n == 0 && neg then .ok "fneg0"
        else .ok ("f" ++ identInt (if neg then -(n : Int) else n))
      else .ok (if np then "f0x" ++ hexBytes w bits else "fx" ++ hexNat bits)
    | none => .ok (if np then "f0x" ++ hexBytes w bits else "fx" ++ hexNat bits)

/-- `toidentifier(value)` -/
def ident : Val → Except String String
  | .bool b => .ok (if b then "True" else "False")
  | .int i => .ok (identInt i)
  | .pyfloat bits => identFloat false 64 bits
  | .pycomplex re im =>
    match identFloat false 64 re, identFloat false 64 im with
    | .ok a, .ok b => .ok ("c" ++ a ++ b)
    | .error e, _ => .error e
    | _, .error e => .error e
  | .npfloat w bits => identFloat true w bits
  | .npcomplex w re im =>
    match identFloat true w re, identFloat true w im with
    | .ok a, .ok b => .ok ("c" ++ a ++ b)
    | .error e, _ => .error e
    | _, .error e => .error e
  | .name s => .ok s

end FAVerif.ConstName
