/-
C09 — the AUDITED list of nondeterminism / hidden-state sources (hand maintained).

Every entry of the census regenerated from the current source (`FAVerif/Generated/C09Census.lean`,
written by fav/props/c09_census.py on every run) must appear here, in the same order, together with
the way the C09 model accounts for it (`Disp`).  `FAVerif.Props.C09.census_audited` is the
kernel-checked equality of the two lists; a NEW `id(`, `hash(`, unsorted set iteration, module-level
counter … in the source makes that theorem fail and the check names the new entry.

Each disposition below was decided by reading the code (notes/C09.md records the reasons):
  * module-level `dict(...)` tables of the targets / the relational tables of rewrite.py: no function
    assigns into them (the census category `state-mutation` would show it); rewrite.py completes its
    tables by module-level code at import time only.
  * `definition._registry`: written by the `@definition` decorators, i.e. at import time of algorithms.py.
  * `_tmp_counter=[0]` / `_tmp_counter[0] += 1`: `Ambient.tmpCounter`.
  * `_warn_once_cache`: `Ambient.warnCache`; decides only whether a warning is printed.
  * `defined_refs`, `already_promoted`, `skip`, `others`, `kinds`, `params`: sets that are only added to and
    queried with `in` / `len`; `kinds.pop()` follows `len(kinds) == 1`.
  * `Context.dtype_index.find_dtype_index` iterates `same_dtype_cache[key]`.  Until /repo commit 05234cd that was a
    SET of expression keys (order-sensitive, hash-seed dependent: the text of the lax target differed across
    PYTHONHASHSEED) and the entry was audited as `listedFinding`; since 05234cd the peers are kept in an insertion-ordered
    dict, the census no longer reports the site, and no audited entry is a `listedFinding` (theorem `no_listed_findings`).
    The search keeps the regression clauses (fav/props/c09.py: probe_dtype_index, the apmath/lax requests, the
    structural clause on the dtype index).
-/
import FAVerif.Models.CensusTypes

namespace FAVerif.Census.C09
open FAVerif.Census

def audited : List Audited := [
  ⟨⟨.moduleMutable, "algorithms.py", "definition", "_registry = {...}", 0⟩, .registry⟩,
  ⟨⟨.stateMutation, "algorithms.py", "definition.__init__", "self._registry[domain] = {}", 0⟩, .registry⟩,
  ⟨⟨.setCreate, "context.py", "Context.__init__", "self.parameters['using'] = set(...)", 0⟩, .perInstance⟩,
  ⟨⟨.setCreate, "context.py", "Context.dtype_index", "dtype_index = find_dtype_index(x.key, set())", 0⟩, .membershipOnly⟩,
  ⟨⟨.namespaceIter, "context.py", "Context.__call__", "for (name, obj) in frame.f_locals.items():", 0⟩, .frameLocals⟩,
  ⟨⟨.namespaceIter, "context.py", "Context.__call__", "frame = sys._getframe(1)", 0⟩, .frameLocals⟩,
  ⟨⟨.mutableDefault, "context.py", "Context.__init__", "def __init__(... paths=[] ...)", 0⟩, .readOnlyDefault⟩,
  ⟨⟨.setCreate, "expr.py", "<module>", "known_constant_names = set(...)", 0⟩, .readOnlyTable⟩,
  ⟨⟨.setCreate, "expr.py", "<module>", "known_expression_kinds = set(...)", 0⟩, .readOnlyTable⟩,
  ⟨⟨.setCreate, "expr.py", "Expr.get_type", "kinds = set(...)", 0⟩, .membershipOnly⟩,
  ⟨⟨.setCreate, "expr.py", "Expr.get_type", "params = set(...)", 0⟩, .membershipOnly⟩,
  ⟨⟨.setReduce, "expr.py", "Expr.get_type", "len(<set>) :: if len(kinds) == 1:", 0⟩, .reduceConsume⟩,
  ⟨⟨.setReduce, "expr.py", "Expr.get_type", "len(<set>) :: if len(params) == 1:", 0⟩, .reduceConsume⟩,
  ⟨⟨.setPop, "expr.py", "Expr.get_type", "kind = kinds.pop()", 0⟩, .singletonPop⟩,
  ⟨⟨.moduleMutable, "expr.py", "<module>", "known_constant_names = set(...)", 0⟩, .readOnlyTable⟩,
  ⟨⟨.moduleMutable, "expr.py", "<module>", "known_expression_kinds = set(...)", 0⟩, .readOnlyTable⟩,
  ⟨⟨.mutableDefault, "expr.py", "make_symbol", "def make_symbol(... _tmp_counter=[0] ...)", 0⟩, .tmpCounter⟩,
  ⟨⟨.stateMutation, "expr.py", "make_symbol", "_tmp_counter[0] += 1", 0⟩, .tmpCounter⟩,
  ⟨⟨.dunderDef, "expr.py", "Expr.__eq__", "def __eq__(self, other):", 0⟩, .exprBuilder⟩,
  ⟨⟨.dunderDef, "expr.py", "Expr.__ge__", "def __ge__(self, other):", 0⟩, .exprBuilder⟩,
  ⟨⟨.dunderDef, "expr.py", "Expr.__gt__", "def __gt__(self, other):", 0⟩, .exprBuilder⟩,
  ⟨⟨.dunderDef, "expr.py", "Expr.__le__", "def __le__(self, other):", 0⟩, .exprBuilder⟩,
  ⟨⟨.dunderDef, "expr.py", "Expr.__lt__", "def __lt__(self, other):", 0⟩, .exprBuilder⟩,
  ⟨⟨.dunderDef, "expr.py", "Expr.__ne__", "def __ne__(self, other):", 0⟩, .exprBuilder⟩,
  ⟨⟨.setSorted, "rewrite.py", "op_collect", "row = sorted(set(row))", 0⟩, .sortedConsume⟩,
  ⟨⟨.setReduce, "rewrite.py", "op_collect", "len(<set>) :: while len(set([row[-1] if row else None for row in matrix])) == 1:", 0⟩, .reduceConsume⟩,
  ⟨⟨.setReduce, "rewrite.py", "op_collect", "len(<set>) :: while len(set([row[0] if row else None for row in matrix])) == 1:", 0⟩, .reduceConsume⟩,
  ⟨⟨.moduleMutable, "rewrite.py", "<module>", "_any_relop_any = {...}", 0⟩, .readOnlyTable⟩,
  ⟨⟨.moduleMutable, "rewrite.py", "<module>", "_constant_relop_any = {...}", 0⟩, .readOnlyTable⟩,
  ⟨⟨.moduleMutable, "rewrite.py", "<module>", "_constant_relop_constant = {...}", 0⟩, .readOnlyTable⟩,
  ⟨⟨.keyOrder, "rewrite.py", "Rewriter._compare", "cmp x.key > y.key :: if x.key > y.key:", 0⟩, .keyOrderStructural⟩,
  ⟨⟨.keyOrder, "rewrite.py", "Rewriter.logical_and", "cmp x.key > y.key :: if x.key > y.key:", 0⟩, .keyOrderStructural⟩,
  ⟨⟨.keyOrder, "rewrite.py", "Rewriter.logical_or", "cmp x.key > y.key :: if x.key > y.key:", 0⟩, .keyOrderStructural⟩,
  ⟨⟨.moduleMutable, "targets/__init__.py", "<module>", "__all__ = [...]", 0⟩, .readOnlyTable⟩,
  ⟨⟨.setCreate, "targets/base.py", "PrinterBase.__init__", "self.defined_refs = set(...)", 0⟩, .membershipOnly⟩,
  ⟨⟨.watchedImport, "targets/cpp.py", "try_compile", "import subprocess", 0⟩, .notOnTextPath⟩,
  ⟨⟨.watchedImport, "targets/cpp.py", "try_compile", "import tempfile", 0⟩, .notOnTextPath⟩,
  ⟨⟨.watchedUse, "targets/cpp.py", "try_compile", "subprocess.PIPE :: p = subprocess.Popen(command, stdout=subprocess.PIPE, stderr=None, stdin=subpro...#a142bdb5", 0⟩, .notOnTextPath⟩,
  ⟨⟨.watchedUse, "targets/cpp.py", "try_compile", "subprocess.PIPE :: p = subprocess.Popen(command, stdout=subprocess.PIPE, stderr=None, stdin=subpro...#a142bdb5", 1⟩, .notOnTextPath⟩,
  ⟨⟨.watchedUse, "targets/cpp.py", "try_compile", "subprocess.Popen :: p = subprocess.Popen(command, stdout=subprocess.PIPE, stderr=None, stdin=subpr...#b5ebfd1f", 0⟩, .notOnTextPath⟩,
  ⟨⟨.watchedUse, "targets/cpp.py", "try_compile", "tempfile.mkstemp :: _, outfilename = tempfile.mkstemp()", 0⟩, .notOnTextPath⟩,
  ⟨⟨.moduleMutable, "targets/cpp.py", "<module>", "constant_to_target = dict(...)", 0⟩, .readOnlyTable⟩,
  ⟨⟨.moduleMutable, "targets/cpp.py", "<module>", "kind_to_target = dict(...)", 0⟩, .readOnlyTable⟩,
  ⟨⟨.moduleMutable, "targets/cpp.py", "<module>", "trace_arguments = dict(...)", 0⟩, .readOnlyTable⟩,
  ⟨⟨.moduleMutable, "targets/cpp.py", "Printer", "type_to_target = dict(...)", 0⟩, .readOnlyTable⟩,
  ⟨⟨.setCreate, "targets/lax.py", "Printer.init_arguments", "already_promoted = set(...)", 0⟩, .membershipOnly⟩,
  ⟨⟨.moduleMutable, "targets/lax.py", "<module>", "constant_to_target = dict(...)", 0⟩, .readOnlyTable⟩,
  ⟨⟨.moduleMutable, "targets/lax.py", "<module>", "kind_to_target = dict(...)", 0⟩, .readOnlyTable⟩,
  ⟨⟨.moduleMutable, "targets/lax.py", "<module>", "trace_arguments = dict(...)", 0⟩, .readOnlyTable⟩,
  ⟨⟨.moduleMutable, "targets/lax.py", "<module>", "type_to_target = dict(...)", 0⟩, .readOnlyTable⟩,
  ⟨⟨.moduleMutable, "targets/numpy.py", "<module>", "constant_to_target = dict(...)", 0⟩, .readOnlyTable⟩,
  ⟨⟨.moduleMutable, "targets/numpy.py", "<module>", "kind_to_target = dict(...)", 0⟩, .readOnlyTable⟩,
  ⟨⟨.moduleMutable, "targets/numpy.py", "<module>", "trace_arguments = dict(...)", 0⟩, .readOnlyTable⟩,
  ⟨⟨.moduleMutable, "targets/numpy.py", "<module>", "type_to_target = dict(...)", 0⟩, .readOnlyTable⟩,
  ⟨⟨.moduleMutable, "targets/python.py", "<module>", "constant_to_target = dict(...)", 0⟩, .readOnlyTable⟩,
  ⟨⟨.moduleMutable, "targets/python.py", "<module>", "kind_to_target = dict(...)", 0⟩, .readOnlyTable⟩,
  ⟨⟨.moduleMutable, "targets/python.py", "<module>", "trace_arguments = dict(...)", 0⟩, .readOnlyTable⟩,
  ⟨⟨.moduleMutable, "targets/python.py", "<module>", "type_to_target = dict(...)", 0⟩, .readOnlyTable⟩,
  ⟨⟨.setCreate, "targets/stablehlo.py", "Printer.__init__", "self.defined_refs = set(...)", 0⟩, .membershipOnly⟩,
  ⟨⟨.moduleMutable, "targets/stablehlo.py", "<module>", "constant_to_target = dict(...)", 0⟩, .readOnlyTable⟩,
  ⟨⟨.moduleMutable, "targets/stablehlo.py", "<module>", "kind_to_target = dict(...)", 0⟩, .readOnlyTable⟩,
  ⟨⟨.moduleMutable, "targets/stablehlo.py", "<module>", "trace_arguments = dict(...)", 0⟩, .readOnlyTable⟩,
  ⟨⟨.moduleMutable, "targets/symbolic.py", "<module>", "constant_to_target = dict(...)", 0⟩, .readOnlyTable⟩,
  ⟨⟨.moduleMutable, "targets/symbolic.py", "<module>", "kind_to_target = dict(...)", 0⟩, .readOnlyTable⟩,
  ⟨⟨.moduleMutable, "targets/symbolic.py", "<module>", "trace_arguments = dict(...)", 0⟩, .readOnlyTable⟩,
  ⟨⟨.moduleMutable, "targets/symbolic.py", "<module>", "type_to_target = dict(...)", 0⟩, .readOnlyTable⟩,
  ⟨⟨.moduleMutable, "targets/xla_client.py", "<module>", "constant_to_target = dict(...)", 0⟩, .readOnlyTable⟩,
  ⟨⟨.moduleMutable, "targets/xla_client.py", "<module>", "kind_to_target = dict(...)", 0⟩, .readOnlyTable⟩,
  ⟨⟨.moduleMutable, "targets/xla_client.py", "<module>", "trace_arguments = dict(...)", 0⟩, .readOnlyTable⟩,
  ⟨⟨.moduleMutable, "targets/xla_client.py", "Printer", "type_to_target = dict(...)", 0⟩, .readOnlyTable⟩,
  ⟨⟨.hashRef, "typesystem.py", "Type.__hash__", "return hash((self.kind, self.param))", 0⟩, .structuralHash⟩,
  ⟨⟨.dunderDef, "typesystem.py", "Type.__eq__", "def __eq__(self, other):", 0⟩, .structuralEq⟩,
  ⟨⟨.dunderDef, "typesystem.py", "Type.__hash__", "def __hash__(self):", 0⟩, .structuralHash⟩,
  ⟨⟨.watchedImport, "utils.py", "<module>", "import multiprocessing", 0⟩, .notOnTextPath⟩,
  ⟨⟨.watchedImport, "utils.py", "<module>", "import os", 0⟩, .notOnTextPath⟩,
  ⟨⟨.watchedImport, "utils.py", "format_cpp", "import subprocess", 0⟩, .externalFormatter⟩,
  ⟨⟨.watchedImport, "utils.py", "format_cpp", "import tempfile", 0⟩, .externalFormatter⟩,
  ⟨⟨.watchedUse, "utils.py", "format_cpp", "subprocess.PIPE :: p = subprocess.Popen(command, stdout=subprocess.PIPE, stderr=None, stdin=subpro...#a142bdb5", 0⟩, .externalFormatter⟩,
  ⟨⟨.watchedUse, "utils.py", "format_cpp", "subprocess.PIPE :: p = subprocess.Popen(command, stdout=subprocess.PIPE, stderr=None, stdin=subpro...#a142bdb5", 1⟩, .externalFormatter⟩,
  ⟨⟨.watchedUse, "utils.py", "format_cpp", "subprocess.Popen :: p = subprocess.Popen(command, stdout=subprocess.PIPE, stderr=None, stdin=subpr...#b5ebfd1f", 0⟩, .externalFormatter⟩,
  ⟨⟨.watchedUse, "utils.py", "format_cpp", "tempfile.NamedTemporaryFile :: with tempfile.NamedTemporaryFile(mode='w', suffix='.cc', delete=False) as fp:", 0⟩, .externalFormatter⟩,
  ⟨⟨.stateMutation, "utils.py", "warn_once", "_warn_once_cache.add(msg)", 0⟩, .warnCache⟩
]

end FAVerif.Census.C09
