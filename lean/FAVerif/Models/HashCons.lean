/-
Model of the hash-consing ("expressions are singletons") machinery of
`functional_algorithms` — property C07.  Hand-written port of the code AS WRITTEN; tied to the
code by the correspondence check `fav/props/c07.py` through `Drivers/HashCons.lean`.

Python ↔ model
  typesystem.Type (`__new__`, `__eq__`, `__hash__`)   `Ty` (kind, param) with structural equality
                                                      (per-context singletons; `__eq__` is kind/param
                                                      equality inside one context)
  a Python constant value (bool/int/float/complex/    `PyVal` = type object identity `tid`,
  numpy scalar/str)                                   `type(v).__name__` = `tname`, exact content `data`
                                                      (sign of zero and NaN payload kept), object
                                                      identity `oid`
  Python `==` on numbers                              `pyEq` (exact numeric comparison through `den`;
                                                      0.0 == -0.0, 1 == True == 1.0, NaN != NaN)
  `v is w`                                            record equality `v = w`
  PyObject_RichCompareBool inside tuple/dict compare  `tupleEq v w  :=  v = w ∨ pyEq v.data w.data`
  `str(value)` (third component of the constant key   `strRep v.data`: the exact content as text — str is injective
  since /repo ab6dc38)                                on the non-NaN values of one type, the sign of zero is
                                                      printed, every NaN prints as 'nan' (sign/payload erased)
  Expr.key / Expr._compute_serialized (expr.py)       `Key`, `keyOf`
  Expr._two_level_intkey                              `tlkOf`, `tlkAt`
  Expr.intkey / _set_serialized_id                    `Stored.id`
  Context._expression_counter / _expressions          `State.counter` / `State.table` (key ↦ id) and
                                                      `State.exprs` (the registered Expr objects)
  Context._register_expression (context.py)           `register` incl. its RuntimeError branch
  Expr.__new__ (dispatch on kind)                     `Cand` (symbol / constant / any other kind)

NOT modelled here (preprocessing that happens before `_register_expression`): `normalize_like`
(the model's constant candidates carry the id of the already normalised `like` operand),
`normalize` (Python numbers → constants), `Context.pow` special cases, `enable_alt` contexts.
No Mathlib.
-/
namespace FAVerif.HashCons

/-! ### `typesystem.Type` -/

mutual
/-- `Type(context, kind, param)`; the context component is fixed (one context). -/
inductive Ty where
  | mk (kind : String) (param : Param)
/-- `Type.param`: `None`, an int (bits), a str (kind "type"), or a tuple of Types. -/
inductive Param where
  | none
  | bits (n : Nat)
  | name (s : String)
  | tup (l : TyList)
inductive TyList where
  | nil
  | cons (t : Ty) (l : TyList)
end
deriving instance DecidableEq for Ty, Param, TyList

/-! ### Python values that may be the value operand of a constant -/

/-- A binary floating-point datum of any width, exact: `(-1)^neg · m · 2^e`, an infinity, or a NaN
with its sign and payload.  `fin true 0 0` is negative zero. -/
inductive PyFloat where
  | fin (neg : Bool) (m : Nat) (e : Int)
  | inf (neg : Bool)
  | nan (neg : Bool) (payload : Nat)
  deriving DecidableEq, Repr

/-- The content of a value: Python/numpy integers and bools (`int`), floats of every width (`flt`),
complex numbers (`cplx`), named constants such as "pi" (`str`). -/
inductive PyData where
  | int (z : Int)
  | flt (f : PyFloat)
  | cplx (re im : PyFloat)
  | str (s : String)
  deriving DecidableEq, Repr

/-- A Python object used as a constant value. `tid` identifies the type object (`type(v)`),
`tname` is `type(v).__name__`, `oid` identifies the object itself (`id(v)` while alive). -/
structure PyVal where
  tid : Nat
  tname : String
  data : PyData
  oid : Nat
  deriving DecidableEq, Repr

/-- Extended reals in canonical form: a dyadic rational `(-1)^neg · m · 2^e` with `m` odd, or zero
as `dy false 0 0` (zero has no sign as a *number*), or an infinity. -/
inductive XReal where
  | dy (neg : Bool) (m : Nat) (e : Int)
  | inf (neg : Bool)
  deriving DecidableEq, Repr

/-- Divide out factors of two (at most `fuel` of them). -/
def stripTwos : Nat → Nat → Int → Nat × Int
  | 0, m, e => (m, e)
  | fuel + 1, m, e => if m % 2 = 0 ∧ m ≠ 0 then stripTwos fuel (m / 2) (e + 1) else (m, e)

/-- Canonical dyadic of `(-1)^neg · m · 2^e`. -/
def normDy (neg : Bool) (m : Nat) (e : Int) : XReal :=
  if m = 0 then .dy false 0 0
  else let r := stripTwos (m.log2 + 1) m e; .dy neg r.1 r.2

/-- Numeric value of a float datum; `none` for NaN. -/
def PyFloat.den : PyFloat → Option XReal
  | .fin neg m e => some (normDy neg m e)
  | .inf neg => some (.inf neg)
  | .nan _ _ => none

/-- What Python's `==` looks at: the numeric value as a complex number, the text of a str, or
"has a NaN component" (compares unequal to everything, itself included). -/
inductive Den where
  | num (re im : XReal)
  | str (s : String)
  | nan
  deriving DecidableEq, Repr

def PyData.den : PyData → Den
  | .int z => .num (normDy (decide (z < 0)) z.natAbs 0) (.dy false 0 0)
  | .flt f => match f.den with
      | some r => .num r (.dy false 0 0)
      | none => .nan
  | .cplx re im => match re.den, im.den with
      | some r, some i => .num r i
      | _, _ => .nan
  | .str s => .str s

/-- Python `a == b` for bool/int/float/complex/str and for numpy scalars of one type: exact
comparison of numeric values (so `0.0 == -0.0`, `1 == True == 1.0 == (1+0j)`), NaN unequal to all. -/
def pyEq (a b : PyData) : Bool := a.den ≠ .nan && a.den == b.den

/-- `PyObject_RichCompareBool(v, w, Py_EQ)`: identity shortcut, then `==`.  This is the comparison
applied to the elements of key tuples by tuple `==` and by dict lookup. -/
def tupleEq (v w : PyVal) : Bool := v == w || pyEq v.data w.data

/-- Canonical representative of the `tupleEq` class of a value: its numeric value / text, or the
object itself when it has a NaN component (then only identity makes it equal). -/
inductive Canon where
  | val (d : Den)
  | obj (v : PyVal)
  deriving DecidableEq, Repr

def canon (v : PyVal) : Canon :=
  if v.data.den = .nan then .obj v else .val v.data.den

/-- Canonical form of a float datum that keeps the sign of zero: `(m, e)` with `m` odd, zero as
`fin neg 0 0`. -/
def PyFloat.canonForm : PyFloat → PyFloat
  | .fin neg m e =>
      if m = 0 then .fin neg 0 0
      else let r := stripTwos (m.log2 + 1) m e; .fin neg r.1 r.2
  | f => f

/-- What `str` shows of a float: the exact value with the sign of zero; 'nan' for every NaN. -/
def PyFloat.strRep : PyFloat → PyFloat
  | .nan _ _ => .nan false 0
  | f => f.canonForm

/-- `str(value)` as the textual identity of the content (within one type `str` is injective on
non-NaN values: repr round-trips; '0.0' vs '-0.0', '-0j' vs '0j'; NaNs print as 'nan'). -/
def PyData.strRep : PyData → PyData
  | .int z => .int z
  | .flt f => .flt f.strRep
  | .cplx re im => .cplx re.strRep im.strRep
  | .str s => .str s

/-! ### Keys, candidates, registry -/

abbrev Id := Nat

/-- `Expr._two_level_intkey`: the tuple `(kind, int, …)`. -/
abbrev TLK := String × List Id

/-- `Expr.key` (`__serialized`).
* `("symbol", name, Type)`
* `("z_constant", (value, type(value).__name__, str(value)), like.key)` — the triple is kept as the
  `tupleEq`-class `canon value`, `tname` and `strRep` of the content
* `(kind, operand._two_level_intkey, …)`.
Tuples of the three shapes are never equal to each other for the kinds the Context API produces
(kinds other than "symbol"/"constant"/"z_constant"); see notes/C07.md. -/
inductive Key where
  | sym (name : String) (ty : Ty)
  | const (c : Canon) (tname : String) (str : PyData) (like : Key)
  | op (kind : String) (args : List TLK)
  deriving DecidableEq

/-- An `Expr` object as built by `Expr.__new__` before registration: kind and operands; operands
that are expressions are given by their `intkey`. -/
inductive Cand where
  | sym (name : String) (ty : Ty)
  | const (v : PyVal) (like : Id)
  | op (kind : String) (args : List Id)
  deriving DecidableEq

/-- A registered `Expr`: its `intkey`, content and cached key. -/
structure Stored where
  id : Id
  cand : Cand
  key : Key
  deriving DecidableEq

structure State where
  counter : Nat
  table : List (Key × Id)
  exprs : List Stored

def State.empty : State := { counter := 0, table := [], exprs := [] }

/-- `Expr._two_level_intkey` of a registered expression. -/
def tlkOf (st : Stored) : TLK :=
  match st.cand with
  | .sym _ _ => ("symbol", [st.id])
  | .const _ _ => ("constant", [st.id])
  | .op k args => (k, args)

/-- `_two_level_intkey` of the operand with intkey `i`. -/
def tlkAt (s : State) (i : Id) : TLK :=
  match s.exprs[i]? with
  | some st => tlkOf st
  | none => ("?", [])

/-- `.key` of the operand with intkey `i`. -/
def keyAt (s : State) (i : Id) : Key :=
  match s.exprs[i]? with
  | some st => st.key
  | none => .op "?" []

/-- content of the registered expression with intkey `i` -/
def candAt (s : State) (i : Id) : Option Cand :=
  match s.exprs[i]? with
  | some st => some st.cand
  | none => none

/-- `Expr._compute_serialized`. -/
def keyOf (s : State) : Cand → Key
  | .sym n t => .sym n t
  | .const v l => .const (canon v) v.tname v.data.strRep (keyAt s l)
  | .op k args => .op k (args.map (tlkAt s))

/-- Well-formed candidate over operands with intkeys `< n`: the generic branch of `Expr.__new__`
is never used for the kinds "symbol" and "constant". -/
def candOk (n : Nat) : Cand → Prop
  | .sym _ _ => True
  | .const _ l => l < n
  | .op k args => k ≠ "symbol" ∧ k ≠ "constant" ∧ ∀ a ∈ args, a < n

instance (n : Nat) (c : Cand) : Decidable (candOk n c) := by
  cases c <;> unfold candOk <;> infer_instance

inductive Out where
  | fresh (i : Id)     -- a new expression was registered with intkey i
  | hit (i : Id)       -- the previously registered expression i was returned
  | runtimeError       -- "attempt to re-register equivalent expression"
  | badOp              -- not a construction (operand does not exist / reserved kind)
  deriving DecidableEq, Repr

def Out.id? : Out → Option Id
  | .fresh i => some i
  | .hit i => some i
  | _ => none

/-- The `prev is None` branch of `_register_expression`: assign the next id, store. -/
def freshState (s : State) (c : Cand) : State :=
  { counter := s.counter + 1,
    table := (keyOf s c, s.counter) :: s.table,
    exprs := s.exprs ++ [{ id := s.counter, cand := c, key := keyOf s c }] }

/-- The `else` branch: `prev` is returned unless both are constants whose value types differ
(`type(expr.operands[0]) is not type(prev.operands[0])`). -/
def hitOut (s : State) (c : Cand) (i : Id) : Out :=
  match c, candAt s i with
  | .const v _, some (.const v' _) => if v.tid ≠ v'.tid then .runtimeError else .hit i
  | _, _ => .hit i

/-- `Expr.__new__` tail + `Context._register_expression`. -/
def register (s : State) (c : Cand) : State × Out :=
  if candOk s.exprs.length c then
    match s.table.lookup (keyOf s c) with
    | none => (freshState s c, .fresh s.counter)
    | some i => (s, hitOut s c i)
  else (s, .badOp)

/-- A construction history executed from state `s`; the outputs in order. -/
def run (s : State) : List Cand → State × List Out
  | [] => (s, [])
  | c :: cs =>
      let r := register s c
      let t := run r.1 cs
      (t.1, r.2 :: t.2)

/-! ### Structural identity -/

/-- What the CODE identifies: kind, operand ids in order; constants by the `tupleEq` class of the
value, the type name, `str` of the value and the (normalised) like operand. -/
inductive Skel where
  | sym (name : String) (ty : Ty)
  | const (c : Canon) (tname : String) (str : PyData) (like : Id)
  | op (kind : String) (args : List Id)
  deriving DecidableEq

def skel : Cand → Skel
  | .sym n t => .sym n t
  | .const v l => .const (canon v) v.tname v.data.strRep l
  | .op k args => .op k args

/-- Structural identity as the code sees it (value equality = Python `==` class with the
identity shortcut, plus the type name, plus `str` of the value — i.e. exact content with the sign
of zero, NaN objects told apart by identity). -/
def CodeStructEq (c c' : Cand) : Prop := skel c = skel c'

instance (c c' : Cand) : Decidable (CodeStructEq c c') := inferInstanceAs (Decidable (skel c = skel c'))

/-- Structural identity as the PROPERTY states it: same kind, same operand objects in order, and
for constants the same value including its type, its sign of zero (and NaN payload) and the same
like operand — object identity of the value plays no role. -/
def StrictStructEq : Cand → Cand → Prop
  | .sym n t, .sym n' t' => n = n' ∧ t = t'
  | .const v l, .const v' l' => v.tname = v'.tname ∧ v.data = v'.data ∧ l = l'
  | .op k a, .op k' a' => k = k' ∧ a = a'
  | _, _ => False

instance (c c' : Cand) : Decidable (StrictStructEq c c') := by
  cases c <;> cases c' <;> unfold StrictStructEq <;> infer_instance

/-- The registry invariant. -/
structure Inv (s : State) : Prop where
  /-- ids are dense: the counter is the number of registered expressions -/
  dense : s.counter = s.exprs.length
  /-- the expression registered i-th has intkey i -/
  ids : ∀ (i : Nat) (st : Stored), s.exprs[i]? = some st → st.id = i
  /-- cached keys are the keys of the contents; operands have smaller ids -/
  keys : ∀ (i : Nat) (st : Stored), s.exprs[i]? = some st → st.key = keyOf s st.cand ∧ candOk i st.cand
  /-- the table is exactly the map key ↦ id of the registered expressions (hence injective) -/
  table : ∀ (k : Key) (i : Nat), s.table.lookup k = some i ↔ ∃ st : Stored, s.exprs[i]? = some st ∧ st.key = k

/-! ### NaN-free values, used by the `_plain` theorem -/

/-- A float datum in canonical form with no NaN (negative zero allowed: `fin true 0 0`). -/
def PyFloat.plain : PyFloat → Prop
  | .fin neg m e => PyFloat.canonForm (.fin neg m e) = .fin neg m e
  | .inf _ => True
  | .nan _ _ => False

def PyData.plain : PyData → Prop
  | .int _ => True
  | .flt f => f.plain
  | .cplx re im => re.plain ∧ im.plain
  | .str _ => True

/-- A value with no NaN component (content in canonical form). -/
def PyVal.Plain (v : PyVal) : Prop := v.data.plain

def Cand.Plain : Cand → Prop
  | .const v _ => v.Plain
  | _ => True

instance (f : PyFloat) : Decidable f.plain := by cases f <;> unfold PyFloat.plain <;> infer_instance
instance (d : PyData) : Decidable d.plain := by cases d <;> unfold PyData.plain <;> infer_instance
instance (v : PyVal) : Decidable v.Plain := by unfold PyVal.Plain; infer_instance
instance (c : Cand) : Decidable c.Plain := by cases c <;> unfold Cand.Plain <;> infer_instance

/-- Type names determine type objects among the values of a history (true of every real Python
run unless two distinct classes share a `__name__`). -/
def TidConsistent (ops : List Cand) : Prop :=
  ∀ v l v' l', Cand.const v l ∈ ops → Cand.const v' l' ∈ ops → v.tname = v'.tname → v.tid = v'.tid

end FAVerif.HashCons
