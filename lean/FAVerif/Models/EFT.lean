/-
Specification programs for the error-free transformations (C10), in the canonical form the
translator emits (operands of commutative primitives ordered by structural digest, canonical
DFS post-order).  Each is a transcription of the Python in
functional_algorithms/floating_point_algorithms.py; the regenerated programs in
Generated/C10.lean are compared with these by `decide` on every run.
-/
import FAVerif.IR.Prog

namespace FAVerif.Spec
open FAVerif.IR

/-- add_2sum(x, y, fast=False):  s = x + y; z = s - x; t = (x - (s - z)) + (y - z) -/
def add2sum : List Node := [
  ⟨.input, [], 1⟩,      -- 0: y
  ⟨.input, [], 0⟩,      -- 1: x
  ⟨.add, [0, 1], 0⟩,    -- 2: s = y + x
  ⟨.sub, [2, 1], 0⟩,    -- 3: z = s - x
  ⟨.sub, [0, 3], 0⟩,    -- 4: y - z
  ⟨.sub, [2, 3], 0⟩,    -- 5: s - z
  ⟨.sub, [1, 5], 0⟩,    -- 6: x - (s - z)
  ⟨.add, [4, 6], 0⟩ ]   -- 7: t
def add2sumOuts : List Nat := [2, 7]

/-- add_2sum(x, y, fast=True):  s = x + y; z = s - x; t = y - z -/
def fast2sum : List Node := [
  ⟨.input, [], 1⟩, ⟨.input, [], 0⟩, ⟨.add, [0, 1], 0⟩, ⟨.sub, [2, 1], 0⟩, ⟨.sub, [0, 3], 0⟩ ]
def fast2sumOuts : List Nat := [2, 4]

/-- add_2sum(x, y, fast=False, fix_overflow=True):  t = select(|z| > largest, 0, t) -/
def add2sumFix (largest zero : Nat) : List Node := [
  ⟨.input, [], 1⟩, ⟨.input, [], 0⟩, ⟨.add, [0, 1], 0⟩, ⟨.sub, [2, 1], 0⟩,
  ⟨.abs, [3], 0⟩, ⟨.const, [], largest⟩, ⟨.gt, [4, 5], 0⟩, ⟨.const, [], zero⟩,
  ⟨.sub, [0, 3], 0⟩, ⟨.sub, [2, 3], 0⟩, ⟨.sub, [1, 9], 0⟩, ⟨.add, [8, 10], 0⟩,
  ⟨.select, [6, 7, 11], 0⟩ ]
def add2sumFixOuts : List Nat := [2, 12]

/-- add_2sum(x, y, fast=True, fix_overflow=True) -/
def fast2sumFix (largest zero : Nat) : List Node := [
  ⟨.input, [], 1⟩, ⟨.input, [], 0⟩, ⟨.add, [0, 1], 0⟩, ⟨.sub, [2, 1], 0⟩,
  ⟨.abs, [3], 0⟩, ⟨.const, [], largest⟩, ⟨.gt, [4, 5], 0⟩, ⟨.const, [], zero⟩,
  ⟨.sub, [0, 3], 0⟩, ⟨.select, [6, 7, 8], 0⟩ ]
def fast2sumFixOuts : List Nat := [2, 9]

/-- fpa.split_veltkamp(x, scale=False):  g = C*x; d = g - x; xh = g - d; xl = x - xh  (`cb` = bits of C) -/
def splitV (cb : Nat) : List Node := [
  ⟨.const, [], cb⟩, ⟨.input, [], 0⟩, ⟨.mul, [0, 1], 0⟩, ⟨.sub, [2, 1], 0⟩, ⟨.sub, [2, 3], 0⟩, ⟨.sub, [1, 4], 0⟩ ]
def splitVOuts : List Nat := [4, 5]

/-- utils.split_veltkamp:  g = C*x; d = x - g; xh = g + d; xl = x - xh -/
def splitVU (cb : Nat) : List Node := [
  ⟨.const, [], cb⟩, ⟨.input, [], 0⟩, ⟨.mul, [0, 1], 0⟩, ⟨.sub, [1, 2], 0⟩, ⟨.add, [2, 3], 0⟩, ⟨.sub, [1, 4], 0⟩ ]

/-- fpa.mul_dekker(x, y, scale=False, fix_overflow=False) -/
def mulDekker (cb : Nat) : List Node := [
  ⟨.input, [], 1⟩,      -- 0: y
  ⟨.input, [], 0⟩,      -- 1: x
  ⟨.mul, [0, 1], 0⟩,    -- 2: xyh = y*x
  ⟨.const, [], cb⟩,     -- 3: C
  ⟨.mul, [3, 1], 0⟩,    -- 4: gx = C*x
  ⟨.sub, [4, 1], 0⟩,    -- 5: gx - x
  ⟨.sub, [4, 5], 0⟩,    -- 6: xh
  ⟨.sub, [1, 6], 0⟩,    -- 7: xl
  ⟨.mul, [0, 3], 0⟩,    -- 8: gy = y*C
  ⟨.sub, [8, 0], 0⟩,    -- 9: gy - y
  ⟨.sub, [8, 9], 0⟩,    -- 10: yh
  ⟨.sub, [0, 10], 0⟩,   -- 11: yl
  ⟨.mul, [7, 11], 0⟩,   -- 12: xl*yl
  ⟨.mul, [11, 6], 0⟩,   -- 13: yl*xh
  ⟨.mul, [10, 6], 0⟩,   -- 14: yh*xh
  ⟨.neg, [2], 0⟩,       -- 15: -xyh
  ⟨.add, [14, 15], 0⟩,  -- 16: t1
  ⟨.add, [13, 16], 0⟩,  -- 17: t2
  ⟨.mul, [7, 10], 0⟩,   -- 18: xl*yh
  ⟨.add, [17, 18], 0⟩,  -- 19: t3
  ⟨.add, [12, 19], 0⟩ ] -- 20: xyl
def mulDekkerOuts : List Nat := [2, 20]

/-- fpa.split_veltkamp(x, scale=True): x_n = select(|x| < 1, x, x*invN); g = C*x_n; d = g - x_n; gd = g - d;
xh = select(|x| > x_max, select(x < 0, -x_max, x_max), select(|x| < 1, gd, gd*N)); xl = x - xh -/
def splitVScale (xmb zb oneb cb invb nb : Nat) : List Node := [
  ⟨.input, [], 0⟩,            -- 0: x
  ⟨.abs, [0], 0⟩,             -- 1: |x|
  ⟨.const, [], xmb⟩,          -- 2: x_max
  ⟨.gt, [1, 2], 0⟩,           -- 3: |x| > x_max
  ⟨.const, [], zb⟩,           -- 4: 0
  ⟨.lt, [0, 4], 0⟩,           -- 5: x < 0
  ⟨.neg, [2], 0⟩,             -- 6: -x_max
  ⟨.select, [5, 6, 2], 0⟩,    -- 7
  ⟨.const, [], oneb⟩,         -- 8: 1
  ⟨.lt, [1, 8], 0⟩,           -- 9: |x| < 1
  ⟨.const, [], cb⟩,           -- 10: C
  ⟨.const, [], invb⟩,         -- 11: invN
  ⟨.mul, [11, 0], 0⟩,         -- 12: invN*x
  ⟨.select, [9, 0, 12], 0⟩,   -- 13: x_n
  ⟨.mul, [10, 13], 0⟩,        -- 14: g
  ⟨.sub, [14, 13], 0⟩,        -- 15: d
  ⟨.sub, [14, 15], 0⟩,        -- 16: gd
  ⟨.const, [], nb⟩,           -- 17: N
  ⟨.mul, [16, 17], 0⟩,        -- 18: gd*N
  ⟨.select, [9, 16, 18], 0⟩,  -- 19
  ⟨.select, [3, 7, 19], 0⟩,   -- 20: xh
  ⟨.sub, [0, 20], 0⟩ ]        -- 21: xl
def splitVScaleOuts : List Nat := [20, 21]

/-- fpa.mul_dekker(x, y, scale=True, fix_overflow=False) — the default options -/
def mulDekkerScale (xmb zb oneb cb invb nb : Nat) : List Node := [
  ⟨.input, [], 1⟩,            -- 0: y
  ⟨.input, [], 0⟩,            -- 1: x
  ⟨.mul, [0, 1], 0⟩,          -- 2: y*x
  ⟨.abs, [1], 0⟩,             -- 3: |x|
  ⟨.const, [], xmb⟩,          -- 4: x_max
  ⟨.gt, [3, 4], 0⟩,           -- 5
  ⟨.const, [], zb⟩,           -- 6: 0
  ⟨.lt, [1, 6], 0⟩,           -- 7: x < 0
  ⟨.neg, [4], 0⟩,             -- 8
  ⟨.select, [7, 8, 4], 0⟩,    -- 9
  ⟨.const, [], oneb⟩,         -- 10: 1
  ⟨.lt, [3, 10], 0⟩,          -- 11: |x| < 1
  ⟨.const, [], cb⟩,           -- 12: C
  ⟨.const, [], invb⟩,         -- 13: invN
  ⟨.mul, [13, 1], 0⟩,         -- 14
  ⟨.select, [11, 1, 14], 0⟩,  -- 15: x_n
  ⟨.mul, [12, 15], 0⟩,        -- 16
  ⟨.sub, [16, 15], 0⟩,        -- 17
  ⟨.sub, [16, 17], 0⟩,        -- 18: gd_x
  ⟨.const, [], nb⟩,           -- 19: N
  ⟨.mul, [18, 19], 0⟩,        -- 20
  ⟨.select, [11, 18, 20], 0⟩, -- 21
  ⟨.select, [5, 9, 21], 0⟩,   -- 22: xh
  ⟨.abs, [0], 0⟩,             -- 23: |y|
  ⟨.gt, [23, 4], 0⟩,          -- 24
  ⟨.lt, [0, 6], 0⟩,           -- 25
  ⟨.select, [25, 8, 4], 0⟩,   -- 26
  ⟨.lt, [23, 10], 0⟩,         -- 27
  ⟨.mul, [0, 13], 0⟩,         -- 28: y*invN
  ⟨.select, [27, 0, 28], 0⟩,  -- 29: y_n
  ⟨.mul, [12, 29], 0⟩,        -- 30
  ⟨.sub, [30, 29], 0⟩,        -- 31
  ⟨.sub, [30, 31], 0⟩,        -- 32: gd_y
  ⟨.mul, [19, 32], 0⟩,        -- 33: N*gd_y
  ⟨.select, [27, 32, 33], 0⟩, -- 34
  ⟨.select, [24, 26, 34], 0⟩, -- 35: yh
  ⟨.sub, [0, 35], 0⟩,         -- 36: yl
  ⟨.mul, [22, 36], 0⟩,        -- 37: xh*yl
  ⟨.mul, [35, 22], 0⟩,        -- 38: yh*xh
  ⟨.neg, [2], 0⟩,             -- 39
  ⟨.add, [38, 39], 0⟩,        -- 40: t1
  ⟨.add, [37, 40], 0⟩,        -- 41: t2
  ⟨.sub, [1, 22], 0⟩,         -- 42: xl
  ⟨.mul, [35, 42], 0⟩,        -- 43: yh*xl
  ⟨.add, [41, 43], 0⟩,        -- 44: t3
  ⟨.mul, [36, 42], 0⟩,        -- 45: yl*xl
  ⟨.add, [44, 45], 0⟩ ]       -- 46
def mulDekkerScaleOuts : List Nat := [2, 46]

/-- fpa.mul_dekker(x, y, scale=True, fix_overflow=True) -/
def mulDekkerScaleFix (xmb zb oneb cb invb nb lb : Nat) : List Node := [
  ⟨.input, [], 1⟩,            -- 0: y
  ⟨.abs, [0], 0⟩,             -- 1
  ⟨.const, [], xmb⟩,          -- 2
  ⟨.gt, [1, 2], 0⟩,           -- 3
  ⟨.const, [], zb⟩,           -- 4
  ⟨.lt, [0, 4], 0⟩,           -- 5
  ⟨.neg, [2], 0⟩,             -- 6
  ⟨.select, [5, 6, 2], 0⟩,    -- 7
  ⟨.const, [], oneb⟩,         -- 8
  ⟨.lt, [1, 8], 0⟩,           -- 9
  ⟨.const, [], cb⟩,           -- 10
  ⟨.const, [], invb⟩,         -- 11
  ⟨.mul, [0, 11], 0⟩,         -- 12
  ⟨.select, [9, 0, 12], 0⟩,   -- 13: y_n
  ⟨.mul, [10, 13], 0⟩,        -- 14
  ⟨.sub, [14, 13], 0⟩,        -- 15
  ⟨.sub, [14, 15], 0⟩,        -- 16: gd_y
  ⟨.const, [], nb⟩,           -- 17
  ⟨.mul, [17, 16], 0⟩,        -- 18
  ⟨.select, [9, 16, 18], 0⟩,  -- 19
  ⟨.select, [3, 7, 19], 0⟩,   -- 20: yh
  ⟨.input, [], 0⟩,            -- 21: x
  ⟨.abs, [21], 0⟩,            -- 22
  ⟨.gt, [22, 2], 0⟩,          -- 23
  ⟨.lt, [21, 4], 0⟩,          -- 24
  ⟨.select, [24, 6, 2], 0⟩,   -- 25
  ⟨.lt, [22, 8], 0⟩,          -- 26
  ⟨.mul, [11, 21], 0⟩,        -- 27
  ⟨.select, [26, 21, 27], 0⟩, -- 28: x_n
  ⟨.mul, [10, 28], 0⟩,        -- 29
  ⟨.sub, [29, 28], 0⟩,        -- 30
  ⟨.sub, [29, 30], 0⟩,        -- 31: gd_x
  ⟨.mul, [31, 17], 0⟩,        -- 32
  ⟨.select, [26, 31, 32], 0⟩, -- 33
  ⟨.select, [23, 25, 33], 0⟩, -- 34: xh
  ⟨.mul, [20, 34], 0⟩,        -- 35: yh*xh
  ⟨.abs, [35], 0⟩,            -- 36
  ⟨.const, [], lb⟩,           -- 37: largest
  ⟨.gt, [36, 37], 0⟩,         -- 38: overflow
  ⟨.mul, [0, 21], 0⟩,         -- 39: y*x
  ⟨.select, [38, 39, 39], 0⟩, -- 40: xyh
  ⟨.sub, [0, 20], 0⟩,         -- 41: yl
  ⟨.mul, [34, 41], 0⟩,        -- 42: xh*yl
  ⟨.neg, [39], 0⟩,            -- 43
  ⟨.add, [35, 43], 0⟩,        -- 44: t1
  ⟨.add, [42, 44], 0⟩,        -- 45: t2
  ⟨.sub, [21, 34], 0⟩,        -- 46: xl
  ⟨.mul, [20, 46], 0⟩,        -- 47: yh*xl
  ⟨.add, [45, 47], 0⟩,        -- 48: t3
  ⟨.mul, [41, 46], 0⟩,        -- 49: yl*xl
  ⟨.add, [48, 49], 0⟩,        -- 50
  ⟨.select, [38, 4, 50], 0⟩ ] -- 51
def mulDekkerScaleFixOuts : List Nat := [40, 51]

/-- fpa.mul_dekker(x, y, scale=False, fix_overflow=True):  overflow = |xh*yh| > largest;
xyh = select(overflow, x*y, xyh); xyl = select(overflow, 0, xyl) -/
def mulDekkerFix (cb lb zb : Nat) : List Node := [
  ⟨.input, [], 1⟩,      -- 0: y
  ⟨.const, [], cb⟩,     -- 1: C
  ⟨.mul, [0, 1], 0⟩,    -- 2: gy
  ⟨.sub, [2, 0], 0⟩,    -- 3
  ⟨.sub, [2, 3], 0⟩,    -- 4: yh
  ⟨.input, [], 0⟩,      -- 5: x
  ⟨.mul, [1, 5], 0⟩,    -- 6: gx
  ⟨.sub, [6, 5], 0⟩,    -- 7
  ⟨.sub, [6, 7], 0⟩,    -- 8: xh
  ⟨.mul, [4, 8], 0⟩,    -- 9: yh*xh
  ⟨.abs, [9], 0⟩,       -- 10
  ⟨.const, [], lb⟩,     -- 11: largest
  ⟨.gt, [10, 11], 0⟩,   -- 12: overflow
  ⟨.mul, [0, 5], 0⟩,    -- 13: y*x
  ⟨.select, [12, 13, 13], 0⟩,  -- 14: xyh
  ⟨.const, [], zb⟩,     -- 15: 0
  ⟨.sub, [5, 8], 0⟩,    -- 16: xl
  ⟨.sub, [0, 4], 0⟩,    -- 17: yl
  ⟨.mul, [16, 17], 0⟩,  -- 18: xl*yl
  ⟨.mul, [17, 8], 0⟩,   -- 19: yl*xh
  ⟨.neg, [13], 0⟩,      -- 20
  ⟨.add, [9, 20], 0⟩,   -- 21: t1
  ⟨.add, [19, 21], 0⟩,  -- 22: t2
  ⟨.mul, [16, 4], 0⟩,   -- 23: xl*yh
  ⟨.add, [22, 23], 0⟩,  -- 24: t3
  ⟨.add, [18, 24], 0⟩,  -- 25: xyl
  ⟨.select, [12, 15, 25], 0⟩ ] -- 26
def mulDekkerFixOuts : List Nat := [14, 26]

/-- utils.multiply_dekker -/
def mulDekkerU (cb : Nat) : List Node := [
  ⟨.input, [], 1⟩,      -- 0: y
  ⟨.input, [], 0⟩,      -- 1: x
  ⟨.mul, [0, 1], 0⟩,    -- 2: xyh
  ⟨.const, [], cb⟩,     -- 3: C
  ⟨.mul, [0, 3], 0⟩,    -- 4: gy = y*C
  ⟨.sub, [0, 4], 0⟩,    -- 5: y - gy
  ⟨.add, [4, 5], 0⟩,    -- 6: yh
  ⟨.sub, [0, 6], 0⟩,    -- 7: yl
  ⟨.mul, [3, 1], 0⟩,    -- 8: gx = C*x
  ⟨.sub, [1, 8], 0⟩,    -- 9: x - gx
  ⟨.add, [8, 9], 0⟩,    -- 10: xh
  ⟨.sub, [1, 10], 0⟩,   -- 11: xl
  ⟨.mul, [7, 11], 0⟩,   -- 12: yl*xl
  ⟨.mul, [6, 11], 0⟩,   -- 13: yh*xl
  ⟨.mul, [7, 10], 0⟩,   -- 14: yl*xh
  ⟨.mul, [6, 10], 0⟩,   -- 15: yh*xh
  ⟨.neg, [2], 0⟩,       -- 16: -xyh
  ⟨.add, [15, 16], 0⟩,  -- 17: t1
  ⟨.add, [14, 17], 0⟩,  -- 18: t2 = yl*xh + t1
  ⟨.add, [13, 18], 0⟩,  -- 19: t3 = yh*xl + t2
  ⟨.add, [12, 19], 0⟩ ] -- 20: xyl

/-- utils.square_dekker -/
def squareDekkerU (cb : Nat) : List Node := [
  ⟨.input, [], 0⟩,      -- 0: x
  ⟨.mul, [0, 0], 0⟩,    -- 1: xxh
  ⟨.const, [], cb⟩,     -- 2: C
  ⟨.mul, [2, 0], 0⟩,    -- 3: g
  ⟨.sub, [0, 3], 0⟩,    -- 4: x - g
  ⟨.add, [3, 4], 0⟩,    -- 5: xh
  ⟨.sub, [0, 5], 0⟩,    -- 6: xl
  ⟨.mul, [6, 6], 0⟩,    -- 7: xl*xl
  ⟨.mul, [6, 5], 0⟩,    -- 8: xl*xh
  ⟨.mul, [5, 5], 0⟩,    -- 9: xh*xh
  ⟨.neg, [1], 0⟩,       -- 10
  ⟨.add, [9, 10], 0⟩,   -- 11: t1
  ⟨.add, [8, 11], 0⟩,   -- 12: t2
  ⟨.add, [8, 12], 0⟩,   -- 13: t3
  ⟨.add, [7, 13], 0⟩ ]  -- 14: xxl
def squareDekkerUOuts : List Nat := [1, 14]

end FAVerif.Spec
