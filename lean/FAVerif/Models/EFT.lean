/-
Specification programs for the error-free transformations (C10), in the canonical form the
translator emits (operands of commutative primitives ordered by structural digest, canonical
DFS post-order).  Each is a transcription of the Python in
functional_algorithms/floating_point_algorithms.py; the regenerated programs in
Generated/C10.lean are compared with these by `decide` on every run.
-/
import FAVerif.IR.Prog

namespace FAVerif.Spec
open FAVerif.IR

/-- add_2sum(x, y, fast=False):  s = x + y; z = s - x; t = (x - (s - z)) + (y - z) -/
def add2sum : List Node := [
  ⟨.input, [], 1⟩,      -- 0: y
  ⟨.input, [], 0⟩,      -- 1: x
  ⟨.add, [0, 1], 0⟩,    -- 2: s = y + x
  ⟨.sub, [2, 1], 0⟩,    -- 3: z = s - x
  ⟨.sub, [0, 3], 0⟩,    -- 4: y - z
  ⟨.sub, [2, 3], 0⟩,    -- 5: s - z
  ⟨.sub, [1, 5], 0⟩,    -- 6: x - (s - z)
  ⟨.add, [4, 6], 0⟩ ]   -- 7: t
def add2sumOuts : List Nat := [2, 7]

/-- add_2sum(x, y, fast=True):  s = x + y; z = s - x; t = y - z -/
def fast2sum : List Node := [
  ⟨.input, [], 1⟩, ⟨.input, [], 0⟩, ⟨.add, [0, 1], 0⟩, ⟨.sub, [2, 1], 0⟩, ⟨.sub, [0, 3], 0⟩ ]
def fast2sumOuts : List Nat := [2, 4]

/-- add_2sum(x, y, fast=False, fix_overflow=True):  t = select(|z| > largest, 0, t) -/
def add2sumFix (largest zero : Nat) : List Node := [
  ⟨.input, [], 1⟩, ⟨.input, [], 0⟩, ⟨.add, [0, 1], 0⟩, ⟨.sub, [2, 1], 0⟩,
  ⟨.abs, [3], 0⟩, ⟨.const, [], largest⟩, ⟨.gt, [4, 5], 0⟩, ⟨.const, [], zero⟩,
  ⟨.sub, [0, 3], 0⟩, ⟨.sub, [2, 3], 0⟩, ⟨.sub, [1, 9], 0⟩, ⟨.add, [8, 10], 0⟩,
  ⟨.select, [6, 7, 11], 0⟩ ]
def add2sumFixOuts : List Nat := [2, 12]

/-- add_2sum(x, y, fast=True, fix_overflow=True) -/
def fast2sumFix (largest zero : Nat) : List Node := [
  ⟨.input, [], 1⟩, ⟨.input, [], 0⟩, ⟨.add, [0, 1], 0⟩, ⟨.sub, [2, 1], 0⟩,
  ⟨.abs, [3], 0⟩, ⟨.const, [], largest⟩, ⟨.gt, [4, 5], 0⟩, ⟨.const, [], zero⟩,
  ⟨.sub, [0, 3], 0⟩, ⟨.select, [6, 7, 8], 0⟩ ]
def fast2sumFixOuts : List Nat := [2, 9]

end FAVerif.Spec
