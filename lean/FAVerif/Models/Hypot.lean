/-
Specification node list of `algorithms.hypot` (real hypot of two reals; also complex `absolute`) as it is traced:
the regenerated programs are checked (`decide`) to be exactly this list with the format's constants.
-/
import FAVerif.IR.Prog

namespace FAVerif.Spec
open FAVerif.IR

/-- s2b: √2 rounded, oneb: 1, zb: 0, twob: 2 -/
def hypotNodes (s2b oneb zb twob : Nat) : List Node := [
  ⟨.input, [], 0⟩,        -- 0: x
  ⟨.abs, [0], 0⟩,         -- 1: |x|
  ⟨.input, [], 1⟩,        -- 2: y
  ⟨.abs, [2], 0⟩,         -- 3: |y|
  ⟨.pymin, [1, 3], 0⟩,    -- 4: mn
  ⟨.pymax, [1, 3], 0⟩,    -- 5: mx
  ⟨.eq, [4, 5], 0⟩,       -- 6: mn == mx
  ⟨.const, [], s2b⟩,      -- 7: sqrt(2)
  ⟨.mul, [7, 5], 0⟩,      -- 8: h1 = sqrt(2) * mx
  ⟨.const, [], oneb⟩,     -- 9: 1
  ⟨.div, [4, 5], 0⟩,      -- 10: mn / mx
  ⟨.mul, [10, 10], 0⟩,    -- 11: r = (mn/mx)^2
  ⟨.add, [9, 11], 0⟩,     -- 12: 1 + r
  ⟨.sqrt, [12], 0⟩,       -- 13: sqa
  ⟨.eq, [9, 13], 0⟩,      -- 14: sqa == 1
  ⟨.const, [], zb⟩,       -- 15: 0
  ⟨.gt, [11, 15], 0⟩,     -- 16: r > 0
  ⟨.and, [14, 16], 0⟩,    -- 17
  ⟨.mul, [5, 11], 0⟩,     -- 18: mx * r
  ⟨.const, [], twob⟩,     -- 19: 2
  ⟨.div, [18, 19], 0⟩,    -- 20: mx * r / 2
  ⟨.add, [20, 5], 0⟩,     -- 21: mx + mx * r / 2
  ⟨.mul, [13, 5], 0⟩,     -- 22: mx * sqa
  ⟨.select, [17, 21, 22], 0⟩,  -- 23: h2
  ⟨.select, [6, 8, 23], 0⟩ ]   -- 24: result
def hypotOuts : List Nat := [24]

end FAVerif.Spec
