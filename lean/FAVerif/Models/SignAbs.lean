/-
SignAbs — executable judge for the rows of the rewriter's relational tables (C04).  Mathlib-free.

The extended real line is cut at the named points
    -inf < 0 < smallest_subnormal < smallest < eps < 1 < largest < +inf
into 15 classes, numbered along the line; even numbers are the points, odd numbers the open
intervals between them:

    0 -inf | 1 (-inf,0) | 2 {0} | 3 (0,ssub) | 4 {ssub} | 5 (ssub,smallest) | 6 {smallest}
    | 7 (smallest,eps) | 8 {eps} | 9 (eps,1) | 10 {1} | 11 (1,largest) | 12 {largest}
    | 13 (largest,+inf) | 14 +inf

A table key denotes a set of classes (a constant: one point; a property such as "positive": a
range).  For two classes the outcome of the six relational operators is determined unless both
values lie in the same open interval.  An entry is sound iff for every pair of classes the
outcome is determined and equals the entry (so a sound entry is also the strongest one).
Soundness of the judge over every linearly ordered field: `Lemmas/RewriterTables.lean`.
-/
import FAVerif.Models.Rewriter

namespace FAVerif.SignAbs
open FAVerif.Rewriter

/-- classes denoted by a table key; `none`: the key is outside the abstraction -/
def keyClasses : Key → Option (List Nat)
  | .name s =>
    if s = "positive" then some (List.range' 3 12)
    else if s = "nonnegative" then some (List.range' 2 13)
    else if s = "negative" then some (List.range' 0 2)
    else if s = "nonpositive" then some (List.range' 0 3)
    else if s = "finite" then some (List.range' 1 13)
    else if s = "neginf" then some [0]
    else if s = "smallest_subnormal" then some [4]
    else if s = "smallest" then some [6]
    else if s = "eps" then some [8]
    else if s = "largest" then some [12]
    else if s = "posinf" then some [14]
    else none
  | .num n => if n = 0 then some [2] else if n = 1 then some [10] else none

/-- columns: `>= > <= < == !=` -/
def rowLT : List Bool := [false, false, true, true, false, true]
def rowGT : List Bool := [true, true, false, false, false, true]
def rowEQ : List Bool := [true, false, true, false, true, false]

/-- outcome of column `col` for a value of class `i` against a value of class `j` -/
def determined (i j col : Nat) : Option Bool :=
  if i < j then rowLT[col]?
  else if j < i then rowGT[col]?
  else if i % 2 = 0 then rowEQ[col]?
  else none

def entrySound (ci cj : List Nat) (col : Nat) (b : Bool) : Bool :=
  ci.all fun i => cj.all fun j => determined i j col == some b

/-- every non-`None` entry of the row is sound -/
def rowSound (row : (Key × Key) × Row) : Bool :=
  match keyClasses row.1.1, keyClasses row.1.2 with
  | some ci, some cj =>
    (List.range 6).all fun col =>
      match (row.2[col]?).join with
      | some b => entrySound ci cj col b
      | none => true
  | _, _ => false

/-- all rows of a table except those whose key is listed -/
def tableSoundExcept (t : Table) (except : List (Key × Key)) : Bool :=
  t.all fun row => except.contains row.1 || rowSound row

/-- the table with the listed rows removed -/
def Table.erase (t : Table) (except : List (Key × Key)) : Table :=
  t.filter fun row => !except.contains row.1

end FAVerif.SignAbs
