/-
C18 — FPU control context always restores the control register.
Only property statements, their proofs' top level, and non-vacuity examples live here.
-/
import FAVerif.Lemmas.Mxcsr

namespace FAVerif.Props.C18
open FAVerif.Mxcsr

/-- **restore**: along every well-nested history (any nesting, any arguments, contexts
created early and entered late, re-used, exits caused by exceptions — `exc = true` — at any
depth) every exit leaves the register exactly at the value it had at the matching enter. -/
theorem restore (s : State) (stk : Stack) (ops : List Op) (s' : State) (stk' : Stack)
    (obs : List (Reg × Reg)) (hinv : Inv s stk) (h : exec s stk ops = some (s', stk', obs)) :
    (∀ p ∈ obs, p.1 = p.2) ∧ Inv s' stk' :=
  exec_restores ops s stk s' stk' obs hinv h

/-- The invariant holds initially, for every initial register value. -/
theorem init_inv (r : Reg) : Inv { reg := r, ctxs := [] } [] := inv_init r

/-- A `with ctx_i: mid` block as a whole, `mid` itself well nested (and possibly ending in an
exception, `e = true`): the register after the block equals the register before it.
Stated on the plain machine `run`, without ghost state. -/
theorem restore_block (s : State) (i : Nat) (e : Bool) (mid : List Op)
    (t : State) (obs : List (Reg × Reg)) (hinv : Inv s [])
    (hent : (step s (.enter i)).2 = .ok)
    (hmid : exec (step s (.enter i)).1 [] mid = some (t, [], obs)) :
    (run s (.enter i :: mid ++ [.exit i e])).reg = s.reg :=
  block_restores s i e mid t obs hinv hent hmid

/-- Under the invariant `__enter__` fails exactly when the context object is already open
(or does not exist): the assertion in `__enter__` never fires spuriously. -/
theorem enter_ok_iff (s : State) (stk : Stack) (i : Nat) (hinv : Inv s stk) :
    (step s (.enter i)).2 = .ok ↔ (i < s.ctxs.length ∧ i ∉ stk.map (·.1)) :=
  enter_ok_iff' s stk i hinv

/-- **only_requested_fresh**: the word loaded on entry differs from the register value it
was computed from only in the requested fields, and those hold the requested values. -/
theorem only_requested_fresh (cur : Reg) (a : Args) (j : Nat) :
    (j ∉ requestedBits a → (desired cur a).getLsbD j = cur.getLsbD j) ∧
    (∀ b, a.fz = some b → (desired cur a).getLsbD 15 = b) ∧
    (∀ b, a.daz = some b → (desired cur a).getLsbD 6 = b) ∧
    (∀ r, a.rn = some r → (desired cur a).getLsbD 14 = r.hi ∧ (desired cur a).getLsbD 13 = r.lo) :=
  desired_spec cur a j

/-- **only_requested** (no freshness hypothesis): whenever `__enter__` succeeds — however long
ago the context object was created and whatever happened to the register since — the
register inside differs from the register at entry only in the requested fields. -/
theorem only_requested (s : State) (i : Nat) (c : CtxObj) (j : Nat)
    (hc : s.ctxs[i]? = some c) (hok : (step s (.enter i)).2 = .ok) (hj : j ∉ requestedBits c.args) :
    (step s (.enter i)).1.reg.getLsbD j = s.reg.getLsbD j := by
  obtain ⟨c', hc', _, heq⟩ := step_enter_ok s i hok
  rw [hc] at hc'; cases hc'
  rw [heq]; exact (desired_spec s.reg c.args j).1 hj

/-- A context entered immediately after its creation loads exactly `desired (current register)`. -/
theorem fresh_enter (s : State) (a : Args) :
    (run s [.create a, .enter s.ctxs.length]).reg = desired s.reg a := fresh_enter' s a

/-- The RN encoding and the bit positions are those of the Intel SDM (RC = bits 13-14:
00 nearest, 01 down, 10 up, 11 toward zero; FZ = bit 15; DAZ = bit 6). -/
theorem fields :
    desired 0#32 { rn := some .nearest } = 0x0000#32 ∧
    desired 0#32 { rn := some .down } = 0x2000#32 ∧
    desired 0#32 { rn := some .up } = 0x4000#32 ∧
    desired 0#32 { rn := some .towardszero } = 0x6000#32 ∧
    desired 0#32 { fz := some true } = 0x8000#32 ∧
    desired 0#32 { daz := some true } = 0x0040#32 ∧
    desired 0xffffffff#32 { fz := some false, daz := some false, rn := some .nearest } = 0xffff1fbf#32 := by
  decide

/-- Regression witness for the defect repaired by the `fix:` commit in /repo (the desired word
used to be computed at creation time): history create c0 = context(FZ=True) at 0x1f80;
create c1 = context(DAZ=True); enter c1 (0x1fc0); enter c0 → 0x9fc0, DAZ (bit 6) survives. -/
theorem only_requested_stale_regression :
    let s0 : State := { reg := 0x1f80#32, ctxs := [] }
    let s1 := run s0 [.create { fz := some true }, .create { daz := some true }, .enter 1]
    let s2 := run s1 [.enter 0]
    s1.reg = 0x1fc0#32 ∧ s2.reg = 0x9fc0#32 := by
  decide

/-! Non-vacuity: a concrete nested history with an exception exit satisfies the hypotheses. -/
example :
    exec { reg := 0x1f80#32, ctxs := [] } []
      [.create { fz := some true }, .create { rn := some .up }, .enter 0, .body 0x21#32,
       .enter 1, .enter 0, .exit 1 true, .exit 0 true]
    = some ({ reg := 0x1f80#32, ctxs := [⟨{ fz := some true }, none⟩, ⟨{ rn := some .up }, none⟩] }, [],
            [(0x9fa1#32, 0x9fa1#32), (0x1f80#32, 0x1f80#32)]) := by decide

end FAVerif.Props.C18
