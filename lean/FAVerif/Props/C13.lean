/-
C13 — number-representation conversions are lossless and mutually inverse.
Only property statements, their proofs' top level, and non-vacuity examples live here.

Conventions.  `f : Fmt` is any binary format (`p` = precision incl. hidden bit, `ew` = exponent
width), a float is a bit pattern `b < 2^f.width`, `decode f b` is its IEEE-754 meaning
(`FP/Basic.lean`), `(decode f b).toRat?` its exact rational value.  The Python functions are the
definitions of `Models/Conv.lean`.  Hypotheses `2 ≤ f.ew`, `3 ≤ f.p`, `f.p ≤ 2^(f.ew-1)` hold for
binary16/32/64 (see the examples at the end).
-/
import FAVerif.Lemmas.Conv

namespace FAVerif.Props.C13
open FAVerif.FP FAVerif.Conv

/-! ## float2fraction / fraction2float -/

/-- **f2q_value**: for every format and every finite pattern, `float2fraction` returns exactly
the decoded rational value (normal, subnormal, both zeros). -/
theorem f2q_value (f : Fmt) (b : Nat) (hew : 2 ≤ f.ew) (hp : 1 ≤ f.p) (hfin : isFiniteBits f b = true) :
    (decode f b).toRat? = some (float2fraction f b) :=
  f2q_value' f b hew hp hfin

/-- `float2fraction(±inf) = ±2^maxexp` (the encoding `fraction2float` maps back to ±inf). -/
theorem f2q_inf (f : Fmt) (b : Nat) (hew : 2 ≤ f.ew) (hp : 1 ≤ f.p) (hb : b < 2 ^ f.width) (hinf : isInfb f b = true) :
    float2fraction f b = (((if (fields f b).sign then (-1:Int) else 1) * (2 ^ maxexp f : Nat) : Int) : Rat) :=
  f2q_inf' f b hew hp hb hinf

/-- **q2f_f2q**: `fraction2float(float2fraction(b)) = b` for every finite pattern, bit for bit, except
that both zeros come back as `+0` (a `Fraction` cannot carry the sign of zero). -/
theorem q2f_f2q (f : Fmt) (b : Nat) (hew : 2 ≤ f.ew) (hp : 1 ≤ f.p) (hpm : f.p ≤ 2 ^ (f.ew - 1))
    (hb : b < 2 ^ f.width) (hfin : isFiniteBits f b = true) :
    fraction2float f (float2fraction f b) = if isZerob f b then 0 else b :=
  q2f_f2q' f b hew hp hpm hb hfin

/-- infinities survive the fraction round trip -/
theorem q2f_f2q_inf (f : Fmt) (b : Nat) (hew : 2 ≤ f.ew) (hp : 1 ≤ f.p) (hb : b < 2 ^ f.width)
    (hinf : isInfb f b = true) : fraction2float f (float2fraction f b) = b :=
  q2f_f2q_inf' f b hew hp hb hinf

/-! ## float2bin / bin2float -/

/-- **bin_value**: the string produced by `float2bin` denotes exactly the decoded value
(`[-]1.b₁…b_k p e ↦ ±(1b₁…b_k)₂·2^(e−k)`, `"0" ↦ 0`), for every finite pattern. -/
theorem bin_value (f : Fmt) (b : Nat) (hew : 2 ≤ f.ew) (hp : 1 ≤ f.p) (hb : b < 2 ^ f.width)
    (hfin : isFiniteBits f b = true) : valueOfBin (float2bin f b) = (decode f b).toRat? :=
  bin_value' f b hew hp hb hfin

/- Full statement (FALSE of the code as written, see `bin_roundtrip_negzero_witness`):
     ∀ finite b, bin2float f (float2bin f b) = .ok b
   `float2bin(-0.0)` is `"0"` (the test `f >= 0` is true for −0.0), which reads back as `+0.0`. -/

/-- **bin_roundtrip_partial**: `bin2float(float2bin(b)) = b`, bit for bit, for every finite pattern
other than `-0` (normal, subnormal, `+0`, both signs). -/
theorem bin_roundtrip_partial (f : Fmt) (b : Nat) (hew : 2 ≤ f.ew) (hp : 3 ≤ f.p) (hb : b < 2 ^ f.width)
    (hfin : isFiniteBits f b = true) (hnz : b ≠ f.signBit) : bin2float f (float2bin f b) = .ok b :=
  bin_roundtrip' f b hew hp hb hfin hnz

/-- Negation witness (replayed on the real code): `-0.0 ↦ "0" ↦ +0.0` in all three formats. -/
theorem bin_roundtrip_negzero_witness :
    float2bin binary16 0x8000 = ['0'] ∧ bin2float binary16 (float2bin binary16 0x8000) = .ok 0 ∧
    bin2float binary32 (float2bin binary32 0x80000000) = .ok 0 ∧
    bin2float binary64 (float2bin binary64 0x8000000000000000) = .ok 0 := by
  decide +kernel

/-- `±inf ↦ "inf"/"-inf" ↦ ±inf` -/
theorem bin_roundtrip_inf (f : Fmt) (b : Nat) (hew : 2 ≤ f.ew) (hp : 1 ≤ f.p) (hb : b < 2 ^ f.width)
    (hinf : isInfb f b = true) : bin2float f (float2bin f b) = .ok b :=
  bin_roundtrip_inf' f b hew hp hb hinf

/-- every NaN `↦ "nan" ↦` the canonical quiet NaN, which is a NaN -/
theorem bin_roundtrip_nan (f : Fmt) (b : Nat) (hew : 1 ≤ f.ew) (hp : 2 ≤ f.p) (hnan : isNaNb f b = true) :
    bin2float f (float2bin f b) = .ok (nanBits f) ∧ isNaNb f (nanBits f) = true :=
  ⟨bin_roundtrip_nan' f b hnan, nanBits_isNaN f hew hp⟩

/-! ## float2mpf / mpf2float -/

/-- **mpf_value**: when the context precision is at least the format's (or the format is binary64, which
mpmath converts exactly), `float2mpf` succeeds on every finite pattern and the resulting raw tuple
`(sign, man, exp, bc)` has exactly the decoded value. -/
theorem mpf_value (f : Fmt) (b prec : Nat) (hew : 2 ≤ f.ew) (hp : 1 ≤ f.p) (hb : b < 2 ^ f.width)
    (hfin : isFiniteBits f b = true) (hprec : f.p ≤ prec ∨ f = binary64) :
    ∃ t, float2mpf f prec b = .ok t ∧ t.toRat? = (decode f b).toRat? := by
  obtain ⟨m, e, hd, hwf, _, _⟩ := finite_view f b hew hp hb hfin
  exact ⟨_, float2mpf_canon f b prec _ m e hfin hd hwf hprec, by rw [hd, canonT_toRat]; rfl⟩

/- Full statement (FALSE of the code as written, see `mpf_roundtrip_negzero_witness`):
     ∀ finite b, ∃ t, float2mpf f prec b = .ok t ∧ mpf2float f t = b
   mpmath has no signed zero: `float2mpf(-0.0)` is `fzero`, which reads back as `+0.0`. -/

/-- **mpf_roundtrip_partial**: `mpf2float(float2mpf(b)) = b`, bit for bit, for every finite pattern other
than `-0` (context precision at least the format's). -/
theorem mpf_roundtrip_partial (f : Fmt) (b prec : Nat) (hew : 2 ≤ f.ew) (hp : 1 ≤ f.p) (hpm : f.p ≤ 2 ^ (f.ew - 1))
    (hb : b < 2 ^ f.width) (hfin : isFiniteBits f b = true) (hprec : f.p ≤ prec ∨ f = binary64)
    (hnz : b ≠ f.signBit) :
    ∃ t, float2mpf f prec b = .ok t ∧ mpf2floatC f t = b := by
  obtain ⟨m, e, hd, hwf, hpack, hz⟩ := finite_view f b hew hp hb hfin
  refine ⟨_, float2mpf_canon f b prec _ m e hfin hd hwf hprec, ?_⟩
  by_cases hm : m = 0
  · subst hm
    have hpm0 : packMag f 0 e = 0 := by
      unfold packMag; simp [Nat.two_pow_pos]
    rw [hpm0] at hpack
    have : b = 0 := by
      cases hs : (fields f b).sign
      · rw [hs] at hpack; simpa using hpack
      · rw [hs] at hpack; simp at hpack; exact absurd hpack hnz
    have hc : canonT (sgnNat (fields f b).sign) 0 e = fzero := by simp [canonT]
    rw [hc, mpf2floatC_fzero f hew hp, this]
  · rw [mpf2floatC_canon f hew hp hpm _ m e hwf hm]; exact hpack.symm

/-- Negation witness (replayed on the real code): `-0.0 ↦ fzero ↦ +0.0`. -/
theorem mpf_roundtrip_negzero_witness :
    float2mpf binary16 53 0x8000 = .ok fzero ∧ mpf2floatC binary16 fzero = 0 ∧
    float2mpf binary64 53 0x8000000000000000 = .ok fzero := by
  decide +kernel

/-- `±inf ↦ finf/fninf ↦ ±inf` -/
theorem mpf_roundtrip_inf (f : Fmt) (b prec : Nat) (hp : 1 ≤ f.p) (hb : b < 2 ^ f.width) (hinf : isInfb f b = true) :
    ∃ t, float2mpf f prec b = .ok t ∧ t.isInf = true ∧ mpf2floatC f t = b :=
  mpf_roundtrip_inf' f b prec hp hb hinf

/-- every NaN `↦ fnan ↦` the canonical quiet NaN -/
theorem mpf_roundtrip_nan (f : Fmt) (b prec : Nat) (hnan : isNaNb f b = true) :
    float2mpf f prec b = .ok fnan ∧ mpf2floatC f fnan = nanBits f :=
  mpf_roundtrip_nan' f b prec hnan

/-- The raw tuple is the *normalised* one (odd mantissa, exact bit count): `mpf2float ∘ float2mpf` in tuple form. -/
theorem mpf2float_float2mpf_tuple (f : Fmt) (b prec : Nat) (hew : 2 ≤ f.ew) (hp : 1 ≤ f.p) (hb : b < 2 ^ f.width)
    (hfin : isFiniteBits f b = true) (hprec : f.p ≤ prec ∨ f = binary64) :
    ∃ m e, decode f b = .fin (fields f b).sign m e ∧
      float2mpf f prec b = .ok (if m = 0 then fzero else
        ⟨sgnNat (fields f b).sign, oddPart m, e + tz m, sigBits m⟩) := by
  obtain ⟨m, e, hd, hwf, _, _⟩ := finite_view f b hew hp hb hfin
  exact ⟨m, e, hd, by rw [float2mpf_canon f b prec _ m e hfin hd hwf hprec]; rfl⟩

/-- The precision hypothesis is needed: with a 5-bit context `float2mpf(float16(1+2^-10))` silently
returns `1.0` (the numpy mantissa is rounded by `ctx.convert`), while for float64 it is exact. -/
theorem float2mpf_lowprec_witness :
    float2mpf binary16 5 0x3c01 = .ok ⟨0, 1, 0, 1⟩ ∧
    float2mpf binary64 5 0x3ff0000000000001 = .ok ⟨0, 4503599627370497, -52, 53⟩ := by
  decide +kernel

/-! ## expansions -/

/-- **expansion2mpf_value** (also `multiword2mpf`): if every word is a finite float and every partial sum
taken from the last word (`FitsAll`: at most `prec` significant bits) fits the context precision, the
result is the exact sum of the words: `Σ decode(wᵢ) = gsum · 2^emin`. -/
theorem expansion2mpf_value (f : Fmt) (prec : Nat) (hew : 2 ≤ f.ew) (hp : 1 ≤ f.p) (hprec : f.p ≤ prec ∨ f = binary64)
    (ws : List Nat) (hne : ws ≠ []) (hgood : ∀ w ∈ ws, GoodWord f w) (hfit : FitsAll f prec ws) :
    expansion2mpf f prec ws = .ok (canonI (gsum f ws) f.emin) ∧
    multiword2mpf f prec ws = .ok (canonI (gsum f ws) f.emin) ∧
    (canonI (gsum f ws) f.emin).toRat? = some ((gsum f ws : Rat) * pow2 f.emin) ∧
    (∀ w ∈ ws, (decode f w).toRat? = some ((gridInt f w : Rat) * pow2 f.emin)) := by
  have h := e2m_value f prec hew hp hprec ws hne hgood hfit
  refine ⟨h, h, canonI_toRat _ _, fun w hw => gridInt_toRat f w hew hp (hgood w hw)⟩

/-- **expansion_value / expansion_roundtrip**: let `x = X·2^emin` be an mpf value on the subnormal grid,
not larger than the largest finite float, with at most `prec` significant bits, and let the rounding
step `R` (`mpf2float`) satisfy `RSpec`.  Then `mpf2expansion(dtype, x)` terminates (fuel `|X|+1`
suffices), its words are finite floats whose exact sum is `x`, and `expansion2mpf` maps them back to
the very tuple `x`. -/
theorem expansion_value (R : MpfT → Nat) (f : Fmt) (prec : Nat) (hew : 2 ≤ f.ew) (hp : 1 ≤ f.p)
    (hprec : f.p ≤ prec ∨ f = binary64) (hR : RSpec f R) (X : Int) (hX : X.natAbs ≤ gridMax f)
    (hbits : sigBits X.natAbs ≤ prec) (functional : Bool) (fuel : Nat) (hfuel : X.natAbs + 1 ≤ fuel) :
    ∃ ws, mpf2expansionG R f prec (canonI X f.emin) none functional fuel = .ok ws ∧ ws ≠ [] ∧
      (∀ w ∈ ws, GoodWord f w) ∧ gsum f ws = X ∧
      expansion2mpf f prec ws = .ok (canonI X f.emin) :=
  expansion_spec R f prec hew hp hprec hR X hX hbits functional fuel hfuel

/-- `mpf2expansion(±inf) = [±inf]`. -/
theorem expansion_inf (f : Fmt) (prec : Nat) (fuel : Nat) :
    mpf2expansion f prec finf none false fuel = .ok [f.infBits] ∧
    mpf2expansion f prec fninf none false fuel = .ok [f.signBit + f.infBits] := by
  constructor <;> simp [mpf2expansion, mpf2expansionG, MpfT.isInf, mpf2floatC, MpfT.isFinite, MpfT.isNaN, finf, fninf, fnan]

/-- **expansion_nan** (full strength since the repair 81efdaa in /repo): for every format, precision and
iteration budget (even none), `mpf2expansion(dtype, nan)` is the one-word list `[nan]` (canonical quiet NaN,
which is a NaN) and `expansion2mpf` maps it back to `nan`: NaN maps to itself through expansions. -/
theorem expansion_nan (f : Fmt) (prec : Nat) (hew : 1 ≤ f.ew) (hp : 2 ≤ f.p) (fuel : Nat) (functional : Bool) :
    mpf2expansion f prec fnan none functional fuel = .ok [nanBits f] ∧ isNaNb f (nanBits f) = true ∧
    expansion2mpf f prec [nanBits f] = .ok fnan := by
  have hnan := nanBits_isNaN f hew hp
  have hr := mpf_roundtrip_nan' f (nanBits f) prec hnan
  refine ⟨?_, hnan, ?_⟩
  · have h1 : fnan.isInf = false := by decide
    have h2 : fnan.isNaN = true := by decide
    simp only [mpf2expansion, mpf2expansionG, h1, h2, Bool.false_or, if_true, hr.2]
  · rw [e2m_single]; exact hr.1

/-- Regression witness for the defect repaired by 81efdaa (the NaN used to enter the `while True` loop):
on NaN that loop never exits — for EVERY format, precision and number of iterations. -/
theorem expansion_nan_old_loop_regression (f : Fmt) (prec : Nat) (hew : 2 ≤ f.ew) (hp : 2 ≤ f.p) (fuel : Nat) (acc : List Nat) :
    expansionLoopG (mpf2floatC f) f prec none fuel fnan acc = .error .nonTermination :=
  expansionLoop_nan f prec hew hp fuel acc

/-- `RSpec` is satisfiable in every format: rounding toward zero (`truncR`, keep the `p` leading bits)
meets it, so `expansion_value` is not vacuous.  (That the real `mpf2float` meets it is C15's theorem;
C13 checks its clauses on the real function by search.) -/
theorem rspec_satisfiable (f : Fmt) (hew : 2 ≤ f.ew) (hp : 1 ≤ f.p) (hpm : f.p ≤ 2 ^ (f.ew - 1)) : RSpec f (truncR f) :=
  truncR_spec f hew hp hpm

/-! ## multiwords -/

/- Full statement (FALSE of the code as written, see `multiword_zero_window_witness`):
     for every normalised mpf x with emin ≤ exp, exp + bc ≤ maxexp, bc ≤ prec:
       Σ mpf2multiword(dtype, x) = x   and   multiword2mpf(mpf2multiword(dtype, x)) = x
   An all-zero window of `min(bc, p)` mantissa bits converts to 0.0, which the loop takes for exponent
   underflow (`break`: the remaining bits are dropped); and when the window after it has leading zeros,
   `offset -= bl1` steps back by less than the window width and bits are emitted twice. -/

/-- **multiword_value_partial / multiword_roundtrip**: for every format, every normalised mpf
`x = (-1)^s·man·2^exp` (odd `man`) inside the exponent range of the format, with `bc ≤ prec`, chunk
width `p` (`None` → the format's precision) and `max_length=None`, and a mantissa WITHOUT an all-zero
window of `min(bc,p)` bits: `mpf2multiword` terminates, its words are finite floats whose exact sum is `x`
(`gridOf f s man exp` in units of `2^emin`), and `multiword2mpf` returns exactly the tuple `x`. -/
theorem multiword_value_partial (f : Fmt) (prec : Nat) (hew : 2 ≤ f.ew) (hp : 1 ≤ f.p) (hpm : f.p ≤ 2 ^ (f.ew - 1))
    (hprec : f.p ≤ prec ∨ f = binary64)
    (s : Bool) (man : Nat) (exp bc : Int) (p? : Option Nat)
    (hp1 : 1 ≤ p?.getD f.p) (hpf : p?.getD f.p ≤ f.p) (hpp : p?.getD f.p ≤ prec)
    (hodd : man % 2 = 1) (hE : f.emin ≤ exp) (htop : exp + bitLen man ≤ maxexp f) (hbl : bitLen man ≤ prec)
    (hnz : NoZeroWindow man (min (bitLen man) (p?.getD f.p))) :
    ∃ ws, mpf2multiword f prec ⟨sgnNat s, man, exp, bc⟩ p? none = .ok ws ∧ ws ≠ [] ∧
      (∀ w ∈ ws, GoodWord f w) ∧ gsum f ws = gridOf f s man exp ∧
      multiword2mpf f prec ws = .ok ⟨sgnNat s, man, exp, bitLen man⟩ := by
  obtain ⟨ws, h1, h2, h3, h4, h5⟩ := multiword_spec f prec hew hp hpm s man exp bc p? hp1 hpf hpp hodd hE htop hbl hnz
  refine ⟨ws, h1, h2, h3, h4, ?_⟩
  show expansion2mpf f prec ws = _
  rw [e2m_value f prec hew hp hprec ws h2 h3 h5, h4, canonI_gridOf f s man exp hodd hE]

/-- Negation witnesses (replayed on the real code).  (1) `2^106 + 1` in float64: the second window is all
zero and the result is `[2^106]`, the `+1` is lost; (2) float32 with `p=3`: a zero window followed by a
window with leading zeros emits `64.0` twice; in both cases the hypothesis `NoZeroWindow` fails. -/
theorem multiword_zero_window_witness :
    mpf2multiword binary64 200 ⟨0, 2 ^ 106 + 1, 0, 107⟩ none none = .ok [0x4690000000000000] ∧
    ¬ NoZeroWindow (2 ^ 106 + 1) 53 ∧
    (∃ pre post, mpf2multiword binary32 64 ⟨0, 867027644117196405, -45, 60⟩ (some 3) none
        = .ok (pre ++ [0x42800000, 0x42800000] ++ post)) := by
  refine ⟨by decide +kernel, ?_, ⟨[0x46c00000], [0x40000000, 0x3ec00000, 0x3d000000, 0x3ac00000, 0x38600000,
      0x35800000, 0x32c00000, 0x30800000, 0x2f600000, 0x2d800000, 0x2c600000, 0x2a200000], by decide +kernel⟩⟩
  intro h
  exact h 1 (by decide +kernel) (by decide +kernel)

/-- Negation witness: infinities and NaN become the empty list, on which `multiword2mpf` raises IndexError. -/
theorem multiword_nonfinite_witness :
    mpf2multiword binary32 53 finf none none = .ok [] ∧ mpf2multiword binary32 53 fninf none none = .ok [] ∧
    mpf2multiword binary32 53 fnan none none = .ok [] ∧ multiword2mpf binary32 53 [] = .error .indexError := by
  decide +kernel

/-- Negation witness: `max_length=1` fails its own assertion `len(result) <= max_length` (two words). -/
theorem multiword_maxlength1_witness :
    mpf2multiword binary32 53 ⟨0, 3, 0, 2⟩ none (some 1) = .error .assertionError ∧
    mpf2multiword binary64 53 ⟨1, 1, -3, 1⟩ none (some 1) = .error .assertionError := by
  decide +kernel

/-! ## Non-vacuity: concrete instances satisfying the hypotheses -/

example : 2 ≤ binary16.ew ∧ 3 ≤ binary16.p ∧ binary16.p ≤ 2 ^ (binary16.ew - 1) := by decide
example : 2 ≤ binary32.ew ∧ 3 ≤ binary32.p ∧ binary32.p ≤ 2 ^ (binary32.ew - 1) := by decide
example : 2 ≤ binary64.ew ∧ 3 ≤ binary64.p ∧ binary64.p ≤ 2 ^ (binary64.ew - 1) := by decide
/-- a negative subnormal float16 (`-0x1.8p-16`): finite, not `-0`, all round trips apply -/
example : (0x8180 : Nat) < 2 ^ binary16.width ∧ isFiniteBits binary16 0x8180 = true ∧ 0x8180 ≠ binary16.signBit ∧
    float2bin binary16 0x8180 = "-1.1p-16".toList ∧ bin2float binary16 "-1.1p-16".toList = .ok 0x8180 ∧
    float2fraction binary16 0x8180 = mkRat (-3) 131072 ∧
    float2mpf binary16 53 0x8180 = .ok ⟨1, 3, -17, 2⟩ := by decide +kernel
/-- an exact three-word float16 expansion: `2^10 + 1 + 2^-11` -/
example : GoodWord binary16 0x6400 ∧ GoodWord binary16 0x3c00 ∧ GoodWord binary16 0x1000 ∧
    FitsAll binary16 24 [0x6400, 0x3c00, 0x1000] ∧
    expansion2mpf binary16 24 [0x6400, 0x3c00, 0x1000] = .ok ⟨0, 2099201, -11, 22⟩ := by
  refine ⟨⟨by decide, by decide⟩, ⟨by decide, by decide⟩, ⟨by decide, by decide⟩, ?_, by decide +kernel⟩
  unfold FitsAll FitsAll FitsAll FitsAll
  refine ⟨?_, ?_, ?_, trivial⟩ <;> decide +kernel

/-- a float64 multiword instance: `x = (2^52 + 1)·2^53 + 3` (107 bits, two words, no zero window) -/
example : (2 ^ 105 + 2 ^ 53 + 3) % 2 = 1 ∧ bitLen (2 ^ 105 + 2 ^ 53 + 3) = 106 ∧ NoZeroWindow (2 ^ 105 + 2 ^ 53 + 3) 53 ∧
    mpf2multiword binary64 200 ⟨0, 2 ^ 105 + 2 ^ 53 + 3, 0, 106⟩ none none = .ok [0x4680000000000001, 0x4008000000000000] := by
  refine ⟨by decide, by decide +kernel, ?_, by decide +kernel⟩
  intro k hk
  have hb : bitLen (2 ^ 105 + 2 ^ 53 + 3) = 106 := by decide +kernel
  rw [hb] at hk
  have hall : ∀ j, j ≤ 53 → (2 ^ 105 + 2 ^ 53 + 3) / 2 ^ j % 2 ^ 53 ≠ 0 := by decide +kernel
  exact hall k (by omega)

end FAVerif.Props.C13
