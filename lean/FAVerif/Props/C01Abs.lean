/-
C01 — accuracy of complex `absolute` (= hypot of the parts, fully expanded) on the regenerated programs (complex64,
complex128): for EVERY pair of rational parts whose larger magnitude is at least twice the smallest normal number,
absent overflow, any round-to-nearest, any square root with relative error ≤ u:
   (1−u)^7 (x²+y²) ≤ H² ≤ (1+u)^7 (x²+y²),   i.e. |H/|z| − 1| < 3.51 u  (< 4 ULP; the property asks for 16).
-/
import FAVerif.Generated.C01
import FAVerif.Lemmas.HypotProg

namespace FAVerif.Props.C01
open FAVerif.IR FAVerif.FP FAVerif.FPQ FAVerif.Gen.C01 FAVerif.Spec FAVerif.EFT

def sqrt2_c64 : ℚ := 11863283 / 8388608
def sqrt2_c128 : ℚ := 6369051672525773 / 4503599627370496

theorem absolute_constants :
    (decode binary32 1068827891).toRat? = some sqrt2_c64 ∧ (decode binary32 1065353216).toRat? = some 1 ∧
    (decode binary32 0).toRat? = some 0 ∧ (decode binary32 1073741824).toRat? = some 2 ∧
    (decode binary64 4609047870845172685).toRat? = some sqrt2_c128 ∧ (decode binary64 4607182418800017408).toRat? = some 1 ∧
    (decode binary64 0).toRat? = some 0 ∧ (decode binary64 4611686018427387904).toRat? = some 2 := by decide +kernel

theorem sqrt2_bounds :
    (1 - (1 : ℚ) / 2 ^ 24) ^ 2 * 2 ≤ sqrt2_c64 ^ 2 ∧ sqrt2_c64 ^ 2 ≤ (1 + (1 : ℚ) / 2 ^ 24) ^ 2 * 2 ∧
    (1 - (1 : ℚ) / 2 ^ 53) ^ 2 * 2 ≤ sqrt2_c128 ^ 2 ∧ sqrt2_c128 ^ 2 ≤ (1 + (1 : ℚ) / 2 ^ 53) ^ 2 * 2 := by
  unfold sqrt2_c64 sqrt2_c128; norm_num

/-- **Tie to the source**: the regenerated complex `absolute` programs are the specification hypot program. -/
theorem ties_absolute :
    absolute_c64.nodes = hypotNodes 1068827891 1065353216 0 1073741824 ∧ absolute_c64.outs = hypotOuts ∧ absolute_c64.fmt = binary32 ∧
    absolute_c128.nodes = hypotNodes 4609047870845172685 4607182418800017408 0 4611686018427387904 ∧ absolute_c128.outs = hypotOuts ∧
    absolute_c128.fmt = binary64 := by decide +kernel

/-- **Accuracy of complex `absolute` on the regenerated programs.** -/
theorem absolute_accuracy (r S : ℚ → ℚ) (x y : ℚ) :
    (∀ q : QFmt, q.p = 24 → q.emin ≤ -50 → IsRN q r → SqrtOK q S → 2 ^ (q.emin + 24) ≤ max |x| |y| →
      ∃ H, evalQS absolute_c64.fmt r S absolute_c64.nodes absolute_c64.outs [x, y] = some [H] ∧ 0 ≤ H ∧
        (1 - (1 : ℚ) / 2 ^ 24) ^ 7 * (x ^ 2 + y ^ 2) ≤ H ^ 2 ∧ H ^ 2 ≤ (1 + (1 : ℚ) / 2 ^ 24) ^ 7 * (x ^ 2 + y ^ 2)) ∧
    (∀ q : QFmt, q.p = 53 → q.emin ≤ -108 → IsRN q r → SqrtOK q S → 2 ^ (q.emin + 53) ≤ max |x| |y| →
      ∃ H, evalQS absolute_c128.fmt r S absolute_c128.nodes absolute_c128.outs [x, y] = some [H] ∧ 0 ≤ H ∧
        (1 - (1 : ℚ) / 2 ^ 53) ^ 7 * (x ^ 2 + y ^ 2) ≤ H ^ 2 ∧ H ^ 2 ≤ (1 + (1 : ℚ) / 2 ^ 53) ^ 7 * (x ^ 2 + y ^ 2)) := by
  obtain ⟨c1, c2, c3, c4, d1, d2, d3, d4⟩ := absolute_constants
  obtain ⟨b1, b2, b3, b4⟩ := sqrt2_bounds
  obtain ⟨t1, t2, t3, t4, t5, t6⟩ := ties_absolute
  constructor
  · intro q hq he hr hS hmx
    have hu : uro q = 1 / 2 ^ 24 := by unfold uro; rw [hq]
    rw [t1, t2, t3]
    have := hypot_prog hr hS (by omega) (by omega) binary32 _ _ _ _ sqrt2_c64 c1 c2 c3 c4 (by unfold sqrt2_c64; norm_num)
      (by rw [hu]; exact b1) (by rw [hu]; exact b2) x y (by rw [hq]; exact_mod_cast hmx)
    rw [hu] at this; exact this
  · intro q hq he hr hS hmx
    have hu : uro q = 1 / 2 ^ 53 := by unfold uro; rw [hq]
    rw [t4, t5, t6]
    have := hypot_prog hr hS (by omega) (by omega) binary64 _ _ _ _ sqrt2_c128 d1 d2 d3 d4 (by unfold sqrt2_c128; norm_num)
      (by rw [hu]; exact b3) (by rw [hu]; exact b4) x y (by rw [hq]; exact_mod_cast hmx)
    rw [hu] at this; exact this

end FAVerif.Props.C01
