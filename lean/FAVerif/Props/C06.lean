/-
C06 — StableHLO and XLA-client output is a faithful rendering of the graph.
Only property statements, their one-line proofs (lemmas live in FAVerif/Lemmas/PrinterHLO.lean) and
non-vacuity examples.

Vocabulary (FAVerif/Models/PrinterHLO.lean):
  `E`        expression trees carrying the reference name, `force_ref` flag and type of every node; a DAG is
             its unfolding (the printers key everything on reference NAMES, never on object identity);
  `Fn`       the `apply` node (function name, arguments, body);
  `printS`   StableHLO printer incl. `compute_need_ref`; output `SOut` with the pattern tree `P`
             (`P.toks` = the emitted tokens, `P.events` = bindings `:$r` / references `$r` in textual order);
  `printX`   XLA-client printer incl. its cpp constant printer; output `XOut` = assignments + return expression;
  `T`/`strip` the operator tree of a graph (kinds, operands in order, constants with value and like);
  `DenS ρ p t` / `DenX ρ mode x t`   "read through the TRUSTED operator tables, with every name v standing for
             ρ v, the emitted p / x is the operator tree t, and every binding site / assignment of a name v
             carries the tree ρ v";
  `refEnv body` reads a name as the sub-expression of the graph that carries it.
The tables (`stablehloKinds`, `xlaKinds`, `cppKinds`, …) are REGENERATED from /repo on every run.
-/
import FAVerif.Lemmas.PrinterHLO
import FAVerif.Generated.C06Tables

namespace FAVerif.Props.C06
open FAVerif.PrinterHLO FAVerif.Gen.C06

/-- The tables of the tree under test. -/
def sTables : STables := ⟨stablehloKinds, stablehloConsts⟩
def xTabs : XTabs := ⟨⟨xlaKinds, xlaConsts, xlaTypes⟩, ⟨cppKinds, cppConsts, cppTypes⟩⟩

/-! ## ops: every table row names the operator the specification assigns to the kind -/

/- Full statement (FALSE on the pinned tree: `positive ↦ StableHLO_PosOp`, StableHLO has no such operator):
   theorem ops_stablehlo : ∀ row ∈ stablehloKinds, sRowOk row = true -/
/-- **ops_stablehlo** (all rows but `positive`): an operator row names the StableHLO / CHLO
operator the trusted table assigns to the kind (`subtract ↦ StableHLO_SubtractOp`, …); a `None` row is
a comparison kind and its direction — the upper-cased kind, as the printer computes it — is the
direction of the same name (`lt ↦ LT`, …).  One decidable check per row of the regenerated table. -/
theorem ops_stablehlo_partial : ∀ row ∈ stablehloKinds, row.1 ∉ ["positive"] → sRowOk row = true := by decide

/-- Negation witness (pinned row, replayed on the real table by the harness): `StableHLO_PosOp` is
not the operator of any kind. -/
theorem ops_stablehlo_positive_witness : sRowOk ("positive", .op "StableHLO_PosOp") = false := by decide

/-- Every named constant maps to the like-named ConstantLike. -/
theorem ops_stablehlo_consts : ∀ row ∈ stablehloConsts, sConstOk row = true := by decide

/-- The six comparison kinds are printed as `StableHLO_CompareOp` with the direction of the same name,
and they are exactly the `None` rows of the table. -/
theorem ops_stablehlo_directions :
    (∀ k ∈ cmpKinds, trustedDir.lookup k = some (upper k)) ∧
    (∀ row ∈ stablehloKinds, (row.2 = .cmp ↔ row.1 ∈ cmpKinds)) := by decide

/-- **ops_xla_client** (EVERY row; full since the `fix:` commit 1e6d6d5 in /repo): the template of a kind
re-renders to the raw table entry and is the call of the xla client builder function the trusted table
assigns to the kind, with the operands in order (`subtract ↦ Sub({0}, {1})`, `lt ↦ Lt({0}, {1})`,
`floor ↦ Floor({0})`, bitwise kinds ↦ the XlaOp operator overloads). -/
theorem ops_xla_client : ∀ row ∈ xlaKinds, xRowOk trustedXla [] row = true := by decide

/-- Regression witness for the defect repaired by 1e6d6d5 (pinned old row): `Floot({0})` is not the
rendering of `floor` (xla::Floor) — the row check rejects it. -/
theorem ops_xla_client_floor_regression :
    xRowOk trustedXla [] ⟨"floor", some "Floot({0})", [.lit "Floot(", .arg 0, .lit ")"]⟩ = false := by decide

theorem ops_xla_client_types :
    (∀ row ∈ xlaTypes, trustedXlaTypes.lookup row.1 = some row.2) ∧ (∀ row ∈ xlaConsts, xConstOk row = true) := by decide

/-- **ops_cpp** (constant target of the XLA printer; EVERY row, full since 1e6d6d5): C++ operators and
<cmath> functions of the kinds, operands in order. -/
theorem ops_cpp : ∀ row ∈ cppKinds, xRowOk trustedCpp trustedCppRaw row = true := by decide

/-- Regression witness (pinned old row `std::floot({0})`, repaired by 1e6d6d5). -/
theorem ops_cpp_floor_regression :
    xRowOk trustedCpp trustedCppRaw ⟨"floor", some "std::floot({0})", [.lit "std::floot(", .arg 0, .lit ")"]⟩ = false := by
  decide

/-- Named constants of the compile-time (C++) printer: `largest ↦ std::numeric_limits<{type}>::max()`, … -/
theorem ops_cpp_consts : ∀ row ∈ cppConsts, xConstOk row = true := by decide

theorem ops_cpp_types : ∀ row ∈ cppTypes, trustedCppTypes.lookup row.1 = some row.2 := by decide

theorem sTables_ok : STableOK ["positive"] sTables :=
  sTableOK_of_rows _ _ ops_stablehlo_partial ops_stablehlo_consts

theorem xTabs_ok : XTableOK (fun _ => []) xTabs where
  kinds := by
    intro mode
    cases mode
    · exact fun row hr _ => ops_xla_client row hr
    · exact fun row hr _ => ops_cpp row hr
  consts := by
    intro mode
    cases mode
    · exact ops_xla_client_types.2
    · exact ops_cpp_consts

/-! ## tree_iso -/

/- Full statement (FALSE of the code as written, see `tree_iso_alias_witness` and the `positive` /
   row):  ∀ f o, printS sTables f = .ok o → ∃ ρ, DenS ρ o.pattern (strip f.body)            -/
/-- **tree_iso (StableHLO)**: for EVERY graph whose reference names are consistent (nodes with the same
name are the same tree) and that has no `positive` node, with the tables of the tree under test,
whenever the printer succeeds its pattern denotes exactly the graph: node ↦ the specified operator of
its kind, operands in order, comparison ↦ CompareOp with the direction of the kind, named constant ↦
the like-named ConstantLike, literal constant ↦ `ConstantLike<"value">`, each attached to the pattern
of its `like`; every `$r` stands for, and every `:$r` labels, the node named `r`. -/
theorem tree_iso_stablehlo_partial (f : Fn) (hrc : RefConsistent f.body)
    (hbad : ∀ s ∈ f.body.subs, s.opKind ∉ ["positive"]) (o : SOut) (h : printS sTables f = .ok o) :
    DenS (refEnv f.body) o.pattern (strip f.body) :=
  denS_top sTables_ok f (refEnv_ok f.body hrc) hbad o h

/-- **tree_iso (XLA client, with the cpp constant printer and alternative-context constants)**: under
the same hypotheses (consistent reference names; symbols are printed by their name, which is their
reference name; no kind is excluded any more) the return expression denotes the graph and every assignment `T v = rhs;` defines the node
named `v`: builder call of the kind with operands in order, `ScalarLike(l, value)` attached to the
node named `l`, compile-time expressions rendered by the C++ operators of their kinds. -/
theorem tree_iso_xla_client_partial (f : Fn) (hrc : RefConsistent f.body)
    (hsym : ∀ s ∈ f.body.xsubs, ∀ r n fl t, s = .sym r n fl t → n = r)
    (o : XOut) (h : printX xTabs f = .ok o) :
    DenX (refEnv f.body) .main o.ret (strip f.body) ∧ StmtsOK (refEnv f.body) o.stmts :=
  denX_top xTabs_ok f (refEnv_ok f.body hrc) hsym (fun _ _ => ⟨List.not_mem_nil, List.not_mem_nil⟩) o h

/-! ### Concrete graphs (dumped from the real code by the harness; used by witnesses and examples) -/

def fAliasS_n0 : E := .sym "z" "z" true (.named "complex64")
def fAliasS_n1 : E := .op1 "real_z" false (.named "float32") "real" fAliasS_n0
def fAliasS_n2 : E := .const "constant_f2" false (.named "float32") (.lit "2.0" "2.0") fAliasS_n1
def fAliasS_n3 : E := .op2 "multiply_3" false (.named "float32") "multiply" fAliasS_n1 fAliasS_n2
def fAliasS_n4 : E := .const "constant_f2" false (.named "complex64") (.lit "2.0" "2.0") fAliasS_n0
def fAliasS_n5 : E := .op2 "multiply_z_constant_f2" false (.named "complex64") "multiply" fAliasS_n0 fAliasS_n4
def fAliasS_n6 : E := .op1 "imag_6" false (.named "float32") "imag" fAliasS_n5
def fAliasS_n7 : E := .op2 "complex_7" false (.named "complex64") "complex" fAliasS_n3 fAliasS_n6
def fAliasS : Fn := ⟨"f", "f", true, none, none, none, [⟨"z", "z", true, .named "complex64", true⟩], fAliasS_n7⟩

def fCmpS_n0 : E := .sym "x" "x" true (.named "float32")
def fCmpS_n1 : E := .sym "y" "y" true (.named "float32")
def fCmpS_n2 : E := .op2 "lt_x_y" false (.named "boolean") "lt" fCmpS_n0 fCmpS_n1
def fCmpS_n3 : E := .op2 "le_x_y" false (.named "boolean") "le" fCmpS_n0 fCmpS_n1
def fCmpS_n4 : E := .op2 "logical_and_8" false (.named "boolean") "logical_and" fCmpS_n2 fCmpS_n3
def fCmpS_n5 : E := .op2 "gt_x_y" false (.named "boolean") "gt" fCmpS_n0 fCmpS_n1
def fCmpS_n6 : E := .op2 "ge_x_y" false (.named "boolean") "ge" fCmpS_n0 fCmpS_n1
def fCmpS_n7 : E := .op2 "logical_or_9" false (.named "boolean") "logical_or" fCmpS_n5 fCmpS_n6
def fCmpS_n8 : E := .op2 "logical_and_11" false (.named "boolean") "logical_and" fCmpS_n4 fCmpS_n7
def fCmpS_n9 : E := .op2 "eq_x_y" false (.named "boolean") "eq" fCmpS_n0 fCmpS_n1
def fCmpS_n10 : E := .op2 "ne_x_y" false (.named "boolean") "ne" fCmpS_n0 fCmpS_n1
def fCmpS_n11 : E := .op2 "logical_xor_10" false (.named "boolean") "logical_xor" fCmpS_n9 fCmpS_n10
def fCmpS_n12 : E := .op2 "logical_or_12" false (.named "boolean") "logical_or" fCmpS_n8 fCmpS_n11
def fCmpS_n13 : E := .op3 "select_13" false (.named "float32") "select" fCmpS_n12 fCmpS_n0 fCmpS_n1
def fCmpS : Fn := ⟨"f", "f", true, none, none, none, [⟨"x", "x", true, .named "float32", false⟩, ⟨"y", "y", true, .named "float32", false⟩], fCmpS_n13⟩

def fAliasX_n0 : E := .sym "z" "z" true (.named "complex")
def fAliasX_n1 : E := .op1 "real_z" false (.named "float") "real" fAliasX_n0
def fAliasX_n2 : E := .sym "symbol__value" "_value" false (.param "FloatType")
def fAliasX_n3 : E := .const "constant_f2" false (.param "FloatType") (.lit "2.0" "2.0") fAliasX_n2
def fAliasX_n4 : E := .constE "constant_constant_f2" false (.named "float") fAliasX_n3 fAliasX_n1
def fAliasX_n5 : E := .op2 "multiply_3" false (.named "float") "multiply" fAliasX_n1 fAliasX_n4
def fAliasX_n6 : E := .constE "constant_constant_f2" false (.named "complex") fAliasX_n3 fAliasX_n0
def fAliasX_n7 : E := .op2 "multiply_z_constant_constant_f2" false (.named "complex") "multiply" fAliasX_n0 fAliasX_n6
def fAliasX_n8 : E := .op1 "imag_6" false (.named "float") "imag" fAliasX_n7
def fAliasX_n9 : E := .op2 "complex_7" false (.named "complex") "complex" fAliasX_n5 fAliasX_n8
def fAliasX : Fn := ⟨"f", "f", true, none, none, some "FloatType", [⟨"z", "z", true, .named "complex", true⟩], fAliasX_n9⟩

def fLateX_n0 : E := .sym "z" "z" true (.named "complex")
def fLateX_n1 : E := .sym "symbol__value" "_value" false (.param "FloatType")
def fLateX_n2 : E := .const "constant_1" false (.param "FloatType") (.lit "1" "1") fLateX_n1
def fLateX_n3 : E := .op1 "negative_2" false (.param "FloatType") "negative" fLateX_n2
def fLateX_n4 : E := .op1 "real_z" false (.named "float") "real" fLateX_n0
def fLateX_n5 : E := .constE "constant_negative_2" false (.named "float") fLateX_n3 fLateX_n4
def fLateX : Fn := ⟨"f", "f", true, none, none, some "FloatType", [⟨"z", "z", true, .named "complex", true⟩], fLateX_n5⟩

def fCmpX_n0 : E := .sym "x" "x" true (.named "float")
def fCmpX_n1 : E := .sym "y" "y" true (.named "float")
def fCmpX_n2 : E := .op2 "lt_x_y" false (.named "boolean") "lt" fCmpX_n0 fCmpX_n1
def fCmpX_n3 : E := .op2 "le_x_y" false (.named "boolean") "le" fCmpX_n0 fCmpX_n1
def fCmpX_n4 : E := .op2 "logical_and_8" false (.named "boolean") "logical_and" fCmpX_n2 fCmpX_n3
def fCmpX_n5 : E := .op2 "gt_x_y" false (.named "boolean") "gt" fCmpX_n0 fCmpX_n1
def fCmpX_n6 : E := .op2 "ge_x_y" false (.named "boolean") "ge" fCmpX_n0 fCmpX_n1
def fCmpX_n7 : E := .op2 "logical_or_9" false (.named "boolean") "logical_or" fCmpX_n5 fCmpX_n6
def fCmpX_n8 : E := .op2 "logical_and_11" false (.named "boolean") "logical_and" fCmpX_n4 fCmpX_n7
def fCmpX_n9 : E := .op2 "eq_x_y" false (.named "boolean") "eq" fCmpX_n0 fCmpX_n1
def fCmpX_n10 : E := .op2 "ne_x_y" false (.named "boolean") "ne" fCmpX_n0 fCmpX_n1
def fCmpX_n11 : E := .op2 "logical_xor_10" false (.named "boolean") "logical_xor" fCmpX_n9 fCmpX_n10
def fCmpX_n12 : E := .op2 "logical_or_12" false (.named "boolean") "logical_or" fCmpX_n8 fCmpX_n11
def fCmpX_n13 : E := .op3 "select_13" false (.named "float") "select" fCmpX_n12 fCmpX_n0 fCmpX_n1
def fCmpX : Fn := ⟨"f", "f", true, none, none, some "FloatType", [⟨"x", "x", true, .named "float", false⟩, ⟨"y", "y", true, .named "float", false⟩], fCmpX_n13⟩

/-- **Negation witness for the unconditional tree_iso** (replayed on the real code: directed recipe
`alias-real-complex`): `f(z) = complex(real(z)*2.0, imag(z*2.0))`.  The two constants `2.0` — one like
`real(z)` (float), one like `z` (complex) — get the same auto-generated name `constant_f2`
(`make_ref` uses the value only), so they are NOT the same tree, yet the printer binds the name once,
to `(StableHLO_ConstantLike<"2.0">:$constant_f2 $real_z)`, and prints `$constant_f2` where the graph
has the complex-typed constant. -/
theorem tree_iso_alias_witness :
    fAliasS_n2.ref = fAliasS_n4.ref ∧ strip fAliasS_n2 ≠ strip fAliasS_n4 ∧ ¬ RefConsistent fAliasS.body ∧
    (printS sTables fAliasS).toOption.map (·.pattern) = some
      (.n2 (.op "StableHLO_ComplexOp") none
        (.n2 (.op "StableHLO_MulOp") none
          (.n1 (.op "StableHLO_RealOp") (some "real_z") (.ref "z"))
          (.n1 (.constLit "2.0") (some "constant_f2") (.ref "real_z")))
        (.n1 (.op "StableHLO_ImagOp") none
          (.n2 (.op "StableHLO_MulOp") none (.ref "z") (.ref "constant_f2")))) ∧
    (printX xTabs fAliasX).toOption.map (·.text) = some
      "template <typename FloatType> XlaOp f(XlaOp z) { XlaOp real_z = Real(z); XlaOp constant_constant_f2 = ScalarLike(real_z, 2.0); return Complex(Mul(real_z, constant_constant_f2), Imag(Mul(z, constant_constant_f2))); }" := by
  refine ⟨by decide, by decide, ?_, by decide +kernel, by decide +kernel⟩
  intro h
  exact absurd (h fAliasS_n2 (by decide) fAliasS_n4 (by decide) (by decide)) (by decide)

/-! ## bind_once -/

/-- **bind_once (StableHLO)**: for EVERY graph that is closed (every symbol in the body is an
argument) and well named (no other node carries an argument's name or the function's name), whenever
the printer — run with the `need_ref` map computed by `compute_need_ref` — succeeds, scanning the
emitted pattern left to right every `:$name` binds a name not bound before (the arguments are bound by
the source pattern) and every `$name` refers to a name bound textually earlier.  The proof runs the
printer's traversal and `compute_need_ref`'s traversal in lockstep: a reference is emitted only for a
name that `compute_need_ref` met twice, hence marked as needed, hence bound when first printed; this
covers the constant's `like` reference and the "undefined reference" fallback as well. -/
theorem bind_once_stablehlo (tb : STables) (f : Fn)
    (closed : ∀ s ∈ f.body.subs, s.isSym = true → s.ref ∈ f.argRefs)
    (wellNamed : ∀ s ∈ f.body.subs, s.isSym = false → s.ref ∉ f.argRefs ∧ s.ref ≠ f.fnameRef)
    (o : SOut) (h : printS tb f = .ok o) : ∃ B, checkBind f.argRefs o.pattern.events = some B :=
  bindS_top tb f closed wellNamed o h

/- Full statement (FALSE of the code as written, see `bind_once_xla_client_late_like_witness`):
   the same without the hypothesis `o.late = 0`. -/
/-- **bind_once (XLA client)**: for EVERY closed graph whose arguments are named by their reference
names, whenever the printer succeeds and no `ScalarLike(like, ..)` was emitted while the variable of
its `like` was not yet defined (`late = 0`; the real printer never checks this), the emitted function
defines every variable exactly once and each statement (and the return expression) uses only
parameters and variables defined by earlier statements. -/
theorem bind_once_xla_client_partial (tb : XTabs) (f : Fn)
    (closed : ∀ s ∈ f.body.xsubs, s.isSym = true → s.ref ∈ f.argRefs)
    (hnames : ∀ a ∈ f.args, a.name = a.ref)
    (o : XOut) (h : printX tb f = .ok o) (hlate : o.late = 0) : checkFnX o = true :=
  bindX_top tb f closed hnames o h hlate

/-- **Negation witness** (replayed on the real code: directed recipe `const-like-only`):
`f(z) = -constant(1, like=real(z))` is printed as `return ScalarLike(real_z, -(1));` — the variable
`real_z` is never defined. -/
theorem bind_once_xla_client_late_like_witness :
    (printX xTabs fLateX).toOption.map (fun o => (o.text, o.late, checkFnX o)) =
      some ("template <typename FloatType> XlaOp f(XlaOp z) {  return ScalarLike(real_z, -(1)); }", 1, false) := by
  decide +kernel

/-! ## alt_consts -/

/-- **alt_consts**: with the alternative context enabled, `Expr.__new__` wraps constant values into
compile-time expressions and folds an operation whose operands are all constants into ONE constant
whose value is the compile-time expression `kind(values…)` (operands in order), like the first
operand's like.  For EVERY interpretation of literals and kinds that is the same at compile time and
at run time, the folded expression evaluates to the same value as the run-time expression it
replaces.  (What is NOT covered: the C++ compile-time arithmetic versus the XLA run-time arithmetic
of the element type — decided by search on the real graphs.) -/
theorem alt_consts {V : Type} (I : Interp V) (env : String → V) (alt : Bool) (k v : String) (a b c like : R) :
    evalR I env (mkConst alt v like) = evalR I env (mkConst false v like) ∧
    evalR I env (mkOp1 alt k a) = evalR I env (mkOp1 false k a) ∧
    evalR I env (mkOp2 alt k a b) = evalR I env (mkOp2 false k a b) ∧
    evalR I env (mkOp3 alt k a b c) = evalR I env (mkOp3 false k a b c) := by
  simp only [evalR_mkConst, evalR_mkOp1, evalR_mkOp2, evalR_mkOp3, and_self]

/-! ## Non-vacuity: the hypotheses are satisfiable by non-trivial graphs -/

/-- all six comparisons, and/or/xor, select; two arguments (dumped from the real code) -/
example : RefConsistent fCmpS.body ∧ (∀ s ∈ fCmpS.body.subs, s.opKind ∉ ["positive"]) ∧
    (∀ s ∈ fCmpS.body.subs, s.isSym = true → s.ref ∈ fCmpS.argRefs) ∧
    (∀ s ∈ fCmpS.body.subs, s.isSym = false → s.ref ∉ fCmpS.argRefs ∧ s.ref ≠ fCmpS.fnameRef) ∧
    (printS sTables fCmpS).toOption.isSome = true := by
  refine ⟨?_, by decide +kernel, by decide +kernel, by decide +kernel, by decide +kernel⟩
  unfold RefConsistent
  decide +kernel

example : (∀ s ∈ fCmpX.body.xsubs, s.isSym = true → s.ref ∈ fCmpX.argRefs) ∧ (∀ a ∈ fCmpX.args, a.name = a.ref) ∧
    (printX xTabs fCmpX).toOption.map (fun o => (o.late, checkFnX o)) = some (0, true) := by decide +kernel

/-- shared sub-expression with an alternative-context constant: assignments are emitted -/
example : (printX xTabs fAliasX).toOption.map (fun o => (o.late, checkFnX o, o.stmts.length)) = some (0, true, 2) := by decide +kernel

end FAVerif.Props.C06
