/-
C01 — complex `absolute` on the axes, |x ± 0i| = |±0 + xi| = |x| (see Props/C02HypotZero.lean): `hypot(x, ±0) = |x|` for EVERY non-NaN x (the "exact limits at zero" clause, as a theorem over all patterns): the regenerated
program evaluates to the softfloat product 1·|x|, which is finite and has exactly the value |x| for finite x (and is +inf for infinite
x, see Props/C02HypotLimits.lean).
-/
import FAVerif.Generated.C01
import FAVerif.Lemmas.SoftInf
import FAVerif.Lemmas.SoftFinite

set_option linter.unusedSimpArgs false

namespace FAVerif.Props.C01
open FAVerif.IR FAVerif.FP FAVerif.SoftInf FAVerif.SoftRound FAVerif.FPQ FAVerif.EFT

private theorem closedZ32absolute_c64 :
    FP.abs ⟨24, 8⟩ 0 = 0 ∧ FP.abs ⟨24, 8⟩ 2147483648 = 0 ∧
    FP.mul ⟨24, 8⟩ 0 0 = 0 ∧ FP.add ⟨24, 8⟩ 1065353216 0 = 1065353216 ∧ FP.sqrt ⟨24, 8⟩ 1065353216 = 1065353216 ∧
    FP.eq ⟨24, 8⟩ 1065353216 1065353216 = true ∧ FP.gt ⟨24, 8⟩ 0 0 = false ∧
    FP.eq ⟨24, 8⟩ 0 0 = true ∧ FP.mul ⟨24, 8⟩ 1068827891 0 = 0 ∧ FP.lt ⟨24, 8⟩ 0 0 = false := by decide +kernel

theorem absolute_c64_at_x_pzero_shape (lib : Libm) (x : Nat) (hn : isNaNBits binary32 x = false) :
    FAVerif.Gen.C01.absolute_c64.eval lib [x, 0] =
      some [if FP.abs ⟨24, 8⟩ x = 0 then 0 else FP.mul ⟨24, 8⟩ 1065353216 (FP.abs ⟨24, 8⟩ x)] := by
  have hw : SoftRound.WF binary32 := ⟨by decide, by decide⟩
  obtain ⟨c1, c2, c3, c4, c5, c6, c7, c8, c9, c10⟩ := closedZ32absolute_c64
  by_cases h0 : FP.abs ⟨24, 8⟩ x = 0
  · simp [Prog.eval, FAVerif.Gen.C01.absolute_c64, evalNodes, evalNode, h0, c1, c2, c8, c9, c10, b2n]
  · have L1 : FP.lt ⟨24, 8⟩ 0 (FP.abs ⟨24, 8⟩ x) = true := lt_zero_abs binary32 hw x hn h0
    have L2 : FP.lt ⟨24, 8⟩ (FP.abs ⟨24, 8⟩ x) 0 = false := lt_abs_zero binary32 hw x hn
    have E : FP.eq ⟨24, 8⟩ 0 (FP.abs ⟨24, 8⟩ x) = false := eq_zero_abs binary32 hw x hn h0
    have D : FP.div ⟨24, 8⟩ 0 (FP.abs ⟨24, 8⟩ x) = 0 := div_zero_abs binary32 hw x hn h0
    simp [Prog.eval, FAVerif.Gen.C01.absolute_c64, evalNodes, evalNode, h0, c1, c2, L1, L2, E, D, c3, c4, c5, c6, c7, b2n]

/-- **absolute_c64 at (x, +0) has exactly the value |x|** for every finite x (binary32, bit patterns): the run exists, the result is finite -/
theorem absolute_c64_at_x_pzero (lib : Libm) (x : Nat) (hx : isFiniteBits binary32 x = true) (qx : ℚ) (vx : toQ binary32 x = some qx) :
    ∃ o, FAVerif.Gen.C01.absolute_c64.eval lib [x, 0] = some [o] ∧ isFiniteBits binary32 o = true ∧ toQ binary32 o = some |qx| := by
  have hw : SoftRound.WF binary32 := ⟨by decide, by decide⟩
  have hn : isNaNBits binary32 x = false := Ulp.notNaN_of_finite binary32 x hx
  obtain ⟨fa, va⟩ := Refine.abs_val (f := binary32) hw hx vx
  have eabs : (if qx < 0 then -qx else qx) = |qx| := by
    split <;> [rw [abs_of_neg ‹_›]; rw [abs_of_nonneg (not_lt.mp ‹_›)]]
  rw [eabs] at va
  refine ⟨_, absolute_c64_at_x_pzero_shape lib x hn, ?_⟩
  by_cases h0 : FP.abs ⟨24, 8⟩ x = 0
  · simp only [h0, if_true]
    have z : toQ binary32 0 = some 0 := by decide +kernel
    have : FP.abs binary32 x = 0 := h0
    rw [this, z] at va
    exact ⟨by decide, by rw [z]; exact va⟩
  · simp only [h0, if_false]
    obtain ⟨s, m, e, d⟩ := finite_decode binary32 _ fa
    have d1 : decode binary32 1065353216 = .fin false 8388608 (-23) := by decide +kernel
    have v1 : valQ false 8388608 (-23) = 1 := by simp [valQ]; norm_num
    have hv : valQ s m e = |qx| := by
      have := toQ_fin binary32 _ s m e d; rw [va] at this; exact (Option.some.inj this).symm
    have hrep : Rep (qf binary32 hw.hp) (valQ s m e) := rep_of_decode binary32 hw _ s m e d
    have hr := isRN_rne (qf binary32 hw.hp)
    have hid : rne (qf binary32 hw.hp) (valQ false 8388608 (-23) * valQ s m e) = valQ s m e := by
      rw [v1, one_mul]; exact rn_id hr hrep
    have hL : |valQ s m e| ≤ Lmax binary32 := by
      have h2e : (0 : ℚ) < 2 ^ e := by positivity
      have habs : |valQ s m e| = (m : ℚ) * 2 ^ e := by
        cases s <;> simp [valQ, abs_mul, abs_of_pos h2e]
      rw [habs]; exact decode_le_Lmax binary32 hw _ s m e d
    have fm := mul_finite binary32 hw 1065353216 (FP.abs binary32 x) false s 8388608 m (-23) e d1 d (by rw [hid]; exact hL)
    refine ⟨fm, ?_⟩
    show toQ binary32 (FP.mul binary32 1065353216 (FP.abs binary32 x)) = _
    rw [mul_correct binary32 hw 1065353216 (FP.abs binary32 x) false s 8388608 m (-23) e d1 d fm, hid, hv]

theorem absolute_c64_at_x_nzero_shape (lib : Libm) (x : Nat) (hn : isNaNBits binary32 x = false) :
    FAVerif.Gen.C01.absolute_c64.eval lib [x, 2147483648] =
      some [if FP.abs ⟨24, 8⟩ x = 0 then 0 else FP.mul ⟨24, 8⟩ 1065353216 (FP.abs ⟨24, 8⟩ x)] := by
  have hw : SoftRound.WF binary32 := ⟨by decide, by decide⟩
  obtain ⟨c1, c2, c3, c4, c5, c6, c7, c8, c9, c10⟩ := closedZ32absolute_c64
  by_cases h0 : FP.abs ⟨24, 8⟩ x = 0
  · simp [Prog.eval, FAVerif.Gen.C01.absolute_c64, evalNodes, evalNode, h0, c1, c2, c8, c9, c10, b2n]
  · have L1 : FP.lt ⟨24, 8⟩ 0 (FP.abs ⟨24, 8⟩ x) = true := lt_zero_abs binary32 hw x hn h0
    have L2 : FP.lt ⟨24, 8⟩ (FP.abs ⟨24, 8⟩ x) 0 = false := lt_abs_zero binary32 hw x hn
    have E : FP.eq ⟨24, 8⟩ 0 (FP.abs ⟨24, 8⟩ x) = false := eq_zero_abs binary32 hw x hn h0
    have D : FP.div ⟨24, 8⟩ 0 (FP.abs ⟨24, 8⟩ x) = 0 := div_zero_abs binary32 hw x hn h0
    simp [Prog.eval, FAVerif.Gen.C01.absolute_c64, evalNodes, evalNode, h0, c1, c2, L1, L2, E, D, c3, c4, c5, c6, c7, b2n]

/-- **absolute_c64 at (x, −0) has exactly the value |x|** for every finite x (binary32, bit patterns): the run exists, the result is finite -/
theorem absolute_c64_at_x_nzero (lib : Libm) (x : Nat) (hx : isFiniteBits binary32 x = true) (qx : ℚ) (vx : toQ binary32 x = some qx) :
    ∃ o, FAVerif.Gen.C01.absolute_c64.eval lib [x, 2147483648] = some [o] ∧ isFiniteBits binary32 o = true ∧ toQ binary32 o = some |qx| := by
  have hw : SoftRound.WF binary32 := ⟨by decide, by decide⟩
  have hn : isNaNBits binary32 x = false := Ulp.notNaN_of_finite binary32 x hx
  obtain ⟨fa, va⟩ := Refine.abs_val (f := binary32) hw hx vx
  have eabs : (if qx < 0 then -qx else qx) = |qx| := by
    split <;> [rw [abs_of_neg ‹_›]; rw [abs_of_nonneg (not_lt.mp ‹_›)]]
  rw [eabs] at va
  refine ⟨_, absolute_c64_at_x_nzero_shape lib x hn, ?_⟩
  by_cases h0 : FP.abs ⟨24, 8⟩ x = 0
  · simp only [h0, if_true]
    have z : toQ binary32 0 = some 0 := by decide +kernel
    have : FP.abs binary32 x = 0 := h0
    rw [this, z] at va
    exact ⟨by decide, by rw [z]; exact va⟩
  · simp only [h0, if_false]
    obtain ⟨s, m, e, d⟩ := finite_decode binary32 _ fa
    have d1 : decode binary32 1065353216 = .fin false 8388608 (-23) := by decide +kernel
    have v1 : valQ false 8388608 (-23) = 1 := by simp [valQ]; norm_num
    have hv : valQ s m e = |qx| := by
      have := toQ_fin binary32 _ s m e d; rw [va] at this; exact (Option.some.inj this).symm
    have hrep : Rep (qf binary32 hw.hp) (valQ s m e) := rep_of_decode binary32 hw _ s m e d
    have hr := isRN_rne (qf binary32 hw.hp)
    have hid : rne (qf binary32 hw.hp) (valQ false 8388608 (-23) * valQ s m e) = valQ s m e := by
      rw [v1, one_mul]; exact rn_id hr hrep
    have hL : |valQ s m e| ≤ Lmax binary32 := by
      have h2e : (0 : ℚ) < 2 ^ e := by positivity
      have habs : |valQ s m e| = (m : ℚ) * 2 ^ e := by
        cases s <;> simp [valQ, abs_mul, abs_of_pos h2e]
      rw [habs]; exact decode_le_Lmax binary32 hw _ s m e d
    have fm := mul_finite binary32 hw 1065353216 (FP.abs binary32 x) false s 8388608 m (-23) e d1 d (by rw [hid]; exact hL)
    refine ⟨fm, ?_⟩
    show toQ binary32 (FP.mul binary32 1065353216 (FP.abs binary32 x)) = _
    rw [mul_correct binary32 hw 1065353216 (FP.abs binary32 x) false s 8388608 m (-23) e d1 d fm, hid, hv]

theorem absolute_c64_at_pzero_x_shape (lib : Libm) (x : Nat) (hn : isNaNBits binary32 x = false) :
    FAVerif.Gen.C01.absolute_c64.eval lib [0, x] =
      some [if FP.abs ⟨24, 8⟩ x = 0 then 0 else FP.mul ⟨24, 8⟩ 1065353216 (FP.abs ⟨24, 8⟩ x)] := by
  have hw : SoftRound.WF binary32 := ⟨by decide, by decide⟩
  obtain ⟨c1, c2, c3, c4, c5, c6, c7, c8, c9, c10⟩ := closedZ32absolute_c64
  by_cases h0 : FP.abs ⟨24, 8⟩ x = 0
  · simp [Prog.eval, FAVerif.Gen.C01.absolute_c64, evalNodes, evalNode, h0, c1, c2, c8, c9, c10, b2n]
  · have L1 : FP.lt ⟨24, 8⟩ 0 (FP.abs ⟨24, 8⟩ x) = true := lt_zero_abs binary32 hw x hn h0
    have L2 : FP.lt ⟨24, 8⟩ (FP.abs ⟨24, 8⟩ x) 0 = false := lt_abs_zero binary32 hw x hn
    have E : FP.eq ⟨24, 8⟩ 0 (FP.abs ⟨24, 8⟩ x) = false := eq_zero_abs binary32 hw x hn h0
    have D : FP.div ⟨24, 8⟩ 0 (FP.abs ⟨24, 8⟩ x) = 0 := div_zero_abs binary32 hw x hn h0
    simp [Prog.eval, FAVerif.Gen.C01.absolute_c64, evalNodes, evalNode, h0, c1, c2, L1, L2, E, D, c3, c4, c5, c6, c7, b2n]

/-- **absolute_c64 at (+0, x) has exactly the value |x|** for every finite x (binary32, bit patterns): the run exists, the result is finite -/
theorem absolute_c64_at_pzero_x (lib : Libm) (x : Nat) (hx : isFiniteBits binary32 x = true) (qx : ℚ) (vx : toQ binary32 x = some qx) :
    ∃ o, FAVerif.Gen.C01.absolute_c64.eval lib [0, x] = some [o] ∧ isFiniteBits binary32 o = true ∧ toQ binary32 o = some |qx| := by
  have hw : SoftRound.WF binary32 := ⟨by decide, by decide⟩
  have hn : isNaNBits binary32 x = false := Ulp.notNaN_of_finite binary32 x hx
  obtain ⟨fa, va⟩ := Refine.abs_val (f := binary32) hw hx vx
  have eabs : (if qx < 0 then -qx else qx) = |qx| := by
    split <;> [rw [abs_of_neg ‹_›]; rw [abs_of_nonneg (not_lt.mp ‹_›)]]
  rw [eabs] at va
  refine ⟨_, absolute_c64_at_pzero_x_shape lib x hn, ?_⟩
  by_cases h0 : FP.abs ⟨24, 8⟩ x = 0
  · simp only [h0, if_true]
    have z : toQ binary32 0 = some 0 := by decide +kernel
    have : FP.abs binary32 x = 0 := h0
    rw [this, z] at va
    exact ⟨by decide, by rw [z]; exact va⟩
  · simp only [h0, if_false]
    obtain ⟨s, m, e, d⟩ := finite_decode binary32 _ fa
    have d1 : decode binary32 1065353216 = .fin false 8388608 (-23) := by decide +kernel
    have v1 : valQ false 8388608 (-23) = 1 := by simp [valQ]; norm_num
    have hv : valQ s m e = |qx| := by
      have := toQ_fin binary32 _ s m e d; rw [va] at this; exact (Option.some.inj this).symm
    have hrep : Rep (qf binary32 hw.hp) (valQ s m e) := rep_of_decode binary32 hw _ s m e d
    have hr := isRN_rne (qf binary32 hw.hp)
    have hid : rne (qf binary32 hw.hp) (valQ false 8388608 (-23) * valQ s m e) = valQ s m e := by
      rw [v1, one_mul]; exact rn_id hr hrep
    have hL : |valQ s m e| ≤ Lmax binary32 := by
      have h2e : (0 : ℚ) < 2 ^ e := by positivity
      have habs : |valQ s m e| = (m : ℚ) * 2 ^ e := by
        cases s <;> simp [valQ, abs_mul, abs_of_pos h2e]
      rw [habs]; exact decode_le_Lmax binary32 hw _ s m e d
    have fm := mul_finite binary32 hw 1065353216 (FP.abs binary32 x) false s 8388608 m (-23) e d1 d (by rw [hid]; exact hL)
    refine ⟨fm, ?_⟩
    show toQ binary32 (FP.mul binary32 1065353216 (FP.abs binary32 x)) = _
    rw [mul_correct binary32 hw 1065353216 (FP.abs binary32 x) false s 8388608 m (-23) e d1 d fm, hid, hv]

theorem absolute_c64_at_nzero_x_shape (lib : Libm) (x : Nat) (hn : isNaNBits binary32 x = false) :
    FAVerif.Gen.C01.absolute_c64.eval lib [2147483648, x] =
      some [if FP.abs ⟨24, 8⟩ x = 0 then 0 else FP.mul ⟨24, 8⟩ 1065353216 (FP.abs ⟨24, 8⟩ x)] := by
  have hw : SoftRound.WF binary32 := ⟨by decide, by decide⟩
  obtain ⟨c1, c2, c3, c4, c5, c6, c7, c8, c9, c10⟩ := closedZ32absolute_c64
  by_cases h0 : FP.abs ⟨24, 8⟩ x = 0
  · simp [Prog.eval, FAVerif.Gen.C01.absolute_c64, evalNodes, evalNode, h0, c1, c2, c8, c9, c10, b2n]
  · have L1 : FP.lt ⟨24, 8⟩ 0 (FP.abs ⟨24, 8⟩ x) = true := lt_zero_abs binary32 hw x hn h0
    have L2 : FP.lt ⟨24, 8⟩ (FP.abs ⟨24, 8⟩ x) 0 = false := lt_abs_zero binary32 hw x hn
    have E : FP.eq ⟨24, 8⟩ 0 (FP.abs ⟨24, 8⟩ x) = false := eq_zero_abs binary32 hw x hn h0
    have D : FP.div ⟨24, 8⟩ 0 (FP.abs ⟨24, 8⟩ x) = 0 := div_zero_abs binary32 hw x hn h0
    simp [Prog.eval, FAVerif.Gen.C01.absolute_c64, evalNodes, evalNode, h0, c1, c2, L1, L2, E, D, c3, c4, c5, c6, c7, b2n]

/-- **absolute_c64 at (−0, x) has exactly the value |x|** for every finite x (binary32, bit patterns): the run exists, the result is finite -/
theorem absolute_c64_at_nzero_x (lib : Libm) (x : Nat) (hx : isFiniteBits binary32 x = true) (qx : ℚ) (vx : toQ binary32 x = some qx) :
    ∃ o, FAVerif.Gen.C01.absolute_c64.eval lib [2147483648, x] = some [o] ∧ isFiniteBits binary32 o = true ∧ toQ binary32 o = some |qx| := by
  have hw : SoftRound.WF binary32 := ⟨by decide, by decide⟩
  have hn : isNaNBits binary32 x = false := Ulp.notNaN_of_finite binary32 x hx
  obtain ⟨fa, va⟩ := Refine.abs_val (f := binary32) hw hx vx
  have eabs : (if qx < 0 then -qx else qx) = |qx| := by
    split <;> [rw [abs_of_neg ‹_›]; rw [abs_of_nonneg (not_lt.mp ‹_›)]]
  rw [eabs] at va
  refine ⟨_, absolute_c64_at_nzero_x_shape lib x hn, ?_⟩
  by_cases h0 : FP.abs ⟨24, 8⟩ x = 0
  · simp only [h0, if_true]
    have z : toQ binary32 0 = some 0 := by decide +kernel
    have : FP.abs binary32 x = 0 := h0
    rw [this, z] at va
    exact ⟨by decide, by rw [z]; exact va⟩
  · simp only [h0, if_false]
    obtain ⟨s, m, e, d⟩ := finite_decode binary32 _ fa
    have d1 : decode binary32 1065353216 = .fin false 8388608 (-23) := by decide +kernel
    have v1 : valQ false 8388608 (-23) = 1 := by simp [valQ]; norm_num
    have hv : valQ s m e = |qx| := by
      have := toQ_fin binary32 _ s m e d; rw [va] at this; exact (Option.some.inj this).symm
    have hrep : Rep (qf binary32 hw.hp) (valQ s m e) := rep_of_decode binary32 hw _ s m e d
    have hr := isRN_rne (qf binary32 hw.hp)
    have hid : rne (qf binary32 hw.hp) (valQ false 8388608 (-23) * valQ s m e) = valQ s m e := by
      rw [v1, one_mul]; exact rn_id hr hrep
    have hL : |valQ s m e| ≤ Lmax binary32 := by
      have h2e : (0 : ℚ) < 2 ^ e := by positivity
      have habs : |valQ s m e| = (m : ℚ) * 2 ^ e := by
        cases s <;> simp [valQ, abs_mul, abs_of_pos h2e]
      rw [habs]; exact decode_le_Lmax binary32 hw _ s m e d
    have fm := mul_finite binary32 hw 1065353216 (FP.abs binary32 x) false s 8388608 m (-23) e d1 d (by rw [hid]; exact hL)
    refine ⟨fm, ?_⟩
    show toQ binary32 (FP.mul binary32 1065353216 (FP.abs binary32 x)) = _
    rw [mul_correct binary32 hw 1065353216 (FP.abs binary32 x) false s 8388608 m (-23) e d1 d fm, hid, hv]

private theorem closedZ64absolute_c128 :
    FP.abs ⟨53, 11⟩ 0 = 0 ∧ FP.abs ⟨53, 11⟩ 9223372036854775808 = 0 ∧
    FP.mul ⟨53, 11⟩ 0 0 = 0 ∧ FP.add ⟨53, 11⟩ 4607182418800017408 0 = 4607182418800017408 ∧ FP.sqrt ⟨53, 11⟩ 4607182418800017408 = 4607182418800017408 ∧
    FP.eq ⟨53, 11⟩ 4607182418800017408 4607182418800017408 = true ∧ FP.gt ⟨53, 11⟩ 0 0 = false ∧
    FP.eq ⟨53, 11⟩ 0 0 = true ∧ FP.mul ⟨53, 11⟩ 4609047870845172685 0 = 0 ∧ FP.lt ⟨53, 11⟩ 0 0 = false := by decide +kernel

theorem absolute_c128_at_x_pzero_shape (lib : Libm) (x : Nat) (hn : isNaNBits binary64 x = false) :
    FAVerif.Gen.C01.absolute_c128.eval lib [x, 0] =
      some [if FP.abs ⟨53, 11⟩ x = 0 then 0 else FP.mul ⟨53, 11⟩ 4607182418800017408 (FP.abs ⟨53, 11⟩ x)] := by
  have hw : SoftRound.WF binary64 := ⟨by decide, by decide⟩
  obtain ⟨c1, c2, c3, c4, c5, c6, c7, c8, c9, c10⟩ := closedZ64absolute_c128
  by_cases h0 : FP.abs ⟨53, 11⟩ x = 0
  · simp [Prog.eval, FAVerif.Gen.C01.absolute_c128, evalNodes, evalNode, h0, c1, c2, c8, c9, c10, b2n]
  · have L1 : FP.lt ⟨53, 11⟩ 0 (FP.abs ⟨53, 11⟩ x) = true := lt_zero_abs binary64 hw x hn h0
    have L2 : FP.lt ⟨53, 11⟩ (FP.abs ⟨53, 11⟩ x) 0 = false := lt_abs_zero binary64 hw x hn
    have E : FP.eq ⟨53, 11⟩ 0 (FP.abs ⟨53, 11⟩ x) = false := eq_zero_abs binary64 hw x hn h0
    have D : FP.div ⟨53, 11⟩ 0 (FP.abs ⟨53, 11⟩ x) = 0 := div_zero_abs binary64 hw x hn h0
    simp [Prog.eval, FAVerif.Gen.C01.absolute_c128, evalNodes, evalNode, h0, c1, c2, L1, L2, E, D, c3, c4, c5, c6, c7, b2n]

/-- **absolute_c128 at (x, +0) has exactly the value |x|** for every finite x (binary64, bit patterns): the run exists, the result is finite -/
theorem absolute_c128_at_x_pzero (lib : Libm) (x : Nat) (hx : isFiniteBits binary64 x = true) (qx : ℚ) (vx : toQ binary64 x = some qx) :
    ∃ o, FAVerif.Gen.C01.absolute_c128.eval lib [x, 0] = some [o] ∧ isFiniteBits binary64 o = true ∧ toQ binary64 o = some |qx| := by
  have hw : SoftRound.WF binary64 := ⟨by decide, by decide⟩
  have hn : isNaNBits binary64 x = false := Ulp.notNaN_of_finite binary64 x hx
  obtain ⟨fa, va⟩ := Refine.abs_val (f := binary64) hw hx vx
  have eabs : (if qx < 0 then -qx else qx) = |qx| := by
    split <;> [rw [abs_of_neg ‹_›]; rw [abs_of_nonneg (not_lt.mp ‹_›)]]
  rw [eabs] at va
  refine ⟨_, absolute_c128_at_x_pzero_shape lib x hn, ?_⟩
  by_cases h0 : FP.abs ⟨53, 11⟩ x = 0
  · simp only [h0, if_true]
    have z : toQ binary64 0 = some 0 := by decide +kernel
    have : FP.abs binary64 x = 0 := h0
    rw [this, z] at va
    exact ⟨by decide, by rw [z]; exact va⟩
  · simp only [h0, if_false]
    obtain ⟨s, m, e, d⟩ := finite_decode binary64 _ fa
    have d1 : decode binary64 4607182418800017408 = .fin false 4503599627370496 (-52) := by decide +kernel
    have v1 : valQ false 4503599627370496 (-52) = 1 := by simp [valQ]; norm_num
    have hv : valQ s m e = |qx| := by
      have := toQ_fin binary64 _ s m e d; rw [va] at this; exact (Option.some.inj this).symm
    have hrep : Rep (qf binary64 hw.hp) (valQ s m e) := rep_of_decode binary64 hw _ s m e d
    have hr := isRN_rne (qf binary64 hw.hp)
    have hid : rne (qf binary64 hw.hp) (valQ false 4503599627370496 (-52) * valQ s m e) = valQ s m e := by
      rw [v1, one_mul]; exact rn_id hr hrep
    have hL : |valQ s m e| ≤ Lmax binary64 := by
      have h2e : (0 : ℚ) < 2 ^ e := by positivity
      have habs : |valQ s m e| = (m : ℚ) * 2 ^ e := by
        cases s <;> simp [valQ, abs_mul, abs_of_pos h2e]
      rw [habs]; exact decode_le_Lmax binary64 hw _ s m e d
    have fm := mul_finite binary64 hw 4607182418800017408 (FP.abs binary64 x) false s 4503599627370496 m (-52) e d1 d (by rw [hid]; exact hL)
    refine ⟨fm, ?_⟩
    show toQ binary64 (FP.mul binary64 4607182418800017408 (FP.abs binary64 x)) = _
    rw [mul_correct binary64 hw 4607182418800017408 (FP.abs binary64 x) false s 4503599627370496 m (-52) e d1 d fm, hid, hv]

theorem absolute_c128_at_x_nzero_shape (lib : Libm) (x : Nat) (hn : isNaNBits binary64 x = false) :
    FAVerif.Gen.C01.absolute_c128.eval lib [x, 9223372036854775808] =
      some [if FP.abs ⟨53, 11⟩ x = 0 then 0 else FP.mul ⟨53, 11⟩ 4607182418800017408 (FP.abs ⟨53, 11⟩ x)] := by
  have hw : SoftRound.WF binary64 := ⟨by decide, by decide⟩
  obtain ⟨c1, c2, c3, c4, c5, c6, c7, c8, c9, c10⟩ := closedZ64absolute_c128
  by_cases h0 : FP.abs ⟨53, 11⟩ x = 0
  · simp [Prog.eval, FAVerif.Gen.C01.absolute_c128, evalNodes, evalNode, h0, c1, c2, c8, c9, c10, b2n]
  · have L1 : FP.lt ⟨53, 11⟩ 0 (FP.abs ⟨53, 11⟩ x) = true := lt_zero_abs binary64 hw x hn h0
    have L2 : FP.lt ⟨53, 11⟩ (FP.abs ⟨53, 11⟩ x) 0 = false := lt_abs_zero binary64 hw x hn
    have E : FP.eq ⟨53, 11⟩ 0 (FP.abs ⟨53, 11⟩ x) = false := eq_zero_abs binary64 hw x hn h0
    have D : FP.div ⟨53, 11⟩ 0 (FP.abs ⟨53, 11⟩ x) = 0 := div_zero_abs binary64 hw x hn h0
    simp [Prog.eval, FAVerif.Gen.C01.absolute_c128, evalNodes, evalNode, h0, c1, c2, L1, L2, E, D, c3, c4, c5, c6, c7, b2n]

/-- **absolute_c128 at (x, −0) has exactly the value |x|** for every finite x (binary64, bit patterns): the run exists, the result is finite -/
theorem absolute_c128_at_x_nzero (lib : Libm) (x : Nat) (hx : isFiniteBits binary64 x = true) (qx : ℚ) (vx : toQ binary64 x = some qx) :
    ∃ o, FAVerif.Gen.C01.absolute_c128.eval lib [x, 9223372036854775808] = some [o] ∧ isFiniteBits binary64 o = true ∧ toQ binary64 o = some |qx| := by
  have hw : SoftRound.WF binary64 := ⟨by decide, by decide⟩
  have hn : isNaNBits binary64 x = false := Ulp.notNaN_of_finite binary64 x hx
  obtain ⟨fa, va⟩ := Refine.abs_val (f := binary64) hw hx vx
  have eabs : (if qx < 0 then -qx else qx) = |qx| := by
    split <;> [rw [abs_of_neg ‹_›]; rw [abs_of_nonneg (not_lt.mp ‹_›)]]
  rw [eabs] at va
  refine ⟨_, absolute_c128_at_x_nzero_shape lib x hn, ?_⟩
  by_cases h0 : FP.abs ⟨53, 11⟩ x = 0
  · simp only [h0, if_true]
    have z : toQ binary64 0 = some 0 := by decide +kernel
    have : FP.abs binary64 x = 0 := h0
    rw [this, z] at va
    exact ⟨by decide, by rw [z]; exact va⟩
  · simp only [h0, if_false]
    obtain ⟨s, m, e, d⟩ := finite_decode binary64 _ fa
    have d1 : decode binary64 4607182418800017408 = .fin false 4503599627370496 (-52) := by decide +kernel
    have v1 : valQ false 4503599627370496 (-52) = 1 := by simp [valQ]; norm_num
    have hv : valQ s m e = |qx| := by
      have := toQ_fin binary64 _ s m e d; rw [va] at this; exact (Option.some.inj this).symm
    have hrep : Rep (qf binary64 hw.hp) (valQ s m e) := rep_of_decode binary64 hw _ s m e d
    have hr := isRN_rne (qf binary64 hw.hp)
    have hid : rne (qf binary64 hw.hp) (valQ false 4503599627370496 (-52) * valQ s m e) = valQ s m e := by
      rw [v1, one_mul]; exact rn_id hr hrep
    have hL : |valQ s m e| ≤ Lmax binary64 := by
      have h2e : (0 : ℚ) < 2 ^ e := by positivity
      have habs : |valQ s m e| = (m : ℚ) * 2 ^ e := by
        cases s <;> simp [valQ, abs_mul, abs_of_pos h2e]
      rw [habs]; exact decode_le_Lmax binary64 hw _ s m e d
    have fm := mul_finite binary64 hw 4607182418800017408 (FP.abs binary64 x) false s 4503599627370496 m (-52) e d1 d (by rw [hid]; exact hL)
    refine ⟨fm, ?_⟩
    show toQ binary64 (FP.mul binary64 4607182418800017408 (FP.abs binary64 x)) = _
    rw [mul_correct binary64 hw 4607182418800017408 (FP.abs binary64 x) false s 4503599627370496 m (-52) e d1 d fm, hid, hv]

theorem absolute_c128_at_pzero_x_shape (lib : Libm) (x : Nat) (hn : isNaNBits binary64 x = false) :
    FAVerif.Gen.C01.absolute_c128.eval lib [0, x] =
      some [if FP.abs ⟨53, 11⟩ x = 0 then 0 else FP.mul ⟨53, 11⟩ 4607182418800017408 (FP.abs ⟨53, 11⟩ x)] := by
  have hw : SoftRound.WF binary64 := ⟨by decide, by decide⟩
  obtain ⟨c1, c2, c3, c4, c5, c6, c7, c8, c9, c10⟩ := closedZ64absolute_c128
  by_cases h0 : FP.abs ⟨53, 11⟩ x = 0
  · simp [Prog.eval, FAVerif.Gen.C01.absolute_c128, evalNodes, evalNode, h0, c1, c2, c8, c9, c10, b2n]
  · have L1 : FP.lt ⟨53, 11⟩ 0 (FP.abs ⟨53, 11⟩ x) = true := lt_zero_abs binary64 hw x hn h0
    have L2 : FP.lt ⟨53, 11⟩ (FP.abs ⟨53, 11⟩ x) 0 = false := lt_abs_zero binary64 hw x hn
    have E : FP.eq ⟨53, 11⟩ 0 (FP.abs ⟨53, 11⟩ x) = false := eq_zero_abs binary64 hw x hn h0
    have D : FP.div ⟨53, 11⟩ 0 (FP.abs ⟨53, 11⟩ x) = 0 := div_zero_abs binary64 hw x hn h0
    simp [Prog.eval, FAVerif.Gen.C01.absolute_c128, evalNodes, evalNode, h0, c1, c2, L1, L2, E, D, c3, c4, c5, c6, c7, b2n]

/-- **absolute_c128 at (+0, x) has exactly the value |x|** for every finite x (binary64, bit patterns): the run exists, the result is finite -/
theorem absolute_c128_at_pzero_x (lib : Libm) (x : Nat) (hx : isFiniteBits binary64 x = true) (qx : ℚ) (vx : toQ binary64 x = some qx) :
    ∃ o, FAVerif.Gen.C01.absolute_c128.eval lib [0, x] = some [o] ∧ isFiniteBits binary64 o = true ∧ toQ binary64 o = some |qx| := by
  have hw : SoftRound.WF binary64 := ⟨by decide, by decide⟩
  have hn : isNaNBits binary64 x = false := Ulp.notNaN_of_finite binary64 x hx
  obtain ⟨fa, va⟩ := Refine.abs_val (f := binary64) hw hx vx
  have eabs : (if qx < 0 then -qx else qx) = |qx| := by
    split <;> [rw [abs_of_neg ‹_›]; rw [abs_of_nonneg (not_lt.mp ‹_›)]]
  rw [eabs] at va
  refine ⟨_, absolute_c128_at_pzero_x_shape lib x hn, ?_⟩
  by_cases h0 : FP.abs ⟨53, 11⟩ x = 0
  · simp only [h0, if_true]
    have z : toQ binary64 0 = some 0 := by decide +kernel
    have : FP.abs binary64 x = 0 := h0
    rw [this, z] at va
    exact ⟨by decide, by rw [z]; exact va⟩
  · simp only [h0, if_false]
    obtain ⟨s, m, e, d⟩ := finite_decode binary64 _ fa
    have d1 : decode binary64 4607182418800017408 = .fin false 4503599627370496 (-52) := by decide +kernel
    have v1 : valQ false 4503599627370496 (-52) = 1 := by simp [valQ]; norm_num
    have hv : valQ s m e = |qx| := by
      have := toQ_fin binary64 _ s m e d; rw [va] at this; exact (Option.some.inj this).symm
    have hrep : Rep (qf binary64 hw.hp) (valQ s m e) := rep_of_decode binary64 hw _ s m e d
    have hr := isRN_rne (qf binary64 hw.hp)
    have hid : rne (qf binary64 hw.hp) (valQ false 4503599627370496 (-52) * valQ s m e) = valQ s m e := by
      rw [v1, one_mul]; exact rn_id hr hrep
    have hL : |valQ s m e| ≤ Lmax binary64 := by
      have h2e : (0 : ℚ) < 2 ^ e := by positivity
      have habs : |valQ s m e| = (m : ℚ) * 2 ^ e := by
        cases s <;> simp [valQ, abs_mul, abs_of_pos h2e]
      rw [habs]; exact decode_le_Lmax binary64 hw _ s m e d
    have fm := mul_finite binary64 hw 4607182418800017408 (FP.abs binary64 x) false s 4503599627370496 m (-52) e d1 d (by rw [hid]; exact hL)
    refine ⟨fm, ?_⟩
    show toQ binary64 (FP.mul binary64 4607182418800017408 (FP.abs binary64 x)) = _
    rw [mul_correct binary64 hw 4607182418800017408 (FP.abs binary64 x) false s 4503599627370496 m (-52) e d1 d fm, hid, hv]

theorem absolute_c128_at_nzero_x_shape (lib : Libm) (x : Nat) (hn : isNaNBits binary64 x = false) :
    FAVerif.Gen.C01.absolute_c128.eval lib [9223372036854775808, x] =
      some [if FP.abs ⟨53, 11⟩ x = 0 then 0 else FP.mul ⟨53, 11⟩ 4607182418800017408 (FP.abs ⟨53, 11⟩ x)] := by
  have hw : SoftRound.WF binary64 := ⟨by decide, by decide⟩
  obtain ⟨c1, c2, c3, c4, c5, c6, c7, c8, c9, c10⟩ := closedZ64absolute_c128
  by_cases h0 : FP.abs ⟨53, 11⟩ x = 0
  · simp [Prog.eval, FAVerif.Gen.C01.absolute_c128, evalNodes, evalNode, h0, c1, c2, c8, c9, c10, b2n]
  · have L1 : FP.lt ⟨53, 11⟩ 0 (FP.abs ⟨53, 11⟩ x) = true := lt_zero_abs binary64 hw x hn h0
    have L2 : FP.lt ⟨53, 11⟩ (FP.abs ⟨53, 11⟩ x) 0 = false := lt_abs_zero binary64 hw x hn
    have E : FP.eq ⟨53, 11⟩ 0 (FP.abs ⟨53, 11⟩ x) = false := eq_zero_abs binary64 hw x hn h0
    have D : FP.div ⟨53, 11⟩ 0 (FP.abs ⟨53, 11⟩ x) = 0 := div_zero_abs binary64 hw x hn h0
    simp [Prog.eval, FAVerif.Gen.C01.absolute_c128, evalNodes, evalNode, h0, c1, c2, L1, L2, E, D, c3, c4, c5, c6, c7, b2n]

/-- **absolute_c128 at (−0, x) has exactly the value |x|** for every finite x (binary64, bit patterns): the run exists, the result is finite -/
theorem absolute_c128_at_nzero_x (lib : Libm) (x : Nat) (hx : isFiniteBits binary64 x = true) (qx : ℚ) (vx : toQ binary64 x = some qx) :
    ∃ o, FAVerif.Gen.C01.absolute_c128.eval lib [9223372036854775808, x] = some [o] ∧ isFiniteBits binary64 o = true ∧ toQ binary64 o = some |qx| := by
  have hw : SoftRound.WF binary64 := ⟨by decide, by decide⟩
  have hn : isNaNBits binary64 x = false := Ulp.notNaN_of_finite binary64 x hx
  obtain ⟨fa, va⟩ := Refine.abs_val (f := binary64) hw hx vx
  have eabs : (if qx < 0 then -qx else qx) = |qx| := by
    split <;> [rw [abs_of_neg ‹_›]; rw [abs_of_nonneg (not_lt.mp ‹_›)]]
  rw [eabs] at va
  refine ⟨_, absolute_c128_at_nzero_x_shape lib x hn, ?_⟩
  by_cases h0 : FP.abs ⟨53, 11⟩ x = 0
  · simp only [h0, if_true]
    have z : toQ binary64 0 = some 0 := by decide +kernel
    have : FP.abs binary64 x = 0 := h0
    rw [this, z] at va
    exact ⟨by decide, by rw [z]; exact va⟩
  · simp only [h0, if_false]
    obtain ⟨s, m, e, d⟩ := finite_decode binary64 _ fa
    have d1 : decode binary64 4607182418800017408 = .fin false 4503599627370496 (-52) := by decide +kernel
    have v1 : valQ false 4503599627370496 (-52) = 1 := by simp [valQ]; norm_num
    have hv : valQ s m e = |qx| := by
      have := toQ_fin binary64 _ s m e d; rw [va] at this; exact (Option.some.inj this).symm
    have hrep : Rep (qf binary64 hw.hp) (valQ s m e) := rep_of_decode binary64 hw _ s m e d
    have hr := isRN_rne (qf binary64 hw.hp)
    have hid : rne (qf binary64 hw.hp) (valQ false 4503599627370496 (-52) * valQ s m e) = valQ s m e := by
      rw [v1, one_mul]; exact rn_id hr hrep
    have hL : |valQ s m e| ≤ Lmax binary64 := by
      have h2e : (0 : ℚ) < 2 ^ e := by positivity
      have habs : |valQ s m e| = (m : ℚ) * 2 ^ e := by
        cases s <;> simp [valQ, abs_mul, abs_of_pos h2e]
      rw [habs]; exact decode_le_Lmax binary64 hw _ s m e d
    have fm := mul_finite binary64 hw 4607182418800017408 (FP.abs binary64 x) false s 4503599627370496 m (-52) e d1 d (by rw [hid]; exact hL)
    refine ⟨fm, ?_⟩
    show toQ binary64 (FP.mul binary64 4607182418800017408 (FP.abs binary64 x)) = _
    rw [mul_correct binary64 hw 4607182418800017408 (FP.abs binary64 x) false s 4503599627370496 m (-52) e d1 d fm, hid, hv]

end FAVerif.Props.C01
