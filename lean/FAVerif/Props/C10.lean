/-
C10 — error-free transformations are exact.  Property statements only.

`QFmt` = (precision p ≥ 2, emin): a format with gradual underflow and no upper exponent bound;
overflow is excluded by hypothesis, exactly as the property words it ("no overflow in
intermediate operations").  `IsRN q r`: `r` maps every rational to a representable nearest one
(ties arbitrary) — so the theorems hold for round-to-nearest-even and for any other tie rule.
`evalQ f r nodes outs ins` evaluates a traced program over ℚ with rounding `r`.
-/
import FAVerif.Lemmas.EFT
import FAVerif.Lemmas.EFTSoft
import FAVerif.Lemmas.SoftDiv
import FAVerif.Lemmas.EFTBits
import FAVerif.Generated.C10

namespace FAVerif.Props.C10
open FAVerif.IR FAVerif.FPQ FAVerif.FP FAVerif.Spec FAVerif.Gen.C10 FAVerif.SoftRound

/-- **2Sum** (`add_2sum(x, y, fast=False)`): s = RN(x+y) and s + t = x + y exactly — every
precision, every emin, any round-to-nearest, all representable x y, no ordering hypothesis. -/
theorem twosum (q : QFmt) (r : ℚ → ℚ) (hr : IsRN q r) (f : Fmt) (x y : ℚ) (hx : Rep q x) (hy : Rep q y) :
    evalQ f r add2sum add2sumOuts [x, y] = some [r (x + y), x + y - r (x + y)] :=
  EFT.twosum_prog hr f hx hy

/-- **Fast2Sum** (`add_2sum(x, y, fast=True)`): the same when |x| ≥ |y|. -/
theorem fast_twosum (q : QFmt) (r : ℚ → ℚ) (hr : IsRN q r) (f : Fmt) (x y : ℚ) (hx : Rep q x) (hy : Rep q y)
    (hxy : |y| ≤ |x|) :
    evalQ f r Spec.fast2sum fast2sumOuts [x, y] = some [r (x + y), x + y - r (x + y)] :=
  EFT.fast2sum_prog hr f hx hy hxy

/-- 2Sum with `fix_overflow=True`: when the intermediate `z = RN(s − x)` does not exceed the
largest finite value `L` (no overflow), the `select` keeps the exact error term. -/
theorem twosum_fix_overflow (q : QFmt) (r : ℚ → ℚ) (hr : IsRN q r) (f : Fmt) (x y L : ℚ) (lb zb : Nat)
    (hL : (decode f lb).toRat? = some L) (hZ : (decode f zb).toRat? = some 0)
    (hx : Rep q x) (hy : Rep q y) (hno : |r (r (x + y) - x)| ≤ L) :
    evalQ f r (add2sumFix lb zb) add2sumFixOuts [x, y] = some [r (x + y), x + y - r (x + y)] :=
  EFT.twosum_fix_prog hr f lb zb hL hZ hx hy hno

theorem fast2sum_fix_overflow (q : QFmt) (r : ℚ → ℚ) (hr : IsRN q r) (f : Fmt) (x y L : ℚ) (lb zb : Nat)
    (hL : (decode f lb).toRat? = some L) (hZ : (decode f zb).toRat? = some 0)
    (hx : Rep q x) (hy : Rep q y) (hxy : |y| ≤ |x|) (hno : |r (r (x + y) - x)| ≤ L) :
    evalQ f r (fast2sumFix lb zb) fast2sumFixOuts [x, y] = some [r (x + y), x + y - r (x + y)] :=
  EFT.fast2sum_fix_prog hr f lb zb hL hZ hx hy hxy hno

/-- **Tie to the source**: the programs traced from the current /repo (fpa.add_2sum with every
option combination, the copies in algorithms.py and utils.py; float16/32/64) are, node for
node, the specification programs the theorems above are about.  Re-checked by the kernel
against the regenerated `Generated/C10.lean` on every run. -/
theorem ties_add_2sum :
    (∀ p ∈ [add_2sum_f16, add_2sum_f32, add_2sum_f64, alg_add_2sum_f16, alg_add_2sum_f32, alg_add_2sum_f64,
            utils_add_2sum_f16, utils_add_2sum_f32, utils_add_2sum_f64],
        p.nodes = add2sum ∧ p.outs = add2sumOuts) ∧
    (∀ p ∈ [add_2sum_fast_f16, add_2sum_fast_f32, add_2sum_fast_f64, alg_add_2sum_fast_f16, alg_add_2sum_fast_f32,
            alg_add_2sum_fast_f64, utils_add_fast2sum_f16, utils_add_fast2sum_f32, utils_add_fast2sum_f64],
        p.nodes = Spec.fast2sum ∧ p.outs = fast2sumOuts) ∧
    (∀ p ∈ [add_2sum_fix_f16, add_2sum_fix_f32, add_2sum_fix_f64],
        p.nodes = add2sumFix p.fmt.maxBits 0 ∧ p.outs = add2sumFixOuts) ∧
    (∀ p ∈ [add_2sum_fast_fix_f16, add_2sum_fast_fix_f32, add_2sum_fast_fix_f64],
        p.nodes = fast2sumFix p.fmt.maxBits 0 ∧ p.outs = fast2sumFixOuts) ∧
    [add_2sum_f16.fmt, add_2sum_f32.fmt, add_2sum_f64.fmt] = [binary16, binary32, binary64] := by
  decide

/-- End-to-end statement on a regenerated program (float32 instance; f16/f64 are identical
node lists by `ties_add_2sum`). -/
theorem twosum_generated (q : QFmt) (r : ℚ → ℚ) (hr : IsRN q r) (x y : ℚ) (hx : Rep q x) (hy : Rep q y) :
    add_2sum_f32.evalQ r [x, y] = some [r (x + y), x + y - r (x + y)] ∧
    add_2sum_f16.evalQ r [x, y] = some [r (x + y), x + y - r (x + y)] ∧
    add_2sum_f64.evalQ r [x, y] = some [r (x + y), x + y - r (x + y)] ∧
    alg_add_2sum_f32.evalQ r [x, y] = some [r (x + y), x + y - r (x + y)] ∧
    alg_add_2sum_f64.evalQ r [x, y] = some [r (x + y), x + y - r (x + y)] ∧
    utils_add_2sum_f32.evalQ r [x, y] = some [r (x + y), x + y - r (x + y)] ∧
    utils_add_2sum_f64.evalQ r [x, y] = some [r (x + y), x + y - r (x + y)] := by
  have t := ties_add_2sum.1
  simp only [List.mem_cons, List.mem_nil_iff, or_false, forall_eq_or_imp, forall_eq] at t
  obtain ⟨⟨a1, a2⟩, ⟨b1, b2⟩, ⟨c1, c2⟩, -, ⟨e1, e2⟩, ⟨g1, g2⟩, -, ⟨i1, i2⟩, ⟨j1, j2⟩⟩ := t
  refine ⟨?_, ?_, ?_, ?_, ?_, ?_, ?_⟩ <;> unfold Prog.evalQ
  · rw [b1, b2]; exact twosum q r hr _ x y hx hy
  · rw [a1, a2]; exact twosum q r hr _ x y hx hy
  · rw [c1, c2]; exact twosum q r hr _ x y hx hy
  · rw [e1, e2]; exact twosum q r hr _ x y hx hy
  · rw [g1, g2]; exact twosum q r hr _ x y hx hy
  · rw [i1, i2]; exact twosum q r hr _ x y hx hy
  · rw [j1, j2]; exact twosum q r hr _ x y hx hy

theorem fast2sum_generated (q : QFmt) (r : ℚ → ℚ) (hr : IsRN q r) (x y : ℚ) (hx : Rep q x) (hy : Rep q y)
    (hxy : |y| ≤ |x|) :
    add_2sum_fast_f32.evalQ r [x, y] = some [r (x + y), x + y - r (x + y)] ∧
    add_2sum_fast_f16.evalQ r [x, y] = some [r (x + y), x + y - r (x + y)] ∧
    add_2sum_fast_f64.evalQ r [x, y] = some [r (x + y), x + y - r (x + y)] ∧
    alg_add_2sum_fast_f32.evalQ r [x, y] = some [r (x + y), x + y - r (x + y)] ∧
    alg_add_2sum_fast_f64.evalQ r [x, y] = some [r (x + y), x + y - r (x + y)] ∧
    utils_add_fast2sum_f32.evalQ r [x, y] = some [r (x + y), x + y - r (x + y)] ∧
    utils_add_fast2sum_f64.evalQ r [x, y] = some [r (x + y), x + y - r (x + y)] := by
  have t := ties_add_2sum.2.1
  simp only [List.mem_cons, List.mem_nil_iff, or_false, forall_eq_or_imp, forall_eq] at t
  obtain ⟨⟨a1, a2⟩, ⟨b1, b2⟩, ⟨c1, c2⟩, -, ⟨e1, e2⟩, ⟨g1, g2⟩, -, ⟨i1, i2⟩, ⟨j1, j2⟩⟩ := t
  refine ⟨?_, ?_, ?_, ?_, ?_, ?_, ?_⟩ <;> unfold Prog.evalQ
  · rw [b1, b2]; exact fast_twosum q r hr _ x y hx hy hxy
  · rw [a1, a2]; exact fast_twosum q r hr _ x y hx hy hxy
  · rw [c1, c2]; exact fast_twosum q r hr _ x y hx hy hxy
  · rw [e1, e2]; exact fast_twosum q r hr _ x y hx hy hxy
  · rw [g1, g2]; exact fast_twosum q r hr _ x y hx hy hxy
  · rw [i1, i2]; exact fast_twosum q r hr _ x y hx hy hxy
  · rw [j1, j2]; exact fast_twosum q r hr _ x y hx hy hxy

/-- The largest finite value of each format, as a rational. -/
def maxRat (f : Fmt) : ℚ := ((2 ^ f.p - 1 : Nat) : ℚ) * pow2 f.emaxUlp

theorem twosum_fix_generated (q : QFmt) (r : ℚ → ℚ) (hr : IsRN q r) (x y : ℚ) (hx : Rep q x) (hy : Rep q y) :
    (|r (r (x + y) - x)| ≤ maxRat binary32 →
      add_2sum_fix_f32.evalQ r [x, y] = some [r (x + y), x + y - r (x + y)]) ∧
    (|r (r (x + y) - x)| ≤ maxRat binary16 →
      add_2sum_fix_f16.evalQ r [x, y] = some [r (x + y), x + y - r (x + y)]) ∧
    (|r (r (x + y) - x)| ≤ maxRat binary64 →
      add_2sum_fix_f64.evalQ r [x, y] = some [r (x + y), x + y - r (x + y)]) := by
  have t := ties_add_2sum.2.2.1
  simp only [List.mem_cons, List.mem_nil_iff, or_false, forall_eq_or_imp, forall_eq] at t
  obtain ⟨⟨a1, a2⟩, ⟨b1, b2⟩, ⟨c1, c2⟩⟩ := t
  have f32 : add_2sum_fix_f32.fmt = binary32 := by decide
  have f16 : add_2sum_fix_f16.fmt = binary16 := by decide
  have f64 : add_2sum_fix_f64.fmt = binary64 := by decide
  refine ⟨fun h => ?_, fun h => ?_, fun h => ?_⟩ <;> unfold Prog.evalQ
  · rw [b1, b2, f32]
    exact twosum_fix_overflow q r hr _ x y _ _ _ (by decide +kernel) (by decide +kernel) hx hy h
  · rw [a1, a2, f16]
    exact twosum_fix_overflow q r hr _ x y _ _ _ (by decide +kernel) (by decide +kernel) hx hy h
  · rw [c1, c2, f64]
    exact twosum_fix_overflow q r hr _ x y _ _ _ (by decide +kernel) (by decide +kernel) hx hy h

theorem fast2sum_fix_generated (q : QFmt) (r : ℚ → ℚ) (hr : IsRN q r) (x y : ℚ) (hx : Rep q x) (hy : Rep q y)
    (hxy : |y| ≤ |x|) :
    (|r (r (x + y) - x)| ≤ maxRat binary32 →
      add_2sum_fast_fix_f32.evalQ r [x, y] = some [r (x + y), x + y - r (x + y)]) ∧
    (|r (r (x + y) - x)| ≤ maxRat binary16 →
      add_2sum_fast_fix_f16.evalQ r [x, y] = some [r (x + y), x + y - r (x + y)]) ∧
    (|r (r (x + y) - x)| ≤ maxRat binary64 →
      add_2sum_fast_fix_f64.evalQ r [x, y] = some [r (x + y), x + y - r (x + y)]) := by
  have t := ties_add_2sum.2.2.2.1
  simp only [List.mem_cons, List.mem_nil_iff, or_false, forall_eq_or_imp, forall_eq] at t
  obtain ⟨⟨a1, a2⟩, ⟨b1, b2⟩, ⟨c1, c2⟩⟩ := t
  have f32 : add_2sum_fast_fix_f32.fmt = binary32 := by decide
  have f16 : add_2sum_fast_fix_f16.fmt = binary16 := by decide
  have f64 : add_2sum_fast_fix_f64.fmt = binary64 := by decide
  refine ⟨fun h => ?_, fun h => ?_, fun h => ?_⟩ <;> unfold Prog.evalQ
  · rw [b1, b2, f32]
    exact fast2sum_fix_overflow q r hr _ x y _ _ _ (by decide +kernel) (by decide +kernel) hx hy hxy h
  · rw [a1, a2, f16]
    exact fast2sum_fix_overflow q r hr _ x y _ _ _ (by decide +kernel) (by decide +kernel) hx hy hxy h
  · rw [c1, c2, f64]
    exact fast2sum_fix_overflow q r hr _ x y _ _ _ (by decide +kernel) (by decide +kernel) hx hy hxy h

/-- **2Sum on bit patterns, end to end.**  For binary16/32/64 (indeed every format with p ≥ 2,
ew ≥ 2) the program traced from the current `add_2sum`, evaluated in the BIT-EXACT softfloat
(the model validated against the machine's arithmetic on every run), returns for all finite
operand patterns x, y — whenever none of its six operations overflows — a pair (s, t) with
value(s) = RNE(x + y) and value(s) + value(t) = value(x) + value(y) exactly.
Chain: softfloat add/sub are correctly rounded (`add_correct`, `sub_correct`), `rne` is a
round-to-nearest (`isRN_rne`), abstract 2Sum theorem (`twosum_exact`). -/
theorem twosum_bit_exact (lib : Libm) (x y : Nat)
    (hx : isFiniteBits binary32 x = true) (hy : isFiniteBits binary32 y = true) :
    let S := FAVerif.FP.add binary32 y x
    let Z := FAVerif.FP.sub binary32 S x
    let A := FAVerif.FP.sub binary32 y Z
    let B := FAVerif.FP.sub binary32 S Z
    let C := FAVerif.FP.sub binary32 x B
    let T := FAVerif.FP.add binary32 A C
    add_2sum_f32.eval lib [x, y] = some [S, T] ∧
    (isFiniteBits binary32 S = true → isFiniteBits binary32 Z = true → isFiniteBits binary32 A = true →
     isFiniteBits binary32 B = true → isFiniteBits binary32 C = true → isFiniteBits binary32 T = true →
     ∃ qx qy qs qt : ℚ, toQ binary32 x = some qx ∧ toQ binary32 y = some qy ∧ toQ binary32 S = some qs ∧
       toQ binary32 T = some qt ∧ qs = rne (qf binary32 (by decide)) (qx + qy) ∧ qs + qt = qx + qy) := by
  intro S Z A B C T
  constructor
  · simp [Prog.eval, add_2sum_f32, evalNodes, evalNode, S, Z, A, B, C, T, binary32]
  · exact twosum_bits binary32 ⟨by decide, by decide⟩ x y hx hy

/-- The same for every format at once, on the specification node list the three regenerated
programs are equal to (`ties_add_2sum`). -/
theorem twosum_bit_exact_any_format (f : Fmt) (hf : 2 ≤ f.p ∧ 2 ≤ f.ew) (x y : Nat)
    (hx : isFiniteBits f x = true) (hy : isFiniteBits f y = true) :
    let S := FAVerif.FP.add f y x
    let Z := FAVerif.FP.sub f S x
    let A := FAVerif.FP.sub f y Z
    let B := FAVerif.FP.sub f S Z
    let C := FAVerif.FP.sub f x B
    let T := FAVerif.FP.add f A C
    isFiniteBits f S = true → isFiniteBits f Z = true → isFiniteBits f A = true →
    isFiniteBits f B = true → isFiniteBits f C = true → isFiniteBits f T = true →
    ∃ qx qy qs qt : ℚ, toQ f x = some qx ∧ toQ f y = some qy ∧ toQ f S = some qs ∧ toQ f T = some qt ∧
      qs = rne (qf f hf.1) (qx + qy) ∧ qs + qt = qx + qy :=
  twosum_bits f ⟨hf.1, hf.2⟩ x y hx hy

/-- Fast2Sum on bit patterns, every format with p ≥ 2, ew ≥ 2. -/
theorem fast2sum_bit_exact_any_format (f : Fmt) (hf : 2 ≤ f.p ∧ 2 ≤ f.ew) (x y : Nat)
    (hx : isFiniteBits f x = true) (hy : isFiniteBits f y = true) :
    let S := FAVerif.FP.add f y x
    let Z := FAVerif.FP.sub f S x
    let T := FAVerif.FP.sub f y Z
    isFiniteBits f S = true → isFiniteBits f Z = true → isFiniteBits f T = true →
    ∃ qx qy qs qt : ℚ, toQ f x = some qx ∧ toQ f y = some qy ∧ toQ f S = some qs ∧ toQ f T = some qt ∧
      (|qy| ≤ |qx| → qs = rne (qf f hf.1) (qx + qy) ∧ qs + qt = qx + qy) :=
  fast2sum_bits f ⟨hf.1, hf.2⟩ x y hx hy

/-- The softfloat primitives are correctly rounded (finite operands, finite result). -/
theorem soft_ops_correctly_rounded (f : Fmt) (hf : 2 ≤ f.p ∧ 2 ≤ f.ew) (a b : Nat) (s t : Bool) (m n : Nat) (e e' : Int)
    (ha : decode f a = .fin s m e) (hb : decode f b = .fin t n e') :
    (isFiniteBits f (FAVerif.FP.add f a b) = true →
      toQ f (FAVerif.FP.add f a b) = some (rne (qf f hf.1) (valQ s m e + valQ t n e'))) ∧
    (isFiniteBits f (FAVerif.FP.sub f a b) = true →
      toQ f (FAVerif.FP.sub f a b) = some (rne (qf f hf.1) (valQ s m e - valQ t n e'))) ∧
    (isFiniteBits f (FAVerif.FP.mul f a b) = true →
      toQ f (FAVerif.FP.mul f a b) = some (rne (qf f hf.1) (valQ s m e * valQ t n e'))) ∧
    IsRN (qf f hf.1) (rne (qf f hf.1)) :=
  ⟨add_correct f ⟨hf.1, hf.2⟩ a b s t m n e e' ha hb, sub_correct f ⟨hf.1, hf.2⟩ a b s t m n e e' ha hb,
   mul_correct f ⟨hf.1, hf.2⟩ a b s t m n e e' ha hb, isRN_rne _⟩

/-- Division of the softfloat is correctly rounded as well (sticky-bit path): finite operands,
non-zero divisor, finite result ⇒ value = rne (x / y). -/
theorem soft_div_correctly_rounded (f : Fmt) (hf : 2 ≤ f.p ∧ 2 ≤ f.ew) (a b : Nat) (s t : Bool) (m n : Nat) (e e' : Int)
    (ha : decode f a = .fin s m e) (hb : decode f b = .fin t n e') (hn : n ≠ 0)
    (hfin : isFiniteBits f (FAVerif.FP.div f a b) = true) :
    toQ f (FAVerif.FP.div f a b) = some (rne (qf f hf.1) (valQ s m e / valQ t n e')) :=
  div_correct f ⟨hf.1, hf.2⟩ a b s t m n e e' ha hb hn hfin

/-! ### Veltkamp's splitter and Dekker's product -/

/-- **Veltkamp's splitter** (`fpa.split_veltkamp(x, scale=False)` with C = 2^s + 1): for every
precision p ≥ 2, every 1 ≤ s < p, every emin, any round-to-nearest (ties arbitrary) and every
normal x = k·2^e (2^(p-1) ≤ |k| < 2^p, e ≥ emin), absent overflow: the program returns (xh, xl)
with xh + xl = x exactly; xh is a multiple of 2^(e+s) with |xh| ≤ 2^p·2^e — at most p − s significant
bits; xl is a multiple of 2^e with |xl| ≤ 2^(s-1)·2^e — at most s − 1 bits and a sign.  With
s = ⌈p/2⌉ both halves fit in half the significand. -/
theorem veltkamp_split (q : QFmt) (r : ℚ → ℚ) (hr : IsRN q r) (f : Fmt) (cb : Nat) (s : ℕ)
    (hC : (decode f cb).toRat? = some (2 ^ s + 1)) (hs1 : 1 ≤ s) (hsp : s < q.p) (k e : ℤ)
    (hk1 : 2 ^ (q.p - 1) ≤ |k|) (hk2 : |k| < 2 ^ q.p) (he : q.emin ≤ e) :
    ∃ xh xl : ℚ, evalQ f r (splitV cb) splitVOuts [(k : ℚ) * 2 ^ e] = some [xh, xl] ∧
      xh + xl = (k : ℚ) * 2 ^ e ∧ Mult (e + s) xh ∧ |xh| ≤ 2 ^ q.p * 2 ^ e ∧ Mult e xl ∧ |xl| ≤ 2 ^ (e + s) / 2 :=
  EFT.splitV_prog hr f cb hC hs1 hsp hk1 hk2 he

/-- The coding used by `utils.split_veltkamp` (d = x − g, xh = g + d): same statement. -/
theorem veltkamp_split_utils (q : QFmt) (r : ℚ → ℚ) (hr : IsRN q r) (f : Fmt) (cb : Nat) (s : ℕ)
    (hC : (decode f cb).toRat? = some (2 ^ s + 1)) (hs1 : 1 ≤ s) (hsp : s < q.p) (k e : ℤ)
    (hk1 : 2 ^ (q.p - 1) ≤ |k|) (hk2 : |k| < 2 ^ q.p) (he : q.emin ≤ e) :
    ∃ xh xl : ℚ, evalQ f r (splitVU cb) splitVOuts [(k : ℚ) * 2 ^ e] = some [xh, xl] ∧
      xh + xl = (k : ℚ) * 2 ^ e ∧ Mult (e + s) xh ∧ |xh| ≤ 2 ^ q.p * 2 ^ e ∧ Mult e xl ∧ |xl| ≤ 2 ^ (e + s) / 2 :=
  EFT.splitVU_prog hr f cb hC hs1 hsp hk1 hk2 he

/-- **The splitter is exact on EVERY representable number** — normal, subnormal and zero, both codings
(`fpa.split_veltkamp`, `utils.split_veltkamp`), every precision, emin and round-to-nearest, 1 ≤ s < p, absent overflow:
xh + xl = x.  (The half-width bounds are stated for normal x in `veltkamp_split`; for a subnormal x they hold relative to
its normalised form, `FPQ.veltkamp_gen`.) -/
theorem veltkamp_split_every_finite (q : QFmt) (r : ℚ → ℚ) (hr : IsRN q r) (f : Fmt) (cb : Nat) (s : ℕ)
    (hC : (decode f cb).toRat? = some (2 ^ s + 1)) (hs1 : 1 ≤ s) (hsp : s < q.p) (x : ℚ) (hx : Rep q x) :
    (∃ xh xl : ℚ, evalQ f r (splitV cb) splitVOuts [x] = some [xh, xl] ∧ xh + xl = x) ∧
    (∃ xh xl : ℚ, evalQ f r (splitVU cb) splitVOuts [x] = some [xh, xl] ∧ xh + xl = x) :=
  EFT.splitV_all hr f cb hC hs1 hsp hx

/-- **Dekker's product** (`fpa.mul_dekker(x, y, scale=False, fix_overflow=False)`, C = 2^s + 1):
for every precision with p ≤ 2s ≤ p + 2 and s + 2 ≤ p (s = ⌈p/2⌉ qualifies for every p ≥ 4), every
emin, any round-to-nearest, all normal x = kx·2^ex, y = ky·2^ey whose product's error term cannot
underflow (ex + ey ≥ emin), absent overflow: h = RN(x·y) and h + l = x·y exactly — each of the four
partial products and each of the four partial sums of `mul_dw` is computed without rounding error. -/
theorem dekker_product (q : QFmt) (r : ℚ → ℚ) (hr : IsRN q r) (f : Fmt) (cb : Nat) (s : ℕ)
    (hC : (decode f cb).toRat? = some (2 ^ s + 1)) (h2s : q.p ≤ 2 * s) (h2s2 : 2 * s ≤ q.p + 2) (hs2 : s + 2 ≤ q.p)
    (kx ky ex ey : ℤ) (hkx1 : 2 ^ (q.p - 1) ≤ |kx|) (hkx2 : |kx| < 2 ^ q.p) (hky1 : 2 ^ (q.p - 1) ≤ |ky|) (hky2 : |ky| < 2 ^ q.p)
    (hex : q.emin ≤ ex) (hey : q.emin ≤ ey) (he : q.emin ≤ ex + ey) (x y : ℚ) (hx : x = (kx : ℚ) * 2 ^ ex) (hy : y = (ky : ℚ) * 2 ^ ey) :
    evalQ f r (mulDekker cb) mulDekkerOuts [x, y] = some [r (x * y), x * y - r (x * y)] :=
  EFT.mulDekker_prog hr f cb hC h2s h2s2 hs2 hkx1 hkx2 hky1 hky2 hex hey he x y hx hy

/-- **Dekker's product with subnormal operands**: the operands only have to be representable (on the 2^emin
lattice); written in normalised form kx·2^ex, ky·2^ey the exponents may lie BELOW emin (a subnormal operand), and
the single remaining condition is the documented one, ex + ey ≥ emin (the error term x·y − RN(x·y) is representable). -/
theorem dekker_product_subnormal_operands (q : QFmt) (r : ℚ → ℚ) (hr : IsRN q r) (f : Fmt) (cb : Nat) (s : ℕ)
    (hC : (decode f cb).toRat? = some (2 ^ s + 1)) (h2s : q.p ≤ 2 * s) (h2s2 : 2 * s ≤ q.p + 2) (hs2 : s + 2 ≤ q.p)
    (kx ky ex ey : ℤ) (hkx1 : 2 ^ (q.p - 1) ≤ |kx|) (hkx2 : |kx| < 2 ^ q.p) (hky1 : 2 ^ (q.p - 1) ≤ |ky|) (hky2 : |ky| < 2 ^ q.p)
    (he : q.emin ≤ ex + ey) (x y : ℚ) (hx : x = (kx : ℚ) * 2 ^ ex) (hy : y = (ky : ℚ) * 2 ^ ey)
    (hxr : Rep q x) (hyr : Rep q y) :
    evalQ f r (mulDekker cb) mulDekkerOuts [x, y] = some [r (x * y), x * y - r (x * y)] := by
  have hxm : Mult q.emin x := by obtain ⟨m, e, h, _, h2⟩ := hxr; rw [h]; exact Mult.mono h2 ⟨m, rfl⟩
  have hym : Mult q.emin y := by obtain ⟨m, e, h, _, h2⟩ := hyr; rw [h]; exact Mult.mono h2 ⟨m, rfl⟩
  exact EFT.mulDekker_prog_all hr f cb hC h2s h2s2 hs2 hkx1 hkx2 hky1 hky2 he x y hx hy hxm hym

/-- `utils.multiply_dekker` and `utils.square_dekker`: the same. -/
theorem dekker_product_utils (q : QFmt) (r : ℚ → ℚ) (hr : IsRN q r) (f : Fmt) (cb : Nat) (s : ℕ)
    (hC : (decode f cb).toRat? = some (2 ^ s + 1)) (h2s : q.p ≤ 2 * s) (h2s2 : 2 * s ≤ q.p + 2) (hs2 : s + 2 ≤ q.p)
    (kx ky ex ey : ℤ) (hkx1 : 2 ^ (q.p - 1) ≤ |kx|) (hkx2 : |kx| < 2 ^ q.p) (hky1 : 2 ^ (q.p - 1) ≤ |ky|) (hky2 : |ky| < 2 ^ q.p)
    (hex : q.emin ≤ ex) (hey : q.emin ≤ ey) (he : q.emin ≤ ex + ey) (x y : ℚ) (hx : x = (kx : ℚ) * 2 ^ ex) (hy : y = (ky : ℚ) * 2 ^ ey) :
    evalQ f r (mulDekkerU cb) mulDekkerOuts [x, y] = some [r (x * y), x * y - r (x * y)] ∧
    (ex + ex ≥ q.emin → evalQ f r (squareDekkerU cb) squareDekkerUOuts [x] = some [r (x * x), x * x - r (x * x)]) :=
  ⟨EFT.mulDekkerU_prog hr f cb hC h2s h2s2 hs2 hkx1 hkx2 hky1 hky2 hex hey he x y hx hy,
   fun h => EFT.squareDekkerU_prog hr f cb hC h2s h2s2 hs2 hkx1 hkx2 hex h x hx⟩

/-- `fpa.mul_dekker(scale=False, fix_overflow=True)`: when the product of the high halves does not exceed
the largest finite value `Lm` (no overflow), the two `select`s keep Dekker's exact pair. -/
theorem dekker_product_fix_overflow (q : QFmt) (r : ℚ → ℚ) (hr : IsRN q r) (f : Fmt) (cb lb zb : Nat) (s : ℕ) (Lm : ℚ)
    (hC : (decode f cb).toRat? = some (2 ^ s + 1)) (hL : (decode f lb).toRat? = some Lm) (hZ : (decode f zb).toRat? = some 0)
    (h2s : q.p ≤ 2 * s) (h2s2 : 2 * s ≤ q.p + 2) (hs2 : s + 2 ≤ q.p)
    (kx ky ex ey : ℤ) (hkx1 : 2 ^ (q.p - 1) ≤ |kx|) (hkx2 : |kx| < 2 ^ q.p) (hky1 : 2 ^ (q.p - 1) ≤ |ky|) (hky2 : |ky| < 2 ^ q.p)
    (hex : q.emin ≤ ex) (hey : q.emin ≤ ey) (he : q.emin ≤ ex + ey) (x y : ℚ) (hx : x = (kx : ℚ) * 2 ^ ex) (hy : y = (ky : ℚ) * 2 ^ ey)
    (hno : |r (r (r ((2 ^ s + 1) * y) - r (r ((2 ^ s + 1) * y) - y)) * r (r ((2 ^ s + 1) * x) - r (r ((2 ^ s + 1) * x) - x)))| ≤ Lm) :
    evalQ f r (mulDekkerFix cb lb zb) mulDekkerFixOuts [x, y] = some [r (x * y), x * y - r (x * y)] :=
  EFT.mulDekkerFix_prog hr f cb lb zb Lm hC hL hZ h2s h2s2 hs2 hkx1 hkx2 hky1 hky2 hex hey he x y hx hy hno

/-- tie: the regenerated `mul_dekker(scale=False, fix_overflow=True)` programs are the specification program
with the format's splitting constant, largest finite value and +0 -/
theorem ties_dekker_fix :
    ∀ e ∈ [(mul_dekker_fix_f16, 21520), (mul_dekker_fix_f32, 1166018560), (mul_dekker_fix_f64, 4728779608772575232)],
      e.1.nodes = mulDekkerFix e.2 e.1.fmt.maxBits 0 ∧ e.1.outs = mulDekkerFixOuts := by decide

/-- **The scaled splitter** (`split_veltkamp(x, scale=True)`): for every normal x with |x| ≤ x_max (the
format's documented bound) the scaling by 1/N = 2^−t and back is exact and the halves satisfy the same
statement as `veltkamp_split` (e − t ≥ emin: always true for the |x| ≥ 1 that get scaled when emin ≤ −p−t). -/
theorem veltkamp_split_scaled (q : QFmt) (r : ℚ → ℚ) (hr : IsRN q r) (f : Fmt) (xmb zb oneb cb invb nb : Nat) (s t : ℕ) (Xm : ℚ)
    (hC : (decode f cb).toRat? = some (2 ^ s + 1)) (hXm : (decode f xmb).toRat? = some Xm) (hZ : (decode f zb).toRat? = some 0)
    (h1 : (decode f oneb).toRat? = some 1) (hi : (decode f invb).toRat? = some (1 / 2 ^ t)) (hN : (decode f nb).toRat? = some (2 ^ t))
    (hs1 : 1 ≤ s) (hsp : s < q.p) (k e : ℤ) (hk1 : 2 ^ (q.p - 1) ≤ |k|) (hk2 : |k| < 2 ^ q.p) (he : q.emin ≤ e - t)
    (hxm : |(k : ℚ) * 2 ^ e| ≤ Xm) :
    ∃ xh xl : ℚ, evalQ f r (splitVScale xmb zb oneb cb invb nb) splitVScaleOuts [(k : ℚ) * 2 ^ e] = some [xh, xl] ∧
      xh + xl = (k : ℚ) * 2 ^ e ∧ Mult (e + s) xh ∧ |xh| ≤ 2 ^ q.p * 2 ^ e ∧ Mult e xl ∧ |xl| ≤ 2 ^ (e + s) / 2 :=
  EFT.splitVScale_prog hr f xmb zb oneb cb invb nb Xm hC hXm hZ h1 hi hN hs1 hsp hk1 hk2 he hxm

/-- tie: the regenerated scaled splitters are the specification program with these constants
(x_max, +0, 1, C = 2^s+1, 1/N, N), and the scaling constants are 2^∓6, 2^∓12, 2^∓27 -/
theorem ties_split_scaled :
    (split_veltkamp_scale_f16.nodes = splitVScale 31680 0 15360 21520 9216 21504 ∧ split_veltkamp_scale_f16.outs = splitVScaleOuts) ∧
    (split_veltkamp_scale_f32.nodes = splitVScale 2139090944 0 1065353216 1166018560 964689920 1166016512 ∧
      split_veltkamp_scale_f32.outs = splitVScaleOuts) ∧
    (split_veltkamp_scale_f64.nodes = splitVScale 9218868437093187584 0 4607182418800017408 4728779608772575232 4485585228861014016
        4728779608739020800 ∧ split_veltkamp_scale_f64.outs = splitVScaleOuts) ∧
    ((decode binary16 9216).toRat?, (decode binary16 21504).toRat?, (decode binary16 15360).toRat?) = (some (1 / 2 ^ 6), some (2 ^ 6), some 1) ∧
    ((decode binary32 964689920).toRat?, (decode binary32 1166016512).toRat?, (decode binary32 1065353216).toRat?) =
      (some (1 / 2 ^ 12), some (2 ^ 12), some 1) ∧
    ((decode binary64 4485585228861014016).toRat?, (decode binary64 4728779608739020800).toRat?, (decode binary64 4607182418800017408).toRat?) =
      (some (1 / 2 ^ 27), some (2 ^ 27), some 1) := by
  decide +kernel

/-- **Dekker's product with the default options** (`mul_dekker(x, y)`, i.e. scale=True): for normal x, y with
|x|, |y| ≤ x_max whose product's error term cannot underflow, absent overflow: h = RN(x·y), h + l = x·y. -/
theorem dekker_product_scaled (q : QFmt) (r : ℚ → ℚ) (hr : IsRN q r) (f : Fmt) (xmb zb oneb cb invb nb : Nat) (s t : ℕ) (Xm : ℚ)
    (hC : (decode f cb).toRat? = some (2 ^ s + 1)) (hXm : (decode f xmb).toRat? = some Xm) (hZ : (decode f zb).toRat? = some 0)
    (h1 : (decode f oneb).toRat? = some 1) (hi : (decode f invb).toRat? = some (1 / 2 ^ t)) (hN : (decode f nb).toRat? = some (2 ^ t))
    (h2s : q.p ≤ 2 * s) (h2s2 : 2 * s ≤ q.p + 2) (hs2 : s + 2 ≤ q.p)
    (kx ky ex ey : ℤ) (hkx1 : 2 ^ (q.p - 1) ≤ |kx|) (hkx2 : |kx| < 2 ^ q.p) (hky1 : 2 ^ (q.p - 1) ≤ |ky|) (hky2 : |ky| < 2 ^ q.p)
    (hex : q.emin ≤ ex - t) (hey : q.emin ≤ ey - t) (he : q.emin ≤ ex + ey)
    (x y : ℚ) (hx : x = (kx : ℚ) * 2 ^ ex) (hy : y = (ky : ℚ) * 2 ^ ey) (hxm : |x| ≤ Xm) (hym : |y| ≤ Xm) :
    evalQ f r (mulDekkerScale xmb zb oneb cb invb nb) mulDekkerScaleOuts [x, y] = some [r (x * y), x * y - r (x * y)] :=
  EFT.mulDekkerScale_prog hr f xmb zb oneb cb invb nb Xm hC hXm hZ h1 hi hN h2s h2s2 hs2 hkx1 hkx2 hky1 hky2 hex hey he x y hx hy hxm hym

/-- tie: the regenerated default-option Dekker products are the specification program -/
theorem ties_dekker_scaled :
    (mul_dekker_scale_f16.nodes = mulDekkerScale 31680 0 15360 21520 9216 21504 ∧ mul_dekker_scale_f16.outs = mulDekkerScaleOuts) ∧
    (mul_dekker_scale_f32.nodes = mulDekkerScale 2139090944 0 1065353216 1166018560 964689920 1166016512 ∧
      mul_dekker_scale_f32.outs = mulDekkerScaleOuts) ∧
    (mul_dekker_scale_f64.nodes = mulDekkerScale 9218868437093187584 0 4607182418800017408 4728779608772575232 4485585228861014016
        4728779608739020800 ∧ mul_dekker_scale_f64.outs = mulDekkerScaleOuts) := by
  decide +kernel

/-- `mul_dekker(scale=True, fix_overflow=True)`: exact whenever the product of the (scaled-splitter) high halves does
not exceed the largest finite value.  With this the whole option matrix scale × fix_overflow of `mul_dekker` is covered. -/
theorem dekker_product_scaled_fix_overflow (q : QFmt) (r : ℚ → ℚ) (hr : IsRN q r) (f : Fmt) (xmb zb oneb cb invb nb lb : Nat) (s t : ℕ) (Xm Lm : ℚ)
    (hC : (decode f cb).toRat? = some (2 ^ s + 1)) (hXm : (decode f xmb).toRat? = some Xm) (hZ : (decode f zb).toRat? = some 0)
    (h1 : (decode f oneb).toRat? = some 1) (hi : (decode f invb).toRat? = some (1 / 2 ^ t)) (hN : (decode f nb).toRat? = some (2 ^ t))
    (hL : (decode f lb).toRat? = some Lm)
    (h2s : q.p ≤ 2 * s) (h2s2 : 2 * s ≤ q.p + 2) (hs2 : s + 2 ≤ q.p)
    (kx ky ex ey : ℤ) (hkx1 : 2 ^ (q.p - 1) ≤ |kx|) (hkx2 : |kx| < 2 ^ q.p) (hky1 : 2 ^ (q.p - 1) ≤ |ky|) (hky2 : |ky| < 2 ^ q.p)
    (hex : q.emin ≤ ex - t) (hey : q.emin ≤ ey - t) (he : q.emin ≤ ex + ey)
    (x y : ℚ) (hx : x = (kx : ℚ) * 2 ^ ex) (hy : y = (ky : ℚ) * 2 ^ ey) (hxm : |x| ≤ Xm) (hym : |y| ≤ Xm)
    (hno : |r ((EFT.scaledSplitQ r (2 ^ s + 1) Xm (1 / 2 ^ t) (2 ^ t) y).1 * (EFT.scaledSplitQ r (2 ^ s + 1) Xm (1 / 2 ^ t) (2 ^ t) x).1)| ≤ Lm) :
    evalQ f r (mulDekkerScaleFix xmb zb oneb cb invb nb lb) mulDekkerScaleFixOuts [x, y] = some [r (x * y), x * y - r (x * y)] :=
  EFT.mulDekkerScaleFix_prog hr f xmb zb oneb cb invb nb lb Xm Lm hC hXm hZ h1 hi hN hL h2s h2s2 hs2 hkx1 hkx2 hky1 hky2 hex hey he x y hx hy hxm hym hno

theorem ties_dekker_scaled_fix :
    (mul_dekker_scale_fix_f16.nodes = mulDekkerScaleFix 31680 0 15360 21520 9216 21504 binary16.maxBits ∧
      mul_dekker_scale_fix_f16.outs = mulDekkerScaleFixOuts) ∧
    (mul_dekker_scale_fix_f32.nodes = mulDekkerScaleFix 2139090944 0 1065353216 1166018560 964689920 1166016512 binary32.maxBits ∧
      mul_dekker_scale_fix_f32.outs = mulDekkerScaleFixOuts) ∧
    (mul_dekker_scale_fix_f64.nodes = mulDekkerScaleFix 9218868437093187584 0 4607182418800017408 4728779608772575232 4485585228861014016
        4728779608739020800 binary64.maxBits ∧ mul_dekker_scale_fix_f64.outs = mulDekkerScaleFixOuts) := by
  decide +kernel

/-- the splitting constants of the three formats, as bit patterns, and their values 2^⌈p/2⌉ + 1 -/
theorem split_constants :
    (decode binary16 21520).toRat? = some (2 ^ 6 + 1) ∧ (decode binary32 1166018560).toRat? = some (2 ^ 12 + 1) ∧
    (decode binary64 4728779608772575232).toRat? = some (2 ^ 27 + 1) := by decide +kernel

/-- **Tie to the source**: the programs traced from the current /repo for `fpa.split_veltkamp`,
`utils.split_veltkamp`, `fpa.mul_dekker(scale=False)`, `utils.multiply_dekker`, `utils.square_dekker`
(float16/32/64) are node for node the specification programs above, with the constants of
`split_constants`.  Re-checked by the kernel against the regenerated file on every run. -/
theorem ties_split_dekker :
    (∀ e ∈ [(split_veltkamp_f16, 21520), (split_veltkamp_f32, 1166018560), (split_veltkamp_f64, 4728779608772575232)],
        e.1.nodes = splitV e.2 ∧ e.1.outs = splitVOuts) ∧
    (∀ e ∈ [(utils_split_veltkamp_f16, 21520), (utils_split_veltkamp_f32, 1166018560), (utils_split_veltkamp_f64, 4728779608772575232)],
        e.1.nodes = splitVU e.2 ∧ e.1.outs = splitVOuts) ∧
    (∀ e ∈ [(mul_dekker_f16, 21520), (mul_dekker_f32, 1166018560), (mul_dekker_f64, 4728779608772575232)],
        e.1.nodes = mulDekker e.2 ∧ e.1.outs = mulDekkerOuts) ∧
    (∀ e ∈ [(utils_multiply_dekker_f16, 21520), (utils_multiply_dekker_f32, 1166018560), (utils_multiply_dekker_f64, 4728779608772575232)],
        e.1.nodes = mulDekkerU e.2 ∧ e.1.outs = mulDekkerOuts) ∧
    (∀ e ∈ [(utils_square_dekker_f16, 21520), (utils_square_dekker_f32, 1166018560), (utils_square_dekker_f64, 4728779608772575232)],
        e.1.nodes = squareDekkerU e.2 ∧ e.1.outs = squareDekkerUOuts) ∧
    [split_veltkamp_f16.fmt, split_veltkamp_f32.fmt, split_veltkamp_f64.fmt, utils_split_veltkamp_f16.fmt, utils_split_veltkamp_f32.fmt,
     utils_split_veltkamp_f64.fmt, mul_dekker_f16.fmt, mul_dekker_f32.fmt, mul_dekker_f64.fmt, utils_multiply_dekker_f16.fmt,
     utils_multiply_dekker_f32.fmt, utils_multiply_dekker_f64.fmt] =
      [binary16, binary32, binary64, binary16, binary32, binary64, binary16, binary32, binary64, binary16, binary32, binary64] := by
  decide

/-- End to end on the regenerated programs: **Dekker's product of the current source is exact** in
float16, float32 and float64 arithmetic of any emin, any round-to-nearest, for normal operands whose
product's error term does not underflow, absent overflow. -/
theorem dekker_generated (r : ℚ → ℚ) (kx ky ex ey : ℤ) (x y : ℚ) (hx : x = (kx : ℚ) * 2 ^ ex) (hy : y = (ky : ℚ) * 2 ^ ey) :
    (∀ q : QFmt, q.p = 11 → IsRN q r → 2 ^ 10 ≤ |kx| → |kx| < 2 ^ 11 → 2 ^ 10 ≤ |ky| → |ky| < 2 ^ 11 →
        q.emin ≤ ex → q.emin ≤ ey → q.emin ≤ ex + ey →
        mul_dekker_f16.evalQ r [x, y] = some [r (x * y), x * y - r (x * y)] ∧
        utils_multiply_dekker_f16.evalQ r [x, y] = some [r (x * y), x * y - r (x * y)]) ∧
    (∀ q : QFmt, q.p = 24 → IsRN q r → 2 ^ 23 ≤ |kx| → |kx| < 2 ^ 24 → 2 ^ 23 ≤ |ky| → |ky| < 2 ^ 24 →
        q.emin ≤ ex → q.emin ≤ ey → q.emin ≤ ex + ey →
        mul_dekker_f32.evalQ r [x, y] = some [r (x * y), x * y - r (x * y)] ∧
        utils_multiply_dekker_f32.evalQ r [x, y] = some [r (x * y), x * y - r (x * y)]) ∧
    (∀ q : QFmt, q.p = 53 → IsRN q r → 2 ^ 52 ≤ |kx| → |kx| < 2 ^ 53 → 2 ^ 52 ≤ |ky| → |ky| < 2 ^ 53 →
        q.emin ≤ ex → q.emin ≤ ey → q.emin ≤ ex + ey →
        mul_dekker_f64.evalQ r [x, y] = some [r (x * y), x * y - r (x * y)] ∧
        utils_multiply_dekker_f64.evalQ r [x, y] = some [r (x * y), x * y - r (x * y)]) := by
  obtain ⟨c16, c32, c64⟩ := split_constants
  obtain ⟨-, -, t3, t4, -, tf⟩ := ties_split_dekker
  simp only [List.mem_cons, List.mem_nil_iff, or_false, forall_eq_or_imp, forall_eq] at t3 t4
  obtain ⟨⟨a1, a2⟩, ⟨b1, b2⟩, ⟨d1, d2⟩⟩ := t3
  obtain ⟨⟨u1, u2⟩, ⟨v1, v2⟩, ⟨w1, w2⟩⟩ := t4
  simp only [List.cons.injEq, and_true] at tf
  obtain ⟨-, -, -, -, -, -, g1, g2, g3, g4, g5, g6⟩ := tf
  refine ⟨?_, ?_, ?_⟩
  · intro q hq hr h1 h2 h3 h4 h5 h6 h7
    unfold Prog.evalQ
    rw [a1, a2, u1, u2, g1, g4]
    have hp1 : q.p - 1 = 10 := by omega
    exact ⟨dekker_product q r hr _ _ 6 c16 (by omega) (by omega) (by omega) kx ky ex ey (by rw [hp1]; exact h1) (by rw [hq]; exact h2)
        (by rw [hp1]; exact h3) (by rw [hq]; exact h4) h5 h6 h7 x y hx hy,
      (dekker_product_utils q r hr _ _ 6 c16 (by omega) (by omega) (by omega) kx ky ex ey (by rw [hp1]; exact h1) (by rw [hq]; exact h2)
        (by rw [hp1]; exact h3) (by rw [hq]; exact h4) h5 h6 h7 x y hx hy).1⟩
  · intro q hq hr h1 h2 h3 h4 h5 h6 h7
    unfold Prog.evalQ
    rw [b1, b2, v1, v2, g2, g5]
    have hp1 : q.p - 1 = 23 := by omega
    exact ⟨dekker_product q r hr _ _ 12 c32 (by omega) (by omega) (by omega) kx ky ex ey (by rw [hp1]; exact h1) (by rw [hq]; exact h2)
        (by rw [hp1]; exact h3) (by rw [hq]; exact h4) h5 h6 h7 x y hx hy,
      (dekker_product_utils q r hr _ _ 12 c32 (by omega) (by omega) (by omega) kx ky ex ey (by rw [hp1]; exact h1) (by rw [hq]; exact h2)
        (by rw [hp1]; exact h3) (by rw [hq]; exact h4) h5 h6 h7 x y hx hy).1⟩
  · intro q hq hr h1 h2 h3 h4 h5 h6 h7
    unfold Prog.evalQ
    rw [d1, d2, w1, w2, g3, g6]
    have hp1 : q.p - 1 = 52 := by omega
    exact ⟨dekker_product q r hr _ _ 27 c64 (by omega) (by omega) (by omega) kx ky ex ey (by rw [hp1]; exact h1) (by rw [hq]; exact h2)
        (by rw [hp1]; exact h3) (by rw [hq]; exact h4) h5 h6 h7 x y hx hy,
      (dekker_product_utils q r hr _ _ 27 c64 (by omega) (by omega) (by omega) kx ky ex ey (by rw [hp1]; exact h1) (by rw [hq]; exact h2)
        (by rw [hp1]; exact h3) (by rw [hq]; exact h4) h5 h6 h7 x y hx hy).1⟩

/-- End to end for the splitter: the regenerated `split_veltkamp` programs split every normal x of
their format into halves of ⌊p/2⌋ and ⌈p/2⌉ − 1 (+ sign) bits that sum to x exactly. -/
theorem split_generated (r : ℚ → ℚ) (k e : ℤ) :
    (∀ q : QFmt, q.p = 11 → IsRN q r → 2 ^ 10 ≤ |k| → |k| < 2 ^ 11 → q.emin ≤ e →
      ∃ xh xl : ℚ, split_veltkamp_f16.evalQ r [(k : ℚ) * 2 ^ e] = some [xh, xl] ∧ xh + xl = (k : ℚ) * 2 ^ e ∧
        Mult (e + 6) xh ∧ |xh| ≤ 2 ^ 11 * 2 ^ e ∧ Mult e xl ∧ |xl| ≤ 2 ^ (e + 6) / 2) ∧
    (∀ q : QFmt, q.p = 24 → IsRN q r → 2 ^ 23 ≤ |k| → |k| < 2 ^ 24 → q.emin ≤ e →
      ∃ xh xl : ℚ, split_veltkamp_f32.evalQ r [(k : ℚ) * 2 ^ e] = some [xh, xl] ∧ xh + xl = (k : ℚ) * 2 ^ e ∧
        Mult (e + 12) xh ∧ |xh| ≤ 2 ^ 24 * 2 ^ e ∧ Mult e xl ∧ |xl| ≤ 2 ^ (e + 12) / 2) ∧
    (∀ q : QFmt, q.p = 53 → IsRN q r → 2 ^ 52 ≤ |k| → |k| < 2 ^ 53 → q.emin ≤ e →
      ∃ xh xl : ℚ, split_veltkamp_f64.evalQ r [(k : ℚ) * 2 ^ e] = some [xh, xl] ∧ xh + xl = (k : ℚ) * 2 ^ e ∧
        Mult (e + 27) xh ∧ |xh| ≤ 2 ^ 53 * 2 ^ e ∧ Mult e xl ∧ |xl| ≤ 2 ^ (e + 27) / 2) := by
  obtain ⟨c16, c32, c64⟩ := split_constants
  obtain ⟨t1, -, -, -, -, tf⟩ := ties_split_dekker
  simp only [List.mem_cons, List.mem_nil_iff, or_false, forall_eq_or_imp, forall_eq] at t1
  obtain ⟨⟨a1, a2⟩, ⟨b1, b2⟩, ⟨d1, d2⟩⟩ := t1
  simp only [List.cons.injEq, and_true] at tf
  obtain ⟨g1, g2, g3, -⟩ := tf
  refine ⟨?_, ?_, ?_⟩
  · intro q hq hr h1 h2 h5
    unfold Prog.evalQ
    rw [a1, a2, g1]
    have hp1 : q.p - 1 = 10 := by omega
    have := veltkamp_split q r hr binary16 21520 6 c16 (by omega) (by omega) k e (by rw [hp1]; exact h1) (by rw [hq]; exact h2) h5
    rw [hq] at this; exact this
  · intro q hq hr h1 h2 h5
    unfold Prog.evalQ
    rw [b1, b2, g2]
    have hp1 : q.p - 1 = 23 := by omega
    have := veltkamp_split q r hr binary32 1166018560 12 c32 (by omega) (by omega) k e (by rw [hp1]; exact h1) (by rw [hq]; exact h2) h5
    rw [hq] at this; exact this
  · intro q hq hr h1 h2 h5
    unfold Prog.evalQ
    rw [d1, d2, g3]
    have hp1 : q.p - 1 = 52 := by omega
    have := veltkamp_split q r hr binary64 4728779608772575232 27 c64 (by omega) (by omega) k e (by rw [hp1]; exact h1) (by rw [hq]; exact h2) h5
    rw [hq] at this; exact this

/-! ### Bit patterns: the softfloat run refines the ℚ run -/
open FAVerif.Refine

/-- **Refinement theorem.**  For every program in the arithmetic / comparison / select fragment whose
kind discipline checks (`kindsOf`, decidable), every format with p ≥ 2, ew ≥ 2, every oracle and all
finite inputs: if the BIT-EXACT run is defined and every float-valued node of it is finite (nothing
overflowed, no invalid operation), then the run over ℚ with round-to-nearest-even on the inputs' values
is defined and every output pattern denotes the corresponding rational output (booleans as 0/1).
Rests on: add/sub/mul/div of the softfloat correctly rounded, neg/abs exact, comparisons = comparisons
of values (through the sign-magnitude ordinal). -/
theorem soft_refines_rational (p : Prog) (hf : 2 ≤ p.fmt.p ∧ 2 ≤ p.fmt.ew) (kinds : List Bool) (hk : kindsOf p.nodes [] = some kinds)
    (lib : Libm) (ins : List Nat) (insQ : List ℚ) (hins : InsRel p.fmt ins insQ) (env : Array Nat)
    (he : evalNodes p.fmt lib ins p.nodes #[] = some env)
    (hfin : ∀ (i : Nat) (v : Nat), env[i]? = some v → kinds[i]? = some false → isFiniteBits p.fmt v = true)
    (outs : List Nat) (ho : p.eval lib ins = some outs) :
    ∃ qs, p.evalQ (rne (qf p.fmt hf.1)) insQ = some qs ∧
      List.Forall₂ (fun (kv : Nat × Nat) (q : ℚ) => ∃ k, kinds[kv.1]? = some k ∧ Rv p.fmt k kv.2 q) (p.outs.zip outs) qs :=
  refines p ⟨hf.1, hf.2⟩ kinds hk lib ins insQ hins env he hfin outs ho

/-- every regenerated C10 program passes the kind check of the refinement theorem, so on every run in
which no float node overflows (and no non-finite constant is involved) its bit patterns denote its
ℚ-run with round-to-nearest-even -/
theorem refinement_scope : ∀ e ∈ FAVerif.Gen.C10.all, (kindsOf e.2.nodes []).isSome = true := by decide +kernel

/-- the regenerated unscaled Dekker programs are all-float -/
theorem dekker_kinds : ∀ p ∈ [mul_dekker_f16, mul_dekker_f32, mul_dekker_f64, utils_multiply_dekker_f16, utils_multiply_dekker_f32,
      utils_multiply_dekker_f64], kindsOf p.nodes [] = some (List.replicate 21 false) := by decide +kernel

/-- **Dekker's product on BIT PATTERNS, end to end** (float32; float16 and float64 below): for all
operand patterns x, y that decode to normal numbers whose product's error term does not underflow,
whenever none of the 17 operations of the traced `mul_dekker` overflows, the softfloat returns patterns
(h, l) with value(h) = RNE(value(x)·value(y)) and value(h) + value(l) = value(x)·value(y) exactly. -/
theorem dekker_bit_exact_f32 (lib : Libm) (x y : Nat) (sx sy : Bool) (mx my : Nat) (ex ey : Int)
    (dx : decode binary32 x = .fin sx mx ex) (dy : decode binary32 y = .fin sy my ey)
    (nx : 2 ^ 23 ≤ mx) (ny : 2 ^ 23 ≤ my) (hund : binary32.emin ≤ ex + ey)
    (env : Array Nat) (he : evalNodes binary32 lib [x, y] mul_dekker_f32.nodes #[] = some env)
    (hfin : ∀ (i : Nat) (v : Nat), env[i]? = some v → isFiniteBits binary32 v = true)
    (h l : Nat) (ho : mul_dekker_f32.eval lib [x, y] = some [h, l]) :
    ∃ qh ql : ℚ, toQ binary32 h = some qh ∧ toQ binary32 l = some ql ∧
      qh = rne (qf binary32 (by decide)) (valQ sx mx ex * valQ sy my ey) ∧ qh + ql = valQ sx mx ex * valQ sy my ey := by
  have hfm : mul_dekker_f32.fmt = binary32 := by decide
  have hk := dekker_kinds mul_dekker_f32 (by simp)
  have hallf : ∀ (i : Nat) (k : Bool), (List.replicate 21 false)[i]? = some k → k = false := by
    intro i k h; rw [List.getElem?_replicate] at h; split at h <;> simp_all
  refine dekker_bits_of mul_dekker_f32 ⟨by decide, by decide⟩ _ hk hallf ?_ lib x y sx sy mx my ex ey dx dy nx ny hund env he hfin h l ho
  intro r kx ky ex ey x y hx hy hr h1 h2 h3 h4 h5 h6 h7
  exact ((dekker_generated r kx ky ex ey x y hx hy).2.1 (qf binary32 (by decide)) rfl hr h1 h2 h3 h4 h5 h6 h7).1

theorem dekker_bit_exact_f16 (lib : Libm) (x y : Nat) (sx sy : Bool) (mx my : Nat) (ex ey : Int)
    (dx : decode binary16 x = .fin sx mx ex) (dy : decode binary16 y = .fin sy my ey)
    (nx : 2 ^ 10 ≤ mx) (ny : 2 ^ 10 ≤ my) (hund : binary16.emin ≤ ex + ey)
    (env : Array Nat) (he : evalNodes binary16 lib [x, y] mul_dekker_f16.nodes #[] = some env)
    (hfin : ∀ (i : Nat) (v : Nat), env[i]? = some v → isFiniteBits binary16 v = true)
    (h l : Nat) (ho : mul_dekker_f16.eval lib [x, y] = some [h, l]) :
    ∃ qh ql : ℚ, toQ binary16 h = some qh ∧ toQ binary16 l = some ql ∧
      qh = rne (qf binary16 (by decide)) (valQ sx mx ex * valQ sy my ey) ∧ qh + ql = valQ sx mx ex * valQ sy my ey := by
  have hk := dekker_kinds mul_dekker_f16 (by simp)
  have hallf : ∀ (i : Nat) (k : Bool), (List.replicate 21 false)[i]? = some k → k = false := by
    intro i k h; rw [List.getElem?_replicate] at h; split at h <;> simp_all
  refine dekker_bits_of mul_dekker_f16 ⟨by decide, by decide⟩ _ hk hallf ?_ lib x y sx sy mx my ex ey dx dy nx ny hund env he hfin h l ho
  intro r kx ky ex ey x y hx hy hr h1 h2 h3 h4 h5 h6 h7
  exact ((dekker_generated r kx ky ex ey x y hx hy).1 (qf binary16 (by decide)) rfl hr h1 h2 h3 h4 h5 h6 h7).1

theorem dekker_bit_exact_f64 (lib : Libm) (x y : Nat) (sx sy : Bool) (mx my : Nat) (ex ey : Int)
    (dx : decode binary64 x = .fin sx mx ex) (dy : decode binary64 y = .fin sy my ey)
    (nx : 2 ^ 52 ≤ mx) (ny : 2 ^ 52 ≤ my) (hund : binary64.emin ≤ ex + ey)
    (env : Array Nat) (he : evalNodes binary64 lib [x, y] mul_dekker_f64.nodes #[] = some env)
    (hfin : ∀ (i : Nat) (v : Nat), env[i]? = some v → isFiniteBits binary64 v = true)
    (h l : Nat) (ho : mul_dekker_f64.eval lib [x, y] = some [h, l]) :
    ∃ qh ql : ℚ, toQ binary64 h = some qh ∧ toQ binary64 l = some ql ∧
      qh = rne (qf binary64 (by decide)) (valQ sx mx ex * valQ sy my ey) ∧ qh + ql = valQ sx mx ex * valQ sy my ey := by
  have hk := dekker_kinds mul_dekker_f64 (by simp)
  have hallf : ∀ (i : Nat) (k : Bool), (List.replicate 21 false)[i]? = some k → k = false := by
    intro i k h; rw [List.getElem?_replicate] at h; split at h <;> simp_all
  refine dekker_bits_of mul_dekker_f64 ⟨by decide, by decide⟩ _ hk hallf ?_ lib x y sx sy mx my ex ey dx dy nx ny hund env he hfin h l ho
  intro r kx ky ex ey x y hx hy hr h1 h2 h3 h4 h5 h6 h7
  exact ((dekker_generated r kx ky ex ey x y hx hy).2.2 (qf binary64 (by decide)) rfl hr h1 h2 h3 h4 h5 h6 h7).1

/-- kinds of the nodes of the default-option Dekker program: the six tests are boolean, the rest floats -/
def dekkerScaleKinds : List Bool :=
  [false, false, false, false, false, true, false, true, false, false, false, true, false, false, false, false, false,
   false, false, false, false, false, false, false, true, true, false, true, false, false, false, false, false, false,
   false, false, false, false, false, false, false, false, false, false, false, false, false]

/-- **`mul_dekker(x, y)` with its DEFAULT options on BIT PATTERNS (float32).**  For all operand patterns that decode
to normal numbers m·2^e with |value| ≤ x_max (3.40199e38), e ≥ emin + 12 and ex + ey ≥ emin, whenever the run is
defined and none of its float-valued nodes is non-finite: value(h) = RNE(x·y) and value(h) + value(l) = x·y exactly. -/
theorem dekker_default_bit_exact_f32 (lib : Libm) (x y : Nat) (sx sy : Bool) (mx my : Nat) (ex ey : Int)
    (dx : decode binary32 x = .fin sx mx ex) (dy : decode binary32 y = .fin sy my ey)
    (nx : 2 ^ 23 ≤ mx) (ny : 2 ^ 23 ≤ my) (hex : binary32.emin + 12 ≤ ex) (hey : binary32.emin + 12 ≤ ey) (hund : binary32.emin ≤ ex + ey)
    (Xm : ℚ) (hXm : (decode binary32 2139090944).toRat? = some Xm) (hxm : |valQ sx mx ex| ≤ Xm) (hym : |valQ sy my ey| ≤ Xm)
    (env : Array Nat) (he : evalNodes binary32 lib [x, y] mul_dekker_scale_f32.nodes #[] = some env)
    (hfin : ∀ (i : Nat) (v : Nat), env[i]? = some v → dekkerScaleKinds[i]? = some false → isFiniteBits binary32 v = true)
    (h l : Nat) (ho : mul_dekker_scale_f32.eval lib [x, y] = some [h, l]) :
    ∃ qh ql : ℚ, toQ binary32 h = some qh ∧ toQ binary32 l = some ql ∧
      qh = rne (qf binary32 (by decide)) (valQ sx mx ex * valQ sy my ey) ∧ qh + ql = valQ sx mx ex * valQ sy my ey := by
  have hf : WF binary32 := ⟨by decide, by decide⟩
  have hfm : mul_dekker_scale_f32.fmt = binary32 := by decide
  have hk : kindsOf mul_dekker_scale_f32.nodes [] = some dekkerScaleKinds := by decide +kernel
  have hko : ∀ o ∈ mul_dekker_scale_f32.outs, dekkerScaleKinds[o]? = some false := by decide
  obtain ⟨bx1, bx2⟩ := decode_bounds binary32 hf x sx mx ex dx
  obtain ⟨by1, by2⟩ := decode_bounds binary32 hf y sy my ey dy
  have hins := insRel2 (finite_of_decode _ _ _ _ _ dx) (finite_of_decode _ _ _ _ _ dy) (toQ_fin _ x sx mx ex dx) (toQ_fin _ y sy my ey dy)
  have habs : ∀ (s : Bool) (m : Nat), |(if s then -(m : ℤ) else (m : ℤ))| = (m : ℤ) := by
    intro s m; cases s <;> simp
  obtain ⟨-, ⟨t1, t2⟩, -, -, c32, -⟩ := ties_split_scaled
  obtain ⟨-, ⟨u1, u2⟩, -⟩ := ties_dekker_scaled
  obtain ⟨-, cC, -⟩ := split_constants
  have ci : (decode binary32 964689920).toRat? = some (1 / 2 ^ 12) := by have := congrArg (·.1) c32; simpa using this
  have cN : (decode binary32 1166016512).toRat? = some (2 ^ 12) := by have := congrArg (·.2.1) c32; simpa using this
  have c1 : (decode binary32 1065353216).toRat? = some 1 := by have := congrArg (·.2.2) c32; simpa using this
  have c0 : (decode binary32 0).toRat? = some 0 := by decide +kernel
  have hq : mul_dekker_scale_f32.evalQ (rne (qf binary32 hf.hp)) [valQ sx mx ex, valQ sy my ey] =
      some [rne (qf binary32 hf.hp) (valQ sx mx ex * valQ sy my ey), valQ sx mx ex * valQ sy my ey - rne (qf binary32 hf.hp) (valQ sx mx ex * valQ sy my ey)] := by
    unfold Prog.evalQ
    rw [u1, u2, hfm]
    exact dekker_product_scaled (qf binary32 hf.hp) _ (isRN_rne _) binary32 _ _ _ _ _ _ 12 12 Xm cC hXm c0 c1 ci cN
      (by show 24 ≤ 2 * 12; norm_num) (by show 2 * 12 ≤ 24 + 2; norm_num) (by show 12 + 2 ≤ 24; norm_num)
      (if sx then -(mx : ℤ) else mx) (if sy then -(my : ℤ) else my) ex ey
      (by rw [habs]; exact_mod_cast nx) (by rw [habs]; exact_mod_cast bx1)
      (by rw [habs]; exact_mod_cast ny) (by rw [habs]; exact_mod_cast by1)
      (by show binary32.emin ≤ ex - ((12 : ℕ) : ℤ); omega) (by show binary32.emin ≤ ey - ((12 : ℕ) : ℤ); omega) hund
      _ _ (valQ_int sx mx ex) (valQ_int sy my ey) hxm hym
  have := transfer2' mul_dekker_scale_f32 (by rw [hfm]; exact hf) dekkerScaleKinds hk hko lib [x, y] _ (by rw [hfm]; exact hins) env
    (by rw [hfm]; exact he) (by rw [hfm]; exact hfin) h l ho _ _ hq
  rw [hfm] at this
  exact ⟨_, _, this.1, this.2, rfl, by ring⟩

/-- **`mul_dekker(x, y)` with its DEFAULT options on BIT PATTERNS (float16).**  For all operand patterns that decode
to normal numbers m·2^e with |value| ≤ x_max (63488), e ≥ emin + 6 and ex + ey ≥ emin, whenever the run is
defined and none of its float-valued nodes is non-finite: value(h) = RNE(x·y) and value(h) + value(l) = x·y exactly. -/
theorem dekker_default_bit_exact_f16 (lib : Libm) (x y : Nat) (sx sy : Bool) (mx my : Nat) (ex ey : Int)
    (dx : decode binary16 x = .fin sx mx ex) (dy : decode binary16 y = .fin sy my ey)
    (nx : 2 ^ 10 ≤ mx) (ny : 2 ^ 10 ≤ my) (hex : binary16.emin + 6 ≤ ex) (hey : binary16.emin + 6 ≤ ey) (hund : binary16.emin ≤ ex + ey)
    (Xm : ℚ) (hXm : (decode binary16 31680).toRat? = some Xm) (hxm : |valQ sx mx ex| ≤ Xm) (hym : |valQ sy my ey| ≤ Xm)
    (env : Array Nat) (he : evalNodes binary16 lib [x, y] mul_dekker_scale_f16.nodes #[] = some env)
    (hfin : ∀ (i : Nat) (v : Nat), env[i]? = some v → dekkerScaleKinds[i]? = some false → isFiniteBits binary16 v = true)
    (h l : Nat) (ho : mul_dekker_scale_f16.eval lib [x, y] = some [h, l]) :
    ∃ qh ql : ℚ, toQ binary16 h = some qh ∧ toQ binary16 l = some ql ∧
      qh = rne (qf binary16 (by decide)) (valQ sx mx ex * valQ sy my ey) ∧ qh + ql = valQ sx mx ex * valQ sy my ey := by
  have hf : WF binary16 := ⟨by decide, by decide⟩
  have hfm : mul_dekker_scale_f16.fmt = binary16 := by decide
  have hk : kindsOf mul_dekker_scale_f16.nodes [] = some dekkerScaleKinds := by decide +kernel
  have hko : ∀ o ∈ mul_dekker_scale_f16.outs, dekkerScaleKinds[o]? = some false := by decide
  obtain ⟨bx1, bx2⟩ := decode_bounds binary16 hf x sx mx ex dx
  obtain ⟨by1, by2⟩ := decode_bounds binary16 hf y sy my ey dy
  have hins := insRel2 (finite_of_decode _ _ _ _ _ dx) (finite_of_decode _ _ _ _ _ dy) (toQ_fin _ x sx mx ex dx) (toQ_fin _ y sy my ey dy)
  have habs : ∀ (s : Bool) (m : Nat), |(if s then -(m : ℤ) else (m : ℤ))| = (m : ℤ) := by
    intro s m; cases s <;> simp
  obtain ⟨-, -, -, cc, -, -⟩ := ties_split_scaled
  obtain ⟨⟨u1, u2⟩, -, -⟩ := ties_dekker_scaled
  obtain ⟨cC, -, -⟩ := split_constants
  have ci : (decode binary16 9216).toRat? = some (1 / 2 ^ 6) := by have := congrArg (·.1) cc; simpa using this
  have cN : (decode binary16 21504).toRat? = some (2 ^ 6) := by have := congrArg (·.2.1) cc; simpa using this
  have c1 : (decode binary16 15360).toRat? = some 1 := by have := congrArg (·.2.2) cc; simpa using this
  have c0 : (decode binary16 0).toRat? = some 0 := by decide +kernel
  have hq : mul_dekker_scale_f16.evalQ (rne (qf binary16 hf.hp)) [valQ sx mx ex, valQ sy my ey] =
      some [rne (qf binary16 hf.hp) (valQ sx mx ex * valQ sy my ey), valQ sx mx ex * valQ sy my ey - rne (qf binary16 hf.hp) (valQ sx mx ex * valQ sy my ey)] := by
    unfold Prog.evalQ
    rw [u1, u2, hfm]
    exact dekker_product_scaled (qf binary16 hf.hp) _ (isRN_rne _) binary16 _ _ _ _ _ _ 6 6 Xm cC hXm c0 c1 ci cN
      (by show 11 ≤ 2 * 6; norm_num) (by show 2 * 6 ≤ 11 + 2; norm_num) (by show 6 + 2 ≤ 11; norm_num)
      (if sx then -(mx : ℤ) else mx) (if sy then -(my : ℤ) else my) ex ey
      (by rw [habs]; exact_mod_cast nx) (by rw [habs]; exact_mod_cast bx1)
      (by rw [habs]; exact_mod_cast ny) (by rw [habs]; exact_mod_cast by1)
      (by show binary16.emin ≤ ex - ((6 : ℕ) : ℤ); omega) (by show binary16.emin ≤ ey - ((6 : ℕ) : ℤ); omega) hund
      _ _ (valQ_int sx mx ex) (valQ_int sy my ey) hxm hym
  have := transfer2' mul_dekker_scale_f16 (by rw [hfm]; exact hf) dekkerScaleKinds hk hko lib [x, y] _ (by rw [hfm]; exact hins) env
    (by rw [hfm]; exact he) (by rw [hfm]; exact hfin) h l ho _ _ hq
  rw [hfm] at this
  exact ⟨_, _, this.1, this.2, rfl, by ring⟩

/-- **`mul_dekker(x, y)` with its DEFAULT options on BIT PATTERNS (float64).**  For all operand patterns that decode
to normal numbers m·2^e with |value| ≤ x_max (1.79769e308), e ≥ emin + 27 and ex + ey ≥ emin, whenever the run is
defined and none of its float-valued nodes is non-finite: value(h) = RNE(x·y) and value(h) + value(l) = x·y exactly. -/
theorem dekker_default_bit_exact_f64 (lib : Libm) (x y : Nat) (sx sy : Bool) (mx my : Nat) (ex ey : Int)
    (dx : decode binary64 x = .fin sx mx ex) (dy : decode binary64 y = .fin sy my ey)
    (nx : 2 ^ 52 ≤ mx) (ny : 2 ^ 52 ≤ my) (hex : binary64.emin + 27 ≤ ex) (hey : binary64.emin + 27 ≤ ey) (hund : binary64.emin ≤ ex + ey)
    (Xm : ℚ) (hXm : (decode binary64 9218868437093187584).toRat? = some Xm) (hxm : |valQ sx mx ex| ≤ Xm) (hym : |valQ sy my ey| ≤ Xm)
    (env : Array Nat) (he : evalNodes binary64 lib [x, y] mul_dekker_scale_f64.nodes #[] = some env)
    (hfin : ∀ (i : Nat) (v : Nat), env[i]? = some v → dekkerScaleKinds[i]? = some false → isFiniteBits binary64 v = true)
    (h l : Nat) (ho : mul_dekker_scale_f64.eval lib [x, y] = some [h, l]) :
    ∃ qh ql : ℚ, toQ binary64 h = some qh ∧ toQ binary64 l = some ql ∧
      qh = rne (qf binary64 (by decide)) (valQ sx mx ex * valQ sy my ey) ∧ qh + ql = valQ sx mx ex * valQ sy my ey := by
  have hf : WF binary64 := ⟨by decide, by decide⟩
  have hfm : mul_dekker_scale_f64.fmt = binary64 := by decide
  have hk : kindsOf mul_dekker_scale_f64.nodes [] = some dekkerScaleKinds := by decide +kernel
  have hko : ∀ o ∈ mul_dekker_scale_f64.outs, dekkerScaleKinds[o]? = some false := by decide
  obtain ⟨bx1, bx2⟩ := decode_bounds binary64 hf x sx mx ex dx
  obtain ⟨by1, by2⟩ := decode_bounds binary64 hf y sy my ey dy
  have hins := insRel2 (finite_of_decode _ _ _ _ _ dx) (finite_of_decode _ _ _ _ _ dy) (toQ_fin _ x sx mx ex dx) (toQ_fin _ y sy my ey dy)
  have habs : ∀ (s : Bool) (m : Nat), |(if s then -(m : ℤ) else (m : ℤ))| = (m : ℤ) := by
    intro s m; cases s <;> simp
  obtain ⟨-, -, -, -, -, cc⟩ := ties_split_scaled
  obtain ⟨-, -, ⟨u1, u2⟩⟩ := ties_dekker_scaled
  obtain ⟨-, -, cC⟩ := split_constants
  have ci : (decode binary64 4485585228861014016).toRat? = some (1 / 2 ^ 27) := by have := congrArg (·.1) cc; simpa using this
  have cN : (decode binary64 4728779608739020800).toRat? = some (2 ^ 27) := by have := congrArg (·.2.1) cc; simpa using this
  have c1 : (decode binary64 4607182418800017408).toRat? = some 1 := by have := congrArg (·.2.2) cc; simpa using this
  have c0 : (decode binary64 0).toRat? = some 0 := by decide +kernel
  have hq : mul_dekker_scale_f64.evalQ (rne (qf binary64 hf.hp)) [valQ sx mx ex, valQ sy my ey] =
      some [rne (qf binary64 hf.hp) (valQ sx mx ex * valQ sy my ey), valQ sx mx ex * valQ sy my ey - rne (qf binary64 hf.hp) (valQ sx mx ex * valQ sy my ey)] := by
    unfold Prog.evalQ
    rw [u1, u2, hfm]
    exact dekker_product_scaled (qf binary64 hf.hp) _ (isRN_rne _) binary64 _ _ _ _ _ _ 27 27 Xm cC hXm c0 c1 ci cN
      (by show 53 ≤ 2 * 27; norm_num) (by show 2 * 27 ≤ 53 + 2; norm_num) (by show 27 + 2 ≤ 53; norm_num)
      (if sx then -(mx : ℤ) else mx) (if sy then -(my : ℤ) else my) ex ey
      (by rw [habs]; exact_mod_cast nx) (by rw [habs]; exact_mod_cast bx1)
      (by rw [habs]; exact_mod_cast ny) (by rw [habs]; exact_mod_cast by1)
      (by show binary64.emin ≤ ex - ((27 : ℕ) : ℤ); omega) (by show binary64.emin ≤ ey - ((27 : ℕ) : ℤ); omega) hund
      _ _ (valQ_int sx mx ex) (valQ_int sy my ey) hxm hym
  have := transfer2' mul_dekker_scale_f64 (by rw [hfm]; exact hf) dekkerScaleKinds hk hko lib [x, y] _ (by rw [hfm]; exact hins) env
    (by rw [hfm]; exact he) (by rw [hfm]; exact hfin) h l ho _ _ hq
  rw [hfm] at this
  exact ⟨_, _, this.1, this.2, rfl, by ring⟩

/-- non-vacuity of `dekker_bit_exact_f32`: x = y = 1 + 2^-23 (pattern 0x3f800001) is normal, the run is
defined and every node is finite -/
example : decode binary32 0x3f800001 = .fin false (2 ^ 23 + 1) (-23) ∧
    (mul_dekker_f32.eval (fun _ _ => none) [0x3f800001, 0x3f800001]).isSome = true := by decide +kernel

/-! ### The copies compute the same bit patterns -/

theorem g16 : FAVerif.FP.gt ⟨11, 5⟩ 31743 31744 = false := by decide +kernel
theorem g32a : FAVerif.FP.gt ⟨24, 8⟩ 2139095039 2139095040 = false := by decide +kernel
theorem g32b : FAVerif.FP.gt ⟨24, 8⟩ 2139095039 2123789977 = true := by decide +kernel
theorem g64a : FAVerif.FP.gt ⟨53, 11⟩ 9218868437227405311 9214871658872686752 = true := by decide +kernel

set_option maxHeartbeats 2000000 in
/-- **The copies are the same computation** (f16): for EVERY input pattern (bit for bit, NaN and infinities included) the
`apmath` building blocks return what the `floating_point_algorithms` ones return, and the copies inside
`algorithms.py` (used by complex log/log1p) return what the `utils` ones return — their dtype-dispatch `select`s fold.
Every theorem about one of them therefore holds for its copy. -/
theorem copies_agree_f16 (lib : Libm) (x y : Nat) :
    apmath_two_sum_f16.eval lib [x, y] = add_2sum_f16.eval lib [x, y] ∧
    apmath_quick_two_sum_f16.eval lib [x, y] = add_2sum_fast_f16.eval lib [x, y] ∧
    apmath_split_f16.eval lib [x] = split_veltkamp_scale_f16.eval lib [x] ∧
    apmath_two_prod_f16.eval lib [x, y] = mul_dekker_scale_f16.eval lib [x, y] ∧
    alg_split_veltkamp_f16.eval lib [x] = utils_split_veltkamp_f16.eval lib [x] ∧
    alg_square_dekker_f16.eval lib [x] = utils_square_dekker_f16.eval lib [x] ∧
    alg_add_2sum_f16.eval lib [x, y] = add_2sum_f16.eval lib [x, y] ∧
    alg_add_2sum_fast_f16.eval lib [x, y] = add_2sum_fast_f16.eval lib [x, y] := by
  refine ⟨?_, ?_, ?_, ?_, ?_, ?_, ?_, ?_⟩
  · simp [Prog.eval, apmath_two_sum_f16, add_2sum_f16, evalNodes, evalNode]
  · simp [Prog.eval, apmath_quick_two_sum_f16, add_2sum_fast_f16, evalNodes, evalNode]
  · simp [Prog.eval, apmath_split_f16, split_veltkamp_scale_f16, evalNodes, evalNode]
  · simp [Prog.eval, apmath_two_prod_f16, mul_dekker_scale_f16, evalNodes, evalNode]
  · simp [Prog.eval, alg_split_veltkamp_f16, utils_split_veltkamp_f16, evalNodes, evalNode, g16, b2n]
    simp [FAVerif.SoftRound.add_comm' ⟨11, 5⟩]
  · simp [Prog.eval, alg_square_dekker_f16, utils_square_dekker_f16, evalNodes, evalNode, g16, b2n]
    simp only [FAVerif.SoftRound.add_comm' ⟨11, 5⟩, FAVerif.SoftRound.mul_comm' ⟨11, 5⟩]
  · simp [Prog.eval, alg_add_2sum_f16, add_2sum_f16, evalNodes, evalNode]
  · simp [Prog.eval, alg_add_2sum_fast_f16, add_2sum_fast_f16, evalNodes, evalNode]

set_option maxHeartbeats 2000000 in
/-- **The copies are the same computation** (f32): for EVERY input pattern (bit for bit, NaN and infinities included) the
`apmath` building blocks return what the `floating_point_algorithms` ones return, and the copies inside
`algorithms.py` (used by complex log/log1p) return what the `utils` ones return — their dtype-dispatch `select`s fold.
Every theorem about one of them therefore holds for its copy. -/
theorem copies_agree_f32 (lib : Libm) (x y : Nat) :
    apmath_two_sum_f32.eval lib [x, y] = add_2sum_f32.eval lib [x, y] ∧
    apmath_quick_two_sum_f32.eval lib [x, y] = add_2sum_fast_f32.eval lib [x, y] ∧
    apmath_split_f32.eval lib [x] = split_veltkamp_scale_f32.eval lib [x] ∧
    apmath_two_prod_f32.eval lib [x, y] = mul_dekker_scale_f32.eval lib [x, y] ∧
    alg_split_veltkamp_f32.eval lib [x] = utils_split_veltkamp_f32.eval lib [x] ∧
    alg_square_dekker_f32.eval lib [x] = utils_square_dekker_f32.eval lib [x] ∧
    alg_add_2sum_f32.eval lib [x, y] = add_2sum_f32.eval lib [x, y] ∧
    alg_add_2sum_fast_f32.eval lib [x, y] = add_2sum_fast_f32.eval lib [x, y] := by
  refine ⟨?_, ?_, ?_, ?_, ?_, ?_, ?_, ?_⟩
  · simp [Prog.eval, apmath_two_sum_f32, add_2sum_f32, evalNodes, evalNode]
  · simp [Prog.eval, apmath_quick_two_sum_f32, add_2sum_fast_f32, evalNodes, evalNode]
  · simp [Prog.eval, apmath_split_f32, split_veltkamp_scale_f32, evalNodes, evalNode]
  · simp [Prog.eval, apmath_two_prod_f32, mul_dekker_scale_f32, evalNodes, evalNode]
  · simp [Prog.eval, alg_split_veltkamp_f32, utils_split_veltkamp_f32, evalNodes, evalNode, g32a, g32b, b2n]
    simp [FAVerif.SoftRound.add_comm' ⟨24, 8⟩]
  · simp [Prog.eval, alg_square_dekker_f32, utils_square_dekker_f32, evalNodes, evalNode, g32a, g32b, b2n]
    simp only [FAVerif.SoftRound.add_comm' ⟨24, 8⟩, FAVerif.SoftRound.mul_comm' ⟨24, 8⟩]
  · simp [Prog.eval, alg_add_2sum_f32, add_2sum_f32, evalNodes, evalNode]
  · simp [Prog.eval, alg_add_2sum_fast_f32, add_2sum_fast_f32, evalNodes, evalNode]

set_option maxHeartbeats 2000000 in
/-- **The copies are the same computation** (f64): for EVERY input pattern (bit for bit, NaN and infinities included) the
`apmath` building blocks return what the `floating_point_algorithms` ones return, and the copies inside
`algorithms.py` (used by complex log/log1p) return what the `utils` ones return — their dtype-dispatch `select`s fold.
Every theorem about one of them therefore holds for its copy. -/
theorem copies_agree_f64 (lib : Libm) (x y : Nat) :
    apmath_two_sum_f64.eval lib [x, y] = add_2sum_f64.eval lib [x, y] ∧
    apmath_quick_two_sum_f64.eval lib [x, y] = add_2sum_fast_f64.eval lib [x, y] ∧
    apmath_split_f64.eval lib [x] = split_veltkamp_scale_f64.eval lib [x] ∧
    apmath_two_prod_f64.eval lib [x, y] = mul_dekker_scale_f64.eval lib [x, y] ∧
    alg_split_veltkamp_f64.eval lib [x] = utils_split_veltkamp_f64.eval lib [x] ∧
    alg_square_dekker_f64.eval lib [x] = utils_square_dekker_f64.eval lib [x] ∧
    alg_add_2sum_f64.eval lib [x, y] = add_2sum_f64.eval lib [x, y] ∧
    alg_add_2sum_fast_f64.eval lib [x, y] = add_2sum_fast_f64.eval lib [x, y] := by
  refine ⟨?_, ?_, ?_, ?_, ?_, ?_, ?_, ?_⟩
  · simp [Prog.eval, apmath_two_sum_f64, add_2sum_f64, evalNodes, evalNode]
  · simp [Prog.eval, apmath_quick_two_sum_f64, add_2sum_fast_f64, evalNodes, evalNode]
  · simp [Prog.eval, apmath_split_f64, split_veltkamp_scale_f64, evalNodes, evalNode]
  · simp [Prog.eval, apmath_two_prod_f64, mul_dekker_scale_f64, evalNodes, evalNode]
  · simp [Prog.eval, alg_split_veltkamp_f64, utils_split_veltkamp_f64, evalNodes, evalNode, g64a, b2n]
    simp [FAVerif.SoftRound.add_comm' ⟨53, 11⟩]
  · simp [Prog.eval, alg_square_dekker_f64, utils_square_dekker_f64, evalNodes, evalNode, g64a, b2n]
    simp only [FAVerif.SoftRound.add_comm' ⟨53, 11⟩, FAVerif.SoftRound.mul_comm' ⟨53, 11⟩]
  · simp [Prog.eval, alg_add_2sum_f64, add_2sum_f64, evalNodes, evalNode]
  · simp [Prog.eval, alg_add_2sum_fast_f64, add_2sum_fast_f64, evalNodes, evalNode]

/-- Every regenerated program is well formed (arguments refer to earlier nodes, inputs in range). -/
theorem generated_wf : ∀ p ∈ FAVerif.Gen.C10.all, p.2.wf = true := by decide +kernel

/-! Non-vacuity: the hypotheses are satisfiable — binary32-like format, x = 1, y = 2^-24
(a tie), r = round-to-nearest exists abstractly; concretely `Rep` holds for both operands. -/
example : Rep ⟨24, -149, by decide⟩ (1 : ℚ) := ⟨1, 0, by norm_num, by norm_num, by norm_num⟩
example : Rep ⟨24, -149, by decide⟩ ((2 : ℚ) ^ (-24 : ℤ)) := ⟨1, -24, by norm_num, by norm_num, by norm_num⟩

end FAVerif.Props.C10
