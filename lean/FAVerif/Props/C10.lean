/-
C10 — error-free transformations are exact.  Property statements only.

`QFmt` = (precision p ≥ 2, emin): a format with gradual underflow and no upper exponent bound;
overflow is excluded by hypothesis, exactly as the property words it ("no overflow in
intermediate operations").  `IsRN q r`: `r` maps every rational to a representable nearest one
(ties arbitrary) — so the theorems hold for round-to-nearest-even and for any other tie rule.
`evalQ f r nodes outs ins` evaluates a traced program over ℚ with rounding `r`.
-/
import FAVerif.Lemmas.EFT
import FAVerif.Lemmas.EFTSoft
import FAVerif.Lemmas.SoftDiv
import FAVerif.Generated.C10

namespace FAVerif.Props.C10
open FAVerif.IR FAVerif.FPQ FAVerif.FP FAVerif.Spec FAVerif.Gen.C10 FAVerif.SoftRound

/-- **2Sum** (`add_2sum(x, y, fast=False)`): s = RN(x+y) and s + t = x + y exactly — every
precision, every emin, any round-to-nearest, all representable x y, no ordering hypothesis. -/
theorem twosum (q : QFmt) (r : ℚ → ℚ) (hr : IsRN q r) (f : Fmt) (x y : ℚ) (hx : Rep q x) (hy : Rep q y) :
    evalQ f r add2sum add2sumOuts [x, y] = some [r (x + y), x + y - r (x + y)] :=
  EFT.twosum_prog hr f hx hy

/-- **Fast2Sum** (`add_2sum(x, y, fast=True)`): the same when |x| ≥ |y|. -/
theorem fast_twosum (q : QFmt) (r : ℚ → ℚ) (hr : IsRN q r) (f : Fmt) (x y : ℚ) (hx : Rep q x) (hy : Rep q y)
    (hxy : |y| ≤ |x|) :
    evalQ f r Spec.fast2sum fast2sumOuts [x, y] = some [r (x + y), x + y - r (x + y)] :=
  EFT.fast2sum_prog hr f hx hy hxy

/-- 2Sum with `fix_overflow=True`: when the intermediate `z = RN(s − x)` does not exceed the
largest finite value `L` (no overflow), the `select` keeps the exact error term. -/
theorem twosum_fix_overflow (q : QFmt) (r : ℚ → ℚ) (hr : IsRN q r) (f : Fmt) (x y L : ℚ) (lb zb : Nat)
    (hL : (decode f lb).toRat? = some L) (hZ : (decode f zb).toRat? = some 0)
    (hx : Rep q x) (hy : Rep q y) (hno : |r (r (x + y) - x)| ≤ L) :
    evalQ f r (add2sumFix lb zb) add2sumFixOuts [x, y] = some [r (x + y), x + y - r (x + y)] :=
  EFT.twosum_fix_prog hr f lb zb hL hZ hx hy hno

theorem fast2sum_fix_overflow (q : QFmt) (r : ℚ → ℚ) (hr : IsRN q r) (f : Fmt) (x y L : ℚ) (lb zb : Nat)
    (hL : (decode f lb).toRat? = some L) (hZ : (decode f zb).toRat? = some 0)
    (hx : Rep q x) (hy : Rep q y) (hxy : |y| ≤ |x|) (hno : |r (r (x + y) - x)| ≤ L) :
    evalQ f r (fast2sumFix lb zb) fast2sumFixOuts [x, y] = some [r (x + y), x + y - r (x + y)] :=
  EFT.fast2sum_fix_prog hr f lb zb hL hZ hx hy hxy hno

/-- **Tie to the source**: the programs traced from the current /repo (fpa.add_2sum with every
option combination, the copies in algorithms.py and utils.py; float16/32/64) are, node for
node, the specification programs the theorems above are about.  Re-checked by the kernel
against the regenerated `Generated/C10.lean` on every run. -/
theorem ties_add_2sum :
    (∀ p ∈ [add_2sum_f16, add_2sum_f32, add_2sum_f64, alg_add_2sum_f16, alg_add_2sum_f32, alg_add_2sum_f64,
            utils_add_2sum_f16, utils_add_2sum_f32, utils_add_2sum_f64],
        p.nodes = add2sum ∧ p.outs = add2sumOuts) ∧
    (∀ p ∈ [add_2sum_fast_f16, add_2sum_fast_f32, add_2sum_fast_f64, alg_add_2sum_fast_f16, alg_add_2sum_fast_f32,
            alg_add_2sum_fast_f64, utils_add_fast2sum_f16, utils_add_fast2sum_f32, utils_add_fast2sum_f64],
        p.nodes = Spec.fast2sum ∧ p.outs = fast2sumOuts) ∧
    (∀ p ∈ [add_2sum_fix_f16, add_2sum_fix_f32, add_2sum_fix_f64],
        p.nodes = add2sumFix p.fmt.maxBits 0 ∧ p.outs = add2sumFixOuts) ∧
    (∀ p ∈ [add_2sum_fast_fix_f16, add_2sum_fast_fix_f32, add_2sum_fast_fix_f64],
        p.nodes = fast2sumFix p.fmt.maxBits 0 ∧ p.outs = fast2sumFixOuts) ∧
    [add_2sum_f16.fmt, add_2sum_f32.fmt, add_2sum_f64.fmt] = [binary16, binary32, binary64] := by
  decide

/-- End-to-end statement on a regenerated program (float32 instance; f16/f64 are identical
node lists by `ties_add_2sum`). -/
theorem twosum_generated (q : QFmt) (r : ℚ → ℚ) (hr : IsRN q r) (x y : ℚ) (hx : Rep q x) (hy : Rep q y) :
    add_2sum_f32.evalQ r [x, y] = some [r (x + y), x + y - r (x + y)] ∧
    add_2sum_f16.evalQ r [x, y] = some [r (x + y), x + y - r (x + y)] ∧
    add_2sum_f64.evalQ r [x, y] = some [r (x + y), x + y - r (x + y)] ∧
    alg_add_2sum_f32.evalQ r [x, y] = some [r (x + y), x + y - r (x + y)] ∧
    alg_add_2sum_f64.evalQ r [x, y] = some [r (x + y), x + y - r (x + y)] ∧
    utils_add_2sum_f32.evalQ r [x, y] = some [r (x + y), x + y - r (x + y)] ∧
    utils_add_2sum_f64.evalQ r [x, y] = some [r (x + y), x + y - r (x + y)] := by
  have t := ties_add_2sum.1
  simp only [List.mem_cons, List.mem_nil_iff, or_false, forall_eq_or_imp, forall_eq] at t
  obtain ⟨⟨a1, a2⟩, ⟨b1, b2⟩, ⟨c1, c2⟩, -, ⟨e1, e2⟩, ⟨g1, g2⟩, -, ⟨i1, i2⟩, ⟨j1, j2⟩⟩ := t
  refine ⟨?_, ?_, ?_, ?_, ?_, ?_, ?_⟩ <;> unfold Prog.evalQ
  · rw [b1, b2]; exact twosum q r hr _ x y hx hy
  · rw [a1, a2]; exact twosum q r hr _ x y hx hy
  · rw [c1, c2]; exact twosum q r hr _ x y hx hy
  · rw [e1, e2]; exact twosum q r hr _ x y hx hy
  · rw [g1, g2]; exact twosum q r hr _ x y hx hy
  · rw [i1, i2]; exact twosum q r hr _ x y hx hy
  · rw [j1, j2]; exact twosum q r hr _ x y hx hy

theorem fast2sum_generated (q : QFmt) (r : ℚ → ℚ) (hr : IsRN q r) (x y : ℚ) (hx : Rep q x) (hy : Rep q y)
    (hxy : |y| ≤ |x|) :
    add_2sum_fast_f32.evalQ r [x, y] = some [r (x + y), x + y - r (x + y)] ∧
    add_2sum_fast_f16.evalQ r [x, y] = some [r (x + y), x + y - r (x + y)] ∧
    add_2sum_fast_f64.evalQ r [x, y] = some [r (x + y), x + y - r (x + y)] ∧
    alg_add_2sum_fast_f32.evalQ r [x, y] = some [r (x + y), x + y - r (x + y)] ∧
    alg_add_2sum_fast_f64.evalQ r [x, y] = some [r (x + y), x + y - r (x + y)] ∧
    utils_add_fast2sum_f32.evalQ r [x, y] = some [r (x + y), x + y - r (x + y)] ∧
    utils_add_fast2sum_f64.evalQ r [x, y] = some [r (x + y), x + y - r (x + y)] := by
  have t := ties_add_2sum.2.1
  simp only [List.mem_cons, List.mem_nil_iff, or_false, forall_eq_or_imp, forall_eq] at t
  obtain ⟨⟨a1, a2⟩, ⟨b1, b2⟩, ⟨c1, c2⟩, -, ⟨e1, e2⟩, ⟨g1, g2⟩, -, ⟨i1, i2⟩, ⟨j1, j2⟩⟩ := t
  refine ⟨?_, ?_, ?_, ?_, ?_, ?_, ?_⟩ <;> unfold Prog.evalQ
  · rw [b1, b2]; exact fast_twosum q r hr _ x y hx hy hxy
  · rw [a1, a2]; exact fast_twosum q r hr _ x y hx hy hxy
  · rw [c1, c2]; exact fast_twosum q r hr _ x y hx hy hxy
  · rw [e1, e2]; exact fast_twosum q r hr _ x y hx hy hxy
  · rw [g1, g2]; exact fast_twosum q r hr _ x y hx hy hxy
  · rw [i1, i2]; exact fast_twosum q r hr _ x y hx hy hxy
  · rw [j1, j2]; exact fast_twosum q r hr _ x y hx hy hxy

/-- The largest finite value of each format, as a rational. -/
def maxRat (f : Fmt) : ℚ := ((2 ^ f.p - 1 : Nat) : ℚ) * pow2 f.emaxUlp

theorem twosum_fix_generated (q : QFmt) (r : ℚ → ℚ) (hr : IsRN q r) (x y : ℚ) (hx : Rep q x) (hy : Rep q y) :
    (|r (r (x + y) - x)| ≤ maxRat binary32 →
      add_2sum_fix_f32.evalQ r [x, y] = some [r (x + y), x + y - r (x + y)]) ∧
    (|r (r (x + y) - x)| ≤ maxRat binary16 →
      add_2sum_fix_f16.evalQ r [x, y] = some [r (x + y), x + y - r (x + y)]) ∧
    (|r (r (x + y) - x)| ≤ maxRat binary64 →
      add_2sum_fix_f64.evalQ r [x, y] = some [r (x + y), x + y - r (x + y)]) := by
  have t := ties_add_2sum.2.2.1
  simp only [List.mem_cons, List.mem_nil_iff, or_false, forall_eq_or_imp, forall_eq] at t
  obtain ⟨⟨a1, a2⟩, ⟨b1, b2⟩, ⟨c1, c2⟩⟩ := t
  have f32 : add_2sum_fix_f32.fmt = binary32 := by decide
  have f16 : add_2sum_fix_f16.fmt = binary16 := by decide
  have f64 : add_2sum_fix_f64.fmt = binary64 := by decide
  refine ⟨fun h => ?_, fun h => ?_, fun h => ?_⟩ <;> unfold Prog.evalQ
  · rw [b1, b2, f32]
    exact twosum_fix_overflow q r hr _ x y _ _ _ (by decide +kernel) (by decide +kernel) hx hy h
  · rw [a1, a2, f16]
    exact twosum_fix_overflow q r hr _ x y _ _ _ (by decide +kernel) (by decide +kernel) hx hy h
  · rw [c1, c2, f64]
    exact twosum_fix_overflow q r hr _ x y _ _ _ (by decide +kernel) (by decide +kernel) hx hy h

theorem fast2sum_fix_generated (q : QFmt) (r : ℚ → ℚ) (hr : IsRN q r) (x y : ℚ) (hx : Rep q x) (hy : Rep q y)
    (hxy : |y| ≤ |x|) :
    (|r (r (x + y) - x)| ≤ maxRat binary32 →
      add_2sum_fast_fix_f32.evalQ r [x, y] = some [r (x + y), x + y - r (x + y)]) ∧
    (|r (r (x + y) - x)| ≤ maxRat binary16 →
      add_2sum_fast_fix_f16.evalQ r [x, y] = some [r (x + y), x + y - r (x + y)]) ∧
    (|r (r (x + y) - x)| ≤ maxRat binary64 →
      add_2sum_fast_fix_f64.evalQ r [x, y] = some [r (x + y), x + y - r (x + y)]) := by
  have t := ties_add_2sum.2.2.2.1
  simp only [List.mem_cons, List.mem_nil_iff, or_false, forall_eq_or_imp, forall_eq] at t
  obtain ⟨⟨a1, a2⟩, ⟨b1, b2⟩, ⟨c1, c2⟩⟩ := t
  have f32 : add_2sum_fast_fix_f32.fmt = binary32 := by decide
  have f16 : add_2sum_fast_fix_f16.fmt = binary16 := by decide
  have f64 : add_2sum_fast_fix_f64.fmt = binary64 := by decide
  refine ⟨fun h => ?_, fun h => ?_, fun h => ?_⟩ <;> unfold Prog.evalQ
  · rw [b1, b2, f32]
    exact fast2sum_fix_overflow q r hr _ x y _ _ _ (by decide +kernel) (by decide +kernel) hx hy hxy h
  · rw [a1, a2, f16]
    exact fast2sum_fix_overflow q r hr _ x y _ _ _ (by decide +kernel) (by decide +kernel) hx hy hxy h
  · rw [c1, c2, f64]
    exact fast2sum_fix_overflow q r hr _ x y _ _ _ (by decide +kernel) (by decide +kernel) hx hy hxy h

/-- **2Sum on bit patterns, end to end.**  For binary16/32/64 (indeed every format with p ≥ 2,
ew ≥ 2) the program traced from the current `add_2sum`, evaluated in the BIT-EXACT softfloat
(the model validated against the machine's arithmetic on every run), returns for all finite
operand patterns x, y — whenever none of its six operations overflows — a pair (s, t) with
value(s) = RNE(x + y) and value(s) + value(t) = value(x) + value(y) exactly.
Chain: softfloat add/sub are correctly rounded (`add_correct`, `sub_correct`), `rne` is a
round-to-nearest (`isRN_rne`), abstract 2Sum theorem (`twosum_exact`). -/
theorem twosum_bit_exact (lib : Libm) (x y : Nat)
    (hx : isFiniteBits binary32 x = true) (hy : isFiniteBits binary32 y = true) :
    let S := FAVerif.FP.add binary32 y x
    let Z := FAVerif.FP.sub binary32 S x
    let A := FAVerif.FP.sub binary32 y Z
    let B := FAVerif.FP.sub binary32 S Z
    let C := FAVerif.FP.sub binary32 x B
    let T := FAVerif.FP.add binary32 A C
    add_2sum_f32.eval lib [x, y] = some [S, T] ∧
    (isFiniteBits binary32 S = true → isFiniteBits binary32 Z = true → isFiniteBits binary32 A = true →
     isFiniteBits binary32 B = true → isFiniteBits binary32 C = true → isFiniteBits binary32 T = true →
     ∃ qx qy qs qt : ℚ, toQ binary32 x = some qx ∧ toQ binary32 y = some qy ∧ toQ binary32 S = some qs ∧
       toQ binary32 T = some qt ∧ qs = rne (qf binary32 (by decide)) (qx + qy) ∧ qs + qt = qx + qy) := by
  intro S Z A B C T
  constructor
  · simp [Prog.eval, add_2sum_f32, evalNodes, evalNode, S, Z, A, B, C, T, binary32]
  · exact twosum_bits binary32 ⟨by decide, by decide⟩ x y hx hy

/-- The same for every format at once, on the specification node list the three regenerated
programs are equal to (`ties_add_2sum`). -/
theorem twosum_bit_exact_any_format (f : Fmt) (hf : 2 ≤ f.p ∧ 2 ≤ f.ew) (x y : Nat)
    (hx : isFiniteBits f x = true) (hy : isFiniteBits f y = true) :
    let S := FAVerif.FP.add f y x
    let Z := FAVerif.FP.sub f S x
    let A := FAVerif.FP.sub f y Z
    let B := FAVerif.FP.sub f S Z
    let C := FAVerif.FP.sub f x B
    let T := FAVerif.FP.add f A C
    isFiniteBits f S = true → isFiniteBits f Z = true → isFiniteBits f A = true →
    isFiniteBits f B = true → isFiniteBits f C = true → isFiniteBits f T = true →
    ∃ qx qy qs qt : ℚ, toQ f x = some qx ∧ toQ f y = some qy ∧ toQ f S = some qs ∧ toQ f T = some qt ∧
      qs = rne (qf f hf.1) (qx + qy) ∧ qs + qt = qx + qy :=
  twosum_bits f ⟨hf.1, hf.2⟩ x y hx hy

/-- Fast2Sum on bit patterns, every format with p ≥ 2, ew ≥ 2. -/
theorem fast2sum_bit_exact_any_format (f : Fmt) (hf : 2 ≤ f.p ∧ 2 ≤ f.ew) (x y : Nat)
    (hx : isFiniteBits f x = true) (hy : isFiniteBits f y = true) :
    let S := FAVerif.FP.add f y x
    let Z := FAVerif.FP.sub f S x
    let T := FAVerif.FP.sub f y Z
    isFiniteBits f S = true → isFiniteBits f Z = true → isFiniteBits f T = true →
    ∃ qx qy qs qt : ℚ, toQ f x = some qx ∧ toQ f y = some qy ∧ toQ f S = some qs ∧ toQ f T = some qt ∧
      (|qy| ≤ |qx| → qs = rne (qf f hf.1) (qx + qy) ∧ qs + qt = qx + qy) :=
  fast2sum_bits f ⟨hf.1, hf.2⟩ x y hx hy

/-- The softfloat primitives are correctly rounded (finite operands, finite result). -/
theorem soft_ops_correctly_rounded (f : Fmt) (hf : 2 ≤ f.p ∧ 2 ≤ f.ew) (a b : Nat) (s t : Bool) (m n : Nat) (e e' : Int)
    (ha : decode f a = .fin s m e) (hb : decode f b = .fin t n e') :
    (isFiniteBits f (FAVerif.FP.add f a b) = true →
      toQ f (FAVerif.FP.add f a b) = some (rne (qf f hf.1) (valQ s m e + valQ t n e'))) ∧
    (isFiniteBits f (FAVerif.FP.sub f a b) = true →
      toQ f (FAVerif.FP.sub f a b) = some (rne (qf f hf.1) (valQ s m e - valQ t n e'))) ∧
    (isFiniteBits f (FAVerif.FP.mul f a b) = true →
      toQ f (FAVerif.FP.mul f a b) = some (rne (qf f hf.1) (valQ s m e * valQ t n e'))) ∧
    IsRN (qf f hf.1) (rne (qf f hf.1)) :=
  ⟨add_correct f ⟨hf.1, hf.2⟩ a b s t m n e e' ha hb, sub_correct f ⟨hf.1, hf.2⟩ a b s t m n e e' ha hb,
   mul_correct f ⟨hf.1, hf.2⟩ a b s t m n e e' ha hb, isRN_rne _⟩

/-- Division of the softfloat is correctly rounded as well (sticky-bit path): finite operands,
non-zero divisor, finite result ⇒ value = rne (x / y). -/
theorem soft_div_correctly_rounded (f : Fmt) (hf : 2 ≤ f.p ∧ 2 ≤ f.ew) (a b : Nat) (s t : Bool) (m n : Nat) (e e' : Int)
    (ha : decode f a = .fin s m e) (hb : decode f b = .fin t n e') (hn : n ≠ 0)
    (hfin : isFiniteBits f (FAVerif.FP.div f a b) = true) :
    toQ f (FAVerif.FP.div f a b) = some (rne (qf f hf.1) (valQ s m e / valQ t n e')) :=
  div_correct f ⟨hf.1, hf.2⟩ a b s t m n e e' ha hb hn hfin

/-- Every regenerated program is well formed (arguments refer to earlier nodes, inputs in range). -/
theorem generated_wf : ∀ p ∈ FAVerif.Gen.C10.all, p.2.wf = true := by decide +kernel

/-! Non-vacuity: the hypotheses are satisfiable — binary32-like format, x = 1, y = 2^-24
(a tie), r = round-to-nearest exists abstractly; concretely `Rep` holds for both operands. -/
example : Rep ⟨24, -149, by decide⟩ (1 : ℚ) := ⟨1, 0, by norm_num, by norm_num, by norm_num⟩
example : Rep ⟨24, -149, by decide⟩ ((2 : ℚ) ^ (-24 : ℤ)) := ⟨1, -24, by norm_num, by norm_num, by norm_num⟩

end FAVerif.Props.C10
