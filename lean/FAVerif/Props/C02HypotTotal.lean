/-
C02 — `hypot` on BIT PATTERNS with NO assumption about the run: for all finite operand patterns in the box
2^(emin+p) ≤ max(|x|,|y|) ≤ Lmax/2 (Lmax = the largest finite value) the bit-exact run of the regenerated program exists,
no node overflows, and the result is within 3.51 u of √(x²+y²).  (The conditional form — "whenever no float node is
non-finite" — is `hypot_bit_level_f32/f64`; here finiteness is PROVED from the box through the forward refinement theorem.)
-/
import FAVerif.Props.C02HypotBits
import FAVerif.Lemmas.HypotTotal

namespace FAVerif.Props.C02
open FAVerif.IR FAVerif.FP FAVerif.FPQ FAVerif.Gen.C02 FAVerif.Spec FAVerif.EFT FAVerif.Refine FAVerif.SoftRound

/-- the largest finite values -/
theorem Lmax_values : Lmax binary32 = ((2 : ℚ) ^ 24 - 1) * 2 ^ (104 : ℤ) ∧ Lmax binary64 = ((2 : ℚ) ^ 53 - 1) * 2 ^ (971 : ℤ) := by
  constructor <;> rfl

theorem Lmax_ge4 : 4 ≤ Lmax binary32 ∧ 4 ≤ Lmax binary64 := by
  obtain ⟨h1, h2⟩ := Lmax_values
  constructor
  · rw [h1]
    have : (1 : ℚ) ≤ 2 ^ (104 : ℤ) := one_le_zpow₀ (by norm_num) (by norm_num)
    have h3 : (4 : ℚ) ≤ 2 ^ 24 - 1 := by norm_num
    calc (4 : ℚ) = 4 * 1 := by ring
      _ ≤ (2 ^ 24 - 1) * 2 ^ (104 : ℤ) := mul_le_mul h3 this (by norm_num) (by linarith)
  · rw [h2]
    have : (1 : ℚ) ≤ 2 ^ (971 : ℤ) := one_le_zpow₀ (by norm_num) (by norm_num)
    have h3 : (4 : ℚ) ≤ 2 ^ 53 - 1 := by norm_num
    calc (4 : ℚ) = 4 * 1 := by ring
      _ ≤ (2 ^ 53 - 1) * 2 ^ (971 : ℤ) := mul_le_mul h3 this (by norm_num) (by linarith)

/-- **forward refinement** (every program of the arithmetic/comparison/select/sqrt fragment): if the ℚ-run is defined and
every float node of it stays within ±Lmax, the bit-exact run is defined, finite everywhere, and refines it. -/
theorem soft_refines_rational_forward (f : Fmt) (hf : WF f) (hL : 4 ≤ Lmax f) (S0 : ℚ → ℚ) (lib : Libm) (ins : List Nat) (insQ : List ℚ)
    (hins : InsRel f ins insQ) (nodes : List Node) (kinds : List Bool) (envQ : List ℚ)
    (hk : kindsOfS nodes [] = some kinds)
    (hq : evalNodesQS f (rne (qf f hf.hp)) (Ssoft f S0) insQ nodes [] = some envQ)
    (hb : ∀ (i : Nat) (q : ℚ), envQ[i]? = some q → kinds[i]? = some false → |q| ≤ Lmax f) :
    ∃ env, evalNodes f lib ins nodes #[] = some env ∧ Inv f kinds env envQ ∧
      (∀ (i : Nat) (v : Nat), env[i]? = some v → kinds[i]? = some false → isFiniteBits f v = true) := by
  have hinv0 : Inv f [] #[] [] := ⟨rfl, rfl, fun i k hk => by simp at hk⟩
  obtain ⟨env, h1, h2⟩ := fwdS hf hL S0 lib ins insQ hins nodes [] kinds #[] [] envQ hinv0 hk hq hb
  exact ⟨env, h1, h2, inv_finite h2⟩

theorem hypot_total_f32 (lib : Libm) (x y : Nat) (qx qy : ℚ) (hx : isFiniteBits binary32 x = true) (hy : isFiniteBits binary32 y = true)
    (vx : toQ binary32 x = some qx) (vy : toQ binary32 y = some qy)
    (hlo : 2 ^ (-125 : ℤ) ≤ max |qx| |qy|) (hhi : max |qx| |qy| ≤ Lmax binary32 / 2) :
    ∃ (o : Nat) (H : ℚ), hypot_f32.eval lib [x, y] = some [o] ∧ isFiniteBits binary32 o = true ∧ toQ binary32 o = some H ∧ 0 ≤ H ∧
      (1 - (1 : ℚ) / 2 ^ 24) ^ 7 * (qx ^ 2 + qy ^ 2) ≤ H ^ 2 ∧ H ^ 2 ≤ (1 + (1 : ℚ) / 2 ^ 24) ^ 7 * (qx ^ 2 + qy ^ 2) := by
  obtain ⟨c1, c2, c3, c4, -, -, -, -⟩ := hypot_constants
  obtain ⟨b1, b2, -, -⟩ := sqrt2_bounds
  obtain ⟨t1, t2, t3, -, -, -⟩ := ties_hypot
  exact hypot_total_of hypot_f32 ⟨by decide, by decide⟩ (by decide) (by decide) Lmax_ge4.1 _ _ _ _ sqrt2_f32 t1 t2 hypot_kinds.1
    c1 c2 c3 c4 (by unfold sqrt2_f32; norm_num) (by exact b1) (by exact b2) lib x y qx qy hx hy vx vy hlo hhi

theorem hypot_total_f64 (lib : Libm) (x y : Nat) (qx qy : ℚ) (hx : isFiniteBits binary64 x = true) (hy : isFiniteBits binary64 y = true)
    (vx : toQ binary64 x = some qx) (vy : toQ binary64 y = some qy)
    (hlo : 2 ^ (-1021 : ℤ) ≤ max |qx| |qy|) (hhi : max |qx| |qy| ≤ Lmax binary64 / 2) :
    ∃ (o : Nat) (H : ℚ), hypot_f64.eval lib [x, y] = some [o] ∧ isFiniteBits binary64 o = true ∧ toQ binary64 o = some H ∧ 0 ≤ H ∧
      (1 - (1 : ℚ) / 2 ^ 53) ^ 7 * (qx ^ 2 + qy ^ 2) ≤ H ^ 2 ∧ H ^ 2 ≤ (1 + (1 : ℚ) / 2 ^ 53) ^ 7 * (qx ^ 2 + qy ^ 2) := by
  obtain ⟨-, -, -, -, c1, c2, c3, c4⟩ := hypot_constants
  obtain ⟨-, -, b1, b2⟩ := sqrt2_bounds
  obtain ⟨-, -, -, t1, t2, t3⟩ := ties_hypot
  exact hypot_total_of hypot_f64 ⟨by decide, by decide⟩ (by decide) (by decide) Lmax_ge4.2 _ _ _ _ sqrt2_f64 t1 t2 hypot_kinds.2
    c1 c2 c3 c4 (by unfold sqrt2_f64; norm_num) (by exact b1) (by exact b2) lib x y qx qy hx hy vx vy hlo hhi

end FAVerif.Props.C02
