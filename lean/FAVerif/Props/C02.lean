/-
C02 — real algorithms.  Theorems about the regenerated programs; the ULP bounds of the
libm-based functions are decided by search (fav/props/c02.py).
-/
import FAVerif.Generated.C02
import FAVerif.Lemmas.Refine

namespace FAVerif.Props.C02
open FAVerif.IR FAVerif.FP FAVerif.FPQ FAVerif.Gen.C02 FAVerif.SoftRound FAVerif.Refine

theorem generated_wf : ∀ p ∈ FAVerif.Gen.C02.all, p.2.wf = true := by decide +kernel

/-- Real `square` is one IEEE multiplication `x * x`: for EVERY input pattern the result is the
correctly rounded square (0 ULP by definition of IEEE-754 multiplication), for both formats. -/
theorem square_is_mul (lib : Libm) (x : Nat) :
    square_f32.eval lib [x] = some [FAVerif.FP.mul binary32 x x] ∧
    square_f64.eval lib [x] = some [FAVerif.FP.mul binary64 x x] := by
  constructor <;> simp [Prog.eval, square_f32, square_f64, evalNodes, evalNode, binary32, binary64]

/-- Real `absolute` clears the sign bit: exact for every input pattern. -/
theorem absolute_is_abs (lib : Libm) (x : Nat) :
    absolute_f32.eval lib [x] = some [FAVerif.FP.abs binary32 x] ∧
    absolute_f64.eval lib [x] = some [FAVerif.FP.abs binary64 x] := by
  constructor <;> simp [Prog.eval, absolute_f32, absolute_f64, evalNodes, evalNode, binary32, binary64]

/-- Exact limits of square / absolute at ±0 and ±∞ in the bit-exact model. -/
theorem limits_square_absolute :
    FAVerif.FP.mul binary32 0 0 = 0 ∧ FAVerif.FP.mul binary32 0x80000000 0x80000000 = 0 ∧
    FAVerif.FP.mul binary32 0x7f800000 0x7f800000 = 0x7f800000 ∧ FAVerif.FP.mul binary32 0xff800000 0xff800000 = 0x7f800000 ∧
    FAVerif.FP.abs binary32 0x80000000 = 0 ∧ FAVerif.FP.abs binary32 0xff800000 = 0x7f800000 ∧
    FAVerif.FP.mul binary64 0x8000000000000000 0x8000000000000000 = 0 ∧
    FAVerif.FP.mul binary64 0xfff0000000000000 0xfff0000000000000 = 0x7ff0000000000000 ∧
    FAVerif.FP.abs binary64 0x8000000000000000 = 0 ∧ FAVerif.FP.abs binary64 0xfff0000000000000 = 0x7ff0000000000000 := by
  decide +kernel

/-- **Real `square` is correctly rounded** (0 ULP): for every finite input pattern whose square does not
overflow, the generated program returns the pattern of RNE(x²) — float32 and float64. -/
theorem square_correctly_rounded (lib : Libm) (x : Nat) :
    (∀ s m e, decode binary32 x = .fin s m e → ∀ o, square_f32.eval lib [x] = some [o] → isFiniteBits binary32 o = true →
      toQ binary32 o = some (rne (qf binary32 (by decide)) (valQ s m e * valQ s m e))) ∧
    (∀ s m e, decode binary64 x = .fin s m e → ∀ o, square_f64.eval lib [x] = some [o] → isFiniteBits binary64 o = true →
      toQ binary64 o = some (rne (qf binary64 (by decide)) (valQ s m e * valQ s m e))) := by
  obtain ⟨h32, h64⟩ := square_is_mul lib x
  constructor
  · intro s m e hd o ho hfin
    rw [h32] at ho
    simp only [Option.some.injEq, List.cons.injEq, and_true] at ho
    subst ho
    exact mul_correct binary32 ⟨by decide, by decide⟩ x x s s m m e e hd hd hfin
  · intro s m e hd o ho hfin
    rw [h64] at ho
    simp only [Option.some.injEq, List.cons.injEq, and_true] at ho
    subst ho
    exact mul_correct binary64 ⟨by decide, by decide⟩ x x s s m m e e hd hd hfin

/-- **Real `absolute` is exact** for every finite input: the value of the result is |value of x|. -/
theorem absolute_exact (lib : Libm) (x : Nat) :
    (∀ q, isFiniteBits binary32 x = true → toQ binary32 x = some q → ∀ o, absolute_f32.eval lib [x] = some [o] →
      isFiniteBits binary32 o = true ∧ toQ binary32 o = some (if q < 0 then -q else q)) ∧
    (∀ q, isFiniteBits binary64 x = true → toQ binary64 x = some q → ∀ o, absolute_f64.eval lib [x] = some [o] →
      isFiniteBits binary64 o = true ∧ toQ binary64 o = some (if q < 0 then -q else q)) := by
  obtain ⟨h32, h64⟩ := absolute_is_abs lib x
  constructor
  · intro q hfin hq o ho
    rw [h32] at ho
    simp only [Option.some.injEq, List.cons.injEq, and_true] at ho
    subst ho
    exact abs_val ⟨by decide, by decide⟩ hfin hq
  · intro q hfin hq o ho
    rw [h64] at ho
    simp only [Option.some.injEq, List.cons.injEq, and_true] at ho
    subst ho
    exact abs_val ⟨by decide, by decide⟩ hfin hq

end FAVerif.Props.C02
