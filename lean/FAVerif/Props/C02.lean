/-
C02 — real algorithms.  Theorems about the regenerated programs; the ULP bounds of the
libm-based functions are decided by search (fav/props/c02.py).
-/
import FAVerif.Generated.C02

namespace FAVerif.Props.C02
open FAVerif.IR FAVerif.FP FAVerif.Gen.C02

theorem generated_wf : ∀ p ∈ FAVerif.Gen.C02.all, p.2.wf = true := by decide +kernel

/-- Real `square` is one IEEE multiplication `x * x`: for EVERY input pattern the result is the
correctly rounded square (0 ULP by definition of IEEE-754 multiplication), for both formats. -/
theorem square_is_mul (lib : Libm) (x : Nat) :
    square_f32.eval lib [x] = some [FAVerif.FP.mul binary32 x x] ∧
    square_f64.eval lib [x] = some [FAVerif.FP.mul binary64 x x] := by
  constructor <;> simp [Prog.eval, square_f32, square_f64, evalNodes, evalNode, binary32, binary64]

/-- Real `absolute` clears the sign bit: exact for every input pattern. -/
theorem absolute_is_abs (lib : Libm) (x : Nat) :
    absolute_f32.eval lib [x] = some [FAVerif.FP.abs binary32 x] ∧
    absolute_f64.eval lib [x] = some [FAVerif.FP.abs binary64 x] := by
  constructor <;> simp [Prog.eval, absolute_f32, absolute_f64, evalNodes, evalNode, binary32, binary64]

/-- Exact limits of square / absolute at ±0 and ±∞ in the bit-exact model. -/
theorem limits_square_absolute :
    FAVerif.FP.mul binary32 0 0 = 0 ∧ FAVerif.FP.mul binary32 0x80000000 0x80000000 = 0 ∧
    FAVerif.FP.mul binary32 0x7f800000 0x7f800000 = 0x7f800000 ∧ FAVerif.FP.mul binary32 0xff800000 0xff800000 = 0x7f800000 ∧
    FAVerif.FP.abs binary32 0x80000000 = 0 ∧ FAVerif.FP.abs binary32 0xff800000 = 0x7f800000 ∧
    FAVerif.FP.mul binary64 0x8000000000000000 0x8000000000000000 = 0 ∧
    FAVerif.FP.mul binary64 0xfff0000000000000 0xfff0000000000000 = 0x7ff0000000000000 ∧
    FAVerif.FP.abs binary64 0x8000000000000000 = 0 ∧ FAVerif.FP.abs binary64 0xfff0000000000000 = 0x7ff0000000000000 := by
  decide +kernel

end FAVerif.Props.C02
