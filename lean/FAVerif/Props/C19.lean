/-
C19 — sample generators cover exactly the requested range, ULP-uniformly.
Only property statements, their proofs' top level, negation witnesses and non-vacuity examples live
here.  The model is `FAVerif.Samples.realSamples c p` (`c : Cfg` = dtype, `p : Params` = arguments of
`utils.real_samples`), values are bit patterns; `(resolveBounds c p) = (lo, hi)` are `min_value`,
`max_value` after defaulting and after the subnormal adjustment the property permits.

Where the full statement is false of the code as written it is kept in a comment, the `_partial`
theorem carries the exact side condition, and a `witness_*` theorem (a concrete input, `decide`) shows
the full statement failing on the model; the same inputs are replayed on the real code by the harness
(corpus/C19/witnesses.json).
-/
import FAVerif.Lemmas.Samples

namespace FAVerif.Props.C19
open FAVerif.Samples FAVerif.FP

/-- The three dtypes satisfy the well-formedness assumptions under which everything below is proved
(finite check, `decide`). -/
theorem cfg_wf : cfg16.WF ∧ cfg32.WF ∧ cfg64.WF := cfg_wf'

/-- The model's value ordinal is the shared `FP.ord` on every pattern of the format. -/
theorem key_eq_ord (f : Fmt) (cap b : Nat) (hb : b < 2 * f.signBit) : key (Cfg.ofFmt f cap) b = ord f b :=
  key_eq_ord' f cap b hb

/-- **step** (the stepping core, every size `n ≥ 2`, every start and step): the sequence
`s i = start + ⌊i·step/(n−1)⌋` starts at `start`, ends at `start + step` (= end), is non-decreasing,
is strictly increasing iff `step ≥ n−1`, and any two consecutive gaps differ by at most one (the
ULP-uniformity clause); and it is what the comprehension in `real_samples` computes whenever
`end` does not wrap. -/
theorem step (c : Cfg) (start stp n : Nat) (hn : 2 ≤ n) :
    seqAt start stp n 0 = start ∧
    seqAt start stp n (n - 1) = start + stp ∧
    (∀ i j, i ≤ j → seqAt start stp n i ≤ seqAt start stp n j) ∧
    ((∀ i, i + 1 < n → seqAt start stp n i < seqAt start stp n (i + 1)) ↔ n - 1 ≤ stp) ∧
    (∀ i j, seqAt start stp n (i + 1) - seqAt start stp n i ≤ seqAt start stp n (j + 1) - seqAt start stp n j + 1) ∧
    (start + stp < c.modulus →
      stepVals c start stp (n : Int) = .ok ((List.range n).map (seqAt start stp n))) :=
  ⟨seqAt_zero _ _ _, seqAt_last _ _ _ hn, fun _ _ h => seqAt_mono _ _ _ h, seqAt_strict_iff _ _ _ hn,
   fun i j => seqAt_gaps _ _ _ i j hn, fun h => by
     have := stepVals_ok c start stp (n : Int) (by omega) h
     simpa [steps] using this⟩

/-- **fuel_enough**: `real_samples` recurses at most one level deep (every fuel ≥ 2 gives the result of
`realSamples`), and the model artefact `Err.fuel` is never returned — for every input. -/
theorem fuel_enough (c : Cfg) (hwf : c.WF) (p : Params) :
    (∀ k, realSamplesF c (k + 2) p = realSamples c p) ∧ realSamples c p ≠ .error .fuel :=
  ⟨fun k => fuel_enough' c hwf k p, no_fuel_error c hwf p⟩

/-- **no_subnormal** (every input, including the defective ones): without `include_subnormal` no
returned sample is subnormal. -/
theorem no_subnormal (c : Cfg) (hwf : c.WF) (p : Params) (L : List Nat) (h : realSamples c p = .ok L)
    (hs : p.includeSubnormal = false) : ∀ x ∈ L, isSubnormal c x = false :=
  no_subnormal_all c hwf 1 p L h hs

/-- **sorted_unique** (every input): with `unique=True` the returned array is strictly increasing in
value (NaN, if any, last and alone). -/
theorem sorted_unique (c : Cfg) (p : Params) (L : List Nat) (h : realSamples c p = .ok L) (hu : p.unique = true) :
    StrictSorted c L :=
  sorted_unique_all c 1 p L h hu

/- **total** — full statement, FALSE of the code as written:
     `∀ p, 2 ≤ p.size → ¬ (max < min) → ∃ L, realSamples c p = .ok L`
   (see `witness_straddle_error`; and `witness_size1` for size 1). -/
/-- **total_partial**: the call returns a value when (a) no bounds are given and `size ≥ 6` (the documented
minimum), (b) the bounds are equal (any size), (c) the input is `Sane`: bounds of equal sign with at least two
samples requested, or bounds straddling zero with at least two samples apportioned to each side. -/
theorem total_partial (c : Cfg) (hwf : c.WF) (p : Params) :
    (p.userBounds = false → 6 ≤ p.size → ∃ L, realSamples c p = .ok L) ∧
    (feq c (resolveBounds c p).1 (resolveBounds c p).2 = true → realSamples c p = .ok [(resolveBounds c p).1]) ∧
    (Sane c p → ∃ L, realSamples c p = .ok L) :=
  ⟨fun hub hs => (outcome_unbounded' c hwf 1 p hub).2.2 (numOf_unbounded_ge c hwf p hub hs),
   fun h => equal_bounds c 1 p h,
   fun h => by obtain ⟨L, _, _, e, _⟩ := bounded_main c hwf p h; exact ⟨L, e⟩⟩

/-- **outcome_same_sign**: bounds of equal sign (`0 ≤ lo < hi` or `lo < hi ≤ -0`), `num = min(size, cap)`:
`num = 1` raises ZeroDivisionError, `num = 0` returns the empty array, `num < 0` raises AssertionError
(`num ≥ 2` succeeds by `total_partial`). -/
theorem outcome_same_sign (c : Cfg) (hwf : c.WF) (p : Params) (hub : p.userBounds = true)
    (h : SamePos c (resolveBounds c p).1 (resolveBounds c p).2 ∨ SameNeg c (resolveBounds c p).1 (resolveBounds c p).2) :
    (numOf c p = 1 → realSamples c p = .error .zeroDivision) ∧
    (numOf c p = 0 → realSamples c p = .ok []) ∧
    (numOf c p < 0 → realSamples c p = .error .assertion) :=
  outcome_same_sign' c hwf 1 p hub _ _ rfl h

/-- **outcome_unbounded**: no bounds given: `num = 1` raises ZeroDivisionError, `num ≤ 0` raises IndexError,
`num ≥ 2` succeeds (`num` is `size // 2` unless `nonnegative`, minus one if `include_infinity`). -/
theorem outcome_unbounded (c : Cfg) (hwf : c.WF) (p : Params) (hub : p.userBounds = false) :
    (numOf c p = 1 → realSamples c p = .error .zeroDivision) ∧
    (numOf c p ≤ 0 → realSamples c p = .error .index) ∧
    (2 ≤ numOf c p → ∃ L, realSamples c p = .ok L) :=
  outcome_unbounded' c hwf 1 p hub

/-- **outcome_straddle**: bounds straddling zero, `(n1, n2) = (neg_num, pos_num)` of the apportioning: a side
that receives exactly one sample raises ZeroDivisionError, a negative count raises AssertionError, counts
`0` or `≥ 2` on both sides succeed (with count `0` that side, bound included, is missing from the result). -/
theorem outcome_straddle (c : Cfg) (hwf : c.WF) (p : Params) (hub : p.userBounds = true)
    (h : Straddle c (resolveBounds c p).1 (resolveBounds c p).2) :
    let n1 := (apportion c p (resolveBounds c p).1 (resolveBounds c p).2).1
    let n2 := (apportion c p (resolveBounds c p).1 (resolveBounds c p).2).2
    (n1 = 1 → realSamples c p = .error .zeroDivision) ∧
    (n1 < 0 → realSamples c p = .error .assertion) ∧
    ((n1 = 0 ∨ 2 ≤ n1) → n2 = 1 → realSamples c p = .error .zeroDivision) ∧
    ((n1 = 0 ∨ 2 ≤ n1) → n2 < 0 → realSamples c p = .error .assertion) ∧
    ((n1 = 0 ∨ 2 ≤ n1) → (n2 = 0 ∨ 2 ≤ n2) → ∃ L, realSamples c p = .ok L) :=
  outcome_straddle' c hwf p hub _ _ rfl h (resolve_fl c hwf p).1 (resolve_fl c hwf p).2

/- **within** — full statement, FALSE of the code as written:
     `realSamples c p = .ok L → bounds are numbers with lo < hi → ∀ x ∈ L, lo ≤ x ≤ hi`   (see `witness_zero_sign`). -/
/-- **within_partial**: EVERY successful call with user bounds in a `Regime` (numbers with `lo < hi`, excluding exactly
the two shapes with a zero bound of the wrong sign, `min_value = -0.0 < max_value` and `min_value < max_value = +0.0`)
returns only samples `x` with `lo ≤ x ≤ hi` as floats (in particular no NaN), whatever the size. -/
theorem within_partial (c : Cfg) (hwf : c.WF) (p : Params) (hub : p.userBounds = true) (hreg : Regime c p)
    (L : List Nat) (hL : realSamples c p = .ok L) :
    ∀ x ∈ L, fle c (resolveBounds c p).1 x = true ∧ fle c x (resolveBounds c p).2 = true := by
  obtain ⟨_, _, r, _⟩ := range_main c hwf p hub hreg L hL
  have hn := regime_not_nan c hwf _ _ hreg
  exact fun x hx => fle_of_range c hwf hn.1 hn.2 (r.range x hx)

/- **contains_bounds** — full statement, FALSE of the code as written:
     `realSamples c p = .ok L → 2 ≤ size → lo < hi → lo ∈ L ∧ hi ∈ L`   (see `witness_straddle_missing_bound`). -/
/-- **contains_bounds_partial**: on `Sane` inputs the result contains a sample equal (as a float) to `lo`, one
equal to `hi`, and — bounds straddling zero with `include_zero` — a zero. -/
theorem contains_bounds_partial (c : Cfg) (hwf : c.WF) (p : Params) (h : Sane c p) :
    ∃ L, realSamples c p = .ok L ∧
      (∃ y ∈ L, feq c y (resolveBounds c p).1 = true) ∧ (∃ y ∈ L, feq c y (resolveBounds c p).2 = true) ∧
      (Straddle c (resolveBounds c p).1 (resolveBounds c p).2 → p.includeZero = true → ∃ z ∈ L, isZero c z = true) := by
  obtain ⟨L, _, _, e, r, _, z⟩ := bounded_main c hwf p h
  have hn := regime_not_nan c hwf _ _ (by
    rcases h.2 with ⟨h | h, _⟩ | ⟨h, _⟩
    · exact Or.inl h
    · exact Or.inr (Or.inl h)
    · exact Or.inr (Or.inr h))
  obtain ⟨y1, hy1, k1⟩ := r.has_lo
  obtain ⟨y2, hy2, k2⟩ := r.has_hi
  refine ⟨L, e, ⟨y1, hy1, feq_of_skey c hwf hn.1 k1⟩, ⟨y2, hy2, feq_of_skey c hwf hn.2 k2⟩, ?_⟩
  intro hs hz
  obtain ⟨w, hw, kw⟩ := z hs hz
  refine ⟨w, hw, ?_⟩
  have := hwf.inf_sb
  rcases skey_cases c w with ⟨_, _, _, ew⟩ | ⟨_, _, _, ew⟩ | ⟨h1, _, _, ew⟩ | ⟨_, _, _, ew⟩
  · have : w = 0 := by omega
    subst this; simp [isZero, mag]
  · omega
  · have : w = c.sb := by omega
    subst this; simp [isZero, mag]
  · omega

/- **sorted (unique=False)** — full statement, FALSE of the code as written:
     `realSamples c p = .ok L → L is non-decreasing`   (see `witness_nonunique_unsorted`: no bounds given). -/
/-- **sorted_nonunique_partial**: every successful call with user bounds in a `Regime` returns a non-decreasing array
whatever `unique` is (with `unique` it is strictly increasing by `sorted_unique`). -/
theorem sorted_nonunique_partial (c : Cfg) (hwf : c.WF) (p : Params) (hub : p.userBounds = true) (hreg : Regime c p)
    (L : List Nat) (hL : realSamples c p = .ok L) : Sorted c L := by
  obtain ⟨_, _, r, _⟩ := range_main c hwf p hub hreg L hL
  exact r.sorted

/-- **uniform_partial** (the equal-spacing clause on the returned array; every successful call with user bounds in a
`Regime`): there are gaps `qn`, `qp` such that any two *adjacent* returned samples that are both negative finite nonzero
differ by `qn` or `qn + 1` units in the last place (bit patterns), and both positive finite nonzero by `qp` or `qp + 1`. -/
theorem uniform_partial (c : Cfg) (hwf : c.WF) (p : Params) (hub : p.userBounds = true) (hreg : Regime c p)
    (L : List Nat) (hL : realSamples c p = .ok L) : ∃ qn qp, Adj (Gap c qn qp) L := by
  obtain ⟨qn, qp, r, _⟩ := range_main c hwf p hub hreg L hL
  exact ⟨qn, qp, r.gaps⟩

/-- **within_unbounded / contains_unbounded** (no bounds given, `num ≥ 2`, e.g. `size ≥ 6`): every sample is one
of the requested special values (`extras`: −inf, 0, +inf, NaN as requested) or finite with
`min_pos ≤ |x| ≤ max`, non-negative when `nonnegative`; `max` and `min_pos` are present, their negatives unless
`nonnegative`, every requested special value, and — for `num > 3` — the next-to-largest value `huge` (and `−huge`). -/
theorem within_unbounded (c : Cfg) (hwf : c.WF) (p : Params) (hub : p.userBounds = false) (hn : 2 ≤ numOf c p) :
    ∃ L, realSamples c p = .ok L ∧
      (∀ x ∈ L, x ∈ extras c p ∨ (minPos c p ≤ mag c x ∧ mag c x ≤ c.maxFin ∧ (p.nonnegative = true → x < c.sb))) := by
  obtain ⟨L, e, w, _⟩ := unbounded_spec c hwf 1 p hub hn
  exact ⟨L, e, w⟩

/- **contains huge** — full statement, FALSE of the code as written:
     `include_huge → size ≥ 6 → huge ∈ L`   (see `witness_huge_skipped`: the patch is skipped for `num ≤ 3`). -/
theorem contains_unbounded (c : Cfg) (hwf : c.WF) (p : Params) (hub : p.userBounds = false) (hn : 2 ≤ numOf c p) :
    ∃ L, realSamples c p = .ok L ∧
      (c.maxFin ∈ L ∧ minPos c p ∈ L) ∧
      (p.nonnegative = false → negB c c.maxFin ∈ L ∧ negB c (minPos c p) ∈ L) ∧
      (∀ e ∈ extras c p, ∃ y ∈ L, skey c y = skey c e) ∧
      (p.includeHuge = true → 3 < numOf c p →
        c.maxFin - 1 ∈ L ∧ (p.nonnegative = false → negB c (c.maxFin - 1) ∈ L)) := by
  obtain ⟨L, e, _, a, b, d, g, _⟩ := unbounded_spec c hwf 1 p hub hn
  exact ⟨L, e, a, b, d, g⟩

/-- **products_pair**: `real_pair_samples` (no `target_func`) on 1-D lists `s1`, `s2`: the k-th pair is
`(s1[k mod |s1|], s2[k div |s1|])`, i.e. the two returned arrays zipped are the Cartesian product with `s1`
varying fastest; both have `|s1|·|s2|` elements. -/
theorem products_pair {α} (s1 s2 : List α) :
    (pairSamples s1 s2).1.zip (pairSamples s1 s2).2 = s2.flatMap (fun b => s1.map (fun a => (a, b))) ∧
    (pairSamples s1 s2).1.length = s1.length * s2.length ∧ (pairSamples s1 s2).2.length = s1.length * s2.length :=
  pair_product s1 s2

/-- **products_triple**: `real_triple_samples` (no `target_func`): the three returned arrays zipped are the
Cartesian product with `s3` varying fastest and `s1` slowest; each has `|s1|·|s2|·|s3|` elements. -/
theorem products_triple {α} (s1 s2 s3 : List α) :
    (tripleSamples s1 s2 s3).1.zip ((tripleSamples s1 s2 s3).2.1.zip (tripleSamples s1 s2 s3).2.2) =
      s1.flatMap (fun a => s2.flatMap (fun b => s3.map (fun c => (a, b, c)))) ∧
    (tripleSamples s1 s2 s3).1.length = s1.length * s2.length * s3.length ∧
    (tripleSamples s1 s2 s3).2.1.length = s1.length * s2.length * s3.length ∧
    (tripleSamples s1 s2 s3).2.2.length = s1.length * s2.length * s3.length :=
  triple_product s1 s2 s3

/- **products_complex** — full statement, FALSE of the code as written:
     `complexGrid c re im = im.map (fun y => re.map (fun x => (x, y)))`   (see `witness_complex_neg_zero`). -/
/-- **products_complex_partial**: `complex_samples`: row `j`, column `i` holds `(re[i] + 0.0, 0.0 + im[j])`; when no
1-D sample is `-0.0` this is exactly the Cartesian product `(re[i], im[j])`. -/
theorem products_complex_partial (c : Cfg) (re im : List Nat) :
    complexGrid c re im = im.map (fun y => re.map (fun x => (addZero c x, addZero c y))) ∧
    ((∀ x ∈ re, x ≠ c.negZero) → (∀ y ∈ im, y ≠ c.negZero) →
      complexGrid c re im = im.map (fun y => re.map (fun x => (x, y)))) :=
  ⟨complexGrid_eq c re im, complexGrid_product c re im⟩

/-- **products_complex_pair**: `complex_pair_samples` on rectangular grids `m1×n1`, `m2×n2`: entry `(i, j)` of the
first result is entry `(i mod m1, j mod n1)` of the first grid and of the second result entry
`(i div m1, j div n1)` of the second grid; `(i, j) ↦ ((i mod m1, j mod n1), (i div m1, j div n1))` enumerates
the Cartesian product of the two grids. -/
theorem products_complex_pair {α} (g1 g2 : List (List α)) (n1 n2 : Nat)
    (h1 : ∀ r ∈ g1, r.length = n1) (h2 : ∀ r ∈ g2, r.length = n2)
    (hg1 : g1 ≠ []) (hg2 : g2 ≠ []) (hn1 : 0 < n1) (i j : Nat) (hi : i < g1.length * g2.length) (hj : j < n1 * n2) :
    ((complexPairGrid g1 g2).1[i]?.bind (·[j]?)) = (g1[i % g1.length]?.bind (·[j % n1]?)) ∧
    ((complexPairGrid g1 g2).2[i]?.bind (·[j]?)) = (g2[i / g1.length]?.bind (·[j / n1]?)) :=
  complexPair_index g1 g2 n1 n2 h1 h2 hg1 hg2 hn1 i j hi hj

/-! ## Negation witnesses (concrete inputs, float16 unless stated; replayed on the real code) -/

/-- `real_samples(size=1, dtype=float16, min_value=1.0, max_value=2.0)` raises ZeroDivisionError
(`i // (num - 1)` with `num == 1`). -/
theorem witness_size1 :
    realSamples cfg16 { size := 1, minValue := some 0x3c00, maxValue := some 0x4000 } = .error .zeroDivision := by
  decide

/-- A zero bound of the opposite sign makes the integer-view stepping wrap through the other half-line:
`real_samples(size=5, dtype=float16, min_value=-1.0, max_value=+0.0)` returns `[-1, -0.000305, 0, 0.1094, 384]`
(384 > max_value), and `min_value=-0.0, max_value=1.0` returns `[-384, -0.1094, -0, 0.000305, 1]`. -/
theorem witness_zero_sign :
    realSamples cfg16 { size := 5, minValue := some 0xbc00, maxValue := some 0x0000 } =
      .ok [0xbc00, 0x8d00, 0x0000, 0x2f00, 0x5e00] ∧ fle cfg16 0x5e00 0x0000 = false ∧
    realSamples cfg16 { size := 5, minValue := some 0x8000, maxValue := some 0x3c00 } =
      .ok [0xde00, 0xaf00, 0x8000, 0x0d00, 0x3c00] ∧ fle cfg16 0x8000 0xde00 = false := by
  decide

/-- Bounds straddling zero, one side apportioned a single sample:
`real_samples(size=4, dtype=float16, min_value=-1.0, max_value=1.0)` raises ZeroDivisionError
(`neg_num = 2`, `pos_num = 4 - 2 - 1 = 1`). -/
theorem witness_straddle_error :
    apportion cfg16 { size := 4, minValue := some 0xbc00, maxValue := some 0x3c00 } 0xbc00 0x3c00 = (2, 1) ∧
    realSamples cfg16 { size := 4, minValue := some 0xbc00, maxValue := some 0x3c00 } = .error .zeroDivision := by
  decide

/-- Bounds straddling zero, one side apportioned no sample: `real_samples(size=10, dtype=float16,
min_value=-1e-4, max_value=1000.0)` returns ten samples from 0 to 1000 and not the lower bound (`neg_num = 0`). -/
theorem witness_straddle_missing_bound :
    apportion cfg16 { size := 10, minValue := some 0x868e, maxValue := some 0x63d0 } 0x868e 0x63d0 = (0, 9) ∧
    realSamples cfg16 { size := 10, minValue := some 0x868e, maxValue := some 0x63d0 } =
      .ok [0, 1024, 4090, 7156, 10222, 13288, 16354, 19420, 22486, 25552] ∧
    ¬ (0x868e ∈ [0, 1024, 4090, 7156, 10222, 13288, 16354, 19420, 22486, 25552]) := by
  decide

/-- `unique=False` without bounds: the special values are appended after the finite samples, the result is not
sorted: `real_samples(size=8, dtype=float16, unique=False)` ends with `..., max, -inf, 0, inf`. -/
theorem witness_nonunique_unsorted :
    realSamples cfg16 { size := 8, unique := false } =
      .ok [0xfbff, 0xbfff, 0x8400, 0x0400, 0x3fff, 0x7bff, 0xfc00, 0x0000, 0x7c00] ∧
    ¬ Sorted cfg16 [0xfbff, 0xbfff, 0x8400, 0x0400, 0x3fff, 0x7bff, 0xfc00, 0x0000, 0x7c00] := by
  refine ⟨by decide, ?_⟩
  intro h
  have := (List.pairwise_cons.1 h).1 0xfc00 (by simp)
  revert this; decide

/-- `include_huge=True` is ignored for `num ≤ 3`: `real_samples(size=6, dtype=float16)` (the documented minimum
size) does not contain the next-to-largest value 0x7bfe. -/
theorem witness_huge_skipped :
    realSamples cfg16 { size := 6 } = .ok [0xfc00, 0xfbff, 0x8400, 0x0000, 0x0400, 0x7bff, 0x7c00] ∧
    ¬ ((cfg16.maxFin - 1) ∈ [0xfc00, 0xfbff, 0x8400, 0x0000, 0x0400, 0x7bff, 0x7c00]) := by
  decide

/-- `complex_samples` turns a `-0.0` sample into `+0.0` (float32: `min_real_value=-1.0, max_real_value=-0.0`,
size 2 gives the real samples `[-1.0, -0.0]`; in the grid the second column has real part `+0.0`). -/
theorem witness_complex_neg_zero :
    realSamples cfg32 { size := 2, minValue := some 0xbf800000, maxValue := some 0x80000000 } = .ok [0xbf800000, 0x80000000] ∧
    complexGrid cfg32 [0xbf800000, 0x80000000] [0x3f800000] = [[(0xbf800000, 0x3f800000), (0x00000000, 0x3f800000)]] ∧
    complexGrid cfg32 [0xbf800000, 0x80000000] [0x3f800000] ≠ [[(0xbf800000, 0x3f800000), (0x80000000, 0x3f800000)]] := by
  decide

/-! ## Non-vacuity: concrete non-trivial instances meeting the hypotheses -/

/-- `real_samples(size=10, dtype=float16, min_value=-1.0, max_value=1.0)` is `Sane` (straddling, 4 + 1 + 5). -/
example : Sane cfg16 { size := 10, minValue := some 0xbc00, maxValue := some 0x3c00 } := by
  unfold Sane SamePos SameNeg Straddle; decide

example : realSamples cfg16 { size := 10, minValue := some 0xbc00, maxValue := some 0x3c00 } =
    .ok [48128, 44544, 40960, 37376, 33792, 0, 1024, 5802, 10581, 15360] := by decide

/-- a lopsided straddling range: in a `Regime`, the call succeeds, but it is not `Sane` (`neg_num = 0`) -/
example : Regime cfg16 { size := 10, minValue := some 0x868e, maxValue := some 0x63d0 } := by
  unfold Regime SamePos SameNeg Straddle; decide

/-- a positive range with a subnormal lower bound (moved to zero) and size above the number of values -/
example : Sane cfg16 { size := 7, minValue := some 0x0003, maxValue := some 0x0402, unique := false } := by
  unfold Sane SamePos SameNeg Straddle; decide

example : realSamples cfg16 { size := 7, minValue := some 0x0003, maxValue := some 0x0402, unique := false } =
    .ok [0, 0, 0, 0, 0, 0, 0x0402] := by decide

/-- a negative float64 range -/
example : Sane cfg64 { size := 1000, minValue := some 0xc08f400000000000, maxValue := some 0xbff0000000000000 } := by
  unfold Sane SamePos SameNeg Straddle; decide

/-- hypotheses of the unbounded theorems: `size = 9`, default flags: `num = 3` -/
example : ({ size := 9 } : Params).userBounds = false ∧ numOf cfg32 { size := 9 } = 3 := by decide

/-- the stepping core on a concrete instance: gaps 0x100, 0x100, 0x100, 0x101 -/
example : (List.range 5).map (seqAt 0x3c00 0x0401 5) = [0x3c00, 0x3d00, 0x3e00, 0x3f00, 0x4001] := by decide

end FAVerif.Props.C19
