/-
C12 — floating-point expansion arithmetic preserves value.  Property statements proved so far
(safe variant, every length, every precision, any round-to-nearest, no overflow):
value preservation of VecSum and of the eager and functional renormalisation.
Non-overlap after ≤ 2 passes and the < 1 ulp bound of products are decided by search only.
-/
import FAVerif.Lemmas.Renorm

namespace FAVerif.Props.C12
open FAVerif.FPQ FAVerif.Renorm

/-- VecSum preserves the exact sum and the length, for every list of representable numbers. -/
theorem vecsum_value (q : QFmt) (r : ℚ → ℚ) (hr : IsRN q r) (l : List ℚ) (h : ∀ a ∈ l, Rep q a) :
    (vecsum (arithQ r) false l).sum = l.sum ∧ (vecsum (arithQ r) false l).length = l.length :=
  ⟨(vecsum_spec hr l h).1, (vecsum_spec hr l h).2.2⟩

/-- **Eager renormalisation** (`renormalize(seq, functional=False)`, safe 2Sum): the exact sum is
unchanged and every returned item is a non-zero representable number — for EVERY length. -/
theorem renorm_eager_value (q : QFmt) (r : ℚ → ℚ) (hr : IsRN q r) (l : List ℚ) (h : ∀ a ∈ l, Rep q a) :
    (renormEager (arithQ r) false l).sum = l.sum ∧
    (∀ b ∈ renormEager (arithQ r) false l, Rep q b ∧ b ≠ 0) :=
  renormEager_sum hr l h

/-- **Functional (select-based, fixed-length) renormalisation**: the exact sum is unchanged, for
EVERY length (including the zero-compaction `nztopk` with k = length). -/
theorem renorm_functional_value (q : QFmt) (r : ℚ → ℚ) (hr : IsRN q r) (l : List ℚ) (h : ∀ a ∈ l, Rep q a) :
    (renormFunctional (arithQ r) false l).sum = l.sum :=
  renormFunctional_sum hr l h

/-- Sum and difference of expansions (`add`, `subtract` = renormalize of the concatenation, with
the second negated) equal the exact result when no size limit truncates. -/
theorem add_sub_value (q : QFmt) (r : ℚ → ℚ) (hr : IsRN q r) (l1 l2 : List ℚ)
    (h1 : ∀ a ∈ l1, Rep q a) (h2 : ∀ a ∈ l2, Rep q a) :
    (renormEager (arithQ r) false (l1 ++ l2)).sum = l1.sum + l2.sum ∧
    (renormFunctional (arithQ r) false (l1 ++ l2)).sum = l1.sum + l2.sum ∧
    (renormEager (arithQ r) false (l1 ++ l2.map (fun x => -x))).sum = l1.sum - l2.sum ∧
    (renormFunctional (arithQ r) false (l1 ++ l2.map (fun x => -x))).sum = l1.sum - l2.sum := by
  have hcat : ∀ a ∈ l1 ++ l2, Rep q a := by
    intro a ha; rcases List.mem_append.1 ha with h | h
    · exact h1 a h
    · exact h2 a h
  have hneg : ∀ a ∈ l1 ++ l2.map (fun x => -x), Rep q a := by
    intro a ha; rcases List.mem_append.1 ha with h | h
    · exact h1 a h
    · obtain ⟨b, hb, rfl⟩ := List.mem_map.1 h
      exact rep_neg' hr (h2 b hb)
  have hs : ∀ l : List ℚ, (l.map (fun x => -x)).sum = -l.sum := by
    intro l
    induction l with
    | nil => simp
    | cons a l ih => simp only [List.map_cons, List.sum_cons, ih]; ring
  have hs := hs l2
  refine ⟨?_, ?_, ?_, ?_⟩
  · rw [(renormEager_sum hr _ hcat).1, List.sum_append]
  · rw [renormFunctional_sum hr _ hcat, List.sum_append]
  · rw [(renormEager_sum hr _ hneg).1, List.sum_append, hs]; ring
  · rw [renormFunctional_sum hr _ hneg, List.sum_append, hs]; ring

/-! Non-vacuity: a concrete overlapping list of representable numbers. -/
example : ∀ a ∈ [(1 : ℚ), 1, 3 / 4, 0, -1 / 8], Rep ⟨24, -149, by decide⟩ a := by
  intro a ha
  simp only [List.mem_cons, List.mem_nil_iff, or_false] at ha
  rcases ha with rfl | rfl | rfl | rfl | rfl
  · exact ⟨1, 0, by norm_num, by norm_num, by norm_num⟩
  · exact ⟨1, 0, by norm_num, by norm_num, by norm_num⟩
  · exact ⟨3, -2, by norm_num, by norm_num, by norm_num⟩
  · exact ⟨0, 0, by norm_num, by norm_num, by norm_num⟩
  · exact ⟨-1, -3, by norm_num, by norm_num, by norm_num⟩

/-- **Normal form, two terms**: `renormalize([a, b])` returns `[]`, `[s]` or `[s, t]` with the exact sum preserved and,
in the last case, s = RN(s + t) and t ≠ 0 — a normalised (non-overlapping) double word — for every precision, emin and
round-to-nearest.  (For three or more terms the non-overlap clause is decided by search.) -/
theorem renorm_two_terms_normal (q : QFmt) (r : ℚ → ℚ) (hr : IsRN q r) (a b : ℚ) (ha : Rep q a) (hb : Rep q b) :
    (renormEager (arithQ r) false [a, b]).sum = a + b ∧ (renormEager (arithQ r) false [a, b]).length ≤ 2 ∧
    (∀ s t, renormEager (arithQ r) false [a, b] = [s, t] → r (s + t) = s ∧ t ≠ 0) :=
  renorm2_normal hr ha hb

end FAVerif.Props.C12
