/-
C10 — the `utils.py` copies of Dekker's product and square (`utils.multiply_dekker`, `utils.square_dekker`, the functions the
repository's own accuracy tooling calls) on bit patterns, unconditional, for float32 and float64.
-/
import FAVerif.Props.C10Total5

namespace FAVerif.Props.C10
open FAVerif.IR FAVerif.FP FAVerif.FPQ FAVerif.Gen.C10 FAVerif.Refine FAVerif.SoftRound FAVerif.Ovf FAVerif.EFT

theorem utils_dekker_checks :
    overflowFree binary32 [46, 46] utils_multiply_dekker_f32.nodes = true ∧ overflowFree binary64 [479, 479] utils_multiply_dekker_f64.nodes = true ∧
    overflowFree binary32 [46] utils_square_dekker_f32.nodes = true ∧ overflowFree binary64 [479] utils_square_dekker_f64.nodes = true ∧
    kindsOfS utils_multiply_dekker_f32.nodes [] = some (List.replicate 21 false) ∧ kindsOfS utils_multiply_dekker_f64.nodes [] = some (List.replicate 21 false) ∧
    kindsOfS utils_square_dekker_f32.nodes [] = some (List.replicate 15 false) ∧ kindsOfS utils_square_dekker_f64.nodes [] = some (List.replicate 15 false) := by
  decide +kernel

/-- **`utils.multiply_dekker` on bit patterns, unconditional** (binary32): all normal operand patterns with |x|, |y| ≤ 2^46 whose
product's error term does not underflow: the run exists, nothing overflows, value(h) = RNE(x·y) and value(h) + value(l) = x·y. -/
theorem utils_dekker_total_f32 (lib : Libm) (x y : Nat) (sx sy : Bool) (mx my : Nat) (ex ey : Int)
    (dx : decode binary32 x = .fin sx mx ex) (dy : decode binary32 y = .fin sy my ey)
    (nx : 2 ^ 23 ≤ mx) (ny : 2 ^ 23 ≤ my) (hund : binary32.emin ≤ ex + ey)
    (bx : |valQ sx mx ex| ≤ 2 ^ (46 : ℤ)) (bY : |valQ sy my ey| ≤ 2 ^ (46 : ℤ)) :
    ∃ h l : Nat, utils_multiply_dekker_f32.eval lib [x, y] = some [h, l] ∧ isFiniteBits binary32 h = true ∧ isFiniteBits binary32 l = true ∧
      ∃ qh ql : ℚ, toQ binary32 h = some qh ∧ toQ binary32 l = some ql ∧
        qh = rne (qf binary32 (by decide)) (valQ sx mx ex * valQ sy my ey) ∧ qh + ql = valQ sx mx ex * valQ sy my ey := by
  have hf : WF binary32 := ⟨by decide, by decide⟩
  obtain ⟨bx1, bx2⟩ := decode_bounds binary32 hf x sx mx ex dx
  obtain ⟨by1, by2⟩ := decode_bounds binary32 hf y sy my ey dy
  have habs : ∀ (s : Bool) (m : Nat), |(if s then -(m : ℤ) else (m : ℤ))| = (m : ℤ) := by
    intro s m; cases s <;> simp
  have hq := ((dekker_generated (rne (qf binary32 hf.hp)) (if sx then -(mx : ℤ) else mx) (if sy then -(my : ℤ) else my) ex ey _ _
    (valQ_int sx mx ex) (valQ_int sy my ey)).2.1 (qf binary32 hf.hp) rfl (isRN_rne _)
    (by rw [habs]; exact_mod_cast nx) (by rw [habs]; exact_mod_cast bx1)
    (by rw [habs]; exact_mod_cast ny) (by rw [habs]; exact_mod_cast by1) bx2 by2 hund).2
  obtain ⟨h, l, h1, h2, h3, h4, h5⟩ := total2 utils_multiply_dekker_f32 hf Lmax_ge4.2.1 _ utils_dekker_checks.2.2.2.2.1
    (by intro o ho; have : o = 2 ∨ o = 20 := by simpa [utils_multiply_dekker_f32] using ho
        rcases this with rfl | rfl <;> decide)
    [46, 46] utils_dekker_checks.1 lib [x, y] _
    (insRel2 (finite_of_decode _ _ _ _ _ dx) (finite_of_decode _ _ _ _ _ dy) (toQ_fin _ x sx mx ex dx) (toQ_fin _ y sy my ey dy))
    (hE_two bx bY) _ _ hq
  exact ⟨h, l, h1, h2, h3, _, _, h4, h5, rfl, by ring⟩

/-- **`utils.multiply_dekker` on bit patterns, unconditional** (binary64): all normal operand patterns with |x|, |y| ≤ 2^479 whose
product's error term does not underflow: the run exists, nothing overflows, value(h) = RNE(x·y) and value(h) + value(l) = x·y. -/
theorem utils_dekker_total_f64 (lib : Libm) (x y : Nat) (sx sy : Bool) (mx my : Nat) (ex ey : Int)
    (dx : decode binary64 x = .fin sx mx ex) (dy : decode binary64 y = .fin sy my ey)
    (nx : 2 ^ 52 ≤ mx) (ny : 2 ^ 52 ≤ my) (hund : binary64.emin ≤ ex + ey)
    (bx : |valQ sx mx ex| ≤ 2 ^ (479 : ℤ)) (bY : |valQ sy my ey| ≤ 2 ^ (479 : ℤ)) :
    ∃ h l : Nat, utils_multiply_dekker_f64.eval lib [x, y] = some [h, l] ∧ isFiniteBits binary64 h = true ∧ isFiniteBits binary64 l = true ∧
      ∃ qh ql : ℚ, toQ binary64 h = some qh ∧ toQ binary64 l = some ql ∧
        qh = rne (qf binary64 (by decide)) (valQ sx mx ex * valQ sy my ey) ∧ qh + ql = valQ sx mx ex * valQ sy my ey := by
  have hf : WF binary64 := ⟨by decide, by decide⟩
  obtain ⟨bx1, bx2⟩ := decode_bounds binary64 hf x sx mx ex dx
  obtain ⟨by1, by2⟩ := decode_bounds binary64 hf y sy my ey dy
  have habs : ∀ (s : Bool) (m : Nat), |(if s then -(m : ℤ) else (m : ℤ))| = (m : ℤ) := by
    intro s m; cases s <;> simp
  have hq := ((dekker_generated (rne (qf binary64 hf.hp)) (if sx then -(mx : ℤ) else mx) (if sy then -(my : ℤ) else my) ex ey _ _
    (valQ_int sx mx ex) (valQ_int sy my ey)).2.2 (qf binary64 hf.hp) rfl (isRN_rne _)
    (by rw [habs]; exact_mod_cast nx) (by rw [habs]; exact_mod_cast bx1)
    (by rw [habs]; exact_mod_cast ny) (by rw [habs]; exact_mod_cast by1) bx2 by2 hund).2
  obtain ⟨h, l, h1, h2, h3, h4, h5⟩ := total2 utils_multiply_dekker_f64 hf Lmax_ge4.2.2 _ utils_dekker_checks.2.2.2.2.2.1
    (by intro o ho; have : o = 2 ∨ o = 20 := by simpa [utils_multiply_dekker_f64] using ho
        rcases this with rfl | rfl <;> decide)
    [479, 479] utils_dekker_checks.2.1 lib [x, y] _
    (insRel2 (finite_of_decode _ _ _ _ _ dx) (finite_of_decode _ _ _ _ _ dy) (toQ_fin _ x sx mx ex dx) (toQ_fin _ y sy my ey dy))
    (hE_two bx bY) _ _ hq
  exact ⟨h, l, h1, h2, h3, _, _, h4, h5, rfl, by ring⟩

/-- **`utils.square_dekker` on bit patterns, unconditional** (binary32): every normal pattern with |x| ≤ 2^46 whose square's error
term does not underflow (2·ex ≥ emin): the run exists, nothing overflows, value(h) = RNE(x²) and value(h) + value(l) = x². -/
theorem utils_square_total_f32 (lib : Libm) (x : Nat) (sx : Bool) (mx : Nat) (ex : Int)
    (dx : decode binary32 x = .fin sx mx ex) (nx : 2 ^ 23 ≤ mx) (hund : binary32.emin ≤ ex + ex) (bx : |valQ sx mx ex| ≤ 2 ^ (46 : ℤ)) :
    ∃ h l : Nat, utils_square_dekker_f32.eval lib [x] = some [h, l] ∧ isFiniteBits binary32 h = true ∧ isFiniteBits binary32 l = true ∧
      ∃ qh ql : ℚ, toQ binary32 h = some qh ∧ toQ binary32 l = some ql ∧
        qh = rne (qf binary32 (by decide)) (valQ sx mx ex * valQ sx mx ex) ∧ qh + ql = valQ sx mx ex * valQ sx mx ex := by
  have hf : WF binary32 := ⟨by decide, by decide⟩
  have hr := isRN_rne (qf binary32 hf.hp)
  obtain ⟨bx1, bx2⟩ := decode_bounds binary32 hf x sx mx ex dx
  have habs : ∀ (s : Bool) (m : Nat), |(if s then -(m : ℤ) else (m : ℤ))| = (m : ℤ) := by
    intro s m; cases s <;> simp
  obtain ⟨-, -, -, -, t5, -⟩ := ties_split_dekker
  simp only [List.mem_cons, List.mem_nil_iff, or_false, forall_eq_or_imp, forall_eq] at t5
  obtain ⟨t1, t2⟩ := t5.2.1
  have fm : utils_square_dekker_f32.fmt = binary32 := by decide
  have hq : utils_square_dekker_f32.evalQ (rne (qf binary32 hf.hp)) [valQ sx mx ex] =
      some [rne (qf binary32 hf.hp) (valQ sx mx ex * valQ sx mx ex), valQ sx mx ex * valQ sx mx ex - rne (qf binary32 hf.hp) (valQ sx mx ex * valQ sx mx ex)] := by
    unfold Prog.evalQ
    rw [t1, t2, fm]
    exact (dekker_product_utils (qf binary32 hf.hp) _ hr binary32 _ 12 split_constants.2.1
      (by show (24 : ℕ) ≤ 2 * 12; norm_num) (by show 2 * 12 ≤ (24 : ℕ) + 2; norm_num) (by show 12 + 2 ≤ (24 : ℕ); norm_num)
      (if sx then -(mx : ℤ) else mx) (if sx then -(mx : ℤ) else mx) ex ex
      (by rw [habs]; exact_mod_cast nx) (by rw [habs]; exact_mod_cast bx1) (by rw [habs]; exact_mod_cast nx) (by rw [habs]; exact_mod_cast bx1)
      bx2 bx2 hund _ _ (valQ_int sx mx ex) (valQ_int sx mx ex)).2 hund
  obtain ⟨h, l, h1, h2, h3, h4, h5⟩ := total2 utils_square_dekker_f32 hf Lmax_ge4.2.1 _ utils_dekker_checks.2.2.2.2.2.2.1
    (by intro o ho; have : o = 1 ∨ o = 14 := by simpa [utils_square_dekker_f32] using ho
        rcases this with rfl | rfl <;> decide)
    [46] utils_dekker_checks.2.2.1 lib [x] _ (insRel1 (finite_of_decode _ _ _ _ _ dx) (toQ_fin _ x sx mx ex dx)) (hE_one bx) _ _ hq
  exact ⟨h, l, h1, h2, h3, _, _, h4, h5, rfl, by ring⟩

/-- **`utils.square_dekker` on bit patterns, unconditional** (binary64): every normal pattern with |x| ≤ 2^479 whose square's error
term does not underflow (2·ex ≥ emin): the run exists, nothing overflows, value(h) = RNE(x²) and value(h) + value(l) = x². -/
theorem utils_square_total_f64 (lib : Libm) (x : Nat) (sx : Bool) (mx : Nat) (ex : Int)
    (dx : decode binary64 x = .fin sx mx ex) (nx : 2 ^ 52 ≤ mx) (hund : binary64.emin ≤ ex + ex) (bx : |valQ sx mx ex| ≤ 2 ^ (479 : ℤ)) :
    ∃ h l : Nat, utils_square_dekker_f64.eval lib [x] = some [h, l] ∧ isFiniteBits binary64 h = true ∧ isFiniteBits binary64 l = true ∧
      ∃ qh ql : ℚ, toQ binary64 h = some qh ∧ toQ binary64 l = some ql ∧
        qh = rne (qf binary64 (by decide)) (valQ sx mx ex * valQ sx mx ex) ∧ qh + ql = valQ sx mx ex * valQ sx mx ex := by
  have hf : WF binary64 := ⟨by decide, by decide⟩
  have hr := isRN_rne (qf binary64 hf.hp)
  obtain ⟨bx1, bx2⟩ := decode_bounds binary64 hf x sx mx ex dx
  have habs : ∀ (s : Bool) (m : Nat), |(if s then -(m : ℤ) else (m : ℤ))| = (m : ℤ) := by
    intro s m; cases s <;> simp
  obtain ⟨-, -, -, -, t5, -⟩ := ties_split_dekker
  simp only [List.mem_cons, List.mem_nil_iff, or_false, forall_eq_or_imp, forall_eq] at t5
  obtain ⟨t1, t2⟩ := t5.2.2
  have fm : utils_square_dekker_f64.fmt = binary64 := by decide
  have hq : utils_square_dekker_f64.evalQ (rne (qf binary64 hf.hp)) [valQ sx mx ex] =
      some [rne (qf binary64 hf.hp) (valQ sx mx ex * valQ sx mx ex), valQ sx mx ex * valQ sx mx ex - rne (qf binary64 hf.hp) (valQ sx mx ex * valQ sx mx ex)] := by
    unfold Prog.evalQ
    rw [t1, t2, fm]
    exact (dekker_product_utils (qf binary64 hf.hp) _ hr binary64 _ 27 split_constants.2.2
      (by show (53 : ℕ) ≤ 2 * 27; norm_num) (by show 2 * 27 ≤ (53 : ℕ) + 2; norm_num) (by show 27 + 2 ≤ (53 : ℕ); norm_num)
      (if sx then -(mx : ℤ) else mx) (if sx then -(mx : ℤ) else mx) ex ex
      (by rw [habs]; exact_mod_cast nx) (by rw [habs]; exact_mod_cast bx1) (by rw [habs]; exact_mod_cast nx) (by rw [habs]; exact_mod_cast bx1)
      bx2 bx2 hund _ _ (valQ_int sx mx ex) (valQ_int sx mx ex)).2 hund
  obtain ⟨h, l, h1, h2, h3, h4, h5⟩ := total2 utils_square_dekker_f64 hf Lmax_ge4.2.2 _ utils_dekker_checks.2.2.2.2.2.2.2
    (by intro o ho; have : o = 1 ∨ o = 14 := by simpa [utils_square_dekker_f64] using ho
        rcases this with rfl | rfl <;> decide)
    [479] utils_dekker_checks.2.2.2.1 lib [x] _ (insRel1 (finite_of_decode _ _ _ _ _ dx) (toQ_fin _ x sx mx ex dx)) (hE_one bx) _ _ hq
  exact ⟨h, l, h1, h2, h3, _, _, h4, h5, rfl, by ring⟩

end FAVerif.Props.C10
