/-
C14 — the ULP metric is the integer distance on the float lattice.
Only property statements, their proofs' top level, and non-vacuity examples live here.

Every theorem is generic in the format `f` (hypothesis `WF f`: `2 ≤ p`, `2 ≤ ew`; binary16/32/64 are
instances, see the examples) and quantifies over ALL bit patterns `x < 2^width` of the stated class.
`diffUlp`, `complexDiffUlp`, `ulp` are the ports of `utils.diff_ulp` / `utils.ulp` (Models/Ulp.lean);
`ord`, `nextUp`, `nextDown`, `negBits`, `decode`, `sval` (value in units of `2^emin`) are the
specification objects (tied to numpy.nextafter / `-x` / Fraction(x) by the harness).
-/
import FAVerif.Lemmas.Ulp

namespace FAVerif.Props.C14
open FAVerif.FP FAVerif.Ulp

/-! ## the lattice -/

/-- **ord_succ**: for every finite pattern (±0 collapsed: `nextUp (-0)` is the smallest positive
subnormal, `nextUp` of the smallest negative subnormal is `-0`) the ordinal of the upper neighbour is
the ordinal plus one; the neighbour is a pattern of the format, and it is finite unless `x = max`. -/
theorem ord_succ (f : Fmt) (h : WF f) (x : Nat) (hx : x < 2 ^ f.width) (hfin : isFiniteBits f x = true) :
    ord f (nextUp f x) = ord f x + 1 ∧ nextUp f x < 2 ^ f.width ∧
    (x ≠ f.maxBits → isFiniteBits f (nextUp f x) = true) :=
  ⟨(ord_succ' f h x hx hfin).1, (ord_succ' f h x hx hfin).2, nextUp_finite f h x hx hfin⟩

/-- the upper neighbour of the largest finite value is `+inf`; the largest finite value is finite and
has the largest ordinal `maxBits`; a pattern is finite iff its ordinal is within `±maxBits`. -/
theorem nextUp_max (f : Fmt) (h : WF f) :
    nextUp f f.maxBits = f.infBits ∧ isFiniteBits f f.maxBits = true ∧ ord f f.maxBits = f.maxBits ∧
    ∀ x, isFiniteBits f x = true ↔ (ord f x).natAbs ≤ f.maxBits :=
  ⟨(nextUp_max' f h).1, (nextUp_max' f h).2, ord_maxBits f h, finite_iff_ord f h⟩

/-- the lower neighbour (`nextafter(x, -inf)`) has the ordinal minus one -/
theorem ord_pred (f : Fmt) (h : WF f) (x : Nat) (hx : x < 2 ^ f.width) (hfin : isFiniteBits f x = true) :
    ord f (nextDown f x) = ord f x - 1 := ord_pred' f h x hx hfin

/-- the decoded rational value of a finite pattern is `sval · 2^emin` -/
theorem decode_sval (f : Fmt) (h : WF f) (x : Nat) (hfin : isFiniteBits f x = true) :
    (decode f x).toRat? = some ((sval f x : Rat) * pow2 f.emin) := decode_sval' f h x hfin

/-- **ord_mono** (integer form): ordinal order is the order of the scaled values, for all patterns -/
theorem ord_mono_int (f : Fmt) (x y : Nat) :
    (sval f x < sval f y ↔ ord f x < ord f y) ∧ (sval f x = sval f y ↔ ord f x = ord f y) :=
  ⟨sval_lt_iff f x y, sval_eq_iff f x y⟩

/-- **ord_mono**: bit-pattern (sign-magnitude ordinal) order is numeric order of the decoded rational
values, for every pair of finite patterns. -/
theorem ord_mono (f : Fmt) (h : WF f) (x y : Nat) (fx : isFiniteBits f x = true) (fy : isFiniteBits f y = true)
    (qx qy : Rat) (hqx : (decode f x).toRat? = some qx) (hqy : (decode f y).toRat? = some qy) :
    (qx < qy ↔ ord f x < ord f y) ∧ (qx = qy ↔ ord f x = ord f y) := by
  rw [decode_sval' f h x fx] at hqx; rw [decode_sval' f h y fy] at hqy
  cases hqx; cases hqy
  have hc := pow2_pos f.emin
  rw [← sval_lt_iff, ← sval_eq_iff]
  exact ⟨by rw [mul_lt_mul_iff_left₀ hc, Int.cast_lt], by rw [mul_left_inj' (ne_of_gt hc), Int.cast_inj]⟩

/-! ## diff_ulp without flushing -/

/-- **diff_eq**: for finite same-type floats `diff_ulp x y = |ord x − ord y|`
(`flush_subnormals` False or UNSPECIFIED, any `equal_nan`). -/
theorem diff_eq (f : Fmt) (h : WF f) (fl : Option Bool) (en : Bool) (x y : Nat) (hfl : fl = some false ∨ fl = none)
    (fx : isFiniteBits f x = true) (fy : isFiniteBits f y = true) :
    diffUlp f fl en x y = (ord f x - ord f y).natAbs :=
  diff_eq' f h fl en x y (by rcases hfl with rfl | rfl <;> rfl) fx fy

/-- UNSPECIFIED means the module default, which is "do not flush" -/
theorem flush_unspecified (f : Fmt) (en : Bool) (x y : Nat) :
    diffUlp f none en x y = diffUlp f (some false) en x y := rfl

/-- **zero_iff**: the distance is zero exactly for the same pattern or the two zeros -/
theorem zero_iff (f : Fmt) (h : WF f) (en : Bool) (x y : Nat) (hx : x < 2 ^ f.width) (hy : y < 2 ^ f.width)
    (fx : isFiniteBits f x = true) (fy : isFiniteBits f y = true) :
    diffUlp f (some false) en x y = 0 ↔ (x = y ∨ (magBits f x = 0 ∧ magBits f y = 0)) := by
  rw [diff_eq' f h _ en x y rfl fx fy, ← ord_eq_iff f h x y hx hy]; omega

/-- **zero_iff_value**: the distance is zero exactly when the decoded rational values are equal
(`+0 = −0`) -/
theorem zero_iff_value (f : Fmt) (h : WF f) (en : Bool) (x y : Nat)
    (fx : isFiniteBits f x = true) (fy : isFiniteBits f y = true) :
    diffUlp f (some false) en x y = 0 ↔ (decode f x).toRat? = (decode f y).toRat? := by
  rw [diff_eq' f h _ en x y rfl fx fy, decode_sval' f h x fx, decode_sval' f h y fy, Option.some.injEq,
    mul_left_inj' (ne_of_gt (pow2_pos f.emin)), Int.cast_inj, sval_eq_iff]
  omega

/-- **symm**: symmetric, in every flush setting -/
theorem symm (f : Fmt) (h : WF f) (fl : Option Bool) (en : Bool) (x y : Nat)
    (fx : isFiniteBits f x = true) (fy : isFiniteBits f y = true) :
    diffUlp f fl en x y = diffUlp f fl en y x := by
  rw [diff_key f h fl en x y fx fy, diff_key f h fl en y x fy fx]; omega

/-- **kth_neighbour**: `k` steps of `nextUp` from a finite `x`, staying finite (`ord x + k ≤ maxBits`),
reach a finite pattern at distance exactly `k` — across zero and across binade boundaries. -/
theorem kth_neighbour (f : Fmt) (h : WF f) (en : Bool) (k : Nat) (x : Nat) (hx : x < 2 ^ f.width)
    (fx : isFiniteBits f x = true) (hk : ord f x + k ≤ f.maxBits) :
    isFiniteBits f (nextUpN f k x) = true ∧ diffUlp f (some false) en x (nextUpN f k x) = k ∧
    diffUlp f (some false) en (nextUpN f k x) x = k := by
  obtain ⟨_, h2, h3⟩ := nextUpN_spec f h k x hx fx hk
  refine ⟨h2, ?_, ?_⟩
  · rw [diff_eq' f h _ en _ _ rfl fx h2, h3]; omega
  · rw [diff_eq' f h _ en _ _ rfl h2 fx, h3]; omega

/-- **chain_additive**: distances add along a monotone chain `x ≤ y ≤ z` (any position relative to zero
and to binade boundaries; every flush setting). -/
theorem chain_additive (f : Fmt) (h : WF f) (fl : Option Bool) (en : Bool) (x y z : Nat)
    (hx : x < 2 ^ f.width) (hy : y < 2 ^ f.width) (hz : z < 2 ^ f.width)
    (fx : isFiniteBits f x = true) (fy : isFiniteBits f y = true) (fz : isFiniteBits f z = true)
    (hxy : ord f x ≤ ord f y) (hyz : ord f y ≤ ord f z) :
    diffUlp f fl en x z = diffUlp f fl en x y + diffUlp f fl en y z :=
  chain3 f h fl en x y z hx hy hz fx fy fz hxy hyz

/-- **chain_additive_list**: along a monotone chain of any length the consecutive distances sum to the
distance between the ends. -/
theorem chain_additive_list (f : Fmt) (h : WF f) (fl : Option Bool) (x : Nat) (l : List Nat)
    (hc : MonoChain f (x :: l)) : chainSum f fl (x :: l) = diffUlp f fl false x (lastOf x l) :=
  (chain_list f h fl l x hc).2

/-- triangle inequality, every flush setting -/
theorem triangle (f : Fmt) (h : WF f) (fl : Option Bool) (en : Bool) (x y z : Nat)
    (fx : isFiniteBits f x = true) (fy : isFiniteBits f y = true) (fz : isFiniteBits f z = true) :
    diffUlp f fl en x z ≤ diffUlp f fl en x y + diffUlp f fl en y z := triangle' f h fl en x y z fx fy fz

/-- a finite distance is never confused with the `2^width` sentinel returned for inf/NaN arguments -/
theorem finite_lt_sentinel (f : Fmt) (h : WF f) (fl : Option Bool) (en : Bool) (x y : Nat)
    (fx : isFiniteBits f x = true) (fy : isFiniteBits f y = true) :
    diffUlp f fl en x y < sentinel f := lt_sentinel f h fl en x y fx fy

/-! ## complex -/

/-- **complex_max**: the complex distance is the larger of the component distances, hence (finite
components) `max |Δord re| |Δord im|`. -/
theorem complex_max (f : Fmt) (h : WF f) (en : Bool) (xr xi yr yi : Nat)
    (f1 : isFiniteBits f xr = true) (f2 : isFiniteBits f xi = true)
    (f3 : isFiniteBits f yr = true) (f4 : isFiniteBits f yi = true) :
    complexDiffUlp f (some false) en (xr, xi) (yr, yi) = max (ord f xr - ord f yr).natAbs (ord f xi - ord f yi).natAbs := by
  unfold complexDiffUlp
  rw [diff_eq' f h _ en xr yr rfl f1 f3, diff_eq' f h _ en xi yi rfl f2 f4]

/-- the complex distance is zero iff both component distances are, and it is symmetric -/
theorem complex_zero_iff (f : Fmt) (h : WF f) (fl : Option Bool) (en : Bool) (xr xi yr yi : Nat)
    (f1 : isFiniteBits f xr = true) (f2 : isFiniteBits f xi = true)
    (f3 : isFiniteBits f yr = true) (f4 : isFiniteBits f yi = true) :
    (complexDiffUlp f fl en (xr, xi) (yr, yi) = 0 ↔ diffUlp f fl en xr yr = 0 ∧ diffUlp f fl en xi yi = 0) ∧
    complexDiffUlp f fl en (xr, xi) (yr, yi) = complexDiffUlp f fl en (yr, yi) (xr, xi) := by
  unfold complexDiffUlp
  rw [symm f h fl en yr xr f3 f1, symm f h fl en yi xi f4 f2]
  exact ⟨Nat.max_eq_zero_iff, rfl⟩

/-! ## flush mode -/

/-- **flush_eq**: with flushing the distance is the distance of the flushed ordinals -/
theorem flush_eq (f : Fmt) (h : WF f) (en : Bool) (x y : Nat)
    (fx : isFiniteBits f x = true) (fy : isFiniteBits f y = true) :
    diffUlp f (some true) en x y = (flushOrd f x - flushOrd f y).natAbs :=
  flush_eq' f h _ en x y rfl fx fy

/-- **flush_mono**: the flushed ordinal is (weakly) monotone in the ordinal, i.e. in the value -/
theorem flush_mono (f : Fmt) (h : WF f) (x y : Nat) (hx : x < 2 ^ f.width) (hy : y < 2 ^ f.width)
    (hxy : ord f x ≤ ord f y) : flushOrd f x ≤ flushOrd f y := flushOrd_mono f h x y hx hy hxy

/-- **flush_collapse**: both zeros sit at 0, `±` the smallest normal at `±1`, and every subnormal
is sent to the nearer of the two (`2·|x| < min normal` → 0, otherwise — including the exact half —
to `±1`), consistently for every partner since the distance is `|flushOrd x − flushOrd y|`. -/
theorem flush_collapse (f : Fmt) (x : Nat) (hs : magBits f x < f.minNormalBits) :
    flushOrd f x = (if 2 * magBits f x < f.minNormalBits then 0 else if (fields f x).sign then -1 else 1) ∧
    flushMap f 0 = 0 ∧ flushMap f f.minNormalBits = 1 := by
  refine ⟨?_, flushMap_zero f, by rw [flushMap_normal f _ (Nat.le_refl _)]; omega⟩
  unfold flushOrd
  rw [flushMap_sub f _ hs]
  cases (fields f x).sign <;> by_cases hc : 2 * magBits f x < f.minNormalBits <;> simp [hc]

/-- **flush_normal_step**: on normal values the flushed ordinal is the ordinal shifted by the number of
subnormals, so it steps by one from a normal value to its normal upper neighbour. -/
theorem flush_normal_step (f : Fmt) (h : WF f) (x : Nat) (hx : x < 2 ^ f.width) (fx : isFiniteBits f x = true)
    (hn : f.minNormalBits ≤ magBits f x) (hn' : f.minNormalBits ≤ magBits f (nextUp f x)) :
    flushOrd f (nextUp f x) = flushOrd f x + 1 ∧
    flushOrd f x = (if 0 < ord f x then ord f x - (flushI f : Int) else ord f x + (flushI f : Int)) := by
  have hs := (ord_succ' f h x hx fx).1
  have h1 := ord_bounds f h x
  have h2 := ord_bounds f h (nextUp f x)
  have hF := F_ge2 f h
  have hF' : 2 ≤ f.minNormalBits := hF
  refine ⟨?_, flushOrd_normal f x hn⟩
  rw [flushOrd_normal f _ hn', flushOrd_normal f x hn, hs]
  split <;> split <;> omega

/-! ## ulp  (the code as of /repo commit d4402b6, which added the subnormal branch) -/

/-- **ulp_normal** ("for finite x = m·2^e, ulp(x) == 2^e", normal x of either sign): `ulp x` is a
finite non-negative pattern whose value is `2^(E−1)` units of `2^emin`, `E` the exponent field of `x`,
while `|x| = (2^(p−1) + frac)·2^(E−1)`. -/
theorem ulp_normal (f : Fmt) (h : WF f) (x : Nat) (hx : x < 2 ^ f.width) (fx : isFiniteBits f x = true)
    (hn : f.minNormalBits ≤ magBits f x) :
    sval f (ulp f x) = 2 ^ (magBits f x / 2 ^ f.fracBits - 1) ∧ ulp f x < f.infBits ∧
    magVal f (magBits f x) = (magBits f x % 2 ^ f.fracBits + 2 ^ f.fracBits) * 2 ^ (magBits f x / 2 ^ f.fracBits - 1) := by
  have hm := (finite_iff f h x).1 fx
  have hinf := infBits_add f h
  have hF := F_pos f
  obtain ⟨hv, hl⟩ := ulp_normal' f h _ hn hm
  rw [ulp_of_normal f h x hx (Or.inr hn), ulp_abs f h x hx, sval_of_lt f _ (by omega), hv]
  refine ⟨by push_cast; rfl, hl, ?_⟩
  have hq : magBits f x / 2 ^ f.fracBits ≠ 0 :=
    Nat.pos_iff_ne_zero.mp ((Nat.le_div_iff_mul_le hF).2 (by rw [Nat.one_mul]; exact hn))
  unfold magVal; simp only [hq, if_false]

/-- **ulp_subnormal** ("ulp(x) == 2^e" on subnormals, `e = emin`): for every subnormal `x` of either
sign `ulp x` is the smallest positive subnormal (value one unit of `2^emin`), the spacing there. -/
theorem ulp_subnormal (f : Fmt) (h : WF f) (x : Nat) (hx : x < 2 ^ f.width)
    (h0 : magBits f x ≠ 0) (hs : magBits f x < f.minNormalBits) : ulp f x = 1 ∧ sval f 1 = 1 := by
  have hF := F_ge2 f h
  have hinf := infBits_add f h
  have h3 := minNormal_le_inf f h
  exact ⟨ulp_of_subnormal f h x hx h0 hs, by rw [sval_of_lt f 1 (by omega), magVal_small f 1 (by omega)]; rfl⟩

/-- **ulp_next** (full strength; docstring: `x + ulp(x) == nextafter(x, inf) if x >= 0`): for EVERY
finite `x ≥ 0` below max — both zeros, every subnormal, every normal — the exact sum `x + ulp x` is the
value of the upper neighbour, which is finite (so IEEE addition returns it). -/
theorem ulp_next (f : Fmt) (h : WF f) (x : Nat) (hx : x < 2 ^ f.width) (fx : isFiniteBits f x = true)
    (hge : pyLt0 f x = false) (hmax : x ≠ f.maxBits) :
    sval f (nextUp f x) = sval f x + sval f (ulp f x) ∧ isFiniteBits f (nextUp f x) = true :=
  ⟨ulp_next_full f h x hx fx hge hmax, nextUp_finite f h x hx fx hmax⟩

/-- **ulp_next_max**: at `x = max` the exact sum `x + ulp x` is `2^(emax+1)`, strictly above every
finite value of the format (IEEE round-to-nearest returns `+inf = nextUp max`). -/
theorem ulp_next_max (f : Fmt) (h : WF f) :
    sval f f.maxBits + sval f (ulp f f.maxBits) = ((2 ^ f.fracBits * 2 ^ (f.expMax - 1) : Nat) : Int) ∧
    (∀ y, isFiniteBits f y = true → sval f y < ((2 ^ f.fracBits * 2 ^ (f.expMax - 1) : Nat) : Int)) ∧
    nextUp f f.maxBits = f.infBits := by
  have hF := F_ge2 f h
  have hinf := infBits_add f h
  have h3 := minNormal_le_inf f h
  have hw := width_eq f h
  have hmn : f.minNormalBits = 2 ^ f.fracBits := rfl
  have hlt : f.maxBits < f.signBit := by unfold Fmt.maxBits; omega
  have hcls : f.minNormalBits ≤ magBits f f.maxBits := by rw [magBits_of_lt f _ hlt]; unfold Fmt.maxBits; omega
  rw [ulp_of_normal f h _ (by omega) (Or.inr hcls)]
  exact ⟨(ulp_next_max' f h).1, (ulp_next_max' f h).2, (nextUp_max' f h).1⟩

/-- **ulp_prev** (full strength; docstring: `x - ulp(x) == nextafter(x, -inf) if x < 0`): for EVERY
finite `x < 0` — subnormal or normal — the exact difference `x − ulp x` is the value of the lower
neighbour (for `x = −max` that is `−2^(emax+1)`, i.e. `−inf` after rounding, cf. `ulp_next_max`). -/
theorem ulp_prev (f : Fmt) (h : WF f) (x : Nat) (hx : x < 2 ^ f.width) (fx : isFiniteBits f x = true)
    (hlt : pyLt0 f x = true) :
    sval f (nextDown f x) = sval f x - sval f (ulp f x) := ulp_prev_full f h x hx fx hlt

/-- `ulp(±0)` is the smallest positive subnormal -/
theorem ulp_zero (f : Fmt) (h : WF f) : ulp f 0 = 1 ∧ ulp f f.signBit = 1 ∧ sval f 1 = 1 := by
  have hF := F_ge2 f h
  have hinf := infBits_add f h
  have h3 := minNormal_le_inf f h
  have hw := width_eq f h
  have hS : f.signBit < 2 ^ f.width := by omega
  have hm0 : magBits f 0 = 0 := by unfold magBits; exact Nat.zero_mod _
  have hmS : magBits f f.signBit = 0 := by unfold magBits; exact Nat.mod_self _
  refine ⟨?_, ?_, ?_⟩
  · rw [ulp_of_normal f h 0 (by omega) (Or.inl hm0)]; exact ulp_zero' f h
  · rw [ulp_of_normal f h _ hS (Or.inl hmS), ulp_abs f h _ hS, hmS]; exact ulp_zero' f h
  · rw [sval_of_lt f 1 (by omega), magVal_small f 1 (by omega)]; rfl

/-- `ulp(-x) == ulp(x)` for every pattern -/
theorem ulp_neg (f : Fmt) (h : WF f) (x : Nat) (hx : x < 2 ^ f.width) : ulp f (negBits f x) = ulp f x :=
  ulp_neg_new f h x hx

/-- `ulp(±inf) == inf` -/
theorem ulp_inf (f : Fmt) (x : Nat) (hinf : (decode f x).isInf = true) : ulp f x = f.infBits := ulp_inf_new f x hinf

/-- `ulp(nan)` is a NaN -/
theorem ulp_nan (f : Fmt) (h : WF f) (x : Nat) (hnan : (decode f x).isNaN = true) : isNaNBits f (ulp f x) = true :=
  ulp_nan_new f h x hnan

/-- the fix is exactly one branch: the current `ulp` is the pre-fix function `ulpOld` except on
non-zero subnormals, where it returns the smallest subnormal. -/
theorem ulp_eq_old_plus_branch (f : Fmt) (h : WF f) (x : Nat) (hx : x < 2 ^ f.width) :
    ulp f x = if magBits f x ≠ 0 ∧ magBits f x < f.minNormalBits then 1 else ulpOld f x :=
  ulp_eq_repaired f h x hx

/-! ### regression witnesses for the defect repaired by d4402b6 (about `ulpOld`, not about the code) -/

/-- the pre-fix function returned `+0` for EVERY subnormal `x` of either sign, in every format
(`ldexp` underflow), so `x ± ulp x` was `x` itself. -/
theorem ulp_old_subnormal_is_zero (f : Fmt) (h : WF f) (x : Nat) (hx : x < 2 ^ f.width)
    (h0 : magBits f x ≠ 0) (hs : magBits f x < f.minNormalBits) : ulpOld f x = 0 := FAVerif.Ulp.ulp_subnormal f h x hx h0 hs

/-- regression witness (binary64, `x = 5e-324`, pattern 1; replayed on the real code by the search):
before the fix `ulp x` was `+0`; now it is pattern 1 and `x + ulp x` is the neighbour, pattern 2. -/
theorem ulp_regression_binary64 :
    ulpOld binary64 1 = 0 ∧ ulp binary64 1 = 1 ∧ nextUp binary64 1 = 2 ∧
    sval binary64 (nextUp binary64 1) = sval binary64 1 + sval binary64 (ulp binary64 1) := by decide

/-- regression witness (binary16): the largest subnormal `0x03ff` and the negative subnormal `0x8200` -/
theorem ulp_regression_binary16 :
    ulpOld binary16 0x03ff = 0 ∧ ulp binary16 0x03ff = 1 ∧ nextUp binary16 0x03ff = 0x0400 ∧
    ulpOld binary16 0x8200 = 0 ∧ ulp binary16 0x8200 = 1 ∧ nextDown binary16 0x8200 = 0x8201 ∧
    ulp binary16 0x0400 = 1 := by decide

/-! ## non-vacuity: the hypotheses are met by concrete non-trivial instances -/

example : WF binary16 ∧ WF binary32 ∧ WF binary64 := ⟨⟨by decide, by decide⟩, ⟨by decide, by decide⟩, ⟨by decide, by decide⟩⟩

/-- across zero: `-0 → min subnormal`, smallest negative subnormal `→ -0` -/
example : nextUp binary16 0x8000 = 1 ∧ nextUp binary16 0x8001 = 0x8000 ∧ isFiniteBits binary16 0x8001 = true ∧
    ord binary16 0x8001 = -1 ∧ ord binary16 0x8000 = 0 := by decide

/-- a chain crossing zero and a binade boundary: −2^-14·(1+2^-10) ≤ −0 ≤ largest subnormal ≤ 1.0 -/
example : MonoChain binary16 [0x8401, 0x8000, 0x03ff, 0x3c00] ∧
    chainSum binary16 (some false) [0x8401, 0x8000, 0x03ff, 0x3c00] = 1025 + 1023 + 14337 ∧
    diffUlp binary16 (some false) false 0x8401 0x3c00 = 16385 ∧
    chainSum binary16 (some true) [0x8401, 0x8000, 0x03ff, 0x3c00] = diffUlp binary16 (some true) false 0x8401 0x3c00 := by
  refine ⟨?_, by decide, by decide, by decide⟩
  simp only [MonoChain]; decide

/-- kth neighbour across zero -/
example : nextUpN binary16 5 0x8002 = 3 ∧ diffUlp binary16 (some false) false 0x8002 3 = 5 ∧
    (ord binary16 0x8002 + (5 : Nat) ≤ binary16.maxBits) := by decide

/-- flush: the exact half of the smallest normal goes to the normal, the pattern below it to zero -/
example : flushOrd binary16 0x0200 = 1 ∧ flushOrd binary16 0x01ff = 0 ∧ flushOrd binary16 0x8200 = -1 ∧
    diffUlp binary16 (some true) false 0x01ff 0x81ff = 0 ∧ diffUlp binary16 (some true) false 0x0200 0x8200 = 2 ∧
    diffUlp binary16 (some true) false 0x0400 0x0401 = 1 := by decide

/-- ulp identities at a normal value, at zero and at max (binary16: 1.0, 0, 65504) -/
example : pyLt0 binary16 0x3c00 = false ∧ binary16.minNormalBits ≤ magBits binary16 0x3c00 ∧
    sval binary16 (nextUp binary16 0x3c00) = sval binary16 0x3c00 + sval binary16 (ulp binary16 0x3c00) ∧
    ulp binary16 0x3c00 = 0x1400 ∧ ulp binary16 0x7bff = 0x5000 ∧ ulp binary16 0x7c00 = 0x7c00 ∧
    pyLt0 binary16 0xbc00 = true ∧
    sval binary16 (nextDown binary16 0xbc00) = sval binary16 0xbc00 - sval binary16 (ulp binary16 0xbc00) := by decide

/-- ulp identities at subnormals of both signs (binary16: 0x0001, 0x03ff → first normal, 0x8200) -/
example : pyLt0 binary16 0x0001 = false ∧ isFiniteBits binary16 0x03ff = true ∧ (0x03ff : Nat) ≠ binary16.maxBits ∧
    sval binary16 (nextUp binary16 0x03ff) = sval binary16 0x03ff + sval binary16 (ulp binary16 0x03ff) ∧
    pyLt0 binary16 0x8200 = true ∧
    sval binary16 (nextDown binary16 0x8200) = sval binary16 0x8200 - sval binary16 (ulp binary16 0x8200) := by decide

/-- complex: max of the components -/
example : complexDiffUlp binary32 (some false) false (0x3f800000, 0x80000001) (0x3f800003, 0x00000004) = 5 := by decide

end FAVerif.Props.C14
