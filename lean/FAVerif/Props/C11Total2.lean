/-
C11 — `next(x, up=False)` on bit patterns, unconditional, for float16 and float64 (float32: Props/C11Total.lean).
-/
import FAVerif.Props.C11Total

namespace FAVerif.Props.C11
open FAVerif.IR FAVerif.FP FAVerif.FPQ FAVerif.Gen.C11 FAVerif.Refine FAVerif.SoftRound FAVerif.Ovf

theorem next_down_checks :
    overflowFree binary16 [14] next_down_f16.nodes = true ∧ overflowFree binary64 [1022] next_down_f64.nodes = true ∧
    kindsOfS next_down_f16.nodes [] = some nextKinds ∧ kindsOfS next_down_f64.nodes [] = some nextKinds := by decide +kernel

/-- `next(x, up=False)` on a negative normal x = −m·2^e ≥ −2^14 is nextafter(x, −inf) = −(m+1)·2^e (float16) -/
theorem next_down_total_f16 (lib : Libm) (x : Nat) (m : Nat) (e : Int) (dx : decode binary16 x = .fin true m e)
    (nm : 2 ^ 10 ≤ m) (bx : (m : ℚ) * 2 ^ e ≤ 2 ^ (14 : ℤ)) :
    ∃ o : Nat, next_down_f16.eval lib [x] = some [o] ∧ isFiniteBits binary16 o = true ∧ toQ binary16 o = some (-(((m : ℚ) + 1) * 2 ^ e)) := by
  have hf : WF binary16 := ⟨by decide, by decide⟩
  obtain ⟨b1, b2⟩ := decode_bounds binary16 hf x true m e dx
  have hins := insRel1 (finite_of_decode _ _ _ _ _ dx) (toQ_fin _ x true m e dx)
  have hv : valQ true m e = -(((m : ℤ) : ℚ) * 2 ^ e) := by simp [valQ]
  rw [hv] at hins
  have hq := (next_up_generated_f16 (rne (qf binary16 hf.hp)) (qf binary16 hf.hp) rfl (isRN_rne _) (m : ℤ) e
    (by exact_mod_cast nm) (by exact_mod_cast b1) b2).2
  have hb : |(-(((m : ℤ) : ℚ) * 2 ^ e))| ≤ 2 ^ (14 : ℤ) := by
    rw [abs_neg, abs_of_nonneg (by positivity)]; exact_mod_cast bx
  obtain ⟨o, h1, h2, h3⟩ := total1 next_down_f16 hf Lmax_ge4'.1 nextKinds next_down_checks.2.2.1 6 (by decide) (by decide)
    [14] next_down_checks.1 lib [x] _ hins (hE_one hb) _ hq
  have hfm : next_down_f16.fmt = binary16 := by decide
  rw [hfm] at h2 h3
  exact ⟨o, h1, h2, by simpa using h3⟩

/-- the same for float64 (x ≥ −2^1022) -/
theorem next_down_total_f64 (lib : Libm) (x : Nat) (m : Nat) (e : Int) (dx : decode binary64 x = .fin true m e)
    (nm : 2 ^ 52 ≤ m) (bx : (m : ℚ) * 2 ^ e ≤ 2 ^ (1022 : ℤ)) :
    ∃ o : Nat, next_down_f64.eval lib [x] = some [o] ∧ isFiniteBits binary64 o = true ∧ toQ binary64 o = some (-(((m : ℚ) + 1) * 2 ^ e)) := by
  have hf : WF binary64 := ⟨by decide, by decide⟩
  obtain ⟨b1, b2⟩ := decode_bounds binary64 hf x true m e dx
  have hins := insRel1 (finite_of_decode _ _ _ _ _ dx) (toQ_fin _ x true m e dx)
  have hv : valQ true m e = -(((m : ℤ) : ℚ) * 2 ^ e) := by simp [valQ]
  rw [hv] at hins
  have hq := (next_up_generated_f64 (rne (qf binary64 hf.hp)) (qf binary64 hf.hp) rfl (isRN_rne _) (m : ℤ) e
    (by exact_mod_cast nm) (by exact_mod_cast b1) b2).2
  have hb : |(-(((m : ℤ) : ℚ) * 2 ^ e))| ≤ 2 ^ (1022 : ℤ) := by
    rw [abs_neg, abs_of_nonneg (by positivity)]; exact_mod_cast bx
  obtain ⟨o, h1, h2, h3⟩ := total1 next_down_f64 hf Lmax_ge4'.2 nextKinds next_down_checks.2.2.2 6 (by decide) (by decide)
    [1022] next_down_checks.2.1 lib [x] _ hins (hE_one hb) _ hq
  have hfm : next_down_f64.fmt = binary64 := by decide
  rw [hfm] at h2 h3
  exact ⟨o, h1, h2, by simpa using h3⟩

end FAVerif.Props.C11
