/-
C05 — executable targets (Python, NumPy, C++) compute exactly the traced graph.
Only property statements, their proofs' top level, and non-vacuity examples live here.
Model: Models/Printer.lean, Models/RefAlloc.lean; tables: Generated/C05Tables.lean (regenerated
from targets/python.py, numpy.py, cpp.py on every run).  Bit-identity of the *executed* code is
decided by differential runs (fav/props/c05.py), not here.
-/
import FAVerif.Lemmas.Printer
import FAVerif.Models.ConstName
import FAVerif.Generated.C05Tables
import FAVerif.Generated.C05Rows

namespace FAVerif.Props.C05
open FAVerif.Printer FAVerif.RefAlloc FAVerif.Gen.C05

/-! ## templates: every row of the regenerated `kind_to_target` tables

`rowOK t kind row`: the template tokenizes; its shape is one of the guarded shapes (every operand
placeholder alone in parentheses or a whole call argument); re-rendering the shape gives the
template back; and the shape — operator / primitive name and operand positions — is the one the
trusted primitive table `kindSem` assigns to the kind (subtract ↦ `({0}) - ({1})`, lt ↦ `<` /
`numpy.less`, floor ↦ `math.floor` / `numpy.floor` / `std::floor`, …).  Callable rows must install
the expected function.  Finite domain (the table), decided by `decide`; the generated file also
carries one named obligation per row.

FULL statement (false of the code as written):  ∀ r ∈ <target>Kinds, rowOK .<target> r.1 r.2
The rows in `exempt` are excluded, each with a negation witness below that is replayed on the
real printers by fav/props/c05.py. -/

/-- every Python row outside `exempt .python = [sign]` denotes its kind (`remainder` is full strength since /repo 3525211) -/
theorem templates_python : ∀ r ∈ pythonKinds, r.1 ∈ exempt .python ∨ rowOK .python r.1 r.2 = true := by decide +kernel

/-- every NumPy row outside `exempt .numpy = [item]` denotes its kind (`remainder` is full strength since /repo 3525211) -/
theorem templates_numpy : ∀ r ∈ numpyKinds, r.1 ∈ exempt .numpy ∨ rowOK .numpy r.1 r.2 = true := by decide +kernel

/-- every C++ row outside `exempt .cpp = [sign]` denotes its kind (`floor` is full strength since /repo 1e6d6d5) -/
theorem templates_cpp : ∀ r ∈ cppKinds, r.1 ∈ exempt .cpp ∨ rowOK .cpp r.1 r.2 = true := by decide +kernel

/-- `numpy item = "{0}[{1}]"` has the right shape; only guardedness of hole 0 is missing -/
theorem templates_numpy_item_shape : rowShapeOK .numpy "item" (.tmpl "{0}[{1}]") = true := by decide

/-- Negation witnesses for the exempt rows (literal rows of the pinned tree): the `sign` templates have bare
holes.  Regression witnesses for repaired rows: `std::floot` (fixed in /repo by 1e6d6d5) and python/numpy
`"({0}) %% ({1})"` (`%%` is not an operator; fixed by 3525211): the old rows are rejected, the repaired rows are
accepted (`templates_reject_examples`). -/
theorem templates_witness :
    rowOK .python "remainder" (.tmpl "({0}) %% ({1})") = false ∧
    rowOK .numpy "remainder" (.tmpl "({0}) %% ({1})") = false ∧
    rowOK .cpp "floor" (.tmpl "std::floot({0})") = false ∧
    parseShape ((tokenize "std::floot({0})").getD []) = .call "std::floot" [0] ∧
    rowOK .python "sign" (.tmpl "(0 if {0} == 0 else math.copysign(1, {0}))") = false ∧
    rowOK .cpp "sign" (.tmpl "({0} == 0 ? {0} : std::copysign(1, {0}))") = false ∧
    rowOK .numpy "item" (.tmpl "{0}[{1}]") = false := by decide

/-- the rows the brief's mutations break are rejected -/
theorem templates_reject_examples :
    rowOK .numpy "subtract" (.tmpl "({1}) - ({0})") = false ∧
    rowOK .python "lt" (.tmpl "({0}) <= ({1})") = false ∧
    rowOK .cpp "floor" (.tmpl "std::floor({0})") = true ∧
    rowOK .python "remainder" (.tmpl "({0}) % ({1})") = true ∧
    rowOK .numpy "remainder" (.tmpl "({0}) % ({1})") = true := by decide

/-- named constants: every row of `constant_to_target` is the trusted text -/
theorem consts_all :
    (∀ r ∈ pythonConsts, constOK .python r.1 r.2 = true) ∧
    (∀ r ∈ numpyConsts, constOK .numpy r.1 r.2 = true) ∧
    (∀ r ∈ cppConsts, constOK .cpp r.1 r.2 = true) := by decide

/-- types: every row of `type_to_target` is the trusted text -/
theorem types_all :
    (∀ r ∈ pythonTypes, typeOK .python r.1 r.2 = true) ∧
    (∀ r ∈ numpyTypes, typeOK .numpy r.1 r.2 = true) ∧
    (∀ r ∈ cppTypes, typeOK .cpp r.1 r.2 = true) := by decide

/-! ## the generic printer, for every DAG -/

/-- **ssa_wf**: for every well-formed DAG whose nodes have pairwise distinct reference names, every
`need_ref` table, every debug level and every set `D0` of initially bound names (the arguments): the
statement list printed for `root` passes the SSA scan from `D0` — each assignment targets a name
that is not bound yet and reads only names bound earlier, each assertion reads a bound name — and
the returned expression reads only bound names.  Moreover every statement assigns / checks the
reference name of a node of the graph, with that node's operation. -/
theorem ssa_wf {L : Type} (g : Graph L) (hwf : WF g) (hinj : RefInj g) (need : Printer.Name → Bool) (dbg : Nat)
    (D0 : List Printer.Name) (root : Nat) (hroot : root < g.length) :
    ∃ b, scan D0 (pr g need dbg (root + 1) { defined := D0, stmts := [] } root).2.stmts = some b ∧
      (∀ x ∈ (pr g need dbg (root + 1) { defined := D0, stmts := [] } root).1.vars, x ∈ b) ∧
      FromNodes g (pr g need dbg (root + 1) { defined := D0, stmts := [] } root).2.stmts := by
  have h := pr_ssa hwf hinj need dbg D0 (root + 1) { defined := D0, stmts := [] } root (by omega) hroot rfl
  obtain ⟨ex, hex, hf⟩ := h.ext
  refine ⟨_, h.scan, h.vars, ?_⟩
  rw [hex]; simpa using hf

/-- consequence in plain words: every variable is assigned exactly once, and never a name that was
already bound -/
theorem assigned_once {L : Type} (g : Graph L) (hwf : WF g) (hinj : RefInj g) (need : Printer.Name → Bool) (dbg : Nat)
    (D0 : List Printer.Name) (root : Nat) (hroot : root < g.length) :
    (assigned (pr g need dbg (root + 1) { defined := D0, stmts := [] } root).2.stmts).Nodup ∧
    ∀ x ∈ assigned (pr g need dbg (root + 1) { defined := D0, stmts := [] } root).2.stmts, x ∉ D0 := by
  obtain ⟨b, hs, _, _⟩ := ssa_wf g hwf hinj need dbg D0 root hroot
  have := scan_spec _ _ _ hs
  exact ⟨this.2.1, this.1⟩

/-- **sem_preserve**: for every well-formed DAG with distinct reference names, every primitive
semantics `prim`, every `need_ref` table, debug level and initial environment in which the initially
bound names hold the values of the nodes they name: executing the printed statements and then
evaluating the returned expression gives the value of the graph at `root`. -/
theorem sem_preserve {L V : Type} [Inhabited V] (g : Graph L) (hwf : WF g) (hinj : RefInj g)
    (prim : L → List V → V) (env0 : Env V) (need : Printer.Name → Bool) (dbg : Nat) (D0 : List Printer.Name)
    (hargs : ∀ r ∈ D0, ∃ (j : Nat) (n : Node L), g[j]? = some n ∧ n.ref = r ∧
      env0.get? r = some (valOf g prim (j + 1) j))
    (root : Nat) (hroot : root < g.length) :
    evalT prim (execStmts prim env0 (pr g need dbg (root + 1) { defined := D0, stmts := [] } root).2.stmts)
      (pr g need dbg (root + 1) { defined := D0, stmts := [] } root).1 = valOf g prim (root + 1) root :=
  (pr_sem hwf hinj need dbg D0 prim env0 (root + 1) { defined := D0, stmts := [] } root (by omega) hroot rfl
    (by intro r hr; exact hargs r hr)).2

/-- **debug_equiv**: debug level `dbg` prints the same expression and the same assignments as debug
level 0, with `check` statements (assertions) interleaved; executing them gives the same
environment. -/
theorem debug_equiv {L : Type} (g : Graph L) (need : Printer.Name → Bool) (dbg fuel : Nat) (D0 : List Printer.Name) (root : Nat) :
    (pr g need dbg fuel { defined := D0, stmts := [] } root).1 = (pr g need 0 fuel { defined := D0, stmts := [] } root).1 ∧
    stripChecks (pr g need dbg fuel { defined := D0, stmts := [] } root).2.stmts =
      (pr g need 0 fuel { defined := D0, stmts := [] } root).2.stmts ∧
    (pr g need dbg fuel { defined := D0, stmts := [] } root).2.defined =
      (pr g need 0 fuel { defined := D0, stmts := [] } root).2.defined ∧
    ∀ {V : Type} [Inhabited V] (prim : L → List V → V) (env : Env V),
      execStmts prim env (pr g need dbg fuel { defined := D0, stmts := [] } root).2.stmts =
        execStmts prim env (pr g need 0 fuel { defined := D0, stmts := [] } root).2.stmts := by
  have h := pr_debug g need dbg fuel { defined := D0, stmts := [] } root
  have hs : ({ defined := D0, stmts := [] } : St L).strip = { defined := D0, stmts := [] } := rfl
  rw [hs] at h
  have h2 : stripChecks (pr g need dbg fuel { defined := D0, stmts := [] } root).2.stmts =
      (pr g need 0 fuel { defined := D0, stmts := [] } root).2.stmts := congrArg St.stmts h.2
  refine ⟨h.1, h2, (congrArg St.defined h.2 : _), ?_⟩
  intro V _ prim env
  rw [← h2, exec_strip]

/-! ## no aliasing: the reference registry -/

/-- **registry_inj** (`RefAlloc.inj`, partial): along every history of `make_ref` calls in which the
branch of `_register_reference` that skips the suffix loop never commits a name that is already
registered (`GuardedRun`, the exact extra hypothesis), every expression's reference name is
registered to that expression; hence two expressions never hold the same registered name.

FULL statement (false of the code as written): `∀ cs, Consistent (run {} cs)` — see
`registry_inj_witness`. -/
theorem registry_inj_partial (cs : List Call) (hg : GuardedRun {} cs) :
    Consistent (run {} cs) ∧
    ∀ e1 e2 n, (run {} cs).refOf.lookup e1 = some n → (run {} cs).refOf.lookup e2 = some n → e1 = e2 :=
  ⟨run_consistent cs {} consistent_empty hg,
   fun _ _ _ h1 h2 => inj_of_consistent (run_consistent cs {} consistent_empty hg) h1 h2⟩

/-- at top level (every `origin` empty, i.e. no expression was created inside `Context.call`) the
extra hypothesis holds: the registry is injective for all histories -/
theorem registry_inj_toplevel (cs : List Call) (h : ∀ c ∈ cs, c.origin = "") :
    ∀ e1 e2 n, (run {} cs).refOf.lookup e1 = some n → (run {} cs).refOf.lookup e2 = some n → e1 = e2 :=
  (registry_inj_partial cs (guardedRun_toplevel cs {} h)).2

/-- Negation witness: `t` registered at top level; inside the call `_inner_1_` two different
expressions ask for `t`: both get `__inner_1_t_0_` (the second overwrites the registration of the
first).  Replayed on the real `Context` by fav/props/c05.py. -/
theorem registry_inj_witness :
    let s := run {} [⟨0, "", "t"⟩, ⟨1, "_inner_1_", "t"⟩, ⟨2, "_inner_1_", "t"⟩]
    s.refOf.lookup 1 = some "__inner_1_t_0_" ∧ s.refOf.lookup 2 = some "__inner_1_t_0_" := by decide

/-- **no_alias**: if the registry is consistent and the auto-generated (unregistered) name of a node
differs from the name of every other node — the side condition on auto-generated names, explicit —
then distinct nodes never share a name. -/
theorem no_alias (s : RState) (hc : Consistent s) (name : Nat → String) (registered : Nat → Bool)
    (hreg : ∀ i, registered i = true → s.refOf.lookup i = some (name i))
    (hauto : ∀ i j, registered i = false → i ≠ j → name i ≠ name j) :
    ∀ i j, name i = name j → i = j := by
  intro i j h
  cases hi : registered i with
  | false => exact Classical.byContradiction fun hne => hauto i j hi hne h
  | true =>
    cases hj : registered j with
    | false => exact Classical.byContradiction fun hne => hauto j i hj (fun e => hne e.symm) h.symm
    | true => exact inj_of_consistent hc (hreg i hi) (by rw [h]; exact hreg j hj)

/-- and then the printed program is alias free: `RefInj` is what `ssa_wf` / `sem_preserve` assume -/
theorem no_alias_graph {L : Type} (g : Graph L) (name : Nat → String)
    (hname : ∀ (i : Nat) (n : Node L), g[i]? = some n → n.ref = name i)
    (hinj : ∀ i j, name i = name j → i = j) : RefInj g := by
  intro i j ni nj hi hj h
  exact hinj i j (by rw [← hname i ni hi, ← hname j nj hj, h])

/-- The side condition fails for the real naming scheme (negation witnesses, on the model of
`make_ref`; replayed on the real code):
(1) the auto-generated name of a constant depends on its value only: `0.1` like `x: float32` and
    `0.1` like `y: float64` are different expressions with the same name;
(2) `kind_ref0_ref1` is ambiguous: `x + y_z` and `x_y + z` are both `add_x_y_z`. -/
def witnessNodes : List RNode :=
      [{ kind := "symbol", refName := some "x", text := "x" },
       { kind := "symbol", refName := some "y", text := "y" },
       { kind := "constant", operands := [0], text := "fx3fb999999999999a" },
       { kind := "constant", operands := [1], text := "fx3fb999999999999a" },
       { kind := "symbol", refName := some "y_z", text := "y_z" },
       { kind := "symbol", refName := some "x_y", text := "x_y" },
       { kind := "symbol", refName := some "z", text := "z" },
       { kind := "add", operands := [0, 4], intkey := 7 },
       { kind := "add", operands := [5, 6], intkey := 8 }]

theorem auto_names_witness :
    (makeRef witnessNodes 9 {} 2).2.toOption = some "constant_fx3fb999999999999a" ∧
    (makeRef witnessNodes 9 {} 3).2.toOption = some "constant_fx3fb999999999999a" ∧
    (makeRef witnessNodes 9 {} 7).2.toOption = some "add_x_y_z" ∧
    (makeRef witnessNodes 9 {} 8).2.toOption = some "add_x_y_z" := by decide

/-! ## the value part of an auto-generated constant name (`toidentifier`, Models/ConstName.lean)

FULL statement wanted by `no_alias`: `ident` is injective — two constants with different values (of one
`like` type) never get the same name `constant_<ident>`.  Proved for ints; for floats / complex values it is
decided by search (value families, every run); two former collisions are regression witnesses: -/

open FAVerif.ConstName in
/-- the name of a complex constant is `"c"` followed by the names of BOTH parts; constants with the same
real part and different imaginary parts (1j / 2j, 1+2j / 1+3j, a value and its conjugate), or the same
imaginary part and different real parts, get different names (samples; the injectivity of the float part is
decided by search, see notes) -/
theorem const_name_complex_examples :
    (ident (.pycomplex 0 0x3ff0000000000000)).toOption = some "cf0f1" ∧
    (ident (.pycomplex 0 0x4000000000000000)).toOption = some "cf0f2" ∧
    (ident (.pycomplex 0x3ff0000000000000 0x4000000000000000)).toOption = some "cf1f2" ∧
    (ident (.pycomplex 0x3ff0000000000000 0x4008000000000000)).toOption = some "cf1f3" ∧
    (ident (.pycomplex 0x3ff0000000000000 0xc000000000000000)).toOption = some "cf1fneg2" ∧
    (ident (.pycomplex 0x4000000000000000 0x4000000000000000)).toOption = some "cf2f2" ∧
    (ident (.npcomplex 32 0x3f800000 0x40000000)).toOption = some "cf1f2" ∧
    (ident (.pycomplex 0x3fb999999999999a 0x3fc999999999999a)).toOption = some "cfx3fb999999999999afx3fc999999999999a" := by decide +kernel

open FAVerif.ConstName in
/-- ints: the name is injective in the value (for every pair of ints) -/
theorem const_name_int_inj (a b : Int) (h : identInt a = identInt b) : a = b :=
  FAVerif.ConstName.identInt_inj a b h

open FAVerif.ConstName in
/-- Regression witnesses for two repaired collisions (both were known findings, replayed on the real code):
(1) the sign of zero (fixed in /repo by a45d4e7): `0.0` ↦ `f0` but `-0.0` ↦ `fneg0`, `1+0j` ↦ `cf1f0` but its
    conjugate `1-0j` ↦ `cf1fneg0`; numpy float32 `-0.0` ↦ `fneg0`;
(2) numpy scalars (fixed by b8b6842): every byte of a non-integral value is printed as TWO hex digits, so the
    float32 patterns 0x3f011000 and 0x3f110000 are `f0x3f011000` and `f0x3f110000`; the old un-padded encoding
    (`hexBytesOld`) mapped both to `3f1100`. -/
theorem const_name_regression :
    (ident (.pyfloat 0)).toOption = some "f0" ∧ (ident (.pyfloat 0x8000000000000000)).toOption = some "fneg0" ∧
    (ident (.pycomplex 0x3ff0000000000000 0)).toOption = some "cf1f0" ∧
    (ident (.pycomplex 0x3ff0000000000000 0x8000000000000000)).toOption = some "cf1fneg0" ∧
    (ident (.npfloat 32 0x80000000)).toOption = some "fneg0" ∧
    (ident (.npfloat 32 0x3f011000)).toOption = some "f0x3f011000" ∧
    (ident (.npfloat 32 0x3f110000)).toOption = some "f0x3f110000" ∧
    hexBytesOld 32 0x3f011000 = "3f1100" ∧ hexBytesOld 32 0x3f110000 = "3f1100" := by decide +kernel

/-! ## non-vacuity: a concrete DAG with sharing meets every hypothesis -/

/-- `x`, `y`, `t = x + y` (used twice), `t * t` -/
def exG : Graph String :=
  [{ lab := "x", pargs := [], cargs := [], ref := "x", force := true },
   { lab := "y", pargs := [], cargs := [], ref := "y", force := true },
   { lab := "add", pargs := [0, 1], cargs := [0, 1], ref := "add_x_y" },
   { lab := "mul", pargs := [2, 2], cargs := [2, 2], ref := "mul_2" }]

def exPrim (l : String) (a : List Int) : Int :=
  match l, a with
  | "x", _ => 3
  | "y", _ => 4
  | "add", [p, q] => p + q
  | "mul", [p, q] => p * q
  | _, _ => 0

example : WF exG := wf_of_check exG (by decide)
example : RefInj exG := refInj_of_nodup exG (by decide)
example : (countRefs exG 5 [] 3).need "add_x_y" = true ∧ (countRefs exG 5 [] 3).need "mul_2" = false := by decide
/-- the shared sum is assigned once (with an assertion at debug 1) and used twice -/
example : (pr exG (countRefs exG 5 [] 3).need 1 4 { defined := ["y", "x"], stmts := [] } 3).2.stmts.map (Stmt.toSexp id) =
      ["(assign add_x_y add (add x y))", "(check add_x_y add)"] ∧
    (pr exG (countRefs exG 5 [] 3).need 1 4 { defined := ["y", "x"], stmts := [] } 3).1.toSexp id =
      "(mul add_x_y add_x_y)" := by decide
example : valOf exG exPrim 4 3 = 49 := by decide
/-- a guarded history with a name clash resolved by the suffix loop -/
example : GuardedRun {} [⟨0, "", "t"⟩, ⟨1, "", "t"⟩, ⟨2, "_f_1_", "u"⟩] := guardedRun_of_B _ _ (by decide)

end FAVerif.Props.C05
