/-
C10 — corollaries: the unconditional bit-level theorems transported to the `apmath` building blocks (`two_sum`, `quick_two_sum`,
`two_prod`: what the expansion arithmetic of C12 is built on) and to the copies inside `algorithms.py` (`add_2sum`, `square_dekker`),
through `copies_agree_*` (the programs regenerated from those entry points evaluate to the same bit patterns).
-/
import FAVerif.Props.C10Total6
import FAVerif.Props.C10Total2
import FAVerif.Props.C10ScaledTotal

namespace FAVerif.Props.C10
open FAVerif.IR FAVerif.FP FAVerif.FPQ FAVerif.Gen.C10 FAVerif.Refine FAVerif.SoftRound FAVerif.Ovf FAVerif.EFT

theorem apmath_two_sum_total_f16 (lib : Libm) (x y : Nat) (qx qy : ℚ) (hx : isFiniteBits binary16 x = true) (hy : isFiniteBits binary16 y = true)
    (vx : toQ binary16 x = some qx) (vy : toQ binary16 y = some qy) (bx : |qx| ≤ 2 ^ (10 : ℤ)) (bY : |qy| ≤ 2 ^ (10 : ℤ)) :
    ∃ s t : Nat, apmath_two_sum_f16.eval lib [x, y] = some [s, t] ∧ isFiniteBits binary16 s = true ∧ isFiniteBits binary16 t = true ∧
      ∃ qs qt : ℚ, toQ binary16 s = some qs ∧ toQ binary16 t = some qt ∧ qs = rne (qf binary16 (by decide)) (qx + qy) ∧ qs + qt = qx + qy := by
  rw [(copies_agree_f16 lib x y).1]
  exact twosum_total_f16 lib x y qx qy hx hy vx vy bx bY

theorem apmath_quick_two_sum_total_f16 (lib : Libm) (x y : Nat) (qx qy : ℚ) (hx : isFiniteBits binary16 x = true) (hy : isFiniteBits binary16 y = true)
    (vx : toQ binary16 x = some qx) (vy : toQ binary16 y = some qy) (hxy : |qy| ≤ |qx|) (bx : |qx| ≤ 2 ^ (12 : ℤ)) :
    ∃ s t : Nat, apmath_quick_two_sum_f16.eval lib [x, y] = some [s, t] ∧ isFiniteBits binary16 s = true ∧ isFiniteBits binary16 t = true ∧
      ∃ qs qt : ℚ, toQ binary16 s = some qs ∧ toQ binary16 t = some qt ∧ qs = rne (qf binary16 (by decide)) (qx + qy) ∧ qs + qt = qx + qy := by
  rw [(copies_agree_f16 lib x y).2.1]
  exact fast2sum_total_f16 lib x y qx qy hx hy vx vy hxy bx

theorem alg_add_2sum_total_f16 (lib : Libm) (x y : Nat) (qx qy : ℚ) (hx : isFiniteBits binary16 x = true) (hy : isFiniteBits binary16 y = true)
    (vx : toQ binary16 x = some qx) (vy : toQ binary16 y = some qy) (bx : |qx| ≤ 2 ^ (10 : ℤ)) (bY : |qy| ≤ 2 ^ (10 : ℤ)) :
    ∃ s t : Nat, alg_add_2sum_f16.eval lib [x, y] = some [s, t] ∧ isFiniteBits binary16 s = true ∧ isFiniteBits binary16 t = true ∧
      ∃ qs qt : ℚ, toQ binary16 s = some qs ∧ toQ binary16 t = some qt ∧ qs = rne (qf binary16 (by decide)) (qx + qy) ∧ qs + qt = qx + qy := by
  rw [(copies_agree_f16 lib x y).2.2.2.2.2.2.1]
  exact twosum_total_f16 lib x y qx qy hx hy vx vy bx bY

theorem alg_add_2sum_fast_total_f16 (lib : Libm) (x y : Nat) (qx qy : ℚ) (hx : isFiniteBits binary16 x = true) (hy : isFiniteBits binary16 y = true)
    (vx : toQ binary16 x = some qx) (vy : toQ binary16 y = some qy) (hxy : |qy| ≤ |qx|) (bx : |qx| ≤ 2 ^ (12 : ℤ)) :
    ∃ s t : Nat, alg_add_2sum_fast_f16.eval lib [x, y] = some [s, t] ∧ isFiniteBits binary16 s = true ∧ isFiniteBits binary16 t = true ∧
      ∃ qs qt : ℚ, toQ binary16 s = some qs ∧ toQ binary16 t = some qt ∧ qs = rne (qf binary16 (by decide)) (qx + qy) ∧ qs + qt = qx + qy := by
  rw [(copies_agree_f16 lib x y).2.2.2.2.2.2.2]
  exact fast2sum_total_f16 lib x y qx qy hx hy vx vy hxy bx

theorem apmath_two_sum_total_f32 (lib : Libm) (x y : Nat) (qx qy : ℚ) (hx : isFiniteBits binary32 x = true) (hy : isFiniteBits binary32 y = true)
    (vx : toQ binary32 x = some qx) (vy : toQ binary32 y = some qy) (bx : |qx| ≤ 2 ^ (122 : ℤ)) (bY : |qy| ≤ 2 ^ (122 : ℤ)) :
    ∃ s t : Nat, apmath_two_sum_f32.eval lib [x, y] = some [s, t] ∧ isFiniteBits binary32 s = true ∧ isFiniteBits binary32 t = true ∧
      ∃ qs qt : ℚ, toQ binary32 s = some qs ∧ toQ binary32 t = some qt ∧ qs = rne (qf binary32 (by decide)) (qx + qy) ∧ qs + qt = qx + qy := by
  rw [(copies_agree_f32 lib x y).1]
  exact twosum_total_f32 lib x y qx qy hx hy vx vy bx bY

theorem apmath_quick_two_sum_total_f32 (lib : Libm) (x y : Nat) (qx qy : ℚ) (hx : isFiniteBits binary32 x = true) (hy : isFiniteBits binary32 y = true)
    (vx : toQ binary32 x = some qx) (vy : toQ binary32 y = some qy) (hxy : |qy| ≤ |qx|) (bx : |qx| ≤ 2 ^ (124 : ℤ)) :
    ∃ s t : Nat, apmath_quick_two_sum_f32.eval lib [x, y] = some [s, t] ∧ isFiniteBits binary32 s = true ∧ isFiniteBits binary32 t = true ∧
      ∃ qs qt : ℚ, toQ binary32 s = some qs ∧ toQ binary32 t = some qt ∧ qs = rne (qf binary32 (by decide)) (qx + qy) ∧ qs + qt = qx + qy := by
  rw [(copies_agree_f32 lib x y).2.1]
  exact fast2sum_total_f32 lib x y qx qy hx hy vx vy hxy bx

theorem alg_add_2sum_total_f32 (lib : Libm) (x y : Nat) (qx qy : ℚ) (hx : isFiniteBits binary32 x = true) (hy : isFiniteBits binary32 y = true)
    (vx : toQ binary32 x = some qx) (vy : toQ binary32 y = some qy) (bx : |qx| ≤ 2 ^ (122 : ℤ)) (bY : |qy| ≤ 2 ^ (122 : ℤ)) :
    ∃ s t : Nat, alg_add_2sum_f32.eval lib [x, y] = some [s, t] ∧ isFiniteBits binary32 s = true ∧ isFiniteBits binary32 t = true ∧
      ∃ qs qt : ℚ, toQ binary32 s = some qs ∧ toQ binary32 t = some qt ∧ qs = rne (qf binary32 (by decide)) (qx + qy) ∧ qs + qt = qx + qy := by
  rw [(copies_agree_f32 lib x y).2.2.2.2.2.2.1]
  exact twosum_total_f32 lib x y qx qy hx hy vx vy bx bY

theorem alg_add_2sum_fast_total_f32 (lib : Libm) (x y : Nat) (qx qy : ℚ) (hx : isFiniteBits binary32 x = true) (hy : isFiniteBits binary32 y = true)
    (vx : toQ binary32 x = some qx) (vy : toQ binary32 y = some qy) (hxy : |qy| ≤ |qx|) (bx : |qx| ≤ 2 ^ (124 : ℤ)) :
    ∃ s t : Nat, alg_add_2sum_fast_f32.eval lib [x, y] = some [s, t] ∧ isFiniteBits binary32 s = true ∧ isFiniteBits binary32 t = true ∧
      ∃ qs qt : ℚ, toQ binary32 s = some qs ∧ toQ binary32 t = some qt ∧ qs = rne (qf binary32 (by decide)) (qx + qy) ∧ qs + qt = qx + qy := by
  rw [(copies_agree_f32 lib x y).2.2.2.2.2.2.2]
  exact fast2sum_total_f32 lib x y qx qy hx hy vx vy hxy bx

theorem apmath_two_sum_total_f64 (lib : Libm) (x y : Nat) (qx qy : ℚ) (hx : isFiniteBits binary64 x = true) (hy : isFiniteBits binary64 y = true)
    (vx : toQ binary64 x = some qx) (vy : toQ binary64 y = some qy) (bx : |qx| ≤ 2 ^ (1018 : ℤ)) (bY : |qy| ≤ 2 ^ (1018 : ℤ)) :
    ∃ s t : Nat, apmath_two_sum_f64.eval lib [x, y] = some [s, t] ∧ isFiniteBits binary64 s = true ∧ isFiniteBits binary64 t = true ∧
      ∃ qs qt : ℚ, toQ binary64 s = some qs ∧ toQ binary64 t = some qt ∧ qs = rne (qf binary64 (by decide)) (qx + qy) ∧ qs + qt = qx + qy := by
  rw [(copies_agree_f64 lib x y).1]
  exact twosum_total_f64 lib x y qx qy hx hy vx vy bx bY

theorem apmath_quick_two_sum_total_f64 (lib : Libm) (x y : Nat) (qx qy : ℚ) (hx : isFiniteBits binary64 x = true) (hy : isFiniteBits binary64 y = true)
    (vx : toQ binary64 x = some qx) (vy : toQ binary64 y = some qy) (hxy : |qy| ≤ |qx|) (bx : |qx| ≤ 2 ^ (1020 : ℤ)) :
    ∃ s t : Nat, apmath_quick_two_sum_f64.eval lib [x, y] = some [s, t] ∧ isFiniteBits binary64 s = true ∧ isFiniteBits binary64 t = true ∧
      ∃ qs qt : ℚ, toQ binary64 s = some qs ∧ toQ binary64 t = some qt ∧ qs = rne (qf binary64 (by decide)) (qx + qy) ∧ qs + qt = qx + qy := by
  rw [(copies_agree_f64 lib x y).2.1]
  exact fast2sum_total_f64 lib x y qx qy hx hy vx vy hxy bx

theorem alg_add_2sum_total_f64 (lib : Libm) (x y : Nat) (qx qy : ℚ) (hx : isFiniteBits binary64 x = true) (hy : isFiniteBits binary64 y = true)
    (vx : toQ binary64 x = some qx) (vy : toQ binary64 y = some qy) (bx : |qx| ≤ 2 ^ (1018 : ℤ)) (bY : |qy| ≤ 2 ^ (1018 : ℤ)) :
    ∃ s t : Nat, alg_add_2sum_f64.eval lib [x, y] = some [s, t] ∧ isFiniteBits binary64 s = true ∧ isFiniteBits binary64 t = true ∧
      ∃ qs qt : ℚ, toQ binary64 s = some qs ∧ toQ binary64 t = some qt ∧ qs = rne (qf binary64 (by decide)) (qx + qy) ∧ qs + qt = qx + qy := by
  rw [(copies_agree_f64 lib x y).2.2.2.2.2.2.1]
  exact twosum_total_f64 lib x y qx qy hx hy vx vy bx bY

theorem alg_add_2sum_fast_total_f64 (lib : Libm) (x y : Nat) (qx qy : ℚ) (hx : isFiniteBits binary64 x = true) (hy : isFiniteBits binary64 y = true)
    (vx : toQ binary64 x = some qx) (vy : toQ binary64 y = some qy) (hxy : |qy| ≤ |qx|) (bx : |qx| ≤ 2 ^ (1020 : ℤ)) :
    ∃ s t : Nat, alg_add_2sum_fast_f64.eval lib [x, y] = some [s, t] ∧ isFiniteBits binary64 s = true ∧ isFiniteBits binary64 t = true ∧
      ∃ qs qt : ℚ, toQ binary64 s = some qs ∧ toQ binary64 t = some qt ∧ qs = rne (qf binary64 (by decide)) (qx + qy) ∧ qs + qt = qx + qy := by
  rw [(copies_agree_f64 lib x y).2.2.2.2.2.2.2]
  exact fast2sum_total_f64 lib x y qx qy hx hy vx vy hxy bx

/-- `apmath.two_prod` (default options) on bit patterns, unconditional (binary32) -/
theorem apmath_two_prod_total_f32 (lib : Libm) (x y : Nat) (sx sy : Bool) (mx my : Nat) (ex ey : Int)
    (dx : decode binary32 x = .fin sx mx ex) (dy : decode binary32 y = .fin sy my ey)
    (nx : 2 ^ 23 ≤ mx) (ny : 2 ^ 23 ≤ my) (hex : binary32.emin + 12 ≤ ex) (hey : binary32.emin + 12 ≤ ey) (hund : binary32.emin ≤ ex + ey)
    (bx : |valQ sx mx ex| ≤ 2 ^ (46 : ℤ)) (bY : |valQ sy my ey| ≤ 2 ^ (46 : ℤ)) :
    ∃ h l : Nat, apmath_two_prod_f32.eval lib [x, y] = some [h, l] ∧ isFiniteBits binary32 h = true ∧ isFiniteBits binary32 l = true ∧
      ∃ qh ql : ℚ, toQ binary32 h = some qh ∧ toQ binary32 l = some ql ∧
        qh = rne (qf binary32 (by decide)) (valQ sx mx ex * valQ sy my ey) ∧ qh + ql = valQ sx mx ex * valQ sy my ey := by
  rw [(copies_agree_f32 lib x y).2.2.2.1]
  exact dekker_default_total_f32 lib x y sx sy mx my ex ey dx dy nx ny hex hey hund bx bY

/-- the `square_dekker` copy inside `algorithms.py` (used by complex log / log1p) on bit patterns, unconditional (binary32) -/
theorem alg_square_total_f32 (lib : Libm) (x : Nat) (sx : Bool) (mx : Nat) (ex : Int)
    (dx : decode binary32 x = .fin sx mx ex) (nx : 2 ^ 23 ≤ mx) (hund : binary32.emin ≤ ex + ex) (bx : |valQ sx mx ex| ≤ 2 ^ (46 : ℤ)) :
    ∃ h l : Nat, alg_square_dekker_f32.eval lib [x] = some [h, l] ∧ isFiniteBits binary32 h = true ∧ isFiniteBits binary32 l = true ∧
      ∃ qh ql : ℚ, toQ binary32 h = some qh ∧ toQ binary32 l = some ql ∧
        qh = rne (qf binary32 (by decide)) (valQ sx mx ex * valQ sx mx ex) ∧ qh + ql = valQ sx mx ex * valQ sx mx ex := by
  rw [(copies_agree_f32 lib x x).2.2.2.2.2.1]
  exact utils_square_total_f32 lib x sx mx ex dx nx hund bx

/-- `apmath.two_prod` (default options) on bit patterns, unconditional (binary64) -/
theorem apmath_two_prod_total_f64 (lib : Libm) (x y : Nat) (sx sy : Bool) (mx my : Nat) (ex ey : Int)
    (dx : decode binary64 x = .fin sx mx ex) (dy : decode binary64 y = .fin sy my ey)
    (nx : 2 ^ 52 ≤ mx) (ny : 2 ^ 52 ≤ my) (hex : binary64.emin + 27 ≤ ex) (hey : binary64.emin + 27 ≤ ey) (hund : binary64.emin ≤ ex + ey)
    (bx : |valQ sx mx ex| ≤ 2 ^ (479 : ℤ)) (bY : |valQ sy my ey| ≤ 2 ^ (479 : ℤ)) :
    ∃ h l : Nat, apmath_two_prod_f64.eval lib [x, y] = some [h, l] ∧ isFiniteBits binary64 h = true ∧ isFiniteBits binary64 l = true ∧
      ∃ qh ql : ℚ, toQ binary64 h = some qh ∧ toQ binary64 l = some ql ∧
        qh = rne (qf binary64 (by decide)) (valQ sx mx ex * valQ sy my ey) ∧ qh + ql = valQ sx mx ex * valQ sy my ey := by
  rw [(copies_agree_f64 lib x y).2.2.2.1]
  exact dekker_default_total_f64 lib x y sx sy mx my ex ey dx dy nx ny hex hey hund bx bY

/-- the `square_dekker` copy inside `algorithms.py` (used by complex log / log1p) on bit patterns, unconditional (binary64) -/
theorem alg_square_total_f64 (lib : Libm) (x : Nat) (sx : Bool) (mx : Nat) (ex : Int)
    (dx : decode binary64 x = .fin sx mx ex) (nx : 2 ^ 52 ≤ mx) (hund : binary64.emin ≤ ex + ex) (bx : |valQ sx mx ex| ≤ 2 ^ (479 : ℤ)) :
    ∃ h l : Nat, alg_square_dekker_f64.eval lib [x] = some [h, l] ∧ isFiniteBits binary64 h = true ∧ isFiniteBits binary64 l = true ∧
      ∃ qh ql : ℚ, toQ binary64 h = some qh ∧ toQ binary64 l = some ql ∧
        qh = rne (qf binary64 (by decide)) (valQ sx mx ex * valQ sx mx ex) ∧ qh + ql = valQ sx mx ex * valQ sx mx ex := by
  rw [(copies_agree_f64 lib x x).2.2.2.2.2.1]
  exact utils_square_total_f64 lib x sx mx ex dx nx hund bx

end FAVerif.Props.C10
