namespace FAVerif.Props.Smoke
theorem t1 (a b : Nat) : a + b = b + a := by omega
theorem t2 (p : Prop) : p ∨ ¬p := Classical.em p
end FAVerif.Props.Smoke
