/-
C01 — complex `absolute` on BIT PATTERNS with no assumption about the run (see Props/C02HypotTotal.lean): for all finite
parts in the box 2^(emin+p) ≤ max(|x|,|y|) ≤ Lmax/2 the run of the fully expanded regenerated program exists, no node
overflows, and the result is within 3.51 u of |z| (< 4 ULP; the property asks for 16).
-/
import FAVerif.Props.C01AbsBits
import FAVerif.Lemmas.HypotTotal

namespace FAVerif.Props.C01
open FAVerif.IR FAVerif.FP FAVerif.FPQ FAVerif.Gen.C01 FAVerif.Spec FAVerif.EFT FAVerif.Refine FAVerif.SoftRound

theorem Lmax_ge4 : 4 ≤ Lmax binary32 ∧ 4 ≤ Lmax binary64 := by
  have h1 : Lmax binary32 = ((2 : ℚ) ^ 24 - 1) * 2 ^ (104 : ℤ) := rfl
  have h2 : Lmax binary64 = ((2 : ℚ) ^ 53 - 1) * 2 ^ (971 : ℤ) := rfl
  constructor
  · rw [h1]
    have : (1 : ℚ) ≤ 2 ^ (104 : ℤ) := one_le_zpow₀ (by norm_num) (by norm_num)
    have h3 : (4 : ℚ) ≤ 2 ^ 24 - 1 := by norm_num
    calc (4 : ℚ) = 4 * 1 := by ring
      _ ≤ (2 ^ 24 - 1) * 2 ^ (104 : ℤ) := mul_le_mul h3 this (by norm_num) (by linarith)
  · rw [h2]
    have : (1 : ℚ) ≤ 2 ^ (971 : ℤ) := one_le_zpow₀ (by norm_num) (by norm_num)
    have h3 : (4 : ℚ) ≤ 2 ^ 53 - 1 := by norm_num
    calc (4 : ℚ) = 4 * 1 := by ring
      _ ≤ (2 ^ 53 - 1) * 2 ^ (971 : ℤ) := mul_le_mul h3 this (by norm_num) (by linarith)

theorem absolute_total_c64 (lib : Libm) (x y : Nat) (qx qy : ℚ) (hx : isFiniteBits binary32 x = true) (hy : isFiniteBits binary32 y = true)
    (vx : toQ binary32 x = some qx) (vy : toQ binary32 y = some qy)
    (hlo : 2 ^ (-125 : ℤ) ≤ max |qx| |qy|) (hhi : max |qx| |qy| ≤ Lmax binary32 / 2) :
    ∃ (o : Nat) (H : ℚ), absolute_c64.eval lib [x, y] = some [o] ∧ isFiniteBits binary32 o = true ∧ toQ binary32 o = some H ∧ 0 ≤ H ∧
      (1 - (1 : ℚ) / 2 ^ 24) ^ 7 * (qx ^ 2 + qy ^ 2) ≤ H ^ 2 ∧ H ^ 2 ≤ (1 + (1 : ℚ) / 2 ^ 24) ^ 7 * (qx ^ 2 + qy ^ 2) := by
  obtain ⟨c1, c2, c3, c4, -, -, -, -⟩ := absolute_constants
  obtain ⟨b1, b2, -, -⟩ := sqrt2_bounds
  obtain ⟨t1, t2, t3, -, -, -⟩ := ties_absolute
  exact hypot_total_of absolute_c64 ⟨by decide, by decide⟩ (by decide) (by decide) Lmax_ge4.1 _ _ _ _ sqrt2_c64 t1 t2 absolute_kinds.1
    c1 c2 c3 c4 (by unfold sqrt2_c64; norm_num) (by exact b1) (by exact b2) lib x y qx qy hx hy vx vy hlo hhi

theorem absolute_total_c128 (lib : Libm) (x y : Nat) (qx qy : ℚ) (hx : isFiniteBits binary64 x = true) (hy : isFiniteBits binary64 y = true)
    (vx : toQ binary64 x = some qx) (vy : toQ binary64 y = some qy)
    (hlo : 2 ^ (-1021 : ℤ) ≤ max |qx| |qy|) (hhi : max |qx| |qy| ≤ Lmax binary64 / 2) :
    ∃ (o : Nat) (H : ℚ), absolute_c128.eval lib [x, y] = some [o] ∧ isFiniteBits binary64 o = true ∧ toQ binary64 o = some H ∧ 0 ≤ H ∧
      (1 - (1 : ℚ) / 2 ^ 53) ^ 7 * (qx ^ 2 + qy ^ 2) ≤ H ^ 2 ∧ H ^ 2 ≤ (1 + (1 : ℚ) / 2 ^ 53) ^ 7 * (qx ^ 2 + qy ^ 2) := by
  obtain ⟨-, -, -, -, c1, c2, c3, c4⟩ := absolute_constants
  obtain ⟨-, -, b1, b2⟩ := sqrt2_bounds
  obtain ⟨-, -, -, t1, t2, t3⟩ := ties_absolute
  exact hypot_total_of absolute_c128 ⟨by decide, by decide⟩ (by decide) (by decide) Lmax_ge4.2 _ _ _ _ sqrt2_c128 t1 t2 absolute_kinds.2
    c1 c2 c3 c4 (by unfold sqrt2_c128; norm_num) (by exact b1) (by exact b2) lib x y qx qy hx hy vx vy hlo hhi

end FAVerif.Props.C01
