/-
C02 — accuracy of the real `hypot` on the regenerated programs (float32, float64), for EVERY pair of rational inputs
whose larger magnitude is at least twice the smallest normal number, absent overflow, any round-to-nearest, any square
root with relative error ≤ u:    (1−u)^7 (x²+y²) ≤ H² ≤ (1+u)^7 (x²+y²),   i.e. |H/√(x²+y²) − 1| < 3.51 u  (< 4 ULP).
-/
import FAVerif.Generated.C02
import FAVerif.Lemmas.HypotProg
import FAVerif.Lemmas.SqrtExists
import FAVerif.Lemmas.RNE

namespace FAVerif.Props.C02
open FAVerif.IR FAVerif.FP FAVerif.FPQ FAVerif.Gen.C02 FAVerif.Spec FAVerif.EFT

def sqrt2_f32 : ℚ := 11863283 / 8388608
def sqrt2_f64 : ℚ := 6369051672525773 / 4503599627370496

/-- the constants of the two regenerated programs -/
theorem hypot_constants :
    (decode binary32 1068827891).toRat? = some sqrt2_f32 ∧ (decode binary32 1065353216).toRat? = some 1 ∧
    (decode binary32 0).toRat? = some 0 ∧ (decode binary32 1073741824).toRat? = some 2 ∧
    (decode binary64 4609047870845172685).toRat? = some sqrt2_f64 ∧ (decode binary64 4607182418800017408).toRat? = some 1 ∧
    (decode binary64 0).toRat? = some 0 ∧ (decode binary64 4611686018427387904).toRat? = some 2 := by decide +kernel

/-- the constant `sqrt_two` is √2 to within one unit roundoff (stated on squares) -/
theorem sqrt2_bounds :
    (1 - (1 : ℚ) / 2 ^ 24) ^ 2 * 2 ≤ sqrt2_f32 ^ 2 ∧ sqrt2_f32 ^ 2 ≤ (1 + (1 : ℚ) / 2 ^ 24) ^ 2 * 2 ∧
    (1 - (1 : ℚ) / 2 ^ 53) ^ 2 * 2 ≤ sqrt2_f64 ^ 2 ∧ sqrt2_f64 ^ 2 ≤ (1 + (1 : ℚ) / 2 ^ 53) ^ 2 * 2 := by
  unfold sqrt2_f32 sqrt2_f64; norm_num

/-- **Tie to the source**: the regenerated `hypot` programs are node for node the specification program. -/
theorem ties_hypot :
    hypot_f32.nodes = hypotNodes 1068827891 1065353216 0 1073741824 ∧ hypot_f32.outs = hypotOuts ∧ hypot_f32.fmt = binary32 ∧
    hypot_f64.nodes = hypotNodes 4609047870845172685 4607182418800017408 0 4611686018427387904 ∧ hypot_f64.outs = hypotOuts ∧
    hypot_f64.fmt = binary64 := by decide +kernel

/-- **Accuracy of `hypot`, every precision** (the specification program with any constants that decode to
σ2 ≈ √2, 1, 0, 2). -/
theorem hypot_accuracy (q : QFmt) (r S : ℚ → ℚ) (hr : IsRN q r) (hS : SqrtOK q S) (hp : 8 ≤ q.p) (hem : q.emin + 2 * q.p + 2 ≤ 0)
    (fm : Fmt) (s2b oneb zb twob : Nat) (σ2 : ℚ)
    (hC : (decode fm s2b).toRat? = some σ2) (h1 : (decode fm oneb).toRat? = some 1)
    (h0 : (decode fm zb).toRat? = some 0) (h2 : (decode fm twob).toRat? = some 2)
    (hσ0 : 0 ≤ σ2) (hσlo : (1 - uro q) ^ 2 * 2 ≤ σ2 ^ 2) (hσhi : σ2 ^ 2 ≤ (1 + uro q) ^ 2 * 2)
    (x y : ℚ) (hmx : 2 ^ (q.emin + (q.p : ℤ)) ≤ max |x| |y|) :
    ∃ H, evalQS fm r S (hypotNodes s2b oneb zb twob) hypotOuts [x, y] = some [H] ∧ 0 ≤ H ∧
      (1 - uro q) ^ 7 * (x ^ 2 + y ^ 2) ≤ H ^ 2 ∧ H ^ 2 ≤ (1 + uro q) ^ 7 * (x ^ 2 + y ^ 2) :=
  hypot_prog hr hS hp hem fm s2b oneb zb twob σ2 hC h1 h0 h2 hσ0 hσlo hσhi x y hmx

/-- **End to end on the regenerated programs**: float32 (p = 24) and float64 (p = 53), any emin ≤ −2p−2. -/
theorem hypot_generated (r S : ℚ → ℚ) (x y : ℚ) :
    (∀ q : QFmt, q.p = 24 → q.emin ≤ -50 → IsRN q r → SqrtOK q S → 2 ^ (q.emin + 24) ≤ max |x| |y| →
      ∃ H, evalQS hypot_f32.fmt r S hypot_f32.nodes hypot_f32.outs [x, y] = some [H] ∧ 0 ≤ H ∧
        (1 - (1 : ℚ) / 2 ^ 24) ^ 7 * (x ^ 2 + y ^ 2) ≤ H ^ 2 ∧ H ^ 2 ≤ (1 + (1 : ℚ) / 2 ^ 24) ^ 7 * (x ^ 2 + y ^ 2)) ∧
    (∀ q : QFmt, q.p = 53 → q.emin ≤ -108 → IsRN q r → SqrtOK q S → 2 ^ (q.emin + 53) ≤ max |x| |y| →
      ∃ H, evalQS hypot_f64.fmt r S hypot_f64.nodes hypot_f64.outs [x, y] = some [H] ∧ 0 ≤ H ∧
        (1 - (1 : ℚ) / 2 ^ 53) ^ 7 * (x ^ 2 + y ^ 2) ≤ H ^ 2 ∧ H ^ 2 ≤ (1 + (1 : ℚ) / 2 ^ 53) ^ 7 * (x ^ 2 + y ^ 2)) := by
  obtain ⟨c1, c2, c3, c4, d1, d2, d3, d4⟩ := hypot_constants
  obtain ⟨b1, b2, b3, b4⟩ := sqrt2_bounds
  obtain ⟨t1, t2, t3, t4, t5, t6⟩ := ties_hypot
  constructor
  · intro q hq he hr hS hmx
    have hu : uro q = 1 / 2 ^ 24 := by unfold uro; rw [hq]
    rw [t1, t2, t3]
    have := hypot_prog hr hS (by omega) (by omega) binary32 _ _ _ _ sqrt2_f32 c1 c2 c3 c4 (by unfold sqrt2_f32; norm_num)
      (by rw [hu]; exact b1) (by rw [hu]; exact b2) x y (by rw [hq]; exact_mod_cast hmx)
    rw [hu] at this; exact this
  · intro q hq he hr hS hmx
    have hu : uro q = 1 / 2 ^ 53 := by unfold uro; rw [hq]
    rw [t4, t5, t6]
    have := hypot_prog hr hS (by omega) (by omega) binary64 _ _ _ _ sqrt2_f64 d1 d2 d3 d4 (by unfold sqrt2_f64; norm_num)
      (by rw [hu]; exact b3) (by rw [hu]; exact b4) x y (by rw [hq]; exact_mod_cast hmx)
    rw [hu] at this; exact this

/-- **Non-vacuity**: for the IEEE formats the hypotheses of `hypot_generated` are met — round-to-nearest-even is a
round-to-nearest, a square root within one unit roundoff exists (`sqrtOK_exists`), the format conditions hold, and
x = 3, y = 4 is an admissible input. -/
theorem hypot_hypotheses_satisfiable :
    (∃ q : QFmt, ∃ r S : ℚ → ℚ, q.p = 24 ∧ q.emin ≤ -50 ∧ IsRN q r ∧ SqrtOK q S ∧ (2 : ℚ) ^ (q.emin + 24) ≤ max |(3 : ℚ)| |(4 : ℚ)|) ∧
    (∃ q : QFmt, ∃ r S : ℚ → ℚ, q.p = 53 ∧ q.emin ≤ -108 ∧ IsRN q r ∧ SqrtOK q S ∧ (2 : ℚ) ^ (q.emin + 53) ≤ max |(3 : ℚ)| |(4 : ℚ)|) := by
  constructor
  · obtain ⟨S, hS⟩ := sqrtOK_exists ⟨24, -149, by norm_num⟩ (by norm_num)
    refine ⟨⟨24, -149, by norm_num⟩, rne _, S, rfl, by norm_num, isRN_rne _, hS, ?_⟩
    have h1 : (2 : ℚ) ^ ((-149 : ℤ) + 24) ≤ 2 ^ (0 : ℤ) := zpow_le_zpow_right₀ (by norm_num) (by norm_num)
    have h2 : (1 : ℚ) ≤ max |(3 : ℚ)| |(4 : ℚ)| := le_trans (by norm_num) (le_max_left _ _)
    rw [zpow_zero] at h1
    exact le_trans h1 h2
  · obtain ⟨S, hS⟩ := sqrtOK_exists ⟨53, -1074, by norm_num⟩ (by norm_num)
    refine ⟨⟨53, -1074, by norm_num⟩, rne _, S, rfl, by norm_num, isRN_rne _, hS, ?_⟩
    have h1 : (2 : ℚ) ^ ((-1074 : ℤ) + 53) ≤ 2 ^ (0 : ℤ) := zpow_le_zpow_right₀ (by norm_num) (by norm_num)
    have h2 : (1 : ℚ) ≤ max |(3 : ℚ)| |(4 : ℚ)| := le_trans (by norm_num) (le_max_left _ _)
    rw [zpow_zero] at h1
    exact le_trans h1 h2

end FAVerif.Props.C02
