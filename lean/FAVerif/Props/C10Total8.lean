/-
C10 — `utils.split_veltkamp` (the coding d = x − g, xh = g + d) and its copy inside `algorithms.py` on bit patterns, unconditional,
for float16, float32 and float64.
-/
import FAVerif.Props.C10Total7

namespace FAVerif.Props.C10
open FAVerif.IR FAVerif.FP FAVerif.FPQ FAVerif.Gen.C10 FAVerif.Refine FAVerif.SoftRound FAVerif.Ovf FAVerif.EFT

theorem utils_split_checks :
    overflowFree binary16 [5] utils_split_veltkamp_f16.nodes = true ∧ overflowFree binary32 [111] utils_split_veltkamp_f32.nodes = true ∧
    overflowFree binary64 [992] utils_split_veltkamp_f64.nodes = true ∧
    kindsOfS utils_split_veltkamp_f16.nodes [] = some (List.replicate 6 false) ∧ kindsOfS utils_split_veltkamp_f32.nodes [] = some (List.replicate 6 false) ∧
    kindsOfS utils_split_veltkamp_f64.nodes [] = some (List.replicate 6 false) := by
  decide +kernel

/-- **`utils.split_veltkamp` on bit patterns, unconditional** (binary16): every normal pattern ±m·2^e with |x| ≤ 2^5: the run exists,
is finite, value(xh) + value(xl) = x with xh on the grid 2^(e+6) and |xl| ≤ 2^(e+5). -/
theorem utils_split_total_f16 (lib : Libm) (x : Nat) (s : Bool) (m : Nat) (e : Int) (dx : decode binary16 x = .fin s m e)
    (nm : 2 ^ 10 ≤ m) (bx : |valQ s m e| ≤ 2 ^ (5 : ℤ)) :
    ∃ h l : Nat, utils_split_veltkamp_f16.eval lib [x] = some [h, l] ∧ isFiniteBits binary16 h = true ∧ isFiniteBits binary16 l = true ∧
      ∃ qh ql : ℚ, toQ binary16 h = some qh ∧ toQ binary16 l = some ql ∧ qh + ql = valQ s m e ∧ Mult (e + 6) qh ∧ |ql| ≤ 2 ^ (e + 6) / 2 := by
  have hf : WF binary16 := ⟨by decide, by decide⟩
  have hr := isRN_rne (qf binary16 hf.hp)
  obtain ⟨b1, b2⟩ := decode_bounds binary16 hf x s m e dx
  have habs : |(if s then -(m : ℤ) else (m : ℤ))| = (m : ℤ) := by cases s <;> simp
  obtain ⟨-, t2, -⟩ := ties_split_dekker
  simp only [List.mem_cons, List.mem_nil_iff, or_false, forall_eq_or_imp, forall_eq] at t2
  obtain ⟨t1, t1'⟩ := t2.1
  have fm : utils_split_veltkamp_f16.fmt = binary16 := by decide
  obtain ⟨xh, xl, hq, hsum, hM, -, -, hl⟩ := veltkamp_split_utils (qf binary16 hf.hp) _ hr binary16 21520 6 split_constants.1
    (by norm_num) (by show 6 < (11 : ℕ); norm_num) (if s then -(m : ℤ) else m) e
    (by rw [habs]; exact_mod_cast nm) (by rw [habs]; exact_mod_cast b1) b2
  have hq' : utils_split_veltkamp_f16.evalQ (rne (qf binary16 hf.hp)) [valQ s m e] = some [xh, xl] := by
    unfold Prog.evalQ
    rw [t1, t1', fm, valQ_int s m e]
    exact hq
  rw [← valQ_int s m e] at hsum
  obtain ⟨h, l, h1, h2, h3, h4, h5⟩ := total2 utils_split_veltkamp_f16 hf Lmax_ge4.1 _ utils_split_checks.2.2.2.1
    (by intro o ho; have : o = 4 ∨ o = 5 := by simpa [utils_split_veltkamp_f16] using ho
        rcases this with rfl | rfl <;> decide)
    [5] utils_split_checks.1 lib [x] _ (insRel1 (finite_of_decode _ _ _ _ _ dx) (toQ_fin _ x s m e dx)) (hE_one bx) _ _ hq'
  exact ⟨h, l, h1, h2, h3, xh, xl, h4, h5, hsum, hM, hl⟩

/-- the `split_veltkamp` copy inside `algorithms.py`, through `copies_agree_f16` -/
theorem alg_split_total_f16 (lib : Libm) (x : Nat) (s : Bool) (m : Nat) (e : Int) (dx : decode binary16 x = .fin s m e)
    (nm : 2 ^ 10 ≤ m) (bx : |valQ s m e| ≤ 2 ^ (5 : ℤ)) :
    ∃ h l : Nat, alg_split_veltkamp_f16.eval lib [x] = some [h, l] ∧ isFiniteBits binary16 h = true ∧ isFiniteBits binary16 l = true ∧
      ∃ qh ql : ℚ, toQ binary16 h = some qh ∧ toQ binary16 l = some ql ∧ qh + ql = valQ s m e ∧ Mult (e + 6) qh ∧ |ql| ≤ 2 ^ (e + 6) / 2 := by
  rw [(copies_agree_f16 lib x x).2.2.2.2.1]
  exact utils_split_total_f16 lib x s m e dx nm bx

/-- **`utils.split_veltkamp` on bit patterns, unconditional** (binary32): every normal pattern ±m·2^e with |x| ≤ 2^111: the run exists,
is finite, value(xh) + value(xl) = x with xh on the grid 2^(e+12) and |xl| ≤ 2^(e+11). -/
theorem utils_split_total_f32 (lib : Libm) (x : Nat) (s : Bool) (m : Nat) (e : Int) (dx : decode binary32 x = .fin s m e)
    (nm : 2 ^ 23 ≤ m) (bx : |valQ s m e| ≤ 2 ^ (111 : ℤ)) :
    ∃ h l : Nat, utils_split_veltkamp_f32.eval lib [x] = some [h, l] ∧ isFiniteBits binary32 h = true ∧ isFiniteBits binary32 l = true ∧
      ∃ qh ql : ℚ, toQ binary32 h = some qh ∧ toQ binary32 l = some ql ∧ qh + ql = valQ s m e ∧ Mult (e + 12) qh ∧ |ql| ≤ 2 ^ (e + 12) / 2 := by
  have hf : WF binary32 := ⟨by decide, by decide⟩
  have hr := isRN_rne (qf binary32 hf.hp)
  obtain ⟨b1, b2⟩ := decode_bounds binary32 hf x s m e dx
  have habs : |(if s then -(m : ℤ) else (m : ℤ))| = (m : ℤ) := by cases s <;> simp
  obtain ⟨-, t2, -⟩ := ties_split_dekker
  simp only [List.mem_cons, List.mem_nil_iff, or_false, forall_eq_or_imp, forall_eq] at t2
  obtain ⟨t1, t1'⟩ := t2.2.1
  have fm : utils_split_veltkamp_f32.fmt = binary32 := by decide
  obtain ⟨xh, xl, hq, hsum, hM, -, -, hl⟩ := veltkamp_split_utils (qf binary32 hf.hp) _ hr binary32 1166018560 12 split_constants.2.1
    (by norm_num) (by show 12 < (24 : ℕ); norm_num) (if s then -(m : ℤ) else m) e
    (by rw [habs]; exact_mod_cast nm) (by rw [habs]; exact_mod_cast b1) b2
  have hq' : utils_split_veltkamp_f32.evalQ (rne (qf binary32 hf.hp)) [valQ s m e] = some [xh, xl] := by
    unfold Prog.evalQ
    rw [t1, t1', fm, valQ_int s m e]
    exact hq
  rw [← valQ_int s m e] at hsum
  obtain ⟨h, l, h1, h2, h3, h4, h5⟩ := total2 utils_split_veltkamp_f32 hf Lmax_ge4.2.1 _ utils_split_checks.2.2.2.2.1
    (by intro o ho; have : o = 4 ∨ o = 5 := by simpa [utils_split_veltkamp_f32] using ho
        rcases this with rfl | rfl <;> decide)
    [111] utils_split_checks.2.1 lib [x] _ (insRel1 (finite_of_decode _ _ _ _ _ dx) (toQ_fin _ x s m e dx)) (hE_one bx) _ _ hq'
  exact ⟨h, l, h1, h2, h3, xh, xl, h4, h5, hsum, hM, hl⟩

/-- the `split_veltkamp` copy inside `algorithms.py`, through `copies_agree_f32` -/
theorem alg_split_total_f32 (lib : Libm) (x : Nat) (s : Bool) (m : Nat) (e : Int) (dx : decode binary32 x = .fin s m e)
    (nm : 2 ^ 23 ≤ m) (bx : |valQ s m e| ≤ 2 ^ (111 : ℤ)) :
    ∃ h l : Nat, alg_split_veltkamp_f32.eval lib [x] = some [h, l] ∧ isFiniteBits binary32 h = true ∧ isFiniteBits binary32 l = true ∧
      ∃ qh ql : ℚ, toQ binary32 h = some qh ∧ toQ binary32 l = some ql ∧ qh + ql = valQ s m e ∧ Mult (e + 12) qh ∧ |ql| ≤ 2 ^ (e + 12) / 2 := by
  rw [(copies_agree_f32 lib x x).2.2.2.2.1]
  exact utils_split_total_f32 lib x s m e dx nm bx

/-- **`utils.split_veltkamp` on bit patterns, unconditional** (binary64): every normal pattern ±m·2^e with |x| ≤ 2^992: the run exists,
is finite, value(xh) + value(xl) = x with xh on the grid 2^(e+27) and |xl| ≤ 2^(e+26). -/
theorem utils_split_total_f64 (lib : Libm) (x : Nat) (s : Bool) (m : Nat) (e : Int) (dx : decode binary64 x = .fin s m e)
    (nm : 2 ^ 52 ≤ m) (bx : |valQ s m e| ≤ 2 ^ (992 : ℤ)) :
    ∃ h l : Nat, utils_split_veltkamp_f64.eval lib [x] = some [h, l] ∧ isFiniteBits binary64 h = true ∧ isFiniteBits binary64 l = true ∧
      ∃ qh ql : ℚ, toQ binary64 h = some qh ∧ toQ binary64 l = some ql ∧ qh + ql = valQ s m e ∧ Mult (e + 27) qh ∧ |ql| ≤ 2 ^ (e + 27) / 2 := by
  have hf : WF binary64 := ⟨by decide, by decide⟩
  have hr := isRN_rne (qf binary64 hf.hp)
  obtain ⟨b1, b2⟩ := decode_bounds binary64 hf x s m e dx
  have habs : |(if s then -(m : ℤ) else (m : ℤ))| = (m : ℤ) := by cases s <;> simp
  obtain ⟨-, t2, -⟩ := ties_split_dekker
  simp only [List.mem_cons, List.mem_nil_iff, or_false, forall_eq_or_imp, forall_eq] at t2
  obtain ⟨t1, t1'⟩ := t2.2.2
  have fm : utils_split_veltkamp_f64.fmt = binary64 := by decide
  obtain ⟨xh, xl, hq, hsum, hM, -, -, hl⟩ := veltkamp_split_utils (qf binary64 hf.hp) _ hr binary64 4728779608772575232 27 split_constants.2.2
    (by norm_num) (by show 27 < (53 : ℕ); norm_num) (if s then -(m : ℤ) else m) e
    (by rw [habs]; exact_mod_cast nm) (by rw [habs]; exact_mod_cast b1) b2
  have hq' : utils_split_veltkamp_f64.evalQ (rne (qf binary64 hf.hp)) [valQ s m e] = some [xh, xl] := by
    unfold Prog.evalQ
    rw [t1, t1', fm, valQ_int s m e]
    exact hq
  rw [← valQ_int s m e] at hsum
  obtain ⟨h, l, h1, h2, h3, h4, h5⟩ := total2 utils_split_veltkamp_f64 hf Lmax_ge4.2.2 _ utils_split_checks.2.2.2.2.2
    (by intro o ho; have : o = 4 ∨ o = 5 := by simpa [utils_split_veltkamp_f64] using ho
        rcases this with rfl | rfl <;> decide)
    [992] utils_split_checks.2.2.1 lib [x] _ (insRel1 (finite_of_decode _ _ _ _ _ dx) (toQ_fin _ x s m e dx)) (hE_one bx) _ _ hq'
  exact ⟨h, l, h1, h2, h3, xh, xl, h4, h5, hsum, hM, hl⟩

/-- the `split_veltkamp` copy inside `algorithms.py`, through `copies_agree_f64` -/
theorem alg_split_total_f64 (lib : Libm) (x : Nat) (s : Bool) (m : Nat) (e : Int) (dx : decode binary64 x = .fin s m e)
    (nm : 2 ^ 52 ≤ m) (bx : |valQ s m e| ≤ 2 ^ (992 : ℤ)) :
    ∃ h l : Nat, alg_split_veltkamp_f64.eval lib [x] = some [h, l] ∧ isFiniteBits binary64 h = true ∧ isFiniteBits binary64 l = true ∧
      ∃ qh ql : ℚ, toQ binary64 h = some qh ∧ toQ binary64 l = some ql ∧ qh + ql = valQ s m e ∧ Mult (e + 27) qh ∧ |ql| ≤ 2 ^ (e + 27) / 2 := by
  rw [(copies_agree_f64 lib x x).2.2.2.2.1]
  exact utils_split_total_f64 lib x s m e dx nm bx

/-- `apmath.split` (= `split_veltkamp(x, scale=True)`) on bit patterns, unconditional (binary32), through `copies_agree_f32` -/
theorem apmath_split_total_f32 (lib : Libm) (x : Nat) (s : Bool) (m : Nat) (e : Int) (dx : decode binary32 x = .fin s m e)
    (nm : 2 ^ 23 ≤ m) (he : binary32.emin + 12 ≤ e) (bx : |valQ s m e| ≤ 2 ^ (111 : ℤ)) :
    ∃ h l : Nat, apmath_split_f32.eval lib [x] = some [h, l] ∧ isFiniteBits binary32 h = true ∧ isFiniteBits binary32 l = true ∧
      ∃ qh ql : ℚ, toQ binary32 h = some qh ∧ toQ binary32 l = some ql ∧ qh + ql = valQ s m e ∧ Mult (e + 12) qh ∧ |ql| ≤ 2 ^ (e + 12) / 2 := by
  rw [(copies_agree_f32 lib x x).2.2.1]
  exact split_scaled_total_f32 lib x s m e dx nm he bx

/-- `apmath.split` (= `split_veltkamp(x, scale=True)`) on bit patterns, unconditional (binary64), through `copies_agree_f64` -/
theorem apmath_split_total_f64 (lib : Libm) (x : Nat) (s : Bool) (m : Nat) (e : Int) (dx : decode binary64 x = .fin s m e)
    (nm : 2 ^ 52 ≤ m) (he : binary64.emin + 27 ≤ e) (bx : |valQ s m e| ≤ 2 ^ (992 : ℤ)) :
    ∃ h l : Nat, apmath_split_f64.eval lib [x] = some [h, l] ∧ isFiniteBits binary64 h = true ∧ isFiniteBits binary64 l = true ∧
      ∃ qh ql : ℚ, toQ binary64 h = some qh ∧ toQ binary64 l = some ql ∧ qh + ql = valQ s m e ∧ Mult (e + 27) qh ∧ |ql| ≤ 2 ^ (e + 27) / 2 := by
  rw [(copies_agree_f64 lib x x).2.2.1]
  exact split_scaled_total_f64 lib x s m e dx nm he bx

end FAVerif.Props.C10
