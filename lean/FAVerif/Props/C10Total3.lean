/-
C10 — 2Sum with the overflow guard (`fix_overflow=True`) on bit patterns, unconditional, for float16 and float64 (float32: Props/C10Total.lean).
-/
import FAVerif.Props.C10Total

namespace FAVerif.Props.C10
open FAVerif.IR FAVerif.FP FAVerif.FPQ FAVerif.Gen.C10 FAVerif.Refine FAVerif.SoftRound FAVerif.Ovf FAVerif.EFT

theorem fix_checksf16 : overflowFree binary16 [10, 10] add_2sum_fix_f16.nodes = true ∧
    kindsOfS add_2sum_fix_f16.nodes [] = some [false, false, false, false, false, false, true, false, false, false, false, false, false] := by
  decide +kernel

theorem fix_checksf64 : overflowFree binary64 [1018, 1018] add_2sum_fix_f64.nodes = true ∧
    kindsOfS add_2sum_fix_f64.nodes [] = some [false, false, false, false, false, false, true, false, false, false, false, false, false] := by
  decide +kernel

lemma pow12_le_maxRatf16 : (2 : ℚ) ^ (12 : ℤ) ≤ maxRat binary16 := by
  have h : maxRat binary16 = ((2 : ℚ) ^ 11 - 1) * 2 ^ (5 : ℕ) := by
    unfold maxRat pow2
    have e1 : binary16.emaxUlp = 5 := by decide +kernel
    have e2 : binary16.p = 11 := rfl
    simp only [e1, e2]
    have : Int.toNat 5 = 5 := rfl
    norm_num [this]
  rw [h]
  norm_num

/-- **2Sum with the overflow guard (`fix_overflow=True`) on bit patterns, unconditional** (float16, |x|, |y| ≤ 2^10): the guard
is not taken, the run exists, is finite, and (s, t) is the exact transformation. -/
theorem twosum_fix_total_f16 (lib : Libm) (x y : Nat) (qx qy : ℚ) (hx : isFiniteBits binary16 x = true) (hy : isFiniteBits binary16 y = true)
    (vx : toQ binary16 x = some qx) (vy : toQ binary16 y = some qy) (bx : |qx| ≤ 2 ^ (10 : ℤ)) (bY : |qy| ≤ 2 ^ (10 : ℤ)) :
    ∃ s t : Nat, add_2sum_fix_f16.eval lib [x, y] = some [s, t] ∧ isFiniteBits binary16 s = true ∧ isFiniteBits binary16 t = true ∧
      ∃ qs qt : ℚ, toQ binary16 s = some qs ∧ toQ binary16 t = some qt ∧ qs = rne (qf binary16 (by decide)) (qx + qy) ∧ qs + qt = qx + qy := by
  have hf : WF binary16 := ⟨by decide, by decide⟩
  have hr := isRN_rne (qf binary16 hf.hp)
  have hem : ∀ k : ℤ, 0 ≤ k → (qf binary16 hf.hp).emin ≤ k := fun k hk => by
    have : binary16.emin = -24 := by decide +kernel
    show binary16.emin ≤ k
    omega
  have pE1 : (2 : ℚ) ^ (11 : ℤ) = 2 ^ (10 : ℤ) + 2 ^ (10 : ℤ) := by
    rw [show (11 : ℤ) = 10 + 1 by norm_num, zpow_add₀ (by norm_num : (2 : ℚ) ≠ 0), zpow_one]; ring
  have pE2 : (2 : ℚ) ^ (12 : ℤ) = 2 ^ (11 : ℤ) + 2 ^ (11 : ℤ) := by
    rw [show (12 : ℤ) = 11 + 1 by norm_num, zpow_add₀ (by norm_num : (2 : ℚ) ≠ 0), zpow_one]; ring
  have b1 : |rne (qf binary16 hf.hp) (qx + qy)| ≤ 2 ^ (11 : ℤ) :=
    abs_rn_le_pow hr (hem _ (by norm_num)) (by rw [pE1]; exact le_trans (abs_add_le _ _) (add_le_add bx bY))
  have b2 : |rne (qf binary16 hf.hp) (rne (qf binary16 hf.hp) (qx + qy) - qx)| ≤ 2 ^ (12 : ℤ) :=
    abs_rn_le_pow hr (hem _ (by norm_num)) (by
      rw [pE2]
      refine le_trans (abs_sub _ _) (add_le_add b1 (le_trans bx ?_))
      exact zpow_le_zpow_right₀ (by norm_num) (by norm_num))
  have hq := (twosum_fix_generated (qf binary16 hf.hp) (rne (qf binary16 hf.hp)) hr qx qy (rep_of_finite _ hf hx vx) (rep_of_finite _ hf hy vy)).2.1
    (le_trans b2 pow12_le_maxRatf16)
  obtain ⟨s, t, h1, h2, h3, h4, h5⟩ := total2 add_2sum_fix_f16 hf Lmax_ge4.1 _ fix_checksf16.2
    (by intro o ho; have : o = 2 ∨ o = 12 := by simpa [add_2sum_fix_f16] using ho
        rcases this with rfl | rfl <;> decide)
    [10, 10] fix_checksf16.1 lib [x, y] [qx, qy] (insRel2 hx hy vx vy) (hE_two bx bY) _ _ hq
  exact ⟨s, t, h1, h2, h3, _, _, h4, h5, rfl, by ring⟩

lemma maxRat_eq_Lmax (f : Fmt) : maxRat f = Lmax f := by
  unfold maxRat Lmax
  rw [SoftRound.pow2_eq]
  congr 1
  have : 1 ≤ 2 ^ f.p := Nat.one_le_two_pow
  push_cast [Nat.cast_sub this]
  ring

lemma pow1020_le_maxRatf64 : (2 : ℚ) ^ (1020 : ℤ) ≤ maxRat binary64 := by
  rw [maxRat_eq_Lmax]
  have h := pow_kmax_le_Lmax binary64 ⟨by decide, by decide⟩
  have hk : kmax binary64 = 1023 := by decide +kernel
  rw [hk] at h
  exact le_trans (zpow_le_zpow_right₀ (by norm_num) (by norm_num)) h

/-- **2Sum with the overflow guard (`fix_overflow=True`) on bit patterns, unconditional** (float64, |x|, |y| ≤ 2^1018): the guard
is not taken, the run exists, is finite, and (s, t) is the exact transformation. -/
theorem twosum_fix_total_f64 (lib : Libm) (x y : Nat) (qx qy : ℚ) (hx : isFiniteBits binary64 x = true) (hy : isFiniteBits binary64 y = true)
    (vx : toQ binary64 x = some qx) (vy : toQ binary64 y = some qy) (bx : |qx| ≤ 2 ^ (1018 : ℤ)) (bY : |qy| ≤ 2 ^ (1018 : ℤ)) :
    ∃ s t : Nat, add_2sum_fix_f64.eval lib [x, y] = some [s, t] ∧ isFiniteBits binary64 s = true ∧ isFiniteBits binary64 t = true ∧
      ∃ qs qt : ℚ, toQ binary64 s = some qs ∧ toQ binary64 t = some qt ∧ qs = rne (qf binary64 (by decide)) (qx + qy) ∧ qs + qt = qx + qy := by
  have hf : WF binary64 := ⟨by decide, by decide⟩
  have hr := isRN_rne (qf binary64 hf.hp)
  have hem : ∀ k : ℤ, 0 ≤ k → (qf binary64 hf.hp).emin ≤ k := fun k hk => by
    have : binary64.emin = -1074 := by decide +kernel
    show binary64.emin ≤ k
    omega
  have pE1 : (2 : ℚ) ^ (1019 : ℤ) = 2 ^ (1018 : ℤ) + 2 ^ (1018 : ℤ) := by
    rw [show (1019 : ℤ) = 1018 + 1 by norm_num, zpow_add₀ (by norm_num : (2 : ℚ) ≠ 0), zpow_one]; ring
  have pE2 : (2 : ℚ) ^ (1020 : ℤ) = 2 ^ (1019 : ℤ) + 2 ^ (1019 : ℤ) := by
    rw [show (1020 : ℤ) = 1019 + 1 by norm_num, zpow_add₀ (by norm_num : (2 : ℚ) ≠ 0), zpow_one]; ring
  have b1 : |rne (qf binary64 hf.hp) (qx + qy)| ≤ 2 ^ (1019 : ℤ) :=
    abs_rn_le_pow hr (hem _ (by norm_num)) (by rw [pE1]; exact le_trans (abs_add_le _ _) (add_le_add bx bY))
  have b2 : |rne (qf binary64 hf.hp) (rne (qf binary64 hf.hp) (qx + qy) - qx)| ≤ 2 ^ (1020 : ℤ) :=
    abs_rn_le_pow hr (hem _ (by norm_num)) (by
      rw [pE2]
      refine le_trans (abs_sub _ _) (add_le_add b1 (le_trans bx ?_))
      exact zpow_le_zpow_right₀ (by norm_num) (by norm_num))
  have hq := (twosum_fix_generated (qf binary64 hf.hp) (rne (qf binary64 hf.hp)) hr qx qy (rep_of_finite _ hf hx vx) (rep_of_finite _ hf hy vy)).2.2
    (le_trans b2 pow1020_le_maxRatf64)
  obtain ⟨s, t, h1, h2, h3, h4, h5⟩ := total2 add_2sum_fix_f64 hf Lmax_ge4.2.2 _ fix_checksf64.2
    (by intro o ho; have : o = 2 ∨ o = 12 := by simpa [add_2sum_fix_f64] using ho
        rcases this with rfl | rfl <;> decide)
    [1018, 1018] fix_checksf64.1 lib [x, y] [qx, qy] (insRel2 hx hy vx vy) (hE_two bx bY) _ _ hq
  exact ⟨s, t, h1, h2, h3, _, _, h4, h5, rfl, by ring⟩

end FAVerif.Props.C10
