/-
C10 — the unconditional bit-level theorems of Props/C10Total.lean for the remaining formats (float16, float64): Fast2Sum and Veltkamp's splitter.
-/
import FAVerif.Props.C10Total

namespace FAVerif.Props.C10
open FAVerif.IR FAVerif.FP FAVerif.FPQ FAVerif.Gen.C10 FAVerif.Refine FAVerif.SoftRound FAVerif.Ovf FAVerif.EFT

theorem total_kinds3 :
    kindsOfS add_2sum_fast_f16.nodes [] = some (List.replicate 5 false) ∧ kindsOfS split_veltkamp_f16.nodes [] = some (List.replicate 6 false) ∧
    kindsOfS add_2sum_fast_f64.nodes [] = some (List.replicate 5 false) ∧ kindsOfS split_veltkamp_f64.nodes [] = some (List.replicate 6 false) := by
  decide +kernel

/-- **Fast2Sum on bit patterns, unconditional** (float16): finite operand patterns with |y| ≤ |x| ≤ 2^12 -/
theorem fast2sum_total_f16 (lib : Libm) (x y : Nat) (qx qy : ℚ) (hx : isFiniteBits binary16 x = true) (hy : isFiniteBits binary16 y = true)
    (vx : toQ binary16 x = some qx) (vy : toQ binary16 y = some qy) (hxy : |qy| ≤ |qx|) (bx : |qx| ≤ 2 ^ (12 : ℤ)) :
    ∃ s t : Nat, add_2sum_fast_f16.eval lib [x, y] = some [s, t] ∧ isFiniteBits binary16 s = true ∧ isFiniteBits binary16 t = true ∧
      ∃ qs qt : ℚ, toQ binary16 s = some qs ∧ toQ binary16 t = some qt ∧ qs = rne (qf binary16 (by decide)) (qx + qy) ∧ qs + qt = qx + qy := by
  have hf : WF binary16 := ⟨by decide, by decide⟩
  have hq := (fast2sum_generated (qf binary16 hf.hp) (rne (qf binary16 hf.hp)) (isRN_rne _) qx qy (rep_of_finite _ hf hx vx) (rep_of_finite _ hf hy vy) hxy).2.1
  obtain ⟨s, t, h1, h2, h3, h4, h5⟩ := total2 add_2sum_fast_f16 hf Lmax_ge4.1 _ total_kinds3.1
    (by intro o ho; have : o = 2 ∨ o = 4 := by simpa [add_2sum_fast_f16] using ho
        rcases this with rfl | rfl <;> decide)
    [12, 12] overflow_checks.2.2.2.1 lib [x, y] [qx, qy] (insRel2 hx hy vx vy) (hE_two bx (le_trans hxy bx)) _ _ hq
  exact ⟨s, t, h1, h2, h3, _, _, h4, h5, rfl, by ring⟩

/-- **Veltkamp's splitter on bit patterns, unconditional** (float16): every normal pattern ±m·2^e with |x| ≤ 2^5: the run
exists, is finite, and value(xh) + value(xl) = x with xh on the grid 2^(e+6) and |xl| ≤ 2^(e+5). -/
theorem split_total_f16 (lib : Libm) (x : Nat) (s : Bool) (m : Nat) (e : Int) (dx : decode binary16 x = .fin s m e)
    (nm : 2 ^ 10 ≤ m) (bx : |valQ s m e| ≤ 2 ^ (5 : ℤ)) :
    ∃ h l : Nat, split_veltkamp_f16.eval lib [x] = some [h, l] ∧ isFiniteBits binary16 h = true ∧ isFiniteBits binary16 l = true ∧
      ∃ qh ql : ℚ, toQ binary16 h = some qh ∧ toQ binary16 l = some ql ∧ qh + ql = valQ s m e ∧ Mult (e + 6) qh ∧ |ql| ≤ 2 ^ (e + 6) / 2 := by
  have hf : WF binary16 := ⟨by decide, by decide⟩
  obtain ⟨b1, b2⟩ := decode_bounds binary16 hf x s m e dx
  have habs : |(if s then -(m : ℤ) else (m : ℤ))| = (m : ℤ) := by cases s <;> simp
  obtain ⟨xh, xl, hq, hsum, hM, -, -, hl⟩ := (split_generated (rne (qf binary16 hf.hp)) (if s then -(m : ℤ) else m) e).1 (qf binary16 hf.hp) rfl (isRN_rne _)
    (by rw [habs]; exact_mod_cast nm) (by rw [habs]; exact_mod_cast b1) b2
  rw [← valQ_int s m e] at hq hsum
  obtain ⟨h, l, h1, h2, h3, h4, h5⟩ := total2 split_veltkamp_f16 hf Lmax_ge4.1 _ total_kinds3.2.1
    (by intro o ho; have : o = 4 ∨ o = 5 := by simpa [split_veltkamp_f16] using ho
        rcases this with rfl | rfl <;> decide)
    [5] overflow_checks.2.2.2.2.2.2.1 lib [x] _ (insRel1 (finite_of_decode _ _ _ _ _ dx) (toQ_fin _ x s m e dx)) (hE_one bx) _ _ hq
  exact ⟨h, l, h1, h2, h3, xh, xl, h4, h5, hsum, hM, hl⟩

/-- **Fast2Sum on bit patterns, unconditional** (float64): finite operand patterns with |y| ≤ |x| ≤ 2^1020 -/
theorem fast2sum_total_f64 (lib : Libm) (x y : Nat) (qx qy : ℚ) (hx : isFiniteBits binary64 x = true) (hy : isFiniteBits binary64 y = true)
    (vx : toQ binary64 x = some qx) (vy : toQ binary64 y = some qy) (hxy : |qy| ≤ |qx|) (bx : |qx| ≤ 2 ^ (1020 : ℤ)) :
    ∃ s t : Nat, add_2sum_fast_f64.eval lib [x, y] = some [s, t] ∧ isFiniteBits binary64 s = true ∧ isFiniteBits binary64 t = true ∧
      ∃ qs qt : ℚ, toQ binary64 s = some qs ∧ toQ binary64 t = some qt ∧ qs = rne (qf binary64 (by decide)) (qx + qy) ∧ qs + qt = qx + qy := by
  have hf : WF binary64 := ⟨by decide, by decide⟩
  have hq := (fast2sum_generated (qf binary64 hf.hp) (rne (qf binary64 hf.hp)) (isRN_rne _) qx qy (rep_of_finite _ hf hx vx) (rep_of_finite _ hf hy vy) hxy).2.2.1
  obtain ⟨s, t, h1, h2, h3, h4, h5⟩ := total2 add_2sum_fast_f64 hf Lmax_ge4.2.2 _ total_kinds3.2.2.1
    (by intro o ho; have : o = 2 ∨ o = 4 := by simpa [add_2sum_fast_f64] using ho
        rcases this with rfl | rfl <;> decide)
    [1020, 1020] overflow_checks.2.2.2.2.2.1 lib [x, y] [qx, qy] (insRel2 hx hy vx vy) (hE_two bx (le_trans hxy bx)) _ _ hq
  exact ⟨s, t, h1, h2, h3, _, _, h4, h5, rfl, by ring⟩

/-- **Veltkamp's splitter on bit patterns, unconditional** (float64): every normal pattern ±m·2^e with |x| ≤ 2^992: the run
exists, is finite, and value(xh) + value(xl) = x with xh on the grid 2^(e+27) and |xl| ≤ 2^(e+26). -/
theorem split_total_f64 (lib : Libm) (x : Nat) (s : Bool) (m : Nat) (e : Int) (dx : decode binary64 x = .fin s m e)
    (nm : 2 ^ 52 ≤ m) (bx : |valQ s m e| ≤ 2 ^ (992 : ℤ)) :
    ∃ h l : Nat, split_veltkamp_f64.eval lib [x] = some [h, l] ∧ isFiniteBits binary64 h = true ∧ isFiniteBits binary64 l = true ∧
      ∃ qh ql : ℚ, toQ binary64 h = some qh ∧ toQ binary64 l = some ql ∧ qh + ql = valQ s m e ∧ Mult (e + 27) qh ∧ |ql| ≤ 2 ^ (e + 27) / 2 := by
  have hf : WF binary64 := ⟨by decide, by decide⟩
  obtain ⟨b1, b2⟩ := decode_bounds binary64 hf x s m e dx
  have habs : |(if s then -(m : ℤ) else (m : ℤ))| = (m : ℤ) := by cases s <;> simp
  obtain ⟨xh, xl, hq, hsum, hM, -, -, hl⟩ := (split_generated (rne (qf binary64 hf.hp)) (if s then -(m : ℤ) else m) e).2.2 (qf binary64 hf.hp) rfl (isRN_rne _)
    (by rw [habs]; exact_mod_cast nm) (by rw [habs]; exact_mod_cast b1) b2
  rw [← valQ_int s m e] at hq hsum
  obtain ⟨h, l, h1, h2, h3, h4, h5⟩ := total2 split_veltkamp_f64 hf Lmax_ge4.2.2 _ total_kinds3.2.2.2
    (by intro o ho; have : o = 4 ∨ o = 5 := by simpa [split_veltkamp_f64] using ho
        rcases this with rfl | rfl <;> decide)
    [992] overflow_checks.2.2.2.2.2.2.2.2.1 lib [x] _ (insRel1 (finite_of_decode _ _ _ _ _ dx) (toQ_fin _ x s m e dx)) (hE_one bx) _ _ hq
  exact ⟨h, l, h1, h2, h3, xh, xl, h4, h5, hsum, hM, hl⟩

end FAVerif.Props.C10
