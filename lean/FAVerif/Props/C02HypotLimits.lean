/-
C02 / C01 — the limit clause for `hypot` and complex `absolute` as theorems over ALL inputs: an infinite argument gives +inf whatever
the other (non-NaN) argument is ("hypot(x, ±inf) = +inf", "|x ± i·inf| = +inf": no spurious NaN, although the program computes
inf·0 on the way).  The regenerated 25-node programs are evaluated symbolically in the softfloat primitives; the limit is a case
analysis on |x| against the pattern of +inf (`Lemmas/SoftInf.lean`) plus a handful of closed softfloat evaluations.
-/
import FAVerif.Generated.C02
import FAVerif.Lemmas.SoftInf

set_option linter.unusedSimpArgs false

namespace FAVerif.Props.C02
open FAVerif.IR FAVerif.FP FAVerif.SoftInf

private theorem closed32 :
    FP.abs ⟨24, 8⟩ 2139095040 = 2139095040 ∧ FP.abs ⟨24, 8⟩ 4286578688 = 2139095040 ∧
    FP.mul ⟨24, 8⟩ 0 0 = 0 ∧ FP.add ⟨24, 8⟩ 1065353216 0 = 1065353216 ∧ FP.sqrt ⟨24, 8⟩ 1065353216 = 1065353216 ∧
    FP.eq ⟨24, 8⟩ 1065353216 1065353216 = true ∧ FP.gt ⟨24, 8⟩ 0 0 = false ∧ FP.mul ⟨24, 8⟩ 1065353216 2139095040 = 2139095040 ∧
    FP.eq ⟨24, 8⟩ 2139095040 2139095040 = true ∧ FP.mul ⟨24, 8⟩ 1068827891 2139095040 = 2139095040 ∧
    FP.lt ⟨24, 8⟩ 2139095040 2139095040 = false := by decide +kernel

private theorem closed64 :
    FP.abs ⟨53, 11⟩ 9218868437227405312 = 9218868437227405312 ∧ FP.abs ⟨53, 11⟩ 18442240474082181120 = 9218868437227405312 ∧
    FP.mul ⟨53, 11⟩ 0 0 = 0 ∧ FP.add ⟨53, 11⟩ 4607182418800017408 0 = 4607182418800017408 ∧ FP.sqrt ⟨53, 11⟩ 4607182418800017408 = 4607182418800017408 ∧
    FP.eq ⟨53, 11⟩ 4607182418800017408 4607182418800017408 = true ∧ FP.gt ⟨53, 11⟩ 0 0 = false ∧ FP.mul ⟨53, 11⟩ 4607182418800017408 9218868437227405312 = 9218868437227405312 ∧
    FP.eq ⟨53, 11⟩ 9218868437227405312 9218868437227405312 = true ∧ FP.mul ⟨53, 11⟩ 4609047870845172685 9218868437227405312 = 9218868437227405312 ∧
    FP.lt ⟨53, 11⟩ 9218868437227405312 9218868437227405312 = false := by decide +kernel

/-- **hypot at (x, +inf) is +inf for EVERY non-NaN x** (binary32, bit patterns) -/
theorem hypot_f32_at_x_pinf (lib : Libm) (x : Nat) (hn : isNaNBits binary32 x = false) :
    FAVerif.Gen.C02.hypot_f32.eval lib [x, 2139095040] = some [2139095040] := by
  have hw : SoftRound.WF binary32 := ⟨by decide, by decide⟩
  obtain ⟨c1, c2, c3, c4, c5, c6, c7, c8, c9, c10, c11⟩ := closed32
  have L1 : FP.lt ⟨24, 8⟩ 2139095040 (FP.abs ⟨24, 8⟩ x) = false := lt_inf_abs binary32 hw x hn
  have L2 : FP.lt ⟨24, 8⟩ (FP.abs ⟨24, 8⟩ x) 2139095040 = isFiniteBits binary32 x := lt_abs_inf binary32 hw x hn
  have E : FP.eq ⟨24, 8⟩ (FP.abs ⟨24, 8⟩ x) 2139095040 = !isFiniteBits binary32 x := eq_abs_inf binary32 hw x hn
  cases hx : isFiniteBits binary32 x
  · have ha : FP.abs ⟨24, 8⟩ x = 2139095040 := abs_inf_eq binary32 hw x hn hx
    simp [Prog.eval, FAVerif.Gen.C02.hypot_f32, evalNodes, evalNode, ha, c1, c2, c9, c10, c11, b2n]
  · have D : FP.div ⟨24, 8⟩ (FP.abs ⟨24, 8⟩ x) 2139095040 = 0 := div_abs_inf binary32 hw x hx
    rw [hx] at L2 E
    simp [Prog.eval, FAVerif.Gen.C02.hypot_f32, evalNodes, evalNode, c1, c2, L1, L2, E, D, c3, c4, c5, c6, c7, c8, b2n]

/-- **hypot at (x, −inf) is +inf for EVERY non-NaN x** (binary32, bit patterns) -/
theorem hypot_f32_at_x_ninf (lib : Libm) (x : Nat) (hn : isNaNBits binary32 x = false) :
    FAVerif.Gen.C02.hypot_f32.eval lib [x, 4286578688] = some [2139095040] := by
  have hw : SoftRound.WF binary32 := ⟨by decide, by decide⟩
  obtain ⟨c1, c2, c3, c4, c5, c6, c7, c8, c9, c10, c11⟩ := closed32
  have L1 : FP.lt ⟨24, 8⟩ 2139095040 (FP.abs ⟨24, 8⟩ x) = false := lt_inf_abs binary32 hw x hn
  have L2 : FP.lt ⟨24, 8⟩ (FP.abs ⟨24, 8⟩ x) 2139095040 = isFiniteBits binary32 x := lt_abs_inf binary32 hw x hn
  have E : FP.eq ⟨24, 8⟩ (FP.abs ⟨24, 8⟩ x) 2139095040 = !isFiniteBits binary32 x := eq_abs_inf binary32 hw x hn
  cases hx : isFiniteBits binary32 x
  · have ha : FP.abs ⟨24, 8⟩ x = 2139095040 := abs_inf_eq binary32 hw x hn hx
    simp [Prog.eval, FAVerif.Gen.C02.hypot_f32, evalNodes, evalNode, ha, c1, c2, c9, c10, c11, b2n]
  · have D : FP.div ⟨24, 8⟩ (FP.abs ⟨24, 8⟩ x) 2139095040 = 0 := div_abs_inf binary32 hw x hx
    rw [hx] at L2 E
    simp [Prog.eval, FAVerif.Gen.C02.hypot_f32, evalNodes, evalNode, c1, c2, L1, L2, E, D, c3, c4, c5, c6, c7, c8, b2n]

/-- **hypot at (+inf, x) is +inf for EVERY non-NaN x** (binary32, bit patterns) -/
theorem hypot_f32_at_pinf_x (lib : Libm) (x : Nat) (hn : isNaNBits binary32 x = false) :
    FAVerif.Gen.C02.hypot_f32.eval lib [2139095040, x] = some [2139095040] := by
  have hw : SoftRound.WF binary32 := ⟨by decide, by decide⟩
  obtain ⟨c1, c2, c3, c4, c5, c6, c7, c8, c9, c10, c11⟩ := closed32
  have L1 : FP.lt ⟨24, 8⟩ 2139095040 (FP.abs ⟨24, 8⟩ x) = false := lt_inf_abs binary32 hw x hn
  have L2 : FP.lt ⟨24, 8⟩ (FP.abs ⟨24, 8⟩ x) 2139095040 = isFiniteBits binary32 x := lt_abs_inf binary32 hw x hn
  have E : FP.eq ⟨24, 8⟩ (FP.abs ⟨24, 8⟩ x) 2139095040 = !isFiniteBits binary32 x := eq_abs_inf binary32 hw x hn
  cases hx : isFiniteBits binary32 x
  · have ha : FP.abs ⟨24, 8⟩ x = 2139095040 := abs_inf_eq binary32 hw x hn hx
    simp [Prog.eval, FAVerif.Gen.C02.hypot_f32, evalNodes, evalNode, ha, c1, c2, c9, c10, c11, b2n]
  · have D : FP.div ⟨24, 8⟩ (FP.abs ⟨24, 8⟩ x) 2139095040 = 0 := div_abs_inf binary32 hw x hx
    rw [hx] at L2 E
    simp [Prog.eval, FAVerif.Gen.C02.hypot_f32, evalNodes, evalNode, c1, c2, L1, L2, E, D, c3, c4, c5, c6, c7, c8, b2n]

/-- **hypot at (−inf, x) is +inf for EVERY non-NaN x** (binary32, bit patterns) -/
theorem hypot_f32_at_ninf_x (lib : Libm) (x : Nat) (hn : isNaNBits binary32 x = false) :
    FAVerif.Gen.C02.hypot_f32.eval lib [4286578688, x] = some [2139095040] := by
  have hw : SoftRound.WF binary32 := ⟨by decide, by decide⟩
  obtain ⟨c1, c2, c3, c4, c5, c6, c7, c8, c9, c10, c11⟩ := closed32
  have L1 : FP.lt ⟨24, 8⟩ 2139095040 (FP.abs ⟨24, 8⟩ x) = false := lt_inf_abs binary32 hw x hn
  have L2 : FP.lt ⟨24, 8⟩ (FP.abs ⟨24, 8⟩ x) 2139095040 = isFiniteBits binary32 x := lt_abs_inf binary32 hw x hn
  have E : FP.eq ⟨24, 8⟩ (FP.abs ⟨24, 8⟩ x) 2139095040 = !isFiniteBits binary32 x := eq_abs_inf binary32 hw x hn
  cases hx : isFiniteBits binary32 x
  · have ha : FP.abs ⟨24, 8⟩ x = 2139095040 := abs_inf_eq binary32 hw x hn hx
    simp [Prog.eval, FAVerif.Gen.C02.hypot_f32, evalNodes, evalNode, ha, c1, c2, c9, c10, c11, b2n]
  · have D : FP.div ⟨24, 8⟩ (FP.abs ⟨24, 8⟩ x) 2139095040 = 0 := div_abs_inf binary32 hw x hx
    rw [hx] at L2 E
    simp [Prog.eval, FAVerif.Gen.C02.hypot_f32, evalNodes, evalNode, c1, c2, L1, L2, E, D, c3, c4, c5, c6, c7, c8, b2n]

/-- **hypot at (x, +inf) is +inf for EVERY non-NaN x** (binary64, bit patterns) -/
theorem hypot_f64_at_x_pinf (lib : Libm) (x : Nat) (hn : isNaNBits binary64 x = false) :
    FAVerif.Gen.C02.hypot_f64.eval lib [x, 9218868437227405312] = some [9218868437227405312] := by
  have hw : SoftRound.WF binary64 := ⟨by decide, by decide⟩
  obtain ⟨c1, c2, c3, c4, c5, c6, c7, c8, c9, c10, c11⟩ := closed64
  have L1 : FP.lt ⟨53, 11⟩ 9218868437227405312 (FP.abs ⟨53, 11⟩ x) = false := lt_inf_abs binary64 hw x hn
  have L2 : FP.lt ⟨53, 11⟩ (FP.abs ⟨53, 11⟩ x) 9218868437227405312 = isFiniteBits binary64 x := lt_abs_inf binary64 hw x hn
  have E : FP.eq ⟨53, 11⟩ (FP.abs ⟨53, 11⟩ x) 9218868437227405312 = !isFiniteBits binary64 x := eq_abs_inf binary64 hw x hn
  cases hx : isFiniteBits binary64 x
  · have ha : FP.abs ⟨53, 11⟩ x = 9218868437227405312 := abs_inf_eq binary64 hw x hn hx
    simp [Prog.eval, FAVerif.Gen.C02.hypot_f64, evalNodes, evalNode, ha, c1, c2, c9, c10, c11, b2n]
  · have D : FP.div ⟨53, 11⟩ (FP.abs ⟨53, 11⟩ x) 9218868437227405312 = 0 := div_abs_inf binary64 hw x hx
    rw [hx] at L2 E
    simp [Prog.eval, FAVerif.Gen.C02.hypot_f64, evalNodes, evalNode, c1, c2, L1, L2, E, D, c3, c4, c5, c6, c7, c8, b2n]

/-- **hypot at (x, −inf) is +inf for EVERY non-NaN x** (binary64, bit patterns) -/
theorem hypot_f64_at_x_ninf (lib : Libm) (x : Nat) (hn : isNaNBits binary64 x = false) :
    FAVerif.Gen.C02.hypot_f64.eval lib [x, 18442240474082181120] = some [9218868437227405312] := by
  have hw : SoftRound.WF binary64 := ⟨by decide, by decide⟩
  obtain ⟨c1, c2, c3, c4, c5, c6, c7, c8, c9, c10, c11⟩ := closed64
  have L1 : FP.lt ⟨53, 11⟩ 9218868437227405312 (FP.abs ⟨53, 11⟩ x) = false := lt_inf_abs binary64 hw x hn
  have L2 : FP.lt ⟨53, 11⟩ (FP.abs ⟨53, 11⟩ x) 9218868437227405312 = isFiniteBits binary64 x := lt_abs_inf binary64 hw x hn
  have E : FP.eq ⟨53, 11⟩ (FP.abs ⟨53, 11⟩ x) 9218868437227405312 = !isFiniteBits binary64 x := eq_abs_inf binary64 hw x hn
  cases hx : isFiniteBits binary64 x
  · have ha : FP.abs ⟨53, 11⟩ x = 9218868437227405312 := abs_inf_eq binary64 hw x hn hx
    simp [Prog.eval, FAVerif.Gen.C02.hypot_f64, evalNodes, evalNode, ha, c1, c2, c9, c10, c11, b2n]
  · have D : FP.div ⟨53, 11⟩ (FP.abs ⟨53, 11⟩ x) 9218868437227405312 = 0 := div_abs_inf binary64 hw x hx
    rw [hx] at L2 E
    simp [Prog.eval, FAVerif.Gen.C02.hypot_f64, evalNodes, evalNode, c1, c2, L1, L2, E, D, c3, c4, c5, c6, c7, c8, b2n]

/-- **hypot at (+inf, x) is +inf for EVERY non-NaN x** (binary64, bit patterns) -/
theorem hypot_f64_at_pinf_x (lib : Libm) (x : Nat) (hn : isNaNBits binary64 x = false) :
    FAVerif.Gen.C02.hypot_f64.eval lib [9218868437227405312, x] = some [9218868437227405312] := by
  have hw : SoftRound.WF binary64 := ⟨by decide, by decide⟩
  obtain ⟨c1, c2, c3, c4, c5, c6, c7, c8, c9, c10, c11⟩ := closed64
  have L1 : FP.lt ⟨53, 11⟩ 9218868437227405312 (FP.abs ⟨53, 11⟩ x) = false := lt_inf_abs binary64 hw x hn
  have L2 : FP.lt ⟨53, 11⟩ (FP.abs ⟨53, 11⟩ x) 9218868437227405312 = isFiniteBits binary64 x := lt_abs_inf binary64 hw x hn
  have E : FP.eq ⟨53, 11⟩ (FP.abs ⟨53, 11⟩ x) 9218868437227405312 = !isFiniteBits binary64 x := eq_abs_inf binary64 hw x hn
  cases hx : isFiniteBits binary64 x
  · have ha : FP.abs ⟨53, 11⟩ x = 9218868437227405312 := abs_inf_eq binary64 hw x hn hx
    simp [Prog.eval, FAVerif.Gen.C02.hypot_f64, evalNodes, evalNode, ha, c1, c2, c9, c10, c11, b2n]
  · have D : FP.div ⟨53, 11⟩ (FP.abs ⟨53, 11⟩ x) 9218868437227405312 = 0 := div_abs_inf binary64 hw x hx
    rw [hx] at L2 E
    simp [Prog.eval, FAVerif.Gen.C02.hypot_f64, evalNodes, evalNode, c1, c2, L1, L2, E, D, c3, c4, c5, c6, c7, c8, b2n]

/-- **hypot at (−inf, x) is +inf for EVERY non-NaN x** (binary64, bit patterns) -/
theorem hypot_f64_at_ninf_x (lib : Libm) (x : Nat) (hn : isNaNBits binary64 x = false) :
    FAVerif.Gen.C02.hypot_f64.eval lib [18442240474082181120, x] = some [9218868437227405312] := by
  have hw : SoftRound.WF binary64 := ⟨by decide, by decide⟩
  obtain ⟨c1, c2, c3, c4, c5, c6, c7, c8, c9, c10, c11⟩ := closed64
  have L1 : FP.lt ⟨53, 11⟩ 9218868437227405312 (FP.abs ⟨53, 11⟩ x) = false := lt_inf_abs binary64 hw x hn
  have L2 : FP.lt ⟨53, 11⟩ (FP.abs ⟨53, 11⟩ x) 9218868437227405312 = isFiniteBits binary64 x := lt_abs_inf binary64 hw x hn
  have E : FP.eq ⟨53, 11⟩ (FP.abs ⟨53, 11⟩ x) 9218868437227405312 = !isFiniteBits binary64 x := eq_abs_inf binary64 hw x hn
  cases hx : isFiniteBits binary64 x
  · have ha : FP.abs ⟨53, 11⟩ x = 9218868437227405312 := abs_inf_eq binary64 hw x hn hx
    simp [Prog.eval, FAVerif.Gen.C02.hypot_f64, evalNodes, evalNode, ha, c1, c2, c9, c10, c11, b2n]
  · have D : FP.div ⟨53, 11⟩ (FP.abs ⟨53, 11⟩ x) 9218868437227405312 = 0 := div_abs_inf binary64 hw x hx
    rw [hx] at L2 E
    simp [Prog.eval, FAVerif.Gen.C02.hypot_f64, evalNodes, evalNode, c1, c2, L1, L2, E, D, c3, c4, c5, c6, c7, c8, b2n]

end FAVerif.Props.C02
