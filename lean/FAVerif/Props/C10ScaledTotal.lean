/-
C10 — the DEFAULT-option (scale=True) splitter and Dekker product on BIT PATTERNS with no assumption about the run.  The overflow
analyser is condition-aware (Models/Overflow.lean): with the input known to be ≤ 1 or ≥ 1 in magnitude it decides the
`|x| < 1` test of the scaling idiom, and the clamp test `|x| > x_max` from the exponent bound alone; the two (four) boxes cover
every operand up to 2^K.
-/
import FAVerif.Props.C10Total

namespace FAVerif.Props.C10
open FAVerif.IR FAVerif.FP FAVerif.FPQ FAVerif.Gen.C10 FAVerif.Refine FAVerif.SoftRound FAVerif.Ovf FAVerif.EFT

/-- the checks, evaluated by the kernel on the regenerated programs (float32: K = 46 for the product, 111 for the splitter;
float64: 479 / 992) -/
theorem scaled_overflow_checks :
    (overflowFreeL binary32 [0, 0] [none, none] mul_dekker_scale_f32.nodes = true ∧ overflowFreeL binary32 [46, 0] [some 0, none] mul_dekker_scale_f32.nodes = true ∧
     overflowFreeL binary32 [0, 46] [none, some 0] mul_dekker_scale_f32.nodes = true ∧ overflowFreeL binary32 [46, 46] [some 0, some 0] mul_dekker_scale_f32.nodes = true) ∧
    (overflowFreeL binary64 [0, 0] [none, none] mul_dekker_scale_f64.nodes = true ∧ overflowFreeL binary64 [479, 0] [some 0, none] mul_dekker_scale_f64.nodes = true ∧
     overflowFreeL binary64 [0, 479] [none, some 0] mul_dekker_scale_f64.nodes = true ∧ overflowFreeL binary64 [479, 479] [some 0, some 0] mul_dekker_scale_f64.nodes = true) ∧
    (overflowFreeL binary32 [0] [none] split_veltkamp_scale_f32.nodes = true ∧ overflowFreeL binary32 [111] [some 0] split_veltkamp_scale_f32.nodes = true) ∧
    (overflowFreeL binary64 [0] [none] split_veltkamp_scale_f64.nodes = true ∧ overflowFreeL binary64 [992] [some 0] split_veltkamp_scale_f64.nodes = true) := by
  decide +kernel

theorem scaled_kinds :
    kindsOfS mul_dekker_scale_f32.nodes [] = some dekkerScaleKinds ∧ kindsOfS mul_dekker_scale_f64.nodes [] = some dekkerScaleKinds := by
  decide +kernel

/-- the ℚ-run of the regenerated default-option Dekker product (float32), from `dekker_product_scaled` and the ties -/
lemma dekker_default_evalQ_f32 (x y : Nat) (sx sy : Bool) (mx my : Nat) (ex ey : Int)
    (dx : decode binary32 x = .fin sx mx ex) (dy : decode binary32 y = .fin sy my ey)
    (nx : 2 ^ 23 ≤ mx) (ny : 2 ^ 23 ≤ my) (hex : binary32.emin + 12 ≤ ex) (hey : binary32.emin + 12 ≤ ey) (hund : binary32.emin ≤ ex + ey)
    (Xm : ℚ) (hXm : (decode binary32 2139090944).toRat? = some Xm) (hxm : |valQ sx mx ex| ≤ Xm) (hym : |valQ sy my ey| ≤ Xm) :
    mul_dekker_scale_f32.evalQ (rne (qf binary32 (by decide))) [valQ sx mx ex, valQ sy my ey] =
      some [rne (qf binary32 (by decide)) (valQ sx mx ex * valQ sy my ey),
            valQ sx mx ex * valQ sy my ey - rne (qf binary32 (by decide)) (valQ sx mx ex * valQ sy my ey)] := by
  have hf : WF binary32 := ⟨by decide, by decide⟩
  have hfm : mul_dekker_scale_f32.fmt = binary32 := by decide
  obtain ⟨bx1, bx2⟩ := decode_bounds binary32 hf x sx mx ex dx
  obtain ⟨by1, by2⟩ := decode_bounds binary32 hf y sy my ey dy
  have habs : ∀ (s : Bool) (m : Nat), |(if s then -(m : ℤ) else (m : ℤ))| = (m : ℤ) := by
    intro s m; cases s <;> simp
  obtain ⟨-, ⟨t1, t2⟩, -, -, c32, -⟩ := ties_split_scaled
  obtain ⟨-, ⟨u1, u2⟩, -⟩ := ties_dekker_scaled
  obtain ⟨-, cC, -⟩ := split_constants
  have ci : (decode binary32 964689920).toRat? = some (1 / 2 ^ 12) := by have := congrArg (·.1) c32; simpa using this
  have cN : (decode binary32 1166016512).toRat? = some (2 ^ 12) := by have := congrArg (·.2.1) c32; simpa using this
  have c1 : (decode binary32 1065353216).toRat? = some 1 := by have := congrArg (·.2.2) c32; simpa using this
  have c0 : (decode binary32 0).toRat? = some 0 := by decide +kernel
  unfold Prog.evalQ
  rw [u1, u2, hfm]
  exact dekker_product_scaled (qf binary32 hf.hp) _ (isRN_rne _) binary32 _ _ _ _ _ _ 12 12 Xm cC hXm c0 c1 ci cN
    (by show 24 ≤ 2 * 12; norm_num) (by show 2 * 12 ≤ 24 + 2; norm_num) (by show 12 + 2 ≤ 24; norm_num)
    (if sx then -(mx : ℤ) else mx) (if sy then -(my : ℤ) else my) ex ey
    (by rw [habs]; exact_mod_cast nx) (by rw [habs]; exact_mod_cast bx1)
    (by rw [habs]; exact_mod_cast ny) (by rw [habs]; exact_mod_cast by1)
    (by show binary32.emin ≤ ex - ((12 : ℕ) : ℤ); omega) (by show binary32.emin ≤ ey - ((12 : ℕ) : ℤ); omega) hund
    _ _ (valQ_int sx mx ex) (valQ_int sy my ey) hxm hym

theorem xmax32 : (decode binary32 2139090944).toRat? = some (16773120 * 2 ^ 104) := by decide +kernel

/-- **`mul_dekker(x, y)` with its DEFAULT options on bit patterns, unconditional** (float32): for ALL normal operand patterns with
|x|, |y| ≤ 2^46, e ≥ emin + 12 and ex + ey ≥ emin (the error term does not underflow) the run exists, none of its 41 float
operations overflows, and value(h) = RNE(x·y), value(h) + value(l) = x·y exactly. -/
theorem dekker_default_total_f32 (lib : Libm) (x y : Nat) (sx sy : Bool) (mx my : Nat) (ex ey : Int)
    (dx : decode binary32 x = .fin sx mx ex) (dy : decode binary32 y = .fin sy my ey)
    (nx : 2 ^ 23 ≤ mx) (ny : 2 ^ 23 ≤ my) (hex : binary32.emin + 12 ≤ ex) (hey : binary32.emin + 12 ≤ ey) (hund : binary32.emin ≤ ex + ey)
    (bx : |valQ sx mx ex| ≤ 2 ^ (46 : ℤ)) (bY : |valQ sy my ey| ≤ 2 ^ (46 : ℤ)) :
    ∃ h l : Nat, mul_dekker_scale_f32.eval lib [x, y] = some [h, l] ∧ isFiniteBits binary32 h = true ∧ isFiniteBits binary32 l = true ∧
      ∃ qh ql : ℚ, toQ binary32 h = some qh ∧ toQ binary32 l = some ql ∧
        qh = rne (qf binary32 (by decide)) (valQ sx mx ex * valQ sy my ey) ∧ qh + ql = valQ sx mx ex * valQ sy my ey := by
  have hf : WF binary32 := ⟨by decide, by decide⟩
  have h46 : (2 : ℚ) ^ (46 : ℤ) ≤ 16773120 * 2 ^ 104 := by
    rw [show ((2 : ℚ) ^ (46 : ℤ)) = 2 ^ (46 : ℕ) by norm_cast]; norm_num
  have hq := dekker_default_evalQ_f32 x y sx sy mx my ex ey dx dy nx ny hex hey hund _ xmax32 (le_trans bx h46) (le_trans bY h46)
  obtain ⟨c00, c10, c01, c11⟩ := scaled_overflow_checks.1
  obtain ⟨h, l, h1, h2, h3, h4, h5⟩ := total2_boxes mul_dekker_scale_f32 hf Lmax_ge4.2.1 _ scaled_kinds.1
    (by decide) 46 c00 c10 c01 c11 lib x y _ _
    (insRel2 (finite_of_decode _ _ _ _ _ dx) (finite_of_decode _ _ _ _ _ dy) (toQ_fin _ x sx mx ex dx) (toQ_fin _ y sy my ey dy)) bx bY _ _ hq
  exact ⟨h, l, h1, h2, h3, _, _, h4, h5, rfl, by ring⟩

/-- the ℚ-run of the regenerated default-option Dekker product (float64), from `dekker_product_scaled` and the ties -/
lemma dekker_default_evalQ_f64 (x y : Nat) (sx sy : Bool) (mx my : Nat) (ex ey : Int)
    (dx : decode binary64 x = .fin sx mx ex) (dy : decode binary64 y = .fin sy my ey)
    (nx : 2 ^ 52 ≤ mx) (ny : 2 ^ 52 ≤ my) (hex : binary64.emin + 27 ≤ ex) (hey : binary64.emin + 27 ≤ ey) (hund : binary64.emin ≤ ex + ey)
    (Xm : ℚ) (hXm : (decode binary64 9218868437093187584).toRat? = some Xm) (hxm : |valQ sx mx ex| ≤ Xm) (hym : |valQ sy my ey| ≤ Xm) :
    mul_dekker_scale_f64.evalQ (rne (qf binary64 (by decide))) [valQ sx mx ex, valQ sy my ey] =
      some [rne (qf binary64 (by decide)) (valQ sx mx ex * valQ sy my ey),
            valQ sx mx ex * valQ sy my ey - rne (qf binary64 (by decide)) (valQ sx mx ex * valQ sy my ey)] := by
  have hf : WF binary64 := ⟨by decide, by decide⟩
  have hfm : mul_dekker_scale_f64.fmt = binary64 := by decide
  obtain ⟨bx1, bx2⟩ := decode_bounds binary64 hf x sx mx ex dx
  obtain ⟨by1, by2⟩ := decode_bounds binary64 hf y sy my ey dy
  have habs : ∀ (s : Bool) (m : Nat), |(if s then -(m : ℤ) else (m : ℤ))| = (m : ℤ) := by
    intro s m; cases s <;> simp
  obtain ⟨-, -, -, -, -, c32⟩ := ties_split_scaled
  obtain ⟨-, -, ⟨u1, u2⟩⟩ := ties_dekker_scaled
  obtain ⟨-, -, cC⟩ := split_constants
  have ci : (decode binary64 4485585228861014016).toRat? = some (1 / 2 ^ 27) := by have := congrArg (·.1) c32; simpa using this
  have cN : (decode binary64 4728779608739020800).toRat? = some (2 ^ 27) := by have := congrArg (·.2.1) c32; simpa using this
  have c1 : (decode binary64 4607182418800017408).toRat? = some 1 := by have := congrArg (·.2.2) c32; simpa using this
  have c0 : (decode binary64 0).toRat? = some 0 := by decide +kernel
  unfold Prog.evalQ
  rw [u1, u2, hfm]
  exact dekker_product_scaled (qf binary64 hf.hp) _ (isRN_rne _) binary64 _ _ _ _ _ _ 27 27 Xm cC hXm c0 c1 ci cN
    (by show 53 ≤ 2 * 27; norm_num) (by show 2 * 27 ≤ 53 + 2; norm_num) (by show 27 + 2 ≤ 53; norm_num)
    (if sx then -(mx : ℤ) else mx) (if sy then -(my : ℤ) else my) ex ey
    (by rw [habs]; exact_mod_cast nx) (by rw [habs]; exact_mod_cast bx1)
    (by rw [habs]; exact_mod_cast ny) (by rw [habs]; exact_mod_cast by1)
    (by show binary64.emin ≤ ex - ((27 : ℕ) : ℤ); omega) (by show binary64.emin ≤ ey - ((27 : ℕ) : ℤ); omega) hund
    _ _ (valQ_int sx mx ex) (valQ_int sy my ey) hxm hym


theorem xmax64 : (decode binary64 9218868437093187584).toRat? = some (9007199120523264 * 2 ^ 971) := by decide +kernel

/-- **`mul_dekker(x, y)` with its DEFAULT options on bit patterns, unconditional** (float64): for ALL normal operand patterns with
|x|, |y| ≤ 2^479, e ≥ emin + 27 and ex + ey ≥ emin (the error term does not underflow) the run exists, none of its 41 float
operations overflows, and value(h) = RNE(x·y), value(h) + value(l) = x·y exactly. -/
theorem dekker_default_total_f64 (lib : Libm) (x y : Nat) (sx sy : Bool) (mx my : Nat) (ex ey : Int)
    (dx : decode binary64 x = .fin sx mx ex) (dy : decode binary64 y = .fin sy my ey)
    (nx : 2 ^ 52 ≤ mx) (ny : 2 ^ 52 ≤ my) (hex : binary64.emin + 27 ≤ ex) (hey : binary64.emin + 27 ≤ ey) (hund : binary64.emin ≤ ex + ey)
    (bx : |valQ sx mx ex| ≤ 2 ^ (479 : ℤ)) (bY : |valQ sy my ey| ≤ 2 ^ (479 : ℤ)) :
    ∃ h l : Nat, mul_dekker_scale_f64.eval lib [x, y] = some [h, l] ∧ isFiniteBits binary64 h = true ∧ isFiniteBits binary64 l = true ∧
      ∃ qh ql : ℚ, toQ binary64 h = some qh ∧ toQ binary64 l = some ql ∧
        qh = rne (qf binary64 (by decide)) (valQ sx mx ex * valQ sy my ey) ∧ qh + ql = valQ sx mx ex * valQ sy my ey := by
  have hf : WF binary64 := ⟨by decide, by decide⟩
  have h479 : (2 : ℚ) ^ (479 : ℤ) ≤ 9007199120523264 * 2 ^ 971 := by
    have a : (2 : ℚ) ^ (479 : ℤ) ≤ 2 ^ (971 : ℤ) := zpow_le_zpow_right₀ (by norm_num) (by norm_num)
    have b : ((2 : ℚ) ^ (971 : ℤ)) = 2 ^ (971 : ℕ) := by
      rw [show (971 : ℤ) = ((971 : ℕ) : ℤ) from rfl]; exact zpow_natCast 2 971
    rw [b] at a
    generalize (2 : ℚ) ^ (971 : ℕ) = P at a ⊢
    have c : (0 : ℚ) ≤ (2 : ℚ) ^ (479 : ℤ) := by positivity
    generalize (2 : ℚ) ^ (479 : ℤ) = T at a c ⊢
    linarith
  have hq := dekker_default_evalQ_f64 x y sx sy mx my ex ey dx dy nx ny hex hey hund _ xmax64 (le_trans bx h479) (le_trans bY h479)
  obtain ⟨c00, c10, c01, c11⟩ := scaled_overflow_checks.2.1
  obtain ⟨h, l, h1, h2, h3, h4, h5⟩ := total2_boxes mul_dekker_scale_f64 hf Lmax_ge4.2.2 _ scaled_kinds.2
    (by decide) 479 c00 c10 c01 c11 lib x y _ _
    (insRel2 (finite_of_decode _ _ _ _ _ dx) (finite_of_decode _ _ _ _ _ dy) (toQ_fin _ x sx mx ex dx) (toQ_fin _ y sy my ey dy)) bx bY _ _ hq
  exact ⟨h, l, h1, h2, h3, _, _, h4, h5, rfl, by ring⟩


/-! ### the scaled splitter -/

theorem split_scaled_kinds :
    kindsOfS split_veltkamp_scale_f32.nodes [] = some [false, false, false, true, false, true, false, false, false, true, false, false, false, false,
      false, false, false, false, false, false, false, false] ∧
    kindsOfS split_veltkamp_scale_f64.nodes [] = some [false, false, false, true, false, true, false, false, false, true, false, false, false, false,
      false, false, false, false, false, false, false, false] := by decide +kernel

/-- **`split_veltkamp(x, scale=True)` on bit patterns, unconditional** (float32): every normal pattern ±m·2^e with e ≥ emin + 12 and
|x| ≤ 2^111: the run exists, is finite, value(xh) + value(xl) = x, xh on the grid 2^(e+12), |xl| ≤ 2^(e+11). -/
theorem split_scaled_total_f32 (lib : Libm) (x : Nat) (s : Bool) (m : Nat) (e : Int) (dx : decode binary32 x = .fin s m e)
    (nm : 2 ^ 23 ≤ m) (he : binary32.emin + 12 ≤ e) (bx : |valQ s m e| ≤ 2 ^ (111 : ℤ)) :
    ∃ h l : Nat, split_veltkamp_scale_f32.eval lib [x] = some [h, l] ∧ isFiniteBits binary32 h = true ∧ isFiniteBits binary32 l = true ∧
      ∃ qh ql : ℚ, toQ binary32 h = some qh ∧ toQ binary32 l = some ql ∧ qh + ql = valQ s m e ∧ Mult (e + 12) qh ∧ |ql| ≤ 2 ^ (e + 12) / 2 := by
  have hf : WF binary32 := ⟨by decide, by decide⟩
  have hfm : split_veltkamp_scale_f32.fmt = binary32 := by decide
  obtain ⟨b1, b2⟩ := decode_bounds binary32 hf x s m e dx
  have habs : |(if s then -(m : ℤ) else (m : ℤ))| = (m : ℤ) := by cases s <;> simp
  obtain ⟨-, ⟨t1, t2⟩, -, -, c32, -⟩ := ties_split_scaled
  obtain ⟨-, cC, -⟩ := split_constants
  have ci : (decode binary32 964689920).toRat? = some (1 / 2 ^ 12) := by have := congrArg (·.1) c32; simpa using this
  have cN : (decode binary32 1166016512).toRat? = some (2 ^ 12) := by have := congrArg (·.2.1) c32; simpa using this
  have c1 : (decode binary32 1065353216).toRat? = some 1 := by have := congrArg (·.2.2) c32; simpa using this
  have c0 : (decode binary32 0).toRat? = some 0 := by decide +kernel
  have h111 : (2 : ℚ) ^ (111 : ℤ) ≤ 16773120 * 2 ^ 104 := by
    rw [show ((2 : ℚ) ^ (111 : ℤ)) = 2 ^ (111 : ℕ) by norm_cast]; norm_num
  obtain ⟨xh, xl, hq, hsum, hM, -, -, hl⟩ := veltkamp_split_scaled (qf binary32 hf.hp) (rne (qf binary32 hf.hp)) (isRN_rne _) binary32 _ _ _ _ _ _ 12 12 _
    cC xmax32 c0 c1 ci cN (by norm_num) (by show 12 < 24; norm_num) (if s then -(m : ℤ) else m) e
    (by rw [habs]; exact_mod_cast nm) (by rw [habs]; exact_mod_cast b1) (by show binary32.emin ≤ e - ((12 : ℕ) : ℤ); omega)
    (by rw [← valQ_int s m e]; exact le_trans bx h111)
  rw [← valQ_int s m e] at hq hsum
  have hq' : split_veltkamp_scale_f32.evalQ (rne (qf binary32 hf.hp)) [valQ s m e] = some [xh, xl] := by
    unfold Prog.evalQ; rw [t1, t2, hfm]; exact hq
  obtain ⟨c0', c1'⟩ := scaled_overflow_checks.2.2.1
  obtain ⟨h, l, h1, h2, h3, h4, h5⟩ := total2_boxes1 split_veltkamp_scale_f32 hf Lmax_ge4.2.1 _ split_scaled_kinds.1
    (by decide) 111 c0' c1' lib x _ (insRel1 (finite_of_decode _ _ _ _ _ dx) (toQ_fin _ x s m e dx)) bx _ _ hq'
  exact ⟨h, l, h1, h2, h3, xh, xl, h4, h5, hsum, hM, hl⟩

/-- **`split_veltkamp(x, scale=True)` on bit patterns, unconditional** (float64): every normal pattern ±m·2^e with e ≥ emin + 27 and
|x| ≤ 2^992: the run exists, is finite, value(xh) + value(xl) = x, xh on the grid 2^(e+27), |xl| ≤ 2^(e+26). -/
theorem split_scaled_total_f64 (lib : Libm) (x : Nat) (s : Bool) (m : Nat) (e : Int) (dx : decode binary64 x = .fin s m e)
    (nm : 2 ^ 52 ≤ m) (he : binary64.emin + 27 ≤ e) (bx : |valQ s m e| ≤ 2 ^ (992 : ℤ)) :
    ∃ h l : Nat, split_veltkamp_scale_f64.eval lib [x] = some [h, l] ∧ isFiniteBits binary64 h = true ∧ isFiniteBits binary64 l = true ∧
      ∃ qh ql : ℚ, toQ binary64 h = some qh ∧ toQ binary64 l = some ql ∧ qh + ql = valQ s m e ∧ Mult (e + 27) qh ∧ |ql| ≤ 2 ^ (e + 27) / 2 := by
  have hf : WF binary64 := ⟨by decide, by decide⟩
  have hfm : split_veltkamp_scale_f64.fmt = binary64 := by decide
  obtain ⟨b1, b2⟩ := decode_bounds binary64 hf x s m e dx
  have habs : |(if s then -(m : ℤ) else (m : ℤ))| = (m : ℤ) := by cases s <;> simp
  obtain ⟨-, -, ⟨t1, t2⟩, -, -, c32⟩ := ties_split_scaled
  obtain ⟨-, -, cC⟩ := split_constants
  have ci : (decode binary64 4485585228861014016).toRat? = some (1 / 2 ^ 27) := by have := congrArg (·.1) c32; simpa using this
  have cN : (decode binary64 4728779608739020800).toRat? = some (2 ^ 27) := by have := congrArg (·.2.1) c32; simpa using this
  have c1 : (decode binary64 4607182418800017408).toRat? = some 1 := by have := congrArg (·.2.2) c32; simpa using this
  have c0 : (decode binary64 0).toRat? = some 0 := by decide +kernel
  have h992 : (2 : ℚ) ^ (992 : ℤ) ≤ 9007199120523264 * 2 ^ 971 := by
    have a : (2 : ℚ) ^ (992 : ℤ) = 2 ^ (21 : ℤ) * 2 ^ (971 : ℤ) := by rw [← zpow_add₀ (by norm_num : (2 : ℚ) ≠ 0)]; norm_num
    have b : ((2 : ℚ) ^ (971 : ℤ)) = 2 ^ (971 : ℕ) := by
      rw [show (971 : ℤ) = ((971 : ℕ) : ℤ) from rfl]; exact zpow_natCast 2 971
    rw [a, b]
    have c : (0 : ℚ) ≤ (2 : ℚ) ^ (971 : ℕ) := by positivity
    generalize (2 : ℚ) ^ (971 : ℕ) = P at c ⊢
    have d : (2 : ℚ) ^ (21 : ℤ) = 2097152 := by norm_num
    rw [d]; nlinarith
  obtain ⟨xh, xl, hq, hsum, hM, -, -, hl⟩ := veltkamp_split_scaled (qf binary64 hf.hp) (rne (qf binary64 hf.hp)) (isRN_rne _) binary64 _ _ _ _ _ _ 27 27 _
    cC xmax64 c0 c1 ci cN (by norm_num) (by show 27 < 53; norm_num) (if s then -(m : ℤ) else m) e
    (by rw [habs]; exact_mod_cast nm) (by rw [habs]; exact_mod_cast b1) (by show binary64.emin ≤ e - ((27 : ℕ) : ℤ); omega)
    (by rw [← valQ_int s m e]; exact le_trans bx h992)
  rw [← valQ_int s m e] at hq hsum
  have hq' : split_veltkamp_scale_f64.evalQ (rne (qf binary64 hf.hp)) [valQ s m e] = some [xh, xl] := by
    unfold Prog.evalQ; rw [t1, t2, hfm]; exact hq
  obtain ⟨c0', c1'⟩ := scaled_overflow_checks.2.2.2
  obtain ⟨h, l, h1, h2, h3, h4, h5⟩ := total2_boxes1 split_veltkamp_scale_f64 hf Lmax_ge4.2.2 _ split_scaled_kinds.2
    (by decide) 992 c0' c1' lib x _ (insRel1 (finite_of_decode _ _ _ _ _ dx) (toQ_fin _ x s m e dx)) bx _ _ hq'
  exact ⟨h, l, h1, h2, h3, xh, xl, h4, h5, hsum, hM, hl⟩

end FAVerif.Props.C10
