/-
C03 — symmetries, bit for bit.  Theorems on the programs regenerated from the current source, in
the bit-exact softfloat, for EVERY input pattern (NaN, infinities, zeros and subnormals included):
complex `square` commutes with conjugation; real `square` and `absolute` are even.  `negN` is
negation that leaves NaN alone (the model has one NaN: "NaN matching NaN").
The symmetries of the algorithms that call libm (conj: acos, acosh, asin, asinh, atan, exp, sqrt, square,
absolute, and the imaginary parts of atanh, log, log10, log1p, log2; odd: asin, asinh complex and real,
and single components of atan, atanh, acos, acosh, square) are proved through a verified symmetry analyser (Models/Sym.lean, soundness in
Lemmas/SymSound.lean) in Props/C03Sym.lean: `symmetry_analyser_sound` holds for every program, format and oracle; the
per-program facts `outDescs p cfg = …` are kernel-evaluated on the regenerated programs.  The
remaining identities (rotations, the undecided components, inputs with a zero part) are decided by search (fav/props/c03.py).
-/
import FAVerif.Lemmas.SoftSign
import FAVerif.Generated.C03

namespace FAVerif.Props.C03
open FAVerif.IR FAVerif.FP FAVerif.Gen.C03 FAVerif.SoftRound

theorem generated_wf : ∀ p ∈ FAVerif.Gen.C03.all, p.2.wf = true := by decide +kernel

/-- conj on result lists -/
def conjOut (f : Fmt) : List Nat → List Nat
  | [re, im] => [re, negN f im]
  | l => l

/-- **square(conj z) = conj(square z)**, complex64: real parts identical bit for bit, imaginary
parts negated (NaN stays NaN) — for all patterns x, y, no hypothesis. -/
theorem conj_square_c64 (lib : Libm) (x y : Nat) :
    square_complex64.eval lib [x, FAVerif.FP.neg binary32 y] = (square_complex64.eval lib [x, y]).map (conjOut binary32) := by
  have h : WF binary32 := ⟨by decide, by decide⟩
  simp only [Prog.eval, square_complex64, evalNodes, evalNode, b2n]
  simp [conjOut]
  have e1 := abs_neg_eq binary32 h y
  have e2 := sub_neg_eq_add binary32 h x y
  have e3 := neg_add_eq_sub binary32 h x y
  have e4 := mul_neg_left binary32 h y x
  have e5 := mul_negN_right binary32 h 1073741824 (FAVerif.FP.mul binary32 y x)
  simp only [binary32] at e1 e2 e3 e4 e5 ⊢
  simp only [e1, e2, e3, e4, e5]
  refine ⟨?_, trivial⟩
  rw [mul_comm' _ (FAVerif.FP.add _ x y) _, add_comm' _ x y]

theorem conj_square_c128 (lib : Libm) (x y : Nat) :
    square_complex128.eval lib [x, FAVerif.FP.neg binary64 y] = (square_complex128.eval lib [x, y]).map (conjOut binary64) := by
  have h : WF binary64 := ⟨by decide, by decide⟩
  simp only [Prog.eval, square_complex128, evalNodes, evalNode, b2n]
  simp [conjOut]
  have e1 := abs_neg_eq binary64 h y
  have e2 := sub_neg_eq_add binary64 h x y
  have e3 := neg_add_eq_sub binary64 h x y
  have e4 := mul_neg_left binary64 h y x
  have e5 := mul_negN_right binary64 h 4611686018427387904 (FAVerif.FP.mul binary64 y x)
  simp only [binary64] at e1 e2 e3 e4 e5 ⊢
  simp only [e1, e2, e3, e4, e5]
  refine ⟨?_, trivial⟩
  rw [mul_comm' _ (FAVerif.FP.add _ x y) _, add_comm' _ x y]

/-- **real square is even**: square(−x) = square(x) bit for bit, for every pattern. -/
theorem even_square_real (lib : Libm) (x : Nat) :
    square_float32.eval lib [FAVerif.FP.neg binary32 x] = square_float32.eval lib [x] ∧
    square_float64.eval lib [FAVerif.FP.neg binary64 x] = square_float64.eval lib [x] := by
  have h32 : WF binary32 := ⟨by decide, by decide⟩
  have h64 : WF binary64 := ⟨by decide, by decide⟩
  constructor
  · simp only [Prog.eval, square_float32, evalNodes, evalNode]
    simp
    have := mul_neg_left binary32 h32 x (FAVerif.FP.neg binary32 x)
    have e2 := mul_neg_right binary32 h32 x x
    simp only [binary32] at this e2 ⊢
    rw [this, e2]; exact negN_negN binary32 h32 _
  · simp only [Prog.eval, square_float64, evalNodes, evalNode]
    simp
    have := mul_neg_left binary64 h64 x (FAVerif.FP.neg binary64 x)
    have e2 := mul_neg_right binary64 h64 x x
    simp only [binary64] at this e2 ⊢
    rw [this, e2]; exact negN_negN binary64 h64 _

/-- **real absolute is even**, for every pattern. -/
theorem even_absolute_real (lib : Libm) (x : Nat) :
    absolute_float32.eval lib [FAVerif.FP.neg binary32 x] = absolute_float32.eval lib [x] ∧
    absolute_float64.eval lib [FAVerif.FP.neg binary64 x] = absolute_float64.eval lib [x] := by
  constructor
  · simp only [Prog.eval, absolute_float32, evalNodes, evalNode]
    simp
    have := abs_neg_eq binary32 ⟨by decide, by decide⟩ x
    simp only [binary32] at this ⊢
    exact this
  · simp only [Prog.eval, absolute_float64, evalNodes, evalNode]
    simp
    have := abs_neg_eq binary64 ⟨by decide, by decide⟩ x
    simp only [binary64] at this ⊢
    exact this

/-- The sign laws of the softfloat the theorems above rest on, for every format with p ≥ 2, ew ≥ 2
and every pattern. -/
theorem soft_sign_laws (f : Fmt) (hf : 2 ≤ f.p ∧ 2 ≤ f.ew) (a b : Nat) :
    FAVerif.FP.abs f (FAVerif.FP.neg f a) = FAVerif.FP.abs f a ∧
    FAVerif.FP.neg f (FAVerif.FP.neg f a) = a ∧
    FAVerif.FP.add f a b = FAVerif.FP.add f b a ∧
    FAVerif.FP.mul f a b = FAVerif.FP.mul f b a ∧
    FAVerif.FP.sub f a (FAVerif.FP.neg f b) = FAVerif.FP.add f a b ∧
    FAVerif.FP.add f (FAVerif.FP.neg f b) a = FAVerif.FP.sub f a b ∧
    FAVerif.FP.mul f (FAVerif.FP.neg f a) b = negN f (FAVerif.FP.mul f a b) :=
  ⟨abs_neg_eq f ⟨hf.1, hf.2⟩ a, neg_neg' f ⟨hf.1, hf.2⟩ a, add_comm' f a b, mul_comm' f a b,
   sub_neg_eq_add f ⟨hf.1, hf.2⟩ a b, neg_add_eq_sub f ⟨hf.1, hf.2⟩ a b, mul_neg_left f ⟨hf.1, hf.2⟩ a b⟩


end FAVerif.Props.C03
