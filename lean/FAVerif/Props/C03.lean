/-
C03 — symmetries.  (Theorem layer under construction: sign laws of the softfloat and their
lifting to the regenerated `square` programs; the libm-based identities are decided by search.)
-/
import FAVerif.Generated.C03

namespace FAVerif.Props.C03
open FAVerif.IR FAVerif.FP FAVerif.Gen.C03

theorem generated_wf : ∀ p ∈ FAVerif.Gen.C03.all, p.2.wf = true := by decide +kernel

end FAVerif.Props.C03
