/-
C01 — complex `absolute` on BIT PATTERNS (complex64, complex128), end to end: see Props/C02HypotBits.lean.
-/
import FAVerif.Props.C01Abs
import FAVerif.Lemmas.HypotBits

namespace FAVerif.Props.C01
open FAVerif.IR FAVerif.FP FAVerif.FPQ FAVerif.Gen.C01 FAVerif.Spec FAVerif.EFT FAVerif.Refine FAVerif.SoftRound

theorem absolute_kinds : kindsOfS absolute_c64.nodes [] = some hypotKinds ∧ kindsOfS absolute_c128.nodes [] = some hypotKinds := by
  decide +kernel

/-- **complex `absolute` on bit patterns** (complex64): for all finite parts with max(|x|,|y|) ≥ 2^−125 (twice the smallest
normal number), whenever no float node of the fully expanded program is non-finite, the result pattern is finite and its
value H satisfies (1−u)^7 |z|² ≤ H² ≤ (1+u)^7 |z|² — within 4 ULP of |z| (the property asks for 16). -/
theorem absolute_bit_level_c64 (lib : Libm) (x y : Nat) (qx qy : ℚ) (hx : isFiniteBits binary32 x = true) (hy : isFiniteBits binary32 y = true)
    (vx : toQ binary32 x = some qx) (vy : toQ binary32 y = some qy) (hmx : 2 ^ (-125 : ℤ) ≤ max |qx| |qy|)
    (env : Array Nat) (he : evalNodes binary32 lib [x, y] absolute_c64.nodes #[] = some env)
    (hfin : ∀ (i : Nat) (v : Nat), env[i]? = some v → hypotKinds[i]? = some false → isFiniteBits binary32 v = true)
    (o : Nat) (ho : absolute_c64.eval lib [x, y] = some [o]) :
    ∃ H : ℚ, isFiniteBits binary32 o = true ∧ toQ binary32 o = some H ∧ 0 ≤ H ∧
      (1 - (1 : ℚ) / 2 ^ 24) ^ 7 * (qx ^ 2 + qy ^ 2) ≤ H ^ 2 ∧ H ^ 2 ≤ (1 + (1 : ℚ) / 2 ^ 24) ^ 7 * (qx ^ 2 + qy ^ 2) := by
  obtain ⟨c1, c2, c3, c4, -, -, -, -⟩ := absolute_constants
  obtain ⟨b1, b2, -, -⟩ := sqrt2_bounds
  obtain ⟨t1, t2, t3, -, -, -⟩ := ties_absolute
  exact hypot_bits_of absolute_c64 ⟨by decide, by decide⟩ (by decide) (by decide) _ _ _ _ sqrt2_c64 t1 t2 absolute_kinds.1
    c1 c2 c3 c4 (by unfold sqrt2_c64; norm_num) (by exact b1) (by exact b2) lib x y qx qy hx hy vx vy hmx env he hfin o ho

theorem absolute_bit_level_c128 (lib : Libm) (x y : Nat) (qx qy : ℚ) (hx : isFiniteBits binary64 x = true) (hy : isFiniteBits binary64 y = true)
    (vx : toQ binary64 x = some qx) (vy : toQ binary64 y = some qy) (hmx : 2 ^ (-1021 : ℤ) ≤ max |qx| |qy|)
    (env : Array Nat) (he : evalNodes binary64 lib [x, y] absolute_c128.nodes #[] = some env)
    (hfin : ∀ (i : Nat) (v : Nat), env[i]? = some v → hypotKinds[i]? = some false → isFiniteBits binary64 v = true)
    (o : Nat) (ho : absolute_c128.eval lib [x, y] = some [o]) :
    ∃ H : ℚ, isFiniteBits binary64 o = true ∧ toQ binary64 o = some H ∧ 0 ≤ H ∧
      (1 - (1 : ℚ) / 2 ^ 53) ^ 7 * (qx ^ 2 + qy ^ 2) ≤ H ^ 2 ∧ H ^ 2 ≤ (1 + (1 : ℚ) / 2 ^ 53) ^ 7 * (qx ^ 2 + qy ^ 2) := by
  obtain ⟨-, -, -, -, c1, c2, c3, c4⟩ := absolute_constants
  obtain ⟨-, -, b1, b2⟩ := sqrt2_bounds
  obtain ⟨-, -, -, t1, t2, t3⟩ := ties_absolute
  exact hypot_bits_of absolute_c128 ⟨by decide, by decide⟩ (by decide) (by decide) _ _ _ _ sqrt2_c128 t1 t2 absolute_kinds.2
    c1 c2 c3 c4 (by unfold sqrt2_c128; norm_num) (by exact b1) (by exact b2) lib x y qx qy hx hy vx vy hmx env he hfin o ho

end FAVerif.Props.C01
