/-
C14 — the docstring identities of `ulp` on the IEEE ADDITION itself.  `Props/C14.lean` states them on exact values
("the exact sum x + ulp(x) is the value of the upper neighbour"); here they are carried through the executable softfloat
addition `FP.add` (proved correctly rounded, `Lemmas/SoftOps.lean`, and shown to return a finite pattern whenever the rounded
exact result is within the finite range, `Lemmas/SoftFinite.lean`): the computed `x + ulp(x)` IS the neighbour.
-/
import FAVerif.Props.C14
import FAVerif.Lemmas.SoftFinite

namespace FAVerif.Props.C14
open FAVerif.FP FAVerif.Ulp FAVerif.FPQ FAVerif.SoftRound FAVerif.EFT

/-- **`x + ulp(x) == nextafter(x, inf)` in IEEE arithmetic**: for EVERY finite `x ≥ 0` below max (both zeros, every subnormal,
every normal) whose `ulp(x)` is a finite pattern, the softfloat sum of the patterns `x` and `ulp x` is finite and has the value of
the upper neighbour `nextUp x`. -/
theorem ulp_next_ieee_of (f : Fmt) (h0 : Ulp.WF f) (x : Nat) (hx : x < 2 ^ f.width) (fx : isFiniteBits f x = true)
    (hge : pyLt0 f x = false) (hmax : x ≠ f.maxBits) (fu : isFiniteBits f (ulp f x) = true) :
    isFiniteBits f (FP.add f x (ulp f x)) = true ∧ toQ f (FP.add f x (ulp f x)) = toQ f (Ulp.nextUp f x) := by
  have h : SoftRound.WF f := ⟨h0.hp, h0.hew⟩
  obtain ⟨hsum, fn⟩ := ulp_next f h0 x hx fx hge hmax
  obtain ⟨sx, mx, ex, dx⟩ := finite_decode f x fx
  obtain ⟨su, mu, eu, du⟩ := finite_decode f (ulp f x) fu
  obtain ⟨sn, mn, en, dn⟩ := finite_decode f (Ulp.nextUp f x) fn
  have vx := decode_sval f h0 x fx
  have vu := decode_sval f h0 (ulp f x) fu
  have vn := decode_sval f h0 (Ulp.nextUp f x) fn
  rw [dx] at vx; rw [du] at vu; rw [dn] at vn
  have ex' : valQ sx mx ex = (sval f x : ℚ) * pow2 f.emin := by
    have := toRat_fin sx mx ex; rw [vx] at this; exact (Option.some.inj this).symm
  have eu' : valQ su mu eu = (sval f (ulp f x) : ℚ) * pow2 f.emin := by
    have := toRat_fin su mu eu; rw [vu] at this; exact (Option.some.inj this).symm
  have en' : valQ sn mn en = (sval f (Ulp.nextUp f x) : ℚ) * pow2 f.emin := by
    have := toRat_fin sn mn en; rw [vn] at this; exact (Option.some.inj this).symm
  have hexact : valQ sx mx ex + valQ su mu eu = valQ sn mn en := by
    rw [ex', eu', en', hsum]; push_cast; ring
  have hrep : Rep (qf f h.hp) (valQ sn mn en) := rep_of_decode f h _ sn mn en dn
  have hr := isRN_rne (qf f h.hp)
  have hid : rne (qf f h.hp) (valQ sx mx ex + valQ su mu eu) = valQ sn mn en := by rw [hexact]; exact rn_id hr hrep
  have hL : |valQ sn mn en| ≤ Lmax f := by
    have h2e : (0 : ℚ) < 2 ^ en := by positivity
    have habs : |valQ sn mn en| = (mn : ℚ) * 2 ^ en := by
      cases sn <;> simp [valQ, abs_mul, abs_of_pos h2e]
    rw [habs]; exact decode_le_Lmax f h _ sn mn en dn
  have fa := add_finite f h x (ulp f x) sx su mx mu ex eu dx du (by rw [hid]; exact hL)
  refine ⟨fa, ?_⟩
  rw [add_correct f h x (ulp f x) sx su mx mu ex eu dx du fa, hid, toQ_fin f _ sn mn en dn]

/-- `ulp x` of a finite `x` is a finite pattern -/
theorem ulp_finite (f : Fmt) (h0 : Ulp.WF f) (x : Nat) (hx : x < 2 ^ f.width) (fx : isFiniteBits f x = true) :
    isFiniteBits f (ulp f x) = true := by
  have hF := F_ge2 f h0
  have hinf := infBits_add f h0
  have h3 := minNormal_le_inf f h0
  have one_fin : isFiniteBits f 1 = true := by
    rw [finite_iff f h0, magBits_of_lt f 1 (by omega)]; omega
  by_cases hz : magBits f x = 0
  · rw [ulp_of_normal f h0 x hx (Or.inl hz), ulp_abs f h0 x hx, hz, ulp_zero' f h0]; exact one_fin
  · by_cases hs : magBits f x < f.minNormalBits
    · rw [ulp_of_subnormal f h0 x hx hz hs]; exact one_fin
    · have hl := (ulp_normal f h0 x hx fx (by omega)).2.1
      rw [finite_iff f h0, magBits_of_lt f _ (by omega)]; exact hl

/-- **`x + ulp(x) == nextafter(x, inf)` in IEEE arithmetic**, no side condition: every finite `x ≥ 0` below max. -/
theorem ulp_next_ieee (f : Fmt) (h0 : Ulp.WF f) (x : Nat) (hx : x < 2 ^ f.width) (fx : isFiniteBits f x = true)
    (hge : pyLt0 f x = false) (hmax : x ≠ f.maxBits) :
    isFiniteBits f (FP.add f x (ulp f x)) = true ∧ toQ f (FP.add f x (ulp f x)) = toQ f (Ulp.nextUp f x) :=
  ulp_next_ieee_of f h0 x hx fx hge hmax (ulp_finite f h0 x hx fx)

/-- **`x - ulp(x) == nextafter(x, -inf)` in IEEE arithmetic**: for EVERY finite `x < 0` other than −max the softfloat difference
of the patterns `x` and `ulp x` is finite and has the value of the lower neighbour `nextDown x`. -/
theorem ulp_prev_ieee (f : Fmt) (h0 : Ulp.WF f) (x : Nat) (hx : x < 2 ^ f.width) (fx : isFiniteBits f x = true)
    (hlt : pyLt0 f x = true) (hmax : negBits f x ≠ f.maxBits) :
    isFiniteBits f (FP.sub f x (ulp f x)) = true ∧ toQ f (FP.sub f x (ulp f x)) = toQ f (Ulp.nextDown f x) := by
  have h : SoftRound.WF f := ⟨h0.hp, h0.hew⟩
  have hsum := ulp_prev f h0 x hx fx hlt
  have fu := ulp_finite f h0 x hx fx
  obtain ⟨hnb, _, _⟩ := negBits_spec f h0 x hx
  have hfn : isFiniteBits f (negBits f x) = true := by rw [finite_neg f h0 x hx]; exact fx
  have fn : isFiniteBits f (Ulp.nextDown f x) = true := by
    unfold Ulp.nextDown
    have h1 := nextUp_finite f h0 _ hnb hfn hmax
    have hw := (ord_succ' f h0 _ hnb hfn).2
    rw [finite_neg f h0 _ hw]; exact h1
  obtain ⟨sx, mx, ex, dx⟩ := finite_decode f x fx
  obtain ⟨su, mu, eu, du⟩ := finite_decode f (ulp f x) fu
  obtain ⟨sn, mn, en, dn⟩ := finite_decode f (Ulp.nextDown f x) fn
  have vx := decode_sval f h0 x fx
  have vu := decode_sval f h0 (ulp f x) fu
  have vn := decode_sval f h0 (Ulp.nextDown f x) fn
  rw [dx] at vx; rw [du] at vu; rw [dn] at vn
  have ex' : valQ sx mx ex = (sval f x : ℚ) * pow2 f.emin := by
    have := toRat_fin sx mx ex; rw [vx] at this; exact (Option.some.inj this).symm
  have eu' : valQ su mu eu = (sval f (ulp f x) : ℚ) * pow2 f.emin := by
    have := toRat_fin su mu eu; rw [vu] at this; exact (Option.some.inj this).symm
  have en' : valQ sn mn en = (sval f (Ulp.nextDown f x) : ℚ) * pow2 f.emin := by
    have := toRat_fin sn mn en; rw [vn] at this; exact (Option.some.inj this).symm
  have hexact : valQ sx mx ex - valQ su mu eu = valQ sn mn en := by
    rw [ex', eu', en', hsum]; push_cast; ring
  have hrep : Rep (qf f h.hp) (valQ sn mn en) := rep_of_decode f h _ sn mn en dn
  have hr := isRN_rne (qf f h.hp)
  have hid : rne (qf f h.hp) (valQ sx mx ex - valQ su mu eu) = valQ sn mn en := by rw [hexact]; exact rn_id hr hrep
  have hL : |valQ sn mn en| ≤ Lmax f := by
    have h2e : (0 : ℚ) < 2 ^ en := by positivity
    have habs : |valQ sn mn en| = (mn : ℚ) * 2 ^ en := by
      cases sn <;> simp [valQ, abs_mul, abs_of_pos h2e]
    rw [habs]; exact decode_le_Lmax f h _ sn mn en dn
  have fa := sub_finite f h x (ulp f x) sx su mx mu ex eu dx du (by rw [hid]; exact hL)
  refine ⟨fa, ?_⟩
  rw [sub_correct f h x (ulp f x) sx su mx mu ex eu dx du fa, hid, toQ_fin f _ sn mn en dn]

/-- non-vacuity: 1.0 in binary32 (pattern 0x3f800000): ulp is 2^-23, the softfloat sum is the next pattern -/
example : FP.add binary32 0x3f800000 (ulp binary32 0x3f800000) = 0x3f800001 ∧ Ulp.nextUp binary32 0x3f800000 = 0x3f800001 := by decide +kernel

end FAVerif.Props.C14
