/-
C11 — emulated compound operations.  Property statements proved so far; the ULP bounds of
3Sum/4Sum/mul_add/dot2/FMA are decided by search only (see fav/props/c11.py SEARCHED).
-/
import FAVerif.Models.Compound
import FAVerif.Generated.C11

namespace FAVerif.Props.C11
open FAVerif.IR FAVerif.FP FAVerif.Spec FAVerif.Gen.C11

/-- Every regenerated program (all variants, float16/32/64) is well formed. -/
theorem generated_wf : ∀ p ∈ FAVerif.Gen.C11.all, p.2.wf = true := by decide +kernel

/-- **Tie**: the `next` programs traced from the current source are, node for node, the
specification program: `select(x > 0, x / c, x * c)` (up) / `select(x < 0, x / c, x * c)` (down)
with `c` the float `1 - 2^-p` of the format. -/
theorem ties_next :
    (∀ p ∈ [next_up_f16, next_up_f32, next_up_f64], p.nodes = nextProg p.fmt true ∧ p.outs = [6]) ∧
    (∀ p ∈ [next_down_f16, next_down_f32, next_down_f64], p.nodes = nextProg p.fmt false ∧ p.outs = [6]) ∧
    [next_up_f16.fmt, next_up_f32.fmt, next_up_f64.fmt] = [binary16, binary32, binary64] := by
  decide

/-- The constant really is `1 - 2^-p`: decoded value `(2^p - 1) * 2^-p`, for the three formats. -/
theorem next_constant_value :
    (decode binary16 (cNextBits binary16)).toRat? = some (2047 / 2048) ∧
    (decode binary32 (cNextBits binary32)).toRat? = some (16777215 / 16777216) ∧
    (decode binary64 (cNextBits binary64)).toRat? = some (9007199254740991 / 9007199254740992) := by
  decide +kernel

/-- Sample-free sanity of the bit-exact model on the tied program (powers of two and their
neighbours, float32): next up of 1.0 is 1.0+ulp, next down of 1.0 is 1.0-ulp/2. -/
example : next_up_f32.eval (fun _ _ => none) [0x3f800000] = some [0x3f800001] := by decide +kernel
example : next_down_f32.eval (fun _ _ => none) [0x3f800000] = some [0x3f7fffff] := by decide +kernel

end FAVerif.Props.C11
