/-
C11 — emulated compound operations.  Property statements proved so far; the ULP bounds of
3Sum/4Sum/mul_add/dot2/FMA are decided by search only (see fav/props/c11.py SEARCHED).
-/
import FAVerif.Models.Compound
import FAVerif.Lemmas.NextProg
import FAVerif.Lemmas.IsPow2
import FAVerif.Lemmas.EFTBits
import FAVerif.Generated.C11

namespace FAVerif.Props.C11
open FAVerif.IR FAVerif.FP FAVerif.FPQ FAVerif.Spec FAVerif.Gen.C11 FAVerif.Refine FAVerif.SoftRound

/-- Every regenerated program (all variants, float16/32/64) is well formed. -/
theorem generated_wf : ∀ p ∈ FAVerif.Gen.C11.all, p.2.wf = true := by decide +kernel

/-- **Tie**: the `next` programs traced from the current source are, node for node, the
specification program: `select(x > 0, x / c, x * c)` (up) / `select(x < 0, x / c, x * c)` (down)
with `c` the float `1 - 2^-p` of the format. -/
theorem ties_next :
    (∀ p ∈ [next_up_f16, next_up_f32, next_up_f64], p.nodes = nextProg p.fmt true ∧ p.outs = [6]) ∧
    (∀ p ∈ [next_down_f16, next_down_f32, next_down_f64], p.nodes = nextProg p.fmt false ∧ p.outs = [6]) ∧
    [next_up_f16.fmt, next_up_f32.fmt, next_up_f64.fmt] = [binary16, binary32, binary64] := by
  decide

/-- The constant really is `1 - 2^-p`: decoded value `(2^p - 1) * 2^-p`, for the three formats. -/
theorem next_constant_value :
    (decode binary16 (cNextBits binary16)).toRat? = some (2047 / 2048) ∧
    (decode binary32 (cNextBits binary32)).toRat? = some (16777215 / 16777216) ∧
    (decode binary64 (cNextBits binary64)).toRat? = some (9007199254740991 / 9007199254740992) := by
  decide +kernel

/-- **next(x) = nextafter(x, ±∞) for every precision** (p ≥ 2, any emin, ANY round-to-nearest):
for a normal x = ±k·2^e (2^(p-1) ≤ k < 2^p, e ≥ emin) dividing by c = 1 − 2^-p moves one step away
from zero and multiplying by c one step toward zero (half a step exactly at a power of two). -/
theorem next_all_precisions (q : QFmt) (r : ℚ → ℚ) (hr : IsRN q r) (k e : ℤ)
    (hk1 : 2 ^ (q.p - 1) ≤ k) (hk2 : k < 2 ^ q.p) (he : q.emin ≤ e) :
    r ((k : ℚ) * 2 ^ e / (1 - 1 / 2 ^ q.p)) = ((k : ℚ) + 1) * 2 ^ e ∧
    r (-((k : ℚ) * 2 ^ e) / (1 - 1 / 2 ^ q.p)) = -(((k : ℚ) + 1) * 2 ^ e) ∧
    (2 ^ (q.p - 1) < k → r ((k : ℚ) * 2 ^ e * (1 - 1 / 2 ^ q.p)) = ((k : ℚ) - 1) * 2 ^ e) ∧
    (2 ^ (q.p - 1) < k → r (-((k : ℚ) * 2 ^ e) * (1 - 1 / 2 ^ q.p)) = -(((k : ℚ) - 1) * 2 ^ e)) ∧
    (q.emin < e → r ((2 : ℚ) ^ (q.p - 1) * 2 ^ e * (1 - 1 / 2 ^ q.p)) = (2 : ℚ) ^ (q.p - 1) * 2 ^ e - 2 ^ e / 2) :=
  ⟨next_up_pos hr hk1 hk2 he, next_down_neg hr hk1 hk2 he, fun h => next_down_pos hr h hk2 he,
   fun h => next_up_neg hr h hk2 he, fun h => next_down_pow2 hr h⟩

/-- The values above really are the neighbours on the float lattice: nothing representable lies
strictly between k·2^e and (k±1)·2^e. -/
theorem neighbours (q : QFmt) (k e : ℤ) (z : ℚ) (hz : Rep q z) :
    (2 ^ (q.p - 1) ≤ k → (k : ℚ) * 2 ^ e < z → ((k : ℚ) + 1) * 2 ^ e ≤ z) ∧
    (2 ^ (q.p - 1) < k → z < (k : ℚ) * 2 ^ e → z ≤ ((k : ℚ) - 1) * 2 ^ e) :=
  ⟨fun h1 h2 => succ_is_least h1 hz h2, fun h1 h2 => pred_is_greatest h1 hz h2⟩

/-- **is_power_of_two is exact, for every precision** (p = n+1 ≥ 2, any emin, ANY round-to-nearest):
with Q = 2^(p-1), P = Q + 1, for x = ±k·2^e written with a normalised significand
(2^(p-1) ≤ k < 2^p; this covers all normal numbers and, with e + p − 1 ≥ emin, all subnormals),
D = RN(RN(P·x) − RN(Q·x)) equals x if and only if x is a power of two (k = 2^(p-1)). -/
theorem is_power_of_two_all_precisions (q : QFmt) (r : ℚ → ℚ) (hr : IsRN q r) (n : ℕ) (hn : q.p = n + 1)
    (k e : ℤ) (hk1 : 2 ^ n ≤ k) (hk2 : k < 2 ^ q.p) (he : q.emin ≤ e + n) :
    (r (r ((2 ^ n + 1) * ((k : ℚ) * 2 ^ e)) - r (2 ^ n * ((k : ℚ) * 2 ^ e))) = (k : ℚ) * 2 ^ e ↔ k = 2 ^ n) ∧
    (r (r ((2 ^ n + 1) * (-((k : ℚ) * 2 ^ e))) - r (2 ^ n * (-((k : ℚ) * 2 ^ e)))) = -((k : ℚ) * 2 ^ e) ↔ k = 2 ^ n) := by
  refine ⟨is_pow2_pos hr hn hk1 hk2 he, ?_⟩
  have h := is_pow2_pos (isRN_neg hr) hn hk1 hk2 he
  beta_reduce at h
  rw [← h]
  constructor
  · intro hh
    have e1 : (2 ^ n + 1) * (-((k : ℚ) * 2 ^ e)) = -((2 ^ n + 1) * ((k : ℚ) * 2 ^ e)) := by ring
    have e2 : (2 : ℚ) ^ n * (-((k : ℚ) * 2 ^ e)) = -(2 ^ n * ((k : ℚ) * 2 ^ e)) := by ring
    rw [e1, e2] at hh
    have e3 : -(-r (-((2 ^ n + 1) * ((k : ℚ) * 2 ^ e))) - -r (-(2 ^ n * ((k : ℚ) * 2 ^ e)))) =
        r (-((2 ^ n + 1) * ((k : ℚ) * 2 ^ e))) - r (-(2 ^ n * ((k : ℚ) * 2 ^ e))) := by ring
    rw [e3, hh]; ring
  · intro hh
    have e1 : (2 ^ n + 1) * (-((k : ℚ) * 2 ^ e)) = -((2 ^ n + 1) * ((k : ℚ) * 2 ^ e)) := by ring
    have e2 : (2 : ℚ) ^ n * (-((k : ℚ) * 2 ^ e)) = -(2 ^ n * ((k : ℚ) * 2 ^ e)) := by ring
    rw [e1, e2]
    have e3 : -(-r (-((2 ^ n + 1) * ((k : ℚ) * 2 ^ e))) - -r (-(2 ^ n * ((k : ℚ) * 2 ^ e)))) =
        r (-((2 ^ n + 1) * ((k : ℚ) * 2 ^ e))) - r (-(2 ^ n * ((k : ℚ) * 2 ^ e))) := by ring
    rw [e3] at hh
    linarith

/-- **On the regenerated program** (float32 instance; float16/64 have the same nodes by `ties_next`):
for positive normal x = k·2^e the traced `next(x, up=True)` evaluates, over ℚ with any
round-to-nearest for binary32's precision, to the successor (k+1)·2^e. -/
theorem next_up_generated (r : ℚ → ℚ) (q : QFmt) (hq : q.p = 24) (hr : IsRN q r) (k e : ℤ)
    (hk1 : 2 ^ (q.p - 1) ≤ k) (hk2 : k < 2 ^ q.p) (he : q.emin ≤ e) :
    next_up_f32.evalQ r [(k : ℚ) * 2 ^ e] = some [((k : ℚ) + 1) * 2 ^ e] ∧
    next_down_f32.evalQ r [-((k : ℚ) * 2 ^ e)] = some [-(((k : ℚ) + 1) * 2 ^ e)] := by
  have t := ties_next
  have tu : next_up_f32.nodes = nextProg binary32 true ∧ next_up_f32.outs = [6] := by
    have := t.1 next_up_f32 (by simp)
    have hf : next_up_f32.fmt = binary32 := by decide
    rw [hf] at this; exact this
  have td : next_down_f32.nodes = nextProg binary32 false ∧ next_down_f32.outs = [6] := by
    have := t.2.1 next_down_f32 (by simp)
    have hf : next_down_f32.fmt = binary32 := by decide
    rw [hf] at this; exact this
  have hfu : next_up_f32.fmt = binary32 := by decide
  have hfd : next_down_f32.fmt = binary32 := by decide
  have hc : (decode binary32 (cNextBits binary32)).toRat? = some (16777215 / 16777216) := next_constant_value.2.1
  have hc0 : (16777215 / 16777216 : ℚ) ≠ 0 := by norm_num
  have hcq : (16777215 / 16777216 : ℚ) = 1 - 1 / 2 ^ q.p := by rw [hq]; norm_num
  have hexp : binary32.expMax ≠ 0 := by decide
  have hxpos : (0 : ℚ) < (k : ℚ) * 2 ^ e := by
    have : (0 : ℤ) < 2 ^ (q.p - 1) := by positivity
    have hk : (0 : ℚ) < k := by exact_mod_cast lt_of_lt_of_le this hk1
    have := two_zpow_pos e
    positivity
  constructor
  · unfold Prog.evalQ
    rw [tu.1, tu.2, hfu, NextProg.evalQ_nextProg binary32 binary32 r _ _ true hc hc0 hexp]
    simp only [if_true, hxpos]
    rw [hcq, next_up_pos hr hk1 hk2 he]
  · unfold Prog.evalQ
    rw [td.1, td.2, hfd, NextProg.evalQ_nextProg binary32 binary32 r _ _ false hc hc0 hexp]
    have : -((k : ℚ) * 2 ^ e) < 0 := by linarith
    simp only [Bool.false_eq_true, if_false, this, if_true]
    rw [hcq, next_down_neg hr hk1 hk2 he]

/-- every regenerated C11 program (3Sum, 4Sum, mul_add, dot2, all FMA variants, next, is_power_of_two)
passes the kind check of the refinement theorem -/
theorem refinement_scope : ∀ e ∈ FAVerif.Gen.C11.all, (kindsOf e.2.nodes []).isSome = true := by decide +kernel

/-- kinds of the nodes of `next`: node 2 (the sign test) is boolean, the rest are floats -/
def nextKinds : List Bool := [false, false, true, false, false, false, false]

/-- **`next(x, up=True)` on BIT PATTERNS** (float32): for every pattern x of a positive normal number
m·2^e, whenever the run is defined and its float nodes (x/c and x·c are both computed) are finite, the
softfloat returns a finite pattern whose value is (m+1)·2^e — the successor of x.  Through the
refinement theorem (`Refine.refines`) from `next_up_generated`. -/
theorem next_up_bit_exact_f32 (lib : Libm) (x : Nat) (m : Nat) (e : Int) (dx : decode binary32 x = .fin false m e)
    (nm : 2 ^ 23 ≤ m) (env : Array Nat) (he : evalNodes binary32 lib [x] next_up_f32.nodes #[] = some env)
    (hfin : ∀ (i : Nat) (v : Nat), env[i]? = some v → nextKinds[i]? = some false → isFiniteBits binary32 v = true)
    (o : Nat) (ho : next_up_f32.eval lib [x] = some [o]) :
    isFiniteBits binary32 o = true ∧ toQ binary32 o = some (((m : ℚ) + 1) * 2 ^ e) := by
  have hf : WF binary32 := ⟨by decide, by decide⟩
  obtain ⟨b1, b2⟩ := decode_bounds binary32 hf x false m e dx
  have hk : kindsOf next_up_f32.nodes [] = some nextKinds := by decide +kernel
  have hins := insRel1 (finite_of_decode _ _ _ _ _ dx) (toQ_fin _ x false m e dx)
  have hv : valQ false m e = ((m : ℤ) : ℚ) * 2 ^ e := by simp [valQ]
  rw [hv] at hins
  have hq := (next_up_generated (rne (qf binary32 hf.hp)) (qf binary32 hf.hp) rfl (isRN_rne _) (m : ℤ) e
    (by exact_mod_cast nm) (by exact_mod_cast b1) b2).1
  have hfm : next_up_f32.fmt = binary32 := by decide
  have := transfer1 next_up_f32 (by rw [hfm]; exact hf) nextKinds hk lib [x] _ (by rw [hfm]; exact hins) env (by rw [hfm]; exact he)
    (by rw [hfm]; exact hfin) 6 (by decide) (by decide) o ho _ hq
  rw [hfm] at this
  simpa using this

/-- **On the regenerated program** (f16 instance):
for positive normal x = k·2^e the traced `next(x, up=True)` evaluates, over ℚ with any
round-to-nearest for binary16's precision, to the successor (k+1)·2^e. -/
theorem next_up_generated_f16 (r : ℚ → ℚ) (q : QFmt) (hq : q.p = 11) (hr : IsRN q r) (k e : ℤ)
    (hk1 : 2 ^ (q.p - 1) ≤ k) (hk2 : k < 2 ^ q.p) (he : q.emin ≤ e) :
    next_up_f16.evalQ r [(k : ℚ) * 2 ^ e] = some [((k : ℚ) + 1) * 2 ^ e] ∧
    next_down_f16.evalQ r [-((k : ℚ) * 2 ^ e)] = some [-(((k : ℚ) + 1) * 2 ^ e)] := by
  have t := ties_next
  have tu : next_up_f16.nodes = nextProg binary16 true ∧ next_up_f16.outs = [6] := by
    have := t.1 next_up_f16 (by simp)
    have hf : next_up_f16.fmt = binary16 := by decide
    rw [hf] at this; exact this
  have td : next_down_f16.nodes = nextProg binary16 false ∧ next_down_f16.outs = [6] := by
    have := t.2.1 next_down_f16 (by simp)
    have hf : next_down_f16.fmt = binary16 := by decide
    rw [hf] at this; exact this
  have hfu : next_up_f16.fmt = binary16 := by decide
  have hfd : next_down_f16.fmt = binary16 := by decide
  have hc : (decode binary16 (cNextBits binary16)).toRat? = some (2047 / 2048) := next_constant_value.1
  have hc0 : (2047 / 2048 : ℚ) ≠ 0 := by norm_num
  have hcq : (2047 / 2048 : ℚ) = 1 - 1 / 2 ^ q.p := by rw [hq]; norm_num
  have hexp : binary16.expMax ≠ 0 := by decide
  have hxpos : (0 : ℚ) < (k : ℚ) * 2 ^ e := by
    have : (0 : ℤ) < 2 ^ (q.p - 1) := by positivity
    have hk : (0 : ℚ) < k := by exact_mod_cast lt_of_lt_of_le this hk1
    have := two_zpow_pos e
    positivity
  constructor
  · unfold Prog.evalQ
    rw [tu.1, tu.2, hfu, NextProg.evalQ_nextProg binary16 binary16 r _ _ true hc hc0 hexp]
    simp only [if_true, hxpos]
    rw [hcq, next_up_pos hr hk1 hk2 he]
  · unfold Prog.evalQ
    rw [td.1, td.2, hfd, NextProg.evalQ_nextProg binary16 binary16 r _ _ false hc hc0 hexp]
    have : -((k : ℚ) * 2 ^ e) < 0 := by linarith
    simp only [Bool.false_eq_true, if_false, this, if_true]
    rw [hcq, next_down_neg hr hk1 hk2 he]

/-- **`next(x, up=True)` on BIT PATTERNS** (f16): for every pattern x of a positive normal number
m·2^e, whenever the run is defined and its float nodes (x/c and x·c are both computed) are finite, the
softfloat returns a finite pattern whose value is (m+1)·2^e — the successor of x.  Through the
refinement theorem (`Refine.refines`) from `next_up_generated_f16`. -/
theorem next_up_bit_exact_f16 (lib : Libm) (x : Nat) (m : Nat) (e : Int) (dx : decode binary16 x = .fin false m e)
    (nm : 2 ^ 10 ≤ m) (env : Array Nat) (he : evalNodes binary16 lib [x] next_up_f16.nodes #[] = some env)
    (hfin : ∀ (i : Nat) (v : Nat), env[i]? = some v → nextKinds[i]? = some false → isFiniteBits binary16 v = true)
    (o : Nat) (ho : next_up_f16.eval lib [x] = some [o]) :
    isFiniteBits binary16 o = true ∧ toQ binary16 o = some (((m : ℚ) + 1) * 2 ^ e) := by
  have hf : WF binary16 := ⟨by decide, by decide⟩
  obtain ⟨b1, b2⟩ := decode_bounds binary16 hf x false m e dx
  have hk : kindsOf next_up_f16.nodes [] = some nextKinds := by decide +kernel
  have hins := insRel1 (finite_of_decode _ _ _ _ _ dx) (toQ_fin _ x false m e dx)
  have hv : valQ false m e = ((m : ℤ) : ℚ) * 2 ^ e := by simp [valQ]
  rw [hv] at hins
  have hq := (next_up_generated_f16 (rne (qf binary16 hf.hp)) (qf binary16 hf.hp) rfl (isRN_rne _) (m : ℤ) e
    (by exact_mod_cast nm) (by exact_mod_cast b1) b2).1
  have hfm : next_up_f16.fmt = binary16 := by decide
  have := transfer1 next_up_f16 (by rw [hfm]; exact hf) nextKinds hk lib [x] _ (by rw [hfm]; exact hins) env (by rw [hfm]; exact he)
    (by rw [hfm]; exact hfin) 6 (by decide) (by decide) o ho _ hq
  rw [hfm] at this
  simpa using this

/-- **On the regenerated program** (f64 instance):
for positive normal x = k·2^e the traced `next(x, up=True)` evaluates, over ℚ with any
round-to-nearest for binary64's precision, to the successor (k+1)·2^e. -/
theorem next_up_generated_f64 (r : ℚ → ℚ) (q : QFmt) (hq : q.p = 53) (hr : IsRN q r) (k e : ℤ)
    (hk1 : 2 ^ (q.p - 1) ≤ k) (hk2 : k < 2 ^ q.p) (he : q.emin ≤ e) :
    next_up_f64.evalQ r [(k : ℚ) * 2 ^ e] = some [((k : ℚ) + 1) * 2 ^ e] ∧
    next_down_f64.evalQ r [-((k : ℚ) * 2 ^ e)] = some [-(((k : ℚ) + 1) * 2 ^ e)] := by
  have t := ties_next
  have tu : next_up_f64.nodes = nextProg binary64 true ∧ next_up_f64.outs = [6] := by
    have := t.1 next_up_f64 (by simp)
    have hf : next_up_f64.fmt = binary64 := by decide
    rw [hf] at this; exact this
  have td : next_down_f64.nodes = nextProg binary64 false ∧ next_down_f64.outs = [6] := by
    have := t.2.1 next_down_f64 (by simp)
    have hf : next_down_f64.fmt = binary64 := by decide
    rw [hf] at this; exact this
  have hfu : next_up_f64.fmt = binary64 := by decide
  have hfd : next_down_f64.fmt = binary64 := by decide
  have hc : (decode binary64 (cNextBits binary64)).toRat? = some (9007199254740991 / 9007199254740992) := next_constant_value.2.2
  have hc0 : (9007199254740991 / 9007199254740992 : ℚ) ≠ 0 := by norm_num
  have hcq : (9007199254740991 / 9007199254740992 : ℚ) = 1 - 1 / 2 ^ q.p := by rw [hq]; norm_num
  have hexp : binary64.expMax ≠ 0 := by decide
  have hxpos : (0 : ℚ) < (k : ℚ) * 2 ^ e := by
    have : (0 : ℤ) < 2 ^ (q.p - 1) := by positivity
    have hk : (0 : ℚ) < k := by exact_mod_cast lt_of_lt_of_le this hk1
    have := two_zpow_pos e
    positivity
  constructor
  · unfold Prog.evalQ
    rw [tu.1, tu.2, hfu, NextProg.evalQ_nextProg binary64 binary64 r _ _ true hc hc0 hexp]
    simp only [if_true, hxpos]
    rw [hcq, next_up_pos hr hk1 hk2 he]
  · unfold Prog.evalQ
    rw [td.1, td.2, hfd, NextProg.evalQ_nextProg binary64 binary64 r _ _ false hc hc0 hexp]
    have : -((k : ℚ) * 2 ^ e) < 0 := by linarith
    simp only [Bool.false_eq_true, if_false, this, if_true]
    rw [hcq, next_down_neg hr hk1 hk2 he]

/-- **`next(x, up=True)` on BIT PATTERNS** (f64): for every pattern x of a positive normal number
m·2^e, whenever the run is defined and its float nodes (x/c and x·c are both computed) are finite, the
softfloat returns a finite pattern whose value is (m+1)·2^e — the successor of x.  Through the
refinement theorem (`Refine.refines`) from `next_up_generated_f64`. -/
theorem next_up_bit_exact_f64 (lib : Libm) (x : Nat) (m : Nat) (e : Int) (dx : decode binary64 x = .fin false m e)
    (nm : 2 ^ 52 ≤ m) (env : Array Nat) (he : evalNodes binary64 lib [x] next_up_f64.nodes #[] = some env)
    (hfin : ∀ (i : Nat) (v : Nat), env[i]? = some v → nextKinds[i]? = some false → isFiniteBits binary64 v = true)
    (o : Nat) (ho : next_up_f64.eval lib [x] = some [o]) :
    isFiniteBits binary64 o = true ∧ toQ binary64 o = some (((m : ℚ) + 1) * 2 ^ e) := by
  have hf : WF binary64 := ⟨by decide, by decide⟩
  obtain ⟨b1, b2⟩ := decode_bounds binary64 hf x false m e dx
  have hk : kindsOf next_up_f64.nodes [] = some nextKinds := by decide +kernel
  have hins := insRel1 (finite_of_decode _ _ _ _ _ dx) (toQ_fin _ x false m e dx)
  have hv : valQ false m e = ((m : ℤ) : ℚ) * 2 ^ e := by simp [valQ]
  rw [hv] at hins
  have hq := (next_up_generated_f64 (rne (qf binary64 hf.hp)) (qf binary64 hf.hp) rfl (isRN_rne _) (m : ℤ) e
    (by exact_mod_cast nm) (by exact_mod_cast b1) b2).1
  have hfm : next_up_f64.fmt = binary64 := by decide
  have := transfer1 next_up_f64 (by rw [hfm]; exact hf) nextKinds hk lib [x] _ (by rw [hfm]; exact hins) env (by rw [hfm]; exact he)
    (by rw [hfm]; exact hfin) 6 (by decide) (by decide) o ho _ hq
  rw [hfm] at this
  simpa using this

theorem g32a : FAVerif.FP.gt ⟨24, 8⟩ 2139095039 2139095040 = false := by decide +kernel
theorem g32b : FAVerif.FP.gt ⟨24, 8⟩ 2139095039 2123789977 = true := by decide +kernel

/-- the traced (dtype-agnostic) `is_power_of_two` on float32, for every input pattern: its dispatch on `largest`
folds to the float32 branch  D == x  with  D = P·x − Q·x,  P = 2^23 + 1,  Q = 2^23 -/
theorem is_power_of_two_shape_f32 (lib : Libm) (x : Nat) :
    is_power_of_two_f32.eval lib [x] =
      some [b2n (FAVerif.FP.eq binary32 (FAVerif.FP.sub binary32 (FAVerif.FP.mul binary32 1258291201 x) (FAVerif.FP.mul binary32 1258291200 x)) x)] := by
  simp [Prog.eval, is_power_of_two_f32, evalNodes, evalNode, g32a, g32b, binary32]
  simp [b2n]

/-- **`is_power_of_two` is exact on BIT PATTERNS (float32)**: for every pattern x of a normal number ±m·2^e
(2^23 ≤ m < 2^24), whenever the three arithmetic results are finite, the traced program returns 1 if m = 2^23
(x is a power of two) and 0 otherwise.  Chain: `is_power_of_two_shape_f32`, correct rounding of the softfloat
mul/sub, comparison of patterns = comparison of values, `is_power_of_two_all_precisions`. -/
theorem is_power_of_two_bit_exact_f32 (lib : Libm) (x : Nat) (s : Bool) (m : Nat) (e : Int)
    (dx : decode binary32 x = .fin s m e) (nm : 2 ^ 23 ≤ m)
    (fL : isFiniteBits binary32 (FAVerif.FP.mul binary32 1258291201 x) = true)
    (fR : isFiniteBits binary32 (FAVerif.FP.mul binary32 1258291200 x) = true)
    (fD : isFiniteBits binary32 (FAVerif.FP.sub binary32 (FAVerif.FP.mul binary32 1258291201 x) (FAVerif.FP.mul binary32 1258291200 x)) = true) :
    is_power_of_two_f32.eval lib [x] = some [b2n (decide (m = 2 ^ 23))] := by
  rw [is_power_of_two_shape_f32]
  have hf : WF binary32 := ⟨by decide, by decide⟩
  obtain ⟨b1, b2⟩ := decode_bounds binary32 hf x s m e dx
  have dP : decode binary32 1258291201 = .fin false 8388609 0 := by decide +kernel
  have dQ : decode binary32 1258291200 = .fin false 8388608 0 := by decide +kernel
  set r := rne (qf binary32 hf.hp) with hr
  have hrn : IsRN (qf binary32 hf.hp) r := isRN_rne _
  have vL := mul_correct binary32 hf _ x false s 8388609 m 0 e dP dx fL
  have vR := mul_correct binary32 hf _ x false s 8388608 m 0 e dQ dx fR
  obtain ⟨sL, mL, eL, dL⟩ := finite_decode binary32 _ fL
  obtain ⟨sR, mR, eR, dR⟩ := finite_decode binary32 _ fR
  have eL' : valQ sL mL eL = r (valQ false 8388609 0 * valQ s m e) := by
    have := toQ_fin binary32 _ sL mL eL dL; rw [vL] at this; exact (Option.some.inj this).symm
  have eR' : valQ sR mR eR = r (valQ false 8388608 0 * valQ s m e) := by
    have := toQ_fin binary32 _ sR mR eR dR; rw [vR] at this; exact (Option.some.inj this).symm
  have vD := sub_correct binary32 hf _ _ sL sR mL mR eL eR dL dR fD
  rw [eL', eR'] at vD
  have fx := finite_of_decode binary32 x s m e dx
  have hev := eq_val hf fD fx vD (toQ_fin binary32 x s m e dx)
  rw [hev]
  congr 3
  -- the ℚ-level theorem
  have hP : valQ false 8388609 0 = 2 ^ 23 + 1 := by simp [valQ]; norm_num
  have hQ : valQ false 8388608 0 = 2 ^ 23 := by simp [valQ]; norm_num
  rw [hP, hQ]
  have key := is_power_of_two_all_precisions (qf binary32 hf.hp) r hrn 23 rfl (m : ℤ) e (by exact_mod_cast nm) (by exact_mod_cast b1)
    (by show binary32.emin ≤ e + ((23 : ℕ) : ℤ); omega)
  apply decide_eq_decide.mpr
  cases s
  · have hv : valQ false m e = ((m : ℤ) : ℚ) * 2 ^ e := by simp [valQ]
    rw [hv]
    have := key.1
    constructor
    · intro h; have := this.mp h; exact_mod_cast this
    · intro h; exact this.mpr (by exact_mod_cast h)
  · have hv : valQ true m e = -(((m : ℤ) : ℚ) * 2 ^ e) := by simp [valQ]
    rw [hv]
    have := key.2
    constructor
    · intro h; have := this.mp h; exact_mod_cast this
    · intro h; exact this.mpr (by exact_mod_cast h)

theorem g16 : FAVerif.FP.gt ⟨11, 5⟩ 31743 31744 = false := by decide +kernel
theorem g64a : FAVerif.FP.gt ⟨53, 11⟩ 9218868437227405311 9214871658872686752 = true := by decide +kernel

/-- the traced (dtype-agnostic) `is_power_of_two` on float16, for every input pattern: its dispatch on `largest`
folds to the float16 branch  D == x  with  D = P·x − Q·x,  P = 2^10 + 1,  Q = 2^10 -/
theorem is_power_of_two_shape_f16 (lib : Libm) (x : Nat) :
    is_power_of_two_f16.eval lib [x] =
      some [b2n (FAVerif.FP.eq binary16 (FAVerif.FP.sub binary16 (FAVerif.FP.mul binary16 25601 x) (FAVerif.FP.mul binary16 25600 x)) x)] := by
  simp [Prog.eval, is_power_of_two_f16, evalNodes, evalNode, g16, binary16]
  simp [b2n]

/-- **`is_power_of_two` is exact on BIT PATTERNS (float16)**: for every pattern x of a normal number ±m·2^e
(2^10 ≤ m < 2^11), whenever the three arithmetic results are finite, the traced program returns 1 if m = 2^10
(x is a power of two) and 0 otherwise.  Chain: `is_power_of_two_shape_f16`, correct rounding of the softfloat
mul/sub, comparison of patterns = comparison of values, `is_power_of_two_all_precisions`. -/
theorem is_power_of_two_bit_exact_f16 (lib : Libm) (x : Nat) (s : Bool) (m : Nat) (e : Int)
    (dx : decode binary16 x = .fin s m e) (nm : 2 ^ 10 ≤ m)
    (fL : isFiniteBits binary16 (FAVerif.FP.mul binary16 25601 x) = true)
    (fR : isFiniteBits binary16 (FAVerif.FP.mul binary16 25600 x) = true)
    (fD : isFiniteBits binary16 (FAVerif.FP.sub binary16 (FAVerif.FP.mul binary16 25601 x) (FAVerif.FP.mul binary16 25600 x)) = true) :
    is_power_of_two_f16.eval lib [x] = some [b2n (decide (m = 2 ^ 10))] := by
  rw [is_power_of_two_shape_f16]
  have hf : WF binary16 := ⟨by decide, by decide⟩
  obtain ⟨b1, b2⟩ := decode_bounds binary16 hf x s m e dx
  have dP : decode binary16 25601 = .fin false 1025 0 := by decide +kernel
  have dQ : decode binary16 25600 = .fin false 1024 0 := by decide +kernel
  set r := rne (qf binary16 hf.hp) with hr
  have hrn : IsRN (qf binary16 hf.hp) r := isRN_rne _
  have vL := mul_correct binary16 hf _ x false s 1025 m 0 e dP dx fL
  have vR := mul_correct binary16 hf _ x false s 1024 m 0 e dQ dx fR
  obtain ⟨sL, mL, eL, dL⟩ := finite_decode binary16 _ fL
  obtain ⟨sR, mR, eR, dR⟩ := finite_decode binary16 _ fR
  have eL' : valQ sL mL eL = r (valQ false 1025 0 * valQ s m e) := by
    have := toQ_fin binary16 _ sL mL eL dL; rw [vL] at this; exact (Option.some.inj this).symm
  have eR' : valQ sR mR eR = r (valQ false 1024 0 * valQ s m e) := by
    have := toQ_fin binary16 _ sR mR eR dR; rw [vR] at this; exact (Option.some.inj this).symm
  have vD := sub_correct binary16 hf _ _ sL sR mL mR eL eR dL dR fD
  rw [eL', eR'] at vD
  have fx := finite_of_decode binary16 x s m e dx
  have hev := eq_val hf fD fx vD (toQ_fin binary16 x s m e dx)
  rw [hev]
  congr 3
  -- the ℚ-level theorem
  have hP : valQ false 1025 0 = 2 ^ 10 + 1 := by simp [valQ]; norm_num
  have hQ : valQ false 1024 0 = 2 ^ 10 := by simp [valQ]; norm_num
  rw [hP, hQ]
  have key := is_power_of_two_all_precisions (qf binary16 hf.hp) r hrn 10 rfl (m : ℤ) e (by exact_mod_cast nm) (by exact_mod_cast b1)
    (by show binary16.emin ≤ e + ((10 : ℕ) : ℤ); omega)
  apply decide_eq_decide.mpr
  cases s
  · have hv : valQ false m e = ((m : ℤ) : ℚ) * 2 ^ e := by simp [valQ]
    rw [hv]
    have := key.1
    constructor
    · intro h; have := this.mp h; exact_mod_cast this
    · intro h; exact this.mpr (by exact_mod_cast h)
  · have hv : valQ true m e = -(((m : ℤ) : ℚ) * 2 ^ e) := by simp [valQ]
    rw [hv]
    have := key.2
    constructor
    · intro h; have := this.mp h; exact_mod_cast this
    · intro h; exact this.mpr (by exact_mod_cast h)

/-- the traced (dtype-agnostic) `is_power_of_two` on float64, for every input pattern: its dispatch on `largest`
folds to the float64 branch  D == x  with  D = P·x − Q·x,  P = 2^52 + 1,  Q = 2^52 -/
theorem is_power_of_two_shape_f64 (lib : Libm) (x : Nat) :
    is_power_of_two_f64.eval lib [x] =
      some [b2n (FAVerif.FP.eq binary64 (FAVerif.FP.sub binary64 (FAVerif.FP.mul binary64 4841369599423283201 x) (FAVerif.FP.mul binary64 4841369599423283200 x)) x)] := by
  simp [Prog.eval, is_power_of_two_f64, evalNodes, evalNode, g64a, binary64]
  simp [b2n]

/-- **`is_power_of_two` is exact on BIT PATTERNS (float64)**: for every pattern x of a normal number ±m·2^e
(2^52 ≤ m < 2^53), whenever the three arithmetic results are finite, the traced program returns 1 if m = 2^52
(x is a power of two) and 0 otherwise.  Chain: `is_power_of_two_shape_f64`, correct rounding of the softfloat
mul/sub, comparison of patterns = comparison of values, `is_power_of_two_all_precisions`. -/
theorem is_power_of_two_bit_exact_f64 (lib : Libm) (x : Nat) (s : Bool) (m : Nat) (e : Int)
    (dx : decode binary64 x = .fin s m e) (nm : 2 ^ 52 ≤ m)
    (fL : isFiniteBits binary64 (FAVerif.FP.mul binary64 4841369599423283201 x) = true)
    (fR : isFiniteBits binary64 (FAVerif.FP.mul binary64 4841369599423283200 x) = true)
    (fD : isFiniteBits binary64 (FAVerif.FP.sub binary64 (FAVerif.FP.mul binary64 4841369599423283201 x) (FAVerif.FP.mul binary64 4841369599423283200 x)) = true) :
    is_power_of_two_f64.eval lib [x] = some [b2n (decide (m = 2 ^ 52))] := by
  rw [is_power_of_two_shape_f64]
  have hf : WF binary64 := ⟨by decide, by decide⟩
  obtain ⟨b1, b2⟩ := decode_bounds binary64 hf x s m e dx
  have dP : decode binary64 4841369599423283201 = .fin false 4503599627370497 0 := by decide +kernel
  have dQ : decode binary64 4841369599423283200 = .fin false 4503599627370496 0 := by decide +kernel
  set r := rne (qf binary64 hf.hp) with hr
  have hrn : IsRN (qf binary64 hf.hp) r := isRN_rne _
  have vL := mul_correct binary64 hf _ x false s 4503599627370497 m 0 e dP dx fL
  have vR := mul_correct binary64 hf _ x false s 4503599627370496 m 0 e dQ dx fR
  obtain ⟨sL, mL, eL, dL⟩ := finite_decode binary64 _ fL
  obtain ⟨sR, mR, eR, dR⟩ := finite_decode binary64 _ fR
  have eL' : valQ sL mL eL = r (valQ false 4503599627370497 0 * valQ s m e) := by
    have := toQ_fin binary64 _ sL mL eL dL; rw [vL] at this; exact (Option.some.inj this).symm
  have eR' : valQ sR mR eR = r (valQ false 4503599627370496 0 * valQ s m e) := by
    have := toQ_fin binary64 _ sR mR eR dR; rw [vR] at this; exact (Option.some.inj this).symm
  have vD := sub_correct binary64 hf _ _ sL sR mL mR eL eR dL dR fD
  rw [eL', eR'] at vD
  have fx := finite_of_decode binary64 x s m e dx
  have hev := eq_val hf fD fx vD (toQ_fin binary64 x s m e dx)
  rw [hev]
  congr 3
  -- the ℚ-level theorem
  have hP : valQ false 4503599627370497 0 = 2 ^ 52 + 1 := by simp [valQ]; norm_num
  have hQ : valQ false 4503599627370496 0 = 2 ^ 52 := by simp [valQ]; norm_num
  rw [hP, hQ]
  have key := is_power_of_two_all_precisions (qf binary64 hf.hp) r hrn 52 rfl (m : ℤ) e (by exact_mod_cast nm) (by exact_mod_cast b1)
    (by show binary64.emin ≤ e + ((52 : ℕ) : ℤ); omega)
  apply decide_eq_decide.mpr
  cases s
  · have hv : valQ false m e = ((m : ℤ) : ℚ) * 2 ^ e := by simp [valQ]
    rw [hv]
    have := key.1
    constructor
    · intro h; have := this.mp h; exact_mod_cast this
    · intro h; exact this.mpr (by exact_mod_cast h)
  · have hv : valQ true m e = -(((m : ℤ) : ℚ) * 2 ^ e) := by simp [valQ]
    rw [hv]
    have := key.2
    constructor
    · intro h; have := this.mp h; exact_mod_cast this
    · intro h; exact this.mpr (by exact_mod_cast h)

/-- Sample-free sanity of the bit-exact model on the tied program (powers of two and their
neighbours, float32): next up of 1.0 is 1.0+ulp, next down of 1.0 is 1.0-ulp/2. -/
example : next_up_f32.eval (fun _ _ => none) [0x3f800000] = some [0x3f800001] := by decide +kernel
example : next_down_f32.eval (fun _ _ => none) [0x3f800000] = some [0x3f7fffff] := by decide +kernel

end FAVerif.Props.C11
