/-
C02 — `hypot` on BIT PATTERNS (float32, float64), end to end: for all finite operand patterns whose larger magnitude is
at least twice the smallest normal number, whenever no float node of the traced program is non-finite (no overflow),
the bit-exact softfloat run returns a finite pattern whose value H satisfies (1−u)^7 (x²+y²) ≤ H² ≤ (1+u)^7 (x²+y²).
The square root is the softfloat's, proved correctly rounded (`sqrt_ok`); nothing is assumed about it.
-/
import FAVerif.Props.C02Hypot
import FAVerif.Lemmas.HypotBits

namespace FAVerif.Props.C02
open FAVerif.IR FAVerif.FP FAVerif.FPQ FAVerif.Gen.C02 FAVerif.Spec FAVerif.EFT FAVerif.Refine FAVerif.SoftRound

/-- the regenerated hypot programs have the kinds of the specification program -/
theorem hypot_kinds : kindsOfS hypot_f32.nodes [] = some hypotKinds ∧ kindsOfS hypot_f64.nodes [] = some hypotKinds := by
  decide +kernel

/-- **the softfloat's square root is correctly rounded** (every format with p ≥ 2, emin + 2p + 2 ≤ 0; positive finite
operand): the value y of the result satisfies (1−u)² v ≤ y² ≤ (1+u)² v. -/
theorem soft_sqrt_correctly_rounded (f : Fmt) (h : WF f) (hem : f.emin + 2 * f.p + 2 ≤ 0) (a m : Nat) (e : Int)
    (ha : decode f a = .fin false m e) (hm : m ≠ 0) (hfin : isFiniteBits f (FP.sqrt f a) = true) :
    ∃ y : ℚ, toQ f (FP.sqrt f a) = some y ∧ 0 ≤ y ∧
      (1 - uro (qf f h.hp)) ^ 2 * ((m : ℚ) * 2 ^ e) ≤ y ^ 2 ∧ y ^ 2 ≤ (1 + uro (qf f h.hp)) ^ 2 * ((m : ℚ) * 2 ^ e) :=
  sqrt_ok f h hem a m e ha hm hfin

/-- **refinement with square roots** (every program of the arithmetic/comparison/select/sqrt fragment) -/
theorem soft_refines_rational_sqrt (p : Prog) (hf : WF p.fmt) (S0 : ℚ → ℚ) (kinds : List Bool) (hk : kindsOfS p.nodes [] = some kinds)
    (lib : Libm) (ins : List Nat) (insQ : List ℚ) (hins : InsRel p.fmt ins insQ) (env : Array Nat)
    (he : evalNodes p.fmt lib ins p.nodes #[] = some env)
    (hfin : ∀ (i : Nat) (v : Nat), env[i]? = some v → kinds[i]? = some false → isFiniteBits p.fmt v = true)
    (outs : List Nat) (ho : p.eval lib ins = some outs) :
    ∃ qs, evalQS p.fmt (rne (qf p.fmt hf.hp)) (Ssoft p.fmt S0) p.nodes p.outs insQ = some qs ∧
      List.Forall₂ (fun (kv : Nat × Nat) (q : ℚ) => ∃ k, kinds[kv.1]? = some k ∧ Rv p.fmt k kv.2 q) (p.outs.zip outs) qs :=
  refinesS p hf S0 kinds hk lib ins insQ hins env he hfin outs ho

theorem hypot_bit_level_f32 (lib : Libm) (x y : Nat) (qx qy : ℚ) (hx : isFiniteBits binary32 x = true) (hy : isFiniteBits binary32 y = true)
    (vx : toQ binary32 x = some qx) (vy : toQ binary32 y = some qy) (hmx : 2 ^ (-125 : ℤ) ≤ max |qx| |qy|)
    (env : Array Nat) (he : evalNodes binary32 lib [x, y] hypot_f32.nodes #[] = some env)
    (hfin : ∀ (i : Nat) (v : Nat), env[i]? = some v → hypotKinds[i]? = some false → isFiniteBits binary32 v = true)
    (o : Nat) (ho : hypot_f32.eval lib [x, y] = some [o]) :
    ∃ H : ℚ, isFiniteBits binary32 o = true ∧ toQ binary32 o = some H ∧ 0 ≤ H ∧
      (1 - (1 : ℚ) / 2 ^ 24) ^ 7 * (qx ^ 2 + qy ^ 2) ≤ H ^ 2 ∧ H ^ 2 ≤ (1 + (1 : ℚ) / 2 ^ 24) ^ 7 * (qx ^ 2 + qy ^ 2) := by
  obtain ⟨c1, c2, c3, c4, -, -, -, -⟩ := hypot_constants
  obtain ⟨b1, b2, -, -⟩ := sqrt2_bounds
  obtain ⟨t1, t2, t3, -, -, -⟩ := ties_hypot
  have hu : uro (qf binary32 (by decide)) = 1 / 2 ^ 24 := rfl
  have := hypot_bits_of hypot_f32 ⟨by decide, by decide⟩ (by decide) (by decide) _ _ _ _ sqrt2_f32 t1 t2 hypot_kinds.1
    c1 c2 c3 c4 (by unfold sqrt2_f32; norm_num) (by exact b1)
    (by exact b2) lib x y qx qy hx hy vx vy hmx env he hfin o ho
  exact this

theorem hypot_bit_level_f64 (lib : Libm) (x y : Nat) (qx qy : ℚ) (hx : isFiniteBits binary64 x = true) (hy : isFiniteBits binary64 y = true)
    (vx : toQ binary64 x = some qx) (vy : toQ binary64 y = some qy) (hmx : 2 ^ (-1021 : ℤ) ≤ max |qx| |qy|)
    (env : Array Nat) (he : evalNodes binary64 lib [x, y] hypot_f64.nodes #[] = some env)
    (hfin : ∀ (i : Nat) (v : Nat), env[i]? = some v → hypotKinds[i]? = some false → isFiniteBits binary64 v = true)
    (o : Nat) (ho : hypot_f64.eval lib [x, y] = some [o]) :
    ∃ H : ℚ, isFiniteBits binary64 o = true ∧ toQ binary64 o = some H ∧ 0 ≤ H ∧
      (1 - (1 : ℚ) / 2 ^ 53) ^ 7 * (qx ^ 2 + qy ^ 2) ≤ H ^ 2 ∧ H ^ 2 ≤ (1 + (1 : ℚ) / 2 ^ 53) ^ 7 * (qx ^ 2 + qy ^ 2) := by
  obtain ⟨-, -, -, -, c1, c2, c3, c4⟩ := hypot_constants
  obtain ⟨-, -, b1, b2⟩ := sqrt2_bounds
  obtain ⟨-, -, -, t1, t2, t3⟩ := ties_hypot
  have hu : uro (qf binary64 (by decide)) = 1 / 2 ^ 53 := rfl
  have := hypot_bits_of hypot_f64 ⟨by decide, by decide⟩ (by decide) (by decide) _ _ _ _ sqrt2_f64 t1 t2 hypot_kinds.2
    c1 c2 c3 c4 (by unfold sqrt2_f64; norm_num) (by exact b1)
    (by exact b2) lib x y qx qy hx hy vx vy hmx env he hfin o ho
  exact this

end FAVerif.Props.C02
