import FAVerif.Models.Poly
namespace FAVerif.Props.C16
end FAVerif.Props.C16
