/-
C16 — polynomial utilities are exact polynomial algebra.
Only the property statements, one-line proofs referring to `Lemmas/Poly.lean`, non-vacuity
examples and the regression witnesses of the three defects repaired in /repo live here.

Vocabulary (defined in Lemmas/Poly.lean, characterised by `toPoly_def`, `fromRatio_def` below):
  `toPoly cs`      the Mathlib polynomial Σ cs[i]·Xⁱ
  `orient rev l`   `l` if `rev = false`, `l.reverse` if `rev = true` (lists with `reverse=True` are
                   highest degree first)
  `fromRatio rs`   prefix products rs[0]·…·rs[i] (the coefficients denoted by a ratio list)
  `SchemeOK σ N0 n`  σ(k, N0) ≤ k for 2 ≤ k ≤ n  (a scheme never splits beyond the sub-problem;
                   `d = 0` is allowed); `SchemeOKAll scheme n` the same for every `_N`
  `Shipped scheme` scheme ∈ {None, horner, estrin, balanced, canonical}
All theorems hold for every length (degree), every coefficient value, every argument, over any
commutative ring `α` (a field where the code divides).
-/
import FAVerif.Lemmas.Poly

namespace FAVerif.Props.C16
open FAVerif.Poly Polynomial

section Ring
variable {α : Type} [CommRing α]

/-- `toPoly cs` is the polynomial Σ cs[i]·Xⁱ. -/
theorem toPoly_def (cs : List α) : toPoly cs = ∑ i ∈ Finset.range cs.length, C (cs.getD i 0) * X ^ i :=
  toPoly_eq_sum cs

/-- the `i`-th coefficient of `toPoly cs` is `cs[i]` (0 beyond the list) -/
theorem toPoly_coeff (cs : List α) (i : ℕ) : (toPoly cs).coeff i = cs.getD i 0 := coeff_toPoly cs i

/-- `fromRatio rs` has the prefix products as entries: `coeffs[i] = rcoeffs[0]·…·rcoeffs[i]`. -/
theorem fromRatio_def (rs : List α) (i : ℕ) (h : i < rs.length) :
    (fromRatio rs).length = rs.length ∧ (fromRatio rs).getD i 0 = ∏ j ∈ Finset.range (i + 1), rs.getD j 0 :=
  ⟨fromRatio_length rs, fromRatio_getD rs i h⟩

/-- **pow**: `polynomial.fast_exponent_by_squaring(x, n) = xⁿ` for every n. -/
theorem pow (x : α) (n : ℕ) : fastPow x n = x ^ n := fastPow_eq x n

/-- **pow_fpa**: `floating_point_algorithms.fast_exponent_by_squaring(ctx, x, n) = xⁿ`. -/
theorem pow_fpa (x : α) (n : ℕ) : Fpa.fastPow x n = x ^ n := Fpa.fastPow_eq x n

/-- the model's `math.comb` is the binomial coefficient -/
theorem choose_eq (n k : ℕ) : FAVerif.Poly.choose n k = Nat.choose n k := FAVerif.Poly.choose_eq n k

/-- **eval**: `polynomial.fast_polynomial(x, coeffs, reverse, scheme)` — including the
`len(coeffs) > 500` switch to the alternative scheme and the `d == 0` branch — returns
Σ cᵢ xⁱ (coefficients read backwards when `reverse`), for every admissible scheme. -/
theorem eval (x : α) (cs : List α) (rev : Bool) (scheme : Option Scheme) (hne : cs ≠ [])
    (h : ∀ s, scheme = some s → SchemeOK s (cs.length - 1) (cs.length - 1)) :
    fastPolynomial x cs rev scheme = ∑ i ∈ Finset.range cs.length, (orient rev cs).getD i 0 * x ^ i := by
  rw [fastPolynomial_eq x cs rev scheme hne h, evalPoly_eq_sum]; cases rev <;> simp [orient]

/-- **eval_fpa**: the same for `floating_point_algorithms.fast_polynomial(ctx, x, coeffs, reverse, scheme)`. -/
theorem eval_fpa (x : α) (cs : List α) (rev : Bool) (scheme : Option Scheme) (hne : cs ≠ [])
    (h : ∀ s, scheme = some s → SchemeOK s (cs.length - 1) (cs.length - 1)) :
    Fpa.fastPolynomial x cs rev scheme = ∑ i ∈ Finset.range cs.length, (orient rev cs).getD i 0 * x ^ i := by
  rw [Fpa.fastPolynomial_eq x cs rev scheme hne h, evalPoly_eq_sum]; cases rev <;> simp [orient]

/-- **schemes**: every scheme shipped with the code (Horner, Estrin = ⌊ln k⌋, balanced, canonical) is
admissible for every size and every `_N`. -/
theorem schemes (N0 n : ℕ) :
    SchemeOK hornerScheme N0 n ∧ SchemeOK estrinScheme N0 n ∧ SchemeOK balancedScheme N0 n ∧
    SchemeOK canonicalScheme N0 n :=
  ⟨schemeOK_horner N0 n, schemeOK_estrin N0 n, schemeOK_balanced N0 n, schemeOK_canonical N0 n⟩

/-- The Estrin scheme returns `d = 0` exactly for sub-problems of degree k < 3, i.e. (k ≥ 2) at
k = 2: this is where the `d == 0` branch of `fast_polynomial` runs. -/
theorem estrin_zero_iff (k N : ℕ) : estrinScheme k N = 0 ↔ k < 3 := estrin_zero_iff' k N

/-- **eval_shipped**: with any shipped scheme (or none) both `fast_polynomial`s return Σ cᵢ xⁱ,
no hypothesis left. -/
theorem eval_shipped (x : α) (cs : List α) (rev : Bool) (scheme : Option Scheme) (hne : cs ≠ [])
    (hs : Shipped scheme) :
    fastPolynomial x cs rev scheme = ∑ i ∈ Finset.range cs.length, (orient rev cs).getD i 0 * x ^ i ∧
    Fpa.fastPolynomial x cs rev scheme = ∑ i ∈ Finset.range cs.length, (orient rev cs).getD i 0 * x ^ i :=
  ⟨eval x cs rev scheme hne (shipped_ok hs _ _), eval_fpa x cs rev scheme hne (shipped_ok hs _ _)⟩

/-- **horner**: `floating_point_algorithms.horner(ctx, x, coeffs, reverse)` returns Σ cᵢ xⁱ
(coefficients read backwards when `reverse`, the default). -/
theorem horner (x : α) (cs : List α) (rev : Bool) (hne : cs ≠ []) :
    Fpa.horner x cs rev = ∑ i ∈ Finset.range cs.length, (orient rev cs).getD i 0 * x ^ i := by
  rw [Fpa.horner_eq x cs rev hne, evalPoly_eq_sum]; cases rev <;> simp [orient]

/-- **rpoly**: `polynomial.rpolynomial(x, rcoeffs, reverse)` evaluates the polynomial whose
coefficients are the prefix products of the ratio list — for every ratio list, zeros included. -/
theorem rpoly (x : α) (rs : List α) (rev : Bool) (hne : rs ≠ []) :
    rpolynomial x rs rev = ∑ i ∈ Finset.range rs.length, (fromRatio (orient rev rs)).getD i 0 * x ^ i := by
  rw [rpolynomial_eq x rs rev hne, evalPoly_eq_sum, fromRatio_length]; cases rev <;> simp [orient]

/-- **rpoly_fpa**: the same for `floating_point_algorithms.rpolynomial(ctx, x, rcoeffs, reverse)`. -/
theorem rpoly_fpa (x : α) (rs : List α) (rev : Bool) (hne : rs ≠ []) :
    Fpa.rpolynomial x rs rev = ∑ i ∈ Finset.range rs.length, (fromRatio (orient rev rs)).getD i 0 * x ^ i := by
  rw [Fpa.rpolynomial_eq x rs rev hne, evalPoly_eq_sum, fromRatio_length]; cases rev <;> simp [orient]

/-- **mul**: `polynomial.multiply(P, Q, reverse)` is the product polynomial. -/
theorem mul (P Q : List α) (rev : Bool) :
    toPoly (orient rev (multiply P Q rev)) = toPoly (orient rev P) * toPoly (orient rev Q) :=
  multiply_spec P Q rev

/-- **add**: `polynomial.add(P, Q, reverse)` is the sum polynomial. -/
theorem add (P Q : List α) (rev : Bool) :
    toPoly (orient rev (FAVerif.Poly.add P Q rev)) = toPoly (orient rev P) + toPoly (orient rev Q) :=
  add_spec P Q rev

/-- **deriv**: `polynomial.derivative(P, n, reverse)` is Mathlib's derivative iterated n times. -/
theorem deriv (P : List α) (n : ℕ) (rev : Bool) :
    toPoly (orient rev (FAVerif.Poly.derivative P n rev))
      = (⇑(Polynomial.derivative (R := α)))^[n] (toPoly (orient rev P)) :=
  derivative_spec P n rev

/-- **taylor**: `polynomial.taylorat(P, z0, reverse)` (full size; with `reverse=True` the code ignores
`size`) is the re-expansion about z0, Mathlib's `taylor z0 P = P.comp (X + C z0)`. -/
theorem taylor (P : List α) (z0 : α) (rev : Bool) (size : Option ℕ) (hs : rev = false → size = none) :
    toPoly (orient rev (taylorat P z0 rev size)) = (Polynomial.taylor z0) (toPoly (orient rev P)) :=
  taylorat_spec P z0 rev size hs

/-- **taylor_size**: with `size=k` exactly the first k Taylor coefficients are returned. -/
theorem taylor_size (P : List α) (z0 : α) (k : ℕ) :
    (taylorat P z0 false (some k)).length = k ∧
    ∀ m, m < k → (taylorat P z0 false (some k)).getD m 0 = ((Polynomial.taylor z0) (toPoly P)).coeff m :=
  taylorat_size P z0 k

/-- **taylor_eval**: the docstring identity Σ C_m (z − z0)^m = Σ P_m z^m (the binomial identity). -/
theorem taylor_eval (P : List α) (z0 z : α) :
    ∑ m ∈ Finset.range (taylorat P z0).length, (taylorat P z0).getD m 0 * (z - z0) ^ m
      = ∑ m ∈ Finset.range P.length, P.getD m 0 * z ^ m := by
  rw [← evalPoly_eq_sum, ← evalPoly_eq_sum]; exact taylorat_eval P z0 z

end Ring

section Field
variable {α : Type} [Field α]

/-- **ratio_inverse**: `asrpolynomial` (coefficients → ratios) and the prefix-product map
(ratios → coefficients) are mutually inverse on lists whose entries, except possibly the
last, are non-zero (exactly where `asrpolynomial` does not divide by zero). -/
theorem ratio_inverse (l : List α) (hne : l ≠ []) (h : ∀ c ∈ l.dropLast, c ≠ 0) :
    fromRatio (asrpolynomial l) = l ∧ asrpolynomial (fromRatio l) = l :=
  ⟨fromRatio_asrCore l hne h, asrCore_fromRatio l hne h⟩

/-- **ratio_roundtrip**: evaluating the ratio form of a polynomial gives the polynomial:
`rpolynomial(x, asrpolynomial(c, reverse), reverse) = Σ cᵢ xⁱ` (both modules, both flags). -/
theorem ratio_roundtrip (x : α) (cs : List α) (rev : Bool) (hne : cs ≠ [])
    (h : ∀ c ∈ (orient rev cs).dropLast, c ≠ 0) :
    rpolynomial x (asrpolynomial cs rev) rev = ∑ i ∈ Finset.range cs.length, (orient rev cs).getD i 0 * x ^ i ∧
    Fpa.rpolynomial x (asrpolynomial cs rev) rev = ∑ i ∈ Finset.range cs.length, (orient rev cs).getD i 0 * x ^ i := by
  have := ratio_roundtrip' x cs rev hne h
  rw [this.1, this.2, evalPoly_eq_sum]; cases rev <;> simp [orient]

/-- **laurent**: `floating_point_algorithms.laurent(ctx, z, C, m, reverse, scheme)` returns
Σ_j C[j]·z^(j+m) — all four cases (m = 0, m > 0, −m < len C, −m ≥ len C), both flags; z ≠ 0 is
needed only when m < 0. -/
theorem laurent (z : α) (Cs : List α) (m : ℤ) (rev : Bool) (scheme : Option Scheme)
    (hne : Cs ≠ []) (hz : m < 0 → z ≠ 0) (h : SchemeOKAll scheme (Cs.length - 1)) :
    Fpa.laurent z Cs m rev scheme
      = ∑ j ∈ Finset.range Cs.length, (orient rev Cs).getD j 0 * z ^ ((j : ℤ) + m) :=
  Fpa.laurent_sum z Cs m rev scheme hne hz h

/-- every shipped scheme satisfies the hypothesis of `laurent` -/
theorem laurent_shipped (scheme : Option Scheme) (hs : Shipped scheme) (n : ℕ) : SchemeOKAll scheme n :=
  fun s h N0 => shipped_ok hs N0 n s h

variable [DecidableEq α]

/-- **divmod**: for a non-zero divisor `polynomial.divmod(P, D, reverse)` returns (Q, R) with
P = Q·D + R and deg R < deg D (trailing zeros of the inputs are immaterial); hence Q and R are
Mathlib's Euclidean quotient and remainder. -/
theorem divmod (P D : List α) (rev : Bool) (hD : toPoly (orient rev D) ≠ 0) :
    ∃ Q R, FAVerif.Poly.divmod P D rev = some (Q, R) ∧
      toPoly (orient rev P) = toPoly (orient rev Q) * toPoly (orient rev D) + toPoly (orient rev R) ∧
      (toPoly (orient rev R)).degree < (toPoly (orient rev D)).degree ∧
      toPoly (orient rev Q) = toPoly (orient rev P) / toPoly (orient rev D) ∧
      toPoly (orient rev R) = toPoly (orient rev P) % toPoly (orient rev D) :=
  divmod_spec P D rev hD

/-- `divmod` fails (IndexError at `D[-1]`) exactly for the zero divisor. -/
theorem divmod_none_iff (P D : List α) (rev : Bool) :
    FAVerif.Poly.divmod P D rev = none ↔ toPoly (orient rev D) = 0 :=
  divmod_none_iff' P D rev

end Field

/-! ### Regression witnesses (kernel-evaluated on the model; the same inputs are replayed on the
real code from corpus/C16 on every run).  Before the `fix:` commits in /repo the results were
`0`, `3`, `([1], [])` and `([1, 1], [1, 0, -1])`. -/

/-- 6dbe6ab: the `d == 0` branch (`range(1, N + 1)`) keeps the top term: Estrin scheme on x². -/
theorem regression_d0_branch :
    fastPolynomial (1 : ℤ) [0, 0, 1] false (some estrinScheme) = 1 ∧
    Fpa.fastPolynomial (1 : ℤ) [0, 0, 1] false (some estrinScheme) = 1 ∧
    fastPolynomial (2 : ℤ) [1, 2, 3, 4, 5, 6, 7, 8] true (some estrinScheme) = 502 := by decide

/-- 6aba85f: `horner(reverse=True)` reads coeffs[1..N]: 1·x + 2 at x = 2. -/
theorem regression_horner_reverse :
    Fpa.horner (2 : ℤ) [1, 2] true = 4 ∧ Fpa.horner (2 : ℤ) [1, 2, 3] true = 11 := by decide

/-- 43dcef8: `divmod` when the quotient has a zero coefficient: x² / x = x, and
(x³ + 1) / x² = x remainder 1. -/
theorem regression_divmod :
    FAVerif.Poly.divmod ([0, 0, 1] : List ℚ) [0, 1] = some ([0, 1], []) ∧
    FAVerif.Poly.divmod ([1, 0, 0, 1] : List ℚ) [0, 0, 1] = some ([0, 1], [1]) ∧
    FAVerif.Poly.divmod ([1, 0, 0, 1] : List ℚ) [1, 0, 0] true = some ([1, 0], [1]) := by decide +kernel

/-! ### Non-vacuity: the hypotheses are met by concrete non-trivial instances. -/

example : SchemeOK estrinScheme 7 7 ∧ estrinScheme 2 7 = 0 ∧ estrinScheme 7 7 = 1 ∧ estrinScheme 8 8 = 2 :=
  ⟨(schemes 7 7).2.1, by decide, by decide, by decide⟩
example : Shipped (some estrinScheme) := Or.inr (Or.inr (Or.inl rfl))
example : ([1, 2, 3, 4, 5, 6, 7, 8] : List ℤ) ≠ [] := by decide
example : ∀ c ∈ ([3, -2, 5, 0] : List ℚ).dropLast, c ≠ 0 := by decide +kernel
example : asrpolynomial ([3, -2, 5, 0] : List ℚ) = [3, -2/3, -5/2, 0] := by decide +kernel
example : (-3 : ℤ) < 0 → (2 : ℚ) ≠ 0 := fun _ => by decide +kernel
example : toPoly (orient false ([0, 1] : List ℚ)) ≠ 0 := by
  intro h; have := congrArg (fun p => p.coeff 1) h; simp at this
example : taylorat ([1, 2, 3] : List ℤ) 2 = [17, 14, 3] := by decide
example : multiply ([1, 2] : List ℤ) [3, 0, 1] = [3, 6, 1, 2] := by decide
example : FAVerif.Poly.derivative ([1, 2, 3, 4] : List ℤ) 2 = [6, 24] := by decide

end FAVerif.Props.C16
