/-
C03, second part — symmetries of the algorithms that call libm, through the verified symmetry
analyser (Models/Sym.lean; soundness in Lemmas/SymSound.lean).  `symmetry_analyser_sound` holds for
every program, format and oracle; the per-program facts `outDescs p cfg = …` are kernel-evaluated on
the programs regenerated from the current source (Generated/C03.lean).
-/
import FAVerif.Lemmas.SymSound
import FAVerif.Generated.C03

namespace FAVerif.Props.C03
open FAVerif.IR FAVerif.FP FAVerif.Gen.C03 FAVerif.SoftRound

/-! ### Symmetries of the libm-based algorithms, through the verified analyser -/
open FAVerif.Sym

/-- **Soundness of the symmetry analyser**, for every program `p`, every format with p ≥ 2, ew ≥ 2,
every transcendental oracle satisfying `LibOK` (ignores NaN payloads; atan2 odd in its first
argument, cos even, sin odd, sign odd off zero),
and every pair of input vectors related as `cfg` says: whenever both evaluations are defined,
output i of the transformed run is related to output i of the original run by the descriptor the
analyser computed (`same`: equal bits or both NaN; `neg`: equal to the negation, or both NaN). -/
theorem symmetry_analyser_sound (p : Prog) (hf : 2 ≤ p.fmt.p ∧ 2 ≤ p.fmt.ew) (cfg : Cfg) (lib : Libm) (hlib : LibOK p.fmt lib)
    (ins ins' : List Nat) (hins : InsOK p.fmt cfg ins ins') (outs outs' : List Nat)
    (h : p.eval lib ins = some outs) (h' : p.eval lib ins' = some outs') :
    ∀ (i : Nat) (d : Desc) (o o' : Nat), (outDescs p cfg)[i]? = some d → outs[i]? = some o → outs'[i]? = some o' →
      Rel p.fmt d o' o :=
  outDescs_sound p ⟨hf.1, hf.2⟩ cfg lib hlib ins ins' hins outs outs' h h'

/-- programs whose conjugation symmetry the analyser decides completely -/
def conjProgs : List Prog :=
  [acos_complex64, acos_complex128, acosh_complex64, acosh_complex128, asin_complex64, asin_complex128,
   asinh_complex64, asinh_complex128, atan_complex64, atan_complex128, exp_complex64, exp_complex128,
   sqrt_complex64, sqrt_complex128, square_complex64, square_complex128]

/-- programs for which it decides the imaginary part only (the real part goes through a compensated
sum whose cancellations the analyser does not follow) -/
def conjImagProgs : List Prog :=
  [atanh_complex64, atanh_complex128, log_complex64, log_complex128, log10_complex64, log10_complex128,
   log1p_complex64, log1p_complex128, log2_complex64, log2_complex128]

def oddProgs : List Prog := [asin_complex64, asin_complex128, asinh_complex64, asinh_complex128]
def oddRealProgs : List Prog := [asin_float32, asin_float64, asinh_float32, asinh_float64]

/-- what the analyser decides under z ↦ −z for the remaining programs, per output component
(`unk` = not decided here; decided by search) -/
def oddPartial : List (Prog × List Desc) :=
  [(atan_complex64, [.neg, .unk]), (atan_complex128, [.neg, .unk]),
   (atanh_complex64, [.unk, .neg]), (atanh_complex128, [.unk, .neg]),
   (acos_complex64, [.unk, .neg]), (acos_complex128, [.unk, .neg]),
   (acosh_complex64, [.same, .unk]), (acosh_complex128, [.same, .unk]),
   (square_complex64, [.unk, .same]), (square_complex128, [.unk, .same])]

theorem conj_descs : ∀ p ∈ conjProgs, outDescs p conjCfg = [.same, .neg] ∧ 2 ≤ p.fmt.p ∧ 2 ≤ p.fmt.ew := by decide +kernel
theorem conj_imag_descs : ∀ p ∈ conjImagProgs, outDescs p conjCfg = [.unk, .neg] ∧ 2 ≤ p.fmt.p ∧ 2 ≤ p.fmt.ew := by decide +kernel
theorem odd_descs : ∀ p ∈ oddProgs, outDescs p oddCfg = [.neg, .neg] ∧ 2 ≤ p.fmt.p ∧ 2 ≤ p.fmt.ew := by decide +kernel
theorem odd_real_descs : ∀ p ∈ oddRealProgs, outDescs p oddRealCfg = [.neg] ∧ 2 ≤ p.fmt.p ∧ 2 ≤ p.fmt.ew := by decide +kernel
theorem odd_partial_descs : ∀ e ∈ oddPartial, outDescs e.1 oddCfg = e.2 ∧ 2 ≤ e.1.fmt.p ∧ 2 ≤ e.1.fmt.ew := by decide +kernel
theorem abs_descs : ∀ p ∈ [absolute_complex64, absolute_complex128],
    outDescs p conjCfg = [.same] ∧ outDescs p oddCfg = [.same] ∧ 2 ≤ p.fmt.p ∧ 2 ≤ p.fmt.ew := by decide +kernel

/-- **f(conj z) = conj f(z)** for acos, acosh, asin, asinh, atan, exp, sqrt, square (complex64 and
complex128), for every real part x (NaN, ±inf, ±0 included) and every imaginary part y that is not
NaN and not ±0: real parts equal bit for bit (or both NaN), imaginary parts exactly negated (or both
NaN). -/
theorem conj_symmetric (p : Prog) (hp : p ∈ conjProgs) (lib : Libm) (hlib : LibOK p.fmt lib) (x y : Nat)
    (hy : isNaNBits p.fmt y = false) (hy0 : magBits p.fmt y ≠ 0) (re im re' im' : Nat)
    (h : p.eval lib [x, y] = some [re, im]) (h' : p.eval lib [x, FAVerif.FP.neg p.fmt y] = some [re', im']) :
    eqvN p.fmt re' re ∧ eqvN p.fmt im' (FAVerif.FP.neg p.fmt im) := by
  obtain ⟨hd, hf⟩ := conj_descs p hp
  exact sound2 p hf conjCfg _ _ hd lib hlib _ _ (insOK_conj x y hy hy0) re im re' im' h h'

/-- imaginary part of f(conj z) = −imaginary part of f(z) for atanh, log, log10, log1p, log2 -/
theorem conj_symmetric_imag (p : Prog) (hp : p ∈ conjImagProgs) (lib : Libm) (hlib : LibOK p.fmt lib) (x y : Nat)
    (hy : isNaNBits p.fmt y = false) (hy0 : magBits p.fmt y ≠ 0) (re im re' im' : Nat)
    (h : p.eval lib [x, y] = some [re, im]) (h' : p.eval lib [x, FAVerif.FP.neg p.fmt y] = some [re', im']) :
    eqvN p.fmt im' (FAVerif.FP.neg p.fmt im) := by
  obtain ⟨hd, hf⟩ := conj_imag_descs p hp
  exact (sound2 p hf conjCfg _ _ hd lib hlib _ _ (insOK_conj x y hy hy0) re im re' im' h h').2

/-- **complex asin and asinh are odd**: f(−z) = −f(z) bit for bit (or both NaN) whenever both parts
of z are neither NaN nor ±0. -/
theorem odd_symmetric (p : Prog) (hp : p ∈ oddProgs) (lib : Libm) (hlib : LibOK p.fmt lib) (x y : Nat)
    (hx : isNaNBits p.fmt x = false) (hx0 : magBits p.fmt x ≠ 0)
    (hy : isNaNBits p.fmt y = false) (hy0 : magBits p.fmt y ≠ 0) (re im re' im' : Nat)
    (h : p.eval lib [x, y] = some [re, im])
    (h' : p.eval lib [FAVerif.FP.neg p.fmt x, FAVerif.FP.neg p.fmt y] = some [re', im']) :
    eqvN p.fmt re' (FAVerif.FP.neg p.fmt re) ∧ eqvN p.fmt im' (FAVerif.FP.neg p.fmt im) := by
  obtain ⟨hd, hf⟩ := odd_descs p hp
  exact sound2 p hf oddCfg _ _ hd lib hlib _ _ (insOK_odd x y hx hx0 hy hy0) re im re' im' h h'

/-- **real asin and asinh are odd** (float32, float64): f(−x) = −f(x) for every x that is not NaN
and not ±0. -/
theorem odd_symmetric_real (p : Prog) (hp : p ∈ oddRealProgs) (lib : Libm) (hlib : LibOK p.fmt lib) (x : Nat)
    (hx : isNaNBits p.fmt x = false) (hx0 : magBits p.fmt x ≠ 0) (r r' : Nat)
    (h : p.eval lib [x] = some [r]) (h' : p.eval lib [FAVerif.FP.neg p.fmt x] = some [r']) :
    eqvN p.fmt r' (FAVerif.FP.neg p.fmt r) := by
  obtain ⟨hd, hf⟩ := odd_real_descs p hp
  exact sound1 p hf oddRealCfg _ hd lib hlib _ _ (insOK_oddReal x hx hx0) r r' h h'

/-- z ↦ −z on the other functions, component by component as listed in `oddPartial`: real part of
atan and imaginary parts of atanh and acos are negated, real part of acosh and imaginary part of
square are unchanged. -/
theorem odd_partial (e : Prog × List Desc) (he : e ∈ oddPartial) (lib : Libm) (hlib : LibOK e.1.fmt lib) (x y : Nat)
    (hx : isNaNBits e.1.fmt x = false) (hx0 : magBits e.1.fmt x ≠ 0)
    (hy : isNaNBits e.1.fmt y = false) (hy0 : magBits e.1.fmt y ≠ 0) (outs outs' : List Nat)
    (h : e.1.eval lib [x, y] = some outs)
    (h' : e.1.eval lib [FAVerif.FP.neg e.1.fmt x, FAVerif.FP.neg e.1.fmt y] = some outs') :
    ∀ (i : Nat) (d : Desc) (o o' : Nat), e.2[i]? = some d → outs[i]? = some o → outs'[i]? = some o' → Rel e.1.fmt d o' o := by
  obtain ⟨hd, hf⟩ := odd_partial_descs e he
  rw [← hd]
  exact symmetry_analyser_sound e.1 hf oddCfg lib hlib _ _ (insOK_odd x y hx hx0 hy hy0) outs outs' h h'

/-- **|conj z| = |z| and |−z| = |z|** for the complex absolute (hypot with libm-free scaling). -/
theorem absolute_symmetric (p : Prog) (hp : p ∈ [absolute_complex64, absolute_complex128]) (lib : Libm) (hlib : LibOK p.fmt lib)
    (x y : Nat) (hy : isNaNBits p.fmt y = false) (hy0 : magBits p.fmt y ≠ 0) (r r' : Nat)
    (h : p.eval lib [x, y] = some [r]) :
    (p.eval lib [x, FAVerif.FP.neg p.fmt y] = some [r'] → eqvN p.fmt r' r) ∧
    (isNaNBits p.fmt x = false → magBits p.fmt x ≠ 0 →
      p.eval lib [FAVerif.FP.neg p.fmt x, FAVerif.FP.neg p.fmt y] = some [r'] → eqvN p.fmt r' r) := by
  obtain ⟨hd1, hd2, hf⟩ := abs_descs p hp
  exact ⟨fun h' => sound1 p hf conjCfg _ hd1 lib hlib _ _ (insOK_conj x y hy hy0) r r' h h',
    fun hx hx0 h' => sound1 p hf oddCfg _ hd2 lib hlib _ _ (insOK_odd x y hx hx0 hy hy0) r r' h h'⟩

/-- non-vacuity: the input hypotheses are met by y = 0.25 (binary32), and `LibOK` by an oracle (the
constant-NaN one; the platform libm is sampled against `LibOK` on every run by the harness) -/
example : isNaNBits binary32 0x3e800000 = false ∧ magBits binary32 0x3e800000 ≠ 0 := by decide

end FAVerif.Props.C03
