/-
C08 — static types equal run-time types.  Property statements only.

Objects.  `Ty` = scalar types of typesystem.py (`bits = none`: the unsized "float", "integer", "complex", "boolean").
`nodeTy` / `nodeIsComplex` = hand port of `Expr.get_type` / `is_complex` (Models/Typing.lean).
`FAVerif.Gen.C08.tables` is REGENERATED from the repository on every run (fav/props/c08.py):
  `static`  the real `get_type` / `is_complex`, one real node per row (kind × operand types over
            {boolean, integer, integer32, integer64, float, float16, float32, float64, complex, complex64, complex128});
  `npOf`    the dtype OBSERVED when the text the real numpy printer emits for that node is executed on numpy scalars;
  `consts`, `symbols`  observed dtype of printed constants per value class / of the argument casts;
  `canon`   `type_to_target` (static type ↦ dtype it is printed as).
`staticTy g i` = `get_type` at node `i` of the DAG `g`; `dynTy np g i` = dtype produced at node `i` under the oracle `np`.
`Status` of a row: untyped (get_type raises) / unprintable / unobserved / error (code raises) / agree / disagree.

"Finite whole domain": theorems marked so are `decide +kernel` over EVERY row of the regenerated tables
(a Bool check per row, `Tables.allRows`), unpacked to the ∀-statement by `allRows_mem`.
-/
import FAVerif.Lemmas.Typing
import FAVerif.Generated.C08Tables

namespace FAVerif.Props.C08
open FAVerif.Typing FAVerif.Gen.C08

/-! ### Tie of the hand port to the code -/

/-- Bool form of `model_agree`: `modelRow` holds on every row of the regenerated table (finite whole domain). -/
theorem model_check : tables.allRows modelRow = true := by decide +kernel

/-- Bool form of `node_agree_partial` / `node_agree_exact`: the per-row agreement check `Tables.rowCheck` holds on every
row of the regenerated tables (finite whole domain).  A row that breaks it is named by `Drivers/Typing.lean rows`. -/
theorem row_check : tables.allRows tables.rowCheck = true := by decide +kernel

/-- **model_agree** (finite whole domain).  On every row of the regenerated extensional table the hand port
`nodeTy` returns what the real `Expr.get_type` returned (type, or "raises"), and `nodeIsComplex` what the real
`is_complex` returned. -/
theorem model_agree :
    ∀ r ∈ tables.static,
      nodeTy r.kind (r.args.map some) = r.ty ∧
      nodeIsComplex r.kind (r.args.map (fun t => some t.isComplex)) = r.isComplex := by
  intro r hr
  have h := allRows_mem tables modelRow model_check r hr
  simp only [modelRow, Bool.and_eq_true] at h
  exact ⟨(otyBeq_iff _ _).mp h.1, (oboolBeq_iff _ _).mp h.2⟩

/-! ### Per-node agreement -/

/- FULL STATEMENT (false of the code as written — see `node_agree_fails`):
     ∀ r ∈ tables.static, wtRow r.kind r.args = true → tables.status r ≠ .disagree
   i.e. on every well-typed use, whenever the emitted code yields a value its dtype is the printed static type. -/

/-- **node_agree_partial** (finite whole domain).  For every (kind, operand-type tuple) row that is a well-typed use
(`wtRow`) and does not fall under one of the known deviation classes (`cause`, a function of the kind and operand
types only): the static type and the observed NumPy dtype do not disagree. -/
theorem node_agree_partial :
    ∀ r ∈ tables.static, wtRow r.kind r.args = true → cause r.kind r.idx r.args = none →
      tables.status r ≠ .disagree := by
  intro r hr hwt hc
  exact partial_of_rowCheck tables r (allRows_mem tables _ row_check r hr) hwt hc

/-- **node_agree_exact** (finite whole domain).  The exclusion is exact: among well-typed rows on which the code
produces a value, the rows that disagree are precisely those with a known cause. -/
theorem node_agree_exact :
    ∀ r ∈ tables.static, wtRow r.kind r.args = true →
      (tables.status r = .agree ∨ tables.status r = .disagree) →
      (tables.status r = .disagree ↔ (cause r.kind r.idx r.args).isSome = true) := by
  intro r hr hwt hst
  exact exact_of_rowCheck tables r (allRows_mem tables _ row_check r hr) hwt hst

/-- **node_agree_fails** (negation witnesses, one per deviation class; each is replayed on the real code by the
harness).  E.g. `float64 + complex64` is typed complex64 (Type.max looks only at the complex operand's width) while
NumPy yields complex128. -/
theorem node_agree_fails :
    (tables.rowAt .add 0 [Ty.f64, Ty.c64]).map tables.status = some .disagree ∧
    (tables.rowAt .multiply 0 [Ty.f32, Ty.f]).map tables.status = some .disagree ∧
    (tables.rowAt .subtract 0 [Ty.i64, Ty.f32]).map tables.status = some .disagree ∧
    (tables.rowAt .maximum 0 [Ty.f32, Ty.f64]).map tables.status = some .disagree ∧
    (tables.rowAt .copysign 0 [Ty.f32, Ty.f64]).map tables.status = some .disagree ∧
    (tables.rowAt .upcast 0 [Ty.f]).map tables.status = some .disagree ∧
    (tables.rowAt .sqrt 0 [Ty.i]).map tables.status = some .disagree ∧
    (tables.rowAt .item 0 [Ty.f32, Ty.f64]).map tables.status = some .disagree ∧
    wtRow .add [Ty.f64, Ty.c64] = true ∧ wtRow .multiply [Ty.f32, Ty.f] = true ∧ wtRow .subtract [Ty.i64, Ty.f32] = true ∧
    wtRow .maximum [Ty.f32, Ty.f64] = true ∧ wtRow .copysign [Ty.f32, Ty.f64] = true ∧ wtRow .upcast [Ty.f] = true ∧
    wtRow .sqrt [Ty.i] = true ∧ wtRow .item [Ty.f32, Ty.f64] = true := by
  decide +kernel

/-- **leaves_agree** (finite whole domain).  Argument casts and printed constants of every value class (Python bool /
int / float / complex, NumPy scalars, named constants) yield the dtype of the symbol's / the like's static type, or raise;
a constant's static type is its like's type. -/
theorem leaves_agree : tables.leavesOK = true := by
  decide +kernel

/-- **uniform_rows_clean** (finite whole domain).  On the uniform families that all shipped algorithms live in — every
operand boolean, float32 or complex64 (resp. float64 / complex128, resp. float16) — a well-typed row has no known
deviation, except Python max/min or `item` applied to operands of two DIFFERENT types of the family; and without a
deviation class it does not disagree. -/
theorem uniform_rows_clean :
    ∀ fam ∈ [[Ty.b, Ty.f32, Ty.c64], [Ty.b, Ty.f64, Ty.c128], [Ty.b, Ty.f16]],
      ∀ r ∈ tables.static, (r.args.all (fun t => fam.any (·.beq t))) = true → wtRow r.kind r.args = true →
        (cause r.kind r.idx r.args = none ∧ tables.status r ≠ .disagree) ∨
        cause r.kind r.idx r.args = some .builtinMaxMin ∨ cause r.kind r.idx r.args = some .itemHeterogeneous := by
  intro fam hfam r hr hargs hwt
  have key : ([[Ty.b, Ty.f32, Ty.c64], [Ty.b, Ty.f64, Ty.c128], [Ty.b, Ty.f16]].all
      (fun fam => tables.allRows (tables.familyRow fam))) = true := by decide +kernel
  have h := allRows_mem tables _ (List.all_eq_true.mp key fam hfam) r hr
  simp only [Tables.familyRow, hargs, hwt, Bool.not_true, Bool.false_or] at h
  cases hc : cause r.kind r.idx r.args with
  | none =>
    rw [hc] at h
    refine Or.inl ⟨rfl, fun hd => ?_⟩
    rw [hd] at h
    simp [Status.isDisagree] at h
  | some c => rw [hc] at h; cases c <;> simp at h ⊢

/-! ### Lattice -/

/-- **lattice.**  `Type.max` is commutative, idempotent, associative and monotone (for all types, all widths);
`complex_part` is a float type of half the width, and it is inverse to complexification in both directions. -/
theorem lattice :
    (∀ a b : Ty, a.max b = b.max a) ∧ (∀ a : Ty, a.max a = a) ∧
    (∀ a b c : Ty, (a.max b).max c = a.max (b.max c)) ∧
    (∀ a b c : Ty, a.max b = b → (a.max c).max (b.max c) = b.max c) ∧
    (∀ a b : Ty, a.valid = true → b.valid = true → (a.max b).valid = true) ∧
    (∀ t u : Ty, t.complexPart = some u → t.kind = .complex ∧ u.kind = .float ∧ u.bits = t.bits.map (· / 2)) ∧
    (∀ t c : Ty, t.kind = .float → t.valid = true → t.complexify = some c → c.complexPart = some t) ∧
    (∀ c t : Ty, c.valid = true → c.complexPart = some t → t.complexify = some c) :=
  ⟨Ty.max_comm, Ty.max_idem, Ty.max_assoc, Ty.max_mono, Ty.max_valid, complexPart_halves, complexPart_complexify,
   complexify_complexPart⟩

/-- `Type.max` in closed form — the root of three deviation classes: an operand of a smaller kind, or of an unsized
type, contributes nothing to the width. -/
theorem max_closed_form (a b : Ty) :
    a.max b = if a.kind.rank < b.kind.rank then b else if b.kind.rank < a.kind.rank then a
              else ⟨a.kind, omax a.bits b.bits⟩ :=
  Ty.max_eq a b

/-! ### Whole graphs (unbounded: every graph, every size, every sharing pattern) -/

/-- **graph_agree_abstract.**  For ANY NumPy oracle `np` and printing table `canon`: if every node of a graph meets
its per-node agreement obligation (`NodeOK`: the row of that node agrees under `np`), then at every node the dtype
produced — whenever one is produced — is the dtype the static type is printed as.  Induction over the DAG. -/
theorem graph_agree_abstract (np : NP) (canon : Ty → Option Ty) (g : Graph) (h : AllOK np canon [] g) :
    ∀ i t d, staticTy g i = some t → dynTy np g i = some d → canon t = some d :=
  agree_of_allOK np canon g h

/- FULL STATEMENT (false — see `graph_agree_fails`):
     ∀ g, g.wf → (every row of g is a well-typed use inside the table) → ∀ i t d, staticTy g i = some t →
       dynTy tables.toNP g i = some d → tables.canonTy t = some d -/

/-- **graph_agree.**  For every graph all of whose nodes are covered — the node's (kind, operand static types) row is
in the regenerated table, is a well-typed use, carries no known deviation class, and has a printable static type —
static type = observed dtype at EVERY node.  Per-node agreement is the kernel-checked table fact
(`node_agree_partial`, `model_agree`, `leaves_agree`), lifted to all graphs by the Typing induction. -/
theorem graph_agree (g : Graph) (hc : tables.covered g = true) :
    ∀ i t d, staticTy g i = some t → dynTy tables.toNP g i = some d → tables.canonTy t = some d :=
  agree_of_covered tables ⟨model_check, row_check⟩ leaves_agree g hc

/-- The debug-level-1 assertion the printer emits for node `i` (`assert v.dtype == <printed static type>`) fires
when the code produces a value whose dtype differs from the printed static type. -/
def assertFires (g : Graph) (i : Nat) : Prop :=
  ∃ t d, staticTy g i = some t ∧ dynTy tables.toNP g i = some d ∧ tables.canonTy t ≠ some d

/-- **asserts_never_fire.**  On a covered graph none of the emitted dtype assertions can fire, whichever nodes get one. -/
theorem asserts_never_fire (g : Graph) (hc : tables.covered g = true) : ∀ i, ¬ assertFires g i := by
  intro i ⟨t, d, hs, hd, hne⟩
  exact hne (graph_agree g hc i t d hs hd)

/-- **result_dtype.**  On a covered graph the returned value (last node) has the declared result dtype. -/
theorem result_dtype (g : Graph) (hc : tables.covered g = true) (t d : Ty)
    (hs : staticTy g (g.length - 1) = some t) (hd : dynTy tables.toNP g (g.length - 1) = some d) :
    tables.canonTy t = some d :=
  graph_agree g hc _ t d hs hd

/-- **graph_agree_fails** (negation witness of the full statement; replayed on the real code: the debug=1 function
of `x: float64, y: complex64 ↦ (x + y) * (x + y)` raises AssertionError).  The graph is well formed, every row is a
well-typed use inside the table, yet node 2 is typed complex64 and produces complex128. -/
theorem graph_agree_fails :
    let g : Graph := [.symbol Ty.f64, .symbol Ty.c64, .op .add 0 [0, 1], .op .multiply 0 [2, 2]]
    g.wf = true ∧ staticTy g 2 = some Ty.c64 ∧ dynTy tables.toNP g 2 = some Ty.c128 ∧
    tables.canonTy Ty.c64 = some Ty.c64 ∧ assertFires g 2 ∧ tables.covered g = false := by
  refine ⟨by decide +kernel, by decide +kernel, by decide +kernel, by decide +kernel, ?_, by decide +kernel⟩
  exact ⟨Ty.c64, Ty.c128, by decide +kernel, by decide +kernel, by decide +kernel⟩

/-! ### is_complex vs get_type (static consistency, reported as a note) -/

/-- **is_complex_consistent_partial** (finite whole domain).  Wherever both are defined, `is_complex` says "complex" iff
`get_type` is a complex type — exactly except (`icExcluded`): real-only functions of complex operands (flagged real,
typed complex), `conjugate` of a real (flagged complex, typed real), `select` with a real then-branch and a complex
else-branch (`is_complex` looks at the then-branch only). -/
theorem is_complex_consistent_partial :
    ∀ r ∈ tables.static, ∀ t c, r.ty = some t → r.isComplex = some c → (icExcluded r = false ↔ c = t.isComplex) := by
  intro r hr t c ht hc
  have h := allRows_mem tables icRow (by decide +kernel) r hr
  simp only [icRow, ht, hc] at h
  cases hx : icExcluded r <;> cases hcc : c <;> cases htc : t.isComplex <;> simp_all

/-! ### Non-vacuity -/

/-- a covered, non-trivial graph with sharing: x,y : float32, z : complex64;
`s = x + y; t = s * s; c = complex(t, x); w = c * z; r = abs(w); select(r < s, r, 1.5 like s)` -/
def demo : Graph :=
  [.symbol Ty.f32, .symbol Ty.f32, .symbol Ty.c64, .op .add 0 [0, 1], .op .multiply 0 [3, 3], .op .complex 0 [4, 0],
   .op .multiply 0 [5, 2], .op .absolute 0 [6], .op .lt 0 [7, 3], .const .pyfloat 3, .op .select 0 [8, 7, 9]]

example : demo.wf = true ∧ tables.covered demo = true ∧ staticTy demo 10 = some Ty.f32 ∧
    dynTy tables.toNP demo 10 = some Ty.f32 ∧ staticTy demo 6 = some Ty.c64 ∧ dynTy tables.toNP demo 6 = some Ty.c64 := by
  decide +kernel

example : Ty.f32.max Ty.f64 = Ty.f64 ∧ Ty.f64.max Ty.c64 = Ty.c64 ∧ Ty.c128.complexPart = some Ty.f64 ∧
    Ty.f32.complexify = some Ty.c64 := by decide +kernel

end FAVerif.Props.C08
