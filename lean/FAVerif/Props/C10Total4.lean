/-
C10 — Fast2Sum with the overflow guard (`add_2sum(..., fast=True, fix_overflow=True)`) on bit patterns, unconditional, for
float16, float32 and float64: on the stated box the guard is not taken, no operation overflows and the pair is the exact transformation.
-/
import FAVerif.Props.C10Total3

namespace FAVerif.Props.C10
open FAVerif.IR FAVerif.FP FAVerif.FPQ FAVerif.Gen.C10 FAVerif.Refine FAVerif.SoftRound FAVerif.Ovf FAVerif.EFT

theorem fast_fix_checks :
    overflowFree binary16 [10, 10] add_2sum_fast_fix_f16.nodes = true ∧ overflowFree binary32 [122, 122] add_2sum_fast_fix_f32.nodes = true ∧
    overflowFree binary64 [1018, 1018] add_2sum_fast_fix_f64.nodes = true ∧
    kindsOfS add_2sum_fast_fix_f16.nodes [] = some [false, false, false, false, false, false, true, false, false, false] ∧
    kindsOfS add_2sum_fast_fix_f32.nodes [] = some [false, false, false, false, false, false, true, false, false, false] ∧
    kindsOfS add_2sum_fast_fix_f64.nodes [] = some [false, false, false, false, false, false, true, false, false, false] := by
  decide +kernel

/-- the intermediate |RN(RN(x+y) − x)| stays below 2^(k+2) when |x|, |y| ≤ 2^k -/
lemma z_bound (q : QFmt) (r : ℚ → ℚ) (hr : IsRN q r) (k : ℤ) (hk : q.emin ≤ k) (qx qy : ℚ) (bx : |qx| ≤ 2 ^ k) (bY : |qy| ≤ 2 ^ k) :
    |r (r (qx + qy) - qx)| ≤ 2 ^ (k + 2) := by
  have p1 : (2 : ℚ) ^ (k + 1) = 2 ^ k + 2 ^ k := by
    rw [zpow_add₀ (by norm_num : (2 : ℚ) ≠ 0), zpow_one]; ring
  have p2 : (2 : ℚ) ^ (k + 2) = 2 ^ (k + 1) + 2 ^ (k + 1) := by
    rw [show k + 2 = (k + 1) + 1 by ring, zpow_add₀ (by norm_num : (2 : ℚ) ≠ 0) (k + 1), zpow_one]; ring
  have b1 : |r (qx + qy)| ≤ 2 ^ (k + 1) :=
    abs_rn_le_pow hr (by omega) (by rw [p1]; exact le_trans (abs_add_le _ _) (add_le_add bx bY))
  exact abs_rn_le_pow hr (by omega) (by
    rw [p2]
    refine le_trans (abs_sub _ _) (add_le_add b1 (le_trans bx ?_))
    exact zpow_le_zpow_right₀ (by norm_num) (by omega))

lemma pow124_le_maxRatf32 : (2 : ℚ) ^ (124 : ℤ) ≤ maxRat binary32 := by
  rw [maxRat_eq_Lmax]
  have h := pow_kmax_le_Lmax binary32 ⟨by decide, by decide⟩
  have hk : kmax binary32 = 127 := by decide +kernel
  rw [hk] at h
  exact le_trans (zpow_le_zpow_right₀ (by norm_num) (by norm_num)) h

/-- **Fast2Sum with the overflow guard on bit patterns, unconditional** (float16, |y| ≤ |x| ≤ 2^10) -/
theorem fast2sum_fix_total_f16 (lib : Libm) (x y : Nat) (qx qy : ℚ) (hx : isFiniteBits binary16 x = true) (hy : isFiniteBits binary16 y = true)
    (vx : toQ binary16 x = some qx) (vy : toQ binary16 y = some qy) (hxy : |qy| ≤ |qx|) (bx : |qx| ≤ 2 ^ (10 : ℤ)) :
    ∃ s t : Nat, add_2sum_fast_fix_f16.eval lib [x, y] = some [s, t] ∧ isFiniteBits binary16 s = true ∧ isFiniteBits binary16 t = true ∧
      ∃ qs qt : ℚ, toQ binary16 s = some qs ∧ toQ binary16 t = some qt ∧ qs = rne (qf binary16 (by decide)) (qx + qy) ∧ qs + qt = qx + qy := by
  have hf : WF binary16 := ⟨by decide, by decide⟩
  have hr := isRN_rne (qf binary16 hf.hp)
  have bY := le_trans hxy bx
  have hem : (qf binary16 hf.hp).emin ≤ (10 : ℤ) := by
    have : binary16.emin = -24 := by decide +kernel
    show binary16.emin ≤ 10
    omega
  have b2 := z_bound _ _ hr 10 hem qx qy bx bY
  have hq := (fast2sum_fix_generated (qf binary16 hf.hp) (rne (qf binary16 hf.hp)) hr qx qy (rep_of_finite _ hf hx vx) (rep_of_finite _ hf hy vy) hxy).2.1
    (le_trans b2 pow12_le_maxRatf16)
  obtain ⟨s, t, h1, h2, h3, h4, h5⟩ := total2 add_2sum_fast_fix_f16 hf Lmax_ge4.1 _ fast_fix_checks.2.2.2.1
    (by intro o ho; have : o = 2 ∨ o = 9 := by simpa [add_2sum_fast_fix_f16] using ho
        rcases this with rfl | rfl <;> decide)
    [10, 10] fast_fix_checks.1 lib [x, y] [qx, qy] (insRel2 hx hy vx vy) (hE_two bx bY) _ _ hq
  exact ⟨s, t, h1, h2, h3, _, _, h4, h5, rfl, by ring⟩

/-- **Fast2Sum with the overflow guard on bit patterns, unconditional** (float32, |y| ≤ |x| ≤ 2^122) -/
theorem fast2sum_fix_total_f32 (lib : Libm) (x y : Nat) (qx qy : ℚ) (hx : isFiniteBits binary32 x = true) (hy : isFiniteBits binary32 y = true)
    (vx : toQ binary32 x = some qx) (vy : toQ binary32 y = some qy) (hxy : |qy| ≤ |qx|) (bx : |qx| ≤ 2 ^ (122 : ℤ)) :
    ∃ s t : Nat, add_2sum_fast_fix_f32.eval lib [x, y] = some [s, t] ∧ isFiniteBits binary32 s = true ∧ isFiniteBits binary32 t = true ∧
      ∃ qs qt : ℚ, toQ binary32 s = some qs ∧ toQ binary32 t = some qt ∧ qs = rne (qf binary32 (by decide)) (qx + qy) ∧ qs + qt = qx + qy := by
  have hf : WF binary32 := ⟨by decide, by decide⟩
  have hr := isRN_rne (qf binary32 hf.hp)
  have bY := le_trans hxy bx
  have hem : (qf binary32 hf.hp).emin ≤ (122 : ℤ) := by
    have : binary32.emin = -149 := by decide +kernel
    show binary32.emin ≤ 122
    omega
  have b2 := z_bound _ _ hr 122 hem qx qy bx bY
  have hq := (fast2sum_fix_generated (qf binary32 hf.hp) (rne (qf binary32 hf.hp)) hr qx qy (rep_of_finite _ hf hx vx) (rep_of_finite _ hf hy vy) hxy).1
    (le_trans b2 pow124_le_maxRatf32)
  obtain ⟨s, t, h1, h2, h3, h4, h5⟩ := total2 add_2sum_fast_fix_f32 hf Lmax_ge4.2.1 _ fast_fix_checks.2.2.2.2.1
    (by intro o ho; have : o = 2 ∨ o = 9 := by simpa [add_2sum_fast_fix_f32] using ho
        rcases this with rfl | rfl <;> decide)
    [122, 122] fast_fix_checks.2.1 lib [x, y] [qx, qy] (insRel2 hx hy vx vy) (hE_two bx bY) _ _ hq
  exact ⟨s, t, h1, h2, h3, _, _, h4, h5, rfl, by ring⟩

/-- **Fast2Sum with the overflow guard on bit patterns, unconditional** (float64, |y| ≤ |x| ≤ 2^1018) -/
theorem fast2sum_fix_total_f64 (lib : Libm) (x y : Nat) (qx qy : ℚ) (hx : isFiniteBits binary64 x = true) (hy : isFiniteBits binary64 y = true)
    (vx : toQ binary64 x = some qx) (vy : toQ binary64 y = some qy) (hxy : |qy| ≤ |qx|) (bx : |qx| ≤ 2 ^ (1018 : ℤ)) :
    ∃ s t : Nat, add_2sum_fast_fix_f64.eval lib [x, y] = some [s, t] ∧ isFiniteBits binary64 s = true ∧ isFiniteBits binary64 t = true ∧
      ∃ qs qt : ℚ, toQ binary64 s = some qs ∧ toQ binary64 t = some qt ∧ qs = rne (qf binary64 (by decide)) (qx + qy) ∧ qs + qt = qx + qy := by
  have hf : WF binary64 := ⟨by decide, by decide⟩
  have hr := isRN_rne (qf binary64 hf.hp)
  have bY := le_trans hxy bx
  have hem : (qf binary64 hf.hp).emin ≤ (1018 : ℤ) := by
    have : binary64.emin = -1074 := by decide +kernel
    show binary64.emin ≤ 1018
    omega
  have b2 := z_bound _ _ hr 1018 hem qx qy bx bY
  have hq := (fast2sum_fix_generated (qf binary64 hf.hp) (rne (qf binary64 hf.hp)) hr qx qy (rep_of_finite _ hf hx vx) (rep_of_finite _ hf hy vy) hxy).2.2
    (le_trans b2 pow1020_le_maxRatf64)
  obtain ⟨s, t, h1, h2, h3, h4, h5⟩ := total2 add_2sum_fast_fix_f64 hf Lmax_ge4.2.2 _ fast_fix_checks.2.2.2.2.2
    (by intro o ho; have : o = 2 ∨ o = 9 := by simpa [add_2sum_fast_fix_f64] using ho
        rcases this with rfl | rfl <;> decide)
    [1018, 1018] fast_fix_checks.2.2.1 lib [x, y] [qx, qy] (insRel2 hx hy vx vy) (hE_two bx bY) _ _ hq
  exact ⟨s, t, h1, h2, h3, _, _, h4, h5, rfl, by ring⟩

/-- non-vacuity: the float32 patterns of 3.0 and 1.0 meet the hypotheses -/
example : isFiniteBits binary32 0x40400000 = true ∧ isFiniteBits binary32 0x3f800000 = true ∧
    toQ binary32 0x40400000 = some 3 ∧ toQ binary32 0x3f800000 = some 1 := by decide +kernel

end FAVerif.Props.C10
